import EmmyVerif.Model.Exit
/-! Helper lemmas about the `Exit` model: the receive loop is a fold over the consumed prefix,
and each accumulator has a closed form. -/
namespace Exit

theorem processed_nil (total count : Nat) : processed total count [] = [] := by
  unfold processed; split <;> simp

theorem processed_cons_stop (total count : Nat) (m : Msg) (rest : List Msg) (h : count + 1 = total) :
    processed total count (m :: rest) = [m] := by
  unfold processed
  have h1 : count < total := by omega
  have h2 : total - count = 1 := by omega
  simp [h1, h2]

theorem processed_cons_go (total count : Nat) (m : Msg) (rest : List Msg) (h : count + 1 ≠ total) :
    processed total count (m :: rest) = m :: processed total (count + 1) rest := by
  unfold processed
  by_cases h1 : count < total
  · have h2 : count + 1 < total := by omega
    have h3 : total - count = (total - (count + 1)) + 1 := by omega
    simp only [h1, h2, if_true]
    rw [h3, List.take_succ_cons]
  · have h2 : ¬ count + 1 < total := by omega
    simp [h1, h2]

/-- the loop with its manual completion count is a fold over the consumed messages -/
theorem loop_eq_foldl (total : Nat) (wae : Bool) (filt : Option Filter) :
    ∀ (msgs : List Msg) (count : Nat) (a : Acc),
      loop total wae filt count a msgs = (processed total count msgs).foldl (step wae filt) a := by
  intro msgs
  induction msgs with
  | nil => intro count a; simp [loop, processed_nil]
  | cons m rest ih =>
    intro count a
    by_cases h : count + 1 = total
    · simp [loop, h, processed_cons_stop total count m rest h]
    · rw [processed_cons_go total count m rest h]
      simp only [loop, h, if_false, List.foldl_cons]
      exact ih (count + 1) _

/-! ### accumulators of `countDiag` -/

theorem countDiag_written (wae : Bool) (a : Acc) (d : Diag) : (countDiag wae a d).written = a.written := by
  unfold countDiag; split <;> (try split) <;> (try split) <;> (try split) <;> rfl

theorem countDiag_hasError (wae : Bool) (a : Acc) (d : Diag) :
    (countDiag wae a d).hasError = (a.hasError || fatal wae d) := by
  unfold countDiag fatal
  by_cases h1 : d.sev = some 1
  · simp [h1]
  · by_cases h2 : d.sev = some 2
    · simp [h2]
    · by_cases h3 : d.sev = some 3
      · simp [h3]
      · by_cases h4 : d.sev = some 4
        · simp [h4]
        · simp [h1, h2, h3, h4]

theorem foldl_countDiag_written (wae : Bool) (ds : List Diag) (a : Acc) :
    (ds.foldl (countDiag wae) a).written = a.written := by
  induction ds generalizing a with
  | nil => rfl
  | cons d ds ih => simp [List.foldl_cons, ih, countDiag_written]

theorem foldl_countDiag_hasError (wae : Bool) (ds : List Diag) (a : Acc) :
    (ds.foldl (countDiag wae) a).hasError = (a.hasError || ds.any (fatal wae)) := by
  induction ds generalizing a with
  | nil => simp
  | cons d ds ih => simp [List.foldl_cons, ih, countDiag_hasError, Bool.or_assoc]

def isSev (n : Int) (d : Diag) : Bool := d.sev = some n

theorem countDiag_errors (wae : Bool) (a : Acc) (d : Diag) :
    (countDiag wae a d).errors = a.errors + (if isSev 1 d then 1 else 0) := by
  unfold countDiag isSev
  by_cases h1 : d.sev = some 1
  · simp [h1]
  · by_cases h2 : d.sev = some 2
    · simp [h2]
    · by_cases h3 : d.sev = some 3
      · simp [h3]
      · by_cases h4 : d.sev = some 4
        · simp [h4]
        · simp [h1, h2, h3, h4]

theorem countDiag_warnings (wae : Bool) (a : Acc) (d : Diag) :
    (countDiag wae a d).warnings = a.warnings + (if isSev 2 d then 1 else 0) := by
  unfold countDiag isSev
  by_cases h1 : d.sev = some 1
  · simp [h1]
  · by_cases h2 : d.sev = some 2
    · simp [h2]
    · by_cases h3 : d.sev = some 3
      · simp [h3]
      · by_cases h4 : d.sev = some 4
        · simp [h4]
        · simp [h1, h2, h3, h4]

theorem foldl_countDiag_errors (wae : Bool) (ds : List Diag) (a : Acc) :
    (ds.foldl (countDiag wae) a).errors = a.errors + ds.countP (isSev 1) := by
  induction ds generalizing a with
  | nil => simp
  | cons d ds ih =>
    simp only [List.foldl_cons, ih, countDiag_errors, List.countP_cons]; omega

theorem foldl_countDiag_warnings (wae : Bool) (ds : List Diag) (a : Acc) :
    (ds.foldl (countDiag wae) a).warnings = a.warnings + ds.countP (isSev 2) := by
  induction ds generalizing a with
  | nil => simp
  | cons d ds ih =>
    simp only [List.foldl_cons, ih, countDiag_warnings, List.countP_cons]; omega

/-! ### accumulators of `step` and of the fold -/

/-- the filtered diagnostics of one message -/
def kept (filt : Option Filter) (m : Msg) : List Diag :=
  match m.2 with
  | none => []
  | some ds => ds.filter (keep filt)

/-- the `write` call of one message (none when `diagnose_file` returned nothing) -/
def writeOf (filt : Option Filter) (m : Msg) : List (Nat × List Diag) :=
  match m.2 with
  | none => []
  | some ds => [(m.1, ds.filter (keep filt))]

theorem step_hasError (wae : Bool) (filt : Option Filter) (a : Acc) (m : Msg) :
    (step wae filt a m).hasError = (a.hasError || (kept filt m).any (fatal wae)) := by
  unfold step kept
  cases h : m.2 with
  | none => simp
  | some ds => simp [foldl_countDiag_hasError]

theorem step_written (wae : Bool) (filt : Option Filter) (a : Acc) (m : Msg) :
    (step wae filt a m).written = a.written ++ writeOf filt m := by
  unfold step writeOf
  cases h : m.2 with
  | none => simp
  | some ds => simp [foldl_countDiag_written]

theorem step_errors (wae : Bool) (filt : Option Filter) (a : Acc) (m : Msg) :
    (step wae filt a m).errors = a.errors + (kept filt m).countP (isSev 1) := by
  unfold step kept
  cases h : m.2 with
  | none => simp
  | some ds => simp [foldl_countDiag_errors]

theorem step_warnings (wae : Bool) (filt : Option Filter) (a : Acc) (m : Msg) :
    (step wae filt a m).warnings = a.warnings + (kept filt m).countP (isSev 2) := by
  unfold step kept
  cases h : m.2 with
  | none => simp
  | some ds => simp [foldl_countDiag_warnings]

theorem foldl_step_hasError (wae : Bool) (filt : Option Filter) (ms : List Msg) (a : Acc) :
    (ms.foldl (step wae filt) a).hasError = (a.hasError || ms.any (fun m => (kept filt m).any (fatal wae))) := by
  induction ms generalizing a with
  | nil => simp
  | cons m ms ih => simp [List.foldl_cons, ih, step_hasError, Bool.or_assoc]

theorem foldl_step_written (wae : Bool) (filt : Option Filter) (ms : List Msg) (a : Acc) :
    (ms.foldl (step wae filt) a).written = a.written ++ ms.flatMap (writeOf filt) := by
  induction ms generalizing a with
  | nil => simp
  | cons m ms ih => simp [List.foldl_cons, ih, step_written, List.append_assoc]

theorem foldl_step_errors (wae : Bool) (filt : Option Filter) (ms : List Msg) (a : Acc) :
    (ms.foldl (step wae filt) a).errors = a.errors + (ms.flatMap (kept filt)).countP (isSev 1) := by
  induction ms generalizing a with
  | nil => simp
  | cons m ms ih =>
    simp only [List.foldl_cons, ih, step_errors, List.flatMap_cons, List.countP_append]; omega

theorem foldl_step_warnings (wae : Bool) (filt : Option Filter) (ms : List Msg) (a : Acc) :
    (ms.foldl (step wae filt) a).warnings = a.warnings + (ms.flatMap (kept filt)).countP (isSev 2) := by
  induction ms generalizing a with
  | nil => simp
  | cons m ms ih =>
    simp only [List.foldl_cons, ih, step_warnings, List.flatMap_cons, List.countP_append]; omega

/-! ### report pairs -/

def pairsOf (e : Nat × List Diag) : List (Nat × Diag) := e.2.map (fun d => (e.1, d))

theorem flatMap_pairs_filter_nonempty (es : List (Nat × List Diag)) :
    (es.filter (fun e => !e.2.isEmpty)).flatMap pairsOf = es.flatMap pairsOf := by
  induction es with
  | nil => rfl
  | cons e es ih =>
    by_cases h : e.2.isEmpty
    · have h2 : e.2 = [] := by simpa using h
      simp [ih, pairsOf, h2]
    · simp [h, ih]

theorem reportPairs_eq (fmt : Format) (a : Acc) : reportPairs fmt a = a.written.flatMap pairsOf := by
  unfold reportPairs entries
  cases fmt
  · rfl
  · exact flatMap_pairs_filter_nonempty _
  · exact flatMap_pairs_filter_nonempty _

theorem flatMap_writeOf_pairs (filt : Option Filter) (ms : List Msg) :
    (ms.flatMap (writeOf filt)).flatMap pairsOf = filteredPairs filt ms := by
  unfold filteredPairs
  induction ms with
  | nil => rfl
  | cons m ms ih =>
    simp only [List.flatMap_cons, List.flatMap_append, ih]
    congr 1
    unfold writeOf pairsOf
    cases m.2 <;> simp

theorem mem_filteredPairs (filt : Option Filter) (ms : List Msg) (f : Nat) (d : Diag) :
    (f, d) ∈ filteredPairs filt ms ↔ ∃ ds, (f, some ds) ∈ ms ∧ d ∈ ds ∧ keep filt d = true := by
  unfold filteredPairs
  simp only [List.mem_flatMap]
  constructor
  · rintro ⟨m, hm, hp⟩
    obtain ⟨mf, mo⟩ := m
    cases mo with
    | none => simp at hp
    | some ds =>
      simp only [List.mem_map, List.mem_filter] at hp
      obtain ⟨d', ⟨hd, hk⟩, heq⟩ := hp
      cases heq
      exact ⟨ds, hm, hd, hk⟩
  · rintro ⟨ds, hm, hd, hk⟩
    exact ⟨(f, some ds), hm, by simp [List.mem_filter, hd, hk]⟩

theorem any_kept_iff (wae : Bool) (filt : Option Filter) (ms : List Msg) :
    ms.any (fun m => (kept filt m).any (fatal wae)) = true ↔
      ∃ p ∈ filteredPairs filt ms, fatal wae p.2 = true := by
  unfold filteredPairs kept
  simp only [List.any_eq_true, List.mem_flatMap]
  constructor
  · rintro ⟨m, hm, d, hd, hf⟩
    cases h : m.2 with
    | none => simp [h] at hd
    | some ds =>
      simp only [h] at hd
      exact ⟨(m.1, d), ⟨m, hm, by simp [h]; simpa using hd⟩, hf⟩
  · rintro ⟨p, ⟨m, hm, hp⟩, hf⟩
    cases h : m.2 with
    | none => simp [h] at hp
    | some ds =>
      simp only [h, List.mem_map] at hp
      obtain ⟨d, hd, rfl⟩ := hp
      exact ⟨m, hm, d, by simpa [h] using hd, hf⟩

theorem filteredPairs_sublist (filt : Option Filter) (msgs : List Msg) :
    (filteredPairs filt msgs).Sublist (filteredPairs none msgs) := by
  unfold filteredPairs
  induction msgs with
  | nil => simp
  | cons m ms ih =>
    simp only [List.flatMap_cons]
    refine List.Sublist.append ?_ ih
    cases m.2 with
    | none => simp
    | some ds =>
      have h : ds.filter (keep none) = ds := List.filter_eq_self.mpr (fun _ _ => rfl)
      dsimp only
      rw [h]
      exact List.Sublist.map _ List.filter_sublist

theorem filteredPairs_perm (filt : Option Filter) {m₁ m₂ : List Msg} (h : m₁.Perm m₂) :
    (filteredPairs filt m₁).Perm (filteredPairs filt m₂) := by
  unfold filteredPairs
  exact List.Perm.flatMap_right _ h

end Exit
