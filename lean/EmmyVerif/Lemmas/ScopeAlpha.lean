import EmmyVerif.Lemmas.ScopeRename
/-!
# Scope lemmas 6 — α-renaming a declaration with a fresh name preserves every resolution
-/
namespace Scope

/-- the environment after renaming the declaration at `d` -/
def renEnv (d : Nat) (new : Name) (env : Env) : Env := env.map fun e => (if e.2 = d then new else e.1, e.2)

def EnvFresh (new : Name) (env : Env) : Prop := ∀ e ∈ env, e.1 ≠ new

mutual
/-- the name occurs in the expression (as a use or as a declared name) -/
def mentionsExpr (x : Name) : Expr → Bool
  | .name n => n == x
  | .lit => false
  | .call f args => f == x || mentionsExprs x args
  | .func ps body => ps.contains x || mentionsBlock x body
def mentionsExprs (x : Name) : List Expr → Bool
  | [] => false
  | e :: es => mentionsExpr x e || mentionsExprs x es
def mentionsStat (x : Name) : Stat → Bool
  | .locl names vals => names.contains x || mentionsExprs x vals
  | .assign vars vals => vars.contains x || mentionsExprs x vals
  | .localFunc n ps body => n == x || ps.contains x || mentionsBlock x body
  | .funcStat n ps body => n == x || ps.contains x || mentionsBlock x body
  | .forNum v e1 e2 body => v == x || mentionsExpr x e1 || mentionsExpr x e2 || mentionsBlock x body
  | .forIn vs e body => vs.contains x || mentionsExpr x e || mentionsBlock x body
  | .while_ c body => mentionsExpr x c || mentionsBlock x body
  | .repeat_ body c => mentionsBlock x body || mentionsExpr x c
  | .do_ body => mentionsBlock x body
  | .if_ c t e => mentionsExpr x c || mentionsBlock x t || mentionsBlock x e
  | .callS f args => f == x || mentionsExprs x args
  | .loclAttr n val => n == x || mentionsExpr x val
  | .method obj _ colon ps body => obj == x || ps.contains x || (colon && selfName == x) || mentionsBlock x body
def mentionsBlock (x : Name) : List Stat → Bool
  | [] => false
  | st :: rest => mentionsStat x st || mentionsBlock x rest
end

/-! ### Environments -/

theorem lookup_ren_hit {d : Nat} {new : Name} {env : Env} (hf : EnvFresh new env) {n : Name}
    (h : lookupEnv env n = some d) : lookupEnv (renEnv d new env) new = some d := by
  induction env with
  | nil => simp [lookupEnv] at h
  | cons e rest ih =>
    obtain ⟨m, q⟩ := e
    have hfr : EnvFresh new rest := fun e he => hf e (List.mem_cons_of_mem _ he)
    simp only [lookupEnv] at h
    simp only [renEnv, List.map_cons, lookupEnv]
    by_cases hq : q = d
    · simp [hq]
    · have hm : m ≠ new := hf (m, q) (by simp)
      simp only [hq, if_false, hm]
      by_cases hmn : m = n
      · simp only [hmn, if_true, Option.some.injEq] at h; exact absurd h hq
      · simp only [hmn, if_false] at h; exact ih hfr h

theorem lookup_ren_miss {d : Nat} {new : Name} {env : Env} {n : Name} (hn : n ≠ new)
    (h : lookupEnv env n ≠ some d) : lookupEnv (renEnv d new env) n = lookupEnv env n := by
  induction env with
  | nil => rfl
  | cons e rest ih =>
    obtain ⟨m, q⟩ := e
    simp only [lookupEnv] at h
    simp only [renEnv, List.map_cons, lookupEnv]
    by_cases hmn : m = n
    · simp only [hmn, if_true] at h
      have hq : q ≠ d := fun hq => h (by rw [hq])
      simp [hmn, hq]
    · simp only [hmn, if_false] at h
      by_cases hq : q = d
      · simp only [hq, if_true, hmn, if_false]
        have : ¬ new = n := fun h' => hn h'.symm
        simp only [this, if_false]
        exact ih h
      · simp only [hq, if_false, hmn]
        exact ih h

/-- a renamed use under the renamed environment resolves like the use under the environment -/
theorem lookup_ren {d : Nat} {new : Name} {env : Env} (hf : EnvFresh new env) {n : Name} (hn : n ≠ new) :
    lookupEnv (renEnv d new env) (alphaUse d new env n) = lookupEnv env n := by
  unfold alphaUse
  by_cases h : lookupEnv env n = some d
  · simp only [h, if_true]; exact lookup_ren_hit hf h
  · simp only [h, if_false]; exact lookup_ren_miss hn h

theorem alphaBinders_length (d : Nat) (new : Name) (ns : List Name) : ∀ p, (alphaBinders d new p ns).length = ns.length := by
  induction ns with
  | nil => intro p; rfl
  | cons n ns ih => intro p; simp [alphaBinders, ih]

theorem bind_ren (d : Nat) (new : Name) (ns : List Name) : ∀ (env : Env) (p : Nat),
    renEnv d new (bindNames env p ns) = bindNames (renEnv d new env) p (alphaBinders d new p ns) := by
  induction ns with
  | nil => intro env p; rfl
  | cons n ns ih =>
    intro env p
    simp only [bindNames, alphaBinders]
    rw [ih]
    simp [renEnv]

theorem EnvFresh.bindNames {new : Name} (ns : List Name) : ∀ (env : Env) (p : Nat), EnvFresh new env →
    ns.contains new = false → EnvFresh new (bindNames env p ns) := by
  induction ns with
  | nil => intro env p h _; simpa [Scope.bindNames] using h
  | cons n ns ih =>
    intro env p h hc
    simp only [List.contains_cons, Bool.or_eq_false_iff, beq_eq_false_iff_ne] at hc
    simp only [Scope.bindNames]
    apply ih _ _ _ hc.2
    intro e he
    rcases List.mem_cons.mp he with rfl | he
    · exact fun h' => hc.1 h'.symm
    · exact h e he

theorem EnvFresh.cons {new : Name} {env : Env} (h : EnvFresh new env) (n : Name) (p : Nat) (hn : n ≠ new) :
    EnvFresh new ((n, p) :: env) := by
  intro e he
  rcases List.mem_cons.mp he with rfl | he
  · exact hn
  · exact h e he

theorem use_ren {d : Nat} {new : Name} {env : Env} (hf : EnvFresh new env) {n : Name} (hn : n ≠ new) (s : RefSt) :
    s.use (renEnv d new env) (alphaUse d new env n) = s.use env n := by
  simp only [RefSt.use, lookup_ren hf hn]

theorem uses_ren {d : Nat} {new : Name} {env : Env} (hf : EnvFresh new env) (vars : List Name)
    (hv : vars.contains new = false) : ∀ (s : RefSt),
    s.uses (renEnv d new env) (vars.map (alphaUse d new env)) = s.uses env vars := by
  induction vars with
  | nil => intro s; rfl
  | cons v vs ih =>
    intro s
    simp only [List.contains_cons, Bool.or_eq_false_iff, beq_eq_false_iff_ne] at hv
    simp only [List.map_cons, RefSt.uses, use_ren hf (fun h => hv.1 h.symm)]
    exact ih hv.2 _

/-! ### Sizes -/

theorem uses_pos (env : Env) (vars : List Name) : ∀ (s : RefSt), (s.uses env vars).pos = s.pos + 2 * vars.length := by
  induction vars with
  | nil => intro s; simp [RefSt.uses]
  | cons v vs ih => intro s; simp only [RefSt.uses, ih, RefSt.use_pos, List.length_cons]; omega

mutual
theorem sizeExpr_pos : ∀ (e : Expr) (env : Env) (s : RefSt), (refExpr env s e).pos = s.pos + 2 * sizeExpr e
  | .name n, env, s => by simp [refExpr, sizeExpr]
  | .lit, env, s => by simp [refExpr, sizeExpr]
  | .call f args, env, s => by
    simp only [refExpr, sizeExpr, RefSt.skip_pos, sizeExprs_pos args, RefSt.use_pos]; omega
  | .func ps body, env, s => by
    simp only [refExpr, sizeExpr, RefSt.skip_pos, sizeBlock_pos body]; omega
theorem sizeExprs_pos : ∀ (es : List Expr) (env : Env) (s : RefSt), (refExprs env s es).pos = s.pos + 2 * sizeExprs es
  | [], env, s => by simp [refExprs, sizeExprs]
  | e :: es, env, s => by simp only [refExprs, sizeExprs, sizeExprs_pos es, sizeExpr_pos e]; omega
theorem sizeStat_pos : ∀ (st : Stat) (env : Env) (s : RefSt), (refStat env s st).1.pos = s.pos + 2 * sizeStat st
  | .locl names vals, env, s => by simp only [refStat, sizeStat, sizeExprs_pos vals, RefSt.skip_pos]; omega
  | .assign vars vals, env, s => by
    simp only [refStat, sizeStat, sizeExprs_pos vals, RefSt.skip_pos, uses_pos]; omega
  | .localFunc n ps body, env, s => by simp only [refStat, sizeStat, sizeBlock_pos body, RefSt.skip_pos]; omega
  | .funcStat n ps body, env, s => by
    simp only [refStat, sizeStat, sizeBlock_pos body, RefSt.skip_pos, RefSt.use_pos]; omega
  | .forNum v e1 e2 body, env, s => by
    simp only [refStat, sizeStat, sizeBlock_pos body, sizeExpr_pos e1, sizeExpr_pos e2, RefSt.skip_pos]; omega
  | .forIn vs e body, env, s => by
    simp only [refStat, sizeStat, sizeBlock_pos body, sizeExpr_pos e, RefSt.skip_pos]; omega
  | .while_ c body, env, s => by
    simp only [refStat, sizeStat, sizeBlock_pos body, sizeExpr_pos c, RefSt.skip_pos]; omega
  | .repeat_ body c, env, s => by
    simp only [refStat, sizeStat, sizeBlock_pos body, sizeExpr_pos c, RefSt.skip_pos]; omega
  | .do_ body, env, s => by simp only [refStat, sizeStat, sizeBlock_pos body, RefSt.skip_pos]; omega
  | .if_ c t e, env, s => by
    simp only [refStat, sizeStat, sizeBlock_pos t, sizeBlock_pos e, sizeExpr_pos c, RefSt.skip_pos]; omega
  | .callS f args, env, s => by
    simp only [refStat, sizeStat, RefSt.skip_pos, sizeExprs_pos args, RefSt.use_pos]; omega
  | .loclAttr n val, env, s => by simp only [refStat, sizeStat, sizeExpr_pos val, RefSt.skip_pos]; omega
  | .method obj k colon ps body, env, s => by
    simp only [refStat, sizeStat, sizeBlock_pos body, RefSt.skip_pos, RefSt.use_pos]; omega
theorem sizeBlock_pos : ∀ (b : List Stat) (env : Env) (s : RefSt), (refBlock env s b).1.pos = s.pos + 2 * sizeBlock b
  | [], env, s => by simp [refBlock, sizeBlock]
  | st :: rest, env, s => by simp only [refBlock, sizeBlock, sizeBlock_pos rest, sizeStat_pos st]; omega
end

theorem selfEnv_ren (d : Nat) (new : Name) (colon : Bool) (p : Nat) (env : Env) (h : (colon && decide (p = d)) = false) :
    selfEnv colon p (renEnv d new env) = renEnv d new (selfEnv colon p env) := by
  cases colon
  · rfl
  · simp only [Bool.true_and, decide_eq_false_iff_not] at h
    simp [selfEnv, renEnv, h]

theorem EnvFresh.selfEnv {new : Name} {env : Env} (h : EnvFresh new env) (colon : Bool) (p : Nat)
    (hn : (colon && selfName == new) = false) : EnvFresh new (selfEnv colon p env) := by
  cases colon
  · exact h
  · simp only [Bool.true_and, beq_eq_false_iff_ne] at hn
    exact h.cons selfName p hn

/-! ### The α-renamed program resolves like the program -/

section Alpha
variable (d : Nat) (new : Name)

mutual
theorem alphaExpr_ok : ∀ (e : Expr) (env : Env) (s : RefSt) (pos : Nat), pos = s.pos → EnvFresh new env →
    mentionsExpr new e = false → selfDeclAtExpr d pos e = false → refExpr (renEnv d new env) s (alphaExpr d new env pos e) = refExpr env s e
  | .name n, env, s, pos, hp, hf, hm, hs => by
    simp only [mentionsExpr, beq_eq_false_iff_ne] at hm
    simp only [alphaExpr, refExpr, use_ren hf hm]
  | .lit, env, s, pos, hp, hf, hm, hs => by simp only [alphaExpr, refExpr]
  | .call f args, env, s, pos, hp, hf, hm, hs => by
    simp only [mentionsExpr, Bool.or_eq_false_iff, beq_eq_false_iff_ne] at hm
    simp only [selfDeclAtExpr] at hs
    simp only [alphaExpr, refExpr, use_ren hf hm.1]
    rw [alphaExprs_ok args env _ (pos + 4) (by simp [hp]) hf hm.2 hs]
  | .func ps body, env, s, pos, hp, hf, hm, hs => by
    simp only [mentionsExpr, Bool.or_eq_false_iff] at hm
    simp only [selfDeclAtExpr] at hs
    subst hp
    simp only [alphaExpr, refExpr, alphaBinders_length, ← bind_ren]
    have := alphaBlock_ok body (bindNames env (s.pos + 4) ps) (s.skip (3 + ps.length)) (s.pos + 2 * (3 + ps.length)) rfl
      (EnvFresh.bindNames ps _ _ hf hm.1) hm.2 hs
    rw [this.1]
theorem alphaExprs_ok : ∀ (es : List Expr) (env : Env) (s : RefSt) (pos : Nat), pos = s.pos → EnvFresh new env →
    mentionsExprs new es = false → selfDeclAtExprs d pos es = false → refExprs (renEnv d new env) s (alphaExprs d new env pos es) = refExprs env s es
  | [], env, s, pos, hp, hf, hm, hs => by simp only [alphaExprs, refExprs]
  | e :: es, env, s, pos, hp, hf, hm, hs => by
    simp only [mentionsExprs, Bool.or_eq_false_iff] at hm
    simp only [selfDeclAtExprs, Bool.or_eq_false_iff] at hs
    simp only [alphaExprs, refExprs]
    rw [alphaExpr_ok e env s pos hp hf hm.1 hs.1]
    exact alphaExprs_ok es env _ _ (by rw [sizeExpr_pos, hp]) hf hm.2 hs.2
theorem alphaStat_ok : ∀ (st : Stat) (env : Env) (s : RefSt) (pos : Nat), pos = s.pos → EnvFresh new env →
    mentionsStat new st = false → selfDeclAtStat d pos st = false →
    (refStat (renEnv d new env) s (alphaStat d new env pos st).1).1 = (refStat env s st).1 ∧
    (refStat (renEnv d new env) s (alphaStat d new env pos st).1).2 = renEnv d new (refStat env s st).2 ∧
    (alphaStat d new env pos st).2 = (refStat env s st).2 ∧ EnvFresh new (refStat env s st).2
  | .locl names vals, env, s, pos, hp, hf, hm, hs => by
    simp only [mentionsStat, Bool.or_eq_false_iff] at hm
    simp only [selfDeclAtStat] at hs
    subst hp
    simp only [alphaStat, refStat, alphaBinders_length, ← bind_ren]
    have hv := alphaExprs_ok vals env (s.skip (1 + names.length + eqTokens vals)) _ rfl hf hm.2 hs
    have heq : eqTokens (alphaExprs d new env (s.pos + 2 * (1 + names.length + eqTokens vals)) vals) = eqTokens vals := by
      cases vals <;> simp [eqTokens, alphaExprs]
    rw [heq]
    exact ⟨hv, by first | trivial | rfl, by first | trivial | rfl, EnvFresh.bindNames names _ _ hf hm.1⟩
  | .assign vars vals, env, s, pos, hp, hf, hm, hs => by
    simp only [mentionsStat, Bool.or_eq_false_iff] at hm
    simp only [selfDeclAtStat] at hs
    subst hp
    simp only [alphaStat, refStat, uses_ren hf vars hm.1]
    have hv := alphaExprs_ok vals env ((s.uses env vars).skip 1) (s.pos + 2 * (vars.length + 1))
      (by simp [uses_pos]; omega) hf hm.2 hs
    exact ⟨hv, by first | trivial | rfl, by first | trivial | rfl, hf⟩
  | .localFunc n ps body, env, s, pos, hp, hf, hm, hs => by
    simp only [mentionsStat, Bool.or_eq_false_iff, beq_eq_false_iff_ne] at hm
    simp only [selfDeclAtStat] at hs
    subst hp
    have hf1 : EnvFresh new ((n, s.pos + 4) :: env) := hf.cons n _ hm.1.1
    have hb := alphaBlock_ok body (bindNames ((n, s.pos + 4) :: env) (s.pos + 8) ps) (s.skip (5 + ps.length))
      (s.pos + 2 * (5 + ps.length)) rfl (EnvFresh.bindNames ps _ _ hf1 hm.1.2) hm.2 hs
    have hren : renEnv d new ((n, s.pos + 4) :: env) = ((if s.pos + 4 = d then new else n), s.pos + 4) :: renEnv d new env := by
      simp [renEnv]
    simp only [alphaStat, refStat, alphaBinders_length, ← hren, ← bind_ren]
    exact ⟨by rw [hb.1], by first | trivial | rfl, by first | trivial | rfl, hf1⟩
  | .funcStat n ps body, env, s, pos, hp, hf, hm, hs => by
    simp only [mentionsStat, Bool.or_eq_false_iff, beq_eq_false_iff_ne] at hm
    simp only [selfDeclAtStat] at hs
    subst hp
    have hb := alphaBlock_ok body (bindNames env (s.pos + 6) ps) (((s.skip 1).use env n).skip (2 + ps.length))
      (s.pos + 2 * (4 + ps.length)) (by simp; omega) (EnvFresh.bindNames ps _ _ hf hm.1.2) hm.2 hs
    simp only [alphaStat, refStat, alphaBinders_length, ← bind_ren, use_ren hf hm.1.1]
    exact ⟨by rw [hb.1], by first | trivial | rfl, by first | trivial | rfl, hf⟩
  | .forNum v e1 e2 body, env, s, pos, hp, hf, hm, hs => by
    simp only [mentionsStat, Bool.or_eq_false_iff, beq_eq_false_iff_ne] at hm
    simp only [selfDeclAtStat, Bool.or_eq_false_iff] at hs
    subst hp
    have h1 := alphaExpr_ok e1 env (s.skip 3) (s.pos + 6) (by simp) hf hm.1.1.2 hs.1.1
    have h2 := alphaExpr_ok e2 env (refExpr env (s.skip 3) e1) (s.pos + 6 + 2 * sizeExpr e1)
      (by rw [sizeExpr_pos]; simp) hf hm.1.2 hs.1.2
    have hf1 : EnvFresh new ((v, s.pos + 2) :: env) := hf.cons v _ hm.1.1.1
    have hb := alphaBlock_ok body ((v, s.pos + 2) :: env) ((refExpr env (refExpr env (s.skip 3) e1) e2).skip 1)
      (s.pos + 8 + 2 * sizeExpr e1 + 2 * sizeExpr e2) (by simp only [RefSt.skip_pos, sizeExpr_pos]; omega) hf1 hm.2 hs.2
    have hren : renEnv d new ((v, s.pos + 2) :: env) = ((if s.pos + 2 = d then new else v), s.pos + 2) :: renEnv d new env := by
      simp [renEnv]
    simp only [alphaStat, refStat, h1, h2, ← hren]
    exact ⟨by rw [hb.1], by first | trivial | rfl, by first | trivial | rfl, hf⟩
  | .forIn vs e body, env, s, pos, hp, hf, hm, hs => by
    simp only [mentionsStat, Bool.or_eq_false_iff] at hm
    simp only [selfDeclAtStat, Bool.or_eq_false_iff] at hs
    subst hp
    have h1 := alphaExpr_ok e env (s.skip (2 + vs.length)) (s.pos + 2 * (2 + vs.length)) (by simp) hf hm.1.2 hs.1
    have hb := alphaBlock_ok body (bindNames env (s.pos + 2) vs) ((refExpr env (s.skip (2 + vs.length)) e).skip 1)
      (s.pos + 2 * (3 + vs.length) + 2 * sizeExpr e) (by simp only [RefSt.skip_pos, sizeExpr_pos]; omega)
      (EnvFresh.bindNames vs _ _ hf hm.1.1) hm.2 hs.2
    simp only [alphaStat, refStat, alphaBinders_length, h1, ← bind_ren]
    exact ⟨by rw [hb.1], by first | trivial | rfl, by first | trivial | rfl, hf⟩
  | .while_ c body, env, s, pos, hp, hf, hm, hs => by
    simp only [mentionsStat, Bool.or_eq_false_iff] at hm
    simp only [selfDeclAtStat, Bool.or_eq_false_iff] at hs
    subst hp
    have h1 := alphaExpr_ok c env (s.skip 1) (s.pos + 2) (by simp) hf hm.1 hs.1
    have hb := alphaBlock_ok body env ((refExpr env (s.skip 1) c).skip 1) (s.pos + 4 + 2 * sizeExpr c)
      (by simp only [RefSt.skip_pos, sizeExpr_pos]; omega) hf hm.2 hs.2
    simp only [alphaStat, refStat, h1]
    exact ⟨by rw [hb.1], by first | trivial | rfl, by first | trivial | rfl, hf⟩
  | .repeat_ body c, env, s, pos, hp, hf, hm, hs => by
    simp only [mentionsStat, Bool.or_eq_false_iff] at hm
    simp only [selfDeclAtStat, Bool.or_eq_false_iff] at hs
    subst hp
    have hb := alphaBlock_ok body env (s.skip 1) (s.pos + 2) (by simp) hf hm.1 hs.1
    have hc := alphaExpr_ok c (refBlock env (s.skip 1) body).2 ((refBlock env (s.skip 1) body).1.skip 1)
      (s.pos + 4 + 2 * sizeBlock body) (by simp only [RefSt.skip_pos, sizeBlock_pos]; omega) hb.2.2.2 hm.2 hs.2
    simp only [alphaStat, refStat, hb.1, hb.2.1, hb.2.2.1]
    exact ⟨hc, by first | trivial | rfl, by first | trivial | rfl, hf⟩
  | .do_ body, env, s, pos, hp, hf, hm, hs => by
    simp only [mentionsStat] at hm
    simp only [selfDeclAtStat] at hs
    subst hp
    have hb := alphaBlock_ok body env (s.skip 1) (s.pos + 2) (by simp) hf hm hs
    simp only [alphaStat, refStat]
    exact ⟨by rw [hb.1], by first | trivial | rfl, by first | trivial | rfl, hf⟩
  | .if_ c t e, env, s, pos, hp, hf, hm, hs => by
    simp only [mentionsStat, Bool.or_eq_false_iff] at hm
    simp only [selfDeclAtStat, Bool.or_eq_false_iff] at hs
    subst hp
    have h1 := alphaExpr_ok c env (s.skip 1) (s.pos + 2) (by simp) hf hm.1.1 hs.1.1
    have ht := alphaBlock_ok t env ((refExpr env (s.skip 1) c).skip 1) (s.pos + 4 + 2 * sizeExpr c)
      (by simp only [RefSt.skip_pos, sizeExpr_pos]; omega) hf hm.1.2 hs.1.2
    have he := alphaBlock_ok e env ((refBlock env ((refExpr env (s.skip 1) c).skip 1) t).1.skip 1)
      (s.pos + 6 + 2 * sizeExpr c + 2 * sizeBlock t)
      (by simp only [RefSt.skip_pos, sizeExpr_pos, sizeBlock_pos]; omega) hf hm.2 hs.2
    simp only [alphaStat, refStat, h1, ht.1]
    exact ⟨by rw [he.1], by first | trivial | rfl, by first | trivial | rfl, hf⟩
  | .callS f args, env, s, pos, hp, hf, hm, hs => by
    simp only [mentionsStat, Bool.or_eq_false_iff, beq_eq_false_iff_ne] at hm
    simp only [selfDeclAtStat] at hs
    simp only [alphaStat, refStat, use_ren hf hm.1]
    rw [alphaExprs_ok args env _ (pos + 4) (by simp [hp]) hf hm.2 hs]
    exact ⟨rfl, by first | trivial | rfl, by first | trivial | rfl, hf⟩
  | .loclAttr n val, env, s, pos, hp, hf, hm, hs => by
    simp only [mentionsStat, Bool.or_eq_false_iff, beq_eq_false_iff_ne] at hm
    simp only [selfDeclAtStat] at hs
    subst hp
    have hv := alphaExpr_ok val env (s.skip 6) (s.pos + 12) (by simp) hf hm.2 hs
    have hren : renEnv d new ((n, s.pos + 2) :: env) = ((if s.pos + 2 = d then new else n), s.pos + 2) :: renEnv d new env := by
      simp [renEnv]
    simp only [alphaStat, refStat, ← hren]
    exact ⟨hv, by first | trivial | rfl, by first | trivial | rfl, hf.cons n _ hm.1⟩
  | .method obj k colon ps body, env, s, pos, hp, hf, hm, hs => by
    simp only [mentionsStat, Bool.or_eq_false_iff, beq_eq_false_iff_ne] at hm
    simp only [selfDeclAtStat, Bool.or_eq_false_iff] at hs
    subst hp
    have hfS : EnvFresh new (selfEnv colon (s.pos + 4 * k) env) := hf.selfEnv colon _ (by
      cases colon <;> simp_all)
    have hb := alphaBlock_ok body (bindNames (selfEnv colon (s.pos + 4 * k) env) (s.pos + 6 + 4 * k) ps)
      (((s.skip 1).use env obj).skip (2 * k + 2 + ps.length)) (s.pos + 2 * (4 + 2 * k + ps.length)) (by simp; omega)
      (EnvFresh.bindNames ps _ _ hfS hm.1.1.2) hm.2 hs.2
    simp only [alphaStat, refStat, alphaBinders_length, use_ren hf hm.1.1.1, selfEnv_ren d new colon _ env hs.1, ← bind_ren]
    exact ⟨by rw [hb.1], by first | trivial | rfl, by first | trivial | rfl, hf⟩
theorem alphaBlock_ok : ∀ (b : List Stat) (env : Env) (s : RefSt) (pos : Nat), pos = s.pos → EnvFresh new env →
    mentionsBlock new b = false → selfDeclAtBlock d pos b = false →
    (refBlock (renEnv d new env) s (alphaBlock d new env pos b).1).1 = (refBlock env s b).1 ∧
    (refBlock (renEnv d new env) s (alphaBlock d new env pos b).1).2 = renEnv d new (refBlock env s b).2 ∧
    (alphaBlock d new env pos b).2 = (refBlock env s b).2 ∧ EnvFresh new (refBlock env s b).2
  | [], env, s, pos, hp, hf, hm, hs => by
    simp only [alphaBlock, refBlock]
    exact ⟨by first | trivial | rfl, by first | trivial | rfl, by first | trivial | rfl, hf⟩
  | st :: rest, env, s, pos, hp, hf, hm, hs => by
    simp only [mentionsBlock, Bool.or_eq_false_iff] at hm
    simp only [selfDeclAtBlock, Bool.or_eq_false_iff] at hs
    obtain ⟨a1, a2, a3, a4⟩ := alphaStat_ok st env s pos hp hf hm.1 hs.1
    simp only [alphaBlock, refBlock, a1, a2, a3]
    exact alphaBlock_ok rest _ _ _ (by rw [sizeStat_pos, hp]) a4 hm.2 hs.2
end

end Alpha

end Scope
