import EmmyVerif.Model.DiagSyntax
import EmmyVerif.Lemmas.TextSplit
/-! Lemmas for C21: `getLineCol` is monotone and lands inside the document; `dedup`. -/
namespace Diag
open Text

/-- position order (line, then character) -/
def posLe (a b : LspPos) : Prop := a.1 < b.1 ∨ (a.1 = b.1 ∧ a.2 ≤ b.2)

instance (a b : LspPos) : Decidable (posLe a b) := by unfold posLe; exact inferInstance

theorem posLe_refl (a : LspPos) : posLe a a := Or.inr ⟨rfl, Nat.le_refl _⟩

theorem colOf_mono (cs : List Char) (o o' c c' : Nat) (h : o ≤ o')
    (h1 : colOf cs o = some c) (h2 : colOf cs o' = some c') : c ≤ c' := by
  induction cs generalizing o o' c c' with
  | nil =>
    cases o with
    | zero => simp [colOf] at h1; omega
    | succ k => simp [colOf] at h1
  | cons x xs ih =>
    cases o with
    | zero => simp [colOf] at h1; omega
    | succ k =>
      cases o' with
      | zero => omega
      | succ k' =>
        simp only [colOf] at h1 h2
        split at h1
        · split at h2
          · obtain ⟨d, hd, hc⟩ := Option.map_eq_some_iff.mp h1
            obtain ⟨d', hd', hc'⟩ := Option.map_eq_some_iff.mp h2
            have := ih (k + 1 - u8 x) (k' + 1 - u8 x) d d' (by omega) hd hd'
            omega
          · cases h2
        · cases h1

theorem colOf_le (cs : List Char) (o c : Nat) (h : colOf cs o = some c) : c ≤ len16 cs := by
  induction cs generalizing o c with
  | nil =>
    cases o with
    | zero => simp [colOf] at h; omega
    | succ k => simp [colOf] at h
  | cons x xs ih =>
    cases o with
    | zero => simp [colOf] at h; omega
    | succ k =>
      simp only [colOf] at h
      split at h
      · obtain ⟨d, hd, hc⟩ := Option.map_eq_some_iff.mp h
        have := ih _ d hd
        simp only [len16]; omega
      · cases h

theorem lineCol_line_ge (d : Doc) (o n : Nat) (a : LspPos) (h : lineCol d o n = some a) : n ≤ a.1 := by
  induction d generalizing o n with
  | nil => simp [lineCol] at h
  | cons l rest ih =>
    cases rest with
    | nil =>
      simp only [lineCol] at h
      obtain ⟨c, _, hc⟩ := Option.map_eq_some_iff.mp h
      subst hc; simp
    | cons l' rest' =>
      simp only [lineCol] at h
      split at h
      · obtain ⟨c, _, hc⟩ := Option.map_eq_some_iff.mp h
        subst hc; simp
      · have := ih _ _ h; omega

theorem lineCol_mono (d : Doc) (o o' n : Nat) (a b : LspPos) (h : o ≤ o')
    (ha : lineCol d o n = some a) (hb : lineCol d o' n = some b) : posLe a b := by
  induction d generalizing o o' n with
  | nil => simp [lineCol] at ha
  | cons l rest ih =>
    cases rest with
    | nil =>
      simp only [lineCol] at ha hb
      obtain ⟨c, hc, rfl⟩ := Option.map_eq_some_iff.mp ha
      obtain ⟨c', hc', rfl⟩ := Option.map_eq_some_iff.mp hb
      exact Or.inr ⟨rfl, colOf_mono _ _ _ _ _ h hc hc'⟩
    | cons l' rest' =>
      simp only [lineCol] at ha hb
      split at ha
      · obtain ⟨c, hc, rfl⟩ := Option.map_eq_some_iff.mp ha
        split at hb
        · obtain ⟨c', hc', rfl⟩ := Option.map_eq_some_iff.mp hb
          exact Or.inr ⟨rfl, colOf_mono _ _ _ _ _ h hc hc'⟩
        · have := lineCol_line_ge _ _ _ _ hb
          exact Or.inl (by simp only; omega)
      · split at hb
        · omega
        · exact ih _ _ _ (by omega) ha hb

theorem lineCol_inDoc (d : Doc) (o n : Nat) (a : LspPos) (h : lineCol d o n = some a) :
    ∃ l, d[a.1 - n]? = some l ∧ a.2 ≤ len16 l.chars := by
  induction d generalizing o n with
  | nil => simp [lineCol] at h
  | cons l rest ih =>
    cases rest with
    | nil =>
      simp only [lineCol] at h
      obtain ⟨c, hc, rfl⟩ := Option.map_eq_some_iff.mp h
      exact ⟨l, by simp, colOf_le _ _ _ hc⟩
    | cons l' rest' =>
      simp only [lineCol] at h
      split at h
      · obtain ⟨c, hc, rfl⟩ := Option.map_eq_some_iff.mp h
        exact ⟨l, by simp, colOf_le _ _ _ hc⟩
      · obtain ⟨l2, h1, h2⟩ := ih _ _ h
        have hge := lineCol_line_ge _ _ _ _ h
        refine ⟨l2, ?_, h2⟩
        have : a.1 - n = (a.1 - (n + 1)) + 1 := by omega
        rw [this]; simpa using h1

/-- a position is inside the document: its line exists and its character is at most the line's
UTF-16 length -/
def inDocPos (t : List Char) (a : LspPos) : Prop :=
  ∃ l, (splitLines t)[a.1]? = some l ∧ a.2 ≤ len16 l.chars

theorem getLineCol_inDoc (t : List Char) (o : Nat) (a : LspPos) (h : getLineCol t o = some a) :
    inDocPos t a := by
  have := lineCol_inDoc (splitLines t) o 0 a h
  simpa [inDocPos] using this

theorem origin_inDoc (t : List Char) : inDocPos t (0, 0) := by
  unfold inDocPos splitLines
  have := splitAux_ne_nil t []
  cases hd : splitAux t [] with
  | nil => exact absurd hd this
  | cons l rest => exact ⟨l, by simp, Nat.zero_le _⟩

/-- the C22 round trip (same proof as `Text.C22_roundtrip`, restated here so that Props files do not
import each other) -/
theorem C22_roundtrip' (t p s : List Char) (h : t = p ++ s) :
    ∃ ln col, getLineCol t (len8 p) = some (ln, col) ∧ getOffset t ln col = some (len8 p) := by
  have hwf := wf_splitAux t []
  have hb := boundary_of_prefix (splitAux t []) hwf p s (by rw [join_splitAux]; simpa using h)
  obtain ⟨ln, col, h1, _, h3⟩ := roundtrip_doc _ hwf _ hb 0 0
  exact ⟨ln, col, h1, by simpa [getOffset, splitLines] using h3⟩

/-! ### dedup -/

theorem mem_dedup [DecidableEq α] (l : List α) (x : α) : x ∈ dedup l ↔ x ∈ l := by
  induction l with
  | nil => simp [dedup]
  | cons y ys ih =>
    simp only [dedup, List.mem_cons, List.mem_filter, decide_eq_true_eq]
    constructor
    · rintro (h | ⟨h, _⟩)
      · exact Or.inl h
      · exact Or.inr (ih.mp h)
    · rintro (h | h)
      · exact Or.inl h
      · by_cases hxy : x = y
        · exact Or.inl hxy
        · exact Or.inr ⟨ih.mpr h, hxy⟩

theorem nodup_dedup [DecidableEq α] (l : List α) : (dedup l).Nodup := by
  induction l with
  | nil => simp [dedup]
  | cons y ys ih =>
    simp only [dedup, List.nodup_cons, List.mem_filter, decide_eq_true_eq]
    exact ⟨fun h => h.2 rfl, ih.filter _⟩

theorem dedup_eq_self_of_nodup [DecidableEq α] (l : List α) (h : l.Nodup) : dedup l = l := by
  induction l with
  | nil => rfl
  | cons y ys ih =>
    rw [List.nodup_cons] at h
    simp only [dedup, ih h.2]
    congr 1
    apply List.filter_eq_self.mpr
    intro a ha
    simp only [decide_eq_true_eq]
    intro hay; subst hay; exact h.1 ha

end Diag
