import EmmyVerif.Lemmas.Diag
/-! The byte range a `---@diagnostic` tag is valid in, characterised by lines. -/
namespace Diag

/-- hypotheses on the line-start table (`textStarts_ok` proves them for every text) -/
structure StartsOK (starts : List Nat) (len : Nat) : Prop where
  head : ∃ rest, starts = 0 :: rest
  sorted : starts.Pairwise (· < ·)
  bounded : ∀ x ∈ starts, x ≤ len

/-- **Specification by lines.** Byte position `p` of the text lies in the scope of the tag:
* `disable-next-line`: `p` is at or after the start of the comment and on a line no later than the
  line directly after the comment's last line (the tag has no effect when that line does not
  exist or is the empty last line);
* `disable-line`: `p` is on the comment's (last) line;
* `disable`: `p` is inside the enclosing block — except for a top-level `disable: codes`, which is
  file-wide and handled by the file-disabled set instead of a range. -/
def inScope (starts : List Nat) (len : Nat) (tag : Tag) (p : Nat) : Prop :=
  match tag.kind with
  | .disableNextLine =>
    ∃ l lp, getLine starts tag.comment.2 = some l ∧ (lineRange starts len (l + 1)).isSome ∧
      getLine starts p = some lp ∧ tag.comment.1 ≤ p ∧ lp ≤ l + 1 ∧ p < len
  | .disableLine =>
    ∃ l, getLine starts tag.comment.2 = some l ∧ getLine starts p = some l ∧ p < len
  | .disable =>
    ∃ br top, tag.block = some (br, top) ∧ ¬ (top = true ∧ tag.codes.isSome = true) ∧
      br.1 ≤ p ∧ p < br.2
  | _ => False

theorem mem_of_getElem?' {l : List Nat} {i x : Nat} (h : l[i]? = some x) : x ∈ l :=
  List.mem_of_getElem? h

theorem nextLine_scope (starts : List Nat) (len : Nat) (ok : StartsOK starts len) (tag : Tag)
    (hk : tag.kind = .disableNextLine) (p : Nat) :
    (∃ rng, tagRange starts len tag = some rng ∧ rng.1 ≤ p ∧ p < rng.2) ↔ inScope starts len tag p := by
  obtain ⟨rest, h0⟩ := ok.head
  obtain ⟨lp, hlp⟩ := getLine_total starts rest h0 p
  unfold tagRange inScope
  simp only [hk]
  constructor
  · intro ⟨rng, h, h1, h2⟩
    split at h
    · cases h
    · rename_i l hl
      split at h
      · cases h
      · rename_i lr hlr
        cases h
        refine ⟨l, lp, hl, by simp [hlr], hlp, h1, ?_⟩
        unfold lineRange at hlr
        split at hlr
        · cases hlr
        · rename_i s hs
          split at hlr
          · rename_i e he
            cases hlr
            have := (getLine_le_iff starts ok.sorted p lp (l + 1) e hlp he).mp h2
            have := ok.bounded e (mem_of_getElem?' he)
            exact ⟨by omega, by simp at h2; omega⟩
          · rename_i hnone
            split at hlr
            · cases hlr
              have := getLine_lt_length starts p lp hlp
              have : starts.length ≤ l + 1 + 1 := by simpa using hnone
              exact ⟨by omega, h2⟩
            · cases hlr
  · intro ⟨l, lp', hl, hsome, hlp', h1, h2, h3⟩
    rw [hlp] at hlp'; cases hlp'
    rw [hl]
    simp only
    cases hlr : lineRange starts len (l + 1) with
    | none => simp [hlr] at hsome
    | some lr =>
      refine ⟨_, rfl, h1, ?_⟩
      unfold lineRange at hlr
      split at hlr
      · cases hlr
      · split at hlr
        · rename_i e he
          cases hlr
          exact (getLine_le_iff starts ok.sorted p lp (l + 1) e hlp he).mpr h2
        · split at hlr
          · cases hlr; exact h3
          · cases hlr

theorem line_scope (starts : List Nat) (len : Nat) (ok : StartsOK starts len) (tag : Tag)
    (hk : tag.kind = .disableLine) (p : Nat) :
    (∃ rng, tagRange starts len tag = some rng ∧ rng.1 ≤ p ∧ p < rng.2) ↔ inScope starts len tag p := by
  unfold tagRange inScope
  simp only [hk]
  constructor
  · intro ⟨rng, h, h1, h2⟩
    split at h
    · cases h
    · rename_i l hl
      refine ⟨l, hl, ?_⟩
      unfold lineRange at h
      split at h
      · cases h
      · rename_i s hs
        split at h
        · rename_i e he
          cases h
          have := ok.bounded e (mem_of_getElem?' he)
          refine ⟨(getLine_some_iff starts ok.sorted p l).mpr ⟨⟨s, hs, h1⟩, ?_⟩, by simp at h2; omega⟩
          intro s' hs'; rw [he] at hs'; cases hs'; exact h2
        · rename_i hnone
          split at h
          · cases h
            refine ⟨(getLine_some_iff starts ok.sorted p l).mpr ⟨⟨s, hs, h1⟩, ?_⟩, h2⟩
            intro s' hs'; rw [hnone] at hs'; cases hs'
          · cases h
  · intro ⟨l, hl, hp, h3⟩
    rw [hl]
    simp only
    obtain ⟨⟨s, hs, h1⟩, h2⟩ := (getLine_some_iff starts ok.sorted p l).mp hp
    unfold lineRange
    rw [hs]
    simp only
    cases he : starts[l + 1]? with
    | some e => exact ⟨_, rfl, h1, h2 e he⟩
    | none =>
      have : s < len := by omega
      simp only [this, if_true]
      exact ⟨_, rfl, h1, h3⟩

theorem block_scope (starts : List Nat) (len : Nat) (tag : Tag) (hk : tag.kind = .disable) (p : Nat) :
    (∃ rng, tagRange starts len tag = some rng ∧ rng.1 ≤ p ∧ p < rng.2) ↔ inScope starts len tag p := by
  unfold tagRange inScope
  simp only [hk]
  cases hb : tag.block with
  | none => simp
  | some bt =>
    obtain ⟨br, top⟩ := bt
    by_cases hc : (top && tag.codes.isSome) = true
    · have hc' : top = true ∧ tag.codes.isSome = true := by simpa using hc
      simp [hc, hc'.1, hc'.2]
    · have hc' : ¬ (top = true ∧ tag.codes.isSome = true) := by simpa using hc
      simp only [hc, if_false]
      constructor
      · intro ⟨rng, h, h1, h2⟩
        cases h
        exact ⟨br, top, rfl, hc', h1, h2⟩
      · intro ⟨br', top', hb', _, h1, h2⟩
        cases hb'
        exact ⟨_, rfl, h1, h2⟩

/-- the valid range of a tag contains exactly the positions that are in its scope by lines -/
theorem tagRange_inScope (starts : List Nat) (len : Nat) (ok : StartsOK starts len) (tag : Tag) (p : Nat) :
    (∃ rng, tagRange starts len tag = some rng ∧ rng.1 ≤ p ∧ p < rng.2) ↔ inScope starts len tag p := by
  cases hk : tag.kind with
  | disableNextLine => exact nextLine_scope starts len ok tag hk p
  | disableLine => exact line_scope starts len ok tag hk p
  | disable => exact block_scope starts len tag hk p
  | enable => simp [tagRange, inScope, hk]
  | other => simp [tagRange, inScope, hk]

/-- what the syntax tree guarantees about a tag: the comment is non-empty, inside the text and inside
its enclosing block (checked on every generated input by the harness) -/
def TagOK (len : Nat) (tag : Tag) : Prop :=
  tag.comment.1 < tag.comment.2 ∧ tag.comment.2 ≤ len ∧
  ∀ br top, tag.block = some (br, top) → br.1 ≤ tag.comment.1 ∧ tag.comment.2 ≤ br.2

theorem tagRange_nonempty (starts : List Nat) (len : Nat) (ok : StartsOK starts len) (tag : Tag)
    (htag : TagOK len tag) (rng : Range) (h : tagRange starts len tag = some rng) : rng.1 < rng.2 := by
  obtain ⟨hc1, hc2, hb⟩ := htag
  unfold tagRange at h
  split at h
  · -- next line
    split at h
    · cases h
    · rename_i l hl
      split at h
      · cases h
      · rename_i lr hlr
        cases h
        obtain ⟨_, h3⟩ := (getLine_some_iff starts ok.sorted _ l).mp hl
        unfold lineRange at hlr
        split at hlr
        · cases hlr
        · rename_i s hs
          have := h3 s hs
          split at hlr
          · rename_i e he
            cases hlr
            have := starts_mono starts ok.sorted (l + 1) (l + 1 + 1) s e (by omega) hs he
            simp only; omega
          · split at hlr
            · cases hlr; simp only; omega
            · cases hlr
  · -- line
    split at h
    · cases h
    · rename_i l hl
      obtain ⟨⟨s0, hs0, h2⟩, h3⟩ := (getLine_some_iff starts ok.sorted _ l).mp hl
      unfold lineRange at h
      split at h
      · cases h
      · rename_i s hs
        rw [hs0] at hs; cases hs
        split at h
        · rename_i e he
          cases h
          have := h3 e he
          simp only; omega
        · split at h
          · cases h; simp only; omega
          · cases h
  · -- block
    cases hbl : tag.block with
    | none => simp [hbl] at h
    | some bt =>
      obtain ⟨br, top⟩ := bt
      simp only [hbl] at h
      split at h
      · cases h
      · have := hb br top hbl
        cases h
        omega
  · cases h

/-! ### file-level sets -/

def tagFileDisabled (tag : Tag) : List Code :=
  match tag.kind, tag.block, tag.codes with
  | .disable, some (_, true), some cs => knownCodes cs
  | _, _, _ => []

theorem analyzeTag_fileDisabled (starts : List Nat) (len : Nat) (st : FileDiag) (tag : Tag) :
    (analyzeTag starts len st tag).fileDisabled = st.fileDisabled ++ tagFileDisabled tag := by
  unfold analyzeTag tagFileDisabled
  split
  · rename_i hk hb hc
    simp [hk, hb, hc]
  · rename_i hk hc
    simp [hk]
  · rename_i h1 h2
    have : (match tag.kind, tag.block, tag.codes with
        | .disable, some (_, true), some cs => knownCodes cs
        | _, _, _ => []) = [] := by
      split
      · rename_i hk hb hc
        exact absurd hc (fun hc => h2 _ _ hk hb hc)
      · rfl
    rw [this]
    split <;> simp

theorem foldl_fileDisabled (starts : List Nat) (len : Nat) (tags : List Tag) (st : FileDiag) :
    (tags.foldl (analyzeTag starts len) st).fileDisabled = st.fileDisabled ++ tags.flatMap tagFileDisabled := by
  induction tags generalizing st with
  | nil => simp
  | cons t rest ih => simp [List.foldl_cons, ih, analyzeTag_fileDisabled, List.append_assoc]

end Diag
