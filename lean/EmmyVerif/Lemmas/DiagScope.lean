import EmmyVerif.Lemmas.Diag
/-! The byte range a `---@diagnostic` tag is valid in, characterised by lines. -/
namespace Diag

/-- hypotheses on the line-start table (`textStarts_ok` proves them for every text) -/
structure StartsOK (starts : List Nat) (len : Nat) : Prop where
  head : ∃ rest, starts = 0 :: rest
  sorted : starts.Pairwise (· < ·)
  bounded : ∀ x ∈ starts, x ≤ len

/-- **Specification by lines.** Position `p` (a byte offset `0 … len`; `len` is the end-of-file
position, which belongs to the last line) lies in the scope of the tag:
* `disable-next-line`: `p` is at or after the start of the comment and on a line no later than the
  line directly after the comment's last line;
* `disable-line`: `p` is on the comment's (last) line;
* `disable`: `p` is inside the enclosing block (a block that runs to the end of the document includes
  the end-of-file position) — except for a top-level `disable: codes`, which is file-wide and handled
  by the file-disabled set instead of a range. -/
def inScope (starts : List Nat) (len : Nat) (tag : Tag) (p : Nat) : Prop :=
  match tag.kind with
  | .disableNextLine =>
    ∃ l lp, getLine starts tag.comment.2 = some l ∧ getLine starts p = some lp ∧
      tag.comment.1 ≤ p ∧ lp ≤ l + 1 ∧ p ≤ len
  | .disableLine =>
    ∃ l, getLine starts tag.comment.2 = some l ∧ (lineRange starts len l).isSome ∧
      getLine starts p = some l ∧ p ≤ len
  | .disable =>
    ∃ br top, tag.block = some (br, top) ∧ ¬ (top = true ∧ tag.codes.isSome = true) ∧
      br.1 ≤ p ∧ (p < br.2 ∨ (br.2 = len ∧ p = len))
  | _ => False

theorem mem_of_getElem?' {l : List Nat} {i x : Nat} (h : l[i]? = some x) : x ∈ l :=
  List.mem_of_getElem? h

/-- `p` lies before the end of the scope closing with line `j` iff `p ≤ len` and `p`'s line is at most `j` -/
theorem lineScopeEnd_spec (starts : List Nat) (len : Nat) (ok : StartsOK starts len) (j e p lp : Nat)
    (hj : j < starts.length) (he : lineScopeEnd starts len j = some e) (hlp : getLine starts p = some lp) :
    p < e ↔ (lp ≤ j ∧ p ≤ len) := by
  unfold lineScopeEnd at he
  split at he
  · rename_i e' he'
    cases he
    have := ok.bounded e (mem_of_getElem?' he')
    rw [getLine_le_iff starts ok.sorted p lp j e hlp he']
    constructor
    · intro h
      have := (getLine_le_iff starts ok.sorted p lp j e hlp he').mpr h
      exact ⟨h, by omega⟩
    · intro h; exact h.1
  · rename_i hnone
    split at he
    · cases he
      have := getLine_lt_length starts p lp hlp
      constructor
      · intro h; exact ⟨by omega, by omega⟩
      · intro h; omega
    · cases he

theorem nextLine_scope (starts : List Nat) (len : Nat) (ok : StartsOK starts len) (tag : Tag)
    (hk : tag.kind = .disableNextLine) (p : Nat) :
    (∃ rng, tagRange starts len tag = some rng ∧ rng.1 ≤ p ∧ p < rng.2) ↔ inScope starts len tag p := by
  obtain ⟨rest, h0⟩ := ok.head
  obtain ⟨lp, hlp⟩ := getLine_total starts rest h0 p
  have hlplt := getLine_lt_length starts p lp hlp
  unfold tagRange inScope
  simp only [hk]
  cases hl : getLine starts tag.comment.2 with
  | none => simp
  | some l =>
    have hllt := getLine_lt_length starts _ l hl
    simp only
    -- the scope line: the line after the comment, or the last line
    have hm : min (l + 1) (starts.length - 1) < starts.length := by
      rw [Nat.min_def]; split <;> omega
    cases he : lineScopeEnd starts len (min (l + 1) (starts.length - 1)) with
    | none =>
      exfalso
      unfold lineScopeEnd at he
      split at he
      · cases he
      · rename_i hnone
        have : starts.length ≤ min (l + 1) (starts.length - 1) + 1 := by simpa using hnone
        split at he
        · cases he
        · omega
    | some e =>
      have hspec := lineScopeEnd_spec starts len ok _ e p lp hm he hlp
      have hmin : lp ≤ min (l + 1) (starts.length - 1) ↔ lp ≤ l + 1 := by
        rw [Nat.min_def]; split <;> omega
      constructor
      · intro ⟨rng, h, h1, h2⟩
        cases h
        have := hspec.mp h2
        exact ⟨l, lp, rfl, hlp, h1, hmin.mp this.1, this.2⟩
      · intro ⟨l', lp', hl', hlp', h1, h2, h3⟩
        cases hl'
        rw [hlp] at hlp'; cases hlp'
        exact ⟨_, rfl, h1, hspec.mpr ⟨hmin.mpr h2, h3⟩⟩

theorem line_scope (starts : List Nat) (len : Nat) (ok : StartsOK starts len) (tag : Tag)
    (hk : tag.kind = .disableLine) (p : Nat) :
    (∃ rng, tagRange starts len tag = some rng ∧ rng.1 ≤ p ∧ p < rng.2) ↔ inScope starts len tag p := by
  obtain ⟨rest, h0⟩ := ok.head
  obtain ⟨lp, hlp⟩ := getLine_total starts rest h0 p
  unfold tagRange inScope
  simp only [hk]
  cases hl : getLine starts tag.comment.2 with
  | none => simp
  | some l =>
    have hllt := getLine_lt_length starts _ l hl
    simp only
    cases hlr : lineRange starts len l with
    | none =>
      constructor
      · intro ⟨rng, h, _⟩; simp at h
      · intro ⟨l', hl', hsome, _⟩; cases hl'; simp [hlr] at hsome
    | some lr =>
      have hs : starts[l]? = some lr.1 := by
        unfold lineRange at hlr
        split at hlr
        · cases hlr
        · rename_i s hs
          split at hlr
          · cases hlr; exact hs
          · split at hlr
            · cases hlr; exact hs
            · cases hlr
      cases he : lineScopeEnd starts len l with
      | none =>
        exfalso
        unfold lineScopeEnd at he
        split at he
        · cases he
        · rename_i hnone
          have : starts.length ≤ l + 1 := by simpa using hnone
          split at he
          · cases he
          · omega
      | some e =>
        have hspec := lineScopeEnd_spec starts len ok l e p lp hllt he hlp
        constructor
        · intro ⟨rng, h, h1, h2⟩
          cases h
          obtain ⟨h3, h4⟩ := hspec.mp h2
          -- lp ≤ l and starts[l] ≤ p give lp = l
          obtain ⟨⟨s', hs', hsp⟩, _⟩ := (getLine_some_iff starts ok.sorted p lp).mp hlp
          have hge : l ≤ lp := by
            apply Classical.byContradiction; intro hc
            have hlp1 : lp + 1 < starts.length := by omega
            have hnext := ((getLine_some_iff starts ok.sorted p lp).mp hlp).2 _ (List.getElem?_eq_getElem hlp1)
            have := starts_mono starts ok.sorted (lp + 1) l _ lr.1 (by omega) (List.getElem?_eq_getElem hlp1) hs
            simp only at h1; omega
          have : lp = l := by omega
          subst this
          exact ⟨lp, rfl, by simp [hlr], hlp, h4⟩
        · intro ⟨l', hl', _, hp, h3⟩
          cases hl'
          rw [hlp] at hp; cases hp
          obtain ⟨⟨s', hs', hsp⟩, _⟩ := (getLine_some_iff starts ok.sorted p lp).mp hlp
          rw [hs] at hs'; cases hs'
          exact ⟨_, rfl, hsp, hspec.mpr ⟨Nat.le_refl _, h3⟩⟩

theorem block_scope (starts : List Nat) (len : Nat) (tag : Tag) (hk : tag.kind = .disable) (p : Nat)
    (hb : ∀ br top, tag.block = some (br, top) → br.2 ≤ len) :
    (∃ rng, tagRange starts len tag = some rng ∧ rng.1 ≤ p ∧ p < rng.2) ↔ inScope starts len tag p := by
  unfold tagRange inScope
  simp only [hk]
  cases hbl : tag.block with
  | none => simp
  | some bt =>
    obtain ⟨br, top⟩ := bt
    have hle := hb br top hbl
    by_cases hc : (top && tag.codes.isSome) = true
    · have hc' : top = true ∧ tag.codes.isSome = true := by simpa using hc
      simp [hc'.1, hc'.2]
    · have hc' : ¬ (top = true ∧ tag.codes.isSome = true) := by simpa using hc
      simp only [hc]
      constructor
      · intro ⟨rng, h, h1, h2⟩
        cases h
        refine ⟨br, top, rfl, hc', ?_, ?_⟩
        · split at h1 <;> exact h1
        · split at h2
          · rename_i heq; simp only at h2; omega
          · exact Or.inl h2
      · intro ⟨br', top', hb', _, h1, h2⟩
        cases hb'
        refine ⟨_, rfl, ?_, ?_⟩
        · split <;> exact h1
        · split
          · simp only; omega
          · rename_i hne; rcases h2 with h2 | ⟨h2, _⟩
            · exact h2
            · exact absurd h2 hne

/-- the valid range of a tag contains exactly the positions that are in its scope by lines -/
theorem tagRange_inScope (starts : List Nat) (len : Nat) (ok : StartsOK starts len) (tag : Tag) (p : Nat)
    (hb : ∀ br top, tag.block = some (br, top) → br.2 ≤ len) :
    (∃ rng, tagRange starts len tag = some rng ∧ rng.1 ≤ p ∧ p < rng.2) ↔ inScope starts len tag p := by
  cases hk : tag.kind with
  | disableNextLine => exact nextLine_scope starts len ok tag hk p
  | disableLine => exact line_scope starts len ok tag hk p
  | disable => exact block_scope starts len tag hk p hb
  | enable => simp [tagRange, inScope, hk]
  | other => simp [tagRange, inScope, hk]

/-- what the syntax tree guarantees about a tag: the comment is non-empty, inside the text and inside
its enclosing block, which is inside the text (checked on every generated input by the harness) -/
def TagOK (len : Nat) (tag : Tag) : Prop :=
  tag.comment.1 < tag.comment.2 ∧ tag.comment.2 ≤ len ∧
  ∀ br top, tag.block = some (br, top) → br.1 ≤ tag.comment.1 ∧ tag.comment.2 ≤ br.2 ∧ br.2 ≤ len

theorem lineScopeEnd_last (starts : List Nat) (len l : Nat) (hl : l < starts.length)
    (hnone : starts[l + 1]? = none) : lineScopeEnd starts len l = some (len + 1) := by
  have : starts.length ≤ l + 1 := by simpa using hnone
  have hl1 : l + 1 = starts.length := by omega
  simp [lineScopeEnd, hnone, hl1]

theorem tagRange_nonempty (starts : List Nat) (len : Nat) (ok : StartsOK starts len) (tag : Tag)
    (htag : TagOK len tag) (rng : Range) (h : tagRange starts len tag = some rng) : rng.1 < rng.2 := by
  obtain ⟨hc1, hc2, hb⟩ := htag
  unfold tagRange at h
  cases hk : tag.kind with
  | disableNextLine =>
    simp only [hk] at h
    cases hl : getLine starts tag.comment.2 with
    | none => simp [hl] at h
    | some l =>
      have hllt := getLine_lt_length starts _ l hl
      obtain ⟨_, h3⟩ := (getLine_some_iff starts ok.sorted _ l).mp hl
      simp only [hl] at h
      cases hs1 : starts[l + 1]? with
      | some s1 =>
        have hlen := (List.getElem?_eq_some_iff.mp hs1).1
        have hm : min (l + 1) (starts.length - 1) = l + 1 := by rw [Nat.min_def]; split <;> omega
        rw [hm] at h
        have hc := h3 s1 hs1
        cases hs2 : starts[l + 1 + 1]? with
        | some s2 =>
          have := starts_mono starts ok.sorted (l + 1) (l + 1 + 1) s1 s2 (by omega) hs1 hs2
          simp [lineScopeEnd, hs2] at h
          subst h; simp only; omega
        | none =>
          rw [lineScopeEnd_last starts len (l + 1) hlen hs2] at h
          simp at h; subst h; simp only; omega
      | none =>
        have : starts.length ≤ l + 1 := by simpa using hs1
        have hm : min (l + 1) (starts.length - 1) = l := by rw [Nat.min_def]; split <;> omega
        rw [hm, lineScopeEnd_last starts len l hllt hs1] at h
        simp at h; subst h; simp only; omega
  | disableLine =>
    simp only [hk] at h
    cases hl : getLine starts tag.comment.2 with
    | none => simp [hl] at h
    | some l =>
      have hllt := getLine_lt_length starts _ l hl
      obtain ⟨⟨s0, hs0, h2⟩, h3⟩ := (getLine_some_iff starts ok.sorted _ l).mp hl
      simp only [hl] at h
      cases hlr : lineRange starts len l with
      | none => simp [hlr] at h
      | some lr =>
        have hlr1 : lr.1 = s0 := by
          unfold lineRange at hlr
          rw [hs0] at hlr
          simp only at hlr
          split at hlr
          · cases hlr; rfl
          · split at hlr
            · cases hlr; rfl
            · cases hlr
        cases hs1 : starts[l + 1]? with
        | some s1 =>
          have hc := h3 s1 hs1
          simp [hlr, lineScopeEnd, hs1] at h
          subst h; simp only; omega
        | none =>
          rw [hlr, lineScopeEnd_last starts len l hllt hs1] at h
          simp at h; subst h; simp only; omega
  | disable =>
    simp only [hk] at h
    cases hbl : tag.block with
    | none => simp [hbl] at h
    | some bt =>
      obtain ⟨br, top⟩ := bt
      have := hb br top hbl
      simp only [hbl] at h
      split at h
      · cases h
      · cases h
        split
        · simp only; omega
        · omega
  | enable => simp [hk] at h
  | other => simp [hk] at h

/-! ### file-level sets -/

def tagFileDisabled (tag : Tag) : List Code :=
  match tag.kind, tag.block, tag.codes with
  | .disable, some (_, true), some cs => knownCodes cs
  | _, _, _ => []

theorem analyzeTag_fileDisabled (starts : List Nat) (len : Nat) (st : FileDiag) (tag : Tag) :
    (analyzeTag starts len st tag).fileDisabled = st.fileDisabled ++ tagFileDisabled tag := by
  unfold analyzeTag tagFileDisabled
  split
  · rename_i hk hb hc
    simp [hk, hb, hc]
  · rename_i hk hc
    simp [hk]
  · rename_i h1 h2
    have : (match tag.kind, tag.block, tag.codes with
        | .disable, some (_, true), some cs => knownCodes cs
        | _, _, _ => []) = [] := by
      split
      · rename_i hk hb hc
        exact absurd hc (fun hc => h2 _ _ hk hb hc)
      · rfl
    rw [this]
    split <;> simp

theorem foldl_fileDisabled (starts : List Nat) (len : Nat) (tags : List Tag) (st : FileDiag) :
    (tags.foldl (analyzeTag starts len) st).fileDisabled = st.fileDisabled ++ tags.flatMap tagFileDisabled := by
  induction tags generalizing st with
  | nil => simp
  | cons t rest ih => simp [List.foldl_cons, ih, analyzeTag_fileDisabled, List.append_assoc]

end Diag
