import EmmyVerif.Model.IndexDb
import EmmyVerif.Lemmas.IndexMap
/-! `Index.Db`: the maps after `remove f` are the maps built from the other files' mutations alone. -/
namespace Index

variable {κ : Type} {α : Type} [DecidableEq κ]

theorem aget_filter_key (m : List (κ × α)) (p : κ → Bool) (k : κ) :
    aget (m.filter fun e => p e.1) k = if p k then aget m k else none := by
  induction m with
  | nil => simp [aget]
  | cons e r ih =>
    obtain ⟨k2, v2⟩ := e
    rw [List.filter_cons]
    by_cases hp : p k2 = true
    · rw [if_pos hp]
      by_cases hk : k2 = k
      · subst hk; simp [aget, hp]
      · simp only [aget, hk, if_false]; exact ih
    · rw [if_neg hp]
      by_cases hk : k2 = k
      · subst hk
        rw [ih]; simp [hp]
      · simp only [aget, hk, if_false]; exact ih

theorem mem_akeys_aset (m : List (κ × α)) (k k' : κ) (v : α) :
    k' ∈ akeys (aset m k v) ↔ k' = k ∨ k' ∈ akeys m := by
  induction m with
  | nil => simp [aset, akeys]
  | cons e r ih =>
    obtain ⟨k2, v2⟩ := e
    simp only [aset]
    split
    · next h => subst h; simp [akeys]
    · next h =>
      simp only [akeys, List.map_cons, List.mem_cons] at ih ⊢
      rw [ih]
      constructor
      · rintro (h1 | h1 | h1)
        · exact Or.inr (Or.inl h1)
        · exact Or.inl h1
        · exact Or.inr (Or.inr h1)
      · rintro (h1 | h1 | h1)
        · exact Or.inr (Or.inl h1)
        · exact Or.inl h1
        · exact Or.inr (Or.inr h1)

theorem nodup_akeys_aset (m : List (κ × α)) (k : κ) (v : α) (h : (akeys m).Nodup) :
    (akeys (aset m k v)).Nodup := by
  induction m with
  | nil => simp [aset, akeys]
  | cons e r ih =>
    obtain ⟨k2, v2⟩ := e
    simp only [akeys, List.map_cons, List.nodup_cons] at h
    simp only [aset]
    split
    · next hk => subst hk; simp only [akeys, List.map_cons, List.nodup_cons]; exact h
    · next hk =>
      simp only [akeys, List.map_cons, List.nodup_cons]
      refine ⟨?_, ih h.2⟩
      intro hm
      have := (mem_akeys_aset r k k2 v).mp hm
      rcases this with h1 | h1
      · exact hk h1
      · exact h.1 h1

theorem aget_none_of_not_mem (m : List (κ × α)) (k : κ) (h : k ∉ akeys m) : aget m k = none := by
  induction m with
  | nil => rfl
  | cons e r ih =>
    obtain ⟨k2, v2⟩ := e
    simp only [akeys, List.map_cons, List.mem_cons, not_or] at h
    simp only [aget]
    rw [if_neg (fun e => h.1 e.symm)]
    exact ih h.2

/-- lookup in a `retain`-style filterMap over a map without duplicate keys -/
theorem aget_filterMap_val {β : Type} (m : List (κ × α)) (g : α → Option β) (k : κ) (h : (akeys m).Nodup) :
    aget (m.filterMap fun e => (g e.2).map fun v => (e.1, v)) k = (aget m k).bind g := by
  induction m with
  | nil => rfl
  | cons e r ih =>
    obtain ⟨k2, v2⟩ := e
    simp only [akeys, List.map_cons, List.nodup_cons] at h
    simp only [List.filterMap_cons, aget]
    by_cases hk : k2 = k
    · subst hk
      simp only [if_true, Option.bind_some]
      cases hg : g v2 with
      | none =>
        simp only [Option.map_none]
        rw [ih h.2, aget_none_of_not_mem r k2 h.1]; rfl
      | some w => simp [aget]
    · simp only [hk, if_false]
      cases hg : g v2 with
      | none => simp only [Option.map_none]; exact ih h.2
      | some w => simp only [Option.map_some, aget, hk, if_false]; exact ih h.2

theorem mem_akeys_iff (m : List (κ × α)) (k : κ) : k ∈ akeys m ↔ (aget m k).isSome = true := by
  induction m with
  | nil => simp [akeys, aget]
  | cons e r ih =>
    obtain ⟨k2, v2⟩ := e
    simp only [akeys, List.map_cons, List.mem_cons, aget]
    by_cases hk : k2 = k
    · subst hk; simp
    · simp only [hk, if_false]
      rw [← ih]
      simp only [akeys]
      constructor
      · rintro (h | h)
        · exact absurd h.symm hk
        · exact h
      · exact Or.inr

/-- two maps without duplicate keys and with the same lookups hold the same number of entries -/
theorem length_eq_of_aget_eq {β : Type} (m1 : List (κ × α)) (m2 : List (κ × β)) (h1 : (akeys m1).Nodup) (h2 : (akeys m2).Nodup)
    (h : ∀ k, (aget m1 k).isSome = (aget m2 k).isSome) : m1.length = m2.length := by
  have hp : (akeys m1).Perm (akeys m2) := by
    rw [List.perm_ext_iff_of_nodup h1 h2]
    intro k
    rw [mem_akeys_iff, mem_akeys_iff, h k]
  have := hp.length_eq
  simpa [akeys] using this

theorem akeys_filterMap_sublist {β : Type} (m : List (κ × α)) (g : α → Option β) :
    (akeys (m.filterMap fun e => (g e.2).map fun v => (e.1, v))).Sublist (akeys m) := by
  induction m with
  | nil => exact List.Sublist.slnil
  | cons e r ih =>
    obtain ⟨k2, v2⟩ := e
    simp only [List.filterMap_cons]
    cases g v2 with
    | none => exact List.Sublist.cons _ ih
    | some w => exact List.Sublist.cons₂ _ ih

theorem adel_aset_self (m : List (κ × α)) (k : κ) (v : α) : adel (aset m k v) k = adel m k := by
  induction m with
  | nil => simp [aset, adel]
  | cons e r ih =>
    obtain ⟨k2, v2⟩ := e
    simp only [aset]
    split
    · next h => subst h; simp [adel]
    · next h =>
      simp only [adel, List.filter_cons] at ih ⊢
      simp only [h, decide_false, Bool.not_false, if_true]
      rw [ih]

theorem adel_aset_ne (m : List (κ × α)) (k k' : κ) (v : α) (h : k ≠ k') :
    adel (aset m k v) k' = aset (adel m k') k v := by
  induction m with
  | nil => simp [aset, adel, h]
  | cons e r ih =>
    obtain ⟨k2, v2⟩ := e
    simp only [aset]
    split
    · next hk =>
      subst hk
      simp only [adel, List.filter_cons, h, decide_false, Bool.not_false, if_true, aset]
    · next hk =>
      simp only [adel, List.filter_cons] at ih ⊢
      by_cases h2 : k2 = k'
      · subst h2
        simp only [decide_true, Bool.not_true, Bool.false_eq_true, if_false]
        exact ih
      · simp only [h2, decide_false, Bool.not_false, if_true, aset, hk, if_false]
        rw [ih]

namespace Db

/-! ### `clear` resets everything the source resets -/

theorem survives_perFile (slot : Nat) : survivesClear (perFileField slot) = false := by
  unfold perFileField; split <;> decide
theorem survives_keyed (m : Nat) : survivesClear (keyedField m) = false := by
  unfold keyedField; split <;> decide
theorem survives_nested (m : Nat) : survivesClear (nestedField m) = false := by
  unfold nestedField; split <;> decide
theorem survives_owned (m : Nat) : survivesClear (ownedField m) = false := by
  unfold ownedField; split <;> decide
theorem survives_inFile (m : Nat) : survivesClear (inFileField m) = false := by
  unfold inFileField; split <;> decide

theorem clear_eq_new (d : Db) : clear d = Db.new := by
  have h1 : survivesClear (some ("property_index", "properties")) = false := by decide
  have h2 : survivesClear (some ("property_index", "property_owners_map")) = false := by decide
  have h3 : survivesClear (some ("property_index", "in_filed_owner")) = false := by decide
  have h4 : survivesClear (some ("property_index", "id_count")) = false := by decide
  simp [clear, Db.new, survives_perFile, survives_keyed, survives_nested, survives_owned, survives_inFile, h1, h2, h3, h4]

/-! ### components untouched by other mutations -/

theorem getOrCreateProp_perFile (d : Db) (o : Owner) : (getOrCreateProp d o).1.perFile = d.perFile := by
  unfold getOrCreateProp; split <;> rfl
theorem getOrCreateProp_keyed (d : Db) (o : Owner) : (getOrCreateProp d o).1.keyed = d.keyed := by
  unfold getOrCreateProp; split <;> rfl

theorem dropOwner_perFile (d : Db) (o : Owner) : (dropOwner d o).perFile = d.perFile := by
  unfold dropOwner; split <;> rfl
theorem dropOwner_keyed (d : Db) (o : Owner) : (dropOwner d o).keyed = d.keyed := by
  unfold dropOwner; split <;> rfl

theorem fold_dropOwner_perFile (owners : List Owner) (d : Db) :
    (owners.foldl dropOwner d).perFile = d.perFile := by
  induction owners generalizing d with
  | nil => rfl
  | cons o r ih => simp only [List.foldl_cons]; rw [ih, dropOwner_perFile]

theorem fold_dropOwner_keyed (owners : List Owner) (d : Db) :
    (owners.foldl dropOwner d).keyed = d.keyed := by
  induction owners generalizing d with
  | nil => rfl
  | cons o r ih => simp only [List.foldl_cons]; rw [ih, dropOwner_keyed]

theorem removeProps_perFile (d : Db) (f : File) : (removeProps d f).perFile = d.perFile := by
  unfold removeProps
  split
  · rfl
  · rw [fold_dropOwner_perFile]

theorem removeProps_keyed (d : Db) (f : File) : (removeProps d f).keyed = d.keyed := by
  unfold removeProps
  split
  · rfl
  · rw [fold_dropOwner_keyed]

/-! ### per-file maps -/

def pfVal (m : FMut) (k : Nat × File) : Option Nat :=
  match m.2 with
  | .perFile slot v => if (slot, m.1) = k then some v else none
  | _ => none

/-- the values file `k.2` pushed into slot `k.1`, in order -/
def pfVals (ms : List FMut) (k : Nat × File) : List Nat := ms.filterMap fun m => pfVal m k

theorem pfVal_some {m : FMut} {k : Nat × File} {v : Nat} (h : pfVal m k = some v) :
    m.2 = .perFile k.1 v ∧ m.1 = k.2 := by
  obtain ⟨f, mu⟩ := m
  cases mu with
  | perFile slot w =>
    simp only [pfVal] at h
    split at h
    · next hk => cases h; subst hk; exact ⟨rfl, rfl⟩
    · cases h
  | keyed a b w => cases h
  | nested a b w => cases h
  | owned a b w => cases h
  | prop o fld w => cases h

theorem apply_perFile_other (d : Db) (f : File) (m : Mut) (k : Nat × File) (h : pfVal (f, m) k = none) :
    aget (apply d f m).perFile k = aget d.perFile k := by
  cases m with
  | perFile slot v =>
    simp only [apply]
    apply aget_aset_ne
    intro e
    simp [pfVal, e] at h
  | keyed a b v => rfl
  | nested a b v => rfl
  | owned a b v => rfl
  | prop o fld v =>
    simp only [apply]
    rw [getOrCreateProp_perFile]

theorem apply_perFile_self (d : Db) (m : FMut) (k : Nat × File) (v : Nat) (h : pfVal m k = some v) :
    aget (apply d m.1 m.2).perFile k = some (accum k.1 (agetL d.perFile k) v) := by
  obtain ⟨h1, h2⟩ := pfVal_some h
  obtain ⟨f, mu⟩ := m
  obtain ⟨slot, g⟩ := k
  simp only at h1 h2
  subst h1; subst h2
  simp only [apply]
  exact aget_aset_self _ _ _

theorem perFile_applyAll (ms : List FMut) (d : Db) (k : Nat × File) :
    aget (applyAll d ms).perFile k =
      if pfVals ms k = [] then aget d.perFile k
      else some ((pfVals ms k).foldl (accum k.1) (agetL d.perFile k)) := by
  induction ms generalizing d with
  | nil => simp [applyAll, pfVals]
  | cons m r ih =>
    have hstep : applyAll d (m :: r) = applyAll (apply d m.1 m.2) r := rfl
    rw [hstep, ih]
    cases hv : pfVal m k with
    | some v =>
      have hvs : pfVals (m :: r) k = v :: pfVals r k := by simp [pfVals, hv]
      have hget := apply_perFile_self d m k v hv
      rw [hvs]
      simp only [List.cons_ne_nil, if_false, List.foldl_cons]
      split
      · next h => rw [h]; exact hget
      · simp only [agetL, hget, Option.getD_some]
    | none =>
      have hvs : pfVals (m :: r) k = pfVals r k := by simp [pfVals, hv]
      have hget := apply_perFile_other d m.1 m.2 k hv
      rw [hvs, hget]
      simp only [agetL, hget]

theorem pfVals_filter (ms : List FMut) (f : File) (k : Nat × File) :
    pfVals (ms.filter fun m => m.1 ≠ f) k = if k.2 = f then [] else pfVals ms k := by
  induction ms with
  | nil => simp [pfVals]
  | cons m r ih =>
    rw [List.filter_cons]
    by_cases hg : m.1 = f
    · rw [if_neg (by simpa using hg), ih]
      split
      · rfl
      · next hk =>
        cases hv : pfVal m k with
        | none => simp [pfVals, hv]
        | some v => exact absurd ((pfVal_some hv).2.symm.trans hg) hk
    · rw [if_pos (by simpa using hg)]
      cases hv : pfVal m k with
      | none =>
        have e1 : ∀ l, pfVals (m :: l) k = pfVals l k := fun l => by simp [pfVals, hv]
        rw [e1, e1, ih]
      | some v =>
        have e1 : ∀ l, pfVals (m :: l) k = v :: pfVals l k := fun l => by simp [pfVals, hv]
        have hk : ¬ k.2 = f := fun e => hg ((pfVal_some hv).2.trans e)
        rw [e1, e1, ih]
        simp [hk]

theorem aget_filter_file {β : Type} (m : List ((Nat × File) × β)) (f : File) (k : Nat × File) :
    aget (m.filter fun e => e.1.2 ≠ f) k = if k.2 = f then none else aget m k := by
  have := aget_filter_key m (fun k : Nat × File => decide (k.2 ≠ f)) k
  simp only [decide_not, Bool.not_eq_eq_eq_not, Bool.not_true, decide_eq_false_iff_not] at this
  rw [show (m.filter fun e => decide (e.1.2 ≠ f)) = m.filter fun e => !decide (e.1.2 = f) from by simp]
  rw [this]
  by_cases hk : k.2 = f <;> simp [hk]

/-- **per-file maps.** After `remove f` every per-file map is exactly what the other files' mutations build. -/
theorem perFile_remove_exact (ms : List FMut) (f : File) (k : Nat × File) :
    aget (remove (build ms) f).perFile k = aget (build (ms.filter fun m => m.1 ≠ f)).perFile k := by
  have h1 : (remove (build ms) f).perFile = (build ms).perFile.filter fun e => e.1.2 ≠ f := by
    simp only [remove, removeProps_perFile]
  rw [h1, aget_filter_file]
  have e : ∀ l : List FMut, build l = applyAll Db.new l := fun _ => rfl
  rw [e, e, perFile_applyAll, perFile_applyAll, pfVals_filter]
  by_cases hk : k.2 = f
  · simp [hk, Db.new]
  · simp [hk]

/-! ### keyed vector maps (`global_decl`) -/

def kVal (m : FMut) (k : Nat × Nat) : Option (File × Nat) :=
  match m.2 with
  | .keyed a b v => if (a, b) = k then some (m.1, v) else none
  | _ => none

/-- the (file, value) items pushed under key `k`, in order -/
def kVals (ms : List FMut) (k : Nat × Nat) : List (File × Nat) := ms.filterMap fun m => kVal m k

theorem kVal_some {m : FMut} {k : Nat × Nat} {x : File × Nat} (h : kVal m k = some x) :
    m.2 = .keyed k.1 k.2 x.2 ∧ m.1 = x.1 := by
  obtain ⟨f, mu⟩ := m
  cases mu with
  | keyed a b w =>
    simp only [kVal] at h
    split at h
    · next hk => cases h; subst hk; exact ⟨rfl, rfl⟩
    · cases h
  | perFile a w => cases h
  | nested a b w => cases h
  | owned a b w => cases h
  | prop o fld w => cases h

theorem apply_keyed_other (d : Db) (f : File) (m : Mut) (k : Nat × Nat) (h : kVal (f, m) k = none) :
    aget (apply d f m).keyed k = aget d.keyed k := by
  cases m with
  | keyed a b v =>
    simp only [apply, apush]
    apply aget_aset_ne
    intro e
    simp [kVal, e] at h
  | perFile a v => rfl
  | nested a b v => rfl
  | owned a b v => rfl
  | prop o fld v =>
    simp only [apply]
    rw [getOrCreateProp_keyed]

theorem apply_keyed_self (d : Db) (m : FMut) (k : Nat × Nat) (x : File × Nat) (h : kVal m k = some x) :
    aget (apply d m.1 m.2).keyed k = some (agetL d.keyed k ++ [x]) := by
  obtain ⟨h1, h2⟩ := kVal_some h
  obtain ⟨f, mu⟩ := m
  obtain ⟨a, b⟩ := k
  obtain ⟨g, v⟩ := x
  simp only at h1 h2
  subst h1; subst h2
  simp only [apply, apush]
  exact aget_aset_self _ _ _

theorem apply_keyed_nodup (d : Db) (f : File) (m : Mut) (h : (akeys d.keyed).Nodup) :
    (akeys (apply d f m).keyed).Nodup := by
  cases m with
  | keyed a b v => simp only [apply, apush]; exact nodup_akeys_aset _ _ _ h
  | perFile a v => exact h
  | nested a b v => exact h
  | owned a b v => exact h
  | prop o fld v => simp only [apply]; rw [getOrCreateProp_keyed]; exact h

theorem keyed_applyAll_nodup (ms : List FMut) (d : Db) (h : (akeys d.keyed).Nodup) :
    (akeys (applyAll d ms).keyed).Nodup := by
  induction ms generalizing d with
  | nil => exact h
  | cons m r ih => exact ih _ (apply_keyed_nodup d m.1 m.2 h)

theorem keyed_applyAll (ms : List FMut) (d : Db) (k : Nat × Nat) :
    aget (applyAll d ms).keyed k =
      if kVals ms k = [] then aget d.keyed k else some (agetL d.keyed k ++ kVals ms k) := by
  induction ms generalizing d with
  | nil => simp [applyAll, kVals]
  | cons m r ih =>
    have hstep : applyAll d (m :: r) = applyAll (apply d m.1 m.2) r := rfl
    rw [hstep, ih]
    cases hv : kVal m k with
    | some x =>
      have hvs : kVals (m :: r) k = x :: kVals r k := by simp [kVals, hv]
      have hget := apply_keyed_self d m k x hv
      rw [hvs]
      simp only [List.cons_ne_nil, if_false]
      split
      · next h => rw [h]; exact hget
      · simp only [agetL, hget, Option.getD_some, List.append_assoc, List.singleton_append]
    | none =>
      have hvs : kVals (m :: r) k = kVals r k := by simp [kVals, hv]
      have hget := apply_keyed_other d m.1 m.2 k hv
      rw [hvs, hget]
      simp only [agetL, hget]

theorem kVals_filter (ms : List FMut) (f : File) (k : Nat × Nat) :
    kVals (ms.filter fun m => m.1 ≠ f) k = (kVals ms k).filter fun x => x.1 ≠ f := by
  induction ms with
  | nil => rfl
  | cons m r ih =>
    rw [List.filter_cons]
    by_cases hg : m.1 = f
    · rw [if_neg (by simpa using hg), ih]
      cases hv : kVal m k with
      | none => simp [kVals, hv]
      | some x =>
        have hx : x.1 = f := (kVal_some hv).2.symm.trans hg
        have e1 : kVals (m :: r) k = x :: kVals r k := by simp [kVals, hv]
        rw [e1, List.filter_cons, if_neg (by simpa using hx)]
    · rw [if_pos (by simpa using hg)]
      cases hv : kVal m k with
      | none =>
        have e1 : ∀ l, kVals (m :: l) k = kVals l k := fun l => by simp [kVals, hv]
        rw [e1, e1, ih]
      | some x =>
        have hx : ¬ x.1 = f := fun e => hg ((kVal_some hv).2.trans e)
        have e1 : ∀ l, kVals (m :: l) k = x :: kVals l k := fun l => by simp [kVals, hv]
        rw [e1, e1, ih, List.filter_cons, if_pos (by simpa using hx)]

def keepOthers (f : File) (v : List (File × Nat)) : Option (List (File × Nat)) :=
  if (v.filter fun x => x.1 ≠ f).isEmpty then none else some (v.filter fun x => x.1 ≠ f)

theorem retainKeyed_eq (m : List ((Nat × Nat) × List (File × Nat))) (f : File) :
    retainKeyed m f = m.filterMap fun e => (keepOthers f e.2).map fun v => (e.1, v) := by
  unfold retainKeyed keepOthers
  congr 1
  funext e
  simp only
  split <;> simp_all

/-- **keyed vector maps.** After `remove f` every `global_decl`-shaped map is exactly what the other files'
mutations build: no item of `f`, the other files' items in their order, no emptied key left behind. -/
theorem keyed_remove_exact (ms : List FMut) (f : File) (k : Nat × Nat) :
    aget (remove (build ms) f).keyed k = aget (build (ms.filter fun m => m.1 ≠ f)).keyed k := by
  have h1 : (remove (build ms) f).keyed = retainKeyed (build ms).keyed f := by
    simp only [remove, removeProps_keyed]
  have e : ∀ l : List FMut, build l = applyAll Db.new l := fun _ => rfl
  have hnd : (akeys (build ms).keyed).Nodup := by
    rw [e]; exact keyed_applyAll_nodup ms Db.new (by simp [Db.new, akeys])
  rw [h1, retainKeyed_eq, aget_filterMap_val (build ms).keyed (keepOthers f) k hnd,
    e, e, keyed_applyAll, keyed_applyAll, kVals_filter]
  have hn : aget Db.new.keyed k = none := rfl
  have hl : agetL Db.new.keyed k = [] := rfl
  rw [hn, hl]
  by_cases h0 : kVals ms k = []
  · simp [h0]
  · simp only [h0, if_false, Option.bind_some, List.nil_append, keepOthers]
    generalize ((kVals ms k).filter fun x => x.1 ≠ f) = l
    cases l <;> simp

theorem keyed_remove_nodup (ms : List FMut) (f : File) : (akeys (remove (build ms) f).keyed).Nodup := by
  have h1 : (remove (build ms) f).keyed = retainKeyed (build ms).keyed f := by
    simp only [remove, removeProps_keyed]
  rw [h1, retainKeyed_eq]
  exact List.Nodup.sublist (akeys_filterMap_sublist _ _)
    (keyed_applyAll_nodup ms Db.new (by simp [Db.new, akeys]))

/-- sizes: both maps have duplicate-free keys, so equal lookups give equal entry counts -/
theorem keyed_keys_nodup (ms : List FMut) : (akeys (build ms).keyed).Nodup :=
  keyed_applyAll_nodup ms Db.new (by simp [Db.new, akeys])

/-! ### nested per-file maps (`index_reference`, `global_references`) -/

theorem getOrCreateProp_nested (d : Db) (o : Owner) : (getOrCreateProp d o).1.nested = d.nested := by
  unfold getOrCreateProp; split <;> rfl
theorem dropOwner_nested (d : Db) (o : Owner) : (dropOwner d o).nested = d.nested := by
  unfold dropOwner; split <;> rfl
theorem fold_dropOwner_nested (owners : List Owner) (d : Db) :
    (owners.foldl dropOwner d).nested = d.nested := by
  induction owners generalizing d with
  | nil => rfl
  | cons o r ih => simp only [List.foldl_cons]; rw [ih, dropOwner_nested]
theorem removeProps_nested (d : Db) (f : File) : (removeProps d f).nested = d.nested := by
  unfold removeProps
  split
  · rfl
  · rw [fold_dropOwner_nested]

def nVal (m : FMut) (k : Nat × Nat) : Option (File × Nat) :=
  match m.2 with
  | .nested a b v => if (a, b) = k then some (m.1, v) else none
  | _ => none

/-- the (file, value) insertions under key `k`, in order -/
def nVals (ms : List FMut) (k : Nat × Nat) : List (File × Nat) := ms.filterMap fun m => nVal m k

/-- the inner per-file map after the insertions `xs` -/
def insAll (inner : List (File × List Nat)) (xs : List (File × Nat)) : List (File × List Nat) :=
  xs.foldl (fun acc x => nestedInsert acc x.1 x.2) inner

theorem nVal_some {m : FMut} {k : Nat × Nat} {x : File × Nat} (h : nVal m k = some x) :
    m.2 = .nested k.1 k.2 x.2 ∧ m.1 = x.1 := by
  obtain ⟨f, mu⟩ := m
  cases mu with
  | nested a b w =>
    simp only [nVal] at h
    split at h
    · next hk => cases h; subst hk; exact ⟨rfl, rfl⟩
    · cases h
  | perFile a w => cases h
  | keyed a b w => cases h
  | owned a b w => cases h
  | prop o fld w => cases h

theorem apply_nested_other (d : Db) (f : File) (m : Mut) (k : Nat × Nat) (h : nVal (f, m) k = none) :
    aget (apply d f m).nested k = aget d.nested k := by
  cases m with
  | nested a b v =>
    simp only [apply]
    apply aget_aset_ne
    intro e
    simp [nVal, e] at h
  | perFile a v => rfl
  | keyed a b v => rfl
  | owned a b v => rfl
  | prop o fld v =>
    simp only [apply]
    rw [getOrCreateProp_nested]

theorem apply_nested_self (d : Db) (m : FMut) (k : Nat × Nat) (x : File × Nat) (h : nVal m k = some x) :
    aget (apply d m.1 m.2).nested k = some (nestedInsert (agetL d.nested k) x.1 x.2) := by
  obtain ⟨h1, h2⟩ := nVal_some h
  obtain ⟨f, mu⟩ := m
  obtain ⟨a, b⟩ := k
  obtain ⟨g, v⟩ := x
  simp only at h1 h2
  subst h1; subst h2
  simp only [apply]
  exact aget_aset_self _ _ _

theorem apply_nested_nodup (d : Db) (f : File) (m : Mut) (h : (akeys d.nested).Nodup) :
    (akeys (apply d f m).nested).Nodup := by
  cases m with
  | nested a b v => simp only [apply]; exact nodup_akeys_aset _ _ _ h
  | perFile a v => exact h
  | keyed a b v => exact h
  | owned a b v => exact h
  | prop o fld v => simp only [apply]; rw [getOrCreateProp_nested]; exact h

theorem nested_applyAll_nodup (ms : List FMut) (d : Db) (h : (akeys d.nested).Nodup) :
    (akeys (applyAll d ms).nested).Nodup := by
  induction ms generalizing d with
  | nil => exact h
  | cons m r ih => exact ih _ (apply_nested_nodup d m.1 m.2 h)

theorem nested_applyAll (ms : List FMut) (d : Db) (k : Nat × Nat) :
    aget (applyAll d ms).nested k =
      if nVals ms k = [] then aget d.nested k else some (insAll (agetL d.nested k) (nVals ms k)) := by
  induction ms generalizing d with
  | nil => simp [applyAll, nVals]
  | cons m r ih =>
    have hstep : applyAll d (m :: r) = applyAll (apply d m.1 m.2) r := rfl
    rw [hstep, ih]
    cases hv : nVal m k with
    | some x =>
      have hvs : nVals (m :: r) k = x :: nVals r k := by simp [nVals, hv]
      have hget := apply_nested_self d m k x hv
      rw [hvs]
      simp only [List.cons_ne_nil, if_false, insAll, List.foldl_cons]
      split
      · next h => rw [h]; exact hget
      · simp only [agetL, hget, Option.getD_some]
    | none =>
      have hvs : nVals (m :: r) k = nVals r k := by simp [nVals, hv]
      have hget := apply_nested_other d m.1 m.2 k hv
      rw [hvs, hget]
      simp only [agetL, hget]

theorem nVals_filter (ms : List FMut) (f : File) (k : Nat × Nat) :
    nVals (ms.filter fun m => m.1 ≠ f) k = (nVals ms k).filter fun x => x.1 ≠ f := by
  induction ms with
  | nil => rfl
  | cons m r ih =>
    rw [List.filter_cons]
    by_cases hg : m.1 = f
    · rw [if_neg (by simpa using hg), ih]
      cases hv : nVal m k with
      | none => simp [nVals, hv]
      | some x =>
        have hx : x.1 = f := (nVal_some hv).2.symm.trans hg
        have e1 : nVals (m :: r) k = x :: nVals r k := by simp [nVals, hv]
        rw [e1, List.filter_cons, if_neg (by simpa using hx)]
    · rw [if_pos (by simpa using hg)]
      cases hv : nVal m k with
      | none =>
        have e1 : ∀ l, nVals (m :: l) k = nVals l k := fun l => by simp [nVals, hv]
        rw [e1, e1, ih]
      | some x =>
        have hx : ¬ x.1 = f := fun e => hg ((nVal_some hv).2.trans e)
        have e1 : ∀ l, nVals (m :: l) k = x :: nVals l k := fun l => by simp [nVals, hv]
        rw [e1, e1, ih, List.filter_cons, if_pos (by simpa using hx)]

/-- deleting `f`'s inner entry commutes with the insertions of the other files -/
theorem adel_insAll (inner : List (File × List Nat)) (xs : List (File × Nat)) (f : File) :
    adel (insAll inner xs) f = insAll (adel inner f) (xs.filter fun x => x.1 ≠ f) := by
  induction xs generalizing inner with
  | nil => rfl
  | cons x r ih =>
    simp only [insAll, List.foldl_cons] at ih ⊢
    rw [ih]
    rw [List.filter_cons]
    by_cases hx : x.1 = f
    · rw [if_neg (by simpa using hx)]
      simp only [nestedInsert]
      rw [← hx, adel_aset_self]
    · rw [if_pos (by simpa using hx)]
      simp only [List.foldl_cons, nestedInsert]
      rw [adel_aset_ne _ _ _ _ hx]
      have : agetL (adel inner f) x.1 = agetL inner x.1 := by
        unfold agetL; rw [aget_adel]; simp [hx]
      rw [this]

def dropFile (f : File) (v : List (File × List Nat)) : Option (List (File × List Nat)) :=
  if (adel v f).isEmpty then none else some (adel v f)

theorem retainNested_eq (m : List ((Nat × Nat) × List (File × List Nat))) (f : File) :
    retainNested m f = m.filterMap fun e => (dropFile f e.2).map fun v => (e.1, v) := by
  unfold retainNested dropFile
  congr 1
  funext e
  simp only
  split <;> simp_all

theorem insAll_nil_iff (xs : List (File × Nat)) : insAll [] xs = [] ↔ xs = [] := by
  constructor
  · intro h
    cases xs with
    | nil => rfl
    | cons x r =>
      exfalso
      have hmem : ∀ (ys : List (File × Nat)) (acc : List (File × List Nat)), acc ≠ [] → insAll acc ys ≠ [] := by
        intro ys
        induction ys with
        | nil => intro acc h; exact h
        | cons y t ih =>
          intro acc _
          simp only [insAll, List.foldl_cons]
          apply ih
          simp only [nestedInsert]
          intro e
          have := aget_aset_self acc y.1 (insertSet (agetL acc y.1) y.2)
          rw [e] at this
          cases this
      simp only [insAll, List.foldl_cons] at h
      refine hmem r _ ?_ h
      simp [nestedInsert, aset]
  · intro h; subst h; rfl

/-- **nested per-file maps.** After `remove f` every `index_reference`-shaped map is exactly what the other
files' mutations build: no inner entry of `f`, no emptied key left behind. -/
theorem nested_remove_exact (ms : List FMut) (f : File) (k : Nat × Nat) :
    aget (remove (build ms) f).nested k = aget (build (ms.filter fun m => m.1 ≠ f)).nested k := by
  have h1 : (remove (build ms) f).nested = retainNested (build ms).nested f := by
    simp only [remove, removeProps_nested]
  have e : ∀ l : List FMut, build l = applyAll Db.new l := fun _ => rfl
  have hnd : (akeys (build ms).nested).Nodup := by
    rw [e]; exact nested_applyAll_nodup ms Db.new (by simp [Db.new, akeys])
  rw [h1, retainNested_eq, aget_filterMap_val (build ms).nested (dropFile f) k hnd,
    e, e, nested_applyAll, nested_applyAll, nVals_filter]
  have hn : aget Db.new.nested k = none := rfl
  have hl : agetL Db.new.nested k = [] := rfl
  rw [hn, hl]
  by_cases h0 : nVals ms k = []
  · simp [h0]
  · simp only [h0, if_false, Option.bind_some, dropFile]
    rw [adel_insAll]
    have : adel ([] : List (File × List Nat)) f = [] := rfl
    rw [this]
    by_cases h2 : ((nVals ms k).filter fun x => x.1 ≠ f) = []
    · rw [h2]; simp [insAll]
    · have h3 : insAll [] ((nVals ms k).filter fun x => x.1 ≠ f) ≠ [] := fun e => h2 ((insAll_nil_iff _).mp e)
      simp only [h2, if_false]
      rw [if_neg (by simpa using h3)]

/-! ### id-owned maps with a per-file id list (`signatures` / `in_file_signatures`) -/

theorem getOrCreateProp_owned (d : Db) (o : Owner) : (getOrCreateProp d o).1.owned = d.owned := by
  unfold getOrCreateProp; split <;> rfl
theorem getOrCreateProp_inFile (d : Db) (o : Owner) : (getOrCreateProp d o).1.inFile = d.inFile := by
  unfold getOrCreateProp; split <;> rfl
theorem dropOwner_owned (d : Db) (o : Owner) : (dropOwner d o).owned = d.owned := by
  unfold dropOwner; split <;> rfl
theorem dropOwner_inFile (d : Db) (o : Owner) : (dropOwner d o).inFile = d.inFile := by
  unfold dropOwner; split <;> rfl
theorem fold_dropOwner_owned (owners : List Owner) (d : Db) :
    (owners.foldl dropOwner d).owned = d.owned := by
  induction owners generalizing d with
  | nil => rfl
  | cons o r ih => simp only [List.foldl_cons]; rw [ih, dropOwner_owned]
theorem fold_dropOwner_inFile (owners : List Owner) (d : Db) :
    (owners.foldl dropOwner d).inFile = d.inFile := by
  induction owners generalizing d with
  | nil => rfl
  | cons o r ih => simp only [List.foldl_cons]; rw [ih, dropOwner_inFile]
theorem removeProps_owned (d : Db) (f : File) : (removeProps d f).owned = d.owned := by
  unfold removeProps
  split
  · rfl
  · rw [fold_dropOwner_owned]
theorem removeProps_inFile (d : Db) (f : File) : (removeProps d f).inFile = d.inFile := by
  unfold removeProps
  split
  · rfl
  · rw [fold_dropOwner_inFile]

/-- the last value written under id `k = (map, file, id)`, if any -/
def oVal (m : FMut) (k : Nat × File × Nat) : Option Nat :=
  match m.2 with
  | .owned a i v => if (a, m.1, i) = k then some v else none
  | _ => none

def oLast (ms : List FMut) (k : Nat × File × Nat) : Option Nat :=
  ms.foldl (fun acc m => (oVal m k).or acc) none

theorem oVal_file {m : FMut} {k : Nat × File × Nat} {v : Nat} (h : oVal m k = some v) : m.1 = k.2.1 := by
  obtain ⟨f, mu⟩ := m
  cases mu with
  | owned a i w =>
    simp only [oVal] at h
    split at h
    · next hk => subst hk; rfl
    · cases h
  | perFile a w => cases h
  | keyed a b w => cases h
  | nested a b w => cases h
  | prop o fld w => cases h

theorem apply_owned (d : Db) (m : FMut) (k : Nat × File × Nat) :
    aget (apply d m.1 m.2).owned k = (oVal m k).or (aget d.owned k) := by
  obtain ⟨f, mu⟩ := m
  cases mu with
  | owned a i v =>
    simp only [apply, oVal]
    rw [aget_aset]
    by_cases hk : k = (a, f, i)
    · subst hk; simp
    · have : ¬ (a, f, i) = k := fun e => hk e.symm
      simp [hk, this]
  | perFile a v => simp [apply, oVal]
  | keyed a b v => simp [apply, oVal]
  | nested a b v => simp [apply, oVal]
  | prop o fld v => simp only [apply, oVal]; rw [getOrCreateProp_owned]; simp

theorem owned_applyAll (ms : List FMut) (d : Db) (k : Nat × File × Nat) :
    aget (applyAll d ms).owned k = (ms.foldl (fun acc m => (oVal m k).or acc) (aget d.owned k)) := by
  induction ms generalizing d with
  | nil => rfl
  | cons m r ih =>
    have hstep : applyAll d (m :: r) = applyAll (apply d m.1 m.2) r := rfl
    rw [hstep, ih, apply_owned]
    rfl

/-- every id stored for a file is listed in that file's id list -/
def OwnedListed (d : Db) : Prop :=
  ∀ k : Nat × File × Nat, (aget d.owned k).isSome = true → k.2.2 ∈ agetL d.inFile (k.1, k.2.1)

theorem mem_insertSet (xs : List Nat) (x y : Nat) : y ∈ insertSet xs x ↔ y = x ∨ y ∈ xs := by
  unfold insertSet
  split
  · next h =>
    constructor
    · exact Or.inr
    · rintro (h1 | h1)
      · subst h1; exact h
      · exact h1
  · simp [or_comm]

theorem apply_ownedListed (d : Db) (f : File) (m : Mut) (h : OwnedListed d) : OwnedListed (apply d f m) := by
  cases m with
  | owned a i v =>
    intro k hk
    simp only [apply] at hk ⊢
    rw [aget_aset] at hk
    rw [agetL_aset]
    by_cases hk2 : k = (a, f, i)
    · subst hk2
      simp only [if_true]
      exact (mem_insertSet _ _ _).mpr (Or.inl rfl)
    · simp only [hk2, if_false] at hk
      have := h k hk
      by_cases hk3 : (k.1, k.2.1) = (a, f)
      · rw [if_pos hk3]
        rw [hk3] at this
        exact (mem_insertSet _ _ _).mpr (Or.inr this)
      · rw [if_neg hk3]; exact this
  | perFile a v => exact h
  | keyed a b v => exact h
  | nested a b v => exact h
  | prop o fld v =>
    intro k hk
    simp only [apply] at hk ⊢
    rw [getOrCreateProp_owned] at hk
    rw [getOrCreateProp_inFile]
    exact h k hk

theorem applyAll_ownedListed (ms : List FMut) (d : Db) (h : OwnedListed d) : OwnedListed (applyAll d ms) := by
  induction ms generalizing d with
  | nil => exact h
  | cons m r ih => exact ih _ (apply_ownedListed d m.1 m.2 h)

theorem aget_fold_adel (ids : List Nat) (o : List ((Nat × File × Nat) × Nat)) (a : Nat) (f : File)
    (k : Nat × File × Nat) :
    aget (ids.foldl (fun o id => adel o (a, f, id)) o) k =
      if k.1 = a ∧ k.2.1 = f ∧ k.2.2 ∈ ids then none else aget o k := by
  induction ids generalizing o with
  | nil => simp
  | cons i r ih =>
    simp only [List.foldl_cons]
    rw [ih, aget_adel]
    by_cases h1 : k.1 = a ∧ k.2.1 = f ∧ k.2.2 ∈ r
    · have : k.1 = a ∧ k.2.1 = f ∧ k.2.2 ∈ i :: r := ⟨h1.1, h1.2.1, List.mem_cons_of_mem _ h1.2.2⟩
      simp [h1, this]
    · simp only [h1, if_false]
      by_cases h2 : k = (a, f, i)
      · subst h2; simp
      · simp only [h2, if_false]
        have : ¬ (k.1 = a ∧ k.2.1 = f ∧ k.2.2 ∈ i :: r) := by
          rintro ⟨e1, e2, e3⟩
          rcases List.mem_cons.mp e3 with e4 | e4
          · exact h2 (by obtain ⟨x, y, z⟩ := k; simp only at e1 e2 e4; subst e1; subst e2; subst e4; rfl)
          · exact h1 ⟨e1, e2, e4⟩
        rw [if_neg this]

theorem aget_removeOwned (owned : List ((Nat × File × Nat) × Nat)) (inFile : List ((Nat × File) × List Nat))
    (f : File) (k : Nat × File × Nat) :
    aget (removeOwned owned inFile f) k =
      if k.2.1 = f ∧ ∃ e ∈ inFile, e.1 = (k.1, f) ∧ k.2.2 ∈ e.2 then none else aget owned k := by
  unfold removeOwned
  induction inFile generalizing owned with
  | nil => simp
  | cons e r ih =>
    rw [List.filter_cons]
    by_cases he : e.1.2 = f
    · rw [if_pos (by simpa using he)]
      simp only [List.foldl_cons]
      rw [ih, aget_fold_adel]
      by_cases h1 : k.2.1 = f ∧ ∃ e' ∈ r, e'.1 = (k.1, f) ∧ k.2.2 ∈ e'.2
      · have : k.2.1 = f ∧ ∃ e' ∈ e :: r, e'.1 = (k.1, f) ∧ k.2.2 ∈ e'.2 := by
          obtain ⟨a, e', b, c⟩ := h1
          exact ⟨a, e', List.mem_cons_of_mem _ b, c⟩
        simp [h1, this]
      · simp only [h1, if_false]
        by_cases h2 : k.1 = e.1.1 ∧ k.2.1 = f ∧ k.2.2 ∈ e.2
        · have : k.2.1 = f ∧ ∃ e' ∈ e :: r, e'.1 = (k.1, f) ∧ k.2.2 ∈ e'.2 := by
            refine ⟨h2.2.1, e, List.mem_cons_self, ?_, h2.2.2⟩
            obtain ⟨⟨x, y⟩, z⟩ := e
            simp only at he h2 ⊢
            rw [h2.1, he]
          rw [if_pos h2, if_pos this]
        · rw [if_neg h2]
          have : ¬ (k.2.1 = f ∧ ∃ e' ∈ e :: r, e'.1 = (k.1, f) ∧ k.2.2 ∈ e'.2) := by
            rintro ⟨a, e', b, c, d⟩
            rcases List.mem_cons.mp b with b1 | b1
            · subst b1
              apply h2
              refine ⟨?_, a, d⟩
              rw [c]
            · exact h1 ⟨a, e', b1, c, d⟩
          rw [if_neg this]
    · rw [if_neg (by simpa using he)]
      rw [ih]
      have : (∃ e' ∈ e :: r, e'.1 = (k.1, f) ∧ k.2.2 ∈ e'.2) ↔ ∃ e' ∈ r, e'.1 = (k.1, f) ∧ k.2.2 ∈ e'.2 := by
        constructor
        · rintro ⟨e', b, c, d⟩
          rcases List.mem_cons.mp b with b1 | b1
          · subst b1; rw [c] at he; exact absurd rfl he
          · exact ⟨e', b1, c, d⟩
        · rintro ⟨e', b, c, d⟩; exact ⟨e', List.mem_cons_of_mem _ b, c, d⟩
      simp only [this]

theorem mem_of_agetL {β : Type} (m : List (κ × List β)) (k : κ) (x : β) (h : x ∈ agetL m k) :
    ∃ e ∈ m, e.1 = k ∧ x ∈ e.2 := by
  induction m with
  | nil => simp [agetL, aget] at h
  | cons e r ih =>
    obtain ⟨k2, v2⟩ := e
    by_cases hk : k2 = k
    · subst hk
      simp only [agetL, aget, if_true, Option.getD_some] at h
      exact ⟨(k2, v2), List.mem_cons_self, rfl, h⟩
    · simp only [agetL, aget, hk, if_false] at h
      obtain ⟨e', h1, h2, h3⟩ := ih h
      exact ⟨e', List.mem_cons_of_mem _ h1, h2, h3⟩

theorem oLast_filter (ms : List FMut) (f : File) (k : Nat × File × Nat) (init : Option Nat) :
    (ms.filter fun m => m.1 ≠ f).foldl (fun acc m => (oVal m k).or acc) init =
      if k.2.1 = f then init else ms.foldl (fun acc m => (oVal m k).or acc) init := by
  induction ms generalizing init with
  | nil => simp
  | cons m r ih =>
    rw [List.filter_cons]
    by_cases hg : m.1 = f
    · rw [if_neg (by simpa using hg), ih]
      split
      · rfl
      · next hk =>
        simp only [List.foldl_cons]
        cases hv : oVal m k with
        | none => rfl
        | some v => exact absurd ((oVal_file hv).symm.trans hg) hk
    · rw [if_pos (by simpa using hg)]
      simp only [List.foldl_cons]
      rw [ih]
      split
      · next hk =>
        cases hv : oVal m k with
        | none => rfl
        | some v => exact absurd ((oVal_file hv).trans hk) hg
      · rfl

theorem fold_or_none_of_file (ms : List FMut) (k : Nat × File × Nat) (init : Option Nat)
    (h : (ms.foldl (fun acc m => (oVal m k).or acc) init).isSome = false) : init.isSome = false := by
  induction ms generalizing init with
  | nil => exact h
  | cons m r ih =>
    simp only [List.foldl_cons] at h
    have := ih _ h
    cases hv : oVal m k <;> simp_all

/-- **id-owned maps.** After `remove f` every `signatures`-shaped map is exactly what the other files'
mutations build (ids of `f` are found through `f`'s id list and deleted; nothing else changes). -/
theorem owned_remove_exact (ms : List FMut) (f : File) (k : Nat × File × Nat) :
    aget (remove (build ms) f).owned k = aget (build (ms.filter fun m => m.1 ≠ f)).owned k := by
  have h1 : (remove (build ms) f).owned = removeOwned (build ms).owned (build ms).inFile f := by
    simp only [remove, removeProps_owned, removeProps_inFile]
  have e : ∀ l : List FMut, build l = applyAll Db.new l := fun _ => rfl
  have hl : OwnedListed (build ms) := by
    rw [e]; exact applyAll_ownedListed ms Db.new (by intro k hk; simp [Db.new, aget] at hk)
  rw [h1, aget_removeOwned, e (ms.filter _), owned_applyAll, oLast_filter]
  have hn : aget Db.new.owned k = none := rfl
  rw [hn]
  by_cases hk : k.2.1 = f
  · simp only [hk, true_and, if_true]
    split
    · rfl
    · next hne =>
      -- not listed ⇒ not stored
      cases hs : aget (build ms).owned k with
      | none => rfl
      | some v =>
        exfalso
        apply hne
        have := hl k (by rw [hs]; rfl)
        rw [hk] at this
        obtain ⟨e', h2, h3, h4⟩ := mem_of_agetL _ _ _ this
        exact ⟨e', h2, h3, h4⟩
  · simp only [hk, false_and, if_false]
    rw [e, owned_applyAll, hn]

end Db
end Index
