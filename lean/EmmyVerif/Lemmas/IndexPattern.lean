import EmmyVerif.Model.IndexModule
/-! Module templates with a single `?` (`?.lua`, `?/init.lua`, `src/?.lua` …): the regex `^pre(.*)suf$`
captures exactly the middle of `pre ++ mid ++ suf`. -/
namespace Index.Module

theorem tryGroup_sound (mt : List Char → Bool) (s : List Char) (k : Nat) (g : List Char)
    (h : tryGroup mt s k = some g) :
    ∃ n, n ≤ k ∧ g = s.take n ∧ g.all (fun c => c ≠ '\n') = true ∧ mt (s.drop n) = true := by
  induction k with
  | zero =>
    simp only [tryGroup] at h
    split at h
    · next hm => cases h; exact ⟨0, Nat.le_refl _, by simp, by simp, by simpa using hm⟩
    · cases h
  | succ k ih =>
    simp only [tryGroup] at h
    split at h
    · next hc =>
      cases h
      simp only [Bool.and_eq_true] at hc
      exact ⟨k + 1, Nat.le_refl _, rfl, hc.1, hc.2⟩
    · obtain ⟨n, h1, h2⟩ := ih h
      exact ⟨n, Nat.le_succ_of_le h1, h2⟩

/-- when only one split position can satisfy the continuation, that is the capture -/
theorem tryGroup_unique (mt : List Char → Bool) (s : List Char) (k n0 : Nat) (hn : n0 ≤ k)
    (hok : (s.take n0).all (fun c => c ≠ '\n') = true ∧ mt (s.drop n0) = true)
    (huniq : ∀ n, n ≤ k → mt (s.drop n) = true → n = n0) :
    tryGroup mt s k = some (s.take n0) := by
  induction k with
  | zero =>
    have : n0 = 0 := by omega
    subst this
    simp only [tryGroup]
    have : mt s = true := by simpa using hok.2
    simp [this]
  | succ k ih =>
    simp only [tryGroup]
    by_cases hk : n0 = k + 1
    · subst hk
      have : ((s.take (k + 1)).all (fun c => c ≠ '\n') && mt (s.drop (k + 1))) = true := by
        rw [hok.1, hok.2]; rfl
      rw [if_pos this]
    · have hmt : mt (s.drop (k + 1)) = false := by
        cases hm : mt (s.drop (k + 1)) with
        | false => rfl
        | true => exact absurd (huniq (k + 1) (Nat.le_refl _) hm).symm hk
      simp only [hmt, Bool.and_false, Bool.false_eq_true, if_false]
      exact ih (by omega) (fun n h1 h2 => huniq n (Nat.le_succ_of_le h1) h2)

/-- **single-`?` templates.** `^pre(.*)suf$` on `path` captures `mid` iff `path = pre ++ mid ++ suf` and
`mid` has no line break. -/
theorem matchPattern_single (pre suf path mid : List Char) :
    matchPattern [pre, suf] path = some mid ↔
      (path = pre ++ mid ++ suf ∧ mid.all (fun c => c ≠ '\n') = true) := by
  simp only [matchPattern]
  constructor
  · intro h
    split at h
    · next hp =>
      obtain ⟨n, _, h2, h3, h4⟩ := tryGroup_sound _ _ _ _ h
      have hpre : pre <+: path := List.isPrefixOf_iff_prefix.mp hp
      obtain ⟨t, ht⟩ := hpre
      subst ht
      simp only [matchTail, beq_iff_eq] at h4
      simp only [List.drop_left] at h2 h4
      refine ⟨?_, h3⟩
      rw [h2, ← h4, List.append_assoc, List.take_append_drop]
    · cases h
  · rintro ⟨hp, hm⟩
    subst hp
    have hpre : pre.isPrefixOf (pre ++ mid ++ suf) = true :=
      List.isPrefixOf_iff_prefix.mpr ⟨mid ++ suf, by simp⟩
    rw [if_pos hpre]
    have hd : (pre ++ mid ++ suf).drop pre.length = mid ++ suf := by simp [List.append_assoc]
    rw [hd]
    have hlen : (pre ++ mid ++ suf).length - pre.length = (mid ++ suf).length := by
      simp [List.length_append]
    rw [hlen]
    have := tryGroup_unique (matchTail [suf]) (mid ++ suf) (mid ++ suf).length mid.length
      (by simp [List.length_append])
      (by
        refine ⟨?_, ?_⟩
        · rw [List.take_left]; exact hm
        · simp [matchTail])
      (by
        intro n hn hmt
        simp only [matchTail, beq_iff_eq] at hmt
        have hl := congrArg List.length hmt
        simp only [List.length_drop, List.length_append] at hl
        simp only [List.length_append] at hn
        omega)
    rw [this]
    simp

end Index.Module
