import EmmyVerif.Lemmas.FlowTy
/-! Soundness of the condition narrows and of assignment results (`Flow` family). -/
namespace Flow

/-! ### truthiness -/

theorem truthyAtom_sound {a : Atom} {v : Val} (hv : v.truthy = true) (h : a.has v = true) :
    ∃ b, truthyAtom a = some b ∧ b.has v = true := by
  cases a <;> cases v <;> simp_all [truthyAtom, Atom.has, Val.truthy]
  all_goals (rename_i b; cases b <;> simp_all [truthyAtom, Atom.has])

theorem removeFalseOrNil_sound {t : Ty} {v : Val} (hv : v.truthy = true) (h : t.has v = true) :
    (removeFalseOrNil t).has v = true := by
  obtain ⟨a, ha, hav⟩ := Ty.has_iff.mp h
  obtain ⟨b, hb, hbv⟩ := truthyAtom_sound hv hav
  have hgen : (fromAtoms (t.filterMap truthyAtom)).has v = true :=
    has_fromAtoms (List.mem_filterMap.mpr ⟨a, ha, hb⟩) hbv
  unfold removeFalseOrNil
  split
  · simp only [List.mem_cons, List.not_mem_nil, or_false] at ha; subst ha
    simp [truthyAtom] at hb
  · simp only [List.mem_cons, List.not_mem_nil, or_false] at ha; subst ha
    simp [truthyAtom] at hb
  · simp only [List.mem_cons, List.not_mem_nil, or_false] at ha; subst ha
    simp only [truthyAtom, Option.some.injEq] at hb; subst hb
    simpa [has_single] using hbv
  · simp only [List.mem_cons, List.not_mem_nil, or_false] at ha; subst ha
    simpa [has_single] using hav
  · exact hgen

theorem falsyAtom_sound {a : Atom} {v : Val} (hv : v.truthy = false) (h : a.has v = true) :
    (falsyAtom a).has v = true ∧ falsyAtom a ≠ .never := by
  cases a <;> cases v <;> simp_all [falsyAtom, Atom.has, Val.truthy, ndAtom]
  all_goals (rename_i b; cases b <;> simp_all [falsyAtom, Atom.has])

theorem narrowFalseOrNil_sound {t : Ty} {v : Val} (hv : v.truthy = false) (h : t.has v = true) :
    (narrowFalseOrNil t).has v = true := by
  obtain ⟨a, ha, hav⟩ := Ty.has_iff.mp h
  obtain ⟨h1, h2⟩ := falsyAtom_sound hv hav
  unfold narrowFalseOrNil
  split
  · simp only [List.mem_cons, List.not_mem_nil, or_false] at ha; subst ha
    simpa [has_single] using h1
  · refine has_fromAtoms (a := falsyAtom a) ?_ h1
    simp only [List.mem_filter, List.mem_map, bne_iff_ne, ne_eq]
    exact ⟨⟨a, ha, rfl⟩, h2⟩

/-! ### `type(x) == "T"` -/

theorem TName.atom_has {g : TName} {v : Val} : (g.atom).has v = true ↔ v.typeName = g := by
  cases g <;> cases v <;> simp [TName.atom, Atom.has, Val.typeName]

theorem ndAtom_guard_sound {a : Atom} {g : TName} {v : Val} (hg : v.typeName = g) (h : a.has v = true) :
    ∃ r, ndAtom a g.atom = some r ∧ r.has v = true := by
  subst hg
  cases a <;> cases v <;> simp_all [ndAtom, Atom.has, Val.typeName, TName.atom, Atom.isNumber, Atom.isString, Atom.isBoolean]

theorem guardTrue_sound {t : Ty} {g : TName} {v : Val} (hg : v.typeName = g) (h : t.has v = true) :
    (guardTrue t g.atom).has v = true := by
  obtain ⟨a, ha, hav⟩ := Ty.has_iff.mp h
  obtain ⟨r, hr, hrv⟩ := ndAtom_guard_sound hg hav
  unfold guardTrue narrowDown
  split
  · simp only [List.mem_cons, List.not_mem_nil, or_false] at ha; subst ha
    simp [hr, has_single, hrv]
  · have hm : r ∈ t.filterMap (fun a => ndAtom a g.atom) := List.mem_filterMap.mpr ⟨a, ha, hr⟩
    split
    · rename_i he; rw [he] at hm; simp at hm
    · rename_i rs _
      simp only [Option.getD_some]
      exact has_fromAtoms hm hrv

theorem ndAtom_self_guard {a : Atom} {g : TName} {v : Val} (hs : ndAtom a g.atom = some a) (h : a.has v = true) :
    v.typeName = g := by
  cases a <;> cases g <;> cases v <;>
    simp_all [ndAtom, Atom.has, Val.typeName, TName.atom, Atom.isNumber, Atom.isString, Atom.isBoolean]

theorem removeApply_single_guard {a : Atom} {g : TName} {v : Val} (hg : v.typeName ≠ g) (h : a.has v = true) :
    (removeApply [a] g.atom).has v = true := by
  cases a <;> cases g <;> cases v <;>
    simp_all [removeApply, removeAtom, Atom.has, Val.typeName, TName.atom, Atom.isNumber, Atom.isString,
      Atom.isBoolean, Ty.has]

theorem guardFalseAtom_sound {a : Atom} {g : TName} {v : Val} (hg : v.typeName ≠ g) (h : a.has v = true) :
    (guardFalseAtom a g.atom).has v = true := by
  unfold guardFalseAtom
  split
  · rename_i hs
    exact absurd (ndAtom_self_guard (by simpa using hs) h) hg
  · exact removeApply_single_guard hg h

theorem guardFalse_sound {t : Ty} {g : TName} {v : Val} (hg : v.typeName ≠ g) (h : t.has v = true) :
    (guardFalse t g.atom).has v = true := by
  obtain ⟨a, ha, hav⟩ := Ty.has_iff.mp h
  have h1 := guardFalseAtom_sound hg hav
  unfold guardFalse
  split
  · simp only [List.mem_cons, List.not_mem_nil, or_false] at ha; subst ha
    exact h1
  · refine has_fromVec (t := guardFalseAtom a g.atom) ?_ h1
    simp only [List.mem_filter, List.mem_map, Bool.not_eq_eq_eq_not, Bool.not_true]
    refine ⟨⟨a, ha, rfl⟩, ?_⟩
    cases hn : isNever (guardFalseAtom a g.atom)
    · rfl
    · have : guardFalseAtom a g.atom = [.never] := by simpa [isNever] using hn
      rw [this] at h1
      simp [has_single, never_has] at h1

/-! ### `x == nil`, `x == <literal>` -/

theorem lit_ty_has (l : Lit) : l.ty.has l.val = true := by
  cases l <;> simp [Lit.ty, Lit.val, Atom.has]

/-- a literal type other than a table constant contains exactly the literal's value -/
theorem lit_ty_precise {l : Lit} {v : Val} (hl : ∀ i, l ≠ .tbl i) (h : l.ty.has v = true) : v = l.val := by
  cases l <;> cases v <;> simp_all [Lit.ty, Lit.val, Atom.has]

theorem intersectAtom_sound {a : Atom} {l : Lit} (hl : ∀ i, l ≠ .tbl i) (h : a.has l.val = true) :
    (intersectAtom a l.ty).has l.val = true := by
  cases l <;> cases a <;>
    simp_all [intersectAtom, Lit.ty, Lit.val, Atom.has, Atom.isNumber]

theorem intersectTy_sound {t : Ty} {l : Lit} (hl : ∀ i, l ≠ .tbl i) (h : t.has l.val = true) :
    (intersectTy t l.ty).has l.val = true := by
  obtain ⟨a, ha, hav⟩ := Ty.has_iff.mp h
  have h1 := intersectAtom_sound hl hav
  unfold intersectTy
  split
  · simp only [List.mem_cons, List.not_mem_nil, or_false] at ha; subst ha
    simpa [has_single] using h1
  · have hm : intersectAtom a l.ty ∈ (t.map fun a => intersectAtom a l.ty).filter (fun a => a != .never) := by
      simp only [List.mem_filter, List.mem_map, bne_iff_ne, ne_eq]
      refine ⟨⟨a, ha, rfl⟩, ?_⟩
      intro hn
      rw [hn] at h1
      simp [never_has] at h1
    split
    · rename_i he; rw [he] at hm; simp at hm
    · exact has_fromAtoms hm h1

theorem removeApply_lit_sound {t : Ty} {v : Val} {l : Lit} (hl : ∀ i, l ≠ .tbl i) (hv : v ≠ l.val)
    (h : t.has v = true) : (removeApply t l.ty).has v = true := by
  obtain ⟨a, ha, hav⟩ := Ty.has_iff.mp h
  have hne : a ≠ l.ty := by
    intro he; subst he; exact hv (lit_ty_precise hl hav)
  have hr : removeAtom a l.ty = some a := by
    unfold removeAtom
    have : (a == l.ty) = false := by simpa using hne
    simp only [this, Bool.false_eq_true, ↓reduceIte]
    cases l <;> simp_all [Lit.ty]
  unfold removeApply
  split
  · simp only [List.mem_cons, List.not_mem_nil, or_false] at ha; subst ha
    simp [hr, has_single, hav]
  · exact has_fromAtoms (List.mem_filterMap.mpr ⟨a, ha, hr⟩) hav

theorem eqLit_sound {t : Ty} {v : Val} {flow : Bool} {l : Lit} (hl : ∀ i, l ≠ .tbl i)
    (hf : (v == l.val) = flow) (h : t.has v = true) : (eqLit t l.ty flow).has v = true := by
  unfold eqLit
  cases flow
  · simp only [Bool.false_eq_true, ↓reduceIte]
    exact removeApply_lit_sound hl (by simpa using hf) h
  · simp only [↓reduceIte]
    have hv : v = l.val := by simpa using hf
    subst hv
    split
    · exact h
    · exact intersectTy_sound hl h

/-! ### assignment -/

theorem ndAtom_lit_has {s : Atom} {l : Lit} {r : Atom}
    (h : ndAtom s l.ty = some r) : r.has l.val = true := by
  unfold ndAtom at h
  split at h
  · rename_i heq
    have h1 : s = l.ty := by simpa using heq
    simp only [Option.some.injEq] at h
    subst h; subst h1; exact lit_ty_has l
  · cases l <;> cases s <;>
      simp_all [Lit.ty, Lit.val, Atom.isNumber, Atom.isString, Atom.isBoolean] <;>
      (try subst h) <;> simp_all [Atom.has]

theorem ndAtom_tbl_has {s : Atom} {i j : Nat} {r : Atom} (h : ndAtom s (.tblC i) = some r) :
    r.has (.tbl j) = true := by
  unfold ndAtom at h
  split at h
  · simp only [Option.some.injEq] at h
    rename_i heq
    have h1 : s = .tblC i := by simpa using heq
    subst h; subst h1; simp [Atom.has]
  · cases s <;> simp_all <;> (try subst h) <;> simp_all [Atom.has]

theorem narrowDown_witness {s : Ty} {t : Atom} {n : Ty} (h : narrowDown s t = some n) :
    ∃ a b, a ∈ s ∧ ndAtom a t = some b ∧ b ∈ n := by
  unfold narrowDown at h
  split at h
  · rename_i a
    cases hr : ndAtom a t with
    | none => simp [hr] at h
    | some r =>
      simp only [hr, Option.map_some, Option.some.injEq] at h
      subst h
      exact ⟨a, r, by simp, hr, by simp⟩
  · generalize hrs : s.filterMap (fun a => ndAtom a t) = rs at h
    cases rs with
    | nil => simp at h
    | cons r rest =>
      simp only [Option.some.injEq] at h
      subst h
      have hm : r ∈ s.filterMap (fun a => ndAtom a t) := by rw [hrs]; simp
      obtain ⟨a, ha, hr⟩ := List.mem_filterMap.mp hm
      exact ⟨a, r, ha, hr, mem_fromAtoms_of (by simp)⟩

theorem narrowDown_mem_sub {s : Ty} {t : Atom} {n : Ty} {b : Atom} (h : narrowDown s t = some n) (hb : b ∈ n) :
    (∃ a ∈ s, ndAtom a t = some b) ∨ b = .nil := by
  unfold narrowDown at h
  split at h
  · rename_i a
    cases hr : ndAtom a t with
    | none => simp [hr] at h
    | some r =>
      simp only [hr, Option.map_some, Option.some.injEq] at h
      subst h
      simp only [List.mem_cons, List.not_mem_nil, or_false] at hb
      subst hb
      exact .inl ⟨a, by simp, hr⟩
  · generalize hrs : s.filterMap (fun a => ndAtom a t) = rs at h
    cases rs with
    | nil => simp at h
    | cons r rest =>
      simp only [Option.some.injEq] at h
      subst h
      rcases mem_fromAtoms_sub hb with hm | hm
      · rw [← hrs] at hm
        obtain ⟨a, ha, hr⟩ := List.mem_filterMap.mp hm
        exact .inl ⟨a, ha, hr⟩
      · exact .inr hm

theorem narrowDown_lit_has {src : Ty} {l : Lit} {n : Ty} (h : narrowDown src l.ty = some n) :
    n.has l.val = true := by
  obtain ⟨a, b, ha, hr, hb⟩ := narrowDown_witness h
  exact Ty.has_of_mem hb (ndAtom_lit_has hr)

theorem tyEq_single_has {n : Ty} {e : Atom} {v : Val} (h : tyEq n [e] = true) (hv : e.has v = true) :
    n.has v = true := by
  simp only [tyEq, Bool.and_eq_true, List.all_eq_true, List.contains_eq_mem, decide_eq_true_eq,
    List.mem_cons, List.not_mem_nil, or_false, forall_eq] at h
  exact Ty.has_of_mem h.2 hv

theorem assignSpecial_some {d : Atom} {src : Ty} {e : Atom} {r : Ty} (h : assignSpecial d src e = some r) :
    (∃ i, e = .tblC i) ∧ narrowDown (removeFalseOrNil [d]) e = some r := by
  unfold assignSpecial at h
  split at h
  · rename_i i
    split at h
    · split at h
      · simp at h
      · exact ⟨⟨i, rfl⟩, h⟩
    · simp at h
  · simp at h

/-- the result of an assignment contains the assigned literal, whatever the antecedent type -/
theorem assignResult_sound {d : Atom} {src : Ty} {l : Lit} :
    (assignResult d src l.ty).has l.val = true := by
  unfold assignResult
  split
  · rename_i r hsp
    obtain ⟨⟨i, hi⟩, hn⟩ := assignSpecial_some hsp
    have hl : l = .tbl i := by cases l <;> simp_all [Lit.ty]
    subst hl
    exact narrowDown_lit_has hn
  · split
    · simpa [has_single] using lit_ty_has l
    · cases hn : narrowDown src l.ty with
      | none => simpa [has_single] using lit_ty_has l
      | some n =>
        simp only [Option.getD_some]
        exact narrowDown_lit_has hn

/-! ### no `unknown` in assignment results -/

theorem ndAtom_lit_ne_unknown {s : Atom} {l : Lit} {r : Atom} (h : ndAtom s l.ty = some r) : r ≠ .unknown := by
  unfold ndAtom at h
  split at h
  · rename_i heq
    have h1 : s = l.ty := by simpa using heq
    simp only [Option.some.injEq] at h
    subst h; subst h1; cases l <;> simp [Lit.ty]
  · cases l <;> cases s <;>
      simp_all [Lit.ty, Atom.isNumber, Atom.isString, Atom.isBoolean] <;>
      (try subst h) <;> simp_all

theorem narrowDown_lit_noUnk {src : Ty} {l : Lit} {n : Ty} (h : narrowDown src l.ty = some n) :
    Atom.unknown ∉ n := by
  intro hm
  rcases narrowDown_mem_sub h hm with ⟨a, _, hr⟩ | he
  · exact ndAtom_lit_ne_unknown hr rfl
  · simp at he

theorem assignResult_noUnk {d : Atom} {src : Ty} {l : Lit} : Atom.unknown ∉ assignResult d src l.ty := by
  unfold assignResult
  have hlit : Atom.unknown ∉ [l.ty] := by cases l <;> simp [Lit.ty]
  split
  · rename_i r hsp
    exact narrowDown_lit_noUnk (assignSpecial_some hsp).2
  · split
    · simpa using hlit
    · cases hn : narrowDown src l.ty with
      | none => simpa using hlit
      | some n => simpa using narrowDown_lit_noUnk hn

/-! ### no `unknown` through unions -/

theorem unionAtom_noUnk {l r : Atom} (hl : l ≠ .unknown) (hr : r ≠ .unknown) : Atom.unknown ∉ unionAtom l r := by
  have hfa : Atom.unknown ∉ fromAtoms [l, r] := by
    intro hm
    rcases mem_fromAtoms_sub hm with hm | hm
    · simp only [List.mem_cons, List.not_mem_nil, or_false] at hm
      rcases hm with hm | hm
      · exact hl hm.symm
      · exact hr hm.symm
    · simp at hm
  unfold unionAtom
  repeat' split
  all_goals first
    | exact hfa
    | (simp only [List.mem_cons, List.not_mem_nil, or_false]; intro he; first | exact hl he.symm | exact hr he.symm | simp at he)

theorem unionTy_noUnk {s t : Ty} (hs : Atom.unknown ∉ s) (ht : Atom.unknown ∉ t) : Atom.unknown ∉ unionTy s t := by
  unfold unionTy
  split
  · apply unionAtom_noUnk
    · intro he; subst he; simp at hs
    · intro he; subst he; simp at ht
  · split
    · exact hs
    · split
      · exact hs
      · intro hm
        have := mem_mkUnion.mp hm
        simp only [List.mem_append, List.mem_cons, List.not_mem_nil, or_false] at this
        rcases this with h | h
        · exact hs h
        · subst h; simp at ht
  · split
    · exact ht
    · split
      · exact ht
      · intro hm
        have := mem_mkUnion.mp hm
        simp only [List.mem_append, List.mem_cons, List.not_mem_nil, or_false] at this
        rcases this with h | h
        · exact ht h
        · subst h; simp at hs
  · split
    · exact hs
    · intro hm
      rcases mem_fromVec_sub hm with ⟨u, hu, hmu⟩ | h
      · simp only [List.mem_cons, List.not_mem_nil, or_false] at hu
        rcases hu with rfl | rfl
        · exact hs hmu
        · exact ht hmu
      · simp at h

/-! ### assignment from a variable -/

theorem exact_atom_lit {a : Atom} {v : Val} (h : a.isExact = true) (hv : a.has v = true) :
    ∃ l : Lit, l.ty = a ∧ l.val = v := by
  cases a <;> cases v <;> simp_all [Atom.isExact, Atom.has]
  · exact ⟨.nil, rfl, rfl⟩
  · rename_i b b'; exact ⟨.bool b', by simp [Lit.ty, hv], rfl⟩
  · rename_i n m; exact ⟨.int m, by simp [Lit.ty, hv], rfl⟩
  · rename_i n m; exact ⟨.flt m, by simp [Lit.ty, hv], rfl⟩
  · rename_i n m; exact ⟨.str m, by simp [Lit.ty, hv], rfl⟩

theorem narrowDown_has_of_preserved {src : Ty} {e : Atom} {n : Ty} {v : Val}
    (he : e.isExact = true ∨ ∃ i, e = .tblC i) (hv : e.has v = true) (h : narrowDown src e = some n) :
    n.has v = true := by
  rcases he with he | ⟨i, rfl⟩
  · obtain ⟨l, rfl, rfl⟩ := exact_atom_lit he hv
    exact narrowDown_lit_has h
  · obtain ⟨a, b, _, hr, hb⟩ := narrowDown_witness h
    cases v <;> simp [Atom.has] at hv
    exact Ty.has_of_mem hb (ndAtom_tbl_has hr)

theorem foldl_unionTy_has {l : List Ty} {v : Val} :
    ∀ {acc : Ty}, (acc.has v = true ∨ ∃ p ∈ l, p.has v = true) → (l.foldl unionTy acc).has v = true := by
  induction l with
  | nil => intro acc h; rcases h with h | ⟨p, hp, _⟩; exact h; simp at hp
  | cons q rest ih =>
    intro acc h
    simp only [List.foldl_cons]
    apply ih
    rcases h with h | ⟨p, hp, hv⟩
    · exact .inl (unionTy_has (.inl h))
    · simp only [List.mem_cons] at hp
      rcases hp with rfl | hp
      · exact .inl (unionTy_has (.inr hv))
      · exact .inr ⟨p, hp, hv⟩

theorem unionAll_has {parts : List Ty} {v : Val} (h : ∃ p ∈ parts, p.has v = true) :
    (unionAll parts).has v = true := by
  obtain ⟨p, hp, hv⟩ := h
  have hne : isNever p = false := by
    cases hn : isNever p
    · rfl
    · have : p = [.never] := by simpa [isNever] using hn
      rw [this] at hv
      simp [has_single, never_has] at hv
  have hp' : p ∈ parts.filter (fun t => !isNever t) := by
    simp only [List.mem_filter, hp, hne, Bool.not_false, and_self]
  unfold unionAll
  simp only []
  split
  · rename_i he
    have : parts.filter (fun t => !isNever t) = [] := by simpa using he
    rw [this] at hp'; simp at hp'
  · split
    · exact has_fromVec hp' hv
    · exact foldl_unionTy_has (.inr ⟨p, hp', hv⟩)

theorem preserves_cases {t : Ty} (h : preserves t = true) :
    (∃ i, t = [.tblC i]) ∨ ∀ a ∈ t, a.isExact = true := by
  simp only [preserves, Bool.or_eq_true, List.all_eq_true] at h
  rcases h with h | h
  · left
    split at h
    · rename_i i; exact ⟨i, rfl⟩
    · cases h
  · exact .inr h

/-- the result of `x = y` contains every value the type of `y` contains, whatever the antecedent type of `x` -/
theorem assignResultTy_sound {d : Atom} {src t : Ty} {v : Val} (hv : t.has v = true) :
    (assignResultTy d src t).has v = true := by
  have hnu : isUnknown t = false := by
    cases hu : isUnknown t
    · rfl
    · have : t = [.unknown] := by simpa [isUnknown] using hu
      rw [this] at hv
      simp [has_single, unknown_has] at hv
  match t, hv, hnu with
  | [], hv, _ => simp [Ty.has] at hv
  | [e], hv, hnu =>
    have hve : e.has v = true := by simpa [has_single] using hv
    simp only [assignResultTy, hnu, Bool.false_eq_true, ↓reduceIte]
    cases hsp : assignSpecial d src e with
    | some r =>
      simp only []
      obtain ⟨⟨i, hi⟩, hn⟩ := assignSpecial_some hsp
      subst hi
      exact narrowDown_has_of_preserved (.inr ⟨i, rfl⟩) hve hn
    | none =>
      simp only []
      split
      · rename_i hpres
        split
        · exact hv
        · cases hn : narrowDown src e with
          | none => simpa using hv
          | some n =>
            simp only [Option.getD_some]
            refine narrowDown_has_of_preserved ?_ hve hn
            rcases preserves_cases hpres with ⟨i, hi⟩ | hall
            · right; exact ⟨i, by simpa using hi⟩
            · left; exact hall e (by simp)
      · exact hv
  | e1 :: e2 :: rest, hv, hnu =>
    simp only [assignResultTy, hnu, Bool.false_eq_true, ↓reduceIte]
    split
    · rename_i hpres
      split
      · exact hv
      · simp only [Option.getD_some]
        obtain ⟨e0, he0, hv0⟩ := Ty.has_iff.mp hv
        have hex : e0.isExact = true := by
          rcases preserves_cases hpres with ⟨i, hi⟩ | hall
          · simp at hi
          · exact hall e0 he0
        apply unionAll_has
        refine ⟨(narrowDown src e0).getD [e0], List.mem_map.mpr ⟨e0, he0, rfl⟩, ?_⟩
        cases hn : narrowDown src e0 with
        | none => simpa [has_single] using hv0
        | some n =>
          simp only [Option.getD_some]
          exact narrowDown_has_of_preserved (.inl hex) hv0 hn
    · exact hv

end Flow
