import EmmyVerif.Lemmas.Order
/-! Correctness of the `bestOrder` model (Kahn's algorithm as written in
`FileDependencyRelation::get_best_analysis_order`): the in-degree counters always equal the number of
in-list dependencies not yet emitted; the result is a permutation of the input; every file emitted by the
queue phase comes after all its in-list dependencies. -/
namespace Order
open PermLemmas PermModel

/-! ### association-list counters -/

theorem getDeg_map_fst (deg : Deg) (g : Nat × Nat → Nat × Nat) (hg : ∀ p, (g p).1 = p.1) (x : Nat) :
    getDeg (deg.map g) x = match deg.find? (fun p => p.1 == x) with
      | some p => (g p).2
      | none => 0 := by
  unfold getDeg
  rw [List.find?_map]
  have : ((fun p : Nat × Nat => p.1 == x) ∘ g) = (fun p => p.1 == x) := by
    funext p; simp [Function.comp, hg p]
  rw [this]
  cases deg.find? (fun p => p.1 == x) <;> rfl

/-- the counter table determined by the emitted prefix: for every listed file, the number of its in-list
dependencies that have not been emitted yet -/
def cnt (ids : List Nat) (deps : Deps) (res : List Nat) (v : Nat) : Nat :=
  ((depsOf deps v).filter (fun d => ids.contains d && !res.contains d)).length

def degOf (ids : List Nat) (deps : Deps) (res : List Nat) : Deg := ids.map (fun v => (v, cnt ids deps res v))

theorem find_degOf (ids : List Nat) (f : Nat → Nat) (x : Nat) (hx : x ∈ ids) :
    (ids.map (fun v => (v, f v))).find? (fun p => p.1 == x) = some (x, f x) := by
  induction ids with
  | nil => simp at hx
  | cons a rest ih =>
    simp only [List.map_cons, List.find?_cons]
    by_cases h : a = x
    · subst h; simp
    · have : (a == x) = false := by simp [h]
      simp only [this]
      rcases List.mem_cons.mp hx with h1 | h1
      · exact absurd h1.symm h
      · exact ih h1

theorem find_degOf_none (ids : List Nat) (f : Nat → Nat) (x : Nat) (hx : x ∉ ids) :
    (ids.map (fun v => (v, f v))).find? (fun p => p.1 == x) = none := by
  rw [List.find?_eq_none]
  intro p hp
  obtain ⟨v, hv, rfl⟩ := List.mem_map.mp hp
  simp only [beq_iff_eq]
  intro h; subst h; exact hx hv

theorem getDeg_degOf (ids : List Nat) (deps : Deps) (res : List Nat) (x : Nat) (hx : x ∈ ids) :
    getDeg (degOf ids deps res) x = cnt ids deps res x := by
  unfold getDeg degOf
  rw [find_degOf ids _ x hx]

/-! ### the relax loop -/

def relaxStep (st : Deg × List Nat) (w : Nat) : Deg × List Nat :=
  let d' := decr st.1 w
  (d', if getDeg d' w = 0 then st.2 ++ [w] else st.2)

theorem relax_eq (deg : Deg) (nbrs : List Nat) : relax deg nbrs = nbrs.foldl relaxStep (deg, []) := rfl

/-- counters as a function of the key: decrementing the keys in `nbrs` (each once) -/
def decAll (f : Nat → Nat) (nbrs : List Nat) : Nat → Nat := fun v => if nbrs.contains v then f v - 1 else f v

theorem relax_go (ids : List Nat) : ∀ (nbrs : List Nat) (f : Nat → Nat) (acc : List Nat),
    nbrs.Nodup → (∀ w ∈ nbrs, w ∈ ids) →
    nbrs.foldl relaxStep (ids.map (fun v => (v, f v)), acc) =
      (ids.map (fun v => (v, decAll f nbrs v)), acc ++ nbrs.filter (fun w => f w - 1 = 0)) := by
  intro nbrs
  induction nbrs with
  | nil =>
    intro f acc _ _
    simp [decAll]
  | cons w rest ih =>
    intro f acc hn hsub
    have hn' := List.nodup_cons.mp hn
    have hw : w ∈ ids := hsub w List.mem_cons_self
    simp only [List.foldl_cons]
    -- one step
    have hdecr : decr (ids.map (fun v => (v, f v))) w = ids.map (fun v => (v, decAll f [w] v)) := by
      unfold decr decAll
      rw [List.map_map]
      apply List.map_congr_left
      intro v _
      by_cases h : v = w
      · subst h; simp
      · simp [h]
    have hget : getDeg (ids.map (fun v => (v, decAll f [w] v))) w = f w - 1 := by
      unfold getDeg
      rw [find_degOf ids _ w hw]
      simp [decAll]
    have hstep : relaxStep (ids.map (fun v => (v, f v)), acc) w =
        (ids.map (fun v => (v, decAll f [w] v)), if f w - 1 = 0 then acc ++ [w] else acc) := by
      unfold relaxStep
      simp only [hdecr, hget]
    rw [hstep, ih (decAll f [w]) _ hn'.2 (fun x hx => hsub x (List.mem_cons_of_mem _ hx))]
    congr 1
    · apply List.map_congr_left
      intro v _
      unfold decAll
      by_cases h1 : v = w
      · subst h1
        have hnr : ¬ v ∈ rest := hn'.1
        simp [hnr]
      · simp [h1]
    · have hrest : rest.filter (fun x => decAll f [w] x - 1 = 0) = rest.filter (fun x => f x - 1 = 0) := by
        apply List.filter_congr
        intro x hx
        have : x ≠ w := fun h => hn'.1 (h ▸ hx)
        simp [decAll, this]
      rw [hrest, List.filter_cons]
      by_cases h0 : f w - 1 = 0
      · simp [h0]
      · simp [h0]

/-! ### one emission updates the counters exactly -/

theorem cnt_emit (ids : List Nat) (deps : Deps) (res : List Nat) (v x : Nat)
    (hdn : ∀ y, (depsOf deps y).Nodup) (hv : v ∈ ids) (hvr : v ∉ res) :
    cnt ids deps (res ++ [v]) x = if (depsOf deps x).contains v then cnt ids deps res x - 1 else cnt ids deps res x := by
  unfold cnt
  generalize hl : depsOf deps x = l
  have hnd : l.Nodup := hl ▸ hdn x
  clear hl
  induction l with
  | nil => simp
  | cons d rest ih =>
    have hn := List.nodup_cons.mp hnd
    have ih' := ih hn.2
    by_cases hdv : d = v
    · subst hdv
      have hnot : rest.contains d = false := by simpa using hn.1
      have hrest : rest.filter (fun e => ids.contains e && !(res ++ [d]).contains e) =
          rest.filter (fun e => ids.contains e && !res.contains e) := by
        apply List.filter_congr
        intro e he
        have : e ≠ d := fun h => hn.1 (h ▸ he)
        simp [this]
      have hin : ids.contains d = true := by simpa using hv
      have hout : res.contains d = false := by simpa using hvr
      simp only [List.filter_cons, hrest, hin, hout, List.contains_cons, beq_self_eq_true, Bool.true_or, if_true]
      simp
    · have hc : (d :: rest).contains v = rest.contains v := by
        simp only [List.contains_cons]
        have : (v == d) = false := by simp; exact fun h => hdv h.symm
        simp [this]
      have hd : (res ++ [v]).contains d = res.contains d := by
        simp [hdv]
      rw [hc]
      simp only [List.filter_cons, hd]
      by_cases hk : (ids.contains d && !res.contains d) = true
      · simp only [hk, if_true, List.length_cons, ih']
        split
        · rename_i hcv
          -- v ∈ rest, v ∈ ids, v ∉ res: the filtered rest is non-empty
          have hvrest : v ∈ rest := by simpa using hcv
          have hpos : 0 < (rest.filter (fun e => ids.contains e && !res.contains e)).length := by
            apply List.length_pos_of_mem (a := v)
            simp [List.mem_filter, hvrest, hv, hvr]
          omega
        · rfl
      · have hk' : (ids.contains d && !res.contains d) = false := by
          cases h : (ids.contains d && !res.contains d)
          · rfl
          · exact absurd h hk
        simp only [hk', Bool.false_eq_true, if_false, ih']

/-! ### the relax loop computes the counters of the extended prefix -/

theorem mem_dependents (ids : List Nat) (deps : Deps) (v w : Nat) :
    w ∈ dependents ids deps v ↔ w ∈ ids ∧ (depsOf deps w).contains v = true := by
  unfold dependents; simp [List.mem_filter]

theorem relax_degOf (ids : List Nat) (deps : Deps) (res : List Nat) (v : Nat)
    (hnd : ids.Nodup) (hdn : ∀ y, (depsOf deps y).Nodup) (hv : v ∈ ids) (hvr : v ∉ res) :
    relax (degOf ids deps res) (dependents ids deps v) =
      (degOf ids deps (res ++ [v]),
       (dependents ids deps v).filter (fun w => cnt ids deps (res ++ [v]) w = 0)) := by
  rw [relax_eq]
  unfold degOf
  rw [relax_go ids (dependents ids deps v) (cnt ids deps res) []
      (by unfold dependents; exact hnd.sublist List.filter_sublist)
      (fun w hw => ((mem_dependents ids deps v w).mp hw).1)]
  congr 1
  · apply List.map_congr_left
    intro x hx
    rw [cnt_emit ids deps res v x hdn hv hvr]
    unfold decAll
    have : (dependents ids deps v).contains x = (depsOf deps x).contains v := by
      cases h : (depsOf deps x).contains v
      · have : ¬ x ∈ dependents ids deps v := by
          rw [mem_dependents]
          intro hh
          rw [h] at hh
          exact absurd hh.2 (by simp)
        simpa using this
      · have : x ∈ dependents ids deps v := by rw [mem_dependents]; exact ⟨hx, h⟩
        simpa using this
    rw [this]
  · simp only [List.nil_append]
    apply List.filter_congr
    intro w hw
    have hw' := (mem_dependents ids deps v w).mp hw
    rw [cnt_emit ids deps res v w hdn hv hvr, hw'.2]
    simp

/-! ### the invariant of the queue loop -/

/-- every element of the list comes after all its in-list dependencies -/
def Topo (ids : List Nat) (deps : Deps) (res : List Nat) : Prop :=
  ∀ pre v post, res = pre ++ v :: post → ∀ d ∈ depsOf deps v, d ∈ ids → d ∈ pre

theorem topo_nil (ids : List Nat) (deps : Deps) : Topo ids deps [] := by
  intro pre v post h; cases pre <;> simp at h

theorem topo_snoc (ids : List Nat) (deps : Deps) (res : List Nat) (v : Nat)
    (h : Topo ids deps res) (hv : ∀ d ∈ depsOf deps v, d ∈ ids → d ∈ res) : Topo ids deps (res ++ [v]) := by
  intro pre x post heq d hd hdi
  rcases List.eq_nil_or_concat post with hp | ⟨L, b, hp⟩
  · subst hp
    have := List.append_inj' heq (by simp)
    obtain ⟨h1, h2⟩ := this
    simp only [List.cons.injEq, and_true] at h2
    subst h1; subst h2
    exact hv d hd hdi
  · subst hp
    have heq' : res ++ [v] = (pre ++ x :: L) ++ [b] := by simpa [List.append_assoc] using heq
    have := List.append_inj' heq' (by simp)
    exact h pre x L this.1 d hd hdi

theorem cnt_zero_iff (ids : List Nat) (deps : Deps) (res : List Nat) (v : Nat) :
    cnt ids deps res v = 0 ↔ ∀ d ∈ depsOf deps v, d ∈ ids → d ∈ res := by
  unfold cnt
  rw [List.length_eq_zero_iff, List.filter_eq_nil_iff]
  constructor
  · intro h d hd hdi
    have := h d hd
    simp only [Bool.and_eq_true, Bool.not_eq_true', not_and] at this
    have h2 := this (by simpa using hdi)
    simpa using h2
  · intro h d hd
    simp only [Bool.and_eq_true, Bool.not_eq_true', not_and]
    intro hdi
    have := h d hd (by simpa using hdi)
    simpa using this

structure Inv (ids : List Nat) (deps : Deps) (res queue : List Nat) : Prop where
  nd : (res ++ queue).Nodup
  sub : ∀ x ∈ res ++ queue, x ∈ ids
  zero : ∀ x ∈ ids, (x ∈ res ++ queue ↔ cnt ids deps res x = 0)
  topo : Topo ids deps res

theorem cnt_emit_le (ids : List Nat) (deps : Deps) (res : List Nat) (v x : Nat)
    (hdn : ∀ y, (depsOf deps y).Nodup) (hv : v ∈ ids) (hvr : v ∉ res) :
    cnt ids deps (res ++ [v]) x ≤ cnt ids deps res x := by
  rw [cnt_emit ids deps res v x hdn hv hvr]; split <;> omega

/-- one iteration of the queue loop preserves the invariant -/
theorem inv_step (ids metas : List Nat) (deps : Deps) (res q : List Nat) (v : Nat)
    (hnd : ids.Nodup) (hdn : ∀ y, (depsOf deps y).Nodup) (h : Inv ids deps res (v :: q)) :
    Inv ids deps (res ++ [v])
      (q ++ isort (tieLe metas) ((dependents ids deps v).filter (fun w => cnt ids deps (res ++ [v]) w = 0))) := by
  have hv : v ∈ ids := h.sub v (by simp)
  have hvr : v ∉ res := by
    have := h.nd
    rw [List.nodup_append] at this
    intro hx
    exact this.2.2 v hx v (by simp) rfl
  have hmem_nz : ∀ w, w ∈ isort (tieLe metas) ((dependents ids deps v).filter (fun w => cnt ids deps (res ++ [v]) w = 0)) ↔
      (w ∈ ids ∧ (depsOf deps w).contains v = true ∧ cnt ids deps (res ++ [v]) w = 0) := by
    intro w
    rw [mem_isort, List.mem_filter, mem_dependents]
    simp [and_assoc]
  -- a dependent of v has a positive counter before the emission, so it is neither emitted nor queued
  have hfresh : ∀ w, w ∈ ids → (depsOf deps w).contains v = true → w ∉ res ++ v :: q := by
    intro w hw hc hin
    have h0 := (h.zero w hw).mp hin
    rw [cnt_zero_iff] at h0
    exact hvr (h0 v (by simpa using hc) hv)
  refine ⟨?_, ?_, ?_, ?_⟩
  · -- Nodup
    have hperm : (res ++ [v] ++ (q ++ isort (tieLe metas) ((dependents ids deps v).filter (fun w => cnt ids deps (res ++ [v]) w = 0)))).Perm
        ((res ++ v :: q) ++ isort (tieLe metas) ((dependents ids deps v).filter (fun w => cnt ids deps (res ++ [v]) w = 0))) := by
      simp [List.append_assoc]
    rw [hperm.nodup_iff, List.nodup_append]
    refine ⟨h.nd, ?_, ?_⟩
    · exact (List.Perm.nodup_iff (isort_perm _ _)).mpr
        ((hnd.sublist List.filter_sublist).sublist List.filter_sublist)
    · intro a ha b hb hab
      subst hab
      have hb' := (hmem_nz a).mp hb
      exact hfresh a hb'.1 hb'.2.1 ha
  · intro x hx
    rcases List.mem_append.mp hx with h1 | h1
    · rcases List.mem_append.mp h1 with h2 | h2
      · exact h.sub x (by simp [h2])
      · simp only [List.mem_singleton] at h2; subst h2; exact hv
    · rcases List.mem_append.mp h1 with h2 | h2
      · exact h.sub x (by simp [h2])
      · exact ((hmem_nz x).mp h2).1
  · intro x hx
    constructor
    · intro hin
      rcases List.mem_append.mp hin with h1 | h1
      · have : x ∈ res ++ v :: q := by
          rcases List.mem_append.mp h1 with h2 | h2
          · simp [h2]
          · simp only [List.mem_singleton] at h2; simp [h2]
        have h0 := (h.zero x hx).mp this
        have := cnt_emit_le ids deps res v x hdn hv hvr
        omega
      · rcases List.mem_append.mp h1 with h2 | h2
        · have h0 := (h.zero x hx).mp (by simp [h2])
          have := cnt_emit_le ids deps res v x hdn hv hvr
          omega
        · exact ((hmem_nz x).mp h2).2.2
    · intro h0
      by_cases hc : (depsOf deps x).contains v = true
      · exact List.mem_append.mpr (Or.inr (List.mem_append.mpr (Or.inr ((hmem_nz x).mpr ⟨hx, hc, h0⟩))))
      · have hc' : (depsOf deps x).contains v = false := by
          cases hh : (depsOf deps x).contains v
          · rfl
          · exact absurd hh hc
        rw [cnt_emit ids deps res v x hdn hv hvr, hc'] at h0
        have := (h.zero x hx).mpr (by simpa using h0)
        rcases List.mem_append.mp this with h2 | h2
        · simp [h2]
        · rcases List.mem_cons.mp h2 with h3 | h3
          · simp [h3]
          · simp [h3]
  · apply topo_snoc ids deps res v h.topo
    have h0 := (h.zero v hv).mp (by simp)
    exact (cnt_zero_iff ids deps res v).mp h0

/-- the queue loop ends with an empty queue, a counter table that matches the emitted list, and the invariant -/
theorem kahn_inv (ids metas : List Nat) (deps : Deps) (hnd : ids.Nodup) (hdn : ∀ y, (depsOf deps y).Nodup) :
    ∀ (fuel : Nat) (queue res : List Nat), Inv ids deps res queue → ids.length ≤ res.length + fuel →
      (kahn ids metas deps fuel queue (degOf ids deps res) res).2 =
          degOf ids deps (kahn ids metas deps fuel queue (degOf ids deps res) res).1 ∧
      Inv ids deps (kahn ids metas deps fuel queue (degOf ids deps res) res).1 [] := by
  intro fuel
  induction fuel with
  | zero =>
    intro queue res h hf
    have hlen : (res ++ queue).length ≤ ids.length := h.nd.length_le_of_subset (fun x hx => h.sub x hx)
    have hq : queue = [] := by
      have : queue.length = 0 := by simp only [List.length_append] at hlen; omega
      exact List.length_eq_zero_iff.mp this
    subst hq
    simp only [kahn]
    exact ⟨trivial, h⟩
  | succ fuel ih =>
    intro queue res h hf
    cases queue with
    | nil => simp only [kahn]; exact ⟨trivial, h⟩
    | cons v q =>
      have hv : v ∈ ids := h.sub v (by simp)
      have hvr : v ∉ res := by
        have := h.nd
        rw [List.nodup_append] at this
        intro hx
        exact this.2.2 v hx v (by simp) rfl
      simp only [kahn, relax_degOf ids deps res v hnd hdn hv hvr]
      exact ih _ _ (inv_step ids metas deps res q v hnd hdn h) (by simp only [List.length_append, List.length_singleton]; omega)

/-! ### the whole function -/

theorem indeg0_eq_cnt (ids : List Nat) (deps : Deps) (v : Nat) : indeg0 ids deps v = cnt ids deps [] v := by
  unfold indeg0 cnt
  congr 1
  apply List.filter_congr
  intro d _
  simp

/-- the emitted prefix of the queue phase -/
def kahnPhase (ids metas : List Nat) (deps : Deps) : List Nat :=
  (kahn ids metas deps ids.length
    (isort (tieLe metas) (ids.filter (fun v => indeg0 ids deps v == 0)))
    (ids.map (fun v => (v, indeg0 ids deps v))) []).1

theorem init_inv (ids metas : List Nat) (deps : Deps) (hnd : ids.Nodup) :
    Inv ids deps [] (isort (tieLe metas) (ids.filter (fun v => indeg0 ids deps v == 0))) := by
  refine ⟨?_, ?_, ?_, topo_nil ids deps⟩
  · simp only [List.nil_append]
    exact (List.Perm.nodup_iff (isort_perm _ _)).mpr (hnd.sublist List.filter_sublist)
  · intro x hx
    simp only [List.nil_append, mem_isort, List.mem_filter] at hx
    exact hx.1
  · intro x hx
    simp only [List.nil_append, mem_isort, List.mem_filter, indeg0_eq_cnt, beq_iff_eq]
    exact ⟨fun h => h.2, fun h => ⟨hx, h⟩⟩

theorem deg0_eq (ids : List Nat) (deps : Deps) :
    ids.map (fun v => (v, indeg0 ids deps v)) = degOf ids deps [] := by
  unfold degOf
  apply List.map_congr_left
  intro v _
  rw [indeg0_eq_cnt]

/-- specification of the queue phase: counters match, nothing twice, only listed files, a file is emitted
iff all its in-list dependencies are, and everything emitted comes after its in-list dependencies -/
theorem kahnPhase_spec (ids metas : List Nat) (deps : Deps) (hnd : ids.Nodup) (hdn : ∀ y, (depsOf deps y).Nodup) :
    (kahn ids metas deps ids.length
      (isort (tieLe metas) (ids.filter (fun v => indeg0 ids deps v == 0)))
      (ids.map (fun v => (v, indeg0 ids deps v))) []).2 = degOf ids deps (kahnPhase ids metas deps) ∧
    Inv ids deps (kahnPhase ids metas deps) [] := by
  unfold kahnPhase
  rw [deg0_eq]
  exact kahn_inv ids metas deps hnd hdn ids.length _ [] (init_inv ids metas deps hnd) (by simp)

/-- the files left over after the queue phase (the cycle tail) -/
def tailOf (ids : List Nat) (deps : Deps) (R : List Nat) : List Nat :=
  ids.filter (fun v => decide (0 < cnt ids deps R v))

theorem bestOrder_eq (ids metas : List Nat) (deps : Deps) (hnd : ids.Nodup) (hdn : ∀ y, (depsOf deps y).Nodup)
    (h2 : ¬ ids.length < 2) :
    bestOrder ids metas deps =
      if (kahnPhase ids metas deps).length < ids.length
      then kahnPhase ids metas deps ++ tailOf ids deps (kahnPhase ids metas deps)
      else kahnPhase ids metas deps := by
  have hs := kahnPhase_spec ids metas deps hnd hdn
  unfold bestOrder
  simp only [h2, if_false]
  have hR : (kahn ids metas deps ids.length
      (isort (tieLe metas) (ids.filter (fun v => indeg0 ids deps v == 0)))
      (ids.map (fun v => (v, indeg0 ids deps v))) []) =
      (kahnPhase ids metas deps, degOf ids deps (kahnPhase ids metas deps)) := by
    apply Prod.ext
    · rfl
    · exact hs.1
  rw [hR]
  simp only
  split
  · congr 1
    unfold tailOf
    apply List.filter_congr
    intro v hv
    rw [getDeg_degOf ids deps _ v hv]
  · rfl

/-- **The result is a permutation of the input**: no file is lost or analysed twice. -/
theorem bestOrder_perm (ids metas : List Nat) (deps : Deps) (hnd : ids.Nodup) (hdn : ∀ y, (depsOf deps y).Nodup) :
    (bestOrder ids metas deps).Perm ids := by
  by_cases h2 : ids.length < 2
  · unfold bestOrder; simp [h2]
  · rw [bestOrder_eq ids metas deps hnd hdn h2]
    have hs := (kahnPhase_spec ids metas deps hnd hdn).2
    generalize kahnPhase ids metas deps = R at hs ⊢
    have hRnd : R.Nodup := by simpa using hs.nd
    have hRsub : ∀ x ∈ R, x ∈ ids := fun x hx => hs.sub x (by simp [hx])
    have hz : ∀ x ∈ ids, (x ∈ R ↔ cnt ids deps R x = 0) := fun x hx => by simpa using hs.zero x hx
    split
    · -- R ++ tail
      rw [List.perm_ext_iff_of_nodup _ hnd]
      · intro x
        simp only [List.mem_append, tailOf, List.mem_filter, decide_eq_true_eq]
        constructor
        · rintro (h | h)
          · exact hRsub x h
          · exact h.1
        · intro hx
          by_cases hc : cnt ids deps R x = 0
          · exact Or.inl ((hz x hx).mpr hc)
          · exact Or.inr ⟨hx, by omega⟩
      · rw [List.nodup_append]
        refine ⟨hRnd, hnd.sublist List.filter_sublist, ?_⟩
        intro a ha b hb hab
        subst hab
        simp only [tailOf, List.mem_filter, decide_eq_true_eq] at hb
        have := (hz a hb.1).mp ha
        omega
    · rename_i hlen
      rw [List.perm_ext_iff_of_nodup hRnd hnd]
      intro x
      constructor
      · exact hRsub x
      · intro hx
        apply Classical.byContradiction
        intro hnx
        have hnd' : (x :: R).Nodup := List.nodup_cons.mpr ⟨hnx, hRnd⟩
        have := hnd'.length_le_of_subset (l₂ := ids) (by
          intro y hy
          rcases List.mem_cons.mp hy with rfl | hy
          · exact hx
          · exact hRsub y hy)
        simp only [List.length_cons] at this
        omega

/-- **Topological on the queue phase; the tail is exactly the blocked files.** For a list of at least two
files the result is `R ++ tail` where every file of `R` comes after all its in-list dependencies, and a
file is in `tail` iff one of its in-list dependencies was never emitted (it lies on or behind a cycle). -/
theorem bestOrder_topological (ids metas : List Nat) (deps : Deps) (hnd : ids.Nodup)
    (hdn : ∀ y, (depsOf deps y).Nodup) (h2 : ¬ ids.length < 2) :
    ∃ R tail, bestOrder ids metas deps = R ++ tail ∧ Topo ids deps R ∧
      (∀ x, x ∈ tail ↔ (x ∈ ids ∧ ∃ d ∈ depsOf deps x, d ∈ ids ∧ d ∉ R)) := by
  have hs := (kahnPhase_spec ids metas deps hnd hdn).2
  have hperm := bestOrder_perm ids metas deps hnd hdn
  rw [bestOrder_eq ids metas deps hnd hdn h2] at hperm ⊢
  generalize kahnPhase ids metas deps = R at hs hperm ⊢
  have hz : ∀ x ∈ ids, (x ∈ R ↔ cnt ids deps R x = 0) := fun x hx => by simpa using hs.zero x hx
  have hRsub : ∀ x ∈ R, x ∈ ids := fun x hx => hs.sub x (by simp [hx])
  have htail : ∀ x, x ∈ tailOf ids deps R ↔ (x ∈ ids ∧ ∃ d ∈ depsOf deps x, d ∈ ids ∧ d ∉ R) := by
    intro x
    simp only [tailOf, List.mem_filter, decide_eq_true_eq]
    constructor
    · rintro ⟨hx, hc⟩
      refine ⟨hx, ?_⟩
      apply Classical.byContradiction
      intro hne
      have : cnt ids deps R x = 0 := (cnt_zero_iff ids deps R x).mpr (by
        intro d hd hdi
        apply Classical.byContradiction
        intro hdr
        exact hne ⟨d, hd, hdi, hdr⟩)
      omega
    · rintro ⟨hx, d, hd, hdi, hdr⟩
      refine ⟨hx, ?_⟩
      have : cnt ids deps R x ≠ 0 := fun h0 => hdr ((cnt_zero_iff ids deps R x).mp h0 d hd hdi)
      omega
  by_cases hl : R.length < ids.length
  · simp only [hl, if_true]
    exact ⟨R, tailOf ids deps R, rfl, hs.topo, htail⟩
  · -- no tail: every listed file was emitted
    simp only [hl, if_false] at hperm ⊢
    refine ⟨R, [], by simp, hs.topo, ?_⟩
    intro x
    simp only [List.not_mem_nil, false_iff]
    rintro ⟨hx, d, hd, hdi, hdr⟩
    exact hdr (hperm.mem_iff.mpr hdi)

end Order
