/-! Call graphs with guarded functions: if calls between unguarded functions strictly decrease a
rank, then a call path (a stack) on which guarded functions occur at most `L` times has at most
`L * (R + 1) + R` frames (`R` = a bound on the ranks). Import-free, generic. -/
namespace CallGraph

def isEdge (edges : List (Nat × Nat)) (u v : Nat) : Bool := edges.contains (u, v)

/-- consecutive frames are caller/callee pairs of the graph -/
def IsPath (edges : List (Nat × Nat)) : List Nat → Prop
  | [] => True
  | [_] => True
  | u :: v :: rest => isEdge edges u v = true ∧ IsPath edges (v :: rest)

def guardedB (guarded : List Nat) (v : Nat) : Bool := guarded.contains v
def rk (rank : List Nat) (v : Nat) : Nat := rank.getD v 0
def countG (guarded : List Nat) (p : List Nat) : Nat := (p.filter (guardedB guarded)).length

/-- the certificate check (evaluated by the kernel on the generated data) -/
def certOk (edges : List (Nat × Nat)) (guarded rank : List Nat) (R : Nat) : Bool :=
  edges.all (fun e => guardedB guarded e.1 || guardedB guarded e.2 || decide (rk rank e.2 < rk rank e.1))
    && rank.all (fun r => decide (r < R)) && decide (0 < R)

theorem rk_lt (rank : List Nat) (R : Nat) (h1 : rank.all (fun r => decide (r < R)) = true) (h2 : 0 < R) (v : Nat) :
    rk rank v < R := by
  unfold rk
  rcases Nat.lt_or_ge v rank.length with hlt | hge
  · have hm : rank[v] ∈ rank := List.getElem_mem hlt
    have := List.all_eq_true.mp h1 _ hm
    simp only [List.getD_eq_getElem?_getD, List.getElem?_eq_getElem hlt, Option.getD_some]
    simpa using this
  · simp [List.getD_eq_getElem?_getD, List.getElem?_eq_none_iff.mpr hge, h2]

/-- head-dependent slack -/
def slack (guarded rank : List Nat) : List Nat → Nat
  | [] => 0
  | x :: _ => if guardedB guarded x then 0 else rk rank x + 1

theorem path_bound_aux (edges : List (Nat × Nat)) (guarded rank : List Nat) (R : Nat)
    (hc : certOk edges guarded rank R = true) (p : List Nat) (hp : IsPath edges p) :
    p.length ≤ countG guarded p * (R + 1) + slack guarded rank p := by
  simp only [certOk, Bool.and_eq_true, decide_eq_true_eq] at hc
  obtain ⟨⟨he, hr⟩, hR⟩ := hc
  induction p with
  | nil => simp [countG, slack]
  | cons x q ih =>
    cases q with
    | nil =>
      by_cases hg : guardedB guarded x = true
      · simp [countG, slack, hg, List.filter_cons]
      · simp [countG, slack, hg, List.filter_cons]
    | cons y q' =>
      obtain ⟨hxy, hq⟩ := hp
      have ih' := ih hq
      have hry := rk_lt rank R hr hR y
      have hedge : guardedB guarded x = true ∨ guardedB guarded y = true ∨ rk rank y < rk rank x := by
        have hm : (x, y) ∈ edges := by
          simpa [isEdge] using hxy
        have := List.all_eq_true.mp he _ hm
        simp only [Bool.or_eq_true, decide_eq_true_eq] at this
        rcases this with (h | h) | h
        · exact Or.inl h
        · exact Or.inr (Or.inl h)
        · exact Or.inr (Or.inr h)
      have hsl : slack guarded rank (y :: q') ≤ R := by
        simp only [slack]; split <;> omega
      by_cases hgx : guardedB guarded x = true
      · -- a guarded frame pays for itself and for the slack of the rest
        have hcnt : countG guarded (x :: y :: q') = countG guarded (y :: q') + 1 := by
          simp [countG, List.filter_cons, hgx]
        rw [hcnt]
        have hs0 : slack guarded rank (x :: y :: q') = 0 := by simp [slack, hgx]
        rw [hs0]
        have : (countG guarded (y :: q') + 1) * (R + 1) = countG guarded (y :: q') * (R + 1) + (R + 1) := by
          rw [Nat.add_mul]; simp
        simp only [List.length_cons] at ih' ⊢
        omega
      · have hcnt : countG guarded (x :: y :: q') = countG guarded (y :: q') := by
          simp [countG, List.filter_cons, hgx]
        rw [hcnt]
        by_cases hgy : guardedB guarded y = true
        · have hs1 : slack guarded rank (x :: y :: q') = rk rank x + 1 := by simp [slack, hgx]
          have hs2 : slack guarded rank (y :: q') = 0 := by simp [slack, hgy]
          rw [hs1]; rw [hs2] at ih'
          simp only [List.length_cons] at ih' ⊢
          omega
        · have hlt : rk rank y < rk rank x := by
            rcases hedge with h | h | h
            · exact absurd h hgx
            · exact absurd h hgy
            · exact h
          have hs1 : slack guarded rank (x :: y :: q') = rk rank x + 1 := by simp [slack, hgx]
          have hs2 : slack guarded rank (y :: q') = rk rank y + 1 := by simp [slack, hgy]
          rw [hs1]; rw [hs2] at ih'
          simp only [List.length_cons] at ih' ⊢
          omega

/-- **stack bound**: at most `L` guarded frames ⇒ at most `L * (R + 1) + R` frames -/
theorem path_bound (edges : List (Nat × Nat)) (guarded rank : List Nat) (R L : Nat)
    (hc : certOk edges guarded rank R = true) (p : List Nat) (hp : IsPath edges p)
    (hL : countG guarded p ≤ L) : p.length ≤ L * (R + 1) + R := by
  have h := path_bound_aux edges guarded rank R hc p hp
  have hs : slack guarded rank p ≤ R := by
    simp only [certOk, Bool.and_eq_true, decide_eq_true_eq] at hc
    cases p with
    | nil => simp [slack]
    | cons x q =>
      have := rk_lt rank R hc.1.2 hc.2 x
      simp only [slack]; split <;> omega
  have : countG guarded p * (R + 1) ≤ L * (R + 1) := Nat.mul_le_mul_right _ hL
  omega

/-- no cycle avoids the guarded functions: a closed path `x … x` of length ≥ 2 contains one -/
theorem cycle_has_guard (edges : List (Nat × Nat)) (guarded rank : List Nat) (R : Nat)
    (hc : certOk edges guarded rank R = true) (p : List Nat) (hp : IsPath edges p)
    (hlen : R + 1 < p.length) : 0 < countG guarded p := by
  have h := path_bound edges guarded rank R 0 hc p hp
  rcases Nat.eq_zero_or_pos (countG guarded p) with h0 | hpos
  · have := h (by omega); omega
  · exact hpos

end CallGraph
