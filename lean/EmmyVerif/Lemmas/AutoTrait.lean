import EmmyVerif.Model.AutoTrait
/-! General lemmas about the auto-trait derivation: the rules are monotone, hence every assignment that is
consistent with the rules lies below every iterate from the top; when the iteration has reached a fixpoint
it is the greatest consistent assignment (= the coinductive derivation rustc performs). -/
namespace AutoTrait

def imp2 (x y : Bool × Bool) : Prop := (x.1 = true → y.1 = true) ∧ (x.2 = true → y.2 = true)

theorem imp2_refl (x : Bool × Bool) : imp2 x x := ⟨id, id⟩

theorem imp2_trans {x y z : Bool × Bool} (h1 : imp2 x y) (h2 : imp2 y z) : imp2 x z :=
  ⟨fun a => h2.1 (h1.1 a), fun a => h2.2 (h1.2 a)⟩

/-- pointwise order (Prop version of `le`) -/
def LE (A B : Assign) : Prop := A.length = B.length ∧ ∀ i, imp2 (A.get i) (B.get i)

theorem LE_trans {A B C : Assign} (h1 : LE A B) (h2 : LE B C) : LE A C :=
  ⟨h1.1.trans h2.1, fun i => imp2_trans (h1.2 i) (h2.2 i)⟩

mutual
theorem evalT_mono {A B : Assign} (h : ∀ i, imp2 (A.get i) (B.get i)) : ∀ t : T, imp2 (evalT A t) (evalT B t)
  | .leaf s y => by simp [evalT, imp2]
  | .param _ => by simp [evalT, imp2]
  | .app n args => by
    have ha := evalTL_mono h args
    have hn := h n
    simp only [evalT, imp2, Bool.and_eq_true] at *
    exact ⟨fun ⟨⟨a, b⟩, c⟩ => ⟨⟨hn.1 a, ha.1 b⟩, ha.2 c⟩, fun ⟨⟨a, b⟩, c⟩ => ⟨⟨hn.2 a, ha.1 b⟩, ha.2 c⟩⟩
  | .both args => by simpa [evalT] using evalTL_mono h args
  | .ref args => by
    have ha := evalTL_mono h args
    simp only [evalT, imp2] at *
    exact ⟨ha.2, ha.2⟩
  | .arc args => by
    have ha := evalTL_mono h args
    simp only [evalT, imp2, Bool.and_eq_true] at *
    exact ⟨fun ⟨a, b⟩ => ⟨ha.1 a, ha.2 b⟩, fun ⟨a, b⟩ => ⟨ha.1 a, ha.2 b⟩⟩
  | .mutex args => by
    have ha := evalTL_mono h args
    simp only [evalT, imp2] at *
    exact ⟨ha.1, ha.1⟩
  | .rwlock args => by
    have ha := evalTL_mono h args
    simp only [evalT, imp2, Bool.and_eq_true] at *
    exact ⟨ha.1, fun ⟨a, b⟩ => ⟨ha.1 a, ha.2 b⟩⟩
  | .cell args => by
    have ha := evalTL_mono h args
    simp only [evalT, imp2] at *
    exact ⟨ha.1, by simp⟩
theorem evalTL_mono {A B : Assign} (h : ∀ i, imp2 (A.get i) (B.get i)) : ∀ ts : TL, imp2 (evalTL A ts) (evalTL B ts)
  | .nil => by simp [evalTL, imp2]
  | .cons t ts => by
    have h1 := evalT_mono h t
    have h2 := evalTL_mono h ts
    simp only [evalTL, imp2, Bool.and_eq_true] at *
    exact ⟨fun ⟨a, b⟩ => ⟨h1.1 a, h2.1 b⟩, fun ⟨a, b⟩ => ⟨h1.2 a, h2.2 b⟩⟩
end

theorem evalFields_mono {A B : Assign} (h : ∀ i, imp2 (A.get i) (B.get i)) :
    ∀ fs : List T, imp2 (evalFields A fs) (evalFields B fs)
  | [] => by simp [evalFields, imp2]
  | t :: ts => by
    have h1 := evalT_mono h t
    have h2 := evalFields_mono h ts
    simp only [evalFields, imp2, Bool.and_eq_true] at *
    exact ⟨fun ⟨a, b⟩ => ⟨h1.1 a, h2.1 b⟩, fun ⟨a, b⟩ => ⟨h1.2 a, h2.2 b⟩⟩

theorem step_get (G : Graph) (A : Assign) (i : Nat) :
    (step G A).get i = match G[i]? with
      | some fs => evalFields A fs
      | none => (false, false) := by
  unfold step Assign.get
  rw [List.getD_eq_getElem?_getD, List.getElem?_map]
  cases G[i]? <;> rfl

theorem top_get (G : Graph) (i : Nat) :
    (top G).get i = match G[i]? with
      | some _ => (true, true)
      | none => (false, false) := by
  unfold top Assign.get
  rw [List.getD_eq_getElem?_getD, List.getElem?_map]
  cases G[i]? <;> rfl

/-- the rules are monotone -/
theorem step_mono (G : Graph) {A B : Assign} (h : LE A B) : LE (step G A) (step G B) := by
  refine ⟨by simp [step], fun i => ?_⟩
  rw [step_get, step_get]
  cases G[i]? with
  | none => exact imp2_refl _
  | some fs => exact evalFields_mono h.2 fs

def Consistent (G : Graph) (A : Assign) : Prop := LE A (step G A)

/-- every consistent assignment is below every iterate from the top -/
theorem consistent_le_iter (G : Graph) (A : Assign) (h : Consistent G A) : ∀ k, LE A (iter G k)
  | 0 => by
    have hl : A.length = G.length := by have := h.1; simpa [step] using this
    refine ⟨by simp [iter, top, hl], fun i => ?_⟩
    rw [iter, top_get]
    have hi := h.2 i
    rw [step_get] at hi
    cases hg : G[i]? with
    | none => rw [hg] at hi; exact hi
    | some fs => exact ⟨fun _ => rfl, fun _ => rfl⟩
  | k + 1 => LE_trans h (step_mono G (consistent_le_iter G A h k))

/-- if the iteration has reached a fixpoint, the solution is consistent and is the greatest consistent
assignment: a type is `Send`/`Sync` in the solution iff some consistent assignment says so -/
theorem iter_greatest (G : Graph) (k : Nat) (hfix : step G (iter G k) = iter G k) :
    Consistent G (iter G k) ∧ ∀ A, Consistent G A → LE A (iter G k) := by
  refine ⟨?_, fun A h => consistent_le_iter G A h _⟩
  unfold Consistent
  rw [hfix]
  exact ⟨rfl, fun i => imp2_refl _⟩

theorem solve_greatest (G : Graph) (hfix : step G (solve G) = solve G) :
    Consistent G (solve G) ∧ ∀ A, Consistent G A → LE A (solve G) :=
  iter_greatest G _ hfix

end AutoTrait
