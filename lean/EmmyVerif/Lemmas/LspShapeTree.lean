import EmmyVerif.Model.LspShapeTree
/-! Lemmas for `RangeTree`: ancestors contain their descendants; hulls; `lineOf` is monotone. -/
namespace LspShape

theorem wellNestedFrom_get (t : RangeTree) (k : Nat) (l : List Node) (h : wellNestedFrom t k l = true)
    (i : Nat) (n : Node) (hi : l[i]? = some n) : nodeOK t (k + i) n = true := by
  induction l generalizing k i with
  | nil => simp at hi
  | cons x rest ih =>
    simp only [wellNestedFrom, Bool.and_eq_true] at h
    cases i with
    | zero => simp at hi; subst hi; simpa using h.1
    | succ j =>
      have := ih (k + 1) h.2 j (by simpa using hi)
      have e : k + 1 + j = k + (j + 1) := by omega
      rw [e] at this; exact this

theorem wellNested_get (t : RangeTree) (h : wellNested t = true) (i : Nat) (n : Node)
    (hi : t[i]? = some n) : nodeOK t i n = true := by
  have := wellNestedFrom_get t 0 t h i n hi
  simpa using this

theorem node_s_le_e (t : RangeTree) (h : wellNested t = true) (i : Nat) (n : Node)
    (hi : t[i]? = some n) : n.s ≤ n.e := by
  have := wellNested_get t h i n hi
  simp only [nodeOK, Bool.and_eq_true, decide_eq_true_eq] at this
  exact this.1

theorem parent_contains (t : RangeTree) (h : wellNested t = true) (i j : Nat) (n : Node)
    (hi : t[i]? = some n) (hp : n.parent = some j) :
    ∃ p, t[j]? = some p ∧ p.s ≤ n.s ∧ n.e ≤ p.e := by
  have := wellNested_get t h i n hi
  simp only [nodeOK, hp, Bool.and_eq_true, decide_eq_true_eq] at this
  obtain ⟨_, _, h3⟩ := this
  cases hj : t[j]? with
  | none => rw [hj] at h3; cases h3
  | some p =>
    rw [hj] at h3
    simp only [Bool.and_eq_true, decide_eq_true_eq] at h3
    exact ⟨p, rfl, h3.1, h3.2⟩

/-- an ancestor's range contains the descendant's range -/
theorem anc_within (t : RangeTree) (h : wellNested t = true) (k i : Nat) (ha : Anc t k i)
    (a b : Node) (hk : t[k]? = some a) (hi : t[i]? = some b) : within b.range a.range := by
  induction ha generalizing b with
  | refl =>
    rw [hk] at hi; cases hi
    exact ⟨Nat.le_refl _, Nat.le_refl _⟩
  | step hn hp _ ih =>
    rename_i j i' n
    rw [hn] at hi; cases hi
    obtain ⟨p, hj, h1, h2⟩ := parent_contains t h _ _ _ hn hp
    have := ih p hj
    simp only [within, Node.range] at this ⊢
    omega

theorem hull_contains_first (r : Nat × Nat) (xs : List (Nat × Nat)) : within r (hull r xs) := by
  induction xs generalizing r with
  | nil => exact ⟨Nat.le_refl _, Nat.le_refl _⟩
  | cons x xs ih =>
    have := ih (min r.1 x.1, max r.2 x.2)
    simp only [hull, within] at this ⊢
    omega

theorem hull_contains_mem (r : Nat × Nat) (xs : List (Nat × Nat)) (x : Nat × Nat) (hx : x ∈ xs) :
    within x (hull r xs) := by
  induction xs generalizing r with
  | nil => cases hx
  | cons y ys ih =>
    simp only [hull]
    rcases List.mem_cons.mp hx with h | h
    · subst h
      have := hull_contains_first (min r.1 x.1, max r.2 x.2) ys
      simp only [within] at this ⊢
      omega
    · exact ih _ h

theorem hull_within (r : Nat × Nat) (xs : List (Nat × Nat)) (b : Nat × Nat) (hr : within r b)
    (hxs : ∀ x ∈ xs, within x b) : within (hull r xs) b := by
  induction xs generalizing r with
  | nil => exact hr
  | cons x xs ih =>
    simp only [hull]
    apply ih
    · have := hxs x (by simp)
      simp only [within] at this hr ⊢
      omega
    · intro y hy; exact hxs y (List.mem_cons_of_mem _ hy)

theorem filter_le_length_mono (starts : List Nat) (a b : Nat) (h : a ≤ b) :
    (starts.filter (· ≤ a)).length ≤ (starts.filter (· ≤ b)).length := by
  induction starts with
  | nil => simp
  | cons x xs ih =>
    simp only [List.filter_cons]
    by_cases h1 : x ≤ a
    · have h2 : x ≤ b := by omega
      simp [h1, h2]; exact ih
    · by_cases h2 : x ≤ b
      · simp [h1, h2]; omega
      · simp [h1, h2]; exact ih

theorem lineOf_mono (starts : List Nat) (a b : Nat) (h : a ≤ b) :
    lineOf starts a ≤ lineOf starts b := by
  have := filter_le_length_mono starts a b h
  unfold lineOf; omega

end LspShape
