import EmmyVerif.Model.SchedReload
/-!
# Lemmas for `SchedReload` (C29)

Invariant: every uri is either consistent (`Ok`: analysed text = editor text of the open file, else disk
content), or about to be fixed by the main loop's current handler (`MainFix`), or still covered by the
reload task (`Pend`: a full rewrite is ahead, or the uri's open state differs from the applied snapshot —
which, because every change of the open files bumps the version, forces another round of the loop —, or
the pending `apply_open_file_sync` writes it).
-/
namespace SchedReload

def Ok (disk : TMap) (wm an : TMap) (u : Uri) : Prop := an u = overlay wm disk u

def MainFix (cur : List Step) (u : Uri) : Prop := (∃ t, Step.updAn u t ∈ cur) ∨ Step.closeAn u ∈ cur

def CurOk (cur : List Step) (wm : TMap) : Prop :=
  cur = [] ∨ (∃ u t, cur = [.syncWm u t, .updAn u t]) ∨ (∃ u t, cur = [.updAn u t] ∧ wm u = some t) ∨
  (∃ u, cur = [.closeWm u, .closeAn u]) ∨ (∃ u, cur = [.closeAn u] ∧ wm u = none)

/-- a snapshot is never newer than the current version; same version ⇒ same open files -/
def F1 (ver : Nat) (wm : TMap) (σ : Snap) : Prop := σ.ver ≤ ver ∧ (σ.ver = ver → ∀ u, σ.files u = wm u)

def SnapOk (rp : RPhase) (ver : Nat) (wm : TMap) : Prop :=
  match rp with
  | .r2 σ => F1 ver wm σ
  | .r3 σ => F1 ver wm σ
  | .l1 σ => F1 ver wm σ
  | .l2 _ ν => F1 ver wm ν
  | _ => True

def Pend (rp : RPhase) (reloads : Nat) (wm : TMap) (u : Uri) : Prop :=
  match rp with
  | .idle => 0 < reloads
  | .r1 => True
  | .r2 _ => True
  | .r3 _ => True
  | .l1 σ => wm u ≠ σ.files u
  | .l2 σ ν => ν.files u ≠ none ∨ σ.files u ≠ none

structure Inv (disk : TMap) (s : St) : Prop where
  curOk : CurOk s.cur s.wm
  snapOk : SnapOk s.rp s.ver s.wm
  owe : ∀ u, Ok disk s.wm s.an u ∨ MainFix s.cur u ∨ Pend s.rp s.reloads s.wm u

theorem set_same (m : TMap) (u : Uri) (v : Option Text) : m.set u v u = v := by simp [TMap.set]

theorem set_other (m : TMap) {u w : Uri} (v : Option Text) (h : w ≠ u) : m.set u v w = m w := by
  simp [TMap.set, h]

theorem overlay_congr {wm wm' disk : TMap} {u : Uri} (h : wm' u = wm u) : overlay wm' disk u = overlay wm disk u := by
  simp [overlay, h]

/-- bumping the version keeps every snapshot fact (the snapshot becomes strictly older) -/
theorem f1_bump {ver : Nat} {wm wm' : TMap} {σ : Snap} (h : F1 ver wm σ) : F1 (ver + 1) wm' σ :=
  ⟨by have := h.1; omega, fun e => by have := h.1; omega⟩

theorem snapOk_bump {rp : RPhase} {ver : Nat} {wm wm' : TMap} (h : SnapOk rp ver wm) : SnapOk rp (ver + 1) wm' := by
  cases rp <;> simp only [SnapOk] at h ⊢ <;> first | trivial | exact f1_bump h

/-- `Pend` for a uri whose `wm` entry did not change -/
theorem pend_congr {rp : RPhase} {k : Nat} {wm wm' : TMap} {u : Uri} (h : wm' u = wm u)
    (hp : Pend rp k wm u) : Pend rp k wm' u := by
  cases rp <;> simp only [Pend] at hp ⊢ <;> first | exact hp | (rw [h]; exact hp)

theorem inv_main {disk : TMap} {s s' : St} (inv : Inv disk s) (h : exec realCfg disk s .main = some s') : Inv disk s' := by
  simp only [exec] at h
  rcases inv.curOk with hc | ⟨u, t, hc⟩ | ⟨u, t, hc, hw⟩ | ⟨u, hc⟩ | ⟨u, hc, hw⟩
  · rw [hc] at h
    cases hp : s.pending with
    | nil => rw [hp] at h; cases h
    | cons n ms =>
      rw [hp] at h; simp only [Option.some.injEq] at h; subst h
      refine ⟨?_, inv.snapOk, ?_⟩
      · cases n with
        | edit u t => exact Or.inr (Or.inl ⟨u, t, rfl⟩)
        | close u => exact Or.inr (Or.inr (Or.inr (Or.inl ⟨u, rfl⟩)))
      · intro v
        rcases inv.owe v with h1 | h1 | h1
        · exact Or.inl h1
        · rw [hc] at h1; rcases h1 with ⟨_, h1⟩ | h1 <;> cases h1
        · exact Or.inr (Or.inr h1)
  · -- syncWm u t
    rw [hc] at h; simp only [execStep, realCfg, if_true, Option.some.injEq] at h; subst h
    refine ⟨Or.inr (Or.inr (Or.inl ⟨u, t, rfl, set_same _ _ _⟩)), snapOk_bump inv.snapOk, ?_⟩
    intro v
    by_cases hv : v = u
    · subst hv; exact Or.inr (Or.inl (Or.inl ⟨t, by simp⟩))
    · rcases inv.owe v with h1 | h1 | h1
      · left; simp only [Ok] at h1 ⊢; rw [h1]; exact (overlay_congr (set_other _ _ hv)).symm
      · rw [hc] at h1
        rcases h1 with ⟨t', h1⟩ | h1
        · simp at h1; exact absurd h1.1 hv
        · simp at h1
      · exact Or.inr (Or.inr (pend_congr (set_other _ _ hv) h1))
  · -- updAn u t
    rw [hc] at h; simp only [execStep, realCfg, if_true, Option.some.injEq] at h; subst h
    refine ⟨Or.inl rfl, inv.snapOk, ?_⟩
    intro v
    by_cases hv : v = u
    · subst hv; left; simp only [Ok, set_same, overlay, hw]
    · rcases inv.owe v with h1 | h1 | h1
      · left; simp only [Ok] at h1 ⊢; rw [set_other _ _ hv]; exact h1
      · rw [hc] at h1
        rcases h1 with ⟨t', h1⟩ | h1
        · simp at h1; exact absurd h1.1 hv
        · simp at h1
      · exact Or.inr (Or.inr h1)
  · -- closeWm u
    rw [hc] at h; simp only [execStep, realCfg, if_true, Option.some.injEq] at h; subst h
    refine ⟨Or.inr (Or.inr (Or.inr (Or.inr ⟨u, rfl, set_same _ _ _⟩))), snapOk_bump inv.snapOk, ?_⟩
    intro v
    by_cases hv : v = u
    · subst hv; exact Or.inr (Or.inl (Or.inr (by simp)))
    · rcases inv.owe v with h1 | h1 | h1
      · left; simp only [Ok] at h1 ⊢; rw [h1]; exact (overlay_congr (set_other _ _ hv)).symm
      · rw [hc] at h1
        rcases h1 with ⟨t', h1⟩ | h1
        · simp at h1
        · simp at h1; exact absurd h1 hv
      · exact Or.inr (Or.inr (pend_congr (set_other _ _ hv) h1))
  · -- closeAn u
    rw [hc] at h; simp only [execStep, realCfg, if_true, Option.some.injEq] at h; subst h
    refine ⟨Or.inl rfl, inv.snapOk, ?_⟩
    intro v
    by_cases hv : v = u
    · subst hv; left; simp only [Ok, set_same, overlay, hw]
    · rcases inv.owe v with h1 | h1 | h1
      · left; simp only [Ok] at h1 ⊢; rw [set_other _ _ hv]; exact h1
      · rw [hc] at h1
        rcases h1 with ⟨t', h1⟩ | h1
        · simp at h1
        · simp at h1; exact absurd h1 hv
      · exact Or.inr (Or.inr h1)

theorem inv_reload {disk : TMap} {s s' : St} (inv : Inv disk s) (h : exec realCfg disk s .reload = some s') : Inv disk s' := by
  simp only [exec] at h
  split at h
  · cases h
    exact ⟨inv.curOk, trivial, fun u => Or.inr (Or.inr trivial)⟩
  · cases h

theorem inv_rstep {disk : TMap} {s s' : St} (inv : Inv disk s) (h : exec realCfg disk s .rstep = some s') : Inv disk s' := by
  simp only [exec] at h
  cases hrp : s.rp with
  | idle => rw [hrp] at h; cases h
  | r1 =>
    rw [hrp] at h; simp only [Option.some.injEq] at h; subst h
    exact ⟨inv.curOk, ⟨Nat.le_refl _, fun _ _ => rfl⟩, fun u => Or.inr (Or.inr trivial)⟩
  | r2 σ =>
    rw [hrp] at h; simp only [Option.some.injEq] at h; subst h
    have hs := inv.snapOk; rw [hrp] at hs
    exact ⟨inv.curOk, hs, fun u => Or.inr (Or.inr trivial)⟩
  | r3 σ =>
    rw [hrp] at h; simp only [realCfg, if_true, Option.some.injEq] at h; subst h
    have hs := inv.snapOk; rw [hrp] at hs
    refine ⟨inv.curOk, hs, ?_⟩
    intro u
    by_cases hw : s.wm u = σ.files u
    · left; simp only [Ok, overlay, hw]
    · exact Or.inr (Or.inr hw)
  | l1 σ =>
    simp only [hrp] at h
    have hs := inv.snapOk; rw [hrp] at hs
    split at h
    · rename_i hv
      simp only [Option.some.injEq] at h; subst h
      refine ⟨inv.curOk, trivial, ?_⟩
      intro u
      rcases inv.owe u with h1 | h1 | h1
      · exact Or.inl h1
      · exact Or.inr (Or.inl h1)
      · rw [hrp] at h1
        exact absurd (hs.2 hv.symm u).symm h1
    · simp only [Option.some.injEq] at h; subst h
      refine ⟨inv.curOk, ⟨Nat.le_refl _, fun _ _ => rfl⟩, ?_⟩
      intro u
      rcases inv.owe u with h1 | h1 | h1
      · exact Or.inl h1
      · exact Or.inr (Or.inl h1)
      · rw [hrp] at h1
        right; right
        simp only [Pend] at h1 ⊢
        cases hwu : s.wm u with
        | some t => left; simp
        | none => right; rw [hwu] at h1; exact fun e => h1 e.symm
  | l2 σ ν =>
    rw [hrp] at h; simp only [Option.some.injEq] at h; subst h
    have hs := inv.snapOk; rw [hrp] at hs
    refine ⟨inv.curOk, hs, ?_⟩
    intro u
    by_cases hw : s.wm u = ν.files u
    · cases hn : ν.files u with
      | some t => left; simp only [Ok, applySync, hn, overlay, hw]
      | none =>
        cases ha : σ.files u with
        | some t0 => left; simp only [Ok, applySync, hn, ha, overlay, hw]
        | none =>
          rcases inv.owe u with h1 | h1 | h1
          · left; simp only [Ok, applySync, hn, ha]; exact h1
          · exact Or.inr (Or.inl h1)
          · rw [hrp] at h1; simp only [Pend, hn, ha] at h1; rcases h1 with h1 | h1 <;> exact absurd rfl h1
    · exact Or.inr (Or.inr hw)

theorem inv_exec {disk : TMap} {s s' : St} {lab : Label} (inv : Inv disk s) (h : exec realCfg disk s lab = some s') :
    Inv disk s' := by
  cases lab with
  | main => exact inv_main inv h
  | reload => exact inv_reload inv h
  | rstep => exact inv_rstep inv h

theorem inv_init (disk : TMap) (ms : List Notif) (k : Nat) : Inv disk (init disk ms k) :=
  ⟨Or.inl rfl, trivial, fun u => Or.inl (by simp [Ok, init, overlay])⟩

theorem inv_run {disk : TMap} {s s' : St} {sched : List Label} (inv : Inv disk s)
    (h : run realCfg disk s sched = some s') : Inv disk s' := by
  induction sched generalizing s with
  | nil => simp [run] at h; subst h; exact inv
  | cons lab rest ih =>
    simp only [run] at h
    split at h
    · rename_i s1 h1; exact ih (inv_exec inv h1) h
    · cases h


/-! ## Termination: every step decreases `measure` -/

theorem rMeasure_bump (v : Nat) (rp : RPhase) : rMeasure (v + 1) rp ≤ rMeasure v rp + 3 := by
  cases rp <;> simp only [rMeasure] <;> (try split) <;> (try split) <;> omega

theorem steps_length (n : Notif) : (steps n).length = 2 := by cases n <;> rfl

theorem measure_exec {disk : TMap} {s s' : St} {lab : Label} (h : exec realCfg disk s lab = some s') :
    measure s' < measure s := by
  cases lab with
  | main =>
    simp only [exec] at h
    split at h
    · rename_i st rest hc
      simp only [Option.some.injEq] at h; subst h
      cases st <;> simp only [execStep, realCfg, if_true, measure, hc, List.length_cons]
      · have := rMeasure_bump s.ver s.rp; omega
      · omega
      · have := rMeasure_bump s.ver s.rp; omega
      · omega
    · rename_i hc
      split at h
      · cases h
      · rename_i n ms hp
        simp only [Option.some.injEq] at h; subst h
        simp only [measure, hc, hp, steps_length, List.length_cons, List.length_nil]; omega
  | reload =>
    simp only [exec] at h
    split at h
    · rename_i k hrp hk
      simp only [Option.some.injEq] at h; subst h
      simp only [measure, hrp, hk, rMeasure]; omega
    · cases h
  | rstep =>
    simp only [exec] at h
    cases hrp : s.rp with
    | idle => rw [hrp] at h; cases h
    | r1 => rw [hrp] at h; simp only [Option.some.injEq] at h; subst h; simp only [measure, hrp, rMeasure]; omega
    | r2 σ => rw [hrp] at h; simp only [Option.some.injEq] at h; subst h; simp only [measure, hrp, rMeasure]; omega
    | r3 σ =>
      rw [hrp] at h; simp only [realCfg, if_true, Option.some.injEq] at h; subst h
      simp only [measure, hrp, rMeasure]; split <;> omega
    | l1 σ =>
      simp only [hrp] at h
      split at h
      · rename_i hv
        simp only [Option.some.injEq] at h; subst h
        simp only [measure, hrp, rMeasure, hv, if_true]; omega
      · rename_i hv
        simp only [Option.some.injEq] at h; subst h
        simp only [measure, hrp, rMeasure, hv, if_false, if_true]; omega
    | l2 σ ν =>
      rw [hrp] at h; simp only [Option.some.injEq] at h; subst h
      simp only [measure, hrp, rMeasure]; split <;> omega

theorem quiescentB_iff (s : St) : quiescentB s = true ↔ quiescent s := by
  simp [quiescentB, quiescent, List.isEmpty_iff, and_assoc]

end SchedReload
