import EmmyVerif.Model.SchedReload
/-!
# Lemmas for `SchedReload` (C29)

Invariant: every uri is either consistent (`Ok`: analysed text = editor text of the open file, else disk
content), or about to be fixed by the main loop's current handler (`MainFix`), or still covered by the
reload task (`Pend`: a full rewrite is ahead, or the uri's open state differs from the applied snapshot —
which, because every change of the open files bumps the version, forces another round of the loop —, or
the pending `apply_open_file_sync` writes it).
-/
namespace SchedReload

/-- a uri that is a workspace file now is analysed with the editor text / the disk content; nothing is required of
the others -/
def Ok (disk : TMap) (m : Uri → Bool) (wm an : TMap) (u : Uri) : Prop := m u = true → an u = overlay wm disk u

def MainFix (cur : List Step) (u : Uri) : Prop := (∃ t, Step.updAn u t ∈ cur) ∨ Step.closeAn u ∈ cur

def CurOk (cur : List Step) (wm : TMap) : Prop :=
  cur = [] ∨ (∃ u t, cur = [.syncCheck u t]) ∨ (∃ u t, cur = [.updAn u t] ∧ wm u = some t) ∨
  (∃ u, cur = [.closeWm u, .closeAn u]) ∨ (∃ u, cur = [.closeAn u] ∧ wm u = none)

/-- a snapshot is never newer than the current version; same version ⇒ same open files -/
def F1 (ver : Nat) (m : Uri → Bool) (wm : TMap) (σ : Snap) : Prop :=
  σ.ver ≤ ver ∧ (σ.ver = ver → ∀ u, σ.files u = filt m wm u)

def SnapOk (rp : RPhase) (ver : Nat) (m : Uri → Bool) (wm : TMap) : Prop :=
  match rp with
  | .r2 σ => F1 ver m wm σ
  | .r3 σ => F1 ver m wm σ
  | .l1 σ => F1 ver m wm σ
  | .l2 _ ν => F1 ver m wm ν
  | _ => True

def Pend (rp : RPhase) (reloads : List (Uri → Bool)) (m : Uri → Bool) (wm : TMap) (u : Uri) : Prop :=
  match rp with
  | .idle => reloads ≠ []
  | .r1 _ => True
  | .r2 _ => True
  | .r3 _ => True
  | .l1 σ => filt m wm u ≠ σ.files u
  | .l2 σ ν => ν.files u ≠ none ∨ σ.files u ≠ none

structure Inv (disk : TMap) (s : St) : Prop where
  curOk : CurOk s.cur s.wm
  snapOk : SnapOk s.rp s.ver s.member s.wm
  owe : ∀ u, Ok disk s.member s.wm s.an u ∨ MainFix s.cur u ∨ Pend s.rp s.reloads s.member s.wm u

theorem set_same (m : TMap) (u : Uri) (v : Option Text) : m.set u v u = v := by simp [TMap.set]

theorem set_other (m : TMap) {u w : Uri} (v : Option Text) (h : w ≠ u) : m.set u v w = m w := by
  simp [TMap.set, h]

theorem overlay_congr {wm wm' disk : TMap} {u : Uri} (h : wm' u = wm u) : overlay wm' disk u = overlay wm disk u := by
  simp [overlay, h]

/-- bumping the version keeps every snapshot fact (the snapshot becomes strictly older) -/
theorem f1_bump {ver : Nat} {m : Uri → Bool} {wm wm' : TMap} {σ : Snap} (h : F1 ver m wm σ) : F1 (ver + 1) m wm' σ :=
  ⟨by have := h.1; omega, fun e => by have := h.1; omega⟩

theorem snapOk_bump {rp : RPhase} {ver : Nat} {m : Uri → Bool} {wm wm' : TMap} (h : SnapOk rp ver m wm) :
    SnapOk rp (ver + 1) m wm' := by
  cases rp <;> simp only [SnapOk] at h ⊢ <;> first | trivial | exact f1_bump h

/-- `Pend` for a uri whose `wm` entry did not change -/
theorem pend_congr {rp : RPhase} {k : List (Uri → Bool)} {m : Uri → Bool} {wm wm' : TMap} {u : Uri} (h : wm' u = wm u)
    (hp : Pend rp k m wm u) : Pend rp k m wm' u := by
  cases rp <;> simp only [Pend, filt] at hp ⊢ <;> first | exact hp | (rw [h]; exact hp)

theorem ok_congr {disk : TMap} {m : Uri → Bool} {wm wm' an an' : TMap} {u : Uri} (hw : wm' u = wm u) (ha : an' u = an u)
    (h : Ok disk m wm an u) : Ok disk m wm' an' u := by
  intro hm; rw [ha, h hm]; exact (overlay_congr hw).symm

theorem inv_main {disk : TMap} {s s' : St} (inv : Inv disk s) (h : exec realCfg disk s .main = some s') : Inv disk s' := by
  simp only [exec] at h
  rcases inv.curOk with hc | ⟨u, t, hc⟩ | ⟨u, t, hc, hw⟩ | ⟨u, hc⟩ | ⟨u, hc, hw⟩
  · rw [hc] at h
    cases hp : s.pending with
    | nil => rw [hp] at h; cases h
    | cons n ms =>
      rw [hp] at h; simp only [Option.some.injEq] at h; subst h
      refine ⟨?_, inv.snapOk, ?_⟩
      · cases n with
        | edit u t => exact Or.inr (Or.inl ⟨u, t, rfl⟩)
        | close u => exact Or.inr (Or.inr (Or.inr (Or.inl ⟨u, rfl⟩)))
      · intro v
        rcases inv.owe v with h1 | h1 | h1
        · exact Or.inl h1
        · rw [hc] at h1; rcases h1 with ⟨_, h1⟩ | h1 <;> cases h1
        · exact Or.inr (Or.inr h1)
  · -- syncCheck u t: record the editor text, decide whether the document is analysed
    rw [hc] at h; simp only [execStep, realCfg, if_true, Option.some.injEq] at h; subst h
    have hothers : ∀ v, v ≠ u → ∀ cur', (∀ t', Step.updAn v t' ∉ cur') → Step.closeAn v ∉ cur' →
        (Ok disk s.member s.wm s.an v ∨ MainFix s.cur v ∨ Pend s.rp s.reloads s.member s.wm v) →
        (Ok disk s.member (s.wm.set u (some t)) s.an v ∨ MainFix cur' v ∨
          Pend s.rp s.reloads s.member (s.wm.set u (some t)) v) := by
      intro v hv cur' _ _ h0
      rcases h0 with h1 | h1 | h1
      · exact Or.inl (ok_congr (set_other _ _ hv) rfl h1)
      · rw [hc] at h1
        rcases h1 with ⟨t', h1⟩ | h1 <;> simp at h1
      · exact Or.inr (Or.inr (pend_congr (set_other _ _ hv) h1))
    by_cases hsp : ((s.an u).isSome || s.member u) = true
    · simp only [hsp, if_true]
      refine ⟨Or.inr (Or.inr (Or.inl ⟨u, t, rfl, set_same _ _ _⟩)), snapOk_bump inv.snapOk, ?_⟩
      intro v
      by_cases hv : v = u
      · subst hv; exact Or.inr (Or.inl (Or.inl ⟨t, by simp⟩))
      · rcases hothers v hv [] (by simp) (by simp) (inv.owe v) with h1 | h1 | h1
        · exact Or.inl h1
        · rcases h1 with ⟨_, h1⟩ | h1 <;> cases h1
        · exact Or.inr (Or.inr h1)
    · simp only [hsp]
      have hm : s.member u = false := by
        cases hmu : s.member u with
        | false => rfl
        | true => simp [hmu] at hsp
      refine ⟨Or.inl rfl, snapOk_bump inv.snapOk, ?_⟩
      intro v
      by_cases hv : v = u
      · subst hv; left; intro hmv; rw [hm] at hmv; cases hmv
      · rcases hothers v hv [] (by simp) (by simp) (inv.owe v) with h1 | h1 | h1
        · exact Or.inl h1
        · rcases h1 with ⟨_, h1⟩ | h1 <;> cases h1
        · exact Or.inr (Or.inr h1)
  · -- updAn u t
    rw [hc] at h; simp only [execStep, Option.some.injEq] at h; subst h
    refine ⟨Or.inl rfl, inv.snapOk, ?_⟩
    intro v
    by_cases hv : v = u
    · subst hv; left; intro _; simp only [set_same, overlay, hw]
    · rcases inv.owe v with h1 | h1 | h1
      · exact Or.inl (ok_congr rfl (set_other _ _ hv) h1)
      · rw [hc] at h1
        rcases h1 with ⟨t', h1⟩ | h1
        · simp at h1; exact absurd h1.1 hv
        · simp at h1
      · exact Or.inr (Or.inr h1)
  · -- closeWm u
    rw [hc] at h; simp only [execStep, realCfg, if_true, Option.some.injEq] at h; subst h
    refine ⟨Or.inr (Or.inr (Or.inr (Or.inr ⟨u, rfl, set_same _ _ _⟩))), snapOk_bump inv.snapOk, ?_⟩
    intro v
    by_cases hv : v = u
    · subst hv; exact Or.inr (Or.inl (Or.inr (by simp)))
    · rcases inv.owe v with h1 | h1 | h1
      · exact Or.inl (ok_congr (set_other _ _ hv) rfl h1)
      · rw [hc] at h1
        rcases h1 with ⟨t', h1⟩ | h1
        · simp at h1
        · simp at h1; exact absurd h1 hv
      · exact Or.inr (Or.inr (pend_congr (set_other _ _ hv) h1))
  · -- closeAn u
    rw [hc] at h; simp only [execStep, Option.some.injEq] at h; subst h
    refine ⟨Or.inl rfl, inv.snapOk, ?_⟩
    intro v
    by_cases hv : v = u
    · subst hv; left; intro hm; replace hm : s.member _ = true := hm; simp only [set_same, overlay, hw, mdisk, hm, if_true]
    · rcases inv.owe v with h1 | h1 | h1
      · exact Or.inl (ok_congr rfl (set_other _ _ hv) h1)
      · rw [hc] at h1
        rcases h1 with ⟨t', h1⟩ | h1
        · simp at h1
        · simp at h1; exact absurd h1 hv
      · exact Or.inr (Or.inr h1)

theorem inv_reload {disk : TMap} {s s' : St} (inv : Inv disk s) (h : exec realCfg disk s .reload = some s') : Inv disk s' := by
  simp only [exec] at h
  split at h
  · cases h
    exact ⟨inv.curOk, trivial, fun u => Or.inr (Or.inr trivial)⟩
  · cases h

theorem inv_rstep {disk : TMap} {s s' : St} (inv : Inv disk s) (h : exec realCfg disk s .rstep = some s') : Inv disk s' := by
  simp only [exec] at h
  cases hrp : s.rp with
  | idle => rw [hrp] at h; cases h
  | r1 m =>
    -- the new matcher is installed and the snapshot taken in one critical section
    rw [hrp] at h; simp only [Option.some.injEq] at h; subst h
    exact ⟨inv.curOk, ⟨Nat.le_refl _, fun _ _ => rfl⟩, fun u => Or.inr (Or.inr trivial)⟩
  | r2 σ =>
    rw [hrp] at h; simp only [Option.some.injEq] at h; subst h
    have hs := inv.snapOk; rw [hrp] at hs
    exact ⟨inv.curOk, hs, fun u => Or.inr (Or.inr trivial)⟩
  | r3 σ =>
    rw [hrp] at h; simp only [realCfg, if_true, Option.some.injEq] at h; subst h
    have hs := inv.snapOk; rw [hrp] at hs
    refine ⟨inv.curOk, hs, ?_⟩
    intro u
    by_cases hw : filt s.member s.wm u = σ.files u
    · left; intro hm
      replace hm : s.member u = true := hm
      simp only [filt, hm, if_true] at hw
      simp only [overlay, ← hw, mdisk, hm, if_true]
    · exact Or.inr (Or.inr hw)
  | l1 σ =>
    simp only [hrp] at h
    have hs := inv.snapOk; rw [hrp] at hs
    split at h
    · rename_i hv
      simp only [Option.some.injEq] at h; subst h
      refine ⟨inv.curOk, trivial, ?_⟩
      intro u
      rcases inv.owe u with h1 | h1 | h1
      · exact Or.inl h1
      · exact Or.inr (Or.inl h1)
      · rw [hrp] at h1
        exact absurd (hs.2 hv.symm u).symm h1
    · simp only [Option.some.injEq] at h; subst h
      refine ⟨inv.curOk, ⟨Nat.le_refl _, fun _ _ => rfl⟩, ?_⟩
      intro u
      rcases inv.owe u with h1 | h1 | h1
      · exact Or.inl h1
      · exact Or.inr (Or.inl h1)
      · rw [hrp] at h1
        right; right
        simp only [Pend] at h1 ⊢
        cases hwu : filt s.member s.wm u with
        | some t => left; simp
        | none => right; rw [hwu] at h1; exact fun e => h1 e.symm
  | l2 σ ν =>
    rw [hrp] at h; simp only [Option.some.injEq] at h; subst h
    have hs := inv.snapOk; rw [hrp] at hs
    refine ⟨inv.curOk, hs, ?_⟩
    intro u
    by_cases hw : filt s.member s.wm u = ν.files u
    · cases hn : ν.files u with
      | some t =>
        left; intro hm
        replace hm : s.member u = true := hm
        rw [hn] at hw; simp only [filt, hm, if_true] at hw
        simp only [applySync, hn, overlay, hw]
      | none =>
        cases ha : σ.files u with
        | some t0 =>
          left; intro hm
          replace hm : s.member u = true := hm
          rw [hn] at hw; simp only [filt, hm, if_true] at hw
          simp only [applySync, hn, ha, overlay, hw, mdisk, hm, if_true]
        | none =>
          rcases inv.owe u with h1 | h1 | h1
          · left; intro hm; simp only [applySync, hn, ha]; exact h1 hm
          · exact Or.inr (Or.inl h1)
          · rw [hrp] at h1; simp only [Pend, hn, ha] at h1; rcases h1 with h1 | h1 <;> exact absurd rfl h1
    · exact Or.inr (Or.inr hw)

theorem inv_exec {disk : TMap} {s s' : St} {lab : Label} (inv : Inv disk s) (h : exec realCfg disk s lab = some s') :
    Inv disk s' := by
  cases lab with
  | main => exact inv_main inv h
  | reload => exact inv_reload inv h
  | rstep => exact inv_rstep inv h

theorem inv_init (disk : TMap) (m0 : Uri → Bool) (ms : List Notif) (k : List (Uri → Bool)) : Inv disk (init disk m0 ms k) :=
  ⟨Or.inl rfl, trivial, fun u => Or.inl (by intro hm; simp only [init] at hm ⊢; simp [overlay, mdisk, hm])⟩

theorem inv_run {disk : TMap} {s s' : St} {sched : List Label} (inv : Inv disk s)
    (h : run realCfg disk s sched = some s') : Inv disk s' := by
  induction sched generalizing s with
  | nil => simp [run] at h; subst h; exact inv
  | cons lab rest ih =>
    simp only [run] at h
    split at h
    · rename_i s1 h1; exact ih (inv_exec inv h1) h
    · cases h


/-! ## Termination: every step decreases `measure` -/

theorem rMeasure_bump (v : Nat) (rp : RPhase) : rMeasure (v + 1) rp ≤ rMeasure v rp + 3 := by
  cases rp <;> simp only [rMeasure] <;> (try split) <;> (try split) <;> omega

theorem measure_exec {disk : TMap} {s s' : St} {lab : Label} (h : exec realCfg disk s lab = some s') :
    measure s' < measure s := by
  cases lab with
  | main =>
    simp only [exec] at h
    split at h
    · rename_i st rest hc
      simp only [Option.some.injEq] at h; subst h
      cases st <;> simp only [execStep, realCfg, if_true, measure, hc, curW, stepW, List.map_cons, List.sum_cons]
      · have := rMeasure_bump s.ver s.rp
        split <;> (try simp only [List.map_cons, List.sum_cons, stepW]) <;> omega
      · split <;> (try simp only [List.map_cons, List.sum_cons, stepW]) <;> omega
      · have := rMeasure_bump s.ver s.rp; omega
      · omega
      · have := rMeasure_bump s.ver s.rp; omega
      · omega
    · rename_i hc
      split at h
      · cases h
      · rename_i n ms hp
        simp only [Option.some.injEq] at h; subst h
        cases n <;> simp only [measure, hc, hp, steps, realCfg, if_true, curW, stepW, List.map_cons, List.map_nil,
          List.sum_cons, List.sum_nil, List.length_cons] <;> omega
  | reload =>
    simp only [exec] at h
    split at h
    · rename_i m k hrp hk
      simp only [Option.some.injEq] at h; subst h
      simp only [measure, hrp, hk, rMeasure, List.length_cons]; omega
    · cases h
  | rstep =>
    simp only [exec] at h
    cases hrp : s.rp with
    | idle => rw [hrp] at h; cases h
    | r1 m => rw [hrp] at h; simp only [Option.some.injEq] at h; subst h; simp only [measure, hrp, rMeasure]; omega
    | r2 σ => rw [hrp] at h; simp only [Option.some.injEq] at h; subst h; simp only [measure, hrp, rMeasure]; omega
    | r3 σ =>
      rw [hrp] at h; simp only [realCfg, if_true, Option.some.injEq] at h; subst h
      simp only [measure, hrp, rMeasure]; split <;> omega
    | l1 σ =>
      simp only [hrp] at h
      split at h
      · rename_i hv
        simp only [Option.some.injEq] at h; subst h
        simp only [measure, hrp, rMeasure, hv, if_true]; omega
      · rename_i hv
        simp only [Option.some.injEq] at h; subst h
        simp only [measure, hrp, rMeasure, hv, if_false, if_true]; omega
    | l2 σ ν =>
      rw [hrp] at h; simp only [Option.some.injEq] at h; subst h
      simp only [measure, hrp, rMeasure]; split <;> omega

theorem quiescentB_iff (s : St) : quiescentB s = true ↔ quiescent s := by
  simp [quiescentB, quiescent, List.isEmpty_iff, and_assoc]


/-! ## The server's record of the open documents is the editor's view -/

/-- `wm` agrees with the editor's view `ed` except for the document of the handler that is about to record it -/
structure EdInv (s : St) : Prop where
  edSync : ∀ u t, Step.syncCheck u t ∈ s.cur → s.ed u = some t
  edClose : ∀ u, Step.closeWm u ∈ s.cur → s.ed u = none
  edWm : ∀ v, (∀ t, Step.syncCheck v t ∉ s.cur) → Step.closeWm v ∉ s.cur → s.wm v = s.ed v

theorem edInv_exec {disk : TMap} {s s' : St} {lab : Label} (inv : Inv disk s) (e : EdInv s)
    (h : exec realCfg disk s lab = some s') : EdInv s' := by
  cases lab with
  | main =>
    simp only [exec] at h
    rcases inv.curOk with hc | ⟨u, t, hc⟩ | ⟨u, t, hc, _⟩ | ⟨u, hc⟩ | ⟨u, hc, _⟩
    · rw [hc] at h
      cases hp : s.pending with
      | nil => rw [hp] at h; cases h
      | cons n ms =>
        rw [hp] at h; simp only [Option.some.injEq] at h; subst h
        have hwm : ∀ v, s.wm v = s.ed v := fun v => e.edWm v (by rw [hc]; simp) (by rw [hc]; simp)
        cases n with
        | edit u t =>
          refine ⟨?_, ?_, ?_⟩
          · intro v t' hv; simp [steps, realCfg] at hv; obtain ⟨rfl, rfl⟩ := hv; simp [edApply, set_same]
          · intro v hv; simp [steps, realCfg] at hv
          · intro v h1 _
            have hvu : v ≠ u := by intro e'; subst e'; exact h1 t (by simp [steps, realCfg])
            simp only [edApply, set_other _ _ hvu]; exact hwm v
        | close u =>
          refine ⟨?_, ?_, ?_⟩
          · intro v t' hv; simp [steps] at hv
          · intro v hv; simp [steps] at hv; subst hv; simp [edApply, set_same]
          · intro v _ h2
            have hvu : v ≠ u := by intro e'; subst e'; exact h2 (by simp [steps])
            simp only [edApply, set_other _ _ hvu]; exact hwm v
    · -- syncCheck u t
      rw [hc] at h; simp only [execStep, realCfg, if_true, Option.some.injEq] at h; subst h
      have hed : s.ed u = some t := e.edSync u t (by rw [hc]; simp)
      refine ⟨?_, ?_, ?_⟩
      · intro v t' hv; split at hv <;> simp at hv
      · intro v hv; split at hv <;> simp at hv
      · intro v _ _
        by_cases hvu : v = u
        · subst hvu; simp only [set_same]; exact hed.symm
        · simp only [set_other _ _ hvu]
          exact e.edWm v (by rw [hc]; intro t'; simp; exact fun e' _ => hvu e') (by rw [hc]; simp)
    · -- updAn
      rw [hc] at h; simp only [execStep, Option.some.injEq] at h; subst h
      exact ⟨by intro v t' hv; simp at hv, by intro v hv; simp at hv,
        fun v _ _ => e.edWm v (by rw [hc]; simp) (by rw [hc]; simp)⟩
    · -- closeWm u
      rw [hc] at h; simp only [execStep, realCfg, if_true, Option.some.injEq] at h; subst h
      have hed : s.ed u = none := e.edClose u (by rw [hc]; simp)
      refine ⟨by intro v t' hv; simp at hv, by intro v hv; simp at hv, ?_⟩
      intro v _ _
      by_cases hvu : v = u
      · subst hvu; simp only [set_same]; exact hed.symm
      · simp only [set_other _ _ hvu]
        exact e.edWm v (by rw [hc]; simp) (by rw [hc]; simp; exact hvu)
    · -- closeAn
      rw [hc] at h; simp only [execStep, Option.some.injEq] at h; subst h
      exact ⟨by intro v t' hv; simp at hv, by intro v hv; simp at hv,
        fun v _ _ => e.edWm v (by rw [hc]; simp) (by rw [hc]; simp)⟩
  | reload =>
    simp only [exec] at h
    split at h
    · cases h; exact ⟨e.edSync, e.edClose, e.edWm⟩
    · cases h
  | rstep =>
    simp only [exec] at h
    cases hrp : s.rp with
    | idle => rw [hrp] at h; cases h
    | r1 m => rw [hrp] at h; simp only [Option.some.injEq] at h; subst h; exact ⟨e.edSync, e.edClose, e.edWm⟩
    | r2 σ => rw [hrp] at h; simp only [Option.some.injEq] at h; subst h; exact ⟨e.edSync, e.edClose, e.edWm⟩
    | r3 σ => rw [hrp] at h; simp only [Option.some.injEq] at h; subst h; exact ⟨e.edSync, e.edClose, e.edWm⟩
    | l1 σ =>
      simp only [hrp] at h
      split at h <;> (simp only [Option.some.injEq] at h; subst h; exact ⟨e.edSync, e.edClose, e.edWm⟩)
    | l2 σ ν => rw [hrp] at h; simp only [Option.some.injEq] at h; subst h; exact ⟨e.edSync, e.edClose, e.edWm⟩

theorem edInv_init (disk : TMap) (m0 : Uri → Bool) (ms : List Notif) (k : List (Uri → Bool)) :
    EdInv (init disk m0 ms k) :=
  ⟨by intro u t h; simp [init] at h, by intro u h; simp [init] at h, fun _ _ _ => rfl⟩

theorem both_run {disk : TMap} {s s' : St} {sched : List Label} (inv : Inv disk s) (e : EdInv s)
    (h : run realCfg disk s sched = some s') : Inv disk s' ∧ EdInv s' := by
  induction sched generalizing s with
  | nil => simp [run] at h; subst h; exact ⟨inv, e⟩
  | cons lab rest ih =>
    simp only [run] at h
    split at h
    · rename_i s1 h1; exact ih (inv_exec inv h1) (edInv_exec inv e h1) h
    · cases h

end SchedReload
