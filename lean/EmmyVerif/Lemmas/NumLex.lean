import EmmyVerif.Model.NumLex
/-!
# Lemmas about `NumLex`: the `lex_number` automaton accepts exactly what the manual's numeral grammar writes
(at the PUC-Rio levels, `cfg = std`).
-/
namespace NumLex

theorem hex_of_digit {c : Char} (h : isDigit c = true) : isHexDigit c = true := by
  simp [isHexDigit, h]

/-- what a stop char is not -/
structure StopChar (c : Char) : Prop where
  nd : isDigit c = false
  nh : isHexDigit c = false
  ndot : (c == '.') = false
  ne : (c == 'e') = false
  nE : (c == 'E') = false
  np : (c == 'p') = false
  nP : (c == 'P') = false
  nalpha : isAlpha c = false
  nx : (c == 'x') = false
  nX : (c == 'X') = false

theorem stopChar_of_stops (c : Char) (r : List Char) (h : stops (c :: r) = true) : StopChar c := by
  simp only [stops, Bool.not_eq_true', Bool.or_eq_false_iff] at h
  obtain ⟨⟨⟨h1, h2⟩, h3⟩, _⟩ := h
  have key : ∀ d : Char, isAlpha d = true → (c == d) = false := by
    intro d hd
    cases hcd : c == d
    · rfl
    · have : c = d := by simpa using hcd
      subst this; rw [hd] at h2; cases h2
  refine ⟨h1, ?_, h3, key 'e' (by decide), key 'E' (by decide), key 'p' (by decide), key 'P' (by decide), h2,
    key 'x' (by decide), key 'X' (by decide)⟩
  simp only [isHexDigit, h1, Bool.false_or, Bool.or_eq_false_iff]
  simp only [isAlpha, Bool.or_eq_false_iff] at h2
  constructor
  · cases h : (decide ('a' ≤ c) && decide (c ≤ 'f')) with
    | false => rfl
    | true =>
      simp only [Bool.and_eq_true, decide_eq_true_eq] at h
      have h2a := h2.1
      simp only [Bool.and_eq_false_iff, decide_eq_false_iff_not] at h2a
      have hz : c ≤ 'z' := Char.le_trans h.2 (by decide)
      rcases h2a with h2a | h2a
      · exact absurd h.1 h2a
      · exact absurd hz h2a
  · cases h : (decide ('A' ≤ c) && decide (c ≤ 'F')) with
    | false => rfl
    | true =>
      simp only [Bool.and_eq_true, decide_eq_true_eq] at h
      have h2b := h2.2
      simp only [Bool.and_eq_false_iff, decide_eq_false_iff_not] at h2b
      have hz : c ≤ 'Z' := Char.le_trans h.2 (by decide)
      rcases h2b with h2b | h2b
      · exact absurd h.1 h2b
      · exact absurd hz h2b

/-- a digit is not `x` / `X` -/
theorem digit_not_x {c : Char} (h : isDigit c = true) : (c == 'x') = false ∧ (c == 'X') = false := by
  simp only [isDigit, Bool.and_eq_true, decide_eq_true_eq] at h
  constructor
  · cases hc : c == 'x' with
    | false => rfl
    | true => have : c = 'x' := by simpa using hc
              subst this; exact absurd h.2 (by decide)
  · cases hc : c == 'X' with
    | false => rfl
    | true => have : c = 'X' := by simpa using hc
              subst this; exact absurd h.2 (by decide)

/-! ### Runs of digits -/

theorem scan_cons_some (cfg : Cfg) (st st' : St) (c : Char) (r : List Char) (n : Nat) (f : Flags)
    (h : step cfg st c = some st') : scan cfg st (c :: r) n f = scan cfg st' r (n + 1) (mark cfg st c f) := by
  simp [scan, h]

theorem scan_cons_none (cfg : Cfg) (st : St) (c : Char) (r : List Char) (n : Nat) (f : Flags)
    (h : step cfg st c = none) : scan cfg st (c :: r) n f = (settle st, n, c :: r, f) := by
  simp [scan, h]

/-- the counters after a non-empty run marked by the idempotent update `g` -/
def afterRun (g : Flags → Flags) (ds : List Char) (f : Flags) : Flags := if ds.isEmpty then f else g f

/-- a run of chars on which the automaton loops in `st`, each of them updating the counters by `g` -/
theorem scan_run (st : St) (p : Char → Bool) (g : Flags → Flags)
    (hp : ∀ c, p c = true → step std st c = some st) (hm : ∀ c f, p c = true → mark std st c f = g f)
    (hgg : ∀ f, g (g f) = g f) (ds r : List Char) (n : Nat) (f : Flags) (h : ds.all p = true) :
    scan std st (ds ++ r) n f = scan std st r (n + ds.length) (afterRun g ds f) := by
  induction ds generalizing n f with
  | nil => simp [afterRun]
  | cons d ds ih =>
    simp only [List.all_cons, Bool.and_eq_true] at h
    rw [List.cons_append, scan_cons_some std st st d _ n f (hp d h.1), ih (n + 1) _ h.2, hm d f h.1]
    have : afterRun g ds (g f) = afterRun g (d :: ds) f := by
      cases ds <;> simp [afterRun, hgg]
    rw [this]
    simp only [List.length_cons]; congr 1; omega

def setMant (f : Flags) : Flags := { f with mant := true }
def setExp (f : Flags) : Flags := { f with exp := true }

theorem mark_int (c : Char) (f : Flags) : mark std .int c f = f := by simp [mark, std]
theorem mark_float (c : Char) (f : Flags) : mark std .float c f = f := by simp [mark, std]
theorem mark_hex_digit (c : Char) (f : Flags) (h : isHexDigit c = true) : mark std .hex c f = setMant f := by
  simp [mark, std, h, setMant]
theorem mark_hexFloat_digit (c : Char) (f : Flags) (h : isHexDigit c = true) :
    mark std .hexFloat c f = setMant f := by simp [mark, std, h, setMant]
theorem mark_expo_digit (c : Char) (f : Flags) (h : isDigit c = true) : mark std .expo c f = setExp f := by
  simp [mark, std, h, setExp]
theorem mark_hex_other (c : Char) (f : Flags) (h : isHexDigit c = false) : mark std .hex c f = f := by
  simp [mark, std, h]
theorem mark_hexFloat_other (c : Char) (f : Flags) (h : isHexDigit c = false) : mark std .hexFloat c f = f := by
  simp [mark, std, h]

theorem step_int_digit (c : Char) (h : isDigit c = true) : step std .int c = some .int := by
  simp [step, std, h]
theorem step_float_digit (c : Char) (h : isDigit c = true) : step std .float c = some .float := by
  simp [step, std, h]
theorem step_expo_digit (c : Char) (h : isDigit c = true) : step std .expo c = some .expo := by
  simp [step, std, h]
theorem step_hex_digit (c : Char) (h : isHexDigit c = true) : step std .hex c = some .hex := by
  simp [step, std, h]
theorem step_hexFloat_digit (c : Char) (h : isHexDigit c = true) : step std .hexFloat c = some .hexFloat := by
  simp [step, std, h]

/-! ### Stopping -/

theorem step_stop (st : St) (hst : st ≠ .expoSign) (c : Char) (s : StopChar c) : step std st c = none := by
  have h0 : (c == '0') = false := by
    cases hc : c == '0' with
    | false => rfl
    | true => have : c = '0' := by simpa using hc
              subst this; exact absurd s.nd (by decide)
  have h1 : (c == '1') = false := by
    cases hc : c == '1' with
    | false => rfl
    | true => have : c = '1' := by simpa using hc
              subst this; exact absurd s.nd (by decide)
  cases st <;> simp [step, std, s.nd, s.nh, s.ndot, s.ne, s.nE, s.np, s.nP, h0, h1] at hst ⊢

/-- `r` does not continue a numeral: it is empty or starts with a char on which every state of the main
loop breaks (and which is not the `x` of a `0x` prefix) -/
def Halt : List Char → Prop
  | [] => True
  | c :: _ => (∀ st, st ≠ .expoSign → step std st c = none) ∧ (c == 'x') = false ∧ (c == 'X') = false

theorem halt_of_stops (r : List Char) (h : stops r = true) : Halt r := by
  cases r with
  | nil => trivial
  | cons c r =>
    have s := stopChar_of_stops c r h
    exact ⟨fun st hst => step_stop st hst c s, s.nx, s.nX⟩

/-- an ASCII letter that is neither a hex digit, nor an exponent marker, nor `x` halts the numeral -/
theorem halt_of_letter (c : Char) (r : List Char) (ha : isAlpha c = true) (hh : isHexDigit c = false)
    (hp : (c == 'p') = false) (hP : (c == 'P') = false) (hx : (c == 'x') = false) (hX : (c == 'X') = false) :
    Halt (c :: r) := by
  have hd : isDigit c = false := by
    cases h : isDigit c with
    | false => rfl
    | true => rw [hex_of_digit h] at hh; cases hh
  have key : ∀ d : Char, isAlpha d = false → (c == d) = false := by
    intro d hd'
    cases hcd : c == d with
    | false => rfl
    | true => have : c = d := by simpa using hcd
              subst this; rw [ha] at hd'; cases hd'
  have he : (c == 'e') = false := by
    cases hc : c == 'e' with
    | false => rfl
    | true => have : c = 'e' := by simpa using hc
              subst this; exact absurd hh (by decide)
  have hE : (c == 'E') = false := by
    cases hc : c == 'E' with
    | false => rfl
    | true => have : c = 'E' := by simpa using hc
              subst this; exact absurd hh (by decide)
  have h0 := key '0' (by decide)
  have h1 := key '1' (by decide)
  have hdot := key '.' (by decide)
  refine ⟨fun st hst => ?_, hx, hX⟩
  cases st <;> simp [step, std, hd, hh, hdot, he, hE, hp, hP, h0, h1] at hst ⊢

theorem scan_stop (st : St) (hst : st ≠ .expoSign) (r : List Char) (n : Nat) (f : Flags) (h : Halt r) :
    scan std st r n f = (st, n, r, f) := by
  have hs : settle st = st := by cases st <;> simp [settle] at hst ⊢
  cases r with
  | nil => simp [scan, hs]
  | cons c r =>
    rw [scan_cons_none std st c r n f (h.1 st hst), hs]

/-! ### Exponents -/

theorem digit_not_sign {c : Char} (h : isDigit c = true) : isSign c = false := by
  simp only [isDigit, Bool.and_eq_true, decide_eq_true_eq] at h
  simp only [isSign, Bool.or_eq_false_iff]
  constructor
  · cases hc : c == '+' with
    | false => rfl
    | true => have : c = '+' := by simpa using hc
              subst this; exact absurd h.1 (by decide)
  · cases hc : c == '-' with
    | false => rfl
    | true => have : c = '-' := by simpa using hc
              subst this; exact absurd h.1 (by decide)

theorem setExp_idem (f : Flags) : setExp (setExp f) = setExp f := rfl
theorem setMant_idem (f : Flags) : setMant (setMant f) = setMant f := rfl

theorem afterRun_append (g : Flags → Flags) (hgg : ∀ f, g (g f) = g f) (a b : List Char) (f : Flags) :
    afterRun g b (afterRun g a f) = afterRun g (a ++ b) f := by
  cases a <;> cases b <;> simp [afterRun, hgg]

/-- from the position after the exponent letter: optional sign, digits, then a stop -/
theorem scan_exponent (sign : Option Char) (ds r : List Char) (n : Nat) (f : Flags)
    (hs : signOk sign = true)
    (hne : ds ≠ []) (hd : ds.all isDigit = true) (hr : Halt r) :
    scan std .expoSign (signChars sign ++ ds ++ r) n f =
      (.expo, n + (signChars sign).length + ds.length, r, setExp f) := by
  have hrun : afterRun setExp ds f = setExp f := by cases ds <;> simp [afterRun] at hne ⊢
  cases sign with
  | some s =>
    simp only [signOk] at hs
    simp only [signChars, List.cons_append, List.nil_append, List.length_cons, List.length_nil]
    have hm : mark std .expoSign s f = f := by simp [mark, std, hs]
    rw [scan_cons_some std .expoSign .expo s _ n f (by simp [step, hs]), hm,
      scan_run .expo isDigit setExp step_expo_digit mark_expo_digit setExp_idem ds r _ f hd,
      scan_stop .expo (by decide) r _ _ hr, hrun]
  | none =>
    cases ds with
    | nil => exact absurd rfl hne
    | cons d ds =>
      simp only [List.all_cons, Bool.and_eq_true] at hd
      have hsd : step std .expoSign d = some .expo := by
        simp only [step, std, Bool.false_and, hd.1]; split <;> simp
      have hm : mark std .expoSign d f = setExp f := by
        simp [mark, std, hd.1, digit_not_sign hd.1, setExp]
      simp only [signChars, List.nil_append, List.cons_append, List.length_nil]
      rw [scan_cons_some std .expoSign .expo d _ n f hsd, hm,
        scan_run .expo isDigit setExp step_expo_digit mark_expo_digit setExp_idem ds r _ _ hd.2,
        scan_stop .expo (by decide) r _ _ hr]
      have : afterRun setExp ds (setExp f) = setExp f := by cases ds <;> simp [afterRun, setExp]
      rw [this]
      simp only [List.length_cons]; congr 2; omega

/-! ### Mantissa + exponent, generic in (integer state, fraction state, digit class, exponent letters) -/

def ExpoOk (isL : Char → Bool) : Option Exponent → Prop
  | some e => isL e.letter = true ∧ signOk e.sign = true ∧ e.digits ≠ [] ∧ e.digits.all isDigit = true
  | none => True

def finalSt (sI sF : St) (frac : Option (List Char)) (expo : Option Exponent) : St :=
  match expo, frac with
  | some _, _ => .expo
  | none, some _ => sF
  | none, none => sI

def fracDigits : Option (List Char) → List Char
  | some f => f
  | none => []

def expoF : Option Exponent → Flags → Flags
  | some _, f => setExp f
  | none, f => f

theorem scan_mantissa (sI sF : St) (p isL : Char → Bool) (g : Flags → Flags)
    (hI : ∀ c, p c = true → step std sI c = some sI) (hF : ∀ c, p c = true → step std sF c = some sF)
    (hmI : ∀ c f, p c = true → mark std sI c f = g f) (hmF : ∀ c f, p c = true → mark std sF c f = g f)
    (hgg : ∀ f, g (g f) = g f)
    (hLI : ∀ c, isL c = true → step std sI c = some .expoSign)
    (hLF : ∀ c, isL c = true → step std sF c = some .expoSign)
    (hmLI : ∀ c f, isL c = true → mark std sI c f = f) (hmLF : ∀ c f, isL c = true → mark std sF c f = f)
    (hsI : sI ≠ .expoSign) (hsF : sF ≠ .expoSign)
    (ip : List Char) (frac : Option (List Char)) (expo : Option Exponent) (r : List Char) (n : Nat) (f : Flags)
    (hdot : frac.isSome = true → step std sI '.' = some sF ∧ ∀ f, mark std sI '.' f = f)
    (hip : ip.all p = true) (hfr : fracAll p frac = true)
    (hex : ExpoOk isL expo) (hr : Halt r) :
    scan std sI (ip ++ fracChars frac ++ expoChars expo ++ r) n f =
      (finalSt sI sF frac expo, n + ip.length + (fracChars frac).length + (expoChars expo).length, r,
        expoF expo (afterRun g (ip ++ fracDigits frac) f)) := by
  have expoTail : ∀ (st : St) (m : Nat) (f : Flags), (∀ c, isL c = true → step std st c = some .expoSign) →
      (∀ c f, isL c = true → mark std st c f = f) → st ≠ .expoSign →
      scan std st (expoChars expo ++ r) m f =
        ((match expo with | some _ => St.expo | none => st), m + (expoChars expo).length, r, expoF expo f) := by
    intro st m f hL hmL hst
    cases expo with
    | none =>
      simp only [expoChars, List.nil_append, List.length_nil, Nat.add_zero, expoF]
      exact scan_stop st hst r m f hr
    | some e =>
      obtain ⟨h1, h2, h3, h4⟩ := hex
      simp only [expoChars, Exponent.render, List.cons_append, expoF]
      rw [scan_cons_some std st .expoSign e.letter _ m f (hL _ h1), hmL _ _ h1]
      have := scan_exponent e.sign e.digits r (m + 1) f h2 h3 h4 hr
      rw [this]
      cases e.sign <;> simp [signChars] <;> omega
  rw [List.append_assoc, List.append_assoc, scan_run sI p g hI hmI hgg ip _ n f hip]
  cases frac with
  | none =>
    simp only [fracChars, fracDigits, List.nil_append, List.length_nil, Nat.add_zero, List.append_nil]
    rw [expoTail sI _ _ hLI hmLI hsI]
    cases expo <;> simp [finalSt]
  | some fd =>
    obtain ⟨hd1, hd2⟩ := hdot rfl
    simp only [fracChars, fracDigits, List.cons_append, List.length_cons]
    rw [scan_cons_some std sI sF '.' _ _ _ hd1, hd2, scan_run sF p g hF hmF hgg fd _ _ _ hfr,
      afterRun_append g hgg, expoTail sF _ _ hLF hmLF hsF]
    cases expo <;> simp [finalSt] <;> omega

theorem zeroPrefix_std (l : List Char) (n : Nat)
    (h : ∀ c, l.head? = some c → (c == 'x') = false ∧ (c == 'X') = false) :
    zeroPrefix std l n = (.int, n, l) := by
  cases l with
  | nil => simp [zeroPrefix]
  | cons c r => obtain ⟨h1, h2⟩ := h c rfl; simp [zeroPrefix, std, h1, h2]

/-- is the char after the token an (ASCII) letter -/
def headAlpha : List Char → Bool
  | [] => false
  | c :: _ => isAlpha c

theorem finish_std (st : St) (n : Nat) (r : List Char) (mal : Bool) :
    finish std st n r mal = ⟨if st = .int ∨ st = .hex then .TkInt else .TkFloat, n, mal || headAlpha r⟩ := by
  cases r with
  | nil => simp [finish, std, headAlpha]
  | cons c r => simp [finish, std, headAlpha]

theorem hasDigit_ne_nil (ip : List Char) (frac : Option (List Char)) (h : hasDigit ip frac = true) :
    ip ++ fracDigits frac ≠ [] := by
  cases frac with
  | none => simp [hasDigit, fracDigits] at h ⊢; exact h
  | some f =>
    simp only [hasDigit, Bool.or_eq_true, Bool.not_eq_true', List.isEmpty_eq_false_iff] at h
    simp only [fracDigits]
    intro hc
    simp only [List.append_eq_nil_iff] at hc
    rcases h with h | h
    · exact h hc.1
    · exact h hc.2

/-- a complete numeral is not malformed -/
theorem not_malformed (isHex : Bool) (sI sF : St) (g : Flags → Flags) (ds : List Char)
    (frac : Option (List Char)) (expo : Option Exponent) (hsI : sI ≠ .expo) (hsF : sF ≠ .expo)
    (hm : isHex = true → (afterRun g ds ⟨false, false⟩).mant = true) :
    malformed isHex (finalSt sI sF frac expo) (expoF expo (afterRun g ds ⟨false, false⟩)) = false := by
  have hmant : (isHex && !(expoF expo (afterRun g ds ⟨false, false⟩)).mant) = false := by
    cases isHex with
    | false => rfl
    | true => cases expo <;> simp [expoF, setExp, hm rfl]
  unfold malformed
  rw [hmant]
  cases expo <;> cases frac <;> simp [finalSt, expoF, setExp, hsI, hsF]

/-! ### The whole numeral -/

theorem letter_dec_int (c : Char) (h : isExpoLetter false c = true) : step std .int c = some .expoSign := by
  simp only [isExpoLetter, Bool.false_eq_true, if_false, Bool.or_eq_true, beq_iff_eq] at h
  rcases h with h | h <;> subst h <;> decide
theorem letter_dec_float (c : Char) (h : isExpoLetter false c = true) : step std .float c = some .expoSign := by
  simp only [isExpoLetter, Bool.false_eq_true, if_false, Bool.or_eq_true, beq_iff_eq] at h
  rcases h with h | h <;> subst h <;> decide
theorem letter_hex_int (c : Char) (h : isExpoLetter true c = true) : step std .hex c = some .expoSign := by
  simp only [isExpoLetter, if_true, Bool.or_eq_true, beq_iff_eq] at h
  rcases h with h | h <;> subst h <;> decide
theorem letter_hex_float (c : Char) (h : isExpoLetter true c = true) : step std .hexFloat c = some .expoSign := by
  simp only [isExpoLetter, if_true, Bool.or_eq_true, beq_iff_eq] at h
  rcases h with h | h <;> subst h <;> decide

theorem letter_not_hexdigit (c : Char) (h : isExpoLetter true c = true) : isHexDigit c = false := by
  simp only [isExpoLetter, if_true, Bool.or_eq_true, beq_iff_eq] at h
  rcases h with h | h <;> subst h <;> decide

theorem expoOk_of_wf (hex : Bool) (expo : Option Exponent) (h : expoWf hex expo = true) :
    ExpoOk (isExpoLetter hex) expo := by
  cases expo with
  | none => trivial
  | some e =>
    simp only [expoWf, Exponent.wf, Bool.and_eq_true, Bool.not_eq_true', List.isEmpty_eq_false_iff] at h
    exact ⟨h.1.1.1, h.1.1.2, h.1.2, h.2⟩

/-- what the lexer should answer on a numeral of the manual's grammar -/
def expected (n : Numeral) (err : Bool) : Out :=
  ⟨if n.isFloat then .TkFloat else .TkInt, n.render.length, err⟩

theorem kind_of_final (sI sF : St) (frac : Option (List Char)) (expo : Option Exponent)
    (hI : sI = .int ∨ sI = .hex) (hF : sF = .float ∨ sF = .hexFloat) :
    (if finalSt sI sF frac expo = .int ∨ finalSt sI sF frac expo = .hex then Kind.TkInt else Kind.TkFloat) =
      (if (frac.isSome || expo.isSome) = true then Kind.TkFloat else Kind.TkInt) := by
  cases expo <;> cases frac <;> rcases hI with rfl | rfl <;> rcases hF with rfl | rfl <;> simp [finalSt]

theorem head_not_x (ds : List Char) (frac : Option (List Char)) (expo : Option Exponent) (r : List Char)
    (hds : ds.all isDigit = true) (hex : ExpoOk (isExpoLetter false) expo) (hr : Halt r) :
    ∀ c, (ds ++ fracChars frac ++ expoChars expo ++ r).head? = some c → (c == 'x') = false ∧ (c == 'X') = false := by
  intro c hc
  cases ds with
  | cons d ds =>
    simp only [List.all_cons, Bool.and_eq_true] at hds
    simp at hc; subst hc; exact digit_not_x hds.1
  | nil =>
    cases frac with
    | some f => simp [fracChars] at hc; subst hc; decide
    | none =>
      cases expo with
      | some e =>
        simp [fracChars, expoChars, Exponent.render] at hc; subst hc
        have := hex.1
        simp only [isExpoLetter, Bool.false_eq_true, if_false, Bool.or_eq_true, beq_iff_eq] at this
        rcases this with h | h <;> rw [h] <;> decide
      | none =>
        cases r with
        | nil => simp [fracChars, expoChars] at hc
        | cons c' r' =>
          simp [fracChars, expoChars] at hc; subst hc
          exact hr.2

/-- **Core.** On a numeral of the manual's grammar followed by anything that does not continue it,
`lex_number` at the PUC-Rio levels produces one token spanning exactly the numeral, of kind Float iff it has
a radix point or an exponent; an error is pushed iff the next char is a letter. -/
theorem lex_numeral (n : Numeral) (hwf : n.wf = true) (r : List Char) (hr : Halt r) :
    lexNumber std (n.render ++ r) = some (expected n (headAlpha r)) := by
  obtain ⟨hex, ip, frac, expo⟩ := n
  simp only [Numeral.wf, Bool.and_eq_true] at hwf
  obtain ⟨⟨⟨⟨h1, h2⟩, h3⟩, h4⟩, h5⟩ := hwf
  cases hex with
  | some x =>
    simp only [Option.isSome_some, if_true] at h2 h3 h5
    have hx : (x == 'x' || x == 'X') = true := h1
    have hm := scan_mantissa .hex .hexFloat isHexDigit (isExpoLetter true) setMant step_hex_digit step_hexFloat_digit
      mark_hex_digit mark_hexFloat_digit setMant_idem letter_hex_int letter_hex_float
      (fun c f h => mark_hex_other c f (letter_not_hexdigit c h))
      (fun c f h => mark_hexFloat_other c f (letter_not_hexdigit c h)) (by decide) (by decide) ip frac expo r 2
      ⟨false, false⟩ (fun _ => ⟨by decide, fun f => mark_hex_other '.' f (by decide)⟩) h2 h3
      (expoOk_of_wf true expo h5) hr
    have hnm := not_malformed true .hex .hexFloat setMant (ip ++ fracDigits frac) frac expo (by decide) (by decide)
      (fun _ => by
        have := hasDigit_ne_nil ip frac h4
        cases hds : ip ++ fracDigits frac with
        | nil => exact absurd hds this
        | cons a b => simp [afterRun, setMant])
    simp only [Numeral.render, hexChars, List.cons_append, List.nil_append, List.append_assoc, lexNumber,
      beq_self_eq_true, if_true, zeroPrefix, hx]
    simp only [List.append_assoc] at hm
    rw [hm]
    simp only [decide_true, hnm, Bool.false_or]
    simp only [finish_std, expected, Numeral.isFloat, Numeral.render, hexChars,
      kind_of_final .hex .hexFloat frac expo (Or.inr rfl) (Or.inr rfl)]
    simp only [List.length_append, List.length_cons, List.length_nil, Option.some.injEq, Out.mk.injEq, true_and, and_true]
    first | omega | rfl | (simp; done) | (simp; omega)
  | none =>
    simp only [Option.isSome_none, Bool.false_eq_true, if_false] at h2 h3 h5
    have hE := expoOk_of_wf false expo h5
    cases ip with
    | nil =>
      cases frac with
      | none => simp [hasDigit] at h4
      | some f =>
        cases f with
        | nil => simp [hasDigit] at h4
        | cons d fs =>
          have hm := scan_mantissa .float .float isDigit (isExpoLetter false) id step_float_digit step_float_digit
            (fun c f _ => mark_float c f) (fun c f _ => mark_float c f) (fun _ => rfl)
            letter_dec_float letter_dec_float (fun c f _ => mark_float c f) (fun c f _ => mark_float c f)
            (by decide) (by decide) (d :: fs) none expo r 1 ⟨false, false⟩
            (fun h => by simp at h) h3 rfl hE hr
          have hnm := not_malformed false .float .float id (d :: (fs ++ fracDigits none)) none expo (by decide)
            (by decide) (fun h => by cases h)
          simp only [fracChars, List.append_nil, List.append_assoc] at hm
          simp only [Numeral.render, hexChars, fracChars, List.cons_append, List.nil_append, List.append_assoc,
            lexNumber]
          have e1 : ('.' == '0') = false := by decide
          simp only [e1, Bool.false_eq_true, if_false, beq_self_eq_true, if_true]
          simp only [List.cons_append] at hm
          rw [hm]
          have hdec : decide (St.float = St.hex) = false := by decide
          simp only [hdec, hnm, Bool.false_or]
          simp only [finish_std, expected, Numeral.isFloat, Numeral.render, hexChars, fracChars]
          have hk : (if finalSt .float .float none expo = .int ∨ finalSt .float .float none expo = .hex then Kind.TkInt
              else Kind.TkFloat) = Kind.TkFloat := by cases expo <;> simp [finalSt]
          simp only [hk, Option.isSome_some, Bool.true_or, if_true, List.length_append, List.length_cons,
            List.length_nil, List.nil_append, Option.some.injEq, Out.mk.injEq, true_and, and_true]
          first | omega | rfl | (simp; done) | (simp; omega)
    | cons d ds =>
      simp only [List.all_cons, Bool.and_eq_true] at h2
      have hm := scan_mantissa .int .float isDigit (isExpoLetter false) id step_int_digit step_float_digit
        (fun c f _ => mark_int c f) (fun c f _ => mark_float c f) (fun _ => rfl)
        letter_dec_int letter_dec_float (fun c f _ => mark_int c f) (fun c f _ => mark_float c f)
        (by decide) (by decide) ds frac expo r 1 ⟨false, false⟩
        (fun _ => ⟨by decide, fun f => mark_int '.' f⟩) h2.2 h3 hE hr
      have hnm := not_malformed false .int .float id (ds ++ fracDigits frac) frac expo (by decide) (by decide)
        (fun h => by cases h)
      have hstart : (if (d == '0') = true then zeroPrefix std (ds ++ fracChars frac ++ expoChars expo ++ r) 1
          else if (d == '.') = true then (St.float, 1, ds ++ fracChars frac ++ expoChars expo ++ r)
          else (St.int, 1, ds ++ fracChars frac ++ expoChars expo ++ r)) =
          (St.int, 1, ds ++ fracChars frac ++ expoChars expo ++ r) := by
        have hdot : (d == '.') = false := by
          cases hc : d == '.' with
          | false => rfl
          | true => have : d = '.' := by simpa using hc
                    subst this; exact absurd h2.1 (by decide)
        rw [zeroPrefix_std _ _ (head_not_x ds frac expo r h2.2 hE hr)]
        simp [hdot]
      simp only [Numeral.render, hexChars, List.cons_append, List.nil_append, lexNumber]
      simp only [List.append_assoc] at hstart hm ⊢
      rw [hstart]
      simp only []
      rw [hm]
      have hdec : decide (St.int = St.hex) = false := by decide
      simp only [hdec, hnm, Bool.false_or]
      simp only [finish_std, expected, Numeral.isFloat, Numeral.render, hexChars,
        kind_of_final .int .float frac expo (Or.inl rfl) (Or.inl rfl)]
      simp only [List.length_append, List.length_cons, List.length_nil, List.nil_append, Option.some.injEq,
        Out.mk.injEq, true_and, and_true]
      first | omega | rfl | (simp; done) | (simp; omega)

end NumLex
