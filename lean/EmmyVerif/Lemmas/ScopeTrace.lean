import EmmyVerif.Lemmas.ScopeGood
import EmmyVerif.Lemmas.ScopeRange
/-!
# Scope lemmas 9 — the open scopes at every lookup are the path `find_scope` takes

The model of the walk (`Model/Scope`) performs `find_local_decl` from its innermost open scope. Here the
instrumented walk (`ISt.trace`: position and open scopes of every lookup) is compared with `find_scope`
(`pathTree`) on the complete ranged scope tree of the chunk (`chunkTree`): they agree at every lookup.
So "`find_scope(position)` is the innermost open scope" is a theorem about the model, not an assumption.
-/
namespace Scope

def baseOf (fs : List Frame) : List (Kind × Nat) := fs.map fun f => (f.kind, f.start)

theorem baseOf_addKids (cs : List Node) (fs : List Frame) : baseOf (addKids cs fs) = baseOf fs := by
  cases fs <;> simp [addKids, baseOf]

@[simp] theorem push_trace (s : ISt) (k : Kind) (st : Nat) : (s.push k st).trace = s.trace := rfl
@[simp] theorem skip_trace (s : ISt) (t : Nat) : (s.skip t).trace = s.trace := rfl
@[simp] theorem addDecl_trace (s : ISt) (d : Decl) : (s.addDecl d).trace = s.trace := rfl
@[simp] theorem useSelf_trace (s : ISt) : s.useSelf.trace = s.trace := rfl
@[simp] theorem use_trace (s : ISt) (n : Name) : (s.use n).trace = (s.pos, baseOf s.frames) :: s.trace := rfl
@[simp] theorem logLookup_trace (s : ISt) (p : Nat) : (s.logLookup p).trace = (p, baseOf s.frames) :: s.trace := rfl
@[simp] theorem pop_trace (s : ISt) : s.pop.trace = s.trace := by
  unfold ISt.pop; split <;> rfl

/-! ### `find_scope` on forests -/

theorem pathForest_none (F : List RTree) (q : Nat) (h : ∀ t ∈ F, t.has q = false) : pathForest F q = [] := by
  induction F with
  | nil => rfl
  | cons t ts ih =>
    simp only [pathForest, h t (by simp), Bool.false_eq_true, if_false]
    exact ih (fun t ht => h t (by simp [ht]))

theorem pathForest_append_right_none (A B : List RTree) (q : Nat) (h : ∀ t ∈ B, t.has q = false) :
    pathForest (A ++ B) q = pathForest A q := by
  induction A with
  | nil => simpa [pathForest] using pathForest_none B q h
  | cons t ts ih =>
    simp only [List.cons_append, pathForest, ih]

theorem pathForest_append_left_none (A B : List RTree) (q : Nat) (h : ∀ t ∈ A, t.has q = false) :
    pathForest (A ++ B) q = pathForest B q := by
  induction A with
  | nil => rfl
  | cons t ts ih =>
    simp only [List.cons_append, pathForest, h t (by simp), Bool.false_eq_true, if_false]
    exact ih (fun t ht => h t (by simp [ht]))

theorem has_false_of_lt {t : RTree} {q : Nat} (h : q < t.start) : t.has q = false := by
  cases t with
  | node k s e cs =>
    simp only [RTree.start] at h
    have : ¬ s ≤ q := by omega
    simp [RTree.has, RTree.start, this]

theorem has_false_of_ge {t : RTree} {q : Nat} (h : t.stop ≤ q) : t.has q = false := by
  cases t with
  | node k s e cs =>
    simp only [RTree.stop] at h
    have : ¬ q < e := by omega
    simp [RTree.has, RTree.stop, this]

/-! ### Runs of the instrumented walk -/

/-- The walk from `s` to `s'` consumed `n` tokens, left the open scopes as they were (plus closed
children), created the scope forest `F`, and at each of its lookups the open scopes were the scopes
open at `s` plus the path `find_scope` takes through `F`. -/
structure Run (s s' : ISt) (F : List RTree) (n : Nat) : Prop where
  pos : s'.pos = s.pos + 2 * n
  frames : ∃ cs, s'.frames = addKids cs s.frames
  forest : ∀ t ∈ F, s.pos ≤ t.start + 1 ∧ t.stop ≤ s'.pos
  trace : ∃ new, s'.trace = new ++ s.trace ∧
    ∀ e ∈ new, s.pos ≤ e.1 ∧ e.1 + 2 ≤ s'.pos ∧ e.2 = (pathForest F e.1).reverse ++ baseOf s.frames

theorem Run.base {s s' : ISt} {F : List RTree} {n : Nat} (r : Run s s' F n) : baseOf s'.frames = baseOf s.frames := by
  obtain ⟨cs, h⟩ := r.frames
  rw [h, baseOf_addKids]

theorem Run.refl (s : ISt) : Run s s [] 0 :=
  ⟨rfl, ⟨[], by simp⟩, fun _ h => (by cases h), ⟨[], rfl, fun _ h => (by cases h)⟩⟩

/-- steps that neither look anything up nor move: declarations added to the innermost scope -/
theorem Run.silent {s s' : ISt} (hp : s'.pos = s.pos) (ht : s'.trace = s.trace) (hf : ∃ cs, s'.frames = addKids cs s.frames) :
    Run s s' [] 0 :=
  ⟨by simpa using hp, hf, fun _ h => (by cases h), ⟨[], by simpa using ht, fun _ h => (by cases h)⟩⟩

theorem Run.skip (s : ISt) (t : Nat) : Run s (s.skip t) [] t :=
  ⟨rfl, ⟨[], by simp⟩, fun _ h => (by cases h), ⟨[], rfl, fun _ h => (by cases h)⟩⟩

theorem Run.use (s : ISt) (n : Name) : Run s (s.use n) [] 1 :=
  ⟨rfl, ⟨[], by simp⟩, fun _ h => (by cases h),
   ⟨[(s.pos, baseOf s.frames)], rfl, fun e he => by
      simp only [List.mem_singleton] at he; subst he; simp [pathForest]⟩⟩

theorem Run.useSelf (s : ISt) : Run s s.useSelf [] 1 :=
  ⟨rfl, ⟨[], by simp⟩, fun _ h => (by cases h), ⟨[], rfl, fun _ h => (by cases h)⟩⟩

theorem Run.seq {s s1 s2 : ISt} {F1 F2 : List RTree} {n1 n2 : Nat} (a : Run s s1 F1 n1) (b : Run s1 s2 F2 n2) :
    Run s s2 (F1 ++ F2) (n1 + n2) := by
  obtain ⟨cs1, h1⟩ := a.frames
  obtain ⟨cs2, h2⟩ := b.frames
  obtain ⟨new1, t1, e1⟩ := a.trace
  obtain ⟨new2, t2, e2⟩ := b.trace
  have hp1 := a.pos
  have hp2 := b.pos
  refine ⟨by omega, ⟨cs2 ++ cs1, by rw [h2, h1, addKids_addKids]⟩, ?_, ⟨new2 ++ new1, by rw [t2, t1, List.append_assoc], ?_⟩⟩
  · intro t ht
    rcases List.mem_append.mp ht with ht | ht
    · have := a.forest t ht; omega
    · have := b.forest t ht; omega
  · intro e he
    rcases List.mem_append.mp he with he | he
    · obtain ⟨x1, x2, x3⟩ := e2 e he
      refine ⟨by omega, x2, ?_⟩
      rw [x3, a.base, pathForest_append_left_none F1 F2 e.1
        (fun t ht => has_false_of_ge (by have := (a.forest t ht).2; omega))]
    · obtain ⟨x1, x2, x3⟩ := e1 e he
      refine ⟨x1, by omega, ?_⟩
      rw [x3, pathForest_append_right_none F1 F2 e.1
        (fun t ht => has_false_of_lt (by have := (b.forest t ht).1; omega))]

/-- change the presentation of the forest / token count -/
theorem Run.cast {s s' : ISt} {F F' : List RTree} {n n' : Nat} (r : Run s s' F n) (hF : F = F') (hn : n = n') :
    Run s s' F' n' := by subst hF; subst hn; exact r

/-- a scope is opened, the walk runs inside it, the scope is closed -/
theorem Run.node {s sOut : ISt} {k : Kind} {st stop : Nat} {F : List RTree} {n : Nat}
    (inner : Run (s.push k st) sOut F n) (h1 : st ≤ s.pos) (h2 : s.pos ≤ st + 1)
    (h3 : stop ≤ sOut.pos) (h4 : sOut.pos ≤ stop + 1) :
    Run s sOut.pop [.node k st stop F] n := by
  obtain ⟨cs, hf⟩ := inner.frames
  obtain ⟨new, tr, en⟩ := inner.trace
  have hp := inner.pos
  simp only [push_pos] at hp
  simp only [push_frames, addKids] at hf
  refine ⟨by simpa using hp, ⟨_, pop_frames sOut _ _ hf⟩, ?_, ⟨new, by simpa using tr, ?_⟩⟩
  · intro t ht
    simp only [List.mem_singleton] at ht; subst ht
    simp only [RTree.start, RTree.stop, pop_pos]
    omega
  · intro e he
    obtain ⟨x1, x2, x3⟩ := en e he
    simp only [push_pos, push_frames] at x1 x2 x3
    refine ⟨x1, by simpa using x2, ?_⟩
    have hhas : (RTree.node k st stop F).has e.1 = true := by
      have a : st ≤ e.1 := by omega
      have b : e.1 < stop := by omega
      simp [RTree.has, RTree.start, RTree.stop, a, b]
    rw [x3]
    simp only [pathForest, hhas, if_true, pathTree, baseOf, List.map_cons, List.reverse_cons, List.append_assoc,
      List.singleton_append]

/-! ### Steps of the walk -/

theorem addLocals_trace (ns : List Name) : ∀ (s : ISt) (p : Nat), (s.addLocals p ns).trace = s.trace := by
  induction ns with
  | nil => intro s p; rfl
  | cons n ns ih => intro s p; simp only [ISt.addLocals]; rw [ih]; rfl

theorem Run.addDecl (s : ISt) (d : Decl) : Run s (s.addDecl d) [] 0 :=
  Run.silent rfl rfl ⟨_, addDecl_frames s d⟩

theorem Run.addLocals (s : ISt) (p : Nat) (ns : List Name) : Run s (s.addLocals p ns) [] 0 :=
  Run.silent (addLocals_spec ns s p).1 (addLocals_trace ns s p) ⟨_, (addLocals_spec ns s p).2.2⟩

theorem Run.addImplicitSelf (s : ISt) (colon : Bool) (p : Nat) : Run s (s.addImplicitSelf colon p) [] 0 := by
  cases colon
  · exact Run.refl s
  · exact Run.addDecl s _

/-- lookups made while the position stands still (on entering an assignment / function statement) -/
structure Pre (s s' : ISt) (lo hi : Nat) : Prop where
  pos : s'.pos = s.pos
  frames : ∃ cs, s'.frames = addKids cs s.frames
  trace : ∃ new, s'.trace = new ++ s.trace ∧ ∀ e ∈ new, lo ≤ e.1 ∧ e.1 + 2 ≤ hi ∧ e.2 = baseOf s.frames

theorem declareGlobals_pre (vars : List Name) : ∀ (s : ISt) (p : Nat),
    Pre s (s.declareGlobals p vars).1 p (p + 2 * vars.length) ∧ (s.declareGlobals p vars).2.length = vars.length := by
  induction vars with
  | nil => intro s p; exact ⟨⟨rfl, ⟨[], by simp [ISt.declareGlobals]⟩, ⟨[], rfl, fun _ h => (by cases h)⟩⟩, rfl⟩
  | cons v vs ih =>
    intro s p
    simp only [ISt.declareGlobals]
    -- both branches continue from a state with the same position, trace and open scopes
    have key : ∀ s1 : ISt, s1.pos = s.pos → (∃ cs, s1.frames = addKids cs s.frames) →
        s1.trace = (p, baseOf s.frames) :: s.trace →
        Pre s (s1.declareGlobals (p + 2) vs).1 p (p + 2 * (v :: vs).length) ∧
          (s1.declareGlobals (p + 2) vs).2.length = vs.length := by
      intro s1 hp hf ht
      obtain ⟨⟨i1, ⟨cs2, i2⟩, ⟨new, i3, i4⟩⟩, i5⟩ := ih s1 (p + 2)
      obtain ⟨cs1, hf⟩ := hf
      refine ⟨⟨by rw [i1, hp], ⟨cs2 ++ cs1, by rw [i2, hf, addKids_addKids]⟩,
        ⟨new ++ [(p, baseOf s.frames)], by rw [i3, ht]; simp, ?_⟩⟩, i5⟩
      intro e he
      rcases List.mem_append.mp he with he | he
      · obtain ⟨x1, x2, x3⟩ := i4 e he
        refine ⟨by omega, by simp only [List.length_cons]; omega, ?_⟩
        rw [x3, hf, baseOf_addKids]
      · simp only [List.mem_singleton] at he; subst he
        exact ⟨Nat.le_refl _, by simp only [List.length_cons]; omega, rfl⟩
    cases findDecl s.frames v p with
    | some d =>
      obtain ⟨a, b⟩ := key (s.logLookup p) rfl ⟨[], by simp⟩ rfl
      exact ⟨a, by simp [b]⟩
    | none =>
      obtain ⟨a, b⟩ := key ((s.logLookup p).addDecl { name := v, pos := p, isLocal := false }) rfl
        ⟨[.decl { name := v, pos := p, isLocal := false }], by simp⟩ rfl
      exact ⟨a, by simp [b]⟩

theorem useVars_run (vars : List Name) : ∀ (s : ISt) (flags : List Bool), flags.length = vars.length →
    Run s (s.useVars vars flags) [] vars.length := by
  induction vars with
  | nil => intro s flags _; cases flags <;> exact Run.refl s
  | cons v vs ih =>
    intro s flags hl
    cases flags with
    | nil => simp at hl
    | cons b bs =>
      simp only [ISt.useVars]
      have hl' : bs.length = vs.length := by simpa using hl
      cases b
      · exact ((Run.use s v).seq (ih _ bs hl')).cast (by simp) (by simp only [List.length_cons]; omega)
      · exact ((Run.useSelf s).seq (ih _ bs hl')).cast (by simp) (by simp only [List.length_cons]; omega)

/-- lookups at a standing position followed by a run that moves past them -/
theorem Pre.then {s s1 s2 : ISt} {lo hi n : Nat} (a : Pre s s1 lo hi) (b : Run s1 s2 [] n)
    (h1 : s.pos ≤ lo) (h2 : hi ≤ s2.pos) : Run s s2 [] n := by
  obtain ⟨cs1, hf1⟩ := a.frames
  obtain ⟨cs2, hf2⟩ := b.frames
  obtain ⟨new1, t1, e1⟩ := a.trace
  obtain ⟨new2, t2, e2⟩ := b.trace
  have hb : baseOf s1.frames = baseOf s.frames := by rw [hf1, baseOf_addKids]
  refine ⟨by rw [b.pos, a.pos], ⟨cs2 ++ cs1, by rw [hf2, hf1, addKids_addKids]⟩, fun _ h => (by cases h),
    ⟨new2 ++ new1, by rw [t2, t1, List.append_assoc], ?_⟩⟩
  intro e he
  rcases List.mem_append.mp he with he | he
  · obtain ⟨x1, x2, x3⟩ := e2 e he
    exact ⟨by rw [← a.pos]; exact x1, x2, by rw [x3, hb]⟩
  · obtain ⟨x1, x2, x3⟩ := e1 e he
    exact ⟨by omega, by omega, by rw [x3]; simp [pathForest]⟩

/-! ### The whole walk -/

/-- a closure scope: parameters (and `self`), the body block, `end` -/
theorem run_closure {s0 s1 s2 : ISt} {cst : Nat} {Fb : List RTree} {a nb : Nat}
    (h0 : Run (s0.push .closure cst) s1 [] a) (hcst : cst = s0.pos) (hb : Run s1 s2 Fb nb) :
    Run s0 ((s2.skip 1).pop) [.node .closure cst (s0.pos + 2 * (a + nb + 1) - 1) Fb] (a + nb + 1) := by
  have r := (h0.seq hb).seq (Run.skip s2 1)
  have hp := r.pos
  simp only [push_pos] at hp
  exact (Run.node (stop := s0.pos + 2 * (a + nb + 1) - 1) (r.cast (by simp) rfl) (by omega) (by omega)
    (by omega) (by omega))

mutual
theorem runExpr : ∀ (e : Expr) (s : ISt), Run s (implExpr s e) (scopesExpr s.pos e) (sizeExpr e)
  | .name n, s => by simp only [implExpr, scopesExpr, sizeExpr]; exact Run.use s n
  | .lit, s => by simp only [implExpr, scopesExpr, sizeExpr]; exact Run.skip s 1
  | .call f args, s => by
    simp only [implExpr, scopesExpr, sizeExpr]
    have ra := runExprs args ((s.use f).skip 1)
    have hp : ((s.use f).skip 1).pos = s.pos + 4 := by simp
    rw [hp] at ra
    exact ((((Run.use s f).seq (Run.skip _ 1)).seq ra).seq (Run.skip _ 1)).cast (by simp) (by omega)
  | .func ps body, s => by
    simp only [implExpr, scopesExpr, sizeExpr]
    have h0 : Run (s.push .closure s.pos) (((s.push .closure s.pos).addLocals (s.pos + 4) ps).skip (3 + ps.length)) []
        (3 + ps.length) := ((Run.addLocals _ _ ps).seq (Run.skip _ _)).cast rfl (by omega)
    have rb := runBlock body (((s.push .closure s.pos).addLocals (s.pos + 4) ps).skip (3 + ps.length))
    have hp : (((s.push .closure s.pos).addLocals (s.pos + 4) ps).skip (3 + ps.length)).pos = s.pos + 2 * (3 + ps.length) := by
      simp [(addLocals_spec ps _ _).1]
    rw [hp] at rb
    exact (run_closure h0 rfl rb).cast (by congr 2; omega) (by omega)
theorem runExprs : ∀ (es : List Expr) (s : ISt), Run s (implExprs s es) (scopesExprs s.pos es) (sizeExprs es)
  | [], s => by simp only [implExprs, scopesExprs, sizeExprs]; exact Run.refl s
  | e :: es, s => by
    simp only [implExprs, scopesExprs, sizeExprs]
    have a := runExpr e s
    have b := runExprs es (implExpr s e)
    rw [a.pos] at b
    exact a.seq b
theorem runStat : ∀ (st : Stat) (s : ISt), Run s (implStat s st) (scopesStat s.pos st) (sizeStat st)
  | .locl names vals, s => by
    simp only [implStat, scopesStat]
    have h0 : Run (s.push .localOrAssign s.pos)
        (((s.push .localOrAssign s.pos).addLocals (s.pos + 2) names).skip (1 + names.length + eqTokens vals)) []
        (1 + names.length + eqTokens vals) := ((Run.addLocals _ _ names).seq (Run.skip _ _)).cast rfl (by omega)
    have rv := runExprs vals (((s.push .localOrAssign s.pos).addLocals (s.pos + 2) names).skip (1 + names.length + eqTokens vals))
    have hp : (((s.push .localOrAssign s.pos).addLocals (s.pos + 2) names).skip (1 + names.length + eqTokens vals)).pos
        = s.pos + 2 * (1 + names.length + eqTokens vals) := by simp [(addLocals_spec names _ _).1]
    rw [hp] at rv
    have r := h0.seq rv
    have hq := r.pos
    simp only [push_pos] at hq
    exact (Run.node (r.cast (by simp) rfl) (Nat.le_refl _) (by omega) (by simp only [sizeStat] <;> omega)
      (by simp only [sizeStat] <;> omega)).cast rfl (by simp only [sizeStat])
  | .assign vars vals, s => by
    simp only [implStat, scopesStat]
    obtain ⟨pre, hl⟩ := declareGlobals_pre vars (s.push .localOrAssign s.pos) s.pos
    have ru := useVars_run vars ((s.push .localOrAssign s.pos).declareGlobals s.pos vars).1
      ((s.push .localOrAssign s.pos).declareGlobals s.pos vars).2 hl
    have h0 : Run (s.push .localOrAssign s.pos) _ [] vars.length :=
      pre.then ru (by simp) (by rw [ru.pos, pre.pos]; simp)
    have h1 := h0.seq (Run.skip _ 1)
    have hp := h1.pos
    simp only [push_pos] at hp
    have rv := runExprs vals ((((s.push .localOrAssign s.pos).declareGlobals s.pos vars).1.useVars vars
      ((s.push .localOrAssign s.pos).declareGlobals s.pos vars).2).skip 1)
    rw [hp] at rv
    have r := h1.seq rv
    have hq := r.pos
    simp only [push_pos] at hq
    exact (Run.node (r.cast (by simp) rfl) (Nat.le_refl _) (by omega) (by simp only [sizeStat] <;> omega)
      (by simp only [sizeStat] <;> omega)).cast rfl (by simp only [sizeStat] <;> omega)
  | .localFunc n ps body, s => by
    simp only [implStat, scopesStat]
    have pre : Run (s.push .funcStat s.pos) (((s.push .funcStat s.pos).addDecl { name := n, pos := s.pos + 4, isLocal := true }).skip 3) [] 3 :=
      ((Run.addDecl _ _).seq (Run.skip _ 3)).cast rfl (by omega)
    have h0 : Run ((((s.push .funcStat s.pos).addDecl { name := n, pos := s.pos + 4, isLocal := true }).skip 3).push .closure (s.pos + 6))
        ((((((s.push .funcStat s.pos).addDecl { name := n, pos := s.pos + 4, isLocal := true }).skip 3).push .closure (s.pos + 6)).addLocals
          (s.pos + 8) ps).skip (2 + ps.length)) [] (2 + ps.length) :=
      ((Run.addLocals _ _ ps).seq (Run.skip _ _)).cast rfl (by omega)
    have rb := runBlock body ((((((s.push .funcStat s.pos).addDecl { name := n, pos := s.pos + 4, isLocal := true }).skip 3).push .closure
      (s.pos + 6)).addLocals (s.pos + 8) ps).skip (2 + ps.length))
    have hp : ((((((s.push .funcStat s.pos).addDecl { name := n, pos := s.pos + 4, isLocal := true }).skip 3).push .closure
      (s.pos + 6)).addLocals (s.pos + 8) ps).skip (2 + ps.length)).pos = s.pos + 2 * (5 + ps.length) := by
      simp [(addLocals_spec ps _ _).1]; omega
    rw [hp] at rb
    have rc := (run_closure h0 (by simp) rb).cast
      (F' := [.node .closure (s.pos + 6) (s.pos + 2 * sizeStat (.localFunc n ps body) - 1) (scopesBlock (s.pos + 2 * (5 + ps.length)) body)])
      (by congr 2; simp only [sizeStat, skip_pos, addDecl_pos, push_pos]; omega) rfl
    have r := pre.seq rc
    have hq := r.pos
    simp only [push_pos] at hq
    exact (Run.node (r.cast (by simp) rfl) (Nat.le_refl _) (by omega) (by simp only [sizeStat] <;> omega)
      (by simp only [sizeStat] <;> omega)).cast rfl (by simp only [sizeStat] <;> omega)
  | .funcStat n ps body, s => by
    simp only [implStat, scopesStat]
    obtain ⟨pre0, hl⟩ := declareGlobals_pre [n] (s.push .funcStat s.pos) (s.pos + 2)
    have ru := (Run.skip ((s.push .funcStat s.pos).declareGlobals (s.pos + 2) [n]).1 1).seq
      (useVars_run [n] (((s.push .funcStat s.pos).declareGlobals (s.pos + 2) [n]).1.skip 1)
        ((s.push .funcStat s.pos).declareGlobals (s.pos + 2) [n]).2 hl)
    have pre : Run (s.push .funcStat s.pos) _ [] (1 + [n].length) :=
      pre0.then (ru.cast (by simp) rfl) (by simp) (by rw [ru.pos, pre0.pos]; simp)
    have hp1 := pre.pos
    simp only [push_pos, List.length_cons, List.length_nil] at hp1
    have h0 : Run (((((s.push .funcStat s.pos).declareGlobals (s.pos + 2) [n]).1.skip 1).useVars [n]
          ((s.push .funcStat s.pos).declareGlobals (s.pos + 2) [n]).2).push .closure (s.pos + 4))
        (((((((s.push .funcStat s.pos).declareGlobals (s.pos + 2) [n]).1.skip 1).useVars [n]
          ((s.push .funcStat s.pos).declareGlobals (s.pos + 2) [n]).2).push .closure (s.pos + 4)).addLocals (s.pos + 6) ps).skip
            (2 + ps.length)) [] (2 + ps.length) :=
      ((Run.addLocals _ _ ps).seq (Run.skip _ _)).cast rfl (by omega)
    have rb := runBlock body (((((((s.push .funcStat s.pos).declareGlobals (s.pos + 2) [n]).1.skip 1).useVars [n]
          ((s.push .funcStat s.pos).declareGlobals (s.pos + 2) [n]).2).push .closure (s.pos + 4)).addLocals (s.pos + 6) ps).skip
            (2 + ps.length))
    have hp : (((((((s.push .funcStat s.pos).declareGlobals (s.pos + 2) [n]).1.skip 1).useVars [n]
          ((s.push .funcStat s.pos).declareGlobals (s.pos + 2) [n]).2).push .closure (s.pos + 4)).addLocals (s.pos + 6) ps).skip
            (2 + ps.length)).pos = s.pos + 2 * (4 + ps.length) := by
      simp only [skip_pos, (addLocals_spec ps _ _).1, push_pos, hp1]; omega
    rw [hp] at rb
    have rc := (run_closure h0 (by first | (rw [hp1]; done) | (rw [hp1]; omega) | omega) rb).cast
      (F' := [.node .closure (s.pos + 4) (s.pos + 2 * sizeStat (.funcStat n ps body) - 1) (scopesBlock (s.pos + 2 * (4 + ps.length)) body)])
      (by congr 2; simp only [sizeStat, hp1]; omega) rfl
    have r := pre.seq rc
    have hq := r.pos
    simp only [push_pos, List.length_cons, List.length_nil] at hq
    exact (Run.node (r.cast (by simp) rfl) (Nat.le_refl _) (by omega) (by simp only [sizeStat] <;> omega)
      (by simp only [sizeStat] <;> omega)).cast rfl (by simp only [sizeStat, List.length_cons, List.length_nil] <;> omega)
  | .forNum v e1 e2 body, s => by
    simp only [implStat, scopesStat]
    have pre : Run (s.push .forRange s.pos) (((s.push .forRange s.pos).addDecl { name := v, pos := s.pos + 2, isLocal := true }).skip 3) [] 3 :=
      ((Run.addDecl _ _).seq (Run.skip _ 3)).cast rfl (by omega)
    have r1 := runExpr e1 (((s.push .forRange s.pos).addDecl { name := v, pos := s.pos + 2, isLocal := true }).skip 3)
    have hp1 : (((s.push .forRange s.pos).addDecl { name := v, pos := s.pos + 2, isLocal := true }).skip 3).pos = s.pos + 6 := by simp
    rw [hp1] at r1
    have a1 := pre.seq r1
    have r2 := runExpr e2 (implExpr (((s.push .forRange s.pos).addDecl { name := v, pos := s.pos + 2, isLocal := true }).skip 3) e1)
    have hp2 := a1.pos
    simp only [push_pos] at hp2
    rw [show (implExpr (((s.push .forRange s.pos).addDecl { name := v, pos := s.pos + 2, isLocal := true }).skip 3) e1).pos
        = s.pos + 6 + 2 * sizeExpr e1 by omega] at r2
    have a2 := (a1.seq r2).seq (Run.skip _ 1)
    have hp3 := a2.pos
    simp only [push_pos] at hp3
    have rb := runBlock body ((implExpr (implExpr (((s.push .forRange s.pos).addDecl { name := v, pos := s.pos + 2, isLocal := true }).skip 3) e1) e2).skip 1)
    rw [show ((implExpr (implExpr (((s.push .forRange s.pos).addDecl { name := v, pos := s.pos + 2, isLocal := true }).skip 3) e1) e2).skip 1).pos
        = s.pos + 8 + 2 * sizeExpr e1 + 2 * sizeExpr e2 by omega] at rb
    have r := (a2.seq rb).seq (Run.skip _ 1)
    have hq := r.pos
    simp only [push_pos] at hq
    exact (Run.node (r.cast (by simp) rfl) (Nat.le_refl _) (by omega) (by simp only [sizeStat] <;> omega)
      (by simp only [sizeStat] <;> omega)).cast rfl (by simp only [sizeStat] <;> omega)
  | .forIn vs e body, s => by
    simp only [implStat, scopesStat]
    have pre : Run (s.push .forRange s.pos) (((s.push .forRange s.pos).addLocals (s.pos + 2) vs).skip (2 + vs.length)) [] (2 + vs.length) :=
      ((Run.addLocals _ _ vs).seq (Run.skip _ _)).cast rfl (by omega)
    have hp1 := pre.pos
    simp only [push_pos] at hp1
    have r1 := runExpr e (((s.push .forRange s.pos).addLocals (s.pos + 2) vs).skip (2 + vs.length))
    rw [hp1] at r1
    have a2 := (pre.seq r1).seq (Run.skip _ 1)
    have hp3 := a2.pos
    simp only [push_pos] at hp3
    have rb := runBlock body ((implExpr (((s.push .forRange s.pos).addLocals (s.pos + 2) vs).skip (2 + vs.length)) e).skip 1)
    rw [show ((implExpr (((s.push .forRange s.pos).addLocals (s.pos + 2) vs).skip (2 + vs.length)) e).skip 1).pos
        = s.pos + 2 * (3 + vs.length) + 2 * sizeExpr e by omega] at rb
    have r := (a2.seq rb).seq (Run.skip _ 1)
    have hq := r.pos
    simp only [push_pos] at hq
    exact (Run.node (r.cast (by simp) rfl) (Nat.le_refl _) (by omega) (by simp only [sizeStat] <;> omega)
      (by simp only [sizeStat] <;> omega)).cast rfl (by simp only [sizeStat] <;> omega)
  | .while_ c body, s => by
    simp only [implStat, scopesStat, sizeStat]
    have r1 := runExpr c (s.skip 1)
    have hp1 : (s.skip 1).pos = s.pos + 2 := by simp
    rw [hp1] at r1
    have a2 := ((Run.skip s 1).seq r1).seq (Run.skip _ 1)
    have hp3 := a2.pos
    have rb := runBlock body ((implExpr (s.skip 1) c).skip 1)
    rw [show ((implExpr (s.skip 1) c).skip 1).pos = s.pos + 4 + 2 * sizeExpr c by omega] at rb
    exact ((a2.seq rb).seq (Run.skip _ 1)).cast (by simp) (by omega)
  | .repeat_ body c, s => by
    simp only [implStat, scopesStat]
    have rb := runBlock body ((s.push .repeat_ s.pos).skip 1)
    have hp1 : ((s.push .repeat_ s.pos).skip 1).pos = s.pos + 2 := by simp
    rw [hp1] at rb
    have a2 := ((Run.skip (s.push .repeat_ s.pos) 1).seq rb).seq (Run.skip _ 1)
    have hp3 := a2.pos
    simp only [push_pos] at hp3
    have rc := runExpr c ((implBlock ((s.push .repeat_ s.pos).skip 1) body).skip 1)
    rw [show ((implBlock ((s.push .repeat_ s.pos).skip 1) body).skip 1).pos = s.pos + 4 + 2 * sizeBlock body by omega] at rc
    have r := a2.seq rc
    have hq := r.pos
    simp only [push_pos] at hq
    exact (Run.node (r.cast (by simp) rfl) (Nat.le_refl _) (by omega) (by simp only [sizeStat] <;> omega)
      (by simp only [sizeStat] <;> omega)).cast rfl (by simp only [sizeStat] <;> omega)
  | .do_ body, s => by
    simp only [implStat, scopesStat, sizeStat]
    have rb := runBlock body (s.skip 1)
    have hp1 : (s.skip 1).pos = s.pos + 2 := by simp
    rw [hp1] at rb
    exact (((Run.skip s 1).seq rb).seq (Run.skip _ 1)).cast (by simp) (by omega)
  | .if_ c t e, s => by
    simp only [implStat, scopesStat, sizeStat]
    have r1 := runExpr c (s.skip 1)
    have hp1 : (s.skip 1).pos = s.pos + 2 := by simp
    rw [hp1] at r1
    have a2 := ((Run.skip s 1).seq r1).seq (Run.skip _ 1)
    have hp3 := a2.pos
    have rt := runBlock t ((implExpr (s.skip 1) c).skip 1)
    rw [show ((implExpr (s.skip 1) c).skip 1).pos = s.pos + 4 + 2 * sizeExpr c by omega] at rt
    have a3 := (a2.seq rt).seq (Run.skip _ 1)
    have hp4 := a3.pos
    have re := runBlock e ((implBlock ((implExpr (s.skip 1) c).skip 1) t).skip 1)
    rw [show ((implBlock ((implExpr (s.skip 1) c).skip 1) t).skip 1).pos = s.pos + 6 + 2 * sizeExpr c + 2 * sizeBlock t by omega] at re
    exact ((a3.seq re).seq (Run.skip _ 1)).cast (by simp) (by omega)
  | .callS f args, s => by
    simp only [implStat, scopesStat, sizeStat]
    have ra := runExprs args ((s.use f).skip 1)
    have hp : ((s.use f).skip 1).pos = s.pos + 4 := by simp
    rw [hp] at ra
    exact ((((Run.use s f).seq (Run.skip _ 1)).seq ra).seq (Run.skip _ 1)).cast (by simp) (by omega)
  | .loclAttr n val, s => by
    simp only [implStat, scopesStat]
    have pre : Run (s.push .localOrAssign s.pos) (((s.push .localOrAssign s.pos).addDecl { name := n, pos := s.pos + 2, isLocal := true }).skip 6) [] 6 :=
      ((Run.addDecl _ _).seq (Run.skip _ 6)).cast rfl (by omega)
    have rv := runExpr val (((s.push .localOrAssign s.pos).addDecl { name := n, pos := s.pos + 2, isLocal := true }).skip 6)
    have hp1 : (((s.push .localOrAssign s.pos).addDecl { name := n, pos := s.pos + 2, isLocal := true }).skip 6).pos = s.pos + 12 := by simp
    rw [hp1] at rv
    have r := pre.seq rv
    have hq := r.pos
    simp only [push_pos] at hq
    exact (Run.node (r.cast (by simp) rfl) (Nat.le_refl _) (by omega) (by simp only [sizeStat] <;> omega)
      (by simp only [sizeStat] <;> omega)).cast rfl (by simp only [sizeStat] <;> omega)
  | .method obj k colon ps body, s => by
    simp only [implStat, scopesStat]
    have pre : Run (s.push .funcStat s.pos) ((((s.push .funcStat s.pos).skip 1).use obj).skip (2 * k)) [] (1 + 1 + 2 * k) :=
      ((Run.skip _ 1).seq (Run.use _ obj)).seq (Run.skip _ _) |>.cast (by simp) rfl
    have hp1 := pre.pos
    simp only [push_pos] at hp1
    have h0 : Run (((((s.push .funcStat s.pos).skip 1).use obj).skip (2 * k)).push .closure (s.pos + 4 + 4 * k))
        ((((((((s.push .funcStat s.pos).skip 1).use obj).skip (2 * k)).push .closure (s.pos + 4 + 4 * k)).addImplicitSelf colon
          (s.pos + 4 * k)).addLocals (s.pos + 6 + 4 * k) ps).skip (2 + ps.length)) [] (2 + ps.length) :=
      (((Run.addImplicitSelf _ colon _).seq (Run.addLocals _ _ ps)).seq (Run.skip _ _)).cast rfl (by omega)
    have rb := runBlock body ((((((((s.push .funcStat s.pos).skip 1).use obj).skip (2 * k)).push .closure (s.pos + 4 + 4 * k)).addImplicitSelf colon
          (s.pos + 4 * k)).addLocals (s.pos + 6 + 4 * k) ps).skip (2 + ps.length))
    have hp := h0.pos
    simp only [push_pos] at hp
    rw [show ((((((((s.push .funcStat s.pos).skip 1).use obj).skip (2 * k)).push .closure (s.pos + 4 + 4 * k)).addImplicitSelf colon
          (s.pos + 4 * k)).addLocals (s.pos + 6 + 4 * k) ps).skip (2 + ps.length)).pos = s.pos + 2 * (4 + 2 * k + ps.length) by omega] at rb
    have rc := (run_closure h0 (by first | (rw [hp1]; done) | (rw [hp1]; omega) | omega) rb).cast
      (F' := [.node .closure (s.pos + 4 + 4 * k) (s.pos + 2 * sizeStat (.method obj k colon ps body) - 1)
        (scopesBlock (s.pos + 2 * (4 + 2 * k + ps.length)) body)])
      (by congr 2; simp only [sizeStat, hp1]; omega) rfl
    have r := pre.seq rc
    have hq := r.pos
    simp only [push_pos] at hq
    exact (Run.node (r.cast (by simp) rfl) (Nat.le_refl _) (by omega) (by simp only [sizeStat] <;> omega)
      (by simp only [sizeStat] <;> omega)).cast rfl (by simp only [sizeStat] <;> omega)
theorem runStats : ∀ (sts : List Stat) (s : ISt), Run s (implStats s sts) (scopesStats s.pos sts) (sizeBlock sts)
  | [], s => by simp only [implStats, scopesStats, sizeBlock]; exact Run.refl s
  | st :: rest, s => by
    simp only [implStats, scopesStats, sizeBlock]
    have a := runStat st s
    have b := runStats rest (implStat s st)
    rw [a.pos] at b
    exact a.seq b
theorem runBlock : ∀ (b : List Stat) (s : ISt), Run s (implBlock s b) (scopesBlock s.pos b) (sizeBlock b)
  | [], s => by simp only [implBlock, scopesBlock, sizeBlock]; exact Run.refl s
  | st :: rest, s => by
    simp only [implBlock, scopesBlock]
    have a := runStat st (s.push .normal (s.pos - 1))
    have b := runStats rest (implStat (s.push .normal (s.pos - 1)) st)
    rw [a.pos] at b
    simp only [push_pos] at a b
    have r := a.seq b
    have hq := r.pos
    simp only [push_pos] at hq
    exact (Run.node r (by omega) (by omega) (by simp only [sizeBlock] <;> omega) (by simp only [sizeBlock] <;> omega)).cast rfl
      (by simp only [sizeBlock])
end

/-- the instrumented walk of a chunk -/
def walkOf (p : List Stat) : ISt :=
  implBlock { pos := startPos, frames := [{ kind := .normal, start := 0, children := [] }], out := [] } p

/-- **At every `find_local_decl` call of the walk the open scopes (outermost first) are exactly the
path `find_scope` takes through the ranged scope tree of the chunk** — the scope the lookup starts
from (the innermost open one) is `find_scope(position)`. -/
theorem lookups_start_at_find_scope (p : List Stat) :
    ∀ e ∈ (walkOf p).trace, e.2.reverse = pathTree (chunkTree p) e.1 := by
  have r := runBlock p { pos := startPos, frames := [{ kind := .normal, start := 0, children := [] }], out := [] }
  obtain ⟨new, tr, en⟩ := r.trace
  intro e he
  have he' : e ∈ new := by
    have : (walkOf p).trace = new := by simpa [walkOf] using tr
    rw [this] at he; exact he
  obtain ⟨_, _, x3⟩ := en e he'
  rw [x3]
  simp [chunkTree, pathTree, baseOf]

/-- the walk records the same resolutions with or without the instrumentation: `trace` is not read -/
theorem walkOf_out (p : List Stat) : (walkOf p).out.reverse = implementation p := rfl

end Scope
