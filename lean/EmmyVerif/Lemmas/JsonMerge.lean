import EmmyVerif.Lemmas.JsonInv
/-! Helper lemmas for the C32 theorems: key joining, "last setting wins" over a list of settings,
the specification of `dedupAppend`. -/
namespace Json

theorem joinKey_assoc (pre k1 k2 : Key) (h : k1 ≠ []) :
    joinKey pre (k1 ++ '.' :: k2) = joinKey (joinKey pre k1) k2 := by
  cases pre with
  | nil =>
    cases k1 with
    | nil => exact absurd rfl h
    | cons c k1 => simp [joinKey]
  | cons p ps => simp [joinKey]

def isArr : J → Bool
  | .arr _ => true
  | _ => false

theorem setValue_scalar (old : Option J) (v : J) (h : isArr v = false) : setValue old v = v := by
  unfold setValue
  split
  · simp [isArr] at h
  · rfl

/-- applying a list of settings: a scalar setting that is not overridden or displaced by a later
setting of the same list is what the configuration contains afterwards -/
theorem applyLeaves_last (m : Flat) (l1 l2 : Flat) (k : Key) (v : J) (hv : isArr v = false)
    (hl : ∀ e ∈ l2, e.1 ≠ k ∧ conflicts k e.1 = false) :
    lookup k (applyLeaves m (l1 ++ (k, v) :: l2)) = some v := by
  have h1 : ∀ m', lookup k m' = some v → lookup k (applyLeaves m' l2) = some v := by
    induction l2 with
    | nil => intro m' h; exact h
    | cons e rest ih =>
      intro m' h
      have he := hl e (by simp)
      apply ih (fun x hx => hl x (by simp [hx]))
      rw [lookup_set]
      have : k ≠ e.1 := fun eq => he.1 eq.symm
      simp [this, he.2, h]
  unfold applyLeaves at *
  rw [List.foldl_append, List.foldl_cons]
  apply h1
  rw [lookup_set]
  simp [setValue_scalar _ v hv]

theorem dedupAppend_spec (base ov : List J) :
    ∃ added, dedupAppend base ov = base ++ added ∧
      (∀ x ∈ added, x ∈ ov ∧ base.contains x = false) ∧
      added.Pairwise (fun a b => (b == a) = false) := by
  induction ov generalizing base with
  | nil => exact ⟨[], by simp [dedupAppend], by simp, by simp⟩
  | cons x rest ih =>
    simp only [dedupAppend]
    split
    · obtain ⟨added, h1, h2, h3⟩ := ih base
      exact ⟨added, h1, fun y hy => ⟨List.mem_cons_of_mem _ (h2 y hy).1, (h2 y hy).2⟩, h3⟩
    · rename_i hx
      have hx : base.contains x = false := by simpa using hx
      obtain ⟨added, h1, h2, h3⟩ := ih (base ++ [x])
      refine ⟨x :: added, by rw [h1, List.append_assoc]; rfl, ?_, ?_⟩
      · intro y hy
        rcases List.mem_cons.mp hy with rfl | hy
        · exact ⟨by simp, hx⟩
        · have := h2 y hy
          refine ⟨List.mem_cons_of_mem _ this.1, ?_⟩
          have hc := this.2
          simp only [List.contains_append, Bool.or_eq_false_iff] at hc
          exact hc.1
      · refine List.pairwise_cons.mpr ⟨?_, h3⟩
        intro y hy
        have hc := (h2 y hy).2
        simp only [List.contains_append, Bool.or_eq_false_iff] at hc
        have h4 := hc.2
        simp only [List.contains_cons, List.contains_nil, Bool.or_false] at h4
        exact h4

end Json
