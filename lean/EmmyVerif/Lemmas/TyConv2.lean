import EmmyVerif.Lemmas.TyConv
/-!
# Conversion of the rendered tree — `table<…>`, records and optionals
-/
namespace TyM
open Ty

/-- references never resolve through an alias (`getRealType` leaves them alone) -/
def NoAlias (e : Env) : Prop := ∀ n, (getRealType e (.ref n)).getD (.ref n) = .ref n

mutual
/-- types whose rendering reads back literally: as `cv`, plus `table<…>`, records and `T?` -/
def cv2 : Ty → Bool
  | .prim k => k ≠ .unknown
  | .lit (.docStr _) | .lit (.docInt _) | .lit (.docBool _) => true
  | .lit _ => false
  | .ref n => builtinName n = none
  | .func _ => false
  | .tuple _ => false
  | .array b => cv2 b
  | .tgen ps => cv2L ps && decide (ps ≠ .nil)
  | .object fs => cv2F fs
  | .union ms =>
    -- `Nullable(a)`: exactly `a` and `nil`, `a` itself readable and neither a union nor a basic kind
    match ms with
    | .cons a (.cons n .nil) => decide (n = tNil) && cv2 a && !a.isUnion && !a.isPrim
    | _ => false
def cv2L : TyL → Bool
  | .nil => true
  | .cons t ts => cv2 t && cv2L ts
def cv2F : FdL → Bool
  | .nil => true
  | .cons _ t fs => cv2 t && cv2F fs
end

theorem cv2_ne_unknown (t : Ty) (h : cv2 t = true) : t ≠ tUnknown := by
  intro ht; subst ht; simp [cv2] at h

theorem FdL.ofList_toList : (l : FdL) → FdL.ofList l.toList = l
  | .nil => rfl
  | .cons k t r => by simp [FdL.toList, FdL.ofList, FdL.ofList_toList r]

theorem cv2L_mem : (ts : TyL) → cv2L ts = true → ∀ t ∈ ts.toList, cv2 t = true
  | .nil, _, t, ht => by simp [TyL.toList] at ht
  | .cons x xs, h, t, ht => by
    simp only [cv2L, Bool.and_eq_true] at h
    simp only [TyL.toList, List.mem_cons] at ht
    rcases ht with rfl | ht
    · exact h.1
    · exact cv2L_mem xs h.2 t ht

theorem union_noalias_nil (e : Env) (hna : NoAlias e) (a : Ty) (hc : cv2 a = true)
    (hu : a.isUnion = false) (hp : a.isPrim = false) :
    union e a tNil = Ty.mk [a, tNil] := by
  have hne : a ≠ tNil := by intro h; subst h; simp [Ty.isPrim] at hp
  have hany : a ≠ tAny := by intro h; subst h; simp [Ty.isPrim] at hp
  have hnev : a ≠ tNever := by intro h; subst h; simp [Ty.isPrim] at hp
  have hreal : (getRealType e a).getD a = a := by
    cases a with
    | ref n => exact hna n
    | _ => simp [getRealType, getRealTypeD]
  have hs := unionSpecial_nil a a hany hnev
  have hgen : unionGeneric a a tNil = fromVec [a, tNil] := by
    cases a <;> simp_all [unionGeneric, Ty.isUnion]
  simp only [union, hreal, unionImpl, hs, hgen, fromVec_pair a tNil hu rfl hne]
  rw [canonicalize_mk [a, tNil] (by simp [hne])
    (by intro t ht; simp at ht; rcases ht with rfl | rfl; exact hu; rfl) (by simp),
    mkUnionVec_pair_l a hp hne]

mutual
theorem conv2 (e : Env) (hna : NoAlias e) : (t : Ty) → cv2 t = true → ∀ (d g lv : Nat) (c : TypeE),
    toCst d g lv t = some c → ofType e c = t
  | .prim k, _, d, g, lv, c, h => by
    cases d <;> cases g <;> simp [toCst] at h
    subst h; simp [ofType, ofSimple, ofRest, ofPrim, iter, builtin_primText]
  | .lit l, hc, d, g, lv, c, h => by
    cases l <;> simp [cv2] at hc <;> cases d <;> cases g <;> simp [toCst] at h <;>
      (subst h; simp [ofType, ofSimple, ofRest, ofPrim, iter])
  | .ref n, hc, d, g, lv, c, h => by
    simp only [cv2, decide_eq_true_eq] at hc
    cases d <;> cases g <;> simp [toCst] at h
    subst h; simp [ofType, ofSimple, ofRest, ofPrim, iter, hc]
  | .func _, hc, _, _, _, _, _ => by simp [cv2] at hc
  | .tuple _, hc, _, _, _, _, _ => by simp [cv2] at hc
  | .array b, hc, d, g, lv, c, h => by
    simp only [cv2] at hc
    cases d with
    | zero => simp [toCst] at h
    | succ d =>
      cases g with
      | zero => simp [toCst] at h
      | succ g =>
        simp only [toCst] at h
        cases hb : toCst d g (lv + 1) b with
        | none => simp [hb] at h
        | some c' =>
          have ih := conv2 e hna b hc d g (lv + 1) c' hb
          simp only [hb] at h
          have key : ∀ (p : Prim0) (k : Nat), ofSimple e (.mk p k) = b →
              ofType e (TypeE.mk (.mk p (k + 1)) .nil 0) = .array b := by
            intro p k hs
            simp only [ofType, ofRest, iter, ofSimple] at hs ⊢
            rw [iter_comm, hs, mkArray, if_neg (cv2_ne_unknown b hc)]
          have paren : ofType e (TypeE.mk (.mk (.paren c') (0 + 1)) .nil 0) = .array b :=
            key (.paren c') 0 (by simp [ofSimple, ofPrim, iter]; exact ih)
          cases b with
          | union ms =>
            -- an optional element is parenthesised
            have hn : (ms.toList.any fun t => decide (t = tNil)) = true := by
              match ms, hc with
              | .nil, hc => simp [cv2] at hc
              | .cons _ .nil, hc => simp [cv2] at hc
              | .cons _ (.cons _ (.cons _ _)), hc => simp [cv2] at hc
              | .cons a (.cons n .nil), hc =>
                simp only [cv2, Bool.and_eq_true, decide_eq_true_eq] at hc
                simp [TyL.toList, hc.1.1.1]
            simp only [hn, if_true, Option.some.injEq] at h
            subst h
            exact paren
          | lit l =>
            cases l with
            | docStr s => plain_case
            | docBool b => plain_case
            | docInt i =>
              simp only at h
              by_cases hi : i < 0
              · simp only [hi, if_true, Option.some.injEq] at h
                subst h
                exact paren
              · simp only [hi, if_false] at h
                plain_case
            | _ => simp [cv2] at hc
          | prim k => plain_case
          | ref n => plain_case
          | array b' => plain_case
          | tgen ps => plain_case
          | object fs => plain_case
          | func _ => simp [cv2] at hc
          | tuple _ => simp [cv2] at hc
  | .tgen ps, hc, d, g, lv, c, h => by
    simp only [cv2, Bool.and_eq_true, decide_eq_true_eq] at hc
    cases d with
    | zero => simp [toCst] at h
    | succ d =>
      cases g with
      | zero => simp [toCst] at h
      | succ g =>
        simp only [toCst] at h
        split at h
        · simp at h
        · cases hl : toCstL d g (lv + 1) ps with
          | none => simp [hl] at h
          | some cl =>
            have ihl := conv2L e hna ps hc.1 d g (lv + 1) cl hl
            simp only [hl] at h
            cases cl with
            | nil => simp at h
            | cons a as =>
              simp only [Option.some.injEq] at h
              subst h
              simp only [ofArgs] at ihl
              have hnu : ∀ t ∈ ps.toList, t ≠ tUnknown := fun t ht => cv2_ne_unknown t (cv2L_mem ps hc.1 t ht)
              have hany : (ps.toList.any fun t => decide (t = tUnknown)) = false := by
                simp only [List.any_eq_false, decide_eq_true_eq]
                exact hnu
              simp only [ofType, ofRest, iter, ofSimple, ofPrim, if_true, ihl, hany, Bool.false_eq_true,
                if_false, TyL.ofList_toList]
  | .object fs, hc, d, g, lv, c, h => by
    simp only [cv2] at hc
    cases d with
    | zero => simp [toCst] at h
    | succ d =>
      cases g with
      | zero => simp [toCst] at h
      | succ g =>
        simp only [toCst] at h
        split at h
        · simp at h
        · cases hf : toCstF d g (lv + 1) fs with
          | none => simp [hf] at h
          | some cf =>
            have ihf := conv2F e hna fs hc d g (lv + 1) cf hf
            simp only [hf, Option.some.injEq] at h
            subst h
            simp only [ofType, ofRest, iter, ofSimple, ofPrim, ihf, FdL.ofList_toList]
  | .union ms, hc, d, g, lv, c, h => by
    match ms, hc with
    | .nil, hc => simp [cv2] at hc
    | .cons _ .nil, hc => simp [cv2] at hc
    | .cons _ (.cons _ (.cons _ _)), hc => simp [cv2] at hc
    | .cons a (.cons n .nil), hc =>
      simp only [cv2, Bool.and_eq_true, decide_eq_true_eq, Bool.not_eq_true'] at hc
      obtain ⟨⟨⟨hn, hca⟩, hu⟩, hp⟩ := hc
      subst hn
      cases d with
      | zero => simp [toCst] at h
      | succ d =>
        cases g with
        | zero => simp [toCst] at h
        | succ g =>
          have hane : a ≠ tNil := by intro h'; subst h'; simp [Ty.isPrim] at hp
          cases d with
          | zero => simp [toCst, toCstU] at h
          | succ d =>
            cases d with
            | zero => simp [toCst, toCstU, hane] at h
            | succ d =>
              cases ha : toCst (d + 1) g (lv + 1) a with
              | none => simp [toCst, toCstU, hane, ha] at h
              | some ca =>
                have iha := conv2 e hna a hca (d + 1) g (lv + 1) ca ha
                cases d with
                | zero => simp [toCst, toCstU, hane, ha] at h
                | succ d =>
                  simp [toCst, toCstU, hane, ha, TyL.toList, maxUnionItems] at h
                  obtain ⟨_, h2⟩ := h
                  cases ca with
                  | mk s r q =>
                    simp only [Option.some.injEq] at h2
                    subst h2
                    have hnn : nullableTy a = false := by
                      cases a <;> simp_all [nullableTy, Ty.isUnion]
                    have hbase : iter (mkNullable e) q (ofRest e (ofSimple e s) r) = a := by
                      simpa [ofType] using iha
                    simp only [ofType, iter]
                    rw [iter_comm, hbase, mkNullable, if_neg (cv2_ne_unknown a hca), hnn]
                    simp only [Bool.false_eq_true, if_false]
                    rw [union_noalias_nil e hna a hca hu hp]
                    rfl

theorem conv2L (e : Env) (hna : NoAlias e) : (ts : TyL) → cv2L ts = true → ∀ (d g lv : Nat) (cl : TypeEL),
    toCstL d g lv ts = some cl → ofArgs e cl = ts.toList
  | .nil, _, d, g, lv, cl, h => by
    cases d <;> simp [toCstL] at h
    subst h; rfl
  | .cons t ts, hc, d, g, lv, cl, h => by
    simp only [cv2L, Bool.and_eq_true] at hc
    cases d with
    | zero => simp [toCstL] at h
    | succ d =>
      simp only [toCstL] at h
      cases h1 : toCst d g lv t with
      | none => simp [h1] at h
      | some c =>
        cases h2 : toCstL d g lv ts with
        | none => simp [h1, h2] at h
        | some cs =>
          simp only [h1, h2, Option.some.injEq] at h
          subst h
          simp only [ofArgs, TyL.toList, conv2 e hna t hc.1 d g lv c h1, conv2L e hna ts hc.2 d g lv cs h2]

theorem conv2F (e : Env) (hna : NoAlias e) : (fs : FdL) → cv2F fs = true → ∀ (d g lv : Nat) (cf : FieldEL),
    toCstF d g lv fs = some cf → ofFields e cf = fs.toList
  | .nil, _, d, g, lv, cf, h => by
    cases d <;> simp [toCstF] at h
    subst h; rfl
  | .cons k t fs, hc, d, g, lv, cf, h => by
    simp only [cv2F, Bool.and_eq_true] at hc
    cases d with
    | zero => simp [toCstF] at h
    | succ d =>
      simp only [toCstF] at h
      cases h1 : toCst d g lv t with
      | none => simp [h1] at h
      | some c =>
        cases h2 : toCstF d g lv fs with
        | none => simp [h1, h2] at h
        | some cs =>
          simp only [h1, h2, Option.some.injEq] at h
          subst h
          simp only [ofFields, FdL.toList, conv2 e hna t hc.1 d g lv c h1, conv2F e hna fs hc.2 d g lv cs h2]
end

end TyM
