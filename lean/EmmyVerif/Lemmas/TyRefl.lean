import EmmyVerif.Lemmas.TyCheck
/-!
# Reflexivity and the union-member law for well-formed types

`isAtom`: basic kinds except `self` / `never`, literal constants, references to declared classes.
Atoms never make the checker answer anything but `ok` / `TypeNotMatch` (given one spare guard level),
which is what the member scans of `check_complex_type_compact` need.
-/
namespace TyM
open Ty

def isAtom (e : Env) : Ty → Bool
  | .prim k => k ≠ .selfInfer && k ≠ .never
  | .lit _ => true
  | .ref n => match e.find n with
    | some d => d.kind = .cls
    | none => false
  | _ => false

/-- `ok` or `TypeNotMatch`: an answer, not a failure of the check itself -/
def Res.decided : Res → Bool
  | .ok | .notMatch => true
  | _ => false

theorem atom_not_union (e : Env) (t : Ty) (h : isAtom e t = true) : t.isUnion = false := by
  cases t <;> simp_all [isAtom, Ty.isUnion]

theorem atom_escape_none (e : Env) (t : Ty) (h : isAtom e t = true) : escapeType e t = none := by
  cases t with
  | ref n =>
    simp only [isAtom] at h
    simp only [escapeType]
    cases hf : e.find n with
    | none => rfl
    | some d => simp only [hf] at h; simp_all
  | _ => simp [escapeType]

theorem isSubTypeOf_bool (e : Env) (a b : Name) : isSubTypeOf e a b = true ∨ isSubTypeOf e a b = false := by
  cases isSubTypeOf e a b <;> simp

/-- `check_base_type_for_ref_compact` against a declared class answers `ok` or `TypeNotMatch` -/
theorem baseTypeForRef_decided (e : Env) (f lvl : Nat) (s : Ty) (n : Name) (d : Decl)
    (hd : e.find n = some d) (hk : d.kind = .cls) (hl : lvl < maxLevel) :
    (baseTypeForRef e (f + 1) lvl s (.ref n)).decided = true := by
  unfold baseTypeForRef
  have hne : next lvl = some (lvl + 1) := by unfold next; rw [if_neg (by omega)]
  have hen : e.isEnum n = false := by simp [Env.isEnum, hd, hk]
  simp only [hne, aliasRealType, hd, hk, hen]
  split
  · split <;> rfl
  · simp [Res.decided]

def optDecided : Option Res → Bool
  | some r => r.decided
  | none => true

open Lean Elab Tactic in
/-- close one case of `simpleDecide_decided` -/
macro "fin_tac" : tactic =>
  `(tactic| (first
      | rfl
      | (simp only [*, TyM.Ty.isBoolean, apply_ite TyM.optDecided] <;> simp [TyM.optDecided, TyM.Res.decided])
      | simp [*, TyM.optDecided, TyM.Res.decided, TyM.Ty.isBoolean]))

/-- every `return` of the first `match` of `check_simple_type_compact` is `ok` or `TypeNotMatch`
when the base-type check against a reference is -/
theorem simpleDecide_decided (e : Env) (s c : Ty) (base : Unit → Res) (hb : (base ()).decided = true) :
    optDecided (simpleDecide e s c base) = true := by
  unfold simpleDecide
  simp only
  have fin : (base () = .ok ∨ base () = .notMatch) := by
    cases hr : base () <;> simp_all [Res.decided]
  rcases fin with hr | hr <;>
  (cases s with
   | prim k =>
     cases k <;>
     (cases c with
      | prim k' => cases k' <;> fin_tac
      | lit l' => cases l' <;> fin_tac
      | _ => fin_tac)
   | lit l =>
     cases l <;>
     (cases c with
      | prim k' => cases k' <;> fin_tac
      | lit l' => cases l' <;> fin_tac
      | _ => fin_tac)
   | _ => simp [optDecided])

theorem baseTypeForRef_atom_decided (e : Env) (f lvl : Nat) (s c : Ty) (hc : isAtom e c = true)
    (hl : lvl < maxLevel) : (baseTypeForRef e (f + 1) lvl s c).decided = true := by
  cases c with
  | ref n =>
    simp only [isAtom] at hc
    cases hf : e.find n with
    | none => simp [hf] at hc
    | some d =>
      simp only [hf, decide_eq_true_eq] at hc
      exact baseTypeForRef_decided e f lvl s n d hf hc hl
  | _ =>
    unfold baseTypeForRef
    have hne : next lvl = some (lvl + 1) := by unfold next; rw [if_neg (by omega)]
    simp [hne, aliasRealType, Res.decided]

theorem decided_ite (p : Prop) [Decidable p] : (if p then Res.ok else Res.notMatch).decided = true := by
  split <;> rfl

theorem isEnum_false_of_atom (e : Env) (n : Name) (h : isAtom e (.ref n) = true) : e.isEnum n = false := by
  simp only [isAtom] at h
  cases hf : e.find n with
  | none => simp [hf] at h
  | some d => simp only [hf, decide_eq_true_eq] at h; simp [Env.isEnum, hf, h]

/-- **atoms decide.** An atom checked against an atom is answered `ok` or `TypeNotMatch` — never
`TypeRecursion`, `DonotCheck` or a fuel failure — given one spare guard level. -/
theorem atom_pair_decided (e : Env) (ip : List (Name × Ty)) (f lvl : Nat) (s c : Ty)
    (hs : isAtom e s = true) (hc : isAtom e c = true) (hl : lvl < maxLevel) :
    (checkGeneral e ip (f + 3) lvl s c).decided = true := by
  unfold checkGeneral
  by_cases h1 : isLikeAny c = true
  · simp [h1, Res.decided]
  · by_cases h2 : fastEq s c = true
    · simp [h1, h2, Res.decided]
    · simp only [h1, h2, Bool.false_eq_true, if_false, atom_escape_none e c hc]
      have hcu := atom_not_union e c hc
      cases s with
      | prim k =>
        have hsimple : (checkSimple e ip (f + 2) lvl (.prim k) c).decided = true := by
          unfold checkSimple
          have := simpleDecide_decided e (.prim k) c (fun _ => baseTypeForRef e (f + 1) lvl (.prim k) c)
            (baseTypeForRef_atom_decided e f lvl _ c hc hl)
          cases hsd : simpleDecide e (.prim k) c (fun _ => baseTypeForRef e (f + 1) lvl (.prim k) c) with
          | some r => simpa [hsd, optDecided] using this
          | none => cases c <;> simp_all [Ty.isUnion, Res.decided]
        cases k <;> simp_all [isAtom, Res.decided]
      | lit l =>
        unfold checkSimple
        have := simpleDecide_decided e (.lit l) c (fun _ => baseTypeForRef e (f + 1) lvl (.lit l) c)
          (baseTypeForRef_atom_decided e f lvl _ c hc hl)
        cases hsd : simpleDecide e (.lit l) c (fun _ => baseTypeForRef e (f + 1) lvl (.lit l) c) with
        | some r => simpa [hsd, optDecided] using this
        | none => cases c <;> simp_all [Ty.isUnion, Res.decided]
      | ref n =>
        simp only [isAtom] at hs
        cases hf : e.find n with
        | none => simp [hf] at hs
        | some d =>
          simp only [hf, decide_eq_true_eq] at hs
          unfold checkRef
          simp only [hf, hs]
          unfold checkRefClass
          cases c with
          | ref id =>
            have := isEnum_false_of_atom e id hc
            simp only [this]
            split <;> (try split) <;> (try split) <;> simp [Res.decided]
          | prim k => cases k <;> simp only [baseTypeName] <;> first | rfl | exact decided_ite _
          | lit l => cases l <;> simp only [baseTypeName] <;> first | rfl | exact decided_ite _
          | _ => simp [isAtom] at hc
      | _ => simp [isAtom] at hs

theorem anyOk_ok {α : Type} (g : α → Res) (l : List α) (hdec : ∀ m ∈ l, (g m).decided = true)
    (hex : ∃ m ∈ l, g m = .ok) : anyOk g l = .ok := by
  induction l with
  | nil => obtain ⟨m, hm, _⟩ := hex; simp at hm
  | cons x xs ih =>
    simp only [anyOk]
    have hx := hdec x (List.mem_cons_self)
    cases hgx : g x with
    | ok => rfl
    | notMatch =>
      simp only
      apply ih (fun m hm => hdec m (List.mem_cons_of_mem _ hm))
      obtain ⟨m, hm, hok⟩ := hex
      rcases List.mem_cons.mp hm with rfl | hm
      · rw [hgx] at hok; cases hok
      · exact ⟨m, hm, hok⟩
    | _ => simp [hgx, Res.decided] at hx

theorem allOk_ok {α : Type} (g : α → Res) (l : List α) (h : ∀ m ∈ l, g m = .ok) : allOk g l = .ok := by
  induction l with
  | nil => rfl
  | cons x xs ih =>
    simp only [allOk, h x (List.mem_cons_self), Res.andThen]
    exact ih (fun m hm => h m (List.mem_cons_of_mem _ hm))

/-- an atom is assignable to itself -/
theorem atom_refl (e : Env) (ip : List (Name × Ty)) (f lvl : Nat) (t : Ty) (h : isAtom e t = true) :
    checkGeneral e ip (f + 2) lvl t t = .ok := by
  cases t with
  | prim k =>
    have hk : k ≠ .selfInfer := by intro hk; subst hk; simp [isAtom] at h
    exact checkGeneral_refl_prim e ip (f + 1) lvl k hk
  | lit c => exact checkGeneral_refl_lit e ip f lvl c
  | ref n => exact checkGeneral_refl_ref e ip (f + 1) lvl n
  | _ => simp [isAtom] at h

/-- **union member, atoms.** Every member of a union of atoms is accepted where the union is expected. -/
theorem union_member_atoms (e : Env) (ip : List (Name × Ty)) (f lvl : Nat) (ms : TyL) (c : Ty)
    (hms : ∀ m ∈ ms.toList, isAtom e m = true) (hc : c ∈ ms.toList) (hl : lvl + 1 < maxLevel) :
    checkGeneral e ip (f + 5) lvl (.union ms) c = .ok := by
  have hca := hms c hc
  by_cases h1 : isLikeAny c = true
  · exact checkGeneral_compact_likeAny e ip (f + 4) lvl _ c h1
  · by_cases h2 : fastEq (.union ms) c = true
    · unfold checkGeneral; simp [h1, h2]
    · rw [show f + 5 = (f + 3) + 2 from rfl,
        checkGeneral_union_src e ip (f + 3) lvl ms c (by simpa using h1) (by simpa using h2)
          (atom_escape_none e c hca) (atom_not_union e c hca)]
      rw [anyOk_ok]
      · rfl
      · intro m hm
        rw [withNext_lt lvl _ (by omega)]
        exact atom_pair_decided e ip f (lvl + 1) m c (hms m hm) hca hl
      · refine ⟨c, hc, ?_⟩
        rw [withNext_lt lvl _ (by omega)]
        exact atom_refl e ip (f + 1) (lvl + 1) c hca

/-- union against union: `ok` as soon as every member of the compact union is accepted -/
theorem checkGeneral_union_union_ok (e : Env) (ip : List (Name × Ty)) (f lvl : Nat) (ms cms : TyL)
    (h : (withNext lvl fun l => allOk (fun cm => withNext l fun l' => checkGeneral e ip f l' (.union ms) cm)
      cms.toList) = .ok) :
    checkGeneral e ip (f + 2) lvl (.union ms) (.union cms) = .ok := by
  unfold checkGeneral
  simp only [isLikeAny, fastEq, escapeType]
  unfold checkComplex
  simp [h]

/-- **reflexivity, unions of atoms.** -/
theorem union_atoms_refl (e : Env) (ip : List (Name × Ty)) (f lvl : Nat) (ms : TyL)
    (hms : ∀ m ∈ ms.toList, isAtom e m = true) (hl : lvl + 3 < maxLevel) :
    checkGeneral e ip (f + 7) lvl (.union ms) (.union ms) = .ok := by
  rw [show f + 7 = (f + 5) + 2 from rfl]
  apply checkGeneral_union_union_ok
  rw [withNext_lt lvl _ (by omega)]
  apply allOk_ok
  intro cm hcm
  rw [withNext_lt (lvl + 1) _ (by omega)]
  exact union_member_atoms e ip f (lvl + 1 + 1) ms cm hms hcm (by omega)

/-! ## `T | nil` (strict array index) for the shapes of well-formed element types -/

theorem union_plain_nil (e : Env) (b : Ty) (hp : Plain b) (hne : b ≠ tNil) :
    union e b tNil = Ty.mk (mkUnionVec [b, tNil]) := by
  have hn : Plain tNil := ⟨rfl, by decide, by decide⟩
  have hu := plain_not_union b hp
  have hs := unionSpecial_nil b b hp.2.1 hp.2.2
  simp only [union, getRealType_of_not_ref e b (plain_not_ref b hp), Option.getD_some, unionImpl, hs,
    unionGeneric_plain _ _ _ hp hn, if_neg hne, fromVec_pair _ _ hu rfl hne]
  exact canonicalize_mk [b, tNil] (by simp [hne]) (by intro t ht; simp at ht; rcases ht with rfl | rfl; exact hu; rfl) (by simp)

theorem union_nil_nil (e : Env) : union e tNil tNil = tNil := by
  simp only [union, getRealType_of_not_ref e tNil rfl, Option.getD_some]; decide

theorem union_any_nil (e : Env) : union e tAny tNil = tAny := union_any_left e tNil

theorem getRealType_class (e : Env) (n : Name) (d : Decl) (hd : e.find n = some d) (hk : d.kind = .cls) :
    getRealType e (.ref n) = some (.ref n) := by
  simp [getRealType, getRealTypeD, hd, hk]

theorem union_ref_nil (e : Env) (n : Name) (d : Decl) (hd : e.find n = some d) (hk : d.kind = .cls) :
    union e (.ref n) tNil = Ty.mk [.ref n, tNil] := by
  have hne : (Ty.ref n) ≠ tNil := by simp
  have hs := unionSpecial_nil (.ref n) (.ref n) (by simp) (by simp)
  simp only [union, getRealType_class e n d hd hk, Option.getD_some, unionImpl, hs, unionGeneric]
  rw [if_neg hne, fromVec_pair _ _ rfl rfl hne,
    canonicalize_mk [.ref n, tNil] (by simp) (by simp [Ty.isUnion]) (by simp),
    mkUnionVec_pair_l (.ref n) rfl hne]

/-- `U | nil` for a canonical union `U` of non-unions: a union whose members are those of `U` plus `nil` -/
theorem union_union_nil (e : Env) (l : List Ty) (hn : l.Nodup) (hu : ∀ t ∈ l, t.isUnion = false)
    (hl : 2 ≤ l.length) :
    ∃ y, union e (Ty.mk l) tNil = Ty.mk y ∧ (∀ m, m ∈ y ↔ m ∈ l ∨ m = tNil) := by
  have hs := unionSpecial_union_src (TyL.ofList l) (Ty.mk l) tNil (by decide) (by decide)
  have hnp : Plain tNil := ⟨rfl, by decide, by decide⟩
  simp only [union, getRealType_of_not_ref e (Ty.mk l) rfl, Option.getD_some, unionImpl, hs,
    unionGeneric_union_src _ _ tNil hnp, TyL.toList_ofList, List.contains_iff_mem]
  by_cases hm : tNil ∈ l
  · rw [if_pos hm]
    refine ⟨mkUnionVec l, ?_, ?_⟩
    · simp only [canonicalize, TyL.toList_ofList]
      exact fromVec_canon l hn hu hl
    · intro m
      rw [(mkUnionVec_perm l hn).mem_iff]
      constructor
      · exact fun h => .inl h
      · rintro (h | h)
        · exact h
        · exact h ▸ hm
  · rw [if_neg hm]
    have hnd : (l ++ [tNil]).Nodup := by
      rw [List.nodup_append]
      refine ⟨hn, by simp, ?_⟩
      intro a ha b hb
      simp at hb; subst hb
      intro hab; subst hab; exact hm ha
    have hud : ∀ t ∈ l ++ [tNil], t.isUnion = false := by
      intro t ht
      rcases List.mem_append.mp ht with ht | ht
      · exact hu t ht
      · simp at ht; subst ht; rfl
    refine ⟨mkUnionVec (l ++ [tNil]), canonicalize_mk _ hnd hud (by simp; omega), ?_⟩
    intro m
    rw [(mkUnionVec_perm _ hnd).mem_iff]
    simp

end TyM
