import EmmyVerif.Lemmas.ScopeVisit
/-!
# Scope lemmas 3 — the simulation invariant `Good` and how scope-tree operations preserve it
-/
namespace Scope

/-- the declaration list answers every name like the environment does (globals answer "none") -/
def Agree (ds : List Decl) (env : Env) : Prop := ∀ n, localOf (findN ds n) = lookupEnv env n

/-- add children (most recent first) to the innermost open scope -/
def addKids (cs : List Node) : List Frame → List Frame
  | [] => []
  | f :: rest => { f with children := cs ++ f.children } :: rest

@[simp] theorem addKids_nil (fs : List Frame) : addKids [] fs = fs := by
  cases fs <;> simp [addKids]

theorem addKids_addKids (a b : List Node) (fs : List Frame) :
    addKids a (addKids b fs) = addKids (a ++ b) fs := by
  cases fs <;> simp [addKids]

theorem addChild_eq (fs : List Frame) (c : Node) : addChild fs c = addKids [c] fs := by
  cases fs <;> simp [addChild, addKids]

/-- local declarations of names at consecutive token positions -/
def declsAt (p : Nat) : List Name → List Decl
  | [] => []
  | n :: ns => { name := n, pos := p, isLocal := true } :: declsAt (p + 2) ns

theorem declsAt_pos (p : Nat) (ns : List Name) : ∀ d ∈ declsAt p ns, p ≤ d.pos ∧ d.pos < p + 2 * ns.length := by
  induction ns generalizing p with
  | nil => simp [declsAt]
  | cons n ns ih =>
    intro d hd
    simp only [declsAt, List.mem_cons] at hd
    rcases hd with rfl | hd
    · simp
    · have := ih (p + 2) d hd
      simp only [List.length_cons]; omega

/-! ### ISt operations -/

@[simp] theorem push_pos (s : ISt) (k : Kind) (st : Nat) : (s.push k st).pos = s.pos := rfl
@[simp] theorem push_out (s : ISt) (k : Kind) (st : Nat) : (s.push k st).out = s.out := rfl
@[simp] theorem push_frames (s : ISt) (k : Kind) (st : Nat) :
    (s.push k st).frames = { kind := k, start := st, children := [] } :: s.frames := rfl
@[simp] theorem skip_pos (s : ISt) (t : Nat) : (s.skip t).pos = s.pos + 2 * t := rfl
@[simp] theorem skip_out (s : ISt) (t : Nat) : (s.skip t).out = s.out := rfl
@[simp] theorem skip_frames (s : ISt) (t : Nat) : (s.skip t).frames = s.frames := rfl
@[simp] theorem addDecl_pos (s : ISt) (d : Decl) : (s.addDecl d).pos = s.pos := rfl
@[simp] theorem addDecl_out (s : ISt) (d : Decl) : (s.addDecl d).out = s.out := rfl
@[simp] theorem addDecl_frames (s : ISt) (d : Decl) : (s.addDecl d).frames = addKids [.decl d] s.frames := by
  simp [ISt.addDecl, addChild_eq]
@[simp] theorem logLookup_pos (s : ISt) (p : Nat) : (s.logLookup p).pos = s.pos := rfl
@[simp] theorem logLookup_out (s : ISt) (p : Nat) : (s.logLookup p).out = s.out := rfl
@[simp] theorem logLookup_frames (s : ISt) (p : Nat) : (s.logLookup p).frames = s.frames := rfl
@[simp] theorem use_pos (s : ISt) (n : Name) : (s.use n).pos = s.pos + 2 := rfl
@[simp] theorem use_frames (s : ISt) (n : Name) : (s.use n).frames = s.frames := rfl
@[simp] theorem useSelf_pos (s : ISt) : s.useSelf.pos = s.pos + 2 := rfl
@[simp] theorem useSelf_frames (s : ISt) : s.useSelf.frames = s.frames := rfl
@[simp] theorem pop_pos (s : ISt) : s.pop.pos = s.pos := by
  unfold ISt.pop; split <;> rfl
@[simp] theorem pop_out (s : ISt) : s.pop.out = s.out := by
  unfold ISt.pop; split <;> rfl
theorem pop_frames (s : ISt) (f : Frame) (rest : List Frame) (h : s.frames = f :: rest) :
    s.pop.frames = addKids [.scope f.kind f.start f.children] rest := by
  unfold ISt.pop; rw [h]; simp [addChild_eq]

theorem addLocals_spec (ns : List Name) : ∀ (s : ISt) (p : Nat),
    (s.addLocals p ns).pos = s.pos ∧ (s.addLocals p ns).out = s.out ∧
    (s.addLocals p ns).frames = addKids ((declsAt p ns).reverse.map .decl) s.frames := by
  induction ns with
  | nil => intro s p; simp [ISt.addLocals, declsAt]
  | cons n ns ih =>
    intro s p
    obtain ⟨h1, h2, h3⟩ := ih (s.addDecl { name := n, pos := p, isLocal := true }) (p + 2)
    simp only [ISt.addLocals]
    refine ⟨by simpa using h1, by simpa using h2, ?_⟩
    rw [h3, addDecl_frames, addKids_addKids]
    simp [declsAt]

/-! ### `flat` of particular children -/

def isClosureNode : Node → Prop
  | .scope .closure _ _ => True
  | _ => False

/-- child scopes that never show declarations to their siblings -/
def isInertNode : Node → Prop
  | .scope .normal _ _ => True
  | .scope .closure _ _ => True
  | .scope .repeat_ _ _ => True
  | .scope .forRange _ _ => True
  | _ => False

theorem contrib_inert {c : Node} (h : isInertNode c) : contrib c = [] := by
  cases c with
  | decl d => cases h
  | scope k st ch => cases k <;> simp_all [isInertNode, contrib, childScopeDecls]

theorem isInert_of_closure {c : Node} (h : isClosureNode c) : isInertNode c := by
  cases c with
  | decl d => cases h
  | scope k st ch => cases k <;> simp_all [isInertNode, isClosureNode]

theorem flat_inert (cs : List Node) (h : ∀ c ∈ cs, isInertNode c) : flat cs = [] := by
  induction cs with
  | nil => rfl
  | cons c cs ih =>
    rw [flat_cons, contrib_inert (h c (by simp)), ih (fun c hc => h c (by simp [hc]))]; rfl

theorem flat_decls (ds : List Decl) : flat (ds.map .decl) = ds := by
  induction ds with
  | nil => rfl
  | cons d ds ih => simp [contrib, ih]

theorem filterMap_declOf_decls (ds : List Decl) : (ds.map Node.decl).filterMap declOf = ds := by
  induction ds with
  | nil => rfl
  | cons d ds ih => simp [declOf, ih]

theorem filterMap_declOf_inert (cs : List Node) (h : ∀ c ∈ cs, isInertNode c) : cs.filterMap declOf = [] := by
  induction cs with
  | nil => rfl
  | cons c cs ih =>
    have hc := h c (by simp)
    cases c with
    | decl d => cases hc
    | scope k st ch =>
      rw [List.filterMap_cons]
      simp only [declOf]
      exact ih (fun c hc => h c (by simp [hc]))

/-! ### Agreement with environments -/

theorem Agree.cons_local {ds : List Decl} {env : Env} (h : Agree ds env) (n : Name) (p : Nat) :
    Agree ({ name := n, pos := p, isLocal := true } :: ds) ((n, p) :: env) := by
  intro m
  simp only [findN, List.find?_cons, lookupEnv]
  by_cases hm : n = m
  · simp [hm, localOf]
  · simp only [hm, decide_false, if_false]
    exact h m

theorem Agree.bindNames (ns : List Name) : ∀ (p : Nat) (ds : List Decl) (env : Env),
    Agree ds env → Agree ((declsAt p ns).reverse ++ ds) (bindNames env p ns) := by
  induction ns with
  | nil => intro p ds env h; simpa [declsAt, Scope.bindNames] using h
  | cons n ns ih =>
    intro p ds env h
    have := ih (p + 2) _ _ (h.cons_local n p)
    simpa [declsAt, Scope.bindNames, List.append_assoc] using this

/-- a global declaration for a name that so far resolves to nothing changes no answer -/
theorem Agree.cons_global {ds : List Decl} {env : Env} (h : Agree ds env) (n : Name) (p : Nat)
    (hn : findN ds n = none) : Agree ({ name := n, pos := p, isLocal := false } :: ds) env := by
  intro m
  simp only [findN, List.find?_cons]
  by_cases hm : n = m
  · subst hm
    have := h n
    rw [hn] at this
    simp [localOf, ← this]
  · simp only [hm, decide_false]
    exact h m

/-! ### The invariant -/

/-- Simulation invariant between the analyzer's scope stack at position `p` and the reference
environment: positions are ordered, and both a direct lookup and a lookup coming up from a closure
written at this point answer like `env`. -/
structure Good (fs : List Frame) (p : Nat) (env : Env) : Prop where
  sorted : Sorted fs p
  top : ∀ f ∈ fs.head?, f.start < p
  entry : Agree (vis fs none true) env
  closure : Agree (vis fs (some .closure) false) env

theorem Good.mono {fs : List Frame} {p p' : Nat} {env : Env} (h : Good fs p env) (hp : p ≤ p') :
    Good fs p' env :=
  ⟨h.sorted.mono hp, fun f hf => by have := h.top f hf; omega, h.entry, h.closure⟩

/-- lookups during the walk answer like the environment -/
theorem Good.lookup {fs : List Frame} {p : Nat} {env : Env} (h : Good fs p env) (q : Nat) (hq : p ≤ q)
    (n : Name) : localOf (findDecl fs n q) = lookupEnv env n := by
  have h' := h.mono hq
  have := visit_eq_vis fs q h'.sorted (fun f hf => Or.inr (h'.top f hf)) n
  unfold findDecl
  unfold findN at this
  rw [this]
  exact h.entry n

/-- new closure children of the innermost scope (positions before `b`) -/
def ClosureKids (cs : List Node) (b : Nat) : Prop :=
  ∀ c ∈ cs, isClosureNode c ∧ c.pos < b ∧ ∀ g ∈ nodeKids c, g.pos < b

theorem ClosureKids.mono {cs : List Node} {b b' : Nat} (h : ClosureKids cs b) (hb : b ≤ b') :
    ClosureKids cs b' := fun c hc => by
  obtain ⟨h1, h2, h3⟩ := h c hc
  exact ⟨h1, by omega, fun g hg => by have := h3 g hg; omega⟩

theorem ClosureKids.append {a b : List Node} {p : Nat} (ha : ClosureKids a p) (hb : ClosureKids b p) :
    ClosureKids (a ++ b) p := fun c hc => by
  rcases List.mem_append.mp hc with h | h
  · exact ha c h
  · exact hb c h

theorem repeatBody_closures (cs ch : List Node) (h : ∀ c ∈ cs, isClosureNode c) :
    repeatBody (cs ++ ch) = repeatBody ch := by
  induction cs with
  | nil => rfl
  | cons c cs ih =>
    have ih := ih (fun c hc => h c (by simp [hc]))
    cases hrest : cs ++ ch with
    | nil =>
      have h1 : cs = [] := by cases cs <;> simp_all
      have h2 : ch = [] := by cases cs <;> simp_all
      subst h1; subst h2
      have hc := h c (by simp)
      cases c with
      | decl d => cases hc
      | scope k st ch' => cases k <;> simp_all [isClosureNode, repeatBody]
    | cons x xs =>
      rw [List.cons_append, hrest, repeatBody_cons_cons, ← hrest, ih]

/-- closure children do not change what a scope offers -/
theorem ownC_addClosures (f : Frame) (cs : List Node) (h : ∀ c ∈ cs, isClosureNode c) (ck : Option Kind) (e : Bool) :
    ownC { f with children := cs ++ f.children } ck e = ownC f ck e := by
  have hflat : flat (cs ++ f.children) = flat f.children := by
    rw [flat_append, flat_inert cs (fun c hc => isInert_of_closure (h c hc))]; rfl
  unfold ownC
  simp only [hflat, repeatBody_closures cs f.children h]

theorem vis_addClosures (fs : List Frame) (cs : List Node) (h : ∀ c ∈ cs, isClosureNode c) (ck : Option Kind) (e : Bool) :
    vis (addKids cs fs) ck e = vis fs ck e := by
  cases fs with
  | nil => rfl
  | cons f rest => simp only [addKids, vis, ownC_addClosures f cs h]

theorem Sorted.addKids {fs : List Frame} {b : Nat} (h : Sorted fs b) (cs : List Node)
    (hcs : ∀ c ∈ cs, c.pos < b ∧ ∀ g ∈ nodeKids c, g.pos < b) : Sorted (addKids cs fs) b := by
  cases fs with
  | nil => trivial
  | cons f rest =>
    obtain ⟨h1, h2, h3⟩ := h
    refine ⟨fun c hc => ?_, h2, h3⟩
    rcases List.mem_append.mp hc with hc | hc
    · exact hcs c hc
    · exact h1 c hc

theorem head_addKids (cs : List Node) (fs : List Frame) :
    ∀ f ∈ (addKids cs fs).head?, ∃ f' ∈ fs.head?, f.start = f'.start ∧ f.kind = f'.kind := by
  cases fs with
  | nil => simp [addKids]
  | cons f rest => simp [addKids]

/-- **Expressions only add closure scopes**, which changes no answer. -/
theorem Good.addClosures {fs : List Frame} {p p' : Nat} {env : Env} (h : Good fs p env) (hp : p ≤ p')
    {cs : List Node} (hcs : ClosureKids cs p') : Good (addKids cs fs) p' env := by
  have hcl : ∀ c ∈ cs, isClosureNode c := fun c hc => (hcs c hc).1
  refine ⟨(h.sorted.mono hp).addKids cs (fun c hc => (hcs c hc).2), ?_, ?_, ?_⟩
  · intro f hf
    obtain ⟨f', hf', hst, _⟩ := head_addKids cs fs f hf
    have := h.top f' hf'; omega
  · rw [vis_addClosures fs cs hcl]; exact h.entry
  · rw [vis_addClosures fs cs hcl]; exact h.closure

end Scope
