import EmmyVerif.Lemmas.IndexSymType
/-! `Index.Sym`, operator index: after `remove f` the `operators` map has no operator of `f` and every other
operator unchanged — exactly what the other files' `add_operator` calls build. -/
namespace Index.Sym
open Index

/-- the last (owner, op) registered under operator id `id` -/
def operVal (m : Mut) (id : File × Nat) : Option (TId × Nat) :=
  match m with
  | .oper f pos owner op => if (f, pos) = id then some (owner, op) else none
  | _ => none

def operLast (ms : List Mut) (id : File × Nat) (init : Option (TId × Nat)) : Option (TId × Nat) :=
  ms.foldl (fun acc m => (operVal m id).or acc) init

theorem addMemberToOwner_oper (s : S) (o : MOwner) (id : MId) :
    (addMemberToOwner s o id).operators = s.operators ∧ (addMemberToOwner s o id).inFiledOperators = s.inFiledOperators := by
  unfold addMemberToOwner
  split
  · exact ⟨rfl, rfl⟩
  · dsimp only
    repeat' split
    all_goals exact ⟨rfl, rfl⟩

theorem addMember_oper (s : S) (o : MOwner) (m : Member) :
    (addMember s o m).operators = s.operators ∧ (addMember s o m).inFiledOperators = s.inFiledOperators := by
  unfold addMember
  dsimp only
  split
  · exact ⟨rfl, rfl⟩
  · exact addMemberToOwner_oper _ o m.id

theorem bindType_oper (s : S) (f : File) (p v : Nat) :
    (bindType s f p v).operators = s.operators ∧ (bindType s f p v).inFiledOperators = s.inFiledOperators := by
  unfold bindType; split <;> exact ⟨rfl, rfl⟩

theorem apply_operators (s : S) (m : Mut) (id : File × Nat) :
    aget (apply s m).operators id = (operVal m id).or (aget s.operators id) := by
  cases m with
  | oper f pos owner op =>
    simp only [apply, addOperator, operVal]
    rw [aget_aset]
    by_cases h : id = (f, pos)
    · subst h; simp
    · have : ¬ (f, pos) = id := fun e => h e.symm
      simp [h, this]
  | tdecl f t pos => simp [apply, addTypeDecl, operVal]
  | tsuper f t v => simp [apply, addSuper, operVal]
  | tgeneric t v => simp [apply, addGeneric, operVal]
  | tbind f p v => simp only [apply, operVal]; rw [(bindType_oper s f p v).1]; simp
  | tns f v => simp [apply, operVal]
  | tusing f v => simp [apply, operVal]
  | mtable f k v => simp [apply, operVal]
  | madd o m => simp only [apply, operVal]; rw [(addMember_oper s o m).1]; simp
  | mset o f i => simp [apply, setMemberOwner, addInFile, operVal]
  | mto o i => simp only [apply, operVal]; rw [(addMemberToOwner_oper s o i).1]; simp

theorem operators_fold (ms : List Mut) (s : S) (id : File × Nat) :
    aget (ms.foldl apply s).operators id = operLast ms id (aget s.operators id) := by
  induction ms generalizing s with
  | nil => rfl
  | cons m r ih =>
    simp only [List.foldl_cons, operLast]
    rw [ih, apply_operators]
    rfl

/-- every operator id stored is listed under its file -/
def OperListed (s : S) : Prop :=
  ∀ id : File × Nat, (aget s.operators id).isSome = true → id ∈ agetL s.inFiledOperators id.1

theorem apply_operListed (s : S) (m : Mut) (h : OperListed s) : OperListed (apply s m) := by
  cases m with
  | oper f pos owner op =>
    intro id hid
    simp only [apply, addOperator] at hid ⊢
    rw [aget_aset] at hid
    rw [agetL_apush]
    by_cases h1 : id = (f, pos)
    · subst h1; simp
    · simp only [h1, if_false] at hid
      have := h id hid
      split
      · exact List.mem_append_left _ this
      · exact this
  | tdecl f t pos => exact h
  | tsuper f t v => exact h
  | tgeneric t v => exact h
  | tbind f p v =>
    intro id hid
    simp only [apply] at hid ⊢
    rw [(bindType_oper s f p v).1] at hid
    rw [(bindType_oper s f p v).2]
    exact h id hid
  | tns f v => exact h
  | tusing f v => exact h
  | mtable f k v => exact h
  | madd o m =>
    intro id hid
    simp only [apply] at hid ⊢
    rw [(addMember_oper s o m).1] at hid
    rw [(addMember_oper s o m).2]
    exact h id hid
  | mset o f i => exact h
  | mto o i =>
    intro id hid
    simp only [apply] at hid ⊢
    rw [(addMemberToOwner_oper s o i).1] at hid
    rw [(addMemberToOwner_oper s o i).2]
    exact h id hid

theorem build_operListed (ms : List Mut) : OperListed (build ms) := by
  unfold build
  suffices ∀ s, OperListed s → OperListed (ms.foldl apply s) from
    this S.new (by intro id hid; simp [S.new, aget] at hid)
  induction ms with
  | nil => intro s h; exact h
  | cons m r ih => intro s h; exact ih _ (apply_operListed s m h)

theorem removeOperatorId_operators (s : S) (i id : File × Nat) :
    aget (removeOperatorId s i).operators id = if id = i then none else aget s.operators id := by
  unfold removeOperatorId
  cases h : aget s.operators i with
  | none =>
    simp only
    split
    · next e => subst e; exact h
    · rfl
  | some oo =>
    obtain ⟨owner, op⟩ := oo
    dsimp only
    have hd : aget (adel s.operators i) id = if id = i then none else aget s.operators id := aget_adel _ _ _
    split
    · exact hd
    · split
      · exact hd
      · split <;> exact hd

theorem fold_removeOperatorId_operators (ids : List (File × Nat)) (s : S) (id : File × Nat) :
    aget (ids.foldl removeOperatorId s).operators id = if id ∈ ids then none else aget s.operators id := by
  induction ids generalizing s with
  | nil => simp
  | cons i r ih =>
    simp only [List.foldl_cons]
    rw [ih, removeOperatorId_operators]
    by_cases h1 : id ∈ r
    · simp [h1]
    · by_cases h2 : id = i
      · subst h2; simp
      · simp [h1, h2]

/-- ids listed under a file carry that file -/
def ListedOwn (s : S) : Prop := ∀ g : File, ∀ id ∈ agetL s.inFiledOperators g, id.1 = g

theorem apply_listedOwn (s : S) (m : Mut) (h : ListedOwn s) : ListedOwn (apply s m) := by
  cases m with
  | oper f pos owner op =>
    intro g id hid
    simp only [apply, addOperator] at hid
    rw [agetL_apush] at hid
    split at hid
    · next e =>
      subst e
      rcases List.mem_append.mp hid with h1 | h1
      · exact h g id h1
      · simp at h1; rw [h1]
    · exact h g id hid
  | tdecl f t pos => exact h
  | tsuper f t v => exact h
  | tgeneric t v => exact h
  | tbind f p v => intro g id hid; simp only [apply] at hid; rw [(bindType_oper s f p v).2] at hid; exact h g id hid
  | tns f v => exact h
  | tusing f v => exact h
  | mtable f k v => exact h
  | madd o m => intro g id hid; simp only [apply] at hid; rw [(addMember_oper s o m).2] at hid; exact h g id hid
  | mset o f i => exact h
  | mto o i => intro g id hid; simp only [apply] at hid; rw [(addMemberToOwner_oper s o i).2] at hid; exact h g id hid

theorem build_listedOwn (ms : List Mut) : ListedOwn (build ms) := by
  unfold build
  suffices ∀ s, ListedOwn s → ListedOwn (ms.foldl apply s) from
    this S.new (by intro g id hid; simp [S.new, agetL, aget] at hid)
  induction ms with
  | nil => intro s h; exact h
  | cons m r ih => intro s h; exact ih _ (apply_listedOwn s m h)

theorem aget_remove_operators (s : S) (f : File) (id : File × Nat) :
    aget (remove s f).operators id = if id ∈ agetL s.inFiledOperators f then none else aget s.operators id := by
  have hfo : ∀ (t : S) (os : List MOwner), (os.foldl (removeFromOwner f) t).operators = t.operators ∧ (os.foldl (removeFromOwner f) t).inFiledOperators = t.inFiledOperators := by
    intro t os
    induction os generalizing t with
    | nil => exact ⟨rfl, rfl⟩
    | cons o r ih =>
      simp only [List.foldl_cons]; rw [(ih _).1, (ih _).2]
      unfold removeFromOwner; split <;> exact ⟨rfl, rfl⟩
  have hfm : ∀ (t : S) (items : List InFiledItem), (items.foldl dropMemberItem t).operators = t.operators ∧ (items.foldl dropMemberItem t).inFiledOperators = t.inFiledOperators := by
    intro t items
    induction items generalizing t with
    | nil => exact ⟨rfl, rfl⟩
    | cons i r ih =>
      simp only [List.foldl_cons]; rw [(ih _).1, (ih _).2]
      cases i <;> exact ⟨rfl, rfl⟩
  have h2 : ∀ t : S, (removeMembers t f).operators = t.operators ∧ (removeMembers t f).inFiledOperators = t.inFiledOperators := by
    intro t; unfold removeMembers; split
    · exact ⟨rfl, rfl⟩
    · rw [(hfo _ _).1, (hfo _ _).2, (hfm _ _).1, (hfm _ _).2]; exact ⟨rfl, rfl⟩
  have hti : ∀ (t : S) (ids : List TId), (ids.foldl (removeTypeId f) t).operators = t.operators ∧ (ids.foldl (removeTypeId f) t).inFiledOperators = t.inFiledOperators := by
    intro t ids
    induction ids generalizing t with
    | nil => exact ⟨rfl, rfl⟩
    | cons i r ih => simp only [List.foldl_cons]; rw [(ih _).1, (ih _).2]; exact ⟨rfl, rfl⟩
  have h3 : (removeTypes s f).operators = s.operators ∧ (removeTypes s f).inFiledOperators = s.inFiledOperators := by
    unfold removeTypes
    dsimp only
    split <;> split <;> simp [hti]
  have hr : (remove s f).operators = (removeOperators (removeMembers (removeTypes s f) f) f).operators := rfl
  rw [hr]
  unfold removeOperators
  rw [(h2 _).2, h3.2]
  cases hi : aget s.inFiledOperators f with
  | none =>
    simp only [agetL, hi, Option.getD_none, List.not_mem_nil, if_false]
    rw [(h2 _).1, h3.1]
  | some ids =>
    simp only [agetL, hi, Option.getD_some]
    rw [fold_removeOperatorId_operators]
    show (if id ∈ ids then none else aget (removeMembers (removeTypes s f) f).operators id) = _
    rw [(h2 _).1, h3.1]

def operMutFile : Mut → Option File
  | .oper f _ _ _ => some f
  | _ => none

theorem operVal_file {m : Mut} {id : File × Nat} {x : TId × Nat} (h : operVal m id = some x) : operMutFile m = some id.1 := by
  cases m with
  | oper f pos owner op =>
    simp only [operVal] at h
    split at h
    · next e => subst e; rfl
    · cases h
  | _ => cases h

theorem operLast_filter (ms : List Mut) (f : File) (id : File × Nat) (init : Option (TId × Nat)) :
    operLast (ms.filter fun m => operMutFile m ≠ some f) id init = if id.1 = f then init else operLast ms id init := by
  unfold operLast
  induction ms generalizing init with
  | nil => simp
  | cons m r ih =>
    rw [List.filter_cons]
    by_cases hg : operMutFile m = some f
    · rw [if_neg (by simpa using hg), ih]
      split
      · rfl
      · next hk =>
        simp only [List.foldl_cons]
        cases hv : operVal m id with
        | none => rfl
        | some v =>
          have := operVal_file hv
          rw [hg] at this
          exact absurd (Option.some.inj this).symm hk
    · rw [if_pos (by simpa using hg)]
      simp only [List.foldl_cons]
      rw [ih]
      split
      · next hk =>
        cases hv : operVal m id with
        | none => rfl
        | some v =>
          have := operVal_file hv
          rw [hk] at this
          exact absurd this hg
      · rfl

theorem operLast_none_stays (ms : List Mut) (id : File × Nat) (init : Option (TId × Nat))
    (h : (operLast ms id init).isSome = false) : init.isSome = false := by
  unfold operLast at h
  induction ms generalizing init with
  | nil => exact h
  | cons m r ih =>
    simp only [List.foldl_cons] at h
    have := ih _ h
    cases hv : operVal m id <;> simp_all

/-- **operator index: `remove_exact`** for the `operators` map: no operator of `f` is left and every other operator
is unchanged — what the other files' `add_operator` calls build. -/
theorem operators_remove_exact (ms : List Mut) (f : File) (id : File × Nat) :
    aget (remove (build ms) f).operators id = aget (build (ms.filter fun m => operMutFile m ≠ some f)).operators id := by
  rw [aget_remove_operators]
  have e : ∀ l : List Mut, aget (build l).operators id = operLast l id none := by
    intro l; unfold build; rw [operators_fold]; rfl
  rw [e, e, operLast_filter]
  by_cases hk : id.1 = f
  · simp only [hk, if_true]
    split
    · rfl
    · next hne =>
      cases hs : operLast ms id none with
      | none => rfl
      | some v =>
        exfalso
        apply hne
        have := build_operListed ms id (by rw [e, hs]; rfl)
        rw [hk] at this
        exact this
  · simp only [hk, if_false]
    split
    · next hin => exact absurd (build_listedOwn ms f id hin) hk
    · rfl

end Index.Sym
