import EmmyVerif.Model.Order
import EmmyVerif.Lemmas.Perm
/-! Lemmas about the `Order` model: batch sorting, grouping, context order. -/
namespace Order
open PermLemmas PermModel

theorem batchOrder_perm_invariant {l₁ l₂ : List FileId} (h : l₁.Perm l₂) : batchOrder l₁ = batchOrder l₂ :=
  sortNat_perm_invariant h

theorem batchOrder_perm (l : List FileId) : (batchOrder l).Perm l := isort_perm _ _

theorem batchOrder_sorted (l : List FileId) : (batchOrder l).Pairwise (fun a b => a ≤ b) := by
  have := pairwise_isort _ natLe_trans natLe_total l
  unfold batchOrder
  exact this.imp (by intro a b h; simpa using h)

/-! ### grouping -/

def keys (g : List (Ws × List FileId)) : List Ws := g.map (·.1)

theorem keys_groupInsert (w : Ws) (f : FileId) (g : List (Ws × List FileId)) :
    keys (groupInsert w f g) = if w ∈ keys g then keys g else keys g ++ [w] := by
  induction g with
  | nil => simp [groupInsert, keys]
  | cons e rest ih =>
    obtain ⟨w', fs⟩ := e
    unfold groupInsert
    by_cases h : w' = w
    · subst h; simp [keys]
    · simp only [h, if_false]
      have h' : ¬ w = w' := fun x => h x.symm
      unfold keys at ih ⊢
      simp only [List.map_cons, List.mem_cons, h', false_or, ih]
      split <;> simp

theorem nodup_keys_groupInsert (w : Ws) (f : FileId) (g : List (Ws × List FileId))
    (h : (keys g).Nodup) : (keys (groupInsert w f g)).Nodup := by
  rw [keys_groupInsert]
  split
  · exact h
  · rename_i hn
    rw [List.nodup_append]
    refine ⟨h, by simp, ?_⟩
    intro a ha b hb
    simp only [List.mem_singleton] at hb
    subst hb
    intro hab; subst hab; exact hn ha

theorem nodup_keys_foldl (wsOf : FileId → Ws) (files : List FileId) (g : List (Ws × List FileId))
    (h : (keys g).Nodup) :
    (keys (files.foldl (fun acc f => groupInsert (wsOf f) f acc) g)).Nodup := by
  induction files generalizing g with
  | nil => exact h
  | cons f fs ih => exact ih _ (nodup_keys_groupInsert _ _ _ h)

/-- the workspace keys of the grouping map are pairwise distinct -/
theorem nodup_keys_groupAll (wsOf : FileId → Ws) (files : List FileId) :
    (keys (groupAll wsOf files)).Nodup :=
  nodup_keys_foldl wsOf files [] (by simp [keys])

/-! ### contexts -/

theorem wsLe_trans : ∀ a b c : Ws × List FileId, wsLe a b = true → wsLe b c = true → wsLe a c = true := by
  intro a b c h1 h2
  unfold wsLe at *
  simp only [decide_eq_true_eq] at *
  exact Nat.le_trans h1 h2

theorem wsLe_total : ∀ a b : Ws × List FileId, (wsLe a b || wsLe b a) = true := by
  intro a b
  unfold wsLe
  simp only [Bool.or_eq_true, decide_eq_true_eq]
  exact Nat.le_total _ _

/-- the only workspace id that is neither STD, nor a library, nor remote is MAIN -/
theorem main_key (a : Nat × List Nat)
    (h : (!(isLibrary a.1 || isRemote a.1) && !decide (a.1 = 0)) = true) : a.1 = 1 := by
  unfold isLibrary isRemote at h
  simp only [Bool.and_eq_true, Bool.not_eq_true', Bool.or_eq_false_iff, decide_eq_false_iff_not] at h
  obtain ⟨⟨h1, h2⟩, h3⟩ := h
  have h1' : ¬ (3 ≤ a.1) := h1
  have h2' : ¬ (a.1 = 2) := h2
  have h3' : ¬ (a.1 = 0) := h3
  generalize a.1 = n at *
  omega

/-- **The context order does not depend on the hash map's iteration order.** -/
theorem contexts_perm_invariant {e₁ e₂ : List (Ws × List FileId)} (h : e₁.Perm e₂)
    (nd : (keys e₁).Nodup) : contexts e₁ = contexts e₂ := by
  have nd' : (e₁.map (fun x => x.1)).Nodup := nd
  unfold contexts
  dsimp only
  congr 1
  · apply isort_perm_invariant wsLe wsLe_trans wsLe_total
    · intro a b ha hb hab hba
      have ha' : a ∈ e₁ := by
        rcases List.mem_append.mp ha with x | x
        · exact (List.mem_filter.mp x).1
        · exact (List.mem_filter.mp (List.mem_filter.mp x).1).1
      have hb' : b ∈ e₁ := by
        rcases List.mem_append.mp hb with x | x
        · exact (List.mem_filter.mp x).1
        · exact (List.mem_filter.mp (List.mem_filter.mp x).1).1
      have hk : a.1 = b.1 := by
        unfold wsLe at hab hba
        simp only [decide_eq_true_eq] at hab hba
        exact Nat.le_antisymm hab hba
      exact inj_of_nodup_map (fun x => x.1) nd' ha' hb' hk
    · exact List.Perm.append (h.filter _) ((h.filter _).filter _)
  · rw [List.filter_filter, List.filter_filter]
    apply filter_perm_eq_of_key (fun x => x.1) _ h nd'
    intro a b ha hb
    rw [main_key a ha, main_key b hb]

/-- the contexts are exactly the map's entries, re-ordered -/
theorem contexts_perm (e : List (Ws × List FileId)) : (contexts e).Perm e := by
  unfold contexts
  dsimp only
  refine (List.Perm.append (isort_perm _ _) (List.Perm.refl _)).trans ?_
  have h1 : ∀ (p : Ws × List FileId → Bool) (l : List (Ws × List FileId)),
      (l.filter p ++ l.filter (fun x => !p x)).Perm l := by
    intro p l
    exact (List.filter_append_perm p l)
  have := h1 (fun e => isLibrary e.1 || isRemote e.1) (e.filter (fun e => !decide (e.1 = 0)))
  refine List.Perm.trans ?_ (h1 (fun e => decide (e.1 = 0)) e)
  rw [List.append_assoc]
  exact List.Perm.append_left _ this

end Order

namespace Order
open PermLemmas PermModel

/-! ### the tie-break comparator is a total order -/

def rank (metas : List Nat) (x : Nat) : Nat := if metas.contains x then 0 else 1

theorem tieLe_iff (metas : List Nat) (a b : Nat) :
    tieLe metas a b = true ↔ (rank metas a < rank metas b ∨ (rank metas a = rank metas b ∧ a ≤ b)) := by
  unfold tieLe rank
  cases ha : metas.contains a <;> cases hb : metas.contains b <;> simp

theorem tieLe_trans (metas : List Nat) :
    ∀ a b c : Nat, tieLe metas a b = true → tieLe metas b c = true → tieLe metas a c = true := by
  intro a b c h1 h2
  rw [tieLe_iff] at *
  omega

theorem tieLe_total (metas : List Nat) : ∀ a b : Nat, (tieLe metas a b || tieLe metas b a) = true := by
  intro a b
  rw [Bool.or_eq_true, tieLe_iff, tieLe_iff]
  omega

theorem tieLe_antisymm (metas : List Nat) :
    ∀ a b : Nat, tieLe metas a b = true → tieLe metas b a = true → a = b := by
  intro a b h1 h2
  rw [tieLe_iff] at *
  omega

/-- the order in which ready files are queued does not depend on the order in which they were found
(adjacency lists, the zero-in-degree scan): the sort with the tie-break comparator has a unique result -/
theorem tieSort_perm_invariant (metas : List Nat) {l₁ l₂ : List Nat} (h : l₁.Perm l₂) :
    isort (tieLe metas) l₁ = isort (tieLe metas) l₂ :=
  isort_perm_invariant _ (tieLe_trans metas) (tieLe_total metas)
    (fun a b _ _ => tieLe_antisymm metas a b) h

theorem tieSort_sorted (metas : List Nat) (l : List Nat) :
    (isort (tieLe metas) l).Pairwise (fun a b => tieLe metas a b = true) :=
  pairwise_isort _ (tieLe_trans metas) (tieLe_total metas) l

end Order
