import EmmyVerif.Lemmas.Climb
/-!
# The round trip `climb (flat e) = ok e` for every tree that `Fits`
-/
namespace Climb
open Gen.Climb (Tok UnOp BinOp)

variable {T : Table}

/-- reading `e` followed by `rest` = continuing the operator loop with `e` completed -/
def AbsorbStmt (T : Table) (e : Expr) : Prop :=
  ∀ (limit : Int) (rest : List Tok) (res : Expr × List Tok) (G : Nat), 1 ≤ G → Fits T limit e →
    OkAfter T e rest → (∀ g, G ≤ g → loop T g limit e rest = .ok res) →
    ∀ f, G + need e ≤ f → sub T f limit (flat e ++ rest) = .ok res

/-- reading the prefix expression `p` followed by `rest` = continuing the suffix loop with `p` completed -/
def AbsorbPStmt (T : Table) (p : Expr) : Prop :=
  IsPrefix p = true → Fits T 0 p →
  ∀ (limit : Int) (rest : List Tok) (res : Expr × List Tok) (G : Nat), 1 ≤ G →
    rest.head? ≠ some .TkArrow → (∀ g, G ≤ g → suffix T g limit p rest = .ok res) →
    ∀ f, G + need p ≤ f + 1 → sub T f limit (flat p ++ rest) = .ok res

def ArgsStmt (T : Table) (as : Args) : Prop :=
  as ≠ .nil → FitsArgs T as → ∀ (rest : List Tok) (f : Nat), needArgs as ≤ f →
    args T f (flatArgs as ++ .TkRightParen :: rest) = .ok (as, rest)

def FieldsStmt (T : Table) (fs : Fields) : Prop :=
  fs ≠ .nil → FitsFields T fs → ∀ (rest : List Tok) (f : Nat), needFields fs ≤ f →
    fieldsP T f (flatFields fs ++ .TkRightBrace :: rest) = .ok (fs, rest)

def FieldStmt (T : Table) (fd : Field) : Prop :=
  FitsField T fd → ∀ (c : Tok) (rest : List Tok) (f : Nat), (c = .TkComma ∨ c = .TkRightBrace) →
    needField fd ≤ f → fieldP T f (flatField fd ++ c :: rest) = .ok (fd, c :: rest)

theorem need_pos : ∀ e : Expr, 1 ≤ need e := by
  intro e; cases e <;> simp [need] <;> omega

theorem fits_prefix (e : Expr) (l l' : Int) (hp : IsPrefix e = true) (h : Fits T l e) : Fits T l' e := by
  cases e <;> simp [IsPrefix] at hp <;> simp only [Fits] at h ⊢ <;> exact h

theorem rstops_prefix (e : Expr) (L : Int) (hp : IsPrefix e = true) : RStops T e L := by
  cases e <;> simp [IsPrefix] at hp <;> simp [RStops]

theorem okAfter_prefix (p e : Expr) (rest : List Tok) (hp : IsPrefix p = true) (h : OkAfter T e rest) :
    OkAfter T p rest := by
  cases rest with
  | nil => trivial
  | cons t r =>
    obtain ⟨a, b, c, d, _⟩ := h
    exact ⟨a, b, c, d, Or.inr (rstops_prefix p _ hp)⟩

/-- after a complete operand, a closing token stops the operator loop -/
theorem loop_closer (g : Nat) (limit : Int) (cm : Expr) (t : Tok) (ts : List Tok) (h1 : t ≠ .TkTernary)
    (h2 : T.binaryOf t = .OpNop) (hg : 1 ≤ g) : loop T g limit cm (t :: ts) = .ok (cm, t :: ts) := by
  obtain ⟨g', rfl⟩ : ∃ g', g = g' + 1 := ⟨g - 1, by omega⟩
  exact loop_stop g' limit cm t ts h1 (Or.inl h2)

theorem okAfter_closer (e : Expr) (t : Tok) (ts : List Tok) (h1 : isSuffixStart t = false) (h2 : t ≠ .TkTernary)
    (h3 : t ≠ .TkArrow) (h4 : unsupportedArgStart t = false) (h5 : T.binaryOf t = .OpNop) :
    OkAfter T e (t :: ts) := ⟨h1, h2, h3, h4, Or.inl h5⟩

/-- the general statement follows from the prefix statement -/
theorem absorb_of_prefix (e : Expr) (hp : IsPrefix e = true) (hP : AbsorbPStmt T e) : AbsorbStmt T e := by
  intro limit rest res G hG hfit hok hloop f hf
  refine hP hp (fits_prefix e _ _ hp hfit) limit rest res (G + 1) (by omega) ?_ ?_ f (by omega)
  · cases rest with
    | nil => simp
    | cons t r => intro h; simp at h; exact hok.2.2.1 h
  · intro g hg
    obtain ⟨g', rfl⟩ : ∃ g', g = g' + 1 := ⟨g - 1, by omega⟩
    rw [suffix_stop]
    · exact hloop g' (by omega)
    · intro t ht
      cases rest with
      | nil => simp at ht
      | cons t' r => simp at ht; subst ht; exact ⟨hok.1, hok.2.2.2.1⟩

/-- the two tokens that can follow a table field -/
theorem closer_facts (hT : T.Good) (c : Tok) (hc : c = .TkComma ∨ c = .TkRightBrace) :
    isSuffixStart c = false ∧ c ≠ .TkTernary ∧ c ≠ .TkArrow ∧ unsupportedArgStart c = false ∧
      T.binaryOf c = .OpNop := by
  rcases hc with rfl | rfl
  · exact ⟨by decide, by decide, by decide, by decide, hT.comma_not_binary⟩
  · exact ⟨by decide, by decide, by decide, by decide, hT.rbrace_not_binary⟩

theorem flatField_head (hT : T.Good) (fd : Field) (h : FitsField T fd) :
    ∃ t ts, flatField fd = t :: ts ∧ t ≠ .TkRightBrace := by
  cases fd with
  | pos e =>
    simp only [FitsField] at h
    obtain ⟨t, ts, h1, h2⟩ := flat_head e 0 h
    exact ⟨t, ts, by simp [flatField, h1], (startTok_ne t h2).2.1⟩
  | named e => exact ⟨.TkName, _, by simp [flatField]; rfl, by decide⟩
  | keyed k e => exact ⟨.TkLeftBracket, _, by simp [flatField]; rfl, by decide⟩

mutual
theorem both (hT : T.Good) : ∀ e : Expr, AbsorbStmt T e ∧ AbsorbPStmt T e
  | .lit t => by
    refine ⟨?_, fun hp => by simp [IsPrefix] at hp⟩
    intro limit rest res G hG hfit _ hloop f hf
    simp only [Fits] at hfit
    obtain ⟨f', rfl⟩ : ∃ f', f = f' + 1 := ⟨f - 1, by simp [need] at hf; omega⟩
    simp only [flat, List.cons_append, List.nil_append]
    rw [sub_lit f' limit t rest (hT.lit_not_unary t hfit) hfit]
    exact hloop f' (by simp [need] at hf; omega)
  | .name => by
    have hP : AbsorbPStmt T .name := by
      intro _ _ limit rest res G hG harrow hsuf f hf
      obtain ⟨f', rfl⟩ : ∃ f', f = f' + 1 := ⟨f - 1, by simp [need] at hf; omega⟩
      simp only [flat, List.cons_append, List.nil_append]
      rw [sub_name f' limit rest hT.name_not_unary harrow]
      exact hsuf f' (by simp [need] at hf; omega)
    exact ⟨absorb_of_prefix _ rfl hP, hP⟩
  | .paren e1 => by
    have ih := (both hT e1).1
    have hP : AbsorbPStmt T (.paren e1) := by
      intro _ hfit limit rest res G hG _ hsuf f hf
      simp only [Fits] at hfit
      have hn := need_pos e1
      obtain ⟨f', rfl⟩ : ∃ f', f = f' + 1 := ⟨f - 1, by simp [need] at hf; omega⟩
      simp only [need] at hf
      have hsub : sub T f' 0 (flat e1 ++ .TkRightParen :: rest) = .ok (e1, .TkRightParen :: rest) :=
        ih 0 (.TkRightParen :: rest) _ 1 (by omega) hfit
          (okAfter_closer e1 _ _ (by decide) (by decide) (by decide) (by decide) hT.rparen_not_binary)
          (fun g hg => loop_closer g 0 e1 _ _ (by decide) hT.rparen_not_binary hg) f' (by omega)
      simp only [flat, List.cons_append, List.append_assoc, List.nil_append]
      rw [sub_paren f' limit _ rest e1 hT.lparen_not_unary hsub]
      exact hsuf f' (by omega)
    exact ⟨absorb_of_prefix _ rfl hP, hP⟩
  | .un op x => by
    refine ⟨?_, fun hp => by simp [IsPrefix] at hp⟩
    have ih := (both hT x).1
    intro limit rest res G hG hfit hok hloop f hf
    simp only [Fits] at hfit
    obtain ⟨hop, hfx⟩ := hfit
    have hn := need_pos x
    simp only [need] at hf
    obtain ⟨f', rfl⟩ : ∃ f', f = f' + 1 := ⟨f - 1, by omega⟩
    have hokx : OkAfter T x rest := by
      cases rest with
      | nil => trivial
      | cons t r =>
        obtain ⟨a, b, c, d, e⟩ := hok
        refine ⟨a, b, c, d, ?_⟩
        rcases e with e | e
        · exact Or.inl e
        · simp only [RStops] at e; exact Or.inr e.2
    have hsub : sub T f' T.unaryPrio (flat x ++ rest) = .ok (x, rest) := by
      refine ih T.unaryPrio rest _ 1 (by omega) hfx hokx ?_ f' (by omega)
      intro g hg
      obtain ⟨g', rfl⟩ : ∃ g', g = g' + 1 := ⟨g - 1, by omega⟩
      cases rest with
      | nil => exact loop_nil g' _ _
      | cons t r =>
        obtain ⟨_, b, _, _, e⟩ := hok
        refine loop_stop g' _ _ t r b ?_
        rcases e with e | e
        · exact Or.inl e
        · simp only [RStops] at e; exact Or.inr e.1
    simp only [flat, List.cons_append]
    have hu : T.unaryOf (unTok op) ≠ .OpNop := by rw [hT.un_tok op hop]; exact hop
    rw [sub_unary f' limit (unTok op) _ rest x hu hsub, hT.un_tok op hop]
    exact hloop f' (by omega)
  | .bin op l r => by
    refine ⟨?_, fun hp => by simp [IsPrefix] at hp⟩
    have ihl := (both hT l).1
    have ihr := (both hT r).1
    intro limit rest res G hG hfit hok hloop f hf
    simp only [Fits] at hfit
    obtain ⟨hop, hlim, hfl, hrs, hfr⟩ := hfit
    simp only [need] at hf
    have hnr := need_pos r
    obtain ⟨p1, p2, p3, p4, _⟩ := binTok_props op hop
    have hb : T.binaryOf (binTok op) = op := hT.bin_tok op hop
    have hokr : OkAfter T r rest := by
      cases rest with
      | nil => trivial
      | cons t ts =>
        obtain ⟨a, b, c, d, e⟩ := hok
        refine ⟨a, b, c, d, ?_⟩
        rcases e with e | e
        · exact Or.inl e
        · simp only [RStops] at e; exact Or.inr e.2
    simp only [flat, List.append_assoc, List.cons_append]
    refine ihl limit (binTok op :: (flat r ++ rest)) res (G + need r + 1) (by omega) hfl
      ⟨p1, p2, p3, p4, Or.inr (by rw [hb]; exact hrs)⟩ ?_ f (by omega)
    intro g hg
    obtain ⟨g', rfl⟩ : ∃ g', g = g' + 1 := ⟨g - 1, by omega⟩
    have hsub : sub T g' (T.right (T.binaryOf (binTok op))) (flat r ++ rest) = .ok (r, rest) := by
      rw [hb]
      refine ihr (T.right op) rest _ 1 (by omega) hfr hokr ?_ g' (by omega)
      intro g hg
      obtain ⟨g'', rfl⟩ : ∃ g'', g = g'' + 1 := ⟨g - 1, by omega⟩
      cases rest with
      | nil => exact loop_nil g'' _ _
      | cons t ts =>
        obtain ⟨_, b, _, _, e⟩ := hok
        refine loop_stop g'' _ _ t ts b ?_
        rcases e with e | e
        · exact Or.inl e
        · simp only [RStops] at e; exact Or.inr e.1
    rw [loop_step g' limit l r (binTok op) _ rest p2 (by rw [hb]; exact hop) (by rw [hb]; exact hlim) hsub, hb]
    exact hloop g' (by omega)
  | .dot p => by
    have ih := (both hT p).2
    have hP : AbsorbPStmt T (.dot p) := by
      intro _ hfit limit rest res G hG _ hsuf f hf
      simp only [Fits] at hfit
      simp only [need] at hf
      simp only [flat, List.append_assoc, List.cons_append, List.nil_append]
      refine ih hfit.1 hfit.2 limit (.TkDot :: .TkName :: rest) res (G + 1) (by omega) (by simp) ?_ f (by omega)
      intro g hg
      obtain ⟨g', rfl⟩ : ∃ g', g = g' + 1 := ⟨g - 1, by omega⟩
      rw [suffix_dot]
      exact hsuf g' (by omega)
    exact ⟨absorb_of_prefix _ rfl hP, hP⟩
  | .idx p k => by
    have ih := (both hT p).2
    have ihk := (both hT k).1
    have hP : AbsorbPStmt T (.idx p k) := by
      intro _ hfit limit rest res G hG _ hsuf f hf
      simp only [Fits] at hfit
      simp only [need] at hf
      have hnk := need_pos k
      simp only [flat, List.append_assoc, List.cons_append, List.nil_append]
      refine ih hfit.1 hfit.2.1 limit (.TkLeftBracket :: (flat k ++ .TkRightBracket :: rest)) res (G + need k + 1)
        (by omega) (by simp) ?_ f (by omega)
      intro g hg
      obtain ⟨g', rfl⟩ : ∃ g', g = g' + 1 := ⟨g - 1, by omega⟩
      have hsub : sub T g' 0 (flat k ++ .TkRightBracket :: rest) = .ok (k, .TkRightBracket :: rest) :=
        ihk 0 (.TkRightBracket :: rest) _ 1 (by omega) hfit.2.2
          (okAfter_closer k _ _ (by decide) (by decide) (by decide) (by decide) hT.rbracket_not_binary)
          (fun g hg => loop_closer g 0 k _ _ (by decide) hT.rbracket_not_binary hg) g' (by omega)
      rw [suffix_idx g' limit p k _ rest hsub]
      exact hsuf g' (by omega)
    exact ⟨absorb_of_prefix _ rfl hP, hP⟩
  | .call p as => by
    have ih := (both hT p).2
    have iha := bothArgs hT as
    have hP : AbsorbPStmt T (.call p as) := by
      intro _ hfit limit rest res G hG _ hsuf f hf
      simp only [Fits] at hfit
      simp only [need] at hf
      simp only [flat, List.append_assoc, List.cons_append, List.nil_append]
      refine ih hfit.1 hfit.2.1 limit (.TkLeftParen :: (flatArgs as ++ .TkRightParen :: rest)) res
        (G + needArgs as + 1) (by omega) (by simp) ?_ f (by omega)
      intro g hg
      obtain ⟨g', rfl⟩ : ∃ g', g = g' + 1 := ⟨g - 1, by omega⟩
      cases as with
      | nil =>
        simp only [flatArgs, List.nil_append]
        rw [suffix_call_nil]
        exact hsuf g' (by omega)
      | cons a as' =>
        have hargs := iha (by simp) hfit.2.2 rest g' (by omega)
        have hh : (flatArgs (.cons a as') ++ .TkRightParen :: rest).head? ≠ some .TkRightParen := by
          simp only [FitsArgs] at hfit
          obtain ⟨t, ts, h1, h2⟩ := flat_head a 0 hfit.2.2.1
          have h2 := (startTok_ne t h2).1
          cases as' <;> simp [flatArgs, h1, h2]
        rw [suffix_call g' limit p _ _ rest hh hargs]
        exact hsuf g' (by omega)
    exact ⟨absorb_of_prefix _ rfl hP, hP⟩
  | .mcall p as => by
    have ih := (both hT p).2
    have iha := bothArgs hT as
    have hP : AbsorbPStmt T (.mcall p as) := by
      intro _ hfit limit rest res G hG _ hsuf f hf
      simp only [Fits] at hfit
      simp only [need] at hf
      simp only [flat, List.append_assoc, List.cons_append, List.nil_append]
      refine ih hfit.1 hfit.2.1 limit (.TkColon :: .TkName :: .TkLeftParen :: (flatArgs as ++ .TkRightParen :: rest)) res
        (G + needArgs as + 1) (by omega) (by simp) ?_ f (by omega)
      intro g hg
      obtain ⟨g', rfl⟩ : ∃ g', g = g' + 1 := ⟨g - 1, by omega⟩
      cases as with
      | nil =>
        simp only [flatArgs, List.nil_append]
        rw [suffix_mcall_nil]
        exact hsuf g' (by omega)
      | cons a as' =>
        have hargs := iha (by simp) hfit.2.2 rest g' (by omega)
        have hh : (flatArgs (.cons a as') ++ .TkRightParen :: rest).head? ≠ some .TkRightParen := by
          simp only [FitsArgs] at hfit
          obtain ⟨t, ts, h1, h2⟩ := flat_head a 0 hfit.2.2.1
          have h2 := (startTok_ne t h2).1
          cases as' <;> simp [flatArgs, h1, h2]
        rw [suffix_mcall g' limit p _ _ rest hh hargs]
        exact hsuf g' (by omega)
    exact ⟨absorb_of_prefix _ rfl hP, hP⟩
  | .table fs => by
    refine ⟨?_, fun hp => by simp [IsPrefix] at hp⟩
    have ihf := bothFields hT fs
    intro limit rest res G hG hfit _ hloop f hf
    simp only [Fits] at hfit
    simp only [need] at hf
    obtain ⟨f', rfl⟩ : ∃ f', f = f' + 1 := ⟨f - 1, by omega⟩
    simp only [flat, List.cons_append, List.append_assoc, List.nil_append]
    have htab : tableP T f' (flatFields fs ++ .TkRightBrace :: rest) = .ok (fs, rest) := by
      obtain ⟨f'', rfl⟩ : ∃ f'', f' = f'' + 1 := ⟨f' - 1, by omega⟩
      cases fs with
      | nil => simp only [flatFields, List.nil_append]; exact tableP_nil f'' rest
      | cons fd fs' =>
        have hh : (flatFields (.cons fd fs') ++ .TkRightBrace :: rest).head? ≠ some .TkRightBrace := by
          simp only [FitsFields] at hfit
          obtain ⟨t, ts, h1, h2⟩ := flatField_head hT fd hfit.1
          cases fs' <;> simp [flatFields, h1, h2]
        rw [tableP_fields f'' _ hh]
        exact ihf (by simp) hfit rest f'' (by omega)
    rw [sub_table f' limit _ rest fs hT.lbrace_not_unary htab]
    exact hloop f' (by omega)
  | .closure n va => by
    refine ⟨?_, fun hp => by simp [IsPrefix] at hp⟩
    intro limit rest res G hG _ _ hloop f hf
    simp only [need] at hf
    obtain ⟨f', rfl⟩ : ∃ f', f = f' + 1 := ⟨f - 1, by omega⟩
    have e : flat (.closure n va) ++ rest =
        .TkFunction :: .TkLeftParen :: (paramToks n va ++ .TkRightParen :: .TkEnd :: rest) := by
      simp [flat, List.append_assoc]
    rw [e, sub_closure f' limit n va rest hT.function_not_unary]
    exact hloop f' (by omega)
theorem bothFields (hT : T.Good) : ∀ fs : Fields, FieldsStmt T fs
  | .nil => fun h => absurd rfl h
  | .cons fd fs' => by
    have ihd := bothField hT fd
    have ihr := bothFields hT fs'
    intro _ hfit rest f hf
    simp only [FitsFields] at hfit
    simp only [needFields] at hf
    obtain ⟨f', rfl⟩ : ∃ f', f = f' + 1 := ⟨f - 1, by omega⟩
    cases fs' with
    | nil =>
      simp only [flatFields]
      exact fieldsP_last f' _ rest fd (ihd hfit.1 .TkRightBrace rest f' (Or.inr rfl) (by omega))
    | cons fd2 fs2 =>
      simp only [flatFields, List.append_assoc, List.cons_append]
      have h1 := ihd hfit.1 .TkComma (flatFields (.cons fd2 fs2) ++ .TkRightBrace :: rest) f' (Or.inl rfl) (by omega)
      have hh : (flatFields (.cons fd2 fs2) ++ .TkRightBrace :: rest).head? ≠ some .TkRightBrace := by
        simp only [FitsFields] at hfit
        obtain ⟨t, ts, g1, g2⟩ := flatField_head hT fd2 hfit.2.1
        cases fs2 <;> simp [flatFields, g1, g2]
      have h2 := ihr (by simp) hfit.2 rest f' (by simp only [needFields] at hf ⊢; omega)
      exact fieldsP_more f' _ _ rest fd _ h1 hh h2
theorem bothField (hT : T.Good) : ∀ fd : Field, FieldStmt T fd
  | .pos e => by
    have ih := (both hT e).1
    intro hfit c rest f hc hf
    simp only [FitsField] at hfit
    simp only [needField] at hf
    obtain ⟨f', rfl⟩ : ∃ f', f = f' + 1 := ⟨f - 1, by omega⟩
    have hcl := closer_facts hT c hc
    have hsub : sub T f' 0 (flat e ++ c :: rest) = .ok (e, c :: rest) :=
      ih 0 (c :: rest) _ 1 (by omega) hfit (okAfter_closer e _ _ hcl.1 hcl.2.1 hcl.2.2.1 hcl.2.2.2.1 hcl.2.2.2.2)
        (fun g hg => loop_closer g 0 e _ _ hcl.2.1 hcl.2.2.2.2 hg) f' (by omega)
    obtain ⟨t, ts, h1, h2⟩ := flat_head e 0 hfit
    obtain ⟨_, _, n3, n4, _⟩ := startTok_ne t h2
    simp only [flatField]
    rw [h1, List.cons_append] at hsub ⊢
    refine fieldP_pos f' t _ (c :: rest) e n3 ?_ n4 hsub
    intro ht; subst ht
    exact flat_name_second hT e 0 hfit ts h1 (c :: rest) (by rcases hc with rfl | rfl <;> simp)
  | .named e => by
    have ih := (both hT e).1
    intro hfit c rest f hc hf
    simp only [FitsField] at hfit
    simp only [needField] at hf
    obtain ⟨f', rfl⟩ : ∃ f', f = f' + 1 := ⟨f - 1, by omega⟩
    have hcl := closer_facts hT c hc
    have hsub : sub T f' 0 (flat e ++ c :: rest) = .ok (e, c :: rest) :=
      ih 0 (c :: rest) _ 1 (by omega) hfit (okAfter_closer e _ _ hcl.1 hcl.2.1 hcl.2.2.1 hcl.2.2.2.1 hcl.2.2.2.2)
        (fun g hg => loop_closer g 0 e _ _ hcl.2.1 hcl.2.2.2.2 hg) f' (by omega)
    simp only [flatField, List.cons_append]
    exact fieldP_named f' _ (c :: rest) e hsub
  | .keyed k e => by
    have ihk := (both hT k).1
    have ih := (both hT e).1
    intro hfit c rest f hc hf
    simp only [FitsField] at hfit
    simp only [needField] at hf
    obtain ⟨f', rfl⟩ : ∃ f', f = f' + 1 := ⟨f - 1, by omega⟩
    have hcl := closer_facts hT c hc
    have hsub : sub T f' 0 (flat e ++ c :: rest) = .ok (e, c :: rest) :=
      ih 0 (c :: rest) _ 1 (by omega) hfit.2 (okAfter_closer e _ _ hcl.1 hcl.2.1 hcl.2.2.1 hcl.2.2.2.1 hcl.2.2.2.2)
        (fun g hg => loop_closer g 0 e _ _ hcl.2.1 hcl.2.2.2.2 hg) f' (by omega)
    have hsubk : sub T f' 0 (flat k ++ .TkRightBracket :: .TkAssign :: (flat e ++ c :: rest)) =
        .ok (k, .TkRightBracket :: .TkAssign :: (flat e ++ c :: rest)) :=
      ihk 0 _ _ 1 (by omega) hfit.1
        (okAfter_closer k _ _ (by decide) (by decide) (by decide) (by decide) hT.rbracket_not_binary)
        (fun g hg => loop_closer g 0 k _ _ (by decide) hT.rbracket_not_binary hg) f' (by omega)
    simp only [flatField, List.cons_append, List.append_assoc]
    exact fieldP_keyed f' _ _ (c :: rest) k e hsubk hsub
theorem bothArgs (hT : T.Good) : ∀ as : Args, ArgsStmt T as
  | .nil => fun h => absurd rfl h
  | .cons a as' => by
    have iha := (both hT a).1
    have ihr := bothArgs hT as'
    intro _ hfit rest f hf
    simp only [FitsArgs] at hfit
    simp only [needArgs] at hf
    obtain ⟨f', rfl⟩ : ∃ f', f = f' + 1 := ⟨f - 1, by omega⟩
    cases as' with
    | nil =>
      simp only [flatArgs]
      have hsub : sub T f' 0 (flat a ++ .TkRightParen :: rest) = .ok (a, .TkRightParen :: rest) :=
        iha 0 (.TkRightParen :: rest) _ 1 (by omega) hfit.1
          (okAfter_closer a _ _ (by decide) (by decide) (by decide) (by decide) hT.rparen_not_binary)
          (fun g hg => loop_closer g 0 a _ _ (by decide) hT.rparen_not_binary hg) f' (by omega)
      exact args_last f' _ rest a hsub
    | cons b bs =>
      simp only [flatArgs, List.append_assoc, List.cons_append]
      have hsub : sub T f' 0 (flat a ++ .TkComma :: (flatArgs (.cons b bs) ++ .TkRightParen :: rest)) =
          .ok (a, .TkComma :: (flatArgs (.cons b bs) ++ .TkRightParen :: rest)) :=
        iha 0 _ _ 1 (by omega) hfit.1
          (okAfter_closer a _ _ (by decide) (by decide) (by decide) (by decide) hT.comma_not_binary)
          (fun g hg => loop_closer g 0 a _ _ (by decide) hT.comma_not_binary hg) f' (by omega)
      have hh : (flatArgs (.cons b bs) ++ .TkRightParen :: rest).head? ≠ some .TkRightParen := by
        simp only [FitsArgs] at hfit
        obtain ⟨t, ts, h1, h2⟩ := flat_head b 0 hfit.2.1
        have h2 := (startTok_ne t h2).1
        cases bs <;> simp [flatArgs, h1, h2]
      have hrest := ihr (by simp) hfit.2 rest f' (by simp only [needArgs] at hf ⊢; omega)
      exact args_more f' _ _ rest a _ hsub hh hrest
end

mutual
theorem need_le : ∀ e : Expr, need e ≤ 4 * (flat e).length
  | .lit _ => by simp [need, flat]
  | .name => by simp [need, flat]
  | .paren e => by have := need_le e; simp [need, flat]; omega
  | .un _ x => by have := need_le x; simp [need, flat]; omega
  | .bin _ l r => by have := need_le l; have := need_le r; simp [need, flat]; omega
  | .dot p => by have := need_le p; simp [need, flat]; omega
  | .idx p k => by have := need_le p; have := need_le k; simp [need, flat]; omega
  | .call p as => by have := need_le p; have := needArgs_le as; simp [need, flat]; omega
  | .mcall p as => by have := need_le p; have := needArgs_le as; simp [need, flat]; omega
  | .table fs => by have := needFields_le fs; simp [need, flat]; omega
  | .closure n va => by simp [need, flat]; omega
theorem needArgs_le : ∀ as : Args, needArgs as ≤ 4 * (flatArgs as).length + 2
  | .nil => by simp [needArgs]
  | .cons a .nil => by have := need_le a; simp [needArgs, flatArgs]; omega
  | .cons a (.cons b bs) => by
    have := need_le a; have := needArgs_le (.cons b bs); simp [needArgs, flatArgs] at *; omega
theorem needFields_le : ∀ fs : Fields, needFields fs ≤ 4 * (flatFields fs).length + 4
  | .nil => by simp [needFields]
  | .cons a .nil => by have := needField_le a; simp [needFields, flatFields]; omega
  | .cons a (.cons b bs) => by
    have := needField_le a; have := needFields_le (.cons b bs); simp [needFields, flatFields] at *; omega
theorem needField_le : ∀ fd : Field, needField fd ≤ 4 * (flatField fd).length + 2
  | .pos e => by have := need_le e; simp [needField, flatField]; omega
  | .named e => by have := need_le e; simp [needField, flatField]; omega
  | .keyed k e => by have := need_le k; have := need_le e; simp [needField, flatField]; omega
end

end Climb
