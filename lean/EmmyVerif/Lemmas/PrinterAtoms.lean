import EmmyVerif.Lemmas.Printer
/-!
# print_atoms at full strength: which text atoms the printer emits, and in which order

`Ev B P m d B' P' e` reads: printing document `d` in mode `m`, with group-break map `B` and pending
line suffixes `P`, may leave the break map `B'` and the pending suffixes `P'` and emit the
non-whitespace bytes `e` — in this order. The relation abstracts from widths and columns only: the
mode of a group and of each fill part is arbitrary (it is what `fits` decides); everything else is
fixed:

* a text emits its bytes; spaces and soft lines in flat mode emit nothing;
* an `IfBreak` emits the atoms of the branch selected by the recorded mode of its group, or by the
  current mode when it names no group;
* a `LineSuffix` emits nothing and is appended to the pending list;
* every line break (hard line, soft line in break mode, the break between align-group entries)
  first flushes the pending list: each pending suffix is printed, in order, in break mode, starting
  from an empty pending list (a suffix pushed meanwhile waits for the next flush).

`printDoc_ev` shows that every successful run of the model printer is such a derivation and that the
output grows by exactly the emitted bytes (plus whitespace).
-/
namespace Printer

abbrev BM := List (Nat × Bool)
abbrev PL := List (List Doc)

/-- the break map after a group chose its mode -/
def recordGroup (B : BM) (id : Option Nat) (cm : Mode) : BM :=
  match id with
  | some g => (g, decide (cm = .brk)) :: B
  | none => B

/-- which branch of an `IfBreak` is taken -/
def takesBreak (B : BM) (m : Mode) (gid : Option Nat) : Bool :=
  match gid with
  | some g => lookupBreak B g
  | none => decide (m = .brk)

mutual
inductive Ev : BM → PL → Mode → Doc → BM → PL → List Nat → Prop
  | text (B : BM) (P : PL) (m : Mode) (s : List Nat) : Ev B P m (.text s) B P (nb s)
  | space (B : BM) (P : PL) (m : Mode) : Ev B P m .space B P []
  | softFlat (B : BM) (P : PL) : Ev B P .flat .softLine B P []
  | softEmptyFlat (B : BM) (P : PL) : Ev B P .flat .softLineOrEmpty B P []
  | hardLine {B P B' P' e} (m : Mode) : Flush B P B' P' e → Ev B P m .hardLine B' P' e
  | softBrk {B P B' P' e} : Flush B P B' P' e → Ev B P .brk .softLine B' P' e
  | softEmptyBrk {B P B' P' e} : Flush B P B' P' e → Ev B P .brk .softLineOrEmpty B' P' e
  | group {B P B' P' e} (m cm : Mode) (ds : List Doc) (sb : Bool) (id : Option Nat) :
      (sb = true → cm = .brk) → EvL (recordGroup B id cm) P cm ds B' P' e → Ev B P m (.group ds sb id) B' P' e
  | indent {B P B' P' e} (m : Mode) (ds : List Doc) : EvL B P m ds B' P' e → Ev B P m (.indent ds) B' P' e
  | list {B P B' P' e} (m : Mode) (ds : List Doc) : EvL B P m ds B' P' e → Ev B P m (.list ds) B' P' e
  | ifBreak {B P B' P' e} (m : Mode) (b f : Doc) (gid : Option Nat) :
      Ev B P m (if takesBreak B m gid = true then b else f) B' P' e → Ev B P m (.ifBreak b f gid) B' P' e
  | fill {B P B' P' e} (m : Mode) (ds : List Doc) : EvFill B P ds B' P' e → Ev B P m (.fill ds) B' P' e
  | lineSuffix (B : BM) (P : PL) (m : Mode) (ds : List Doc) : Ev B P m (.lineSuffix ds) B (P ++ [ds]) []
  | alignGroup {B P B' P' e} (m : Mode) (es : List (Entry Doc)) :
      EvAlign B P m true es B' P' e → Ev B P m (.alignGroup es) B' P' e
/-- a slice, left to right -/
inductive EvL : BM → PL → Mode → List Doc → BM → PL → List Nat → Prop
  | nil (B : BM) (P : PL) (m : Mode) : EvL B P m [] B P []
  | cons {B P B1 P1 B2 P2 e1 e2} (m : Mode) (d : Doc) (ds : List Doc) :
      Ev B P m d B1 P1 e1 → EvL B1 P1 m ds B2 P2 e2 → EvL B P m (d :: ds) B2 P2 (e1 ++ e2)
/-- flushing the pending suffixes at a line break (or at the end of `print`) -/
inductive Flush : BM → PL → BM → PL → List Nat → Prop
  | mk {B P B' P' e} : FlushL B [] P B' P' e → Flush B P B' P' e
/-- the suffixes being flushed (third argument), with the new pending list (second argument) -/
inductive FlushL : BM → PL → PL → BM → PL → List Nat → Prop
  | nil (B : BM) (Pc : PL) : FlushL B Pc [] B Pc []
  | cons {B Pc B1 P1 B2 P2 e1 e2} (ds : List Doc) (rest : PL) :
      EvL B Pc .brk ds B1 P1 e1 → FlushL B1 P1 rest B2 P2 e2 → FlushL B Pc (ds :: rest) B2 P2 (e1 ++ e2)
/-- the parts of a fill, each in the mode `fits` chose for it -/
inductive EvFill : BM → PL → List Doc → BM → PL → List Nat → Prop
  | nil (B : BM) (P : PL) : EvFill B P [] B P []
  | cons {B P B1 P1 B2 P2 e1 e2} (cm : Mode) (d : Doc) (ds : List Doc) :
      Ev B P cm d B1 P1 e1 → EvFill B1 P1 ds B2 P2 e2 → EvFill B P (d :: ds) B2 P2 (e1 ++ e2)
/-- between the entries of an align group: nothing before the first, a flush (+ line break) before the others -/
inductive Sep : BM → PL → Bool → BM → PL → List Nat → Prop
  | first (B : BM) (P : PL) : Sep B P true B P []
  | next {B P B' P' e} : Flush B P B' P' e → Sep B P false B' P' e
/-- a slice that is printed only for `Aligned` entries (the `after` part) -/
inductive EvIf : Bool → BM → PL → Mode → List Doc → BM → PL → List Nat → Prop
  | skip (B : BM) (P : PL) (m : Mode) (ds : List Doc) : EvIf false B P m ds B P []
  | take {B P B' P' e} (m : Mode) (ds : List Doc) : EvL B P m ds B' P' e → EvIf true B P m ds B' P' e
/-- the entries of an align group: separator, then before, after (aligned entries only), trailing -/
inductive EvAlign : BM → PL → Mode → Bool → List (Entry Doc) → BM → PL → List Nat → Prop
  | nil (B : BM) (P : PL) (m : Mode) (first : Bool) : EvAlign B P m first [] B P []
  | cons {B P B0 P0 B1 P1 B2 P2 B3 P3 B4 P4 e0 e1 e2 e3 e4} (m : Mode) (first : Bool) (al : Bool)
      (b a : List Doc) (t : Option (List Doc)) (es : List (Entry Doc)) :
      Sep B P first B0 P0 e0 →
      EvL B0 P0 m b B1 P1 e1 →
      EvIf al B1 P1 m a B2 P2 e2 →
      EvL B2 P2 m (t.getD []) B3 P3 e3 →
      EvAlign B3 P3 m false es B4 P4 e4 →
      EvAlign B P m first (⟨al, b, a, t⟩ :: es) B4 P4 (e0 ++ e1 ++ e2 ++ e3 ++ e4)
end

/-- a whole `print`: the documents in break mode, then one final flush of what is still pending
(line suffixes pushed *during* that final flush are not printed — the code flushes once) -/
def Top (ds : List Doc) (e : List Nat) : Prop :=
  ∃ B1 P1 e1 B2 P2 e2, EvL [] [] .brk ds B1 P1 e1 ∧ Flush B1 P1 B2 P2 e2 ∧ e = e1 ++ e2

/-! ## the primitives do not touch the break map and the pending list -/

theorem flushPending_frame (cfg : Cfg) (st : St) (s : List Nat) :
    (flushPending cfg st s).breaks = st.breaks ∧ (flushPending cfg st s).suffixes = st.suffixes := by
  unfold flushPending
  split
  · exact ⟨rfl, rfl⟩
  · split <;> exact ⟨rfl, rfl⟩

theorem pushText_frame (cfg : Cfg) (st : St) (s : List Nat) :
    (pushText cfg st s).breaks = st.breaks ∧ (pushText cfg st s).suffixes = st.suffixes := by
  obtain ⟨h1, h2⟩ := flushPending_frame cfg st s
  simp only [pushText, h1, h2, and_self]

theorem pushNewline_frame (cfg : Cfg) (st : St) :
    (pushNewline cfg st).breaks = st.breaks ∧ (pushNewline cfg st).suffixes = st.suffixes := by
  simp [pushNewline]

theorem padText_frame (cfg : Cfg) (st : St) (p : Nat) :
    (if p > 0 then pushText cfg st (spaces p) else st).breaks = st.breaks ∧
    (if p > 0 then pushText cfg st (spaces p) else st).suffixes = st.suffixes := by
  split
  · exact pushText_frame cfg st _
  · exact ⟨rfl, rfl⟩

/-! ## the specification of a one-document printer -/

/-- every successful call of `pd` is an `Ev` derivation between the break maps / pending lists of
the two states, and the output grows by the emitted bytes (and whitespace) -/
def SpecE (pd : St → Doc → Mode → Option St) : Prop :=
  ∀ st d m st', pd st d m = some st' →
    ∃ e, Ev st.breaks st.suffixes m d st'.breaks st'.suffixes e ∧ nb st'.outRev = e.reverse ++ nb st.outRev

theorem docsWith_specE (pd : St → Doc → Mode → Option St) (hpd : SpecE pd) (ds : List Doc) (st st' : St)
    (m : Mode) (h : docsWith pd st ds m = some st') :
    ∃ e, EvL st.breaks st.suffixes m ds st'.breaks st'.suffixes e ∧ nb st'.outRev = e.reverse ++ nb st.outRev := by
  induction ds generalizing st with
  | nil =>
    simp [docsWith] at h; subst h
    exact ⟨[], EvL.nil _ _ _, by simp⟩
  | cons d ds ih =>
    simp only [docsWith, List.foldlM_cons, Option.bind_eq_bind, Option.bind_eq_some_iff] at h
    obtain ⟨s1, h1, h2⟩ := h
    obtain ⟨e1, a1, a2⟩ := hpd st d m s1 h1
    obtain ⟨e2, b1, b2⟩ := ih s1 h2
    exact ⟨e1 ++ e2, EvL.cons m d ds a1 b1, by rw [b2, a2]; simp⟩

/-- the loop of `flushWith` over the suffixes still to print -/
theorem flushLoop_specE (pd : St → Doc → Mode → Option St) (hpd : SpecE pd) (todo : PL) (st st' : St)
    (h : todo.foldlM (fun s ds => docsWith pd s ds .brk) st = some st') :
    ∃ e, FlushL st.breaks st.suffixes todo st'.breaks st'.suffixes e ∧ nb st'.outRev = e.reverse ++ nb st.outRev := by
  induction todo generalizing st with
  | nil =>
    simp at h; subst h
    exact ⟨[], FlushL.nil _ _, by simp⟩
  | cons ds rest ih =>
    simp only [List.foldlM_cons, Option.bind_eq_bind, Option.bind_eq_some_iff] at h
    obtain ⟨s1, h1, h2⟩ := h
    obtain ⟨e1, a1, a2⟩ := docsWith_specE pd hpd ds st s1 .brk h1
    obtain ⟨e2, b1, b2⟩ := ih s1 h2
    exact ⟨e1 ++ e2, FlushL.cons ds rest a1 b1, by rw [b2, a2]; simp⟩

theorem flushWith_specE (pd : St → Doc → Mode → Option St) (hpd : SpecE pd) (st st' : St)
    (h : flushWith pd st = some st') :
    ∃ e, Flush st.breaks st.suffixes st'.breaks st'.suffixes e ∧ nb st'.outRev = e.reverse ++ nb st.outRev := by
  unfold flushWith at h
  obtain ⟨e, a1, a2⟩ := flushLoop_specE pd hpd st.suffixes { st with suffixes := [] } st' h
  exact ⟨e, Flush.mk a1, a2⟩

theorem newline_specE (cfg : Cfg) (hc : cfg.Blank) (pd : St → Doc → Mode → Option St) (hpd : SpecE pd)
    (st st' : St) (h : (flushWith pd st).map (pushNewline cfg) = some st') :
    ∃ e, Flush st.breaks st.suffixes st'.breaks st'.suffixes e ∧ nb st'.outRev = e.reverse ++ nb st.outRev := by
  simp only [Option.map_eq_some_iff] at h
  obtain ⟨s1, h1, rfl⟩ := h
  obtain ⟨e, a1, a2⟩ := flushWith_specE pd hpd st s1 h1
  obtain ⟨f1, f2⟩ := pushNewline_frame cfg s1
  obtain ⟨n1, _⟩ := pushNewline_nb cfg hc s1
  exact ⟨e, by rw [f1, f2]; exact a1, by rw [n1, a2]⟩

theorem fillLoop_specE (pd : St → Doc → Mode → Option St) (hpd : SpecE pd) (fitsF : St → List Doc → Bool)
    (ds : List Doc) (st st' : St) (h : fillLoop pd fitsF st ds = some st') :
    ∃ e, EvFill st.breaks st.suffixes ds st'.breaks st'.suffixes e ∧ nb st'.outRev = e.reverse ++ nb st.outRev := by
  revert st' h
  refine fillLoop.induct (motive := fun st ds => ∀ st', fillLoop pd fitsF st ds = some st' →
    ∃ e, EvFill st.breaks st.suffixes ds st'.breaks st'.suffixes e ∧ nb st'.outRev = e.reverse ++ nb st.outRev)
    ?_ ?_ ?_ st ds
  · intro st st' h
    simp [fillLoop] at h; subst h
    exact ⟨[], EvFill.nil _ _, by simp⟩
  · intro st c st' h
    simp only [fillLoop] at h
    obtain ⟨e, a1, a2⟩ := hpd _ _ _ _ h
    exact ⟨e ++ [], EvFill.cons _ c [] a1 (EvFill.nil _ _), by simpa using a2⟩
  · intro st c sep rest ih st' h
    simp only [fillLoop, Option.bind_eq_bind, Option.bind_eq_some_iff] at h
    obtain ⟨s1, h1, s2, h2, h3⟩ := h
    obtain ⟨e1, a1, a2⟩ := hpd _ _ _ _ h1
    obtain ⟨e2, b1, b2⟩ := hpd _ _ _ _ h2
    obtain ⟨e3, c1, c2⟩ := ih s2 st' h3
    exact ⟨e1 ++ (e2 ++ e3), EvFill.cons _ c _ a1 (EvFill.cons _ sep _ b1 c1), by rw [c2, b2, a2]; simp⟩

theorem trailing_specE (cfg : Cfg) (hc : cfg.Blank) (pd : St → Doc → Mode → Option St) (hpd : SpecE pd)
    (t : Option (List Doc)) (p : Nat) (m : Mode) (st st' : St)
    (h : printTrailing cfg pd t p m st = some st') :
    ∃ e, EvL st.breaks st.suffixes m (t.getD []) st'.breaks st'.suffixes e ∧
      nb st'.outRev = e.reverse ++ nb st.outRev := by
  cases t with
  | none =>
    simp [printTrailing] at h; subst h
    exact ⟨[], EvL.nil _ _ _, by simp⟩
  | some t =>
    simp only [printTrailing] at h
    obtain ⟨e, a1, a2⟩ := docsWith_specE pd hpd t _ st' m h
    obtain ⟨f1, f2⟩ := padText_frame cfg st p
    obtain ⟨n1, _⟩ := padText_nb cfg hc st p
    exact ⟨e, by rw [f1, f2] at a1; exact a1, by rw [a2, n1]⟩

theorem alignSep_specE (cfg : Cfg) (hc : cfg.Blank) (pd : St → Doc → Mode → Option St) (hpd : SpecE pd)
    (first : Bool) (st s1 : St) (h : alignSep cfg pd first st = some s1) :
    ∃ e, Sep st.breaks st.suffixes first s1.breaks s1.suffixes e ∧ nb s1.outRev = e.reverse ++ nb st.outRev := by
  unfold alignSep at h
  cases first with
  | true =>
    simp at h; subst h
    exact ⟨[], Sep.first _ _, by simp⟩
  | false =>
    simp only [Bool.false_eq_true, if_false] at h
    obtain ⟨e, a1, a2⟩ := newline_specE cfg hc pd hpd st s1 h
    exact ⟨e, Sep.next a1, a2⟩

theorem alignLoop_specE (cfg : Cfg) (hc : cfg.Blank) (pd : St → Doc → Mode → Option St) (hpd : SpecE pd)
    (mb mcw : Nat) (m : Mode) (es : List (Entry Doc)) (first : Bool) (st st' : St)
    (h : alignLoop cfg pd mb mcw m first st es = some st') :
    ∃ e, EvAlign st.breaks st.suffixes m first es st'.breaks st'.suffixes e ∧
      nb st'.outRev = e.reverse ++ nb st.outRev := by
  induction es generalizing first st with
  | nil =>
    simp [alignLoop] at h; subst h
    exact ⟨[], EvAlign.nil _ _ _ _, by simp⟩
  | cons en es ih =>
    obtain ⟨al, b, a, t⟩ := en
    simp only [alignLoop, Option.bind_eq_some_iff] at h
    obtain ⟨s1, h1, s2, h2, h3⟩ := h
    obtain ⟨e0, p0, q0⟩ := alignSep_specE cfg hc pd hpd first st s1 h1
    obtain ⟨e4, p4, q4⟩ := ih false s2 h3
    cases al with
    | true =>
      simp only [alignEntry, if_true, Option.bind_eq_some_iff] at h2
      obtain ⟨sA, hA, sB, hB, hT⟩ := h2
      obtain ⟨e1, p1, q1⟩ := docsWith_specE pd hpd b s1 sA m hA
      obtain ⟨f1, f2⟩ := padText_frame cfg sA (mb - flatWidthL b)
      obtain ⟨n1, _⟩ := padText_nb cfg hc sA (mb - flatWidthL b)
      obtain ⟨g1, g2⟩ := pushText_frame cfg (if mb - flatWidthL b > 0 then pushText cfg sA (spaces (mb - flatWidthL b)) else sA) [32]
      obtain ⟨t1, _⟩ := pushText_nb cfg hc (if mb - flatWidthL b > 0 then pushText cfg sA (spaces (mb - flatWidthL b)) else sA) [32]
      obtain ⟨e2, p2, q2⟩ := docsWith_specE pd hpd a _ sB m hB
      rw [g1, g2, f1, f2] at p2
      obtain ⟨e3, p3, q3⟩ := trailing_specE cfg hc pd hpd t _ m sB s2 hT
      refine ⟨e0 ++ e1 ++ e2 ++ e3 ++ e4, EvAlign.cons m first true b a t es p0 p1 (EvIf.take m a p2) p3 p4, ?_⟩
      rw [q4, q3, q2, t1, n1, q1, q0]
      simp [nb, isWs]
    | false =>
      simp only [alignEntry, Bool.false_eq_true, if_false, Option.bind_eq_some_iff] at h2
      obtain ⟨sA, hA, hT⟩ := h2
      obtain ⟨e1, p1, q1⟩ := docsWith_specE pd hpd b s1 sA m hA
      obtain ⟨e3, p3, q3⟩ := trailing_specE cfg hc pd hpd t _ m sA s2 hT
      refine ⟨e0 ++ e1 ++ [] ++ e3 ++ e4, EvAlign.cons m first false b a t es p0 p1 (EvIf.skip _ _ m a) p3 p4, ?_⟩
      rw [q4, q3, q1, q0]
      simp

/-- **every run of the model printer is an `Ev` derivation** -/
theorem printDoc_ev (cfg : Cfg) (hc : cfg.Blank) : ∀ fuel, SpecE (printDoc cfg fuel)
  | 0 => by
    intro st d m st' h
    simp [printDoc] at h
  | fuel + 1 => by
    have ih := printDoc_ev cfg hc fuel
    intro st d m st' h
    cases d with
    | text s =>
      simp only [printDoc, Option.some.injEq] at h; subst h
      obtain ⟨f1, f2⟩ := pushText_frame cfg st s
      obtain ⟨n1, _⟩ := pushText_nb cfg hc st s
      exact ⟨nb s, by rw [f1, f2]; exact Ev.text _ _ _ _, n1⟩
    | space =>
      simp only [printDoc, Option.some.injEq] at h; subst h
      obtain ⟨f1, f2⟩ := pushText_frame cfg st [32]
      obtain ⟨n1, _⟩ := pushText_nb cfg hc st [32]
      exact ⟨[], by rw [f1, f2]; exact Ev.space _ _ _, by rw [n1]; simp [nb, isWs]⟩
    | hardLine =>
      simp only [printDoc] at h
      obtain ⟨e, a1, a2⟩ := newline_specE cfg hc _ ih st st' h
      exact ⟨e, Ev.hardLine m a1, a2⟩
    | softLine =>
      cases m with
      | flat =>
        simp only [printDoc, Option.some.injEq] at h; subst h
        obtain ⟨f1, f2⟩ := pushText_frame cfg st [32]
        obtain ⟨n1, _⟩ := pushText_nb cfg hc st [32]
        exact ⟨[], by rw [f1, f2]; exact Ev.softFlat _ _, by rw [n1]; simp [nb, isWs]⟩
      | brk =>
        simp only [printDoc] at h
        obtain ⟨e, a1, a2⟩ := newline_specE cfg hc _ ih st st' h
        exact ⟨e, Ev.softBrk a1, a2⟩
    | softLineOrEmpty =>
      cases m with
      | flat =>
        simp only [printDoc, Option.some.injEq] at h; subst h
        exact ⟨[], Ev.softEmptyFlat _ _, by simp⟩
      | brk =>
        simp only [printDoc] at h
        obtain ⟨e, a1, a2⟩ := newline_specE cfg hc _ ih st st' h
        exact ⟨e, Ev.softEmptyBrk a1, a2⟩
    | group ds sb id =>
      simp only [printDoc] at h
      generalize hcm : (if (sb || hasHardLineL ds) = true then Mode.brk
        else if fitsOnLine cfg st (fuel + 1) ds = true then Mode.flat else Mode.brk) = cm at h
      have hsb : sb = true → cm = .brk := by
        intro e; subst e; simp at hcm; exact hcm.symm
      cases id with
      | none =>
        obtain ⟨e, a1, a2⟩ := docsWith_specE _ ih ds st st' cm h
        exact ⟨e, Ev.group m cm ds sb none hsb a1, a2⟩
      | some g =>
        obtain ⟨e, a1, a2⟩ := docsWith_specE _ ih ds _ st' cm h
        exact ⟨e, Ev.group m cm ds sb (some g) hsb a1, a2⟩
    | indent ds =>
      simp only [printDoc, Option.map_eq_some_iff] at h
      obtain ⟨s1, h1, rfl⟩ := h
      obtain ⟨e, a1, a2⟩ := docsWith_specE _ ih ds { st with level := st.level + 1 } s1 m h1
      exact ⟨e, Ev.indent m ds a1, a2⟩
    | list ds =>
      simp only [printDoc] at h
      obtain ⟨e, a1, a2⟩ := docsWith_specE _ ih ds st st' m h
      exact ⟨e, Ev.list m ds a1, a2⟩
    | ifBreak b f gid =>
      simp only [printDoc] at h
      obtain ⟨e, a1, a2⟩ := ih _ _ _ _ h
      refine ⟨e, Ev.ifBreak m b f gid ?_, a2⟩
      cases gid <;> exact a1
    | fill ds =>
      simp only [printDoc] at h
      obtain ⟨e, a1, a2⟩ := fillLoop_specE _ ih _ ds st st' h
      exact ⟨e, Ev.fill m ds a1, a2⟩
    | lineSuffix ds =>
      simp only [printDoc, Option.some.injEq] at h; subst h
      exact ⟨[], Ev.lineSuffix _ _ m ds, by simp⟩
    | alignGroup es =>
      simp only [printDoc] at h
      obtain ⟨e, a1, a2⟩ := alignLoop_specE cfg hc _ ih _ _ m es true st st' h
      exact ⟨e, Ev.alignGroup m es a1, a2⟩

/-- the final flush of `print` on an empty pending list is a (trivial) `Flush` -/
theorem Flush.empty (B : BM) : Flush B [] B [] [] := Flush.mk (FlushL.nil B [])

/-- **print_atoms.** If `print` succeeds, the non-whitespace bytes of its output are the bytes
emitted by a `Top` derivation: the selected leaves in document order, line suffixes moved to the
next line break or to the final flush. -/
theorem print_atoms (cfg : Cfg) (hc : cfg.Blank) (fuel : Nat) (ds : List Doc) (out : List Nat)
    (h : print cfg fuel ds = some out) : ∃ e, Top ds e ∧ nb out = e := by
  simp only [print, Option.bind_eq_some_iff, Option.map_eq_some_iff] at h
  obtain ⟨s1, h1, s2, h2, rfl⟩ := h
  obtain ⟨e1, a1, a2⟩ := docsWith_specE _ (printDoc_ev cfg hc fuel) ds St.init s1 .brk h1
  by_cases hs : s1.suffixes.isEmpty = true
  · simp only [hs, if_true, Option.some.injEq] at h2
    subst h2
    have hP : s1.suffixes = [] := List.isEmpty_iff.mp hs
    rw [hP] at a1
    refine ⟨e1 ++ [], ⟨_, _, e1, _, _, [], a1, Flush.empty _, rfl⟩, ?_⟩
    simp only [St.out, nb_reverse, a2]
    simp [St.init, nb]
  · simp only [hs, Bool.false_eq_true, if_false] at h2
    obtain ⟨e2, b1, b2⟩ := flushWith_specE _ (printDoc_ev cfg hc fuel) s1 s2 h2
    refine ⟨e1 ++ e2, ⟨_, _, e1, _, _, e2, a1, b1, rfl⟩, ?_⟩
    simp only [St.out, nb_reverse, b2, a2]
    simp [St.init, nb]

/-! ## consequences: what the final flush is for -/

theorem EvL.append_inv {B P m} (xs ys : List Doc) {B' P' e} (h : EvL B P m (xs ++ ys) B' P' e) :
    ∃ B1 P1 e1 e2, EvL B P m xs B1 P1 e1 ∧ EvL B1 P1 m ys B' P' e2 ∧ e = e1 ++ e2 := by
  induction xs generalizing B P e with
  | nil => exact ⟨B, P, [], e, EvL.nil _ _ _, h, rfl⟩
  | cons x xs ih =>
    cases h with
    | cons _ _ _ hx hrest =>
      obtain ⟨B1, P1, e1, e2, a1, a2, rfl⟩ := ih hrest
      exact ⟨B1, P1, _ ++ e1, e2, EvL.cons m x xs hx a1, a2, by simp⟩

theorem FlushL.append_inv {B Pc} (xs ys : PL) {B' P' e} (h : FlushL B Pc (xs ++ ys) B' P' e) :
    ∃ B1 P1 e1 e2, FlushL B Pc xs B1 P1 e1 ∧ FlushL B1 P1 ys B' P' e2 ∧ e = e1 ++ e2 := by
  induction xs generalizing B Pc e with
  | nil => exact ⟨B, Pc, [], e, FlushL.nil _ _, h, rfl⟩
  | cons x xs ih =>
    cases h with
    | cons _ _ hx hrest =>
      obtain ⟨B1, P1, e1, e2, a1, a2, rfl⟩ := ih hrest
      exact ⟨B1, P1, _ ++ e1, e2, FlushL.cons x xs hx a1, a2, by simp⟩

/-- **the final flush.** A trailing comment (a `LineSuffix` holding a text) at the very end of the
document — nothing after it that would break the line — is emitted, and it is emitted last: it is
exactly the final flush of `print` that writes it. -/
theorem top_trailing_line_suffix (ds : List Doc) (s : List Nat) (e : List Nat)
    (h : Top (ds ++ [.lineSuffix [.text s]]) e) : ∃ e0, e = e0 ++ nb s := by
  obtain ⟨B1, P1, e1, B2, P2, e2, hl, hf, rfl⟩ := h
  obtain ⟨B0, P0, a, b, h1, h2, rfl⟩ := EvL.append_inv ds _ hl
  -- the last document only appends to the pending list
  cases h2 with
  | cons _ _ _ hx hnil =>
    cases hnil
    cases hx
    -- the final flush prints the pending list in order; the appended suffix comes last
    cases hf with
    | mk hfl =>
      obtain ⟨B3, P3, f1, f2, g1, g2, rfl⟩ := FlushL.append_inv P0 [[.text s]] hfl
      cases g2 with
      | cons _ _ hs hrest =>
        cases hrest
        cases hs with
        | cons _ _ _ ht htn =>
          cases htn
          cases ht
          exact ⟨a ++ f1, by simp⟩

/-! Tests (labelled as such): a derivation with a reordered line suffix and a selected `IfBreak`. -/
-- `a <suffix c> b <hardline> d` emits a b c d
example : Top [.text [97], .lineSuffix [.text [99]], .text [98], .hardLine, .text [100]] [97, 98, 99, 100] := by
  refine ⟨[], [], [97, 98, 99, 100], [], [], [], ?_, Flush.empty _, by decide⟩
  refine EvL.cons (e1 := [97]) (e2 := [98, 99, 100]) .brk _ _ (Ev.text _ _ _ _) ?_
  refine EvL.cons (e1 := []) (e2 := [98, 99, 100]) .brk _ _ (Ev.lineSuffix _ _ _ _) ?_
  refine EvL.cons (e1 := [98]) (e2 := [99, 100]) .brk _ _ (Ev.text _ _ _ _) ?_
  refine EvL.cons (B1 := []) (P1 := []) (e1 := [99]) (e2 := [100]) .brk _ _ (Ev.hardLine .brk (Flush.mk ?_)) ?_
  · exact FlushL.cons (e1 := [99]) (e2 := []) _ _
      (EvL.cons (e1 := [99]) (e2 := []) .brk _ _ (Ev.text _ _ _ _) (EvL.nil _ _ _)) (FlushL.nil _ _)
  · exact EvL.cons (e1 := [100]) (e2 := []) .brk _ _ (Ev.text _ _ _ _) (EvL.nil _ _ _)

end Printer
