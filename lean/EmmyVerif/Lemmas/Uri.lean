import EmmyVerif.Model.Uri
/-! Lemmas about the `Uri` model (C34). -/
namespace Uri

/-! ### hex digits, percent triples -/

theorem hexVal_hexUp : ∀ n, n < 16 → hexVal (hexUp n) = some n := by decide

theorem pctDecode_nil : pctDecode [] = [] := rfl

theorem pctDecode_raw (b : Nat) (rest : List Nat) (hb : b ≠ 37) :
    pctDecode (b :: rest) = b :: pctDecode rest := by
  simp [pctDecode, pctGo, hb]

theorem pctDecode_triple (h l x y : Nat) (rest : List Nat)
    (hh : hexVal h = some x) (hl : hexVal l = some y) :
    pctDecode (37 :: h :: l :: rest) = (x * 16 + y) :: pctDecode rest := by
  simp [pctDecode, pctGo, hh, hl]

theorem pctDecode_pct (b : Nat) (hb : b < 256) (rest : List Nat) :
    pctDecode (pct b ++ rest) = b :: pctDecode rest := by
  have h1 := hexVal_hexUp (b / 16) (by omega)
  have h2 := hexVal_hexUp (b % 16) (by omega)
  simp only [pct, List.cons_append, List.nil_append]
  rw [pctDecode_triple _ _ _ _ _ h1 h2]
  congr 1; omega

theorem inSegSet_37 : inSegSet 37 = true := by decide

theorem pctDecode_encSeg (c : List Nat) (hc : ∀ b ∈ c, b < 256) (rest : List Nat) :
    pctDecode (encSeg c ++ rest) = c ++ pctDecode rest := by
  induction c with
  | nil => simp [encSeg]
  | cons b c ih =>
    have hb := hc b (by simp)
    have ih' := ih (fun x hx => hc x (by simp [hx]))
    have hcons : encSeg (b :: c) = encByte b ++ encSeg c := by simp [encSeg]
    rw [hcons, List.append_assoc]
    by_cases hs : inSegSet b = true
    · have : encByte b = pct b := by simp [encByte, hs]
      rw [this, pctDecode_pct b hb, ih']; rfl
    · have h37 : b ≠ 37 := by intro h; subst h; exact hs inSegSet_37
      have : encByte b = [b] := by simp [encByte, hs]
      rw [this]
      simp only [List.cons_append, List.nil_append]
      rw [pctDecode_raw b _ h37, ih']

/-! ### plain bytes: what a normalised URL path segment is made of -/

/-- not touched by the parser's path state and not a separator -/
def plain (b : Nat) : Bool := !inPathSet b && b != 47 && b != 92

theorem hexUp_plain : ∀ n, n < 16 → plain (hexUp n) = true := by decide

theorem plain_gt (b : Nat) (h : plain b = true) : 32 < b ∧ b ≠ 63 ∧ b ≠ 35 ∧ b ≠ 47 ∧ b ≠ 92 ∧ b < 127 := by
  simp [plain, inPathSet] at h; omega

theorem pct_plain (b : Nat) (hb : b < 256) : ∀ x ∈ pct b, plain x = true := by
  intro x hx
  simp only [pct, List.mem_cons, List.not_mem_nil, or_false] at hx
  rcases hx with rfl | rfl | rfl
  · decide
  · exact hexUp_plain _ (by omega)
  · exact hexUp_plain _ (by omega)

theorem encSeg_plain (c : List Nat) (hc : ∀ b ∈ c, b < 256) : ∀ x ∈ encSeg c, plain x = true := by
  intro x hx
  simp only [encSeg, List.mem_flatMap] at hx
  obtain ⟨b, hb, hx⟩ := hx
  unfold encByte at hx
  split at hx
  · exact pct_plain b (hc b hb) x hx
  · simp at hx; subst hx
    simp_all [plain, inSegSet]

theorem normSeg_plain_id (s : List Nat) (h : ∀ b ∈ s, plain b = true) : normSeg s = s := by
  induction s with
  | nil => rfl
  | cons b s ih =>
    have hb := h b (by simp)
    have : inPathSet b = false := by simp [plain] at hb; simp [hb]
    simp only [normSeg, List.flatMap_cons, normByte, this] at *
    simp [ih (fun x hx => h x (by simp [hx]))]

theorem encSeg_ne_nil (c : List Nat) (h : c ≠ []) : encSeg c ≠ [] := by
  cases c with
  | nil => exact absurd rfl h
  | cons b c => simp only [encSeg, List.flatMap_cons]; unfold encByte pct; split <;> simp

/-! ### splitting and joining -/

theorem splitSlashBs_ne_nil (s : List Nat) : splitSlashBs s ≠ [] := by
  cases s with
  | nil => simp [splitSlashBs]
  | cons b r =>
    simp only [splitSlashBs]
    split
    · simp
    · split <;> simp

theorem splitSlash_ne_nil (s : List Nat) : splitSlash s ≠ [] := by
  cases s with
  | nil => simp [splitSlash]
  | cons b r =>
    simp only [splitSlash]
    split
    · simp
    · split <;> simp

theorem splitSlashBs_seg (s : List Nat) (hs : ∀ b ∈ s, b ≠ 47 ∧ b ≠ 92) :
    splitSlashBs s = [s] := by
  induction s with
  | nil => rfl
  | cons b s ih =>
    have hb := hs b (by simp)
    simp [splitSlashBs, hb, ih (fun x hx => hs x (by simp [hx]))]

theorem splitSlashBs_append (s rest : List Nat) (hs : ∀ b ∈ s, b ≠ 47 ∧ b ≠ 92) :
    splitSlashBs (s ++ 47 :: rest) = s :: splitSlashBs rest := by
  induction s with
  | nil => simp [splitSlashBs]
  | cons b s ih =>
    have hb := hs b (by simp)
    simp [splitSlashBs, hb, ih (fun x hx => hs x (by simp [hx]))]

theorem splitSlash_seg (s : List Nat) (hs : ∀ b ∈ s, b ≠ 47) : splitSlash s = [s] := by
  induction s with
  | nil => rfl
  | cons b s ih =>
    have hb := hs b (by simp)
    simp [splitSlash, hb, ih (fun x hx => hs x (by simp [hx]))]

theorem splitSlash_append (s rest : List Nat) (hs : ∀ b ∈ s, b ≠ 47) :
    splitSlash (s ++ 47 :: rest) = s :: splitSlash rest := by
  induction s with
  | nil => simp [splitSlash]
  | cons b s ih =>
    have hb := hs b (by simp)
    simp [splitSlash, hb, ih (fun x hx => hs x (by simp [hx]))]

theorem joinPath_eq (segs : List (List Nat)) : joinPath segs = 47 :: joinSlash segs := by
  induction segs with
  | nil => rfl
  | cons s rest ih =>
    cases rest with
    | nil => simp [joinPath, joinSlash]
    | cons t rest' =>
      simp only [joinPath, List.isEmpty_cons, List.flatMap_cons] at *
      simp only [joinSlash]
      simp at ih ⊢
      exact ih

theorem splitSlashBs_joinSlash (segs : List (List Nat)) (hne : segs ≠ [])
    (h : ∀ s ∈ segs, ∀ b ∈ s, b ≠ 47 ∧ b ≠ 92) : splitSlashBs (joinSlash segs) = segs := by
  induction segs with
  | nil => exact absurd rfl hne
  | cons s rest ih =>
    cases rest with
    | nil => simp only [joinSlash]; exact splitSlashBs_seg s (h s (by simp))
    | cons t rest' =>
      simp only [joinSlash]
      rw [splitSlashBs_append s _ (h s (by simp))]
      have := ih (by simp) (fun x hx => h x (by simp [hx]))
      rw [this]

theorem splitSlash_joinSlash (segs : List (List Nat)) (hne : segs ≠ [])
    (h : ∀ s ∈ segs, ∀ b ∈ s, b ≠ 47) : splitSlash (joinSlash segs) = segs := by
  induction segs with
  | nil => exact absurd rfl hne
  | cons s rest ih =>
    cases rest with
    | nil => simp only [joinSlash]; exact splitSlash_seg s (h s (by simp))
    | cons t rest' =>
      simp only [joinSlash]
      rw [splitSlash_append s _ (h s (by simp))]
      have := ih (by simp) (fun x hx => h x (by simp [hx]))
      rw [this]

end Uri
