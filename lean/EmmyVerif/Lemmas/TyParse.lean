import EmmyVerif.Model.TyRender
/-!
# The doc type parser reads back what the printer writes (syntax-tree level)

For every concrete syntax tree `c` of the sub-grammar, every continuation `rest` that cannot extend
the phrase, and enough fuel: `parseX fuel (printX c ++ rest) = some (c, rest)`.
-/
namespace TyM

/-- the continuation does not start a `[]` or `<…>` suffix -/
def okSimple : List Tok → Bool
  | .lbrack :: _ | .lt :: _ => false
  | _ => true

/-- … nor continue a union -/
def okRest : List Tok → Bool
  | .lbrack :: _ | .lt :: _ | .bar :: _ => false
  | _ => true

/-- … nor add a `?` -/
def okType : List Tok → Bool
  | .lbrack :: _ | .lt :: _ | .bar :: _ | .quest :: _ => false
  | _ => true

/-- … nor continue a comma separated list -/
def okList : List Tok → Bool
  | .lbrack :: _ | .lt :: _ | .bar :: _ | .quest :: _ | .comma :: _ => false
  | _ => true

def noLt : List Tok → Bool
  | .lt :: _ => false
  | _ => true

theorem okList_okType (r : List Tok) (h : okList r = true) : okType r = true := by
  match r with
  | [] => rfl
  | t :: _ => cases t <;> simp_all [okList, okType]

theorem okType_okRest (r : List Tok) (h : okType r = true) : okRest r = true := by
  match r with
  | [] => rfl
  | t :: _ => cases t <;> simp_all [okRest, okType]

theorem okRest_okSimple (r : List Tok) (h : okRest r = true) : okSimple r = true := by
  match r with
  | [] => rfl
  | t :: _ => cases t <;> simp_all [okRest, okSimple]

theorem okSimple_noLt (r : List Tok) (h : okSimple r = true) : noLt r = true := by
  match r with
  | [] => rfl
  | t :: _ => cases t <;> simp_all [noLt, okSimple]

theorem parseBrackets_brackets (k f : Nat) (rest : List Tok) (hf : k ≤ f)
    (h : ∀ ts, rest ≠ .lbrack :: ts) : parseBrackets f (brackets k ++ rest) = (k, rest) := by
  induction k generalizing f with
  | zero =>
    simp only [brackets, List.nil_append]
    cases f with
    | zero => rfl
    | succ f =>
      match rest, h with
      | [], _ => rfl
      | t :: ts, h =>
        cases t <;> first | rfl | (exact absurd rfl (h ts))
  | succ k ih =>
    obtain ⟨f', rfl⟩ : ∃ f', f = f' + 1 := ⟨f - 1, by omega⟩
    simp only [brackets, List.cons_append, parseBrackets]
    rw [ih f' (by omega)]

theorem parseQuests_quests (k f : Nat) (rest : List Tok) (hf : k ≤ f)
    (h : ∀ ts, rest ≠ .quest :: ts) : parseQuests f (quests k ++ rest) = (k, rest) := by
  induction k generalizing f with
  | zero =>
    simp only [quests, List.nil_append]
    cases f with
    | zero => rfl
    | succ f =>
      match rest, h with
      | [], _ => rfl
      | t :: ts, h =>
        cases t <;> first | rfl | (exact absurd rfl (h ts))
  | succ k ih =>
    obtain ⟨f', rfl⟩ : ∃ f', f = f' + 1 := ⟨f - 1, by omega⟩
    simp only [quests, List.cons_append, parseQuests]
    rw [ih f' (by omega)]

theorem brackets_length (k : Nat) : (brackets k).length = 2 * k := by
  induction k with
  | zero => rfl
  | succ k ih => simp [brackets, ih]; omega

theorem quests_length (k : Nat) : (quests k).length = k := by
  induction k with
  | zero => rfl
  | succ k ih => simp [quests, ih]

theorem okSimple_not_lbrack (rest : List Tok) (h : okSimple rest = true) : ∀ ts, rest ≠ .lbrack :: ts := by
  intro ts hr; subst hr; simp [okSimple] at h

theorem okType_not_quest (rest : List Tok) (h : okType rest = true) : ∀ ts, rest ≠ .quest :: ts := by
  intro ts hr; subst hr; simp [okType] at h

end TyM

namespace TyM

mutual
theorem parsePrim_print : (p : Prim0) → ∀ (f : Nat) (rest : List Tok), p.size ≤ f → noLt rest = true →
    parsePrim f (printPrim p ++ rest) = some (p, rest)
  | .name s, f, rest, hf, h => by
    obtain ⟨f', rfl⟩ : ∃ f', f = f' + 1 := ⟨f - 1, by simp [Prim0.size] at hf; omega⟩
    match rest, h with
    | [], _ => simp [printPrim, parsePrim]
    | t :: ts, h => cases t <;> simp_all [printPrim, parsePrim, noLt]
  | .str s, f, rest, hf, _ => by
    obtain ⟨f', rfl⟩ : ∃ f', f = f' + 1 := ⟨f - 1, by simp [Prim0.size] at hf; omega⟩
    simp [printPrim, parsePrim]
  | .int i, f, rest, hf, _ => by
    obtain ⟨f', rfl⟩ : ∃ f', f = f' + 1 := ⟨f - 1, by simp [Prim0.size] at hf; omega⟩
    simp [printPrim, parsePrim]
  | .bool b, f, rest, hf, _ => by
    obtain ⟨f', rfl⟩ : ∃ f', f = f' + 1 := ⟨f - 1, by simp [Prim0.size] at hf; omega⟩
    cases b <;> simp [printPrim, parsePrim]
  | .paren t, f, rest, hf, _ => by
    obtain ⟨f', rfl⟩ : ∃ f', f = f' + 1 := ⟨f - 1, by simp [Prim0.size] at hf; omega⟩
    have ih := parseType_print t f' (.rparen :: rest) (by simp [Prim0.size] at hf; omega) rfl
    simp only [printPrim, List.cons_append, List.append_assoc, List.nil_append, parsePrim, ih]
  | .generic n a as, f, rest, hf, _ => by
    obtain ⟨f', rfl⟩ : ∃ f', f = f' + 1 := ⟨f - 1, by simp [Prim0.size] at hf; omega⟩
    simp only [Prim0.size] at hf
    have ih2 := parseArgs_print as f' (.gt :: rest) (by omega) rfl
    have ih1 := parseType_print a f' (printArgs as ++ .gt :: rest) (by omega) (by
      cases as <;> simp [printArgs, okType])
    simp only [printPrim, List.cons_append, List.append_assoc, List.nil_append, parsePrim, ih1, ih2]
  | .obj fs, f, rest, hf, _ => by
    obtain ⟨f', rfl⟩ : ∃ f', f = f' + 1 := ⟨f - 1, by simp [Prim0.size] at hf; omega⟩
    have ih := parseFields_print fs f' rest (by simp [Prim0.size] at hf; omega)
    simp only [printPrim, List.cons_append, List.append_assoc, List.nil_append, parsePrim, ih]

theorem parseSimple_print : (s : Simple) → ∀ (f : Nat) (rest : List Tok), s.size ≤ f → okSimple rest = true →
    parseSimple f (printSimple s ++ rest) = some (s, rest)
  | .mk b k, f, rest, hf, h => by
    obtain ⟨f', rfl⟩ : ∃ f', f = f' + 1 := ⟨f - 1, by simp [Simple.size] at hf; omega⟩
    have hlt : noLt (brackets k ++ rest) = true := by
      cases k with
      | zero => simpa [brackets] using okSimple_noLt rest h
      | succ k => simp [brackets, noLt]
    have ih := parsePrim_print b f' (brackets k ++ rest) (by simp [Simple.size] at hf; omega) hlt
    simp only [printSimple, List.append_assoc, parseSimple, ih]
    rw [parseBrackets_brackets k _ rest (by simp [brackets_length]; omega) (okSimple_not_lbrack rest h)]

theorem parseRest_print : (r : SimpleL) → ∀ (f : Nat) (rest : List Tok), r.size ≤ f → okRest rest = true →
    parseRest f (printRest r ++ rest) = some (r, rest)
  | .nil, f, rest, hf, h => by
    obtain ⟨f', rfl⟩ : ∃ f', f = f' + 1 := ⟨f - 1, by simp [SimpleL.size] at hf; omega⟩
    match rest, h with
    | [], _ => simp [printRest, parseRest]
    | t :: ts, h => cases t <;> simp_all [printRest, parseRest, okRest]
  | .cons s r, f, rest, hf, h => by
    obtain ⟨f', rfl⟩ : ∃ f', f = f' + 1 := ⟨f - 1, by simp [SimpleL.size] at hf; omega⟩
    simp only [SimpleL.size] at hf
    have ih2 := parseRest_print r f' rest (by omega) h
    have ih1 := parseSimple_print s f' (printRest r ++ rest) (by omega) (by
      cases r with
      | nil => simpa [printRest] using okRest_okSimple rest h
      | cons _ _ => simp [printRest, okSimple])
    simp only [printRest, List.cons_append, List.append_assoc, parseRest, ih1, ih2]

theorem parseType_print : (t : TypeE) → ∀ (f : Nat) (rest : List Tok), t.size ≤ f → okType rest = true →
    parseType f (printType t ++ rest) = some (t, rest)
  | .mk s r q, f, rest, hf, h => by
    obtain ⟨f', rfl⟩ : ∃ f', f = f' + 1 := ⟨f - 1, by simp [TypeE.size] at hf; omega⟩
    simp only [TypeE.size] at hf
    have hq : okRest (quests q ++ rest) = true := by
      cases q with
      | zero => simpa [quests] using okType_okRest rest h
      | succ q => simp [quests, okRest]
    have ih2 := parseRest_print r f' (quests q ++ rest) (by omega) hq
    have ih1 := parseSimple_print s f' (printRest r ++ (quests q ++ rest)) (by omega) (by
      cases r with
      | nil => simpa [printRest] using okRest_okSimple _ hq
      | cons _ _ => simp [printRest, okSimple])
    simp only [printType, List.append_assoc, parseType, ih1, ih2]
    rw [parseQuests_quests q _ rest (by simp [quests_length]) (okType_not_quest rest h)]

theorem parseArgs_print : (as : TypeEL) → ∀ (f : Nat) (rest : List Tok), as.size ≤ f → okList rest = true →
    parseArgs f (printArgs as ++ rest) = some (as, rest)
  | .nil, f, rest, hf, h => by
    obtain ⟨f', rfl⟩ : ∃ f', f = f' + 1 := ⟨f - 1, by simp [TypeEL.size] at hf; omega⟩
    match rest, h with
    | [], _ => simp [printArgs, parseArgs]
    | t :: ts, h => cases t <;> simp_all [printArgs, parseArgs, okList]
  | .cons t r, f, rest, hf, h => by
    obtain ⟨f', rfl⟩ : ∃ f', f = f' + 1 := ⟨f - 1, by simp [TypeEL.size] at hf; omega⟩
    simp only [TypeEL.size] at hf
    have ih2 := parseArgs_print r f' rest (by omega) h
    have ih1 := parseType_print t f' (printArgs r ++ rest) (by omega) (by
      cases r with
      | nil => simpa [printArgs] using okList_okType rest h
      | cons _ _ => simp [printArgs, okType])
    simp only [printArgs, List.cons_append, List.append_assoc, parseArgs, ih1, ih2]

theorem parseFields_print : (fs : FieldEL) → ∀ (f : Nat) (rest : List Tok), fs.size ≤ f →
    parseFields f (printFields fs ++ .rbrace :: rest) = some (fs, .rbrace :: rest)
  | .nil, f, rest, hf => by
    obtain ⟨f', rfl⟩ : ∃ f', f = f' + 1 := ⟨f - 1, by simp [FieldEL.size] at hf; omega⟩
    simp [printFields, parseFields]
  | .cons k t .nil, f, rest, hf => by
    obtain ⟨f', rfl⟩ : ∃ f', f = f' + 1 := ⟨f - 1, by simp [FieldEL.size] at hf; omega⟩
    simp only [FieldEL.size] at hf
    have ih1 := parseType_print t f' (.rbrace :: rest) (by omega) rfl
    simp only [printFields, List.cons_append, parseFields, ih1]
  | .cons k t (.cons k2 t2 r2), f, rest, hf => by
    obtain ⟨f', rfl⟩ : ∃ f', f = f' + 1 := ⟨f - 1, by simp [FieldEL.size] at hf; omega⟩
    simp only [FieldEL.size] at hf
    have ih2 := parseFields_print (.cons k2 t2 r2) f' rest (by simp only [FieldEL.size]; omega)
    have ih1 := parseType_print t f' (.comma :: (printFields (.cons k2 t2 r2) ++ .rbrace :: rest))
      (by omega) rfl
    simp only [printFields, List.cons_append, List.append_assoc, parseFields, ih1, ih2]
end

end TyM

namespace TyM

/-! ## fuel: the size of a syntax tree is bounded by four times its printed length -/

mutual
theorem size_prim : (p : Prim0) → p.size + 3 ≤ 4 * (printPrim p).length
  | .name _ | .str _ | .int _ | .bool _ => by simp [Prim0.size, printPrim]
  | .paren t => by
    have := size_type t
    simp [Prim0.size, printPrim]; omega
  | .generic _ a as => by
    have := size_type a
    have := size_args as
    simp [Prim0.size, printPrim]; omega
  | .obj fs => by
    have := size_fields fs
    simp [Prim0.size, printPrim]; omega
theorem size_simple : (s : Simple) → s.size + 2 ≤ 4 * (printSimple s).length
  | .mk b k => by
    have := size_prim b
    simp [Simple.size, printSimple]; omega
theorem size_rest : (r : SimpleL) → r.size ≤ 4 * (printRest r).length + 1
  | .nil => by simp [SimpleL.size, printRest]
  | .cons s r => by
    have := size_simple s
    have := size_rest r
    simp [SimpleL.size, printRest]; omega
theorem size_type : (t : TypeE) → t.size ≤ 4 * (printType t).length
  | .mk f r q => by
    have := size_simple f
    have := size_rest r
    simp [TypeE.size, printType]; omega
theorem size_args : (as : TypeEL) → as.size ≤ 4 * (printArgs as).length + 1
  | .nil => by simp [TypeEL.size, printArgs]
  | .cons t r => by
    have := size_type t
    have := size_args r
    simp [TypeEL.size, printArgs]; omega
theorem size_fields : (fs : FieldEL) → fs.size ≤ 4 * (printFields fs).length + 4
  | .nil => by simp [FieldEL.size, printFields]
  | .cons k t .nil => by
    have := size_type t
    simp [FieldEL.size, printFields]; omega
  | .cons k t (.cons k2 t2 r2) => by
    have := size_type t
    have := size_fields (.cons k2 t2 r2)
    simp only [FieldEL.size, printFields, List.length_cons, List.length_append] at *; omega
end

/-- the parser reads a printed syntax tree back, with the fuel `parseTy` uses -/
theorem parseType_printType (c : TypeE) :
    parseType (4 * (printType c).length + 4) (printType c) = some (c, []) := by
  have h := parseType_print c (4 * (printType c).length + 4) [] (by have := size_type c; omega) rfl
  simpa using h

end TyM
