import EmmyVerif.Model.Json
import EmmyVerif.Drv.Util
/-! Driver ops of the `json` family.

JSON values travel as a token stream in prefix form (one protocol argument per token):
`n` null, `t`/`f` booleans, `i<int>` integer, `s<hex>` string, `a<count>` array followed by its items,
`o<count>` object followed by `<hexkey> <value>` pairs. Results are printed canonically (sorted keys):
`n t f i<int> s<hex> [v,v] {hexkey:v,hexkey:v}`. -/
namespace Drv.Json
open _root_.Json

def parseInt (s : String) : Option Int :=
  match s.toList with
  | '-' :: ds => (String.ofList ds).toNat?.map fun n => -(n : Int)
  | _ => s.toNat?.map fun n => (n : Int)

mutual
def parseVal : Nat → List String → Option (J × List String)
  | 0, _ => none
  | _, [] => none
  | fuel + 1, tok :: rest =>
    match tok.toList with
    | ['n'] => some (.null, rest)
    | ['t'] => some (.bool true, rest)
    | ['f'] => some (.bool false, rest)
    | 'i' :: ds => (parseInt (String.ofList ds)).map fun n => (.num n, rest)
    | 's' :: hs => (Drv.unhex (String.ofList hs)).map fun s => (.str s, rest)
    | 'a' :: ds => do
      let n ← (String.ofList ds).toNat?
      let (xs, rest') ← parseItems fuel n rest
      pure (.arr xs, rest')
    | 'o' :: ds => do
      let n ← (String.ofList ds).toNat?
      let (fs, rest') ← parseFields fuel n rest
      pure (.obj fs, rest')
    | _ => none
def parseItems : Nat → Nat → List String → Option (List J × List String)
  | 0, _, _ => none
  | _, 0, rest => some ([], rest)
  | fuel + 1, n + 1, rest => do
    let (x, r1) ← parseVal fuel rest
    let (xs, r2) ← parseItems fuel n r1
    pure (x :: xs, r2)
def parseFields : Nat → Nat → List String → Option (List (List Char × J) × List String)
  | 0, _, _ => none
  | _, 0, rest => some ([], rest)
  | _, _ + 1, [] => none
  | fuel + 1, n + 1, k :: rest => do
    let key ← Drv.unhex k
    let (x, r1) ← parseVal fuel rest
    let (xs, r2) ← parseFields fuel n r1
    pure ((key, x) :: xs, r2)
end

def parseFiles : Nat → Nat → List String → Option (List J)
  | 0, _, _ => none
  | _, 0, [] => some []
  | _, 0, _ :: _ => none
  | fuel + 1, n + 1, toks => do
    let (x, rest) ← parseVal (2 * toks.length + 2) toks
    let xs ← parseFiles fuel n rest
    pure (x :: xs)

def keyLe (a b : List Char) : Bool := !(b < a)

def insertSorted (e : List Char × String) : List (List Char × String) → List (List Char × String)
  | [] => [e]
  | x :: rest => if keyLe e.1 x.1 then e :: x :: rest else x :: insertSorted e rest

mutual
def canon : J → String
  | .null => "n"
  | .bool true => "t"
  | .bool false => "f"
  | .num n => s!"i{n}"
  | .str s => "s" ++ Drv.hex s
  | .arr xs => "[" ++ Drv.joinWith "," (canonList xs) ++ "]"
  | .obj fs =>
    let es := (canonFields fs).foldl (fun acc e => insertSorted e acc) []
    "{" ++ Drv.joinWith "," (es.map fun e => Drv.hex e.1 ++ ":" ++ e.2) ++ "}"
def canonList : List J → List String
  | [] => []
  | x :: xs => canon x :: canonList xs
def canonFields : List (List Char × J) → List (List Char × String)
  | [] => []
  | (k, v) :: rest => (k, canon v) :: canonFields rest
end

def showPRes : PRes → String
  | .ok s => "ok " ++ Drv.hex s
  | .panic => "err panic"
  | .unsupported => "err unsupported"

def pairs : List (List Char) → List (List Char × List Char)
  | k :: v :: rest => (k, v) :: pairs rest
  | _ => []

/-- all results, or the first failure -/
def collect : List PRes → Except String (List (List Char))
  | [] => .ok []
  | .ok s :: rest => (collect rest).map (s :: ·)
  | .panic :: _ => .error "err panic"
  | .unsupported :: rest => match collect rest with
    | .error "err panic" => .error "err panic"
    | _ => .error "err unsupported"

def showList (l : List (List Char)) : String := Drv.joinWith "," (l.map Drv.hex)

/-- `<ws> <home|none> <luarocks> <nenv> <k v>… rest` -/
def parseEnv (args : List String) : Option (Env × List String) :=
  match args with
  | ws :: home :: lr :: n :: rest => do
    let ws ← Drv.unhex ws
    let home ← if home == "none" then some none else (Drv.unhex home).map some
    let lr ← Drv.unhex lr
    let n ← n.toNat?
    let envs ← (rest.take (2 * n)).mapM Drv.unhex
    pure (⟨ws, home, pairs envs, lr⟩, rest.drop (2 * n))
  | _ => none

def handle (op : String) (args : List String) : Option String :=
  match op, args with
  | "load", n :: toks => do
    let n ← n.toNat?
    let files ← parseFiles (n + 1) n toks
    pure ("ok " ++ canon (loadRaw files))
  | "flat", n :: toks => do
    let n ← n.toNat?
    let files ← parseFiles (n + 1) n toks
    pure ("ok " ++ canon (.obj (loadFlat files)))
  | "prepath", ws :: home :: luarocks :: p :: envs => do
    let ws ← Drv.unhex ws
    let home ← if home == "none" then some none else (Drv.unhex home).map some
    let lr ← Drv.unhex luarocks
    let p ← Drv.unhex p
    let envs ← envs.mapM Drv.unhex
    pure (showPRes (prePath ⟨ws, home, pairs envs, lr⟩ p))
  | "prepaths", args => do
    let (e, rest) ← parseEnv args
    let ps ← rest.mapM Drv.unhex
    pure (match collect (prePaths e ps) with
      | .ok l => "ok " ++ showList (dedupFirst [] l)
      | .error m => m)
  | "prepathcfg", args => do
    let (e, rest) ← parseEnv args
    match rest with
    | path :: dirs => do
      let path ← Drv.unhex path
      let dirs ← dirs.mapM Drv.unhex
      let (r, ds) := preItemConfig e path dirs
      pure (match collect (r :: ds) with
        | .ok (p :: l) => "ok " ++ Drv.hex p ++ "|" ++ showList l
        | .ok [] => "err unsupported"
        | .error m => m)
    | [] => none
  | _, _ => none

end Drv.Json
