import EmmyVerif.Model.SchedReload
import EmmyVerif.Gen.SchedReloadCfg
import EmmyVerif.Drv.Util
/-! Driver ops of the `SchedReload` family (C29). Notifications: `e<u>:<t>` open/change, `x<u>` close; disk `<u>=<t>,…`;
config `real` (= `Gen.reloadCfg`), `noloop`, `nobumpclose`, `nobumpsync`, `testfirst`.
A matcher is `all` or the `.`-separated list of EXCLUDED uris (`2.3`); reload requests = comma list of matchers, `-` = none. -/
namespace Drv.SchedReload
open _root_.SchedReload

def parseNotif (s : String) : Option Notif :=
  match s.toList with
  | 'x' :: ds => (String.ofList ds).toNat?.map Notif.close
  | 'e' :: ds =>
    match (String.ofList ds).splitOn ":" with
    | [u, t] => do pure (Notif.edit (← u.toNat?) (← t.toNat?))
    | _ => none
  | _ => none

def parseList {α} (f : String → Option α) (s : String) : Option (List α) :=
  if s == "-" then some [] else (s.splitOn ",").mapM f

def parseDisk (s : String) : Option TMap := do
  let ps ← parseList (fun e => match e.splitOn "=" with
    | [u, t] => do pure ((← u.toNat?), (← t.toNat?))
    | _ => none) s
  pure (fun u => (ps.find? (fun p => p.1 == u)).map (·.2))

def parseCfg (s : String) : Option Cfg :=
  if s == "real" then some Gen.reloadCfg
  else if s == "noloop" then some { realCfg with syncLoop := false }
  else if s == "nobumpclose" then some { realCfg with bumpOnClose := false }
  else if s == "nobumpsync" then some { realCfg with bumpOnSync := false }
  else if s == "testfirst" then some { realCfg with syncBeforeCheck := false }
  else none

def parseMatcher (s : String) : Option (Nat → Bool) :=
  if s == "all" then some (fun _ => true) else do
    let ex ← (s.splitOn ".").mapM String.toNat?
    pure (fun u => !ex.contains u)

def parseLabel (s : String) : Option Label :=
  if s == "main" then some .main else if s == "reload" then some .reload else if s == "rstep" then some .rstep else none

def showOpt : Option Nat → String
  | none => "none"
  | some t => toString t

def handle (op : String) (args : List String) : Option String :=
  match op, args with
  | "explore", [cfg, disk, us, ms, m0, reloads, fuel] => do
    let cfg ← parseCfg cfg
    let d ← parseDisk disk
    let us ← parseList String.toNat? us
    let ms ← parseList parseNotif ms
    let m0 ← parseMatcher m0
    let k ← parseList parseMatcher reloads
    let fuel ← fuel.toNat?
    pure (match explore cfg d us fuel [(init d m0 ms k, [])] 0 with
      | .error e => s!"err {e}"
      | .ok (none, n) => s!"ok all-consistent schedules={n}"
      | .ok (some p, n) => s!"ok counter schedules={n} schedule={Drv.joinWith "," (p.map showLabel)}")
  | "final", [disk, us, ms, mfinal] => do
    -- what every quiescent state must look like for the uris that are workspace files under the final matcher:
    -- wm after the notifications in order, overlaid on the disk; `*` = not a workspace file, nothing claimed
    let d ← parseDisk disk
    let us ← parseList String.toNat? us
    let ms ← parseList parseNotif ms
    let m ← parseMatcher mfinal
    let sched := List.replicate (3 * ms.length) Label.main
    pure (match run realCfg d (init d (fun _ => true) ms []) sched with
      | none => "err run"
      | some s => "ok " ++ Drv.joinWith "," (us.map (fun u =>
          s!"{showOpt (s.wm u)}/{if m u then showOpt (overlay s.wm d u) else "*"}")))
  | "cfg", [] => pure s!"ok bumpOnSync={Gen.reloadCfg.bumpOnSync} bumpOnClose={Gen.reloadCfg.bumpOnClose} syncLoop={Gen.reloadCfg.syncLoop} syncBeforeCheck={Gen.reloadCfg.syncBeforeCheck} membershipWithSync={Gen.reloadMembershipWithSync} snapshotAtomic={Gen.reloadSnapshotAtomic} prefersOpenText={Gen.reloadPrefersOpenText}"
  | _, _ => none

end Drv.SchedReload
