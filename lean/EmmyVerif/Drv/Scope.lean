import EmmyVerif.Model.ScopeRange
import EmmyVerif.Drv.Util
/-! Driver ops of the `Scope` family.

Programs arrive in postfix form, items separated by `,` (no blanks):
`n<k>` name use · `l` literal · `c<f>:<k>` call of name `f` with the `k` expressions on the stack ·
`F<ps>:<b>` closure with parameters `ps` (names joined by `-`) and the `b` statements on the stack ·
`L<names>:<k>` local · `A<vars>:<k>` assignment · `U<n>;<ps>:<b>` local function · `G<n>;<ps>:<b>`
function statement · `N<v>:<b>` numeric for (e1 e2 body) · `I<vs>:<b>` generic for (e body) ·
`W:<b>` while (c body) · `R:<b>` repeat (body c) · `D:<b>` do · `T:<t>:<e>` if (c then else) ·
`S<f>:<k>` call statement · `K<n>` local with attribute (value on the stack) · `M<obj>;<k>;<0|1>;<ps>:<b>` function
statement with `k` field names, `1` = method (`:`). The final stack is the chunk.
Ops: `ref`, `impl` (resolution lists `pos:decl|g`), `rename`, `refs`, `alpha`. -/
namespace Drv.Scope
open _root_.Scope

inductive V | e (x : Expr) | s (x : Stat)

def popExprs : Nat → List V → Option (List Expr × List V)
  | 0, st => some ([], st)
  | k + 1, .e x :: st => do let r ← popExprs k st; pure (r.1 ++ [x], r.2)
  | _, _ => none

def popStats : Nat → List V → Option (List Stat × List V)
  | 0, st => some ([], st)
  | k + 1, .s x :: st => do let r ← popStats k st; pure (r.1 ++ [x], r.2)
  | _, _ => none

def popExpr : List V → Option (Expr × List V)
  | .e x :: st => some (x, st)
  | _ => none

def names (s : String) : Option (List Name) :=
  if s.isEmpty then some [] else (s.splitOn "-").mapM String.toNat?

def step (st : List V) (item : String) : Option (List V) :=
  match item.toList with
  | [] => none
  | tag :: restChars =>
  match tag, (String.ofList restChars).splitOn ":" with
  | 'n', [k] => do pure (.e (.name (← k.toNat?)) :: st)
  | 'l', [""] => pure (.e .lit :: st)
  | 'c', [f, k] => do let r ← popExprs (← k.toNat?) st; pure (.e (.call (← f.toNat?) r.1) :: r.2)
  | 'F', [ps, b] => do let r ← popStats (← b.toNat?) st; pure (.e (.func (← names ps) r.1) :: r.2)
  | 'L', [ns, k] => do let r ← popExprs (← k.toNat?) st; pure (.s (.locl (← names ns) r.1) :: r.2)
  | 'A', [ns, k] => do let r ← popExprs (← k.toNat?) st; pure (.s (.assign (← names ns) r.1) :: r.2)
  | 'U', [hd, b] => do
    let [n, ps] := hd.splitOn ";" | none
    let r ← popStats (← b.toNat?) st
    pure (.s (.localFunc (← n.toNat?) (← names ps) r.1) :: r.2)
  | 'G', [hd, b] => do
    let [n, ps] := hd.splitOn ";" | none
    let r ← popStats (← b.toNat?) st
    pure (.s (.funcStat (← n.toNat?) (← names ps) r.1) :: r.2)
  | 'N', [v, b] => do
    let r ← popStats (← b.toNat?) st
    let (e2, st) ← popExpr r.2
    let (e1, st) ← popExpr st
    pure (.s (.forNum (← v.toNat?) e1 e2 r.1) :: st)
  | 'I', [vs, b] => do
    let r ← popStats (← b.toNat?) st
    let (e, st) ← popExpr r.2
    pure (.s (.forIn (← names vs) e r.1) :: st)
  | 'W', ["", b] => do
    let r ← popStats (← b.toNat?) st
    let (c, st) ← popExpr r.2
    pure (.s (.while_ c r.1) :: st)
  | 'R', ["", b] => do
    let (c, st) ← popExpr st
    let r ← popStats (← b.toNat?) st
    pure (.s (.repeat_ r.1 c) :: r.2)
  | 'D', ["", b] => do let r ← popStats (← b.toNat?) st; pure (.s (.do_ r.1) :: r.2)
  | 'T', ["", t, e] => do
    let re ← popStats (← e.toNat?) st
    let rt ← popStats (← t.toNat?) re.2
    let (c, st) ← popExpr rt.2
    pure (.s (.if_ c rt.1 re.1) :: st)
  | 'S', [f, k] => do let r ← popExprs (← k.toNat?) st; pure (.s (.callS (← f.toNat?) r.1) :: r.2)
  | 'K', [n] => do let (e, st) ← popExpr st; pure (.s (.loclAttr (← n.toNat?) e) :: st)
  | 'M', [hd, b] => do
    let [obj, k, c, ps] := hd.splitOn ";" | none
    let r ← popStats (← b.toNat?) st
    pure (.s (.method (← obj.toNat?) (← k.toNat?) (c == "1") (← names ps) r.1) :: r.2)
  | _, _ => none

def parse (s : String) : Option (List Stat) := do
  let st ← (s.splitOn ",").foldlM step []
  let r ← popStats st.length st
  pure r.1

def showNames (ns : List Name) : String := Drv.joinWith "-" (ns.map toString)

mutual
def encExpr : Expr → List String
  | .name n => [s!"n{n}"]
  | .lit => ["l"]
  | .call f args => encExprs args ++ [s!"c{f}:{args.length}"]
  | .func ps body => encBlock body ++ [s!"F{showNames ps}:{body.length}"]
def encExprs : List Expr → List String
  | [] => []
  | e :: es => encExpr e ++ encExprs es
def encStat : Stat → List String
  | .locl ns vals => encExprs vals ++ [s!"L{showNames ns}:{vals.length}"]
  | .assign ns vals => encExprs vals ++ [s!"A{showNames ns}:{vals.length}"]
  | .localFunc n ps body => encBlock body ++ [s!"U{n};{showNames ps}:{body.length}"]
  | .funcStat n ps body => encBlock body ++ [s!"G{n};{showNames ps}:{body.length}"]
  | .forNum v e1 e2 body => encExpr e1 ++ encExpr e2 ++ encBlock body ++ [s!"N{v}:{body.length}"]
  | .forIn vs e body => encExpr e ++ encBlock body ++ [s!"I{showNames vs}:{body.length}"]
  | .while_ c body => encExpr c ++ encBlock body ++ [s!"W:{body.length}"]
  | .repeat_ body c => encBlock body ++ encExpr c ++ [s!"R:{body.length}"]
  | .do_ body => encBlock body ++ [s!"D:{body.length}"]
  | .if_ c t e => encExpr c ++ encBlock t ++ encBlock e ++ [s!"T:{t.length}:{e.length}"]
  | .callS f args => encExprs args ++ [s!"S{f}:{args.length}"]
  | .loclAttr n val => encExpr val ++ [s!"K{n}"]
  | .method obj k colon ps body =>
    encBlock body ++ [s!"M{obj};{k};{if colon then "1" else "0"};{showNames ps}:{body.length}"]
def encBlock : List Stat → List String
  | [] => []
  | st :: rest => encStat st ++ encBlock rest
end

def encode (p : List Stat) : String := Drv.joinWith "," (encBlock p)

def showRes (rs : List Res) : String :=
  Drv.joinWith "," (rs.map fun r => s!"{r.1}:{match r.2 with | some d => toString d | none => "g"}")

def handle (op : String) (args : List String) : Option String :=
  match op, args with
  | "ref", [p] => do pure ("ok " ++ showRes (reference (← parse p)))
  | "impl", [p] => do pure ("ok " ++ showRes (implementation (← parse p)))
  -- rename / references requested at the name token `tok`: the edited token positions, or `global`
  | "rename", [p, tok] => do
    pure (match renameAt (← parse p) (← tok.toNat?) with
      | some es => "ok " ++ Drv.joinWith "," (es.map toString)
      | none => "ok global")
  | "refs", [p, tok] => do
    let prog ← parse p
    pure (match targetOf (implementation prog) (← tok.toNat?) with
      | some d => "ok " ++ Drv.joinWith "," ((referencesOf (implementation prog) d).map toString)
      | none => "ok global")
  -- resolution (model of the analyzer | reference resolver) of the program after the rename at `tok`
  | "alpha", [p, tok, new] => do
    let q := applyRename (← parse p) (← tok.toNat?) (← new.toNat?)
    pure ("ok " ++ showRes (implementation q) ++ "|" ++ showRes (reference q))
  -- the program after the rename at `tok`: by edit positions, and whether α-renaming the target
  -- declaration through the environment gives the same program
  | "renamed", [p, tok, new] => do
    let prog ← parse p
    let tok ← tok.toNat?
    let new ← new.toNat?
    let q := applyRename prog tok new
    let same := match targetOf (implementation prog) tok with
      | some d => encode (alphaProg d new prog) == encode q
      | none => true
    pure ("ok " ++ encode q ++ (if same then " same" else " DIFF"))
  -- every `find_local_decl` call of the walk: the open scopes at that moment are the path `find_scope`
  -- takes through the ranged scope tree of the chunk
  | "findscope", [p] => do
    let prog ← parse p
    let tr := (implBlock { pos := startPos, frames := [{ kind := .normal, start := 0, children := [] }], out := [] } prog).trace
    let tree := chunkTree prog
    let bad := tr.filter fun e => e.2.reverse != pathTree tree e.1
    pure (match bad with
      | [] => s!"ok {tr.length} same"
      | e :: _ => s!"ok {tr.length} DIFF {e.1}")
  | _, _ => none

end Drv.Scope
