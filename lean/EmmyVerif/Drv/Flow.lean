import EmmyVerif.Model.FlowProg
import EmmyVerif.Model.FlowLoop
import EmmyVerif.Drv.Util
/-! Driver ops of the `Flow` family.

`flow.run <prog>`: `<prog>` is a comma-separated prefix token stream (no blanks)
```
prog  := n decl^n block          decl := - | lit
lit   := N | T | F | I<n> | D<k> | S<s> | B<id>
block := { stmt* }
stmt  := A x lit | V x y | P id x | I cond block else
else  := n | e block | i cond block else
cond  := v x | y x tname neg | z x neg | q x lit neg | t x tname0 tname neg | ! cond | & cond cond | | cond cond
```
answer: `ok T=<id>:<x>:<type>;… S=<id>:<x>:<value>;…` (`T` = `TypeAt` for every probe, `S` = `Sem` trace). -/
namespace Drv.Flow
open _root_.Flow

abbrev Toks := List String

def parseLit (s : String) : Option Lit :=
  match s.toList with
  | ['N'] => some .nil
  | ['T'] => some (.bool true)
  | ['F'] => some (.bool false)
  | 'I' :: r => (String.ofList r).toNat?.map .int
  | 'D' :: r => (String.ofList r).toNat?.map .flt
  | 'S' :: r => (String.ofList r).toNat?.map .str
  | 'B' :: r => (String.ofList r).toNat?.map .tbl
  | _ => none

def parseTName (s : String) : Option TName :=
  match s with
  | "nil" => some .nil | "boolean" => some .boolean | "number" => some .number
  | "string" => some .string | "table" => some .table | _ => none

def parseBool (s : String) : Option Bool :=
  match s with | "0" => some false | "1" => some true | _ => none

def parseCLit (s : String) : Option CLit :=
  match parseLit s with
  | some (.bool b) => some (.bool b)
  | some (.int n) => some (.int n)
  | some (.flt k) => some (.flt k)
  | some (.str k) => some (.str k)
  | _ => none

def parseCond : Nat → Toks → Option (Cond × Toks)
  | 0, _ => none
  | fuel + 1, ts =>
    match ts with
    | "v" :: x :: r => do pure (.leaf (.truthy (← x.toNat?)), r)
    | "y" :: x :: t :: n :: r => do pure (.leaf (.typeIs (← x.toNat?) (← parseTName t) (← parseBool n)), r)
    | "z" :: x :: n :: r => do pure (.leaf (.isNil (← x.toNat?) (← parseBool n)), r)
    | "q" :: x :: l :: n :: r => do pure (.leaf (.eqLit (← x.toNat?) (← parseCLit l) (← parseBool n)), r)
    | "t" :: x :: t0 :: t :: n :: r => do
      pure (.leaf (.stored (← x.toNat?) (← parseTName t0) (← parseTName t) (← parseBool n)), r)
    | "!" :: r => do
      let (c, r) ← parseCond fuel r
      pure (.not c, r)
    | "&" :: r => do
      let (a, r) ← parseCond fuel r
      let (b, r) ← parseCond fuel r
      pure (.and a b, r)
    | "|" :: r => do
      let (a, r) ← parseCond fuel r
      let (b, r) ← parseCond fuel r
      pure (.or a b, r)
    | _ => none

mutual
def parseStmt : Nat → Toks → Option (Stmt × Toks)
  | 0, _ => none
  | fuel + 1, ts =>
    match ts with
    | "A" :: x :: l :: r => do pure (.assign (← x.toNat?) (← parseLit l), r)
    | "V" :: x :: y :: r => do pure (.assignVar (← x.toNat?) (← y.toNat?), r)
    | "P" :: i :: x :: r => do pure (.probe (← i.toNat?) (← x.toNat?), r)
    | "I" :: r => do
      let (c, r) ← parseCond (fuel + 1) r
      let (b, r) ← parseBlock fuel r
      let (e, r) ← parseElse fuel r
      pure (.ite c b e, r)
    | _ => none
def parseElse : Nat → Toks → Option (Else × Toks)
  | 0, _ => none
  | fuel + 1, ts =>
    match ts with
    | "n" :: r => some (.none, r)
    | "e" :: r => do
      let (b, r) ← parseBlock fuel r
      pure (.els b, r)
    | "i" :: r => do
      let (c, r) ← parseCond (fuel + 1) r
      let (b, r) ← parseBlock fuel r
      let (e, r) ← parseElse fuel r
      pure (.elif c b e, r)
    | _ => none
def parseBlock : Nat → Toks → Option (Block × Toks)
  | 0, _ => none
  | fuel + 1, ts =>
    match ts with
    | "{" :: r => parseStmts fuel r
    | _ => none
def parseStmts : Nat → Toks → Option (Block × Toks)
  | 0, _ => none
  | fuel + 1, ts =>
    match ts with
    | "}" :: r => some (.nil, r)
    | _ => do
      let (s, r) ← parseStmt fuel ts
      let (b, r) ← parseStmts fuel r
      pure (.cons s b, r)
end

def parseDecls : Nat → Toks → Option (List (Option Lit) × Toks)
  | 0, ts => some ([], ts)
  | n + 1, t :: r => do
    let d ← if t == "-" then some none else (parseLit t).map some
    let (ds, r) ← parseDecls n r
    pure (d :: ds, r)
  | _, _ => none

def parseProg (s : String) : Option Prog := do
  let ts := s.splitOn ","
  match ts with
  | n :: r =>
    let n ← n.toNat?
    let (ds, r) ← parseDecls n r
    let (b, r) ← parseBlock (ts.length + 1) r
    if r.isEmpty then pure ⟨ds, b⟩ else none
  | _ => none

/-! `FL` (loops): `stmt` additionally `W cond block | X block | R block cond | F a b block | G n block | K cond` -/
mutual
def parseLStmt : Nat → Toks → Option (LStmt × Toks)
  | 0, _ => none
  | fuel + 1, ts =>
    match ts with
    | "A" :: x :: l :: r => do pure (.assign (← x.toNat?) (← parseLit l), r)
    | "V" :: x :: y :: r => do pure (.assignVar (← x.toNat?) (← y.toNat?), r)
    | "P" :: i :: x :: r => do pure (.probe (← i.toNat?) (← x.toNat?), r)
    | "I" :: r => do
      let (c, r) ← parseCond (fuel + 1) r
      let (b, r) ← parseLBlock fuel r
      let (e, r) ← parseLElse fuel r
      pure (.ite c b e, r)
    | "W" :: r => do
      let (c, r) ← parseCond (fuel + 1) r
      let (b, r) ← parseLBlock fuel r
      pure (.whileDo c b, r)
    | "X" :: r => do
      let (b, r) ← parseLBlock fuel r
      pure (.whileTrue b, r)
    | "R" :: r => do
      let (b, r) ← parseLBlock fuel r
      let (c, r) ← parseCond (fuel + 1) r
      pure (.repeatUntil b c, r)
    | "F" :: a :: z :: r => do
      let (b, r) ← parseLBlock fuel r
      pure (.forNum (← a.toNat?) (← z.toNat?) b, r)
    | "G" :: n :: r => do
      let (b, r) ← parseLBlock fuel r
      pure (.forIn (← n.toNat?) b, r)
    | "K" :: r => do
      let (c, r) ← parseCond (fuel + 1) r
      pure (.breakIf c, r)
    | _ => none
def parseLElse : Nat → Toks → Option (LElse × Toks)
  | 0, _ => none
  | fuel + 1, ts =>
    match ts with
    | "n" :: r => some (.none, r)
    | "e" :: r => do
      let (b, r) ← parseLBlock fuel r
      pure (.els b, r)
    | "i" :: r => do
      let (c, r) ← parseCond (fuel + 1) r
      let (b, r) ← parseLBlock fuel r
      let (e, r) ← parseLElse fuel r
      pure (.elif c b e, r)
    | _ => none
def parseLBlock : Nat → Toks → Option (LBlock × Toks)
  | 0, _ => none
  | fuel + 1, ts =>
    match ts with
    | "{" :: r => parseLStmts fuel r
    | _ => none
def parseLStmts : Nat → Toks → Option (LBlock × Toks)
  | 0, _ => none
  | fuel + 1, ts =>
    match ts with
    | "}" :: r => some (.nil, r)
    | _ => do
      let (s, r) ← parseLStmt fuel ts
      let (b, r) ← parseLStmts fuel r
      pure (.cons s b, r)
end

def parseLProg (s : String) : Option LProg := do
  let ts := s.splitOn ","
  match ts with
  | n :: r =>
    let n ← n.toNat?
    let (ds, r) ← parseDecls n r
    let (b, r) ← parseLBlock (ts.length + 1) r
    if r.isEmpty then pure ⟨ds, b⟩ else none
  | _ => none

def showAtom : Atom → String
  | .unknown => "unknown" | .nil => "nil" | .table => "table" | .boolean => "boolean" | .string => "string"
  | .integer => "integer" | .number => "number" | .never => "never"
  | .boolC true => "true" | .boolC false => "false"
  | .intC n => s!"i{n}" | .fltC k => s!"f{k}" | .strC s => s!"s{s}" | .tblC i => s!"t{i}"

def showTy (t : Ty) : String := Drv.joinWith "|" (t.map showAtom)

def showVal : Val → String
  | .nil => "nil" | .bool true => "true" | .bool false => "false"
  | .int n => s!"i{n}" | .flt k => s!"f{k}" | .str s => s!"s{s}" | .tbl i => s!"t{i}"

def run (p : Prog) : String :=
  let ta := p.typeAt.map fun (i, x, t) => s!"{i}:{x}:{showTy t}"
  let tr := p.run.map fun (i, x, v) => s!"{i}:{x}:{showVal v}"
  s!"T={Drv.joinWith ";" ta} S={Drv.joinWith ";" tr}"

/-- `flow.runl <prog> <fuel>`: `S=!fuel` when the budget is exhausted -/
def runl (p : LProg) (fuel : Nat) : String :=
  let ta := p.typeAt.map fun (i, x, t) => s!"{i}:{x}:{showTy t}"
  let tr := match p.run fuel with
    | none => "!fuel"
    | some obs => Drv.joinWith ";" (obs.map fun (o : Obs) => s!"{o.1}:{o.2.1}:{showVal o.2.2}")
  s!"T={Drv.joinWith ";" ta} S={tr}"

def handle (op : String) (args : List String) : Option String :=
  match op, args with
  | "run", [p] => do
    let p ← parseProg p
    pure ("ok " ++ run p)
  | "runl", [p, f] => do
    let p ← parseLProg p
    let f ← f.toNat?
    pure ("ok " ++ runl p f)
  | _, _ => none

end Drv.Flow
