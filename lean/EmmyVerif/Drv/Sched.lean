import EmmyVerif.Model.Sched
import EmmyVerif.Gen.SchedDispatch
import EmmyVerif.Drv.Util
/-! Driver ops of the `Sched` family (C27).
Notifications: `o<u>:<t>` open, `c<u>:<t>` change, `x<u>` close, `s<u>` save; lists are comma-separated, `-` = empty.
Disk: `<u>=<t>,…`. Dispatch: `real` (= `Gen.syncNotifications`) or a `+`-separated list of method constant names. -/
namespace Drv.Sched
open _root_.Sched

def parseNotif (s : String) : Option Notif :=
  match s.toList with
  | 'x' :: ds => (String.ofList ds).toNat?.map (fun u => ⟨.didClose, u, 0⟩)
  | 's' :: ds => (String.ofList ds).toNat?.map (fun u => ⟨.didSave, u, 0⟩)
  | c :: ds =>
    match (String.ofList ds).splitOn ":" with
    | [u, t] => do
      let u ← u.toNat?
      let t ← t.toNat?
      if c == 'o' then pure ⟨.didOpen, u, t⟩ else if c == 'c' then pure ⟨.didChange, u, t⟩ else none
    | _ => none
  | [] => none

def parseList {α} (f : String → Option α) (s : String) : Option (List α) :=
  if s == "-" then some [] else (s.splitOn ",").mapM f

def parseDisk (s : String) : Option TMap := do
  let ps ← parseList (fun e => match e.splitOn "=" with
    | [u, t] => do pure ((← u.toNat?), (← t.toNat?))
    | _ => none) s
  pure (fun u => (ps.find? (fun p => p.1 == u)).map (·.2))

def parseInline (s : String) : Kind → Bool :=
  if s == "real" then inlineOf Gen.syncNotifications else inlineOf (s.splitOn "+")

def showOpt : Option Nat → String
  | none => "none"
  | some t => toString t

def showObs (o : List (Option Text × Option Text)) : String :=
  Drv.joinWith "," (o.map (fun p => s!"{showOpt p.1}/{showOpt p.2}"))

def parseLabel (s : String) : Option Label :=
  if s == "main" then some .main
  else if s.startsWith "task" then (s.drop 4).toString.toNat?.map Label.task else none

def handle (op : String) (args : List String) : Option String :=
  match op, args with
  | "spec", [disk, us, ms] => do
    let d ← parseDisk disk
    let us ← parseList String.toNat? us
    let ms ← parseList parseNotif ms
    pure ("ok " ++ showObs (observe (spec d ⟨fun _ => none, d⟩ ms) us))
  | "run", [inl, disk, us, ms, sched] => do
    let d ← parseDisk disk
    let us ← parseList String.toNat? us
    let ms ← parseList parseNotif ms
    let labs ← parseList parseLabel sched
    pure (match run (parseInline inl) d (init ms ⟨fun _ => none, d⟩) labs with
      | none => "ok not-enabled"
      | some s => s!"ok {if quiescentB s then "quiescent" else "running"} {showObs (observe s.store us)}")
  | "explore", [inl, disk, us, ms, fuel] => do
    let d ← parseDisk disk
    let us ← parseList String.toNat? us
    let ms ← parseList parseNotif ms
    let fuel ← fuel.toNat?
    let st0 : Store := ⟨fun _ => none, d⟩
    pure (match explore (parseInline inl) d us (observe (spec d st0 ms) us) fuel [(init ms st0, [])] 0 with
      | .error e => s!"err {e}"
      | .ok (none, n) => s!"ok all-equal schedules={n}"
      | .ok (some p, n) => s!"ok counter schedules={n} schedule={Drv.joinWith "," (p.map showLabel)}")
  | "dispatch", [] => pure s!"ok sync={Drv.joinWith "+" Gen.syncNotifications} async={Drv.joinWith "+" Gen.asyncNotifications}"
  | _, _ => none

end Drv.Sched
