import EmmyVerif.Model.EventsDoc
import EmmyVerif.Drv.Util
/-! Driver ops of the `treedoc` family: replay of a doc-parser operation trace (hook
`LuaParser::verif_parse_doc_trace`) through `Doc.start` / `Doc.run`.

Kinds: `n` none, `f` eof, `w` ws, `e` eol, `c` cont, `o` contOr, `ns` normalStart, `ls` longStart,
`ds` docStart, `dl` docLongStart, `le` longEnd, `t` trivia, `d` detail, `au` attribute-use start, `x<n>` other.
States: `i` init, `n` normal, `l` normalLike, `w` wsOnly, `c` castExpr, `d` description, `t` trivia, `o` other.
Origin tokens: comma separated `p|c` `<kind>:<start>:<len>`. Trace: comma separated `B`, `S<state>`, `E`,
`K<kind>`, `L<kind>.<len>` (doc-lexer results, in call order). -/
namespace Drv.TreeDoc
open Doc

def parseK (s : String) : Option K :=
  match s with
  | "n" => some .none | "f" => some .eof | "w" => some .ws | "e" => some .eol | "c" => some .cont
  | "o" => some .contOr | "ns" => some .normalStart | "ls" => some .longStart | "ds" => some .docStart
  | "dl" => some .docLongStart | "le" => some .longEnd | "t" => some .trivia | "d" => some .detail
  | "au" => some .attrUse
  | _ => if s.startsWith "x" then (s.drop 1).toNat?.map .other else none

def showK : K → String
  | .none => "n" | .eof => "f" | .ws => "w" | .eol => "e" | .cont => "c" | .contOr => "o"
  | .normalStart => "ns" | .longStart => "ls" | .docStart => "ds" | .docLongStart => "dl" | .longEnd => "le"
  | .trivia => "t" | .detail => "d" | .attrUse => "au" | .other n => s!"x{n}"

def parseLS (s : String) : Option LS :=
  match s with
  | "i" => some .init | "n" => some .normal | "l" => some .normalLike | "w" => some .wsOnly
  | "c" => some .castExpr | "d" => some .description | "t" => some .trivia | "o" => some .other
  | _ => none

def parseOTok (s : String) : Option OTok :=
  let pass := s.startsWith "p"
  match (s.drop 1).toString.splitOn ":" with
  | [k, a, l] => do
    let k ← parseK k
    let a ← a.toNat?
    let l ← l.toNat?
    pure ⟨pass, k, a, l⟩
  | _ => none

/-- split a trace into grammar ops and the doc-lexer script -/
def parseTrace : List String → Option (List Op × List (K × Nat))
  | [] => some ([], [])
  | x :: xs => do
    let (ops, sc) ← parseTrace xs
    if x == "B" then pure (Op.bump :: ops, sc)
    else if x == "E" then pure (Op.bumpToEnd :: ops, sc)
    else if x.startsWith "S" then do
      let s ← parseLS (x.drop 1).toString
      pure (Op.setState s :: ops, sc)
    else if x.startsWith "K" then do
      let k ← parseK (x.drop 1).toString
      pure (Op.setKind k :: ops, sc)
    else if x.startsWith "L" then
      match (x.drop 1).toString.splitOn "." with
      | [k, n] => do
        let k ← parseK k
        let n ← n.toNat?
        pure (ops, (k, n) :: sc)
      | _ => none
    else none

def showEv (e : K × Nat × Nat) : String := s!"{showK e.1}:{e.2.1}:{e.2.2}"

def handle (op : String) (args : List String) : Option String :=
  match op, args with
  | "replay", [toks, trace] => do
    let toks ← (if toks == "-" then some [] else (toks.splitOn ",").mapM parseOTok)
    let (ops, sc) ← parseTrace (if trace == "-" then [] else trace.splitOn ",")
    -- the first recorded op is the `bump` of `init`
    let (d0, ops) := match ops with
      | Op.bump :: rest => (Doc.start toks sc, rest)
      | ops => (D.new toks sc, ops)
    pure (match Doc.run d0 ops with
      | none => "err panic"
      | some d => "ok " ++ showK d.cur ++ " " ++
          (if d.events.isEmpty then "-" else Drv.joinWith "," (d.events.map showEv)) ++
          s!" script_left={d.script.length}")
  | _, _ => none

end Drv.TreeDoc
