import EmmyVerif.Model.Emit
import EmmyVerif.Drv.Util
/-! Driver ops of the `emit` family.
`emit.convert <priv 0|1> <title|none> <desc|none> <n> { <name> <desc|none> <required 0|1> (p <type> | c <value> | e <k> <value>…) }`
answers `ok <hex annotation text> <hex root type name>`; `emit.typename <name>`, `emit.literal <s>`. -/
namespace Drv.Emit
open _root_.Emit

/-- `char::is_alphabetic` on ASCII and the non-ASCII characters the generator uses -/
def alpha (c : Char) : Bool := c.isAlpha || c == 'é' || c == 'ß' || c == '中' || c == '文'
def alnum (c : Char) : Bool := c.isAlphanum || alpha c

def optArg (s : String) : Option (Option (List Char)) :=
  if s == "none" then some none else (Drv.unhex s).map some

def takeN : Nat → List String → Option (List (List Char) × List String)
  | 0, rest => some ([], rest)
  | _ + 1, [] => none
  | n + 1, x :: rest => do
    let v ← Drv.unhex x
    let (vs, r) ← takeN n rest
    pure (v :: vs, r)

def parseProps : Nat → List String → Option (List Prop')
  | 0, [] => some []
  | 0, _ :: _ => none
  | n + 1, name :: desc :: req :: kind :: rest => do
    let name ← Drv.unhex name
    let desc ← optArg desc
    let req := req == "1"
    match kind, rest with
    | "p", t :: rest' => do
      let t ← Drv.unhex t
      let ps ← parseProps n rest'
      pure (⟨name, desc, req, .prim t⟩ :: ps)
    | "c", t :: rest' => do
      let t ← Drv.unhex t
      let ps ← parseProps n rest'
      pure (⟨name, desc, req, .const t⟩ :: ps)
    | "e", k :: rest' => do
      let k ← k.toNat?
      let (vs, rest'') ← takeN k rest'
      let ps ← parseProps n rest''
      pure (⟨name, desc, req, .enum vs⟩ :: ps)
    | _, _ => none
  | _ + 1, _ => none

def handle (op : String) (args : List String) : Option String :=
  match op, args with
  | "convert", priv :: title :: desc :: n :: rest => do
    let title ← optArg title
    let desc ← optArg desc
    let n ← n.toNat?
    let props ← parseProps n rest
    let s : Schema := ⟨title, desc, props⟩
    pure s!"ok {Drv.hex (render (convertLines alnum alpha (priv == "1") s))} {Drv.hex (rootName alnum alpha s)}"
  | "typename", [n] => do
    let n ← Drv.unhex n
    pure ("ok " ++ Drv.hex (typeName alnum alpha "schema.".toList n))
  | "literal", [s] => do
    let s ← Drv.unhex s
    pure ("ok " ++ Drv.hex (stringLiteralType s))
  | _, _ => none

end Drv.Emit
