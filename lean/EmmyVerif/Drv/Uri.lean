import EmmyVerif.Model.Uri
import EmmyVerif.Drv.Util
/-! Driver ops of the `uri` family. Arguments are lower-case hex of raw bytes (not necessarily UTF-8);
`-` is the empty string. -/
namespace Drv.Uri
open _root_.Uri

def unhexBytes (s : String) : Option (List Nat) :=
  if s == "-" then some [] else (Drv.hexBytes s.toList).map (·.map (·.toNat))

def hexOf (bs : List Nat) : String :=
  if bs.isEmpty then "-" else
  String.ofList (bs.flatMap fun b => [Drv.hexDigit (b / 16 % 16), Drv.hexDigit (b % 16)])

def showOptPath : Option (List Nat) → String
  | none => "none"
  | some p => hexOf p

/-- `roundtrip <path>`: `file_path_to_uri` then `uri_to_file_path` -/
def roundtrip (p : List Nat) : String :=
  match filePathToUri p with
  | none => "ok relative"
  | some .unsupported => "err unsupported"
  | some (.ok u) =>
    match uriToFilePath u with
    | .unsupported => "err unsupported"
    | .ok back => s!"ok uri={hexOf u.str} back={showOptPath back}"

/-- `alt <uri string>`: `Uri::from_str`, its path, `uri_to_file_path` -/
def alt (s : List Nat) : String :=
  match parseUri s with
  | .unsupported => "err unsupported"
  | .ok u =>
    match uriToFilePath u with
    | .unsupported => "err unsupported"
    | .ok back => s!"ok path={hexOf u.path} file={showOptPath back}"

/-- `fileid <uri>…`: ids handed out by a fresh `Vfs` for the URI strings in order -/
def fileIds (us : List (List Nat)) : Option (List Nat) :=
  (us.foldl (fun (acc : Option (Vfs × List Nat)) s =>
    match acc with
    | none => none
    | some (v, out) =>
      match strToPath s with
      | .unsupported => none
      | .ok p => let (i, v') := v.fileId p; some (v', i :: out)) (some (Vfs.empty, []))).map (·.2.reverse)

def handle (op : String) (args : List String) : Option String :=
  match op, args with
  | "roundtrip", [h] => do
    let p ← unhexBytes h
    pure (roundtrip p)
  | "alt", [h] => do
    let s ← unhexBytes h
    pure (alt s)
  | "fileid", hs => do
    let us ← hs.mapM unhexBytes
    pure (match fileIds us with
      | none => "err unsupported"
      | some ids => "ok " ++ Drv.joinWith "," (ids.map toString))
  | "encrow", [n] => do
    let b ← n.toNat?
    pure ("ok " ++ hexOf (encByte b))
  | _, _ => none

end Drv.Uri
