import EmmyVerif.Model.Uri
import EmmyVerif.Drv.Util
/-! Driver ops of the `uri` family. Arguments are lower-case hex of raw bytes (not necessarily UTF-8);
`-` is the empty string. -/
namespace Drv.Uri
open _root_.Uri

def unhexBytes (s : String) : Option (List Nat) :=
  if s == "-" then some [] else (Drv.hexBytes s.toList).map (·.map (·.toNat))

def hexOf (bs : List Nat) : String :=
  if bs.isEmpty then "-" else
  String.ofList (bs.flatMap fun b => [Drv.hexDigit (b / 16 % 16), Drv.hexDigit (b % 16)])

def showOptPath : Option (List Nat) → String
  | none => "none"
  | some p => hexOf p

/-- `roundtrip <path>`: `file_path_to_uri` then `uri_to_file_path` -/
def roundtrip (p : List Nat) : String :=
  match filePathToUri p with
  | none => "ok relative"
  | some .unsupported => "err unsupported"
  | some (.ok u) =>
    match uriToFilePath u with
    | .unsupported => "err unsupported"
    | .ok back => s!"ok uri={hexOf u.str} back={showOptPath back}"

/-- `alt <uri string>`: `Uri::from_str`, its path, `uri_to_file_path` -/
def alt (s : List Nat) : String :=
  match parseUri s with
  | .unsupported => "err unsupported"
  | .ok u =>
    match uriToFilePath u with
    | .unsupported => "err unsupported"
    | .ok back => s!"ok path={hexOf u.path} file={showOptPath back}"

/-- `fileid <uri>…`: ids handed out by a fresh `Vfs` for the URI strings in order -/
def fileIds (us : List (List Nat)) : Option (List Nat) :=
  (us.foldl (fun (acc : Option (Vfs × List Nat)) s =>
    match acc with
    | none => none
    | some (v, out) =>
      match strToPath s with
      | .unsupported => none
      | .ok p => let (i, v') := v.fileId p; some (v', i :: out)) (some (Vfs.empty, []))).map (·.2.reverse)

/-- history token: `f:<uri>` file_id, `g:` get_file_id, `r:` remove_file, `d:` read content,
`s<tag>:` / `sn:` set_file_content(Some tag / None), `c` clear, `l` local ids -/
def parseOp (tok : String) : Option (Op × List Nat) :=
  match tok.splitOn ":" with
  | ["c"] => some (.clear, [])
  | ["l"] => some (.localIds, [])
  | [k, h] => do
    let u ← unhexBytes h
    match k.toList with
    | ['f'] => some (.fileId, u)
    | ['g'] => some (.getFileId, u)
    | ['r'] => some (.removeFile, u)
    | ['d'] => some (.read, u)
    | ['s', 'n'] => some (.setContent none, u)
    | 's' :: ds => (String.ofList ds).toNat?.map fun t => (.setContent (some t), u)
    | _ => none
  | _ => none

def showOut : Out → String
  | .id i => toString i
  | .optId o => Drv.showOptNat o
  | .content o => "c" ++ Drv.showOptNat o
  | .ids l => "[" ++ Drv.joinWith ";" (l.map toString) ++ "]"
  | .unit => "-"

/-- `clear` and `localIds` carry no URI: give them one inside the model's domain -/
def withUri (o : Op × List Nat) : Op × List Nat :=
  match o.1 with
  | .clear | .localIds => (o.1, filePrefix ++ [47])
  | _ => o

def handle (op : String) (args : List String) : Option String :=
  match op, args with
  | "roundtrip", [h] => do
    let p ← unhexBytes h
    pure (roundtrip p)
  | "alt", [h] => do
    let s ← unhexBytes h
    pure (alt s)
  | "fileid", hs => do
    let us ← hs.mapM unhexBytes
    pure (match fileIds us with
      | none => "err unsupported"
      | some ids => "ok " ++ Drv.joinWith "," (ids.map toString))
  | "history", toks => do
    let ops ← toks.mapM parseOp
    pure (match Vfs.empty.runStr (ops.map withUri) with
      | none => "err unsupported"
      | some outs => "ok " ++ Drv.joinWith "," (outs.map showOut))
  | "encrow", [n] => do
    let b ← n.toNat?
    pure ("ok " ++ hexOf (encByte b))
  | _, _ => none

end Drv.Uri
