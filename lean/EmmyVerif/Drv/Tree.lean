import EmmyVerif.Model.Events
import EmmyVerif.Model.Cache
import EmmyVerif.Drv.Util
/-! Driver ops of the `tree` family (green builder, tree builder, node cache, reader, lexer loop).

Encoding of kinds: nodes `B` Block, `C` Chunk, `M` Comment, `U` TypeMultiLineUnion, `D` DocDescription,
`N` None, `o<n>` any other kind (n = discriminant); tokens `w` TkWhitespace, `e` TkEndOfLine,
`c` TkDocContinue, `o<n>` other.
Event list: comma separated `s<K>.<parent>` | `t<K>.<hex text>` | `f` (NodeEnd) | `v` (Trivia); `-` = empty.
Tree: node `(<K><children>)`, token `[<K>:<hex text>]`. -/
namespace Drv.Tree
open Green

def nkindCode : NKind → String
  | .block => "B" | .chunk => "C" | .comment => "M" | .multiLineUnion => "U" | .docDescription => "D"
  | .none => "N" | .other n => s!"o{n}"

def tkindCode : TKind → String
  | .ws => "w" | .eol => "e" | .docContinue => "c" | .other n => s!"o{n}"

def parseNKind (s : String) : Option NKind :=
  match s with
  | "B" => some .block | "C" => some .chunk | "M" => some .comment | "U" => some .multiLineUnion
  | "D" => some .docDescription | "N" => some .none
  | _ => if s.startsWith "o" then (s.drop 1).toNat?.map .other else none

def parseTKind (s : String) : Option TKind :=
  match s with
  | "w" => some .ws | "e" => some .eol | "c" => some .docContinue
  | _ => if s.startsWith "o" then (s.drop 1).toNat?.map .other else none

def parseEv (s : String) : Option MEv :=
  if s == "f" then some .fin
  else if s == "v" then some .trivia
  else if s.startsWith "s" then
    match (s.drop 1).toString.splitOn "." with
    | [k, p] => do
      let k ← parseNKind k
      let p ← p.toNat?
      pure (.start k p)
    | _ => none
  else if s.startsWith "t" then
    match (s.drop 1).toString.splitOn "." with
    | [k, h] => do
      let k ← parseTKind k
      let t ← Drv.unhex h
      pure (.tok k t)
    | _ => none
  else none

def parseEvs (s : String) : Option (List MEv) :=
  if s == "-" then some [] else (s.splitOn ",").mapM parseEv

mutual
def showElem : Elem → String
  | .tok k t => "[" ++ tkindCode k ++ ":" ++ Drv.hex t ++ "]"
  | .node k cs => "(" ++ nkindCode k ++ showElems cs ++ ")"
def showElems : List Elem → String
  | [] => ""
  | e :: es => showElem e ++ showElems es
end

/-! S-expression parser (fuel = input length). -/
def spanNot (stop : Char → Bool) : List Char → List Char × List Char
  | [] => ([], [])
  | c :: cs => if stop c then ([], c :: cs) else
    let r := spanNot stop cs
    (c :: r.1, r.2)

mutual
def pElem : Nat → List Char → Option (Elem × List Char)
  | 0, _ => none
  | f+1, '[' :: rest =>
    let (k, r1) := spanNot (· == ':') rest
    match r1 with
    | ':' :: r2 =>
      let (h, r3) := spanNot (· == ']') r2
      match r3 with
      | ']' :: r4 => do
        let k ← parseTKind (String.ofList k)
        let t ← Drv.unhex (String.ofList h)
        pure (.tok k t, r4)
      | _ => none
    | _ => none
  | f+1, '(' :: rest =>
    let (k, r1) := spanNot (fun c => c == '(' || c == '[' || c == ')') rest
    do
      let k ← parseNKind (String.ofList k)
      let (cs, r2) ← pElems f r1
      pure (.node k cs, r2)
  | _, _ => none
def pElems : Nat → List Char → Option (List Elem × List Char)
  | 0, _ => none
  | _+1, ')' :: rest => some ([], rest)
  | f+1, cs => do
    let (e, r) ← pElem f cs
    let (es, r2) ← pElems f r
    pure (e :: es, r2)
end

def parseTree (s : String) : Option Elem :=
  match pElem (s.length + 1) s.toList with
  | some (e, []) => some e
  | _ => none

/-- renumber ids by first occurrence -/
def renumber (seen : List Nat) : List Nat → List Nat × List Nat
  | [] => (seen, [])
  | i :: is =>
    match seen.idxOf? i with
    | some n =>
      let r := renumber seen is
      (r.1, n :: r.2)
    | none =>
      let r := renumber (seen ++ [i]) is
      (r.1, seen.length :: r.2)

/-- identity structure of a history of trees built through one cache: per tree the pre-order list
of element identities, renumbered by first occurrence over the whole history -/
def cacheIds (trees : List Elem) : String :=
  let r := internAll Cache.empty trees
  let h := r.1.heap
  let lists := r.2.map (preorderFuel (h.length + 1) h)
  let out := lists.foldl (fun (acc : List Nat × List String) l =>
    let rr := renumber acc.1 l
    (rr.1, acc.2 ++ [Drv.joinWith "." (rr.2.map toString)])) ([], [])
  Drv.joinWith ";" out.2

def handle (op : String) (args : List String) : Option String :=
  match op, args with
  | "build", [evs] => do
    let evs ← parseEvs evs
    pure (match build evs with
      | none => "err panic"
      | some r => "ok " ++ showElem r)
  | "cache", trees => do
    let ts ← trees.mapM parseTree
    pure ("ok " ++ cacheIds ts)
  | "denote", trees => do
    -- the trees denoted by the results of a history through one cache (must echo the input)
    let ts ← trees.mapM parseTree
    let r := internAll Cache.empty ts
    pure ("ok " ++ Drv.joinWith " " (r.2.map fun id => match den r.1 id with
      | some e => showElem e
      | none => "none"))
  | _, _ => none

end Drv.Tree
