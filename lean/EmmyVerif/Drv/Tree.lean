import EmmyVerif.Model.Events
import EmmyVerif.Model.Cache
import EmmyVerif.Model.EventsCore
import EmmyVerif.Model.Reader
import EmmyVerif.Drv.Util
/-! Driver ops of the `tree` family (green builder, tree builder, node cache, reader, lexer loop).

Encoding of kinds: nodes `B` Block, `C` Chunk, `M` Comment, `U` TypeMultiLineUnion, `D` DocDescription,
`N` None, `o<n>` any other kind (n = discriminant); tokens `w` TkWhitespace, `e` TkEndOfLine,
`c` TkDocContinue, `o<n>` other.
Event list: comma separated `s<K>.<parent>` | `t<K>.<hex text>` | `f` (NodeEnd) | `v` (Trivia); `-` = empty.
Tree: node `(<K><children>)`, token `[<K>:<hex text>]`. -/
namespace Drv.Tree
open Green

def nkindCode : NKind → String
  | .block => "B" | .chunk => "C" | .comment => "M" | .multiLineUnion => "U" | .docDescription => "D"
  | .none => "N" | .other n => s!"o{n}"

def tkindCode : TKind → String
  | .ws => "w" | .eol => "e" | .docContinue => "c" | .other n => s!"o{n}"

def parseNKind (s : String) : Option NKind :=
  match s with
  | "B" => some .block | "C" => some .chunk | "M" => some .comment | "U" => some .multiLineUnion
  | "D" => some .docDescription | "N" => some .none
  | _ => if s.startsWith "o" then (s.drop 1).toNat?.map .other else none

def parseTKind (s : String) : Option TKind :=
  match s with
  | "w" => some .ws | "e" => some .eol | "c" => some .docContinue
  | _ => if s.startsWith "o" then (s.drop 1).toNat?.map .other else none

def parseEv (s : String) : Option MEv :=
  if s == "f" then some .fin
  else if s == "v" then some .trivia
  else if s.startsWith "s" then
    match (s.drop 1).toString.splitOn "." with
    | [k, p] => do
      let k ← parseNKind k
      let p ← p.toNat?
      pure (.start k p)
    | _ => none
  else if s.startsWith "t" then
    match (s.drop 1).toString.splitOn "." with
    | [k, h] => do
      let k ← parseTKind k
      let t ← Drv.unhex h
      pure (.tok k t)
    | _ => none
  else none

def parseEvs (s : String) : Option (List MEv) :=
  if s == "-" then some [] else (s.splitOn ",").mapM parseEv

mutual
def showElem : Elem → String
  | .tok k t => "[" ++ tkindCode k ++ ":" ++ Drv.hex t ++ "]"
  | .node k cs => "(" ++ nkindCode k ++ showElems cs ++ ")"
def showElems : List Elem → String
  | [] => ""
  | e :: es => showElem e ++ showElems es
end

/-! S-expression parser (fuel = input length). -/
def spanNot (stop : Char → Bool) : List Char → List Char × List Char
  | [] => ([], [])
  | c :: cs => if stop c then ([], c :: cs) else
    let r := spanNot stop cs
    (c :: r.1, r.2)

mutual
def pElem : Nat → List Char → Option (Elem × List Char)
  | 0, _ => none
  | f+1, '[' :: rest =>
    let (k, r1) := spanNot (· == ':') rest
    match r1 with
    | ':' :: r2 =>
      let (h, r3) := spanNot (· == ']') r2
      match r3 with
      | ']' :: r4 => do
        let k ← parseTKind (String.ofList k)
        let t ← Drv.unhex (String.ofList h)
        pure (.tok k t, r4)
      | _ => none
    | _ => none
  | f+1, '(' :: rest =>
    let (k, r1) := spanNot (fun c => c == '(' || c == '[' || c == ')') rest
    do
      let k ← parseNKind (String.ofList k)
      let (cs, r2) ← pElems f r1
      pure (.node k cs, r2)
  | _, _ => none
def pElems : Nat → List Char → Option (List Elem × List Char)
  | 0, _ => none
  | _+1, ')' :: rest => some ([], rest)
  | f+1, cs => do
    let (e, r) ← pElem f cs
    let (es, r2) ← pElems f r
    pure (e :: es, r2)
end

def parseTree (s : String) : Option Elem :=
  match pElem (s.length + 1) s.toList with
  | some (e, []) => some e
  | _ => none

/-- renumber ids by first occurrence -/
def renumber (seen : List Nat) : List Nat → List Nat × List Nat
  | [] => (seen, [])
  | i :: is =>
    match seen.idxOf? i with
    | some n =>
      let r := renumber seen is
      (r.1, n :: r.2)
    | none =>
      let r := renumber (seen ++ [i]) is
      (r.1, seen.length :: r.2)

/-- identity structure of a history of trees built through one cache: per tree the pre-order list
of element identities, renumbered by first occurrence over the whole history -/
def cacheIds (trees : List Elem) : String :=
  let r := internAll Cache.empty trees
  let h := r.1.heap
  let lists := r.2.map (preorderFuel (h.length + 1) h)
  let out := lists.foldl (fun (acc : List Nat × List String) l =>
    let rr := renumber acc.1 l
    (rr.1, acc.2 ++ [Drv.joinWith "." (rr.2.map toString)])) ([], [])
  Drv.joinWith ";" out.2

/-! Token-layer core: kinds `c` comment, `e` eol, `w` whitespace, `s` shebang, `o` other, `x` eof/none. -/
def parseTKs (s : String) : Option (List Core.TK) :=
  if s == "-" then some [] else
  s.toList.mapM fun c => match c with
    | 'c' => some Core.TK.comment | 'e' => some Core.TK.eol | 'w' => some Core.TK.ws
    | 's' => some Core.TK.shebang | 'o' => some Core.TK.other | 'x' => some Core.TK.eof
    | _ => none

def showCoreEv : Core.Ev → String
  | .eat i => s!"e{i}"
  | .doc a b => s!"d{a}-{b}"

/-! Reader: ops `b` bump, `r` reset_buff, `D` eat_while(ascii digit), `S` eat_while(space|tab),
`N` eat_while(not \n, not \r), `X` eat_till_end, `Q` eat_when('='). After every op the observable state. -/
def readerObs (r : Reader.R) : String :=
  s!"{if Reader.isEof r then 1 else 0}:{(Reader.currentChar r).toNat}:{(Reader.nextChar r).toNat}:{(Reader.prevChar r).toNat}:{(Reader.currentRange r).1}:{(Reader.currentRange r).2}:{Reader.endPos r}"

def readerStep (r : Reader.R) (c : Char) : Option (Reader.R × Option Nat) :=
  let f := r.rest.length + 1
  match c with
  | 'b' => some (Reader.bump r, none)
  | 'r' => some (Reader.resetBuff r, none)
  | 'D' => let x := Reader.eatWhile (fun ch => '0' ≤ ch && ch ≤ '9') f r; some (x.1, some x.2)
  | 'S' => let x := Reader.eatWhile (fun ch => ch == ' ' || ch == '\t') f r; some (x.1, some x.2)
  | 'N' => let x := Reader.eatWhile (fun ch => ch != '\n' && ch != '\r') f r; some (x.1, some x.2)
  | 'X' => let x := Reader.eatWhile (fun _ => true) f r; some (x.1, some x.2)
  | 'Q' => let x := Reader.eatWhile (fun ch => ch == '=') f r; some (x.1, some x.2)
  | _ => none

def readerRun (r : Reader.R) : List Char → Option (List String)
  | [] => some []
  | c :: cs => do
    let (r', n) ← readerStep r c
    let rest ← readerRun r' cs
    let cnt := match n with | some k => s!"#{k}" | none => ""
    pure ((readerObs r' ++ cnt) :: rest)

def handle (op : String) (args : List String) : Option String :=
  match op, args with
  | "build", [evs] => do
    let evs ← parseEvs evs
    pure (match build evs with
      | none => "err panic"
      | some r => "ok " ++ showElem r)
  | "core", [kinds, doc] => do
    let ks ← parseTKs kinds
    let evs := Core.parseEvents ks (doc == "1")
    pure ("ok " ++ (if evs.isEmpty then "-" else Drv.joinWith "," (evs.map showCoreEv)))
  | "reader", [h, start, ops] => do
    let t ← Drv.unhex h
    let st ← start.toNat?
    let r0 := Reader.new t st
    let obs ← readerRun r0 (if ops == "-" then [] else ops.toList)
    pure ("ok " ++ Drv.joinWith "," (readerObs r0 :: obs))
  | "lexloop", [h, ks] => do
    let t ← Drv.unhex h
    let counts ← (if ks == "-" then some [] else (ks.splitOn ".").mapM (·.toNat?))
    -- the arm schedule: the i-th token bumps counts[i] times (the schedule is positional, so the
    -- arm function is given the number of tokens already produced through the reader position)
    let rec go (cs : List Nat) (r : Reader.R) : List (Nat × Nat) :=
      match cs with
      | [] => []
      | k :: rest =>
        if Reader.isEof r then [] else
        let r1 := Reader.bumpN k (Reader.resetBuff r)
        Reader.currentRange r1 :: go rest r1
    let toks := go counts (Reader.new t 0)
    pure ("ok " ++ (if toks.isEmpty then "-" else Drv.joinWith "," (toks.map fun (a, b) => s!"{a}:{b}")))
  | "cache", trees => do
    let ts ← trees.mapM parseTree
    pure ("ok " ++ cacheIds ts)
  | "denote", trees => do
    -- the trees denoted by the results of a history through one cache (must echo the input)
    let ts ← trees.mapM parseTree
    let r := internAll Cache.empty ts
    pure ("ok " ++ Drv.joinWith " " (r.2.map fun id => match den r.1 id with
      | some e => showElem e
      | none => "none"))
  | _, _ => none

end Drv.Tree
