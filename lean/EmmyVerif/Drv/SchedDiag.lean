import EmmyVerif.Model.SchedDiag
import EmmyVerif.Gen.SchedDiagCfg
import EmmyVerif.Drv.Util
/-! Driver ops of the `SchedDiag` family (C30). Events: `e<u>:<t>` edit, `r<u>` remove; comma lists, `-` = empty.
Config: `real` (= `Gen.diagCfg`), `nolock`, `nofresh`. -/
namespace Drv.SchedDiag
open _root_.SchedDiag

def parseEvent (s : String) : Option Event :=
  match s.toList with
  | 'r' :: ds => (String.ofList ds).toNat?.map Event.remove
  | 'e' :: ds =>
    match (String.ofList ds).splitOn ":" with
    | [u, t] => do pure (Event.edit (← u.toNat?) (← t.toNat?))
    | _ => none
  | _ => none

def parseList {α} (f : String → Option α) (s : String) : Option (List α) :=
  if s == "-" then some [] else (s.splitOn ",").mapM f

def parseCfg (s : String) : Option Cfg :=
  if s == "real" then some Gen.diagCfg
  else if s == "nolock" then some { publishUnderLock := false, freshToken := true }
  else if s == "nofresh" then some { publishUnderLock := true, freshToken := false }
  else none

def parseLabel (s : String) : Option Label :=
  let num (k : Nat) : Option Nat := (s.drop k).toString.toNat?
  if s == "main" then some .main
  else if s.startsWith "wake" then (num 4).map Label.wake
  else if s.startsWith "cancelExit" then (num 10).map Label.cancelExit
  else if s.startsWith "diagSkip" then (num 8).map Label.diagSkip
  else if s.startsWith "diag" then (num 4).map Label.diag
  else if s.startsWith "pub" then (num 3).map Label.pub
  else if s.startsWith "rmTok" then (num 5).map Label.rmTok
  else if s.startsWith "wsDiag" then (num 6).map Label.wsDiag
  else none

def showOO : Option (Option Nat) → String
  | none => "never"
  | some none => "empty"
  | some (some t) => toString t

def showState (s : St) (us : List Nat) : String :=
  Drv.joinWith "," (us.map (fun u => s!"{match s.an u with | none => "none" | some t => toString t}/{showOO (lastPub s u)}"))

def handle (op : String) (args : List String) : Option String :=
  match op, args with
  | "explore", [cfg, es, us, fuel] => do
    let cfg ← parseCfg cfg
    let es ← parseList parseEvent es
    let us ← parseList String.toNat? us
    let fuel ← fuel.toNat?
    pure (match explore cfg us fuel [(init es, [])] 0 with
      | .error e => s!"err {e}"
      | .ok (none, n) => s!"ok all-settled schedules={n}"
      | .ok (some p, n) => s!"ok counter schedules={n} schedule={Drv.joinWith "," (p.map showLabel)}")
  | "run", [cfg, es, us, sched] => do
    let cfg ← parseCfg cfg
    let es ← parseList parseEvent es
    let us ← parseList String.toNat? us
    let labs ← parseList parseLabel sched
    pure (match run cfg (init es) labs with
      | none => "ok not-enabled"
      | some s => s!"ok {if quiescentB s then "quiescent" else "running"} settled={us.all (settledB s)} {showState s us}")
  | "cfg", [] => pure s!"ok publishUnderLock={Gen.diagCfg.publishUnderLock} freshToken={Gen.diagCfg.freshToken} handlerOrder={Gen.diagHandlerOrder}"
  | _, _ => none

end Drv.SchedDiag
