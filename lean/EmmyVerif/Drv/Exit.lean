import EmmyVerif.Model.Exit
import EmmyVerif.Drv.Util
/-! Driver ops of the `exit` family (C36).
`exit.run <total> <wae:0|1> <filter:none|error|warn|info|hint> <fmt:json|text|sarif> <msgs>`
`<msgs>` = `-` (no message) or `;`-separated `file:body`, body = `n` (diagnosis returned nothing) or a
`,`-separated (possibly empty) list of `id/sev`, sev = `n` (no severity) or an integer. -/
namespace Drv.Exit
open _root_.Exit

def parseInt (s : String) : Option Int :=
  if s.startsWith "-" then (s.drop 1).toNat?.map (fun n => - (Int.ofNat n)) else s.toNat?.map Int.ofNat

def parseSev (s : String) : Option Sev :=
  if s == "n" then some none else (parseInt s).map some

def parseDiag (s : String) : Option Diag :=
  match s.splitOn "/" with
  | [i, v] => do
    let i ← i.toNat?
    let v ← parseSev v
    pure ⟨i, v⟩
  | _ => none

def parseMsg (s : String) : Option Msg :=
  match s.splitOn ":" with
  | [f, body] => do
    let f ← f.toNat?
    if body == "n" then pure (f, none)
    else if body == "" then pure (f, some [])
    else do
      let ds ← (body.splitOn ",").mapM parseDiag
      pure (f, some ds)
  | _ => none

def parseMsgs (s : String) : Option (List Msg) :=
  if s == "-" then some [] else (s.splitOn ";").mapM parseMsg

def parseFilter (s : String) : Option (Option Filter) :=
  match s with
  | "none" => some none
  | "error" => some (some .error)
  | "warn" => some (some .warn)
  | "info" => some (some .info)
  | "hint" => some (some .hint)
  | _ => none

def parseFormat (s : String) : Option Format :=
  match s with
  | "json" => some .json
  | "text" => some .text
  | "sarif" => some .sarif
  | _ => none

def showSev : Sev → String
  | none => "n"
  | some v => toString v

def level (fmt : Format) (s : Sev) : String :=
  match fmt with
  | .json => showSev s
  | .text => textLevel s
  | .sarif => sarifLevel s

def render (fmt : Format) (a : Acc) : String :=
  let es := (entries fmt a).map fun e => s!"{e.1}:{Drv.joinWith "," (e.2.map fun d => toString d.id)}"
  let ps := (reportPairs fmt a).map fun p => s!"{p.1}:{p.2.id}:{level fmt p.2.sev}"
  s!"ok exit={exitCode a} e={a.errors} w={a.warnings} i={a.infos} h={a.hints} entries={Drv.joinWith ";" es} pairs={Drv.joinWith ";" ps}"

def handle (op : String) (args : List String) : Option String :=
  match op, args with
  | "run", [total, wae, filt, fmt, msgs] => do
    let total ← total.toNat?
    let wae ← (if wae == "1" then some true else if wae == "0" then some false else none)
    let filt ← parseFilter filt
    let fmt ← parseFormat fmt
    let msgs ← parseMsgs msgs
    pure (render fmt (run total wae filt msgs))
  | "allows", [filt, sev] => do
    let filt ← parseFilter filt
    let sev ← parseSev sev
    pure (match filt with
      | none => "ok true"
      | some f => s!"ok {allows f sev}")
  | _, _ => none

end Drv.Exit
