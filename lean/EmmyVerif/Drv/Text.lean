import EmmyVerif.Model.Text
import EmmyVerif.Drv.Util
/-! Driver ops of the `Text` family. -/
namespace Drv.Text
open _root_.Text

/-- byte offsets of all char boundaries of `t` (including 0 and |t|) -/
def boundaries (t : List Char) : List Nat :=
  (t.foldl (fun (acc : List Nat × Nat) c => ((acc.2 + u8 c) :: acc.1, acc.2 + u8 c)) ([0], 0)).1.reverse

def showLC : Option (Nat × Nat) → String
  | none => "none"
  | some (l, c) => s!"{l}:{c}"

/-- `grid <hex> <extraLines> <extraCols>`: line starts; (line,col) of every boundary; offsets for the
grid lines `0 .. lineCount+extraLines-1` × cols `0 .. maxLineLen16+extraCols-1`. -/
def grid (t : List Char) (xl xc : Nat) : String :=
  let d := splitLines t
  let starts := lineStarts d 0
  let lcs := (boundaries t).map fun o => showLC (getLineCol t o)
  let maxc := d.foldl (fun m l => max m (len16 l.chars)) 0
  let offs := (List.range (d.length + xl)).map fun ln =>
    Drv.joinWith "," ((List.range (maxc + xc)).map fun c => Drv.showOptNat (getOffset t ln c))
  s!"starts={Drv.joinWith "," (starts.map toString)} lc={Drv.joinWith "," lcs} off={Drv.joinWith ";" offs}"

def handle (op : String) (args : List String) : Option String :=
  match op, args with
  | "grid", [h, xl, xc] => do
    let t ← Drv.unhex h
    let xl ← xl.toNat?
    let xc ← xc.toNat?
    pure ("ok " ++ grid t xl xc)
  | "linecol", [h, o] => do
    let t ← Drv.unhex h
    let o ← o.toNat?
    pure ("ok " ++ showLC (getLineCol t o))
  | "offset", [h, l, c] => do
    let t ← Drv.unhex h
    let l ← l.toNat?
    let c ← c.toNat?
    pure ("ok " ++ Drv.showOptNat (getOffset t l c))
  | "range", [h, a, b, c, d] => do
    let t ← Drv.unhex h
    let a ← a.toNat?; let b ← b.toNat?; let c ← c.toNat?; let d ← d.toNat?
    pure (match toRowanRange t a b c d with
      | none => "ok none"
      | some (.error _) => "err panic"
      | some (.ok (s, e)) => s!"ok {s}:{e}")
  | _, _ => none

end Drv.Text
