import EmmyVerif.Model.Locks
import EmmyVerif.Gen.LockSites
import EmmyVerif.Drv.Util
/-! Driver ops of the `Locks` family (C28).
Programs are comma-separated actions `a<lock><r|w>` / `r<lock>` / `w<task>.<task>…` (wait for tasks), e.g.
`a1r,w2.3,r1`; `-` = empty. -/
namespace Drv.Locks
open _root_.Locks

def parseAct (s : String) : Option Act :=
  match s.toList with
  | 'a' :: rest =>
    match rest.reverse with
    | 'r' :: ds => (String.ofList ds.reverse).toNat?.map (fun l => Act.acq l .r)
    | 'w' :: ds => (String.ofList ds.reverse).toNat?.map (fun l => Act.acq l .w)
    | _ => none
  | 'r' :: ds => (String.ofList ds).toNat?.map Act.rel
  | 'w' :: ds => ((String.ofList ds).splitOn ".").mapM String.toNat? |>.map Act.wait
  | _ => none

def parseProg (s : String) : Option Prog :=
  if s == "-" then some [] else (s.splitOn ",").mapM parseAct

def showLabel : Label → String
  | .req i => s!"req{i}"
  | .grant l => s!"grant{l}"
  | .rel i => s!"rel{i}"
  | .wait i => s!"wait{i}"

def parseLabel (s : String) : Option Label :=
  if s.startsWith "req" then (s.drop 3).toString.toNat?.map Label.req
  else if s.startsWith "grant" then (s.drop 5).toString.toNat?.map Label.grant
  else if s.startsWith "rel" then (s.drop 3).toString.toNat?.map Label.rel
  else if s.startsWith "wait" then (s.drop 4).toString.toNat?.map Label.wait
  else none

def showSite (s : Site) : String :=
  s!"{s.file}:{s.line}:{s.lock}:{if s.mode == .r then "r" else "w"}:{Drv.joinWith "." (s.held.map toString)}"

def handle (op : String) (args : List String) : Option String :=
  match op, args with
  | "disciplined", [p] => do
    let p ← parseProg p
    pure s!"ok {discB (fun _ => []) [] p}"
  | "disciplinedset", ps => do
    -- a set of tasks with waits: the need table is computed, checked (`wfB`) and used
    let ps ← ps.mapM parseProg
    let need := needOf ps
    pure s!"ok wf={wfB need ps} disciplined={ps.all (fun p => discB need [] p)}"
  | "awaits", [] => pure s!"ok total={Gen.lockAwaits.length} allowed={Gen.lockAwaits.all (·.allowed)}"
  | "conforms", [p] => do
    let p ← parseProg p
    pure s!"ok {conformsB Gen.lockSites [] p}"
  | "sites", [] => pure ("ok " ++ Drv.joinWith " " (Gen.lockSites.map showSite))
  | "rank", [] => pure ("ok " ++ Drv.joinWith " " Gen.lockRank)
  | "programs", [] => pure s!"ok {Gen.lockPrograms.length}"
  | "search", nl :: fuel :: ps => do
    let nl ← nl.toNat?
    let fuel ← fuel.toNat?
    let ps ← ps.mapM parseProg
    pure (match findDeadlock ps nl fuel with
      | .error e => s!"err {e}"
      | .ok (none, n) => s!"ok none states={n}"
      | .ok (some path, n) => s!"ok deadlock states={n} schedule={Drv.joinWith "," (path.map showLabel)}")
  | "run", nl :: sched :: ps => do
    let nl ← nl.toNat?
    let labs ← if sched == "-" then some [] else (sched.splitOn ",").mapM parseLabel
    let ps ← ps.mapM parseProg
    pure (match run (init ps) labs with
      | none => "ok not-enabled"
      | some s => if finishedB s then "ok finished" else if stuck s nl then "ok stuck" else "ok running")
  | _, _ => none

end Drv.Locks
