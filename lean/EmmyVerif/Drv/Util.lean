/-! Driver utilities: hex decoding, number parsing. Import-free. -/
namespace Drv

def hexVal (c : Char) : Option Nat :=
  if '0' ≤ c ∧ c ≤ '9' then some (c.toNat - '0'.toNat)
  else if 'a' ≤ c ∧ c ≤ 'f' then some (c.toNat - 'a'.toNat + 10)
  else none

def hexBytes : List Char → Option (List UInt8)
  | [] => some []
  | [_] => none
  | a :: b :: rest => do
    let x ← hexVal a
    let y ← hexVal b
    let r ← hexBytes rest
    pure (UInt8.ofNat (x * 16 + y) :: r)

/-- decode lower-case hex of UTF-8 bytes; `-` encodes the empty string -/
def unhex (s : String) : Option (List Char) :=
  if s == "-" then some [] else do
    let bs ← hexBytes s.toList
    let str ← String.fromUTF8? (ByteArray.mk bs.toArray)
    pure str.toList

def hexDigit (n : Nat) : Char :=
  if n < 10 then Char.ofNat ('0'.toNat + n) else Char.ofNat ('a'.toNat + n - 10)

def hex (cs : List Char) : String :=
  let bs := (String.ofList cs).toUTF8.toList
  if bs.isEmpty then "-" else
  String.ofList (bs.flatMap fun b => [hexDigit (b.toNat / 16), hexDigit (b.toNat % 16)])

def showOptNat : Option Nat → String
  | none => "none"
  | some n => toString n

def joinWith (sep : String) (xs : List String) : String := sep.intercalate xs

end Drv
