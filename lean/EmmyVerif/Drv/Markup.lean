import EmmyVerif.Model.Markup
import EmmyVerif.Drv.Util
/-! Driver ops of the `markup` family (C37): `markup.lines <hex text> <cursor|-> <tokens>`,
`markup.emit <cursor|-> <s:l:k;…>`, `markup.sort <s:l:k;…>`. Tokens: `d:s:l`, `e:s:l`, `s:s:l:marks`. -/
namespace Drv.Markup
open _root_.Markup

def optNat (s : String) : Option (Option Nat) :=
  if s == "-" then some none else s.toNat?.map some

def parseTok (s : String) : Option Tok :=
  match s.splitOn ":" with
  | ["d", a, b] => do pure ⟨.detail, ⟨← a.toNat?, ← b.toNat?⟩⟩
  | ["e", a, b] => do pure ⟨.eol, ⟨← a.toNat?, ← b.toNat?⟩⟩
  | ["s", a, b, m] => do pure ⟨.start (← m.toNat?), ⟨← a.toNat?, ← b.toNat?⟩⟩
  | _ => none

def parseList {α} (f : String → Option α) (s : String) : Option (List α) :=
  if s == "-" then some [] else (s.splitOn ";").mapM f

def parseItem (s : String) : Option Item :=
  match s.splitOn ":" with
  | [a, b, k] => do pure ⟨⟨← a.toNat?, ← b.toNat?⟩, ← k.toNat?⟩
  | _ => none

def showRanges (rs : List Range) : String :=
  if rs.isEmpty then "-" else Drv.joinWith "," (rs.map fun r => s!"{r.start}:{r.len}")

def showItems (is : List Item) : String :=
  if is.isEmpty then "-" else Drv.joinWith "," (is.map fun i => s!"{i.range.start}:{i.range.len}:{i.kind}")

def handle (op : String) (args : List String) : Option String :=
  match op, args with
  | "lines", [h, c, ts] => do
    let t ← Drv.unhex h
    let c ← optNat c
    let ts ← parseList parseTok ts
    pure ("ok " ++ showRanges (descToLines (textQ t) ts c))
  | "emit", [c, es] => do
    let c ← optNat c
    let es ← parseList parseItem es
    pure ("ok " ++ showItems (runEmits c (es.map fun i => (i.range, i.kind))))
  | "sort", [is] => do
    let is ← parseList parseItem is
    pure ("ok " ++ showItems (sortResult is))
  | _, _ => none

end Drv.Markup
