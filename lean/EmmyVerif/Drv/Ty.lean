import EmmyVerif.Model.Ty
import EmmyVerif.Model.TyCheck
import EmmyVerif.Model.TyText
import EmmyVerif.Model.TyGeneric
import EmmyVerif.Model.TyWalk
import EmmyVerif.Drv.Util
/-! Driver ops of the `Ty` family. Types and environments travel as S-expressions (hex-wrapped):

```
T   ::= (p <kind>) | (bc 0|1) | (sc <hex>) | (ic <int>) | (fc <bits>) | (ds <hex>) | (di <int>) | (db 0|1)
      | (r <hex>) | (f <hex>) | (a T) | (t T*) | (g T*) | (o (<hex> T)*) | (u T*)
Env ::= (env <arrayIndex 0|1> <docBaseConst 0|1> D*)      D ::= (c <hex> <hex-super>*) | (al <hex> T) | (al0 <hex>)
```
-/
namespace Drv.Ty
open TyM

inductive Sx where
  | atom (s : String)
  | list (xs : List Sx)

def tokenize (cs : List Char) : List String :=
  let step := fun (acc : List String × List Char) (c : Char) =>
    let flush := fun (a : List String × List Char) =>
      if a.2.isEmpty then a.1 else String.ofList a.2.reverse :: a.1
    if c = '(' ∨ c = ')' then (String.singleton c :: flush acc, [])
    else if c = ' ' then (flush acc, [])
    else (acc.1, c :: acc.2)
  let r := cs.foldl step ([], [])
  (if r.2.isEmpty then r.1 else String.ofList r.2.reverse :: r.1).reverse

mutual
def parseSx : Nat → List String → Option (Sx × List String)
  | 0, _ => none
  | _, [] => none
  | f + 1, tok :: rest =>
    if tok = "(" then
      match parseItems f rest [] with
      | some (items, rest') => some (.list items, rest')
      | none => none
    else if tok = ")" then none
    else some (.atom tok, rest)
def parseItems : Nat → List String → List Sx → Option (List Sx × List String)
  | 0, _, _ => none
  | _, [], _ => none
  | f + 1, tok :: rest, acc =>
    if tok = ")" then some (acc.reverse, rest)
    else
      match parseSx f (tok :: rest) with
      | some (x, rest') => parseItems f rest' (x :: acc)
      | none => none
end

def readSx (s : String) : Option Sx :=
  let toks := tokenize s.toList
  match parseSx (2 * toks.length + 2) toks with
  | some (x, []) => some x
  | _ => none

def primOfName : String → Option Prim
  | "unknown" => some .unknown | "any" => some .any | "nil" => some .nil | "table" => some .table
  | "userdata" => some .userdata | "function" => some .function | "thread" => some .thread
  | "boolean" => some .boolean | "string" => some .string | "integer" => some .integer
  | "number" => some .number | "io" => some .io | "self" => some .selfInfer | "global" => some .global
  | "never" => some .never | _ => none

def primName : Prim → String
  | .unknown => "unknown" | .any => "any" | .nil => "nil" | .table => "table" | .userdata => "userdata"
  | .function => "function" | .thread => "thread" | .boolean => "boolean" | .string => "string"
  | .integer => "integer" | .number => "number" | .io => "io" | .selfInfer => "self" | .global => "global"
  | .never => "never"

def bool01 : String → Option Bool
  | "0" => some false | "1" => some true | _ => none

def toTy : Nat → Sx → Option Ty
  | 0, _ => none
  | f + 1, .list (.atom tag :: args) =>
    match tag, args with
    | "p", [.atom k] => (primOfName k).map Ty.prim
    | "bc", [.atom b] => (bool01 b).map fun b => .lit (.boolC b)
    | "db", [.atom b] => (bool01 b).map fun b => .lit (.docBool b)
    | "sc", [.atom h] => (Drv.unhex h).map fun s => .lit (.strC s)
    | "ds", [.atom h] => (Drv.unhex h).map fun s => .lit (.docStr s)
    | "ic", [.atom i] => i.toInt?.map fun i => .lit (.intC i)
    | "di", [.atom i] => i.toInt?.map fun i => .lit (.docInt i)
    | "fc", [.atom n] => n.toNat?.map fun n => .lit (.floatC n)
    | "r", [.atom h] => (Drv.unhex h).map Ty.ref
    | "f", [.atom h] => (Drv.unhex h).map Ty.func
    | "a", [x] => (toTy f x).map Ty.array
    | "t", xs => (xs.mapM (toTy f)).map fun l => .tuple (TyL.ofList l)
    | "g", xs => (xs.mapM (toTy f)).map fun l => .tgen (TyL.ofList l)
    | "u", xs => (xs.mapM (toTy f)).map fun l => .union (TyL.ofList l)
    | "o", xs =>
      (xs.mapM fun (x : Sx) => match x with
        | .list [.atom h, v] => do
          let k ← Drv.unhex h
          let t ← toTy f v
          pure (k, t)
        | _ => none).map fun l => .object (FdL.ofList l)
    | _, _ => none
  | _, _ => none

def readTy (h : String) : Option Ty := do
  let cs ← Drv.unhex h
  let sx ← readSx (String.ofList cs)
  toTy (cs.length + 2) sx

def readTyList (h : String) : Option (List Ty) := do
  let cs ← Drv.unhex h
  match ← readSx (String.ofList cs) with
  | .list (.atom "l" :: xs) => xs.mapM (toTy (cs.length + 2))
  | _ => none

def toDecl (fuel : Nat) : Sx → Option Decl
  | .list (.atom "c" :: .atom h :: sups) => do
    let n ← Drv.unhex h
    let ss ← sups.mapM fun (s : Sx) => match s with | .atom x => Drv.unhex x | _ => none
    pure { name := n, kind := .cls, supers := ss }
  | .list [.atom "al", .atom h, t] => do
    let n ← Drv.unhex h
    let o ← toTy fuel t
    pure { name := n, kind := .alias (some o), supers := [] }
  | .list [.atom "al0", .atom h] => do
    let n ← Drv.unhex h
    pure { name := n, kind := .alias none, supers := [] }
  | .list [.atom "en", .atom h] => do
    let n ← Drv.unhex h
    pure { name := n, kind := .enum, supers := [] }
  | _ => none

def readEnv (h : String) : Option Env := do
  let cs ← Drv.unhex h
  match ← readSx (String.ofList cs) with
  | .list (.atom "env" :: .atom ai :: .atom db :: ds) =>
    let ai ← bool01 ai
    let db ← bool01 db
    let decls ← ds.mapM (toDecl (cs.length + 2))
    pure { decls := decls, arrayIndex := ai, docBaseConst := db }
  | _ => none

mutual
def showTy : Ty → String
  | .prim k => s!"(p {primName k})"
  | .lit (.boolC b) => s!"(bc {if b then 1 else 0})"
  | .lit (.docBool b) => s!"(db {if b then 1 else 0})"
  | .lit (.strC s) => s!"(sc {Drv.hex s})"
  | .lit (.docStr s) => s!"(ds {Drv.hex s})"
  | .lit (.intC i) => s!"(ic {i})"
  | .lit (.docInt i) => s!"(di {i})"
  | .lit (.floatC n) => s!"(fc {n})"
  | .ref n => s!"(r {Drv.hex n})"
  | .func n => s!"(f {Drv.hex n})"
  | .array t => s!"(a {showTy t})"
  | .tuple ts => s!"(t{showTyL ts})"
  | .tgen ts => s!"(g{showTyL ts})"
  | .object fs => s!"(o{showFdL fs})"
  | .union ms => s!"(u{showTyL ms})"
def showTyL : TyL → String
  | .nil => ""
  | .cons t ts => " " ++ showTy t ++ showTyL ts
def showFdL : FdL → String
  | .nil => ""
  | .cons k t fs => s!" ({Drv.hex k} {showTy t})" ++ showFdL fs
end

/-- C18: patterns and arguments; `(v i)` template reference, `(fn r)` parameterless function type -/
def toG : Nat → Sx → Option GTy
  | 0, _ => none
  | f + 1, sx =>
    match sx with
    | .list [.atom "v", .atom i] => i.toNat?.map GTy.v
    | .list [.atom "a", x] => (toG f x).map GTy.array
    | .list [.atom "g", k, v] => do
      let k ← toG f k
      let v ← toG f v
      pure (.tgen k v)
    | .list [.atom "fn", r] => (toG f r).map GTy.fn
    | .list [.atom "fn1", p, r] => do
      let p ← toG f p
      let r ← toG f r
      pure (.fn1 p r)
    | .list [.atom "t", a, b] => do
      let a ← toG f a
      let b ← toG f b
      pure (.tup a b)
    | .list [.atom "t", a, b, c] => do
      let a ← toG f a
      let b ← toG f b
      let c ← toG f c
      pure (.tup3 a b c)
    | .list [.atom "o", .list [.atom k1, a], .list [.atom k2, b]] => do
      let k1 ← Drv.unhex k1
      let k2 ← Drv.unhex k2
      let a ← toG f a
      let b ← toG f b
      pure (.obj2 k1 a k2 b)
    | .list [.atom "u", .list [.atom "v", .atom i], .list [.atom "p", .atom "nil"]] =>
      i.toNat?.map fun i => .opt (.v i)
    | other => (toTy f other).map GTy.base

def readGList (h : String) : Option (List GTy) := do
  let cs ← Drv.unhex h
  match ← readSx (String.ofList cs) with
  | .list (.atom "l" :: xs) => xs.mapM (toG (cs.length + 2))
  | _ => none

/-- argument expressions: a type, `(m G*)` = a call returning these values, `(va G)` = `...` of that type -/
def toArg (f : Nat) : Sx → Option Arg
  | .list (.atom "m" :: xs) => (xs.mapM (toG f)).map Arg.multi
  | .list [.atom "va", x] => (toG f x).map Arg.vararg
  | x => (toG f x).map Arg.one

def readArgList (h : String) : Option (List Arg) := do
  let cs ← Drv.unhex h
  match ← readSx (String.ofList cs) with
  | .list (.atom "l" :: xs) => xs.mapM (toArg (cs.length + 2))
  | _ => none

def readG (h : String) : Option GTy := do
  let cs ← Drv.unhex h
  let sx ← readSx (String.ofList cs)
  toG (cs.length + 2) sx

def showG : GTy → String
  | .base t => showTy t
  | .v i => s!"(v {i})"
  | .array t => s!"(a {showG t})"
  | .tgen k v => s!"(g {showG k} {showG v})"
  | .opt (.base (.union ms)) => s!"(u{showTyL ms} (p nil))"
  | .opt t => s!"(u {showG t} (p nil))"
  | .fn r => s!"(fn {showG r})"
  | .tup a b => s!"(t {showG a} {showG b})"
  | .tup3 a b c => s!"(t {showG a} {showG b} {showG c})"
  | .obj2 k1 a k2 b => s!"(o ({Drv.hex k1} {showG a}) ({Drv.hex k2} {showG b}))"
  | .fn1 p r => s!"(fn1 {showG p} {showG r})"

def showRes : Res → String
  | .ok => "ok"
  | .notMatch => "nomatch"
  | .recursion => "recursion"
  | .donotCheck => "donotcheck"
  | .outOfFuel => "out-of-fuel"
  | .unsupported => "unsupported"

def handle (op : String) (args : List String) : Option String :=
  match op, args with
  | "unionall", [e, l] => do
    let e ← readEnv e
    let ts ← readTyList l
    pure s!"ok {showTy (unionAll e ts)} ; {showTy (foldUnion e Ty.tNever ts)}"
  | "union", [e, a, b] => do
    let e ← readEnv e
    let a ← readTy a
    let b ← readTy b
    pure s!"ok {showTy (union e a b)}"
  | "check", [e, s, c] => do
    let e ← readEnv e
    let s ← readTy s
    let c ← readTy c
    pure s!"ok {showRes (checkTop e s c)}"
  | "subtype", [e, a, b] => do
    let e ← readEnv e
    let a ← Drv.unhex a
    let b ← Drv.unhex b
    pure s!"ok {isSubTypeOf e a b}"
  | "render", [t] => do
    let t ← readTy t
    pure (match renderText t with
      | some cs => s!"ok {Drv.hex cs}"
      | none => "ok none")
  | "read", [e, h] => do
    let e ← readEnv e
    let cs ← Drv.unhex h
    pure (match readText e cs with
      | some t => s!"ok {showTy t}"
      | none => "ok none")
  | "reread", [e, t] => do
    let e ← readEnv e
    let t ← readTy t
    pure (match reread e t with
      | some t => s!"ok {showTy t}"
      | none => "ok none")
  | "inst", [ps, as, r] => do
    let ps ← readGList ps
    let as ← readArgList as
    let r ← readG r
    pure s!"ok {showG (inferCallA ps as r)}"
  | "removenil", [e, t] => do
    -- `TypeOps::Remove.apply(db, t, nil)`
    let e ← readEnv e
    let t ← readTy t
    pure (match removeNil e maxWalkDepth t with
      | some r => s!"ok {showTy r}"
      | none => if t = Ty.tNil then s!"ok {showTy Ty.tNever}" else s!"ok {showTy t}")
  | "noncallable", [e, t] => do
    let e ← readEnv e
    let t ← readTy t
    pure s!"ok {hasNonCallable e maxWalkDepth t}"
  | "echo", [t] => do
    let t ← readTy t
    pure s!"ok {showTy t}"
  | _, _ => none

end Drv.Ty
