import EmmyVerif.Model.RangeText
import EmmyVerif.Drv.Util
/-! Driver ops of the `printer` family (formatter cluster: range-format text helpers, IR printer).

`printer.rt <text> <s> <e> <prefix> <keep>` (hex bytes, numbers, hex bytes, `,`-separated offsets or `-`):
  `ok clamp=a:b expand=c:d ls=.. le=.. indent=HEX strip=HEX apply=HEX` where
  clamp = clampRange s e |text|, expand = expandToFullLines text clamp, ls/le = line start/end of the
  raw s/e, indent = lineIndentPrefix text expand.1, strip/apply = strip/applyBaseIndent text prefix. -/
namespace Drv.Printer

def bytesOf (h : String) : Option (List Nat) :=
  if h == "-" then some [] else (Drv.hexBytes h.toList).map (·.map (·.toNat))

def hexOf (d : List Nat) : String :=
  if d.isEmpty then "-" else
  String.ofList (d.flatMap fun b => [Drv.hexDigit (b / 16), Drv.hexDigit (b % 16)])

open RangeText in
def rt (t : List Nat) (s e : Nat) (p : List Nat) (keep : List Nat) : String :=
  let c := clampRange s e t.length
  let x := expandToFullLines t c.1 c.2
  s!"clamp={c.1}:{c.2} expand={x.1}:{x.2} ls={lineStartOffset t s} le={lineEndOffset t e} " ++
  s!"indent={hexOf (lineIndentPrefix t x.1)} strip={hexOf (stripBaseIndent t p keep)} apply={hexOf (applyBaseIndent t p keep)}"

def handle (op : String) (args : List String) : Option String :=
  match op, args with
  | "rt", [t, s, e, p, k] => do
    let t ← bytesOf t
    let s ← s.toNat?
    let e ← e.toNat?
    let p ← bytesOf p
    let k ← if k == "-" then some [] else (k.splitOn ",").mapM (·.toNat?)
    pure ("ok " ++ rt t s e p k)
  | _, _ => none

end Drv.Printer
