import EmmyVerif.Model.RangeText
import EmmyVerif.Model.Printer
import EmmyVerif.Drv.Util
/-! Driver ops of the `printer` family (formatter cluster: range-format text helpers, IR printer).

`printer.rt <text> <s> <e> <prefix> <keep>` (hex bytes, numbers, hex bytes, `,`-separated offsets or `-`):
  `ok clamp=a:b expand=c:d ls=.. le=.. indent=HEX strip=HEX apply=HEX` where
  clamp = clampRange s e |text|, expand = expandToFullLines text clamp, ls/le = line start/end of the
  raw s/e, indent = lineIndentPrefix text expand.1, strip/apply = strip/applyBaseIndent text prefix.

`printer.print <maxWidth>:<indentWidth>:<t|s>:<lf|crlf>:<minSpaces>:<minColumn> <sexpr…>`: print an IR given as the
S-expression of `verif::ir_to_sexpr` with the model printer; answer `ok <hex of the output>` (`err fuel` if the
fuel — 3 × tokens + 100 — ran out, `err parse` for a malformed S-expression). -/
namespace Drv.Printer

def bytesOf (h : String) : Option (List Nat) :=
  if h == "-" then some [] else (Drv.hexBytes h.toList).map (·.map (·.toNat))

def hexOf (d : List Nat) : String :=
  if d.isEmpty then "-" else
  String.ofList (d.flatMap fun b => [Drv.hexDigit (b / 16), Drv.hexDigit (b % 16)])

open RangeText in
def rt (t : List Nat) (s e : Nat) (p : List Nat) (keep : List Nat) : String :=
  let c := clampRange s e t.length
  let x := expandToFullLines t c.1 c.2
  s!"clamp={c.1}:{c.2} expand={x.1}:{x.2} ls={lineStartOffset t s} le={lineEndOffset t e} " ++
  s!"indent={hexOf (lineIndentPrefix t x.1)} strip={hexOf (stripBaseIndent t p keep)} apply={hexOf (applyBaseIndent t p keep)}"

/-! S-expression reader -/

def tokenize (cs : List Char) : List String :=
  let step := fun (acc : List String × List Char) (c : Char) =>
    let flush := fun (a : List String × List Char) => if a.2.isEmpty then a.1 else String.ofList a.2.reverse :: a.1
    if c = '(' then ("(" :: flush acc, [])
    else if c = ')' then (")" :: flush acc, [])
    else if c = ' ' then (flush acc, [])
    else (acc.1, c :: acc.2)
  let r := cs.foldl step ([], [])
  (if r.2.isEmpty then r.1 else String.ofList r.2.reverse :: r.1).reverse

open _root_.Printer in
mutual
def parseDoc : Nat → List String → Option (Doc × List String)
  | 0, _ => none
  | fuel + 1, toks =>
    match toks with
    | "hl" :: r => some (.hardLine, r)
    | "sl" :: r => some (.softLine, r)
    | "se" :: r => some (.softLineOrEmpty, r)
    | "sp" :: r => some (.space, r)
    | "(" :: "t" :: h :: ")" :: r => (bytesOf h).map fun b => (.text b, r)
    | "(" :: "i" :: r => (parseMany fuel r).map fun (ds, r) => (.indent ds, r)
    | "(" :: "l" :: r => (parseMany fuel r).map fun (ds, r) => (.list ds, r)
    | "(" :: "s" :: r => (parseMany fuel r).map fun (ds, r) => (.list ds, r)
    | "(" :: "f" :: r => (parseMany fuel r).map fun (ds, r) => (.fill ds, r)
    | "(" :: "x" :: r => (parseMany fuel r).map fun (ds, r) => (.lineSuffix ds, r)
    | "(" :: "g" :: b :: id :: "(" :: "s" :: r => do
      let (ds, r) ← parseMany fuel r
      match r with
      | ")" :: r => some (.group ds (b == "1") (if id == "-" then none else id.toNat?), r)
      | _ => none
    | "(" :: "b" :: id :: r => do
      let (x, r) ← parseDoc fuel r
      let (y, r) ← parseDoc fuel r
      match r with
      | ")" :: r => some (.ifBreak x y (if id == "-" then none else id.toNat?), r)
      | _ => none
    | "(" :: "a" :: r => (parseEntries fuel r).map fun (es, r) => (.alignGroup es, r)
    | _ => none
/-- documents up to and including the closing parenthesis -/
def parseMany : Nat → List String → Option (List Doc × List String)
  | 0, _ => none
  | fuel + 1, toks =>
    match toks with
    | ")" :: r => some ([], r)
    | _ => do
      let (d, r) ← parseDoc fuel toks
      let (ds, r) ← parseMany fuel r
      some (d :: ds, r)
def parseOpt : Nat → List String → Option (Option (List Doc) × List String)
  | 0, _ => none
  | fuel + 1, toks =>
    match toks with
    | "-" :: r => some (none, r)
    | "(" :: "s" :: r => (parseMany fuel r).map fun (ds, r) => (some ds, r)
    | _ => none
def parseEntries : Nat → List String → Option (List (Entry Doc) × List String)
  | 0, _ => none
  | fuel + 1, toks =>
    match toks with
    | ")" :: r => some ([], r)
    | "(" :: "A" :: "(" :: "s" :: r => do
      let (b, r) ← parseMany fuel r
      match r with
      | "(" :: "s" :: r => do
        let (a, r) ← parseMany fuel r
        let (t, r) ← parseOpt fuel r
        match r with
        | ")" :: r => do
          let (es, r) ← parseEntries fuel r
          some (⟨true, b, a, t⟩ :: es, r)
        | _ => none
      | _ => none
    | "(" :: "L" :: "(" :: "s" :: r => do
      let (c, r) ← parseMany fuel r
      let (t, r) ← parseOpt fuel r
      match r with
      | ")" :: r => do
        let (es, r) ← parseEntries fuel r
        some (⟨false, c, [], t⟩ :: es, r)
      | _ => none
    | _ => none
end

def parseCfg (s : String) : Option _root_.Printer.Cfg :=
  match s.splitOn ":" with
  | [w, iw, k, nl, ms, mc] => do
    let w ← w.toNat?
    let iw ← iw.toNat?
    let ms ← ms.toNat?
    let mc ← mc.toNat?
    some { maxWidth := w, indentWidth := iw,
           indentStr := if k == "t" then [9] else List.replicate iw 32,
           newline := if nl == "crlf" then [13, 10] else [10],
           lcMinSpaces := max ms 1, lcMinColumn := mc }
  | _ => none

def printOp (cfgS : String) (sexpr : List String) : String :=
  let toks := tokenize (" ".intercalate sexpr).toList
  let fuel := 3 * toks.length + 100
  match parseCfg cfgS, toks with
  | some cfg, "(" :: "s" :: r =>
    match parseMany fuel r with
    | some (ds, []) =>
      match _root_.Printer.print cfg fuel ds with
      | some out => "ok " ++ hexOf out
      | none => "err fuel"
    | _ => "err parse"
  | _, _ => "err parse"

def handle (op : String) (args : List String) : Option String :=
  match op, args with
  | "rt", [t, s, e, p, k] => do
    let t ← bytesOf t
    let s ← s.toNat?
    let e ← e.toNat?
    let p ← bytesOf p
    let k ← if k == "-" then some [] else (k.splitOn ",").mapM (·.toNat?)
    pure ("ok " ++ rt t s e p k)
  | "print", cfg :: sexpr => some (printOp cfg sexpr)
  | _, _ => none

end Drv.Printer
