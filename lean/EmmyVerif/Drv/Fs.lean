import EmmyVerif.Model.Fs
import EmmyVerif.Drv.Util
/-! Driver ops of the `Fs` family.

`fs.exec <state> <trace>`: run the model on a syscall list and print the resulting directory.
* state: `,`-separated `path:hex` items (`_` = empty directory; hex `-` = empty file); paths are numbers
* trace: `,`-separated items `c:p` (creat) `w:p:hex` (write) `f:p` (fsync) `x:p` (close) `m:p` (chmod)
  `r:a:b` (rename) `u:p` (unlink); `_` = empty trace
* answer: `ok ` + the state in the same syntax, sorted by path. -/
namespace Drv.Fs
open _root_.Fs

def bytes (h : String) : Option Content :=
  if h == "-" then some [] else (Drv.hexBytes h.toList).map (·.map (·.toNat))

def parseState (s : String) : Option State :=
  if s == "_" then some [] else
  (s.splitOn ",").mapM fun item =>
    match item.splitOn ":" with
    | [p, h] => do
      let p ← p.toNat?
      let d ← bytes h
      pure (p, (⟨d, true⟩ : File))
    | _ => none

def parseSys (item : String) : Option Sys :=
  match item.splitOn ":" with
  | ["c", p] => p.toNat?.map .creat
  | ["w", p, h] => do
    let p ← p.toNat?
    let d ← bytes h
    pure (.write p d)
  | ["f", p] => p.toNat?.map .fsync
  | ["x", p] => p.toNat?.map .close
  | ["m", p] => p.toNat?.map .chmod
  | ["r", a, b] => do
    let a ← a.toNat?
    let b ← b.toNat?
    pure (.rename a b)
  | ["u", p] => p.toNat?.map .unlink
  | _ => none

def parseTrace (s : String) : Option (List Sys) :=
  if s == "_" then some [] else (s.splitOn ",").mapM parseSys

def hexOf (d : Content) : String :=
  if d.isEmpty then "-" else
  String.ofList (d.flatMap fun b => [Drv.hexDigit (b / 16), Drv.hexDigit (b % 16)])

def insertSorted (x : Path × File) : List (Path × File) → List (Path × File)
  | [] => [x]
  | y :: ys => if x.1 ≤ y.1 then x :: y :: ys else y :: insertSorted x ys

def showState (s : State) : String :=
  -- first entry for a path wins; `set` keeps paths unique, so sorting is enough
  let sorted := s.foldr insertSorted []
  if sorted.isEmpty then "_" else
  Drv.joinWith "," (sorted.map fun (p, f) => s!"{p}:{hexOf f.data}")

def handle (op : String) (args : List String) : Option String :=
  match op, args with
  | "exec", [st, tr] => do
    let s ← parseState st
    let t ← parseTrace tr
    pure ("ok " ++ showState (exec s t))
  | _, _ => none

end Drv.Fs
