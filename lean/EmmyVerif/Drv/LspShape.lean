import EmmyVerif.Model.LspShape
import EmmyVerif.Model.Pos
import EmmyVerif.Drv.Util
/-! Driver ops of the `LspShape` (C26) and `Pos` (C25) families.

`lspshape.build <entries>`      entries `line:col:len:typ:mods;…` → `ok <dl:ds:len:typ:mods;…>`
`lspshape.roundtrip <entries>`  → `ok <decoded entries>` (decode (build es))
`lspshape.offsets <hex text> <rootEnd> <l:c;…>` → per position `none|guard|<off>`
`lspshape.ranges <hex text> <sl:sc:el:ec;…>`     → per range `none|s:e`
`lspshape.chain <ranges>` ranges `sl:sc:el:ec;…` (innermost first) → `ok nested=<b> strict=<b> growStrict=<b>`
`lspshape.edits <ranges>` → `ok disjoint=<b>` -/
namespace Drv.LspShape
open _root_.LspShape

def nats (s : String) : Option (List Nat) := (s.splitOn ":").mapM (·.toNat?)

def items (s : String) : List String := if s == "-" then [] else s.splitOn ";"

def entry (s : String) : Option Entry :=
  match nats s with
  | some [a, b, c, d, e] => some ⟨a, b, c, d, e⟩
  | _ => none

def showEntry (e : Entry) : String := s!"{e.line}:{e.col}:{e.len}:{e.typ}:{e.mods}"
def showTok (t : Tok) : String := s!"{t.dl}:{t.ds}:{t.len}:{t.typ}:{t.mods}"
def showList (xs : List String) : String := if xs.isEmpty then "-" else Drv.joinWith ";" xs

def range (s : String) : Option Range :=
  match nats s with
  | some [a, b, c, d] => some ⟨(a, b), (c, d)⟩
  | _ => none

def handle (op : String) (args : List String) : Option String :=
  match op, args with
  | "build", [s] => do
    let es ← (items s).mapM entry
    pure ("ok " ++ showList ((build es).map showTok))
  | "roundtrip", [s] => do
    let es ← (items s).mapM entry
    pure ("ok " ++ showList ((decode 0 0 (build es)).map showEntry))
  | "offsets", [h, re, ps] => do
    let t ← Drv.unhex h
    let re ← re.toNat?
    let ps ← (items ps).mapM nats
    let rs ← ps.mapM fun p => match p with
      | [l, c] => some (match Pos.prelude t re l c with
        | .noOffset => "none" | .guarded => "guard" | .lookup o => toString o)
      | _ => none
    pure ("ok " ++ showList rs)
  | "ranges", [h, rs] => do
    let t ← Drv.unhex h
    let rs ← (items rs).mapM nats
    let out ← rs.mapM fun r => match r with
      | [a, b, c, d] => some (match Pos.toRowanRange t a b c d with
        | none => "none" | some (s, e) => s!"{s}:{e}")
      | _ => none
    pure ("ok " ++ showList out)
  | "chain", [s] => do
    let rs ← (items s).mapM range
    pure s!"ok nested={chainNested rs} strict={chainStrict rs} growStrict={chainStrict (grow rs)}"
  | "edits", [s] => do
    let rs ← (items s).mapM range
    pure s!"ok disjoint={editsDisjoint rs}"
  | _, _ => none

end Drv.LspShape
