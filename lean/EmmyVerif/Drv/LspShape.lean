import EmmyVerif.Model.LspShape
import EmmyVerif.Model.LspShapeTree
import EmmyVerif.Model.Pos
import EmmyVerif.Drv.Util
/-! Driver ops of the `LspShape` (C26) and `Pos` (C25) families.

`lspshape.build <entries>`      entries `line:col:len:typ:mods;…` → `ok <dl:ds:len:typ:mods;…>`
`lspshape.roundtrip <entries>`  → `ok <decoded entries>` (decode (build es))
`lspshape.offsets <hex text> <rootEnd> <l:c;…>` → per position `none|guard|<off>`
`lspshape.ranges <hex text> <sl:sc:el:ec;…>`     → per range `none|s:e`
`lspshape.chain <ranges>` ranges `sl:sc:el:ec;…` (innermost first) → `ok nested=<b> strict=<b> growStrict=<b>`
`lspshape.edits <ranges>` → `ok disjoint=<b>`
`lspshape.tree <nodes>` nodes `s:e:parent;…` in preorder, parent `x` for the root → `ok wellNested=<b>`
`lspshape.symbols <syms>` `sl:sc:el:ec:ssl:ssc:sel:sec:parent;…` in preorder (parent `x` = top level) → `ok valid=<b>`
`lspshape.folds <lineCount> <startLine:endLine;…>` → `ok valid=<b>`
`lspshape.lines <starts a:b:…> <offsets a:b:…>` → `ok <line:line:…>` (`lineOf`) -/
namespace Drv.LspShape
open _root_.LspShape

def nats (s : String) : Option (List Nat) := (s.splitOn ":").mapM (·.toNat?)

def items (s : String) : List String := if s == "-" then [] else s.splitOn ";"

def entry (s : String) : Option Entry :=
  match nats s with
  | some [a, b, c, d, e] => some ⟨a, b, c, d, e⟩
  | _ => none

def showEntry (e : Entry) : String := s!"{e.line}:{e.col}:{e.len}:{e.typ}:{e.mods}"
def showTok (t : Tok) : String := s!"{t.dl}:{t.ds}:{t.len}:{t.typ}:{t.mods}"
def showList (xs : List String) : String := if xs.isEmpty then "-" else Drv.joinWith ";" xs

def range (s : String) : Option Range :=
  match nats s with
  | some [a, b, c, d] => some ⟨(a, b), (c, d)⟩
  | _ => none

def optNat (s : String) : Option (Option Nat) := if s == "x" then some none else s.toNat?.map some

def node (s : String) : Option Node :=
  match s.splitOn ":" with
  | [a, b, p] => do
    let a ← a.toNat?; let b ← b.toNat?; let p ← optNat p
    pure ⟨a, b, p⟩
  | _ => none

def sym (s : String) : Option (Range × Range × Option Nat) :=
  match s.splitOn ":" with
  | [a, b, c, d, e, f, g, h, p] => do
    let a ← a.toNat?; let b ← b.toNat?; let c ← c.toNat?; let d ← d.toNat?
    let e ← e.toNat?; let f ← f.toNat?; let g ← g.toNat?; let h ← h.toNat?
    let p ← optNat p
    pure (⟨(a, b), (c, d)⟩, ⟨(e, f), (g, h)⟩, p)
  | _ => none

def pair (s : String) : Option (Nat × Nat) :=
  match nats s with
  | some [a, b] => some (a, b)
  | _ => none

def handle (op : String) (args : List String) : Option String :=
  match op, args with
  | "build", [s] => do
    let es ← (items s).mapM entry
    pure ("ok " ++ showList ((build es).map showTok))
  | "roundtrip", [s] => do
    let es ← (items s).mapM entry
    pure ("ok " ++ showList ((decode 0 0 (build es)).map showEntry))
  | "offsets", [h, re, ps] => do
    let t ← Drv.unhex h
    let re ← re.toNat?
    let ps ← (items ps).mapM nats
    let rs ← ps.mapM fun p => match p with
      | [l, c] => some (match Pos.prelude t re l c with
        | .noOffset => "none" | .guarded => "guard" | .lookup o => toString o)
      | _ => none
    pure ("ok " ++ showList rs)
  | "ranges", [h, rs] => do
    let t ← Drv.unhex h
    let rs ← (items rs).mapM nats
    let out ← rs.mapM fun r => match r with
      | [a, b, c, d] => some (match Pos.toRowanRange t a b c d with
        | none => "none" | some (s, e) => s!"{s}:{e}")
      | _ => none
    pure ("ok " ++ showList out)
  | "chain", [s] => do
    let rs ← (items s).mapM range
    pure s!"ok nested={chainNested rs} strict={chainStrict rs} growStrict={chainStrict (grow rs)}"
  | "tree", [s] => do
    let ns ← (items s).mapM node
    pure s!"ok wellNested={wellNested ns}"
  | "symbols", [s] => do
    let ss ← (items s).mapM sym
    pure s!"ok valid={symbolsOK ss}"
  | "folds", [n, s] => do
    let n ← n.toNat?
    let fs ← (items s).mapM pair
    pure s!"ok valid={foldsOK n fs}"
  | "lines", [st, os] => do
    let st ← if st == "-" then some [] else nats st
    let os ← if os == "-" then some [] else nats os
    pure ("ok " ++ (if os.isEmpty then "-" else Drv.joinWith ":" (os.map fun o => toString (lineOf st o))))
  | "edits", [s] => do
    let rs ← (items s).mapM range
    pure s!"ok disjoint={editsDisjoint rs}"
  | _, _ => none

end Drv.LspShape
