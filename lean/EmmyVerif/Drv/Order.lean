import EmmyVerif.Model.Order
import EmmyVerif.Model.PermExport
import EmmyVerif.Drv.Util
/-! Driver ops of the `order` family (C11, C35). Lists are `,`-separated numbers, `-` = empty;
dependency maps are `;`-separated `v:d,d,…`. -/
namespace Drv.Order
open _root_.Order

def parseList (s : String) : Option (List Nat) :=
  if s == "-" || s == "" then some [] else (s.splitOn ",").mapM (fun x => x.toNat?)

def parseDeps (s : String) : Option Deps :=
  if s == "-" then some [] else
  (s.splitOn ";").mapM fun e =>
    match e.splitOn ":" with
    | [v, ds] => do
      let v ← v.toNat?
      let ds ← parseList ds
      pure (v, ds)
    | _ => none

/-- `HashMap::entry(k).or_default().insert(d)`: merge repeated keys, drop repeated dependencies -/
def normDeps (deps : Deps) : Deps :=
  deps.foldl (fun acc (p : Nat × List Nat) =>
    let old := depsOf acc p.1
    let merged := (old ++ p.2).eraseDups
    if acc.any (fun q => q.1 == p.1) then acc.map (fun q => if q.1 == p.1 then (q.1, merged) else q)
    else acc ++ [(p.1, merged)]) []

def showList (l : List Nat) : String := if l.isEmpty then "-" else Drv.joinWith "," (l.map toString)

def showCtx (c : Ctx) : String := s!"{c.ws}/{showList c.treeOrder}/{showList c.luaOrder}"

/-- `wsmap` = `;`-separated `file:ws`; files not listed are in MAIN (1) -/
def parseWs (s : String) : Option (List (Nat × Nat)) :=
  if s == "-" then some [] else
  (s.splitOn ";").mapM fun e =>
    match e.splitOn ":" with
    | [f, w] => do pure ((← f.toNat?), (← w.toNat?))
    | _ => none

def wsFn (m : List (Nat × Nat)) (f : Nat) : Nat :=
  match m.find? (fun p => p.1 == f) with
  | some p => p.2
  | none => 1

/-- locations `f/p.f/p…` -/
def parseDot (s : String) : Option (List (Nat × Nat)) :=
  if s == "" then some [] else (s.splitOn ".").mapM (fun x =>
    match x.splitOn "/" with
    | [f, p] => do pure ((← f.toNat?), (← p.toNat?))
    | _ => none)

def parseRecords (s : String) : Option (List (List String)) :=
  if s == "-" then some [] else some ((s.splitOn ";").map (fun e => e.splitOn ":"))

def parseTypes (s : String) : Option (List Export.TypeDecl) := do
  (← parseRecords s).mapM fun r =>
    match r with
    | [n, k, locs] => do pure ⟨(← n.toNat?), (← k.toNat?), (← parseDot locs)⟩
    | _ => none

def parseModules (s : String) : Option (List Export.ModuleInfo) := do
  (← parseRecords s).mapM fun r =>
    match r with
    | [n, f, e] => do pure ⟨(← n.toNat?), (← f.toNat?), e == "1"⟩
    | _ => none

def parseGlobals (s : String) : Option (List Export.GlobalDecl) := do
  (← parseRecords s).mapM fun r =>
    match r with
    | [n, f, p, t] => do pure ⟨(← n.toNat?), (← f.toNat?), (← p.toNat?), t == "1"⟩
    | _ => none

def handle (op : String) (args : List String) : Option String :=
  match op, args with
  | "export_types", [mains, listing] => do
    let mains ← parseList mains
    let l ← parseTypes listing
    pure ("ok " ++ Drv.joinWith "," ((Export.exportTypes (fun f => mains.contains f) l).map fun t =>
      match t.locs with
      | [] => s!"{t.name}/-/-"
      | (f, p) :: _ => s!"{t.name}/{f}/{p}"))
  | "export_modules", [mains, listing] => do
    let mains ← parseList mains
    let l ← parseModules listing
    pure ("ok " ++ Drv.joinWith "," ((Export.exportModules (fun f => mains.contains f) l).map fun m => s!"{m.name}/{m.file}"))
  | "export_globals", [mains, listing] => do
    let mains ← parseList mains
    let l ← parseGlobals listing
    pure ("ok " ++ Drv.joinWith "," ((Export.exportGlobals (fun f => mains.contains f) l).map fun g => s!"{g.name}/{g.file}/{g.pos}"))
  | "best", [ids, metas, deps] => do
    let ids ← parseList ids
    let metas ← parseList metas
    let deps ← parseDeps deps
    pure ("ok " ++ showList (bestOrder ids metas (normDeps deps)))
  | "batch", [hashOrder] => do
    let l ← parseList hashOrder
    pure ("ok " ++ showList (batchOrder l))
  | "pipeline", [hashOrder, wsmap, metas, deps, rev] => do
    let l ← parseList hashOrder
    let m ← parseWs wsmap
    let metas ← parseList metas
    let deps ← parseDeps deps
    let π : List (Ws × List FileId) → List (Ws × List FileId) := if rev == "1" then List.reverse else id
    pure ("ok " ++ Drv.joinWith " " ((pipelineOrder ⟨wsFn m, metas, normDeps deps⟩ π l).map showCtx))
  | _, _ => none

end Drv.Order
