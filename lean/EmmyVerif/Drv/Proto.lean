import EmmyVerif.Model.Proto
import EmmyVerif.Drv.Util
/-! Driver ops of the `Proto` family.

`proto.run <events>`: events separated by `,`:
  `r:<id>:<hex method>:<o|b>:<f|s><n|p>`   request, params ok/bad, outcome fast/slow × normal/panics
  `n:<hex method>:<o|b>:<target>`          notification (target = id in CancelParams, else 0)
  `p`                                       a response message from the client
  `i`                                       the initialization task completes
Answer: `ok phase=<phase> out=<id>:<kind>,… owed=<id>,…` with `out` sorted by (id, kind). -/
namespace Drv.Proto
open _root_.Proto

def kindName : RKind → String
  | .result => "result" | .methodNotFound => "methodNotFound" | .invalidParams => "invalidParams"
  | .internalError => "internalError" | .requestCanceled => "requestCanceled"
  | .serverNotInitialized => "serverNotInitialized" | .invalidRequest => "invalidRequest"

def phaseName : Phase → String
  | .preInit => "preInit" | .awaitInitialized => "awaitInitialized" | .initializing => "initializing"
  | .running => "running" | .shuttingDown => "shuttingDown" | .dead => "dead"

def pstate : String → Option PState
  | "o" => some .ok | "b" => some .bad | _ => none

def outcome : String → Option Outcome
  | "fn" => some ⟨false, false⟩ | "fp" => some ⟨false, true⟩
  | "sn" => some ⟨true, false⟩ | "sp" => some ⟨true, true⟩ | _ => none

def event (s : String) : Option Event :=
  match s.splitOn ":" with
  | ["i"] => some .initDone
  | ["p"] => some (.msg .response)
  | ["r", id, m, p, o] => do
    let id ← id.toNat?
    let m ← Drv.unhex m
    let p ← pstate p
    let o ← outcome o
    pure (.msg (.request id (String.ofList m) p o))
  | ["n", m, p, t] => do
    let m ← Drv.unhex m
    let p ← pstate p
    let t ← t.toNat?
    pure (.msg (.notification (String.ofList m) p t))
  | _ => none

def insertSorted (x : Nat × String) : List (Nat × String) → List (Nat × String)
  | [] => [x]
  | y :: ys => if x.1 < y.1 ∨ (x.1 = y.1 ∧ x.2 ≤ y.2) then x :: y :: ys else y :: insertSorted x ys

def runOp (evs : List Event) : String :=
  let st := steps init evs
  -- the phase reported is the one after quiescence (initialization completed)
  let ph := (step st .initDone).phase
  let out := (run evs).map fun (i, k) => (i, kindName k)
  let sorted := out.foldr insertSorted []
  let owed := (answerable init evs).map toString
  s!"phase={phaseName ph} out={Drv.joinWith "," (sorted.map fun (i, k) => s!"{i}:{k}")} owed={Drv.joinWith "," owed}"

def handle (op : String) (args : List String) : Option String :=
  match op, args with
  | "run", [s] => do
    let evs ← if s == "-" then some [] else (s.splitOn ",").mapM event
    pure ("ok " ++ runOp evs)
  | "table", [] => some ("ok " ++ Drv.joinWith "," requestTable)
  | _, _ => none

end Drv.Proto
