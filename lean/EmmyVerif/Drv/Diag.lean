import EmmyVerif.Model.Text
import EmmyVerif.Model.Diag
import EmmyVerif.Model.DiagConfig
import EmmyVerif.Model.DiagSyntax
import EmmyVerif.Drv.Util
/-! Driver ops of the `Diag` family (protocol family `diag`).

* `diag.report <text-hex> <tags> <diags> <meta 0|1> <wsEnabled> <wsDisabled> <defaultOn>` →
  `ok r=<0/1 per diagnostic> s=<0/1 suppressed-by-range per diagnostic> fd=<codes> fe=<codes> act=<n>`
  * tags: `-` or `;`-separated `kind:cs:ce:block:codes`, kind ∈ d(isable) n(ext-line) l(ine) e(nable) o(ther),
    block = `-` or `bs_be_t` (t = 1 when the block's parent is the chunk), codes = `*` (no list),
    `!` (empty list) or `,`-separated code numbers / `?` (unknown name)
  * diags: `-` or `;`-separated `code_s_e`
  * code lists: `-` or `,`-separated numbers
* `diag.config <codes> <wsEnabled> <wsDisabled> <has ---@meta 0|1> <fileEnabled> <fileDisabled> <level> <overrides> <enable 0|1> <kind m|l|s|o>`
  → `ok none` (the file reports nothing at all) or `ok <per code: 0 = not enabled, 1..4 = severity>`;
  overrides: `-` or `,`-separated `code:severity`; defaults come from the readable model (`defaultOn`, `defaultSeverity`)
* `diag.syntax <text-hex> <errs>` → `ok <kind>_<sl>_<sc>_<el>_<ec>_<msg>;…`: the diagnostics of the parse-error loop of
  `SyntaxErrorChecker` (de-duplicated, ungated); errs: `-` or `;`-separated `kind_s_e_msgid` (kind 0 = SyntaxError)
* `diag.global <declared 0|1> <inGlobals 0|1> <matchesRegex 0|1>` → `ok 0|1` (reported as undefined global)
-/
namespace Drv.Diag
open _root_.Diag

def splitNonEmpty (s : String) (sep : String) : List String :=
  if s == "-" then [] else s.splitOn sep

def parseNatList (s : String) : Option (List Nat) :=
  (splitNonEmpty s ",").mapM (·.toNat?)

def parseCodes (s : String) : Option (Option (List (Option Code))) :=
  if s == "*" then some none
  else if s == "!" then some (some [])
  else do
    let xs ← (s.splitOn ",").mapM fun x => if x == "?" then some none else x.toNat?.map some
    pure (some xs)

def parseKind : String → Option TagKind
  | "d" => some .disable | "n" => some .disableNextLine | "l" => some .disableLine
  | "e" => some .enable | "o" => some .other | _ => none

def parseBlock (s : String) : Option (Option (Range × Bool)) :=
  if s == "-" then some none else
  match s.splitOn "_" with
  | [a, b, t] => do
    let a ← a.toNat?; let b ← b.toNat?
    pure (some ((a, b), t == "1"))
  | _ => none

def parseTag (s : String) : Option Tag :=
  match s.splitOn ":" with
  | [k, cs, ce, b, codes] => do
    let k ← parseKind k
    let cs ← cs.toNat?; let ce ← ce.toNat?
    let b ← parseBlock b
    let codes ← parseCodes codes
    pure ⟨k, codes, (cs, ce), b⟩
  | _ => none

def parseDiag (s : String) : Option (Code × Range) :=
  match s.splitOn "_" with
  | [c, a, b] => do
    let c ← c.toNat?; let a ← a.toNat?; let b ← b.toNat?
    pure (c, (a, b))
  | _ => none

def bit (b : Bool) : String := if b then "1" else "0"

def handle (op : String) (args : List String) : Option String :=
  match op, args with
  | "report", [h, tags, diags, isMeta, wsE, wsD, defOn] => do
    let t ← Drv.unhex h
    let tags ← (splitNonEmpty tags ";").mapM parseTag
    let diags ← (splitNonEmpty diags ";").mapM parseDiag
    let wsE ← parseNatList wsE
    let wsD ← parseNatList wsD
    let defOn ← parseNatList defOn
    let starts := Text.lineStarts (Text.splitLines t) 0
    let st := analyze starts (Text.len8 t) tags
    let cfg : Config := { wsEnabled := wsE, wsDisabled := wsD }
    let rep := diags.map fun (c, r) => bit (reported (fun c => defOn.contains c) cfg st (isMeta == "1") c r)
    let sup := diags.map fun (c, r) => bit (suppressed st c r)
    pure s!"ok r={"".intercalate rep} s={"".intercalate sup} fd={Drv.joinWith "," (st.fileDisabled.map toString)} fe={Drv.joinWith "," (st.fileEnabled.map toString)} act={st.actions.length}"
  | "config", [codes, wsE, wsD, isMeta, fE, fD, level, ovs, enable, kind] => do
    let codes ← parseNatList codes
    let wsE ← parseNatList wsE
    let wsD ← parseNatList wsD
    let fE ← parseNatList fE
    let fD ← parseNatList fD
    let level ← level.toNat?
    let ovs ← (splitNonEmpty ovs ",").mapM fun x =>
      match x.splitOn ":" with
      | [c, s] => do pure ((← c.toNat?), (← s.toNat?))
      | _ => none
    let kind ← match kind with
      | "m" => some WorkspaceKind.main | "l" => some .library | "s" => some .std | "o" => some .outside
      | _ => none
    let cfg : Config := { wsEnabled := wsE, wsDisabled := wsD }
    let st : FileDiag := { fileEnabled := fE, fileDisabled := fD }
    let per := codes.map fun c =>
      if enabledByCode (defaultOn level) cfg st (effectiveMeta (isMeta == "1") kind) c then toString (severity ovs c) else "0"
    pure (match fileReports (enable == "1") kind per with
      | none => "ok none"
      | some per => s!"ok {Drv.joinWith "," per}")
  | "syntax", [h, errs] => do
    let t ← Drv.unhex h
    let errs ← (splitNonEmpty errs ";").mapM fun x =>
      match x.splitOn "_" with
      | [k, a, b, m] => do pure (ParseErr.mk (← k.toNat?) ((← a.toNat?), (← b.toNat?)) (← m.toNat?))
      | _ => none
    let ds := syntaxDiags t 0 1 (fun _ _ => true) errs
    let out := ds.map fun d => s!"{d.code}_{d.range.1.1}_{d.range.1.2}_{d.range.2.1}_{d.range.2.2}_{d.msg}"
    pure s!"ok {Drv.joinWith ";" out}"
  | "global", [d, g, r] => pure s!"ok {bit (globalReported (d == "1") (g == "1") (r == "1"))}"
  | "covers", [a, b, s, e] => do
    let a ← a.toNat?; let b ← b.toNat?; let s ← s.toNat?; let e ← e.toNat?
    pure s!"ok {bit (covers (a, b) (s, e))} {bit (touches (a, b) (s, e))}"
  | _, _ => none

end Drv.Diag
