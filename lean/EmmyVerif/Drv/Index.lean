import EmmyVerif.Model.IndexDb
import EmmyVerif.Model.IndexSym
import EmmyVerif.Drv.Util
/-! Driver ops of the `Index` family (protocol family `index`).

`index.mod <fuzzy 0|1> <patterns> <workspaces> <rules> <op>…`
* patterns: `,`-separated hex templates, `_` = none
* workspaces: `;`-separated `<hex root>:<id>:<hex package dir | *>`, `_` = none
* rules: `;`-separated `<hex pre>:<hex suf>:<hex rpre>:<hex rsuf>`, `_` = none
* ops: `a:<file>:<hex path>` add_module_by_path · `m:<file>:<hex module path>:<ws>` add_module_by_module_path ·
  `r:<file>` remove · `h:<file>:<0|1>` set hidden · `q:<hex>` find_module · `s:<hex>` spec resolver on the
  spec state · `n:<hex>` find_module_node children · `c` sizes
Response: `ok` + one item per op.
-/
namespace Drv.Index
open _root_.Index _root_.Index.Module

def splitTok (c : Char) (s : String) : List String :=
  (splitOn c s.toList).map String.ofList

def parseList (sep : Char) (s : String) : List String :=
  if s == "_" then [] else splitTok sep s

def parsePatterns (s : String) : Option (List (List Char)) :=
  (parseList ',' s).mapM Drv.unhex

def parseWorkspace (s : String) : Option Workspace :=
  match splitTok ':' s with
  | [r, id, pkg] => do
    let r ← Drv.unhex r
    let id ← id.toNat?
    let pkg ← if pkg == "*" then some none else (Drv.unhex pkg).map fun d => some (splitOn '/' d)
    pure { root := splitOn '/' r, pkg := pkg, id := id }
  | _ => none

def parseRule (s : String) : Option Rule :=
  match splitTok ':' s with
  | [a, b, c, d] => do
    pure { pre := ← Drv.unhex a, suf := ← Drv.unhex b, rpre := ← Drv.unhex c, rsuf := ← Drv.unhex d }
  | _ => none

def showInfo : Option Info → String
  | none => "none"
  | some i => s!"{i.file}:{Drv.hex (fullName i)}:{i.ws}:{if i.hidden then 1 else 0}"

def insertStr (x : List Char) : List (List Char) → List (List Char)
  | [] => [x]
  | y :: r => if lexLt y x then y :: insertStr x r else x :: y :: r

def sortStrs (xs : List (List Char)) : List (List Char) := xs.foldr insertStr []

def showChildren : Option (List Seg) → String
  | none => "none"
  | some [] => "empty"
  | some cs => Drv.joinWith "," ((sortStrs cs).map Drv.hex)

def sizes (s : MState) : String :=
  s!"{s.nodes.length},{s.infos.length},{s.fuzzy.length},{(s.fuzzy.map (·.2.length)).sum}"

/-- one op: new model state, new spec state, output item -/
def doOp (cfg : Config) (s : MState) (live : List Info) (tok : String) : Option (MState × List Info × String) :=
  match splitTok ':' tok with
  | ["a", f, p] => do
    let f ← f.toNat?
    let p ← Drv.unhex p
    let (s', w) := addByPath cfg s f p
    pure (s', specStep cfg live (.add f p), s!"a={Drv.showOptNat w}/{showInfo (aget s'.infos f)}")
  | ["m", f, p, w] => do
    let f ← f.toNat?
    let p ← Drv.unhex p
    let w ← w.toNat?
    let s' := addModule cfg.fuzzy s f p w
    pure (s', specStep cfg live (.addMod f p w), s!"m={showInfo (aget s'.infos f)}")
  | ["r", f] => do
    let f ← f.toNat?
    pure (remove s f, specStep cfg live (.remove f), "r")
  | ["h", f, b] => do
    let f ← f.toNat?
    pure (setHidden s f (b == "1"), specStep cfg live (.hide f (b == "1")), "h")
  | ["x"] => pure (Module.clear s, specStep cfg live .clear, "x")
  | ["q", q] => do
    let q ← Drv.unhex q
    pure (s, live, s!"q={showInfo (find cfg s q)}")
  | ["s", q] => do
    let q ← Drv.unhex q
    pure (s, live, s!"s={showInfo (specFind cfg live q)}")
  | ["n", q] => do
    let q ← Drv.unhex q
    pure (s, live, s!"n={showChildren (nodeChildren s q)}")
  | ["c"] => pure (s, live, s!"c={sizes s}")
  | _ => none

/-- `k|<fuzzy>|<extensions>|<requirePattern>|<rules>` : `update_config` -/
def parseConfigTok (cfg : Config) (tok : String) : Option Config :=
  match splitTok '|' tok with
  | ["k", fz, exts, rp, rules] => do
    let exts ← parsePatterns exts
    let rp ← parsePatterns rp
    let rules ← (parseList ';' rules).mapM parseRule
    pure (updateConfig cfg (fz == "1") exts rp rules)
  | _ => none

def runOps : Config → MState → List Info → List String → List String → Option (List String)
  | _, _, _, [], acc => some acc.reverse
  | cfg, s, live, t :: ts, acc =>
    if t.startsWith "k|" then
      match parseConfigTok cfg t with
      | none => none
      | some cfg' => runOps cfg' s live ts ("k" :: acc)
    else
      match doOp cfg s live t with
      | none => none
      | some (s', live', out) => runOps cfg s' live' ts (out :: acc)

/-! ### `index.db <op>…` — the generic `DbIndex` maps
ops: `p:<file>:<slot>:<v>` · `k:<file>:<map>:<key>:<v>` · `n:<file>:<map>:<key>:<v>` · `o:<file>:<map>:<id>:<v>` ·
`d:<file>:<owner>:<field>:<v>` · `r:<file>` remove · `x` clear · `c` sizes · `g` lookups over the universe
(files < 4, keys < 4, owners {0,1,2} ∪ {100 + 10·file + j | j < 2}, fields < 2). -/

open _root_.Index.Db in
def dbSizes (d : Db) : String :=
  let pf (slot : Nat) := d.perFile.filter fun e => e.1.1 == slot
  let kd (m : Nat) := d.keyed.filter fun e => e.1.1 == m
  let ns (m : Nat) := d.nested.filter fun e => e.1.1 == m
  let cnt {α β : Type} (l : List (α × List β)) : Nat := (l.map (·.2.length)).sum
  let cnt2 (l : List ((Nat × Nat) × List (File × List Nat))) : Nat := (l.map fun e => (e.2.map (·.2.length)).sum).sum
  let nums : List Nat := [
    (pf 0).length, cnt (pf 0), (pf 10).length, cnt (pf 10), (pf 11).length, cnt (pf 11),
    (kd 0).length, cnt (kd 0),
    (ns 0).length, cnt2 (ns 0), (ns 1).length, cnt2 (ns 1),
    d.owned.length, d.inFile.length, cnt d.inFile,
    d.props.length, d.propOwners.length, d.propInFile.length, cnt d.propInFile]
  Drv.joinWith "," (nums.map toString)

def insertNat (x : Nat) : List Nat → List Nat
  | [] => [x]
  | y :: r => if y < x then y :: insertNat x r else x :: y :: r
def sortNats (xs : List Nat) : List Nat := xs.foldr insertNat []
def showNats (xs : List Nat) : String := Drv.joinWith "." (xs.map toString)

open _root_.Index.Db in
def dbLookups (d : Db) : String :=
  let files := List.range 4
  let keys := List.range 4
  let pfItems := [0, 10, 11].flatMap fun slot => files.map fun f =>
    let v := agetL d.perFile (slot, f)
    s!"p{slot}.{f}=" ++ showNats (if slot < 10 then v else sortNats v)
  let kdItems := keys.map fun k =>
    s!"k0.{k}=" ++ Drv.joinWith "." ((agetL d.keyed (0, k)).map fun x => s!"{x.1}:{x.2}")
  let nsItems := [0, 1].flatMap fun m => keys.flatMap fun k => files.map fun f =>
    s!"n{m}.{k}.{f}=" ++ showNats (sortNats (agetL (agetL d.nested (m, k)) f))
  let owners := [0, 1, 2] ++ files.flatMap fun f => [100 + 10 * f, 101 + 10 * f]
  let prItems := owners.map fun o =>
    s!"d{o}=" ++ match aget d.propOwners o with
      | none => "none"
      | some id => match aget d.props id with
        | none => "none"
        | some p => s!"{Drv.showOptNat (aget p 0)}/{Drv.showOptNat (aget p 1)}"
  let owItems := files.flatMap fun f => keys.map fun i =>
    s!"o{f}.{i}=" ++ (if (aget d.owned (0, f, i)).isSome then "1" else "0")
  Drv.joinWith ";" (pfItems ++ kdItems ++ nsItems ++ prItems ++ owItems)

open _root_.Index.Db in
def dbOp (d : Db) (tok : String) : Option (Db × Option String) :=
  match splitTok ':' tok with
  | ["p", f, a, v] => do pure (apply d (← f.toNat?) (.perFile (← a.toNat?) (← v.toNat?)), none)
  | ["k", f, a, b, v] => do pure (apply d (← f.toNat?) (.keyed (← a.toNat?) (← b.toNat?) (← v.toNat?)), none)
  | ["n", f, a, b, v] => do pure (apply d (← f.toNat?) (.nested (← a.toNat?) (← b.toNat?) (← v.toNat?)), none)
  | ["o", f, a, b, v] => do pure (apply d (← f.toNat?) (.owned (← a.toNat?) (← b.toNat?) (← v.toNat?)), none)
  | ["d", f, a, b, v] => do pure (apply d (← f.toNat?) (.prop (← a.toNat?) (← b.toNat?) (← v.toNat?)), none)
  | ["r", f] => do pure (Db.remove d (← f.toNat?), none)
  | ["x"] => pure (Db.clear d, none)
  | ["c"] => pure (d, some ("c=" ++ dbSizes d))
  | ["g"] => pure (d, some ("g=" ++ dbLookups d))
  | _ => none

def dbRun : _root_.Index.Db.Db → List String → List String → Option (List String)
  | _, [], acc => some acc.reverse
  | d, t :: ts, acc =>
    match dbOp d t with
    | none => none
    | some (d', none) => dbRun d' ts acc
    | some (d', some out) => dbRun d' ts (out :: acc)

/-! ### `index.sym <op>…` — type / operator / metatable / member indexes
ops: `td:f:t:pos` add_type_decl · `ts:f:t:v` add_super_type · `tg:t:v` add_generic_params · `tb:f:pos:v` bind_type ·
`tn:f:v` add_file_namespace · `tu:f:v` add_file_using_namespace · `op:f:pos:owner:op` add_operator · `mt:f:k:v`
metatable add · `ma:<owner>:f:id:key:feat` add_member · `ms:<owner>:f:id` set_member_owner (file = f) ·
`mo:<owner>:f:id` add_member_to_owner · `r:f` remove · `x` clear · `c` sizes · `g` lookups.
`<owner>` = `t<n>` | `e<f>_<r>` | `g<n>` | `u` (unknown). -/

open _root_.Index.Sym in
def parseOwner (s : String) : Option MOwner :=
  match s.toList with
  | ['u'] => some .unknown
  | 't' :: r => (String.ofList r).toNat?.map .type
  | 'g' :: r => (String.ofList r).toNat?.map .glob
  | 'e' :: r =>
    match splitTok '_' (String.ofList r) with
    | [a, b] => do pure (.elem (← a.toNat?) (← b.toNat?))
    | _ => none
  | _ => none

open _root_.Index.Sym in
def showOwner : MOwner → String
  | .unknown => "u"
  | .type t => s!"t{t}"
  | .elem f r => s!"e{f}_{r}"
  | .glob g => s!"g{g}"

def showPairs (xs : List (Nat × Nat)) : String := Drv.joinWith "." (xs.map fun x => s!"{x.1}:{x.2}")

open _root_.Index.Sym in
def symSizes (s : S) : String :=
  let cnt {α β : Type} (l : List (α × List β)) : Nat := (l.map (·.2.length)).sum
  let nums : List Nat := [
    s.fileNamespace.length, s.fileUsing.length, cnt s.fileUsing, s.fileTypes.length, cnt s.fileTypes,
    s.decls.length, cnt s.decls, s.generics.length, s.supers.length, cnt s.supers,
    s.typeCache.length, s.inFiledTypeOwner.length, cnt s.inFiledTypeOwner, s.globalNames.length,
    s.operators.length, s.typeOperators.length, (s.typeOperators.map fun e => (e.2.map (·.2.length)).sum).sum, s.inFiledOperators.length, cnt s.inFiledOperators,
    s.metatables.length,
    s.members.length, s.inFiled.length, cnt s.inFiled, s.ownerMembers.length, cnt s.ownerMembers, s.currentOwner.length]
  Drv.joinWith "," (nums.map toString)

open _root_.Index.Sym in
def symLookups (s : S) : String :=
  let files := List.range 3
  let tids := List.range 3
  let tItems := tids.map fun t =>
    s!"T{t}=" ++ showPairs (agetL s.decls t) ++ "/" ++ showNats ((agetL s.supers t).map (·.2)) ++ "/" ++
      (if (aget s.generics t).isSome then "1" else "0") ++ "/" ++
      (if ((aget s.globalNames t).bind fun id => aget s.decls id).isSome then "1" else "0")
  let fItems := files.map fun f =>
    s!"F{f}=" ++ Drv.showOptNat (aget s.fileNamespace f) ++ "/" ++ showNats (agetL s.fileUsing f) ++ "/" ++
      Drv.joinWith "." ((List.range 3).map fun p => Drv.showOptNat (aget s.typeCache (f, p)))
  let oItems := tids.flatMap fun t => [0, 1].map fun op =>
    s!"O{t}.{op}=" ++ showPairs (agetL (agetL s.typeOperators t) op)
  let mtItems := files.flatMap fun f => (List.range 3).map fun k =>
    s!"M{f}.{k}=" ++ match aget s.metatables (f, k) with | none => "none" | some v => s!"{v.1}:{v.2}"
  let owners : List MOwner := (tids.map .type) ++ (files.map fun f => .elem f 0) ++ ((List.range 2).map .glob)
  let mItems := owners.flatMap fun o => (List.range 3).map fun k =>
    s!"W{showOwner o}.{k}=" ++ match aget (agetL s.ownerMembers o) k with
      | none => "none"
      | some (.one id) => s!"o{id.1}:{id.2}"
      | some (.many ids) => "m" ++ showPairs ids
  let cItems := files.flatMap fun f => (List.range 4).map fun i =>
    s!"C{f}.{i}=" ++ (if (aget s.members (f, i)).isSome then "1" else "0") ++ "/" ++
      match aget s.currentOwner (f, i) with | none => "none" | some o => showOwner o
  Drv.joinWith ";" (tItems ++ fItems ++ oItems ++ mtItems ++ mItems ++ cItems)

open _root_.Index.Sym in
def symOp (s : S) (tok : String) : Option (S × Option String) :=
  match splitTok ':' tok with
  | ["td", f, t, p] => do pure (apply s (.tdecl (← f.toNat?) (← t.toNat?) (← p.toNat?)), none)
  | ["ts", f, t, v] => do pure (apply s (.tsuper (← f.toNat?) (← t.toNat?) (← v.toNat?)), none)
  | ["tg", t, v] => do pure (apply s (.tgeneric (← t.toNat?) (← v.toNat?)), none)
  | ["tb", f, p, v] => do pure (apply s (.tbind (← f.toNat?) (← p.toNat?) (← v.toNat?)), none)
  | ["tn", f, v] => do pure (apply s (.tns (← f.toNat?) (← v.toNat?)), none)
  | ["tu", f, v] => do pure (apply s (.tusing (← f.toNat?) (← v.toNat?)), none)
  | ["op", f, p, o, m] => do pure (apply s (.oper (← f.toNat?) (← p.toNat?) (← o.toNat?) (← m.toNat?)), none)
  | ["mt", f, k, v] => do pure (apply s (.mtable (← f.toNat?) (← k.toNat?) (← v.toNat?)), none)
  | ["ma", o, f, i, k, ft] => do
    pure (apply s (.madd (← parseOwner o) { id := (← f.toNat?, ← i.toNat?), key := ← k.toNat?, feat := ← ft.toNat? }), none)
  | ["ms", o, f, i] => do pure (apply s (.mset (← parseOwner o) (← f.toNat?) (← f.toNat?, ← i.toNat?)), none)
  | ["mo", o, f, i] => do pure (apply s (.mto (← parseOwner o) (← f.toNat?, ← i.toNat?)), none)
  | ["r", f] => do pure (Sym.remove s (← f.toNat?), none)
  | ["x"] => pure (Sym.clear s, none)
  | ["c"] => pure (s, some ("c=" ++ symSizes s))
  | ["g"] => pure (s, some ("g=" ++ symLookups s))
  | _ => none

def symRun : _root_.Index.Sym.S → List String → List String → Option (List String)
  | _, [], acc => some acc.reverse
  | s, t :: ts, acc =>
    match symOp s t with
    | none => none
    | some (s', none) => symRun s' ts acc
    | some (s', some out) => symRun s' ts (out :: acc)

def handle (op : String) (args : List String) : Option String :=
  match op, args with
  | "sym", ops => do
    let outs ← symRun _root_.Index.Sym.S.new ops []
    pure ("ok " ++ Drv.joinWith " " outs)
  | "db", ops => do
    let outs ← dbRun _root_.Index.Db.Db.new ops []
    pure ("ok " ++ Drv.joinWith " " outs)
  | "mod", fz :: pats :: wss :: rules :: ops => do
    let pats ← parsePatterns pats
    let wss ← (parseList ';' wss).mapM parseWorkspace
    let rules ← (parseList ';' rules).mapM parseRule
    let cfg : Config := { patterns := pats, workspaces := wss, rules := rules, fuzzy := fz == "1" }
    let outs ← runOps cfg MState.new [] ops []
    pure ("ok " ++ Drv.joinWith " " outs)
  | "match", [pats, path] => do
    let pats ← parsePatterns pats
    let path ← Drv.unhex path
    pure ("ok " ++ match matchPatterns (compilePatterns pats) path with
      | none => "none"
      | some m => Drv.hex m)
  | _, _ => none

end Drv.Index
