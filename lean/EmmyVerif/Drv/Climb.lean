import EmmyVerif.Model.Climb
import EmmyVerif.Model.NumLex
import EmmyVerif.Drv.Util
/-! Driver ops of the `climb` family (C03): `climb.parse <raw kinds, comma separated>` runs the expression
model on the real lexer's token kinds with the regenerated table; `climb.numlex <4 feature bits> <hex text>`
runs the `lex_number` model. -/
namespace Drv.Climb
open Gen.Climb (Tok)

def tokOfRaw (n : Nat) : Option Tok := Tok.all[n]?

def parseKinds (s : String) : Option (List Tok) :=
  if s == "-" then some [] else
  (s.splitOn ",").mapM fun x => x.toNat? >>= tokOfRaw

def showErr : Climb.Err → String
  | .syntax => "err syntax"
  | .unsupported => "err unsupported"
  | .fuel => "err fuel"

def parseCfg (s : String) : Option NumLex.Cfg :=
  match s.toList with
  | [a, b, c, d] => some ⟨a == '1', b == '1', c == '1', d == '1'⟩
  | _ => none

def showKind : NumLex.Kind → String
  | .TkInt => "TkInt" | .TkFloat => "TkFloat" | .TkComplex => "TkComplex"

def handle (op : String) (args : List String) : Option String :=
  match op, args with
  | "parse", [ks] => do
    let ts ← parseKinds ks
    pure (match Climb.climb Climb.genTable ts with
      | .ok e => "ok " ++ Climb.sexpr e
      | .error e => showErr e)
  | "numlex", [cfg, h] => do
    let cfg ← parseCfg cfg
    let t ← Drv.unhex h
    pure (match NumLex.lexNumber cfg t with
      | some o => s!"ok {showKind o.kind} {o.len} {if o.err then 1 else 0}"
      | none => "err empty")
  | _, _ => none

end Drv.Climb
