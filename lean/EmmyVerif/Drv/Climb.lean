import EmmyVerif.Model.Climb
import EmmyVerif.Model.NumLex
import EmmyVerif.Model.NumLexString
import EmmyVerif.Model.FeaturesKeywords
import EmmyVerif.Drv.Util
/-! Driver ops of the `climb` family (C03): `climb.parse <raw kinds, comma separated>` runs the expression
model on the real lexer's token kinds with the regenerated table; `climb.numlex <4 feature bits> <hex text>`
runs the `lex_number` model; `climb.strlex <level index> <hex>` / `climb.strcheck <level index> <hex>` the string models with the
hand-written per-level escape tables `Features.zskip` / `Features.escCfg`. -/
namespace Drv.Climb
open Gen.Climb (Tok)

def tokOfRaw (n : Nat) : Option Tok := Tok.all[n]?

def parseKinds (s : String) : Option (List Tok) :=
  if s == "-" then some [] else
  (s.splitOn ",").mapM fun x => x.toNat? >>= tokOfRaw

def showErr : Climb.Err → String
  | .syntax => "err syntax"
  | .unsupported => "err unsupported"
  | .fuel => "err fuel"

def parseCfg (s : String) : Option NumLex.Cfg :=
  match s.toList with
  | [a, b, c, d] => some ⟨a == '1', b == '1', c == '1', d == '1'⟩
  | _ => none

def showKind : NumLex.Kind → String
  | .TkInt => "TkInt" | .TkFloat => "TkFloat" | .TkComplex => "TkComplex"

def handle (op : String) (args : List String) : Option String :=
  match op, args with
  | "parse", [ks] => do
    let ts ← parseKinds ks
    pure (match Climb.climb Climb.genTable ts with
      | .ok e => "ok " ++ Climb.sexpr e
      | .error e => showErr e)
  | "numlex", [cfg, h] => do
    let cfg ← parseCfg cfg
    let t ← Drv.unhex h
    pure (match NumLex.lexNumber cfg t with
      | some o => s!"ok {showKind o.kind} {o.len} {if o.err then 1 else 0}"
      | none => "err empty")
  | "strlex", [l, h] => do
    let t ← Drv.unhex h
    let lv ← (← l.toNat?) |> (Gen.Features.Level.all[·]?)
    let zskip := Features.zskip lv
    let b := fun (x : Bool) => if x then 1 else 0
    pure (match t with
      | '"' :: _ | '\'' :: _ =>
        (match StrLex.lexShort zskip t with
         | some (n, e) => s!"ok string {n} {b e}"
         | none => "err empty")
      | '[' :: _ =>
        (match StrLex.lexBracket t with
         | some (.leftBracket, n, e) => s!"ok leftbracket {n} {b e}"
         | some (.longString, n, e) => s!"ok longstring {n} {b e}"
         | some (.badDelimiter, n, e) => s!"ok longstring {n} {b e}"
         | none => "err empty")
      | '-' :: '-' :: r =>
        let (long, n, e) := StrLex.lexAfterDashes r
        s!"ok {if long then "longcomment" else "shortcomment"} {n + 2} {b e}"
      | _ => "err start")
  | "strcheck", [l, h] => do
    let t ← Drv.unhex h
    let lv ← (← l.toNat?) |> (Gen.Features.Level.all[·]?)
    pure (if StrLex.checkString (Features.escCfg lv) t then "ok 1" else "ok 0")
  | _, _ => none

end Drv.Climb
