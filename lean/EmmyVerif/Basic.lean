def hello := "world"
