import EmmyVerif.Lemmas.IndexDb
import EmmyVerif.Lemmas.IndexModule
import EmmyVerif.Lemmas.IndexModuleKeys
import EmmyVerif.Lemmas.IndexSym
import EmmyVerif.Lemmas.IndexSymOper
import EmmyVerif.Lemmas.IndexSymMember
import EmmyVerif.Lemmas.IndexDbProp
import EmmyVerif.Lemmas.IndexSymCache
/-!
# C10 — Removed files leave no trace

Statements about the executable models of `LuaIndex::remove` (`Index.Module` for `LuaModuleIndex`, `Index.Db`
for the `DbIndex` maps of the shapes per-file / keyed vector (`global_decl`) / nested per-file
(`index_reference`, `global_references`) / id-owned (`signatures`) / doc properties), for every history of
file-tagged mutations. `build ms` is the state reached by applying the mutations `ms` (each tagged with the
file whose analysis performs it) to the empty index. Tied to the Rust by the `index.mod` / `index.db`
correspondence runs of `./check C10`; the analysis' cross-file inference is judged by the oracle only.

Proved here: module index (no trace, exact node arena, entry counts), per-file maps, keyed vector maps (lookups and entry counts), nested per-file maps, id-owned maps
(signatures). Type / member / operator / metatable indexes: modelled at method granularity (`Index.Sym`) and tied by the
`index.sym` correspondence run; proved: metatable `remove_exact`, two member-index witnesses; the rest of their
`remove` behaviour is covered by the tie and the oracle only.
The doc-property index violates the property (`C10_property_remove_erases_witness`): open finding.
-/
namespace Index

open Module in
/-- **C10 module index: no trace.** After `remove f` (whatever the history): `f` has no `ModuleInfo`, no
node's file list mentions `f`, with fuzzy lookup enabled no fuzzy-name list mentions `f`; every node's file
list is its previous list without `f` and every other file's info is unchanged. -/
theorem C10_module_remove_no_trace (cfg : Config) (ops : List Op) (f : Nat) :
    let s := run cfg ops
    let s' := run cfg (ops ++ [Op.remove f])
    aget s'.infos f = none ∧
    (∀ p, f ∉ agetL s'.nodes p) ∧
    (cfg.fuzzy = true → ∀ n, f ∉ agetL s'.fuzzy n) ∧
    (∀ p, agetL s'.nodes p = (agetL s.nodes p).filter fun x => x ≠ f) ∧
    (∀ g, g ≠ f → aget s'.infos g = aget s.infos g) := by
  intro s s'
  have h := inv_run cfg ops
  have h' := inv_run cfg (ops ++ [Op.remove f])
  rw [specLive_append] at h'
  have hno : ∀ e ∈ specStep cfg (specLive cfg ops) (Op.remove f), e.file ≠ f := fun e he => mem_specRemove he
  refine ⟨?_, ?_, ?_, ?_, ?_⟩
  · show aget (run cfg (ops ++ [Op.remove f])).infos f = none
    rw [h'.infos, List.find?_eq_none]
    intro x hx
    simpa using hno x hx
  · intro p hp
    have : f ∈ agetL (run cfg (ops ++ [Op.remove f])).nodes p := hp
    rw [h'.nodes] at this
    obtain ⟨e, he, hef⟩ := List.mem_map.mp this
    exact hno e (List.mem_filter.mp he).1 hef
  · intro hfz n hp
    have : f ∈ agetL (run cfg (ops ++ [Op.remove f])).fuzzy n := hp
    rw [h'.fuzzy hfz] at this
    obtain ⟨e, he, hef⟩ := List.mem_map.mp this
    exact hno e (List.mem_filter.mp he).1 hef
  · intro p
    show agetL (run cfg (ops ++ [Op.remove f])).nodes p = (agetL (run cfg ops).nodes p).filter fun x => x ≠ f
    rw [h'.nodes, h.nodes]
    simp only [specStep, specRemove]
    rw [List.filter_map, List.filter_filter, List.filter_filter]
    congr 1
    apply List.filter_congr
    intro x _
    simp [Function.comp, Bool.and_comm]
  · intro g hg
    show aget (run cfg (ops ++ [Op.remove f])).infos g = aget (run cfg ops).infos g
    rw [h'.infos, h.infos]
    exact find_filter_ne _ hg

open Module in
/-- **C10 module index: the node arena is exact.** After every history the nodes of the module tree are,
each exactly once, the root and the non-empty prefixes of the live module paths: nothing of a removed or
re-submitted file stays behind (this is what the `fix:` of `LuaModuleIndex::remove` restored). -/
theorem C10_module_nodes_exact (cfg : Config) (ops : List Op) :
    (akeys (run cfg ops).nodes).Nodup ∧
    ∀ q, q ∈ akeys (run cfg ops).nodes ↔ (q = [] ∨ (q ≠ [] ∧ ∃ e ∈ specLive cfg ops, q <+: e.path)) :=
  ⟨(keyinv_run cfg ops).nodup, (keyinv_run cfg ops).keys⟩

open Module in
/-- **C10 module index: no leak.** The number of tree nodes and of `file_module_map` entries is a function
of the live set alone — whatever was added, re-submitted or removed on the way. -/
theorem C10_module_no_leak (cfg : Config) (ops₁ ops₂ : List Op) (h : specLive cfg ops₁ = specLive cfg ops₂) :
    (run cfg ops₁).nodes.length = (run cfg ops₂).nodes.length ∧
    (run cfg ops₁).infos.length = (run cfg ops₂).infos.length :=
  sizes_of_live cfg ops₁ ops₂ h

open Module in
/-- **C10 module index: add then remove restores the sizes.** -/
theorem C10_module_add_remove_restores (cfg : Config) (ops : List Op) (f : Nat) (path : List Char)
    (hf : ∀ e ∈ specLive cfg ops, e.file ≠ f) :
    (run cfg (ops ++ [Op.add f path, Op.remove f])).nodes.length = (run cfg ops).nodes.length ∧
    (run cfg (ops ++ [Op.add f path, Op.remove f])).infos.length = (run cfg ops).infos.length := by
  apply sizes_of_live
  have e : ops ++ [Op.add f path, Op.remove f] = (ops ++ [Op.add f path]) ++ [Op.remove f] := by simp
  rw [e, specLive_append, specLive_append]
  show specRemove (specStep cfg (specLive cfg ops) (Op.add f path)) f = specLive cfg ops
  rw [specRemove_add]
  unfold specRemove
  rw [List.filter_eq_self]
  intro a ha
  simpa using hf a ha

namespace Db

/-- **C10 per-file maps: `remove_exact`.** After `remove f` every per-file map (dependencies, diagnostics,
file-level diagnostic switches, decl / flow trees, per-file reference tables …) is exactly the map the other
files' mutations build: nothing under `f`, every other file's entry unchanged. -/
theorem C10_perFile_remove_exact (ms : List FMut) (f : File) (k : Nat × File) :
    aget (remove (build ms) f).perFile k = aget (build (ms.filter fun m => m.1 ≠ f)).perFile k :=
  perFile_remove_exact ms f k

/-- **C10 keyed vector maps: `remove_exact`.** After `remove f` every `global_decl`-shaped map is exactly the
map the other files' mutations build: no item of `f`, the other files' items in their order, and a key whose
items all came from `f` is gone. -/
theorem C10_keyed_remove_exact (ms : List FMut) (f : File) (k : Nat × Nat) :
    aget (remove (build ms) f).keyed k = aget (build (ms.filter fun m => m.1 ≠ f)).keyed k :=
  keyed_remove_exact ms f k

/-- **C10 keyed vector maps: no leak.** The number of keys held after `remove f` is the number the other
files' mutations alone produce. -/
theorem C10_keyed_no_leak (ms : List FMut) (f : File) :
    (remove (build ms) f).keyed.length = (build (ms.filter fun m => m.1 ≠ f)).keyed.length :=
  length_eq_of_aget_eq _ _ (keyed_remove_nodup ms f) (keyed_keys_nodup _)
    (fun k => by rw [keyed_remove_exact])

/-- **C10 nested per-file maps: `remove_exact`.** After `remove f` every `index_reference` /
`global_references`-shaped map is exactly the map the other files' mutations build: the inner entry of `f`
is gone, the other files' inner entries are unchanged, and a key referenced only by `f` is gone. -/
theorem C10_nested_remove_exact (ms : List FMut) (f : File) (k : Nat × Nat) :
    aget (remove (build ms) f).nested k = aget (build (ms.filter fun m => m.1 ≠ f)).nested k :=
  nested_remove_exact ms f k

/-- **C10 id-owned maps: `remove_exact`.** After `remove f` every `signatures`-shaped map (ids carry their
file, a per-file list records them) is exactly the map the other files' mutations build. -/
theorem C10_owned_remove_exact (ms : List FMut) (f : File) (k : Nat × File × Nat) :
    aget (remove (build ms) f).owned k = aget (build (ms.filter fun m => m.1 ≠ f)).owned k :=
  owned_remove_exact ms f k

/-- file 1 documents owner 0 (description 7); file 2 adds a `source` to the same owner -/
def propWitness : List FMut := [(1, .prop 0 0 7), (2, .prop 0 1 9)]

/-- **Witness (open finding).** `LuaPropertyIndex::remove` drops the whole property of an owner that another
file also contributed to: after `remove 2` owner 0 has no property at all, although file 1's description is
what the remaining mutations build. The full `remove_exact` for the property maps is therefore false. -/
theorem C10_property_remove_erases_witness :
    aget (remove (build propWitness) 2).propOwners 0 = none ∧
    (aget (build (propWitness.filter fun m => m.1 ≠ 2)).propOwners 0).isSome = true := by decide

/-- **C10 doc properties, partial.** Removing a file that recorded no doc property changes no property map.
(Missing: `remove_exact` for owners contributed by a single file; false for shared owners, see the witness.) -/
theorem C10_property_remove_partial (d : Db) (f : File) (h : aget d.propInFile f = none) :
    (remove d f).props = d.props ∧ (remove d f).propOwners = d.propOwners := by
  simp [remove, removeProps, h]

/-- **C10 for the whole modelled `DbIndex`, outside the open finding** (`C10_full_partial`). For every history
in which each documented owner gets its doc properties from one file only (`privateOwners`, decidable — the exact
complement, inside the model, of the `type-in-several-files/doc-property` finding), `remove f` leaves exactly the state
the other files' mutations build, on every modelled map: per-file, keyed, nested, id-owned, and `get_property` of every
owner. -/
theorem C10_full_partial (ms : List FMut) (f : File) (hp : privateOwners ms = true) :
    let s' := remove (build ms) f
    let t := build (ms.filter fun m => m.1 ≠ f)
    (∀ k, aget s'.perFile k = aget t.perFile k) ∧ (∀ k, aget s'.keyed k = aget t.keyed k) ∧
    (∀ k, aget s'.nested k = aget t.nested k) ∧ (∀ k, aget s'.owned k = aget t.owned k) ∧
    (∀ o, getProp s' o = getProp t o) :=
  ⟨perFile_remove_exact ms f, keyed_remove_exact ms f, nested_remove_exact ms f, owned_remove_exact ms f,
   prop_remove_exact ms f hp⟩

/-- the hypothesis is satisfiable on a history with several files, and fails exactly on the finding's witness -/
example : privateOwners [(1, .prop 0 0 7), (1, .prop 0 1 8), (2, .prop 1 0 9), (2, .keyed 0 5 2)] = true := by decide
example : privateOwners propWitness = false := by decide

/-! Non-vacuity (tests). -/
example : aget (build [(1, .keyed 0 5 1), (2, .keyed 0 5 2), (1, .keyed 0 6 3)]).keyed (0, 5) = some [(1, 1), (2, 2)] := by decide
example : aget (remove (build [(1, .keyed 0 5 1), (2, .keyed 0 5 2), (1, .keyed 0 6 3)]) 1).keyed (0, 5) = some [(2, 2)] := by decide
example : (remove (build [(1, .keyed 0 5 1), (2, .keyed 0 5 2), (1, .keyed 0 6 3)]) 1).keyed.length = 1 := by decide

end Db

namespace Sym

/-- **C10 metatable index: `remove_exact`.** After `DbIndex::remove(f)` (type, member, operator and metatable
indexes) the metatable map has no entry of `f` and every other entry unchanged. -/
theorem C10_metatable_remove_exact (s : S) (f : File) (k : File × Nat) :
    aget (remove s f).metatables k = if k.1 = f then none else aget s.metatables k :=
  metatables_remove s f k

/-- **C10 type index: declaration locations, `remove_exact`** (the partial-class case). After `remove f` the
locations of every type are exactly those the other files' `add_type_decl` calls build: a type declared only in `f` is
gone; a type declared in several files keeps exactly the other files' locations, in order. -/
theorem C10_type_locations_remove_exact (ms : List Mut) (f : File) (t : TId) :
    aget (remove (build ms) f).decls t = aget (build (ms.filter fun m => typeMutFile m ≠ some f)).decls t :=
  decls_remove_exact ms f t

/-- **C10 type index: super types, `remove_exact`**, when `f` adds super types only to types it declares (what
`---@class T: S` does). Removing one declaring file of a partial class keeps the other files' supers exactly — neither
dropping them nor leaving `f`'s behind. -/
theorem C10_type_supers_remove_exact (ms : List Mut) (f : File) (t : TId)
    (hdecl : ∀ v, (f, v) ∈ sups ms t → t ∈ ftypes ms f) :
    aget (remove (build ms) f).supers t = aget (build (ms.filter fun m => typeMutFile m ≠ some f)).supers t :=
  supers_remove_exact ms f t hdecl

/-- **C10 operator index: `remove_exact`** for the `operators` map. -/
theorem C10_operators_remove_exact (ms : List Mut) (f : File) (id : File × Nat) :
    aget (remove (build ms) f).operators id = aget (build (ms.filter fun m => operMutFile m ≠ some f)).operators id :=
  operators_remove_exact ms f id

/-- **C10 member index: `remove_exact`** for the `members` map (whatever `set_member_owner` / `add_member_to_owner`
calls other files made): no member of `f` is left, every other member is unchanged. The owner maps are NOT exact in
general (see the two witnesses below); they are covered by the tie and the oracle. -/
theorem C10_members_remove_exact (ms : List Mut) (f : File) (id : MId) :
    aget (remove (build ms) f).members id = aget (build (ms.filter fun m => memberMutFile m ≠ some f)).members id :=
  members_remove_exact ms f id

/-- **C10 type cache: `remove_exact`** (`LuaTypeIndex::types` with `in_filed_type_owner`; the first `bind_type` of an
owner wins): after `remove f` no cached type of an owner in `f` is left and every other owner's cached type is what
the other files' bindings build. -/
theorem C10_type_cache_remove_exact (ms : List Mut) (f : File) (k : File × Nat) :
    aget (remove (build ms) f).typeCache k = aget (build (ms.filter fun m => bindMutFile m ≠ some f)).typeCache k :=
  cache_remove_exact ms f k

/-- the partial-class scenario of the seeded `LuaTypeIndex::remove` change, inside the model -/
example :
    let ms : List Mut := [.tdecl 0 7 1, .tdecl 1 7 2, .tsuper 1 7 9]
    aget (update (build ms) 1 [.tdecl 1 7 2, .tsuper 1 7 9]).supers 7 = some [(1, 9)] ∧
    aget (remove (build ms) 1).supers 7 = none ∧
    aget (remove (build ms) 1).decls 7 = some [(0, 1)] := by decide

/-- **Witness (open finding `class-bound-to-required-table`).** File 0 defines member (0,1) of its table; the
analysis of file 1 re-owns it to class `T1` (`set_member_owner` + `add_member_to_owner`, both registered under
the member's file 0). Removing file 1 undoes nothing: the member stays owned by `T1` and `owner_members[T1]`
keeps it, although without file 1 it is owned by the table. -/
theorem C10_member_reown_witness :
    aget (remove (build reownHistory) 1).currentOwner (0, 1) = some (.type 1) ∧
    (aget (remove (build reownHistory) 1).ownerMembers (.type 1)).isSome = true ∧
    aget (build (reownHistory.take 1)).currentOwner (0, 1) = some (.elem 0 0) ∧
    aget (build (reownHistory.take 1)).ownerMembers (.type 1) = none := by decide

/-- **Witness (open finding `symbol-declared-in-several-files`, member part).** Two files define the same key
of a global table (`G.x = …`, feature `FileDefine`): the second definition is not recorded under the owner
(`add_member_to_owner` returns early), so after removing the first file the key is gone although the second
file still defines it — a fresh analysis of the second file alone records it. -/
theorem C10_member_define_order_witness :
    let ms : List Mut := [.madd (.glob 0) { id := (0, 0), key := 0, feat := 1 }, .madd (.glob 0) { id := (1, 0), key := 0, feat := 1 }]
    aget (remove (build ms) 0).ownerMembers (.glob 0) = none ∧
    aget (build (ms.drop 1)).ownerMembers (.glob 0) = some [(0, .one (1, 0))] := by decide

end Sym
end Index
