import EmmyVerif.Lemmas.Order
import EmmyVerif.Lemmas.OrderKahn
/-!
# C11 — Analysis results do not depend on file order or hash seeds

The order in which the analysis pipelines visit files is the only channel through which the random
iteration order of the id `HashSet` in `update_files_by_uri` and of the workspace `HashMap` in
`module_analyze` can reach the results of the (sequential, deterministic) per-file analyzers.
Hash iteration order is modelled as an *arbitrary permutation* (`List.Perm`).

*partial*: iteration of hash maps *inside* the analyzers (member maps, reference maps, …) is not modelled;
it is covered by the search only (fresh-process runs of the real checker compared with each other).
-/
namespace Order
open PermLemmas PermModel

/-- **Batch order.** After the fix (`updated_files.sort()`), the vector handed to `update_index` does not
depend on the iteration order of the id hash set. -/
theorem C11_batch_perm_invariant {l₁ l₂ : List FileId} (h : l₁.Perm l₂) :
    batchOrder l₁ = batchOrder l₂ :=
  batchOrder_perm_invariant h

/-- nothing is lost or duplicated by the sort, and the result is ascending in FileId (= registration
order of the files, the one ordering the property allows to matter) -/
theorem C11_batch_sorted_perm (l : List FileId) :
    (batchOrder l).Perm l ∧ (batchOrder l).Pairwise (fun a b => a ≤ b) :=
  ⟨batchOrder_perm l, batchOrder_sorted l⟩

/-- the defect the fix removed: handing over the set's iteration order itself makes the pipeline order
depend on the hash seed (two iteration orders of the same set, different vectors) -/
theorem C11_unsorted_witness :
    ¬ (∀ l₁ l₂ : List FileId, l₁.Perm l₂ → batchOrderUnsorted l₁ = batchOrderUnsorted l₂) := by
  intro h
  have := h [1, 2] [2, 1] (List.Perm.swap 2 1 [])
  simp [batchOrderUnsorted] at this

/-- **Workspace grouping.** The context list built by `module_analyze` does not depend on the iteration
order of the per-workspace hash map (STD first, library/remote by id, main last). -/
theorem C11_contexts_perm_invariant (wsOf : FileId → Ws) (files : List FileId)
    {e₁ e₂ : List (Ws × List FileId)} (h₁ : e₁.Perm (groupAll wsOf files)) (h₂ : e₂.Perm (groupAll wsOf files)) :
    contexts e₁ = contexts e₂ := by
  apply contexts_perm_invariant (h₁.trans h₂.symm)
  have nd : ((groupAll wsOf files).map (fun x => x.1)).Nodup := nodup_keys_groupAll wsOf files
  exact (List.Perm.nodup_iff (h₁.map (fun x => x.1))).mpr nd

/-- every group is analysed exactly once: the contexts are a permutation of the map's entries -/
theorem C11_contexts_complete (e : List (Ws × List FileId)) : (contexts e).Perm e :=
  contexts_perm e

/-- **C11 order_perm_invariant.** For every environment (workspace of each file, meta set, dependency
relation), any two iteration orders `l₁ ~ l₂` of the updated-id hash set and any two iteration behaviours
of the grouping hash map produce the same analysis schedule: same contexts in the same order, same
`tree_list` order for the decl/doc/flow/unresolve pipelines, same `get_best_analysis_order` for the lua
pipeline. -/
theorem C11_order_perm_invariant (env : Env)
    (π₁ π₂ : List (Ws × List FileId) → List (Ws × List FileId))
    (hπ₁ : ∀ g, (π₁ g).Perm g) (hπ₂ : ∀ g, (π₂ g).Perm g)
    {l₁ l₂ : List FileId} (h : l₁.Perm l₂) :
    pipelineOrder env π₁ l₁ = pipelineOrder env π₂ l₂ := by
  unfold pipelineOrder schedule
  rw [C11_batch_perm_invariant h]
  rw [C11_contexts_perm_invariant env.wsOf (batchOrder l₂) (hπ₁ _) (hπ₂ _)]

/-- **Tie-breaks are deterministic.** The comparator used for the ready queue (meta files first, then
FileId) is a total order: transitive, total and antisymmetric … -/
theorem C11_tie_total_order (metas : List FileId) :
    (∀ a b c, tieLe metas a b = true → tieLe metas b c = true → tieLe metas a c = true) ∧
    (∀ a b, (tieLe metas a b || tieLe metas b a) = true) ∧
    (∀ a b, tieLe metas a b = true → tieLe metas b a = true → a = b) :=
  ⟨tieLe_trans metas, tieLe_total metas, tieLe_antisymm metas⟩

/-- … hence the order in which ready files enter the queue does not depend on the order in which the
scan / the adjacency lists produced them. -/
theorem C11_tie_sort_perm_invariant (metas : List FileId) {l₁ l₂ : List FileId} (h : l₁.Perm l₂) :
    isort (tieLe metas) l₁ = isort (tieLe metas) l₂ :=
  tieSort_perm_invariant metas h

/-- **best_order: nothing lost, nothing twice.** For every list of distinct file ids, meta set and dependency
relation (dependency sets without repetition — they are hash sets), `get_best_analysis_order` returns a
permutation of its input: every file is analysed exactly once, cycles included. -/
theorem C11_best_order_perm (ids metas : List Nat) (deps : Deps) (hnd : ids.Nodup)
    (hdn : ∀ y, (depsOf deps y).Nodup) : (bestOrder ids metas deps).Perm ids :=
  bestOrder_perm ids metas deps hnd hdn

/-- **best_order_topological.** The result is `R ++ tail`: every file of `R` is placed after *all* its
dependencies that are in the list, and `tail` holds exactly the files with a dependency that could never be
emitted (files on or behind a dependency cycle). Proved through the loop invariant "the in-degree table
always equals the number of in-list dependencies not yet emitted" (`kahn_inv`). -/
theorem C11_best_order_topological (ids metas : List Nat) (deps : Deps) (hnd : ids.Nodup)
    (hdn : ∀ y, (depsOf deps y).Nodup) (h2 : 2 ≤ ids.length) :
    ∃ R tail, bestOrder ids metas deps = R ++ tail ∧
      (∀ pre v post, R = pre ++ v :: post → ∀ d ∈ depsOf deps v, d ∈ ids → d ∈ pre) ∧
      (∀ x, x ∈ tail ↔ (x ∈ ids ∧ ∃ d ∈ depsOf deps x, d ∈ ids ∧ d ∉ R)) :=
  bestOrder_topological ids metas deps hnd hdn (by omega)

/-! Non-vacuity (tests, labelled as such): a concrete environment with a cycle, a meta file and three
workspaces; two iteration orders; reversed map iteration. -/
def exEnv : Env := ⟨fun f => if f < 2 then 0 else if f = 7 then 3 else 1, [5], [(2, [3]), (3, [4]), (4, [2]), (6, [5, 2])]⟩

example : pipelineOrder exEnv id [6, 2, 0, 7, 3, 5, 1, 4] = pipelineOrder exEnv List.reverse [4, 1, 5, 3, 7, 0, 2, 6] := by decide
example : pipelineOrder exEnv id [6, 2, 0, 7, 3, 5, 1, 4] =
    [⟨0, [0, 1], [0, 1]⟩, ⟨3, [7], [7]⟩, ⟨1, [2, 3, 4, 5, 6], [5, 2, 3, 4, 6]⟩] := by decide
example : bestOrder [1, 2, 3] [] [(1, [2, 3]), (2, [3])] = [3, 2, 1] := by decide
example : bestOrder [1, 2, 3, 4] [2, 4] [] = [2, 4, 1, 3] := by decide

end Order
