import EmmyVerif.Model.TyGeneric
/-!
# C18 — Generic functions return their instantiated argument types

Model: `TyM.tplMatch` / `TyM.tplMatchArgs` (`tpl_pattern_match`), `TyM.instantiate`
(`instantiate_type_generic` with literal widening of the candidates), tied to the inferred type of
`local r = f(arg…)` by the correspondence run of `./check C18`.
Partial (by design of the property's scope): overload resolution, conditional / mapped generics,
variadics and constraints are outside the model.
-/
namespace TyM

/-- every candidate recorded in `s` is the one `σ` prescribes -/
def Agrees (s : Subst) (σ : Nat → GTy) : Prop := ∀ i a, s.get i = some a → a = σ i

theorem Subst.get_append_of_none (s : Subst) (i j : Nat) (a : GTy) (h : s.get i = none) :
    (s ++ [(i, a)]).get j = if j = i then some a else s.get j := by
  unfold Subst.get at *
  rw [List.find?_append]
  by_cases hji : j = i
  · subst hji
    have : s.find? (fun p => decide (p.1 = j)) = none := by
      cases hf : s.find? (fun p => decide (p.1 = j)) with
      | none => rfl
      | some x => simp [hf] at h
    simp [this]
  · have hij : ¬ i = j := fun h' => hji h'.symm
    cases hf : s.find? (fun p => decide (p.1 = j)) with
    | none => simp [hji, hij, List.find?]
    | some x => simp [hji]

theorem infer_agrees (s : Subst) (σ : Nat → GTy) (i : Nat) (h : Agrees s σ) :
    Agrees (s.infer i (σ i)) σ := by
  unfold Subst.infer
  cases hg : s.get i with
  | some _ => exact h
  | none =>
    intro j a hj
    rw [Subst.get_append_of_none s i j (σ i) hg] at hj
    by_cases hji : j = i
    · simp [hji] at hj; subst hji; exact hj.symm
    · simp [hji] at hj; exact h j a hj

theorem infer_bound (s : Subst) (i : Nat) (a : GTy) : ((s.infer i a).get i).isSome = true := by
  unfold Subst.infer
  cases hg : s.get i with
  | some _ => simp [hg]
  | none => simp [Subst.get_append_of_none s i i a hg]

theorem infer_mono (s : Subst) (i j : Nat) (a : GTy) (h : (s.get j).isSome = true) :
    ((s.infer i a).get j).isSome = true := by
  unfold Subst.infer
  cases hg : s.get i with
  | some _ => simpa [hg] using h
  | none =>
    rw [Subst.get_append_of_none s i j a hg]
    by_cases hji : j = i <;> simp [hji, h]

/-- matching a pattern against its own instance records exactly `σ` on the pattern's variables and
keeps what was recorded before -/
theorem tplMatch_instance (σ : Nat → GTy) (p : GTy) :
    ∀ s, Agrees s σ →
      Agrees (tplMatch p (gsubst σ p) s) σ ∧
      (∀ i ∈ vars p, ((tplMatch p (gsubst σ p) s).get i).isSome = true) ∧
      (∀ j, (s.get j).isSome = true → ((tplMatch p (gsubst σ p) s).get j).isSome = true) := by
  induction p with
  | base t => intro s h; simp [tplMatch, gsubst, vars, h]
  | v i =>
    intro s h
    simp only [tplMatch, gsubst, vars, List.mem_singleton]
    refine ⟨infer_agrees s σ i h, ?_, fun j hj => infer_mono s i j _ hj⟩
    intro j hj; subst hj; exact infer_bound s j _
  | array t ih =>
    intro s h
    simpa [tplMatch, gsubst, vars] using ih s h
  | tgen k v ihk ihv =>
    intro s h
    obtain ⟨a1, b1, m1⟩ := ihk s h
    obtain ⟨a2, b2, m2⟩ := ihv _ a1
    simp only [tplMatch, gsubst, vars, List.mem_append]
    refine ⟨a2, ?_, fun j hj => m2 j (m1 j hj)⟩
    rintro i (hi | hi)
    · exact m2 i (b1 i hi)
    · exact b2 i hi
  | opt t ih =>
    intro s h
    simpa [tplMatch, gsubst, vars, stripNil] using ih s h
  | fn r ih =>
    intro s h
    simpa [tplMatch, gsubst, vars] using ih s h
  | tup a b iha ihb =>
    intro s h
    obtain ⟨a1, b1, m1⟩ := iha s h
    obtain ⟨a2, b2, m2⟩ := ihb _ a1
    simp only [tplMatch, gsubst, vars, List.mem_append]
    refine ⟨a2, ?_, fun j hj => m2 j (m1 j hj)⟩
    rintro i (hi | hi)
    · exact m2 i (b1 i hi)
    · exact b2 i hi
  | tup3 a b c iha ihb ihc =>
    intro s h
    obtain ⟨a1, b1, m1⟩ := iha s h
    obtain ⟨a2, b2, m2⟩ := ihb _ a1
    obtain ⟨a3, b3, m3⟩ := ihc _ a2
    simp only [tplMatch, gsubst, vars, List.mem_append]
    refine ⟨a3, ?_, fun j hj => m3 j (m2 j (m1 j hj))⟩
    rintro i ((hi | hi) | hi)
    · exact m3 i (m2 i (b1 i hi))
    · exact m3 i (b2 i hi)
    · exact b3 i hi
  | obj2 k1 a k2 b iha ihb =>
    intro s h
    obtain ⟨a1, b1, m1⟩ := iha s h
    obtain ⟨a2, b2, m2⟩ := ihb _ a1
    simp only [tplMatch, gsubst, vars, List.mem_append, and_self, if_true]
    refine ⟨a2, ?_, fun j hj => m2 j (m1 j hj)⟩
    rintro i (hi | hi)
    · exact m2 i (b1 i hi)
    · exact b2 i hi
  | fn1 pp pr ihp ihr =>
    intro s h
    obtain ⟨a1, b1, m1⟩ := ihp s h
    obtain ⟨a2, b2, m2⟩ := ihr _ a1
    simp only [tplMatch, gsubst, vars, List.mem_append]
    refine ⟨a2, ?_, fun j hj => m2 j (m1 j hj)⟩
    rintro i (hi | hi)
    · exact m2 i (b1 i hi)
    · exact b2 i hi

theorem tplMatchArgs_instance (σ : Nat → GTy) (ps : List GTy) :
    ∀ s, Agrees s σ →
      Agrees (tplMatchArgs ps (ps.map (gsubst σ)) s) σ ∧
      (∀ p ∈ ps, ∀ i ∈ vars p, ((tplMatchArgs ps (ps.map (gsubst σ)) s).get i).isSome = true) ∧
      (∀ j, (s.get j).isSome = true → ((tplMatchArgs ps (ps.map (gsubst σ)) s).get j).isSome = true) := by
  induction ps with
  | nil => intro s h; simp [tplMatchArgs, h]
  | cons p ps ih =>
    intro s h
    obtain ⟨a1, b1, m1⟩ := tplMatch_instance σ p s h
    obtain ⟨a2, b2, m2⟩ := ih _ a1
    simp only [List.map_cons, tplMatchArgs]
    refine ⟨a2, ?_, fun j hj => m2 j (m1 j hj)⟩
    intro q hq i hi
    rcases List.mem_cons.mp hq with rfl | hq
    · exact m2 i (b1 i hi)
    · exact b2 q hq i hi

/-- the expected result: the declared return type with every template parameter replaced by the
(literal-widened) argument component -/
def gsubstW (σ : Nat → GTy) : GTy → GTy := gsubst (fun i => widen (σ i))

theorem instantiate_of_agrees (σ : Nat → GTy) (s : Subst) (h : Agrees s σ) (r : GTy)
    (hr : ∀ i ∈ vars r, (s.get i).isSome = true) : instantiate r s = gsubstW σ r := by
  induction r with
  | base t => rfl
  | v i =>
    have := hr i (by simp [vars])
    cases hg : s.get i with
    | none => simp [hg] at this
    | some a => simp [instantiate, gsubstW, gsubst, hg, h i a hg]
  | array t ih => simp [instantiate, gsubstW, gsubst] at *; exact ih hr
  | tgen k v ihk ihv =>
    simp only [instantiate, gsubstW, gsubst, vars, List.mem_append] at *
    rw [ihk (fun i hi => hr i (.inl hi)), ihv (fun i hi => hr i (.inr hi))]
  | opt t ih => simp [instantiate, gsubstW, gsubst] at *; exact ih hr
  | fn t ih => simp [instantiate, gsubstW, gsubst] at *; exact ih hr
  | tup a b iha ihb =>
    simp only [instantiate, gsubstW, gsubst, vars, List.mem_append] at *
    rw [iha (fun i hi => hr i (.inl hi)), ihb (fun i hi => hr i (.inr hi))]
  | tup3 a b c iha ihb ihc =>
    simp only [instantiate, gsubstW, gsubst, vars, List.mem_append] at *
    rw [iha (fun i hi => hr i (.inl (.inl hi))), ihb (fun i hi => hr i (.inl (.inr hi))),
      ihc (fun i hi => hr i (.inr hi))]
  | obj2 k1 a k2 b iha ihb =>
    simp only [instantiate, gsubstW, gsubst, vars, List.mem_append] at *
    rw [iha (fun i hi => hr i (.inl hi)), ihb (fun i hi => hr i (.inr hi))]
  | fn1 p r ihp ihr =>
    simp only [instantiate, gsubstW, gsubst, vars, List.mem_append] at *
    rw [ihp (fun i hi => hr i (.inl hi)), ihr (fun i hi => hr i (.inr hi))]

/-- **C18 instantiate ∘ match.** For every parameter list `ps`, every assignment `σ` of argument
components and every return type `r` that only mentions template parameters occurring in `ps`:
calling with the instances `ps[σ]` infers `r[widen σ]`.
(All of the template family: identity, `T[]`, nested arrays, pair, `table<K,V>` and its partially
concrete forms `table<string,T>` / `table<T,boolean>`, tuples `[T, string]` / `[T,U,V]`, records
`{x: T, y: integer}`, `fun(a: T): integer`, `T?`, `fun(): T`, and any nesting of these.
For `T?` the instance is `opt (σ T)`: the component itself is what remains once the argument's `nil`
is taken off — an argument component that is itself optional cannot be told apart from that.) -/
theorem C18_instantiate_match (σ : Nat → GTy) (ps : List GTy) (r : GTy)
    (hr : ∀ i ∈ vars r, ∃ p ∈ ps, i ∈ vars p) :
    inferCall ps (ps.map (gsubst σ)) r = gsubstW σ r := by
  obtain ⟨a, b, _⟩ := tplMatchArgs_instance σ ps [] (by intro i a h; simp [Subst.get] at h)
  exact instantiate_of_agrees σ _ a r (fun i hi => by
    obtain ⟨p, hp', hi'⟩ := hr i hi
    exact b p hp' i hi')

/-- `---@param a T?` / `---@return T` with an optional argument: the `nil` is consumed by the pattern
(finding `C18-optional-param`, fixed) -/
theorem C18_optional_param :
    inferCall [.opt (.v 0)] [.opt (.base (.prim .string))] (.v 0) = .base (.prim .string) ∧
    inferCall [.opt (.v 0)] [.base (Ty.mk [.lit (.docStr "a".toList), Ty.tNil])] (.v 0) = .base (.prim .string) := by
  decide

/-! ## several values from the last argument -/

theorem expandArgs_ones_multi (ps : List GTy) (singles vals : List GTy) :
    expandArgs ps (singles.map Arg.one ++ [Arg.multi vals]) = singles ++ vals := by
  induction singles generalizing ps with
  | nil => simp [expandArgs]
  | cons g gs ih =>
    cases hgs : gs.map Arg.one ++ [Arg.multi vals] with
    | nil => simp at hgs
    | cons x xs =>
      simp only [List.map_cons, List.cons_append, hgs, expandArgs]
      rw [← hgs, ih]

/-- **the last argument expands.** When the last argument is a call returning `vals` and the plain
arguments before it together with `vals` are the instances of the parameters, the call infers the
declared return type with the components substituted — the returned values line up with the
parameters *after* the plain arguments (`pair(1, two())` binds `U` to the first value of `two()`). -/
theorem C18_multi_return_last (σ : Nat → GTy) (ps : List GTy) (r : GTy) (singles vals : List GTy)
    (hinst : singles ++ vals = ps.map (gsubst σ)) (hr : ∀ i ∈ vars r, ∃ p ∈ ps, i ∈ vars p) :
    inferCallA ps (singles.map Arg.one ++ [Arg.multi vals]) r = gsubstW σ r := by
  unfold inferCallA
  rw [expandArgs_ones_multi, hinst]
  exact C18_instantiate_match σ ps r hr

/-- a call that is not the last argument contributes only its first value -/
theorem C18_multi_return_not_last :
    inferCallA [.v 0, .v 1]
      [.multi [.base (.prim .string), .base (.prim .boolean)], .one (.base (.prim .integer))]
      (.tgen (.v 0) (.v 1)) = .tgen (.base (.prim .string)) (.base (.prim .integer)) := by
  decide

/-! Non-vacuity (tests, labelled as such). -/
example : inferCallA [.v 0, .v 1]
    [.one (.base (.lit (.intC 1))), .multi [.base (.prim .string), .base (.prim .boolean)]]
    (.tgen (.v 0) (.v 1)) = .tgen (.base (.prim .integer)) (.base (.prim .string)) := by decide
example : inferCall [.v 0] [.base (.lit (.intC 1))] (.tgen (.base (.prim .string)) (.v 0))
    = .tgen (.base (.prim .string)) (.base (.prim .integer)) := by decide
example : inferCall [.tup (.v 0) (.base (.prim .string))] [.tup (.base (.ref "A".toList)) (.base (.prim .string))]
    (.obj2 "x".toList (.v 0) "y".toList (.base (.prim .integer)))
    = .obj2 "x".toList (.base (.ref "A".toList)) "y".toList (.base (.prim .integer)) := by decide
example : inferCall [.array (.v 0)] [.array (.base (.lit (.docInt 2)))] (.v 0) = .base (.prim .integer) := by decide
example : inferCall [.v 0, .v 1] [.base (.ref "A".toList), .array (.base (.prim .string))] (.tgen (.v 0) (.v 1))
    = .tgen (.base (.ref "A".toList)) (.array (.base (.prim .string))) := by decide
example : inferCall [.fn (.v 0)] [.fn (.base (.prim .number))] (.array (.v 0)) = .array (.base (.prim .number)) := by decide

end TyM
