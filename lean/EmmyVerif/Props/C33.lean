import EmmyVerif.Lemmas.IndexModule
import EmmyVerif.Lemmas.IndexPattern
import EmmyVerif.Lemmas.IndexRule
/-!
# C33 — require paths resolve to the files the configured patterns select

Statements about the executable model `Index.Module` of `LuaModuleIndex` (module/mod.rs): for every
configuration, every history of `add_module_by_path` / `add_module_by_module_path` / `remove` /
`set_module_visibility` and every require string. The spec state `specLive cfg ops` is the
insertion-ordered list of the live files' (file, module path, workspace, hidden); `specFind` is the
resolver over that list (exact → moduleMap rewrite → fuzzy suffix, no trie, no maps).
The model is tied to the Rust by the correspondence run of `./check C33`.
-/
namespace Index.Module

/-- **C33 refinement.** After any history, `find_module` over the trie / `file_module_map` /
fuzzy-name map returns exactly what the spec resolver returns over the set of live
(file, module path) pairs. -/
theorem C33_find_refines_spec (cfg : Config) (ops : List Op) (q : List Char) :
    find cfg (run cfg ops) q = specFind cfg (specLive cfg ops) q :=
  find_eq_spec (inv_run cfg ops) q

/-- **C33 resolution is a function of the live set.** Two histories that leave the same live
(file, module path) list — whatever was added, re-added or removed on the way — resolve every require
string identically. -/
theorem C33_history_independent (cfg : Config) (ops₁ ops₂ : List Op) (q : List Char)
    (h : specLive cfg ops₁ = specLive cfg ops₂) :
    find cfg (run cfg ops₁) q = find cfg (run cfg ops₂) q := by
  rw [C33_find_refines_spec, C33_find_refines_spec, h]

/-- **C33 exact beats fuzzy, deterministic among duplicates.** When some live file's module path is
exactly the (separator-normalised) require path, the result is one of those files, never a fuzzy or
rewritten candidate: with a single such file that file; with several the earliest-added one that is
not hidden, or the earliest-added one when all are hidden. -/
theorem C33_exact_choice (cfg : Config) (ops : List Op) (q : List Char)
    (h : ∃ e ∈ specLive cfg ops, e.path = splitOn '.' (normSep q)) :
    let c := (specLive cfg ops).filter fun i => i.path = splitOn '.' (normSep q)
    find cfg (run cfg ops) q =
        (if 1 < c.length then (c.find? fun i => !i.hidden) <|> c.head? else c.head?) ∧
      ∃ i, find cfg (run cfg ops) q = some i ∧ i ∈ specLive cfg ops ∧ i.path = splitOn '.' (normSep q) := by
  intro c
  rw [C33_find_refines_spec]
  obtain ⟨h1, h2⟩ := specFind_exact (cfg := cfg) h
  refine ⟨h1, ?_⟩
  cases he : specExact (specLive cfg ops) (splitOn '.' (normSep q)) with
  | none => rw [he] at h2; cases h2
  | some i =>
    obtain ⟨hm, hp⟩ := specExact_some he
    exact ⟨i, by rw [h1, he], hm, hp⟩

/-- **C33 results are live and match.** Whatever `find_module` returns is a live file whose module
path equals the require path or its moduleMap rewrite, or — only with fuzzy matching enabled —
ends with it at a segment boundary. -/
theorem C33_result_sound (cfg : Config) (ops : List Op) (q : List Char) (i : Info)
    (h : find cfg (run cfg ops) q = some i) :
    i ∈ specLive cfg ops ∧
      ∃ t ∈ targets cfg q, i.path = t ∨ (cfg.fuzzy = true ∧ ∃ n, leading i.path t = some n) := by
  rw [C33_find_refines_spec] at h
  exact specFind_some h

/-- **C33 removal makes a file unresolvable.** After `remove f`, no require string resolves to `f`. -/
theorem C33_remove_unresolvable (cfg : Config) (ops : List Op) (f : Nat) (q : List Char) (i : Info)
    (h : find cfg (run cfg (ops ++ [Op.remove f])) q = some i) : i.file ≠ f := by
  obtain ⟨hm, _⟩ := C33_result_sound cfg _ q i h
  rw [specLive_append] at hm
  exact mem_specRemove hm

/-- **C33 unresolvable when nothing matches.** If no live module path equals or ends (segment-wise)
with the require path or its rewrite, `find_module` returns nothing — in particular after removing
the only matching file. -/
theorem C33_no_match_none (cfg : Config) (ops : List Op) (q : List Char)
    (h : ∀ e ∈ specLive cfg ops, ∀ t ∈ targets cfg q, leading e.path t = none) :
    find cfg (run cfg ops) q = none := by
  cases hf : find cfg (run cfg ops) q with
  | none => rfl
  | some i =>
    obtain ⟨hm, t, ht, hor⟩ := C33_result_sound cfg ops q i hf
    have hn := h i hm t ht
    rcases hor with hp | ⟨_, n, hl⟩
    · rw [hp] at hn; simp [leading] at hn
    · rw [hn] at hl; cases hl

/-- **C33 single-`?` templates.** A configured pattern `pre?suf` (`?.lua`, `?/init.lua`, `src/?.lua` …)
selects exactly the paths `pre ++ m ++ suf` and yields the module path `m` (no line break in `m`). -/
theorem C33_single_template (pre suf path mid : List Char) :
    matchPattern [pre, suf] path = some mid ↔
      (path = pre ++ mid ++ suf ∧ mid.all (fun c => c ≠ '\n') = true) :=
  matchPattern_single pre suf path mid

/-- the default patterns are tried longest template first -/
theorem C33_default_pattern_order :
    compilePatterns ["?.lua".toList, "?/init.lua".toList] = [[[], "/init.lua".toList], [[], ".lua".toList]] := by
  decide

/-- **C33 `?/init.lua` beats `?.lua`.** With the default patterns `x/init.lua` is module `x`, not `x/init`. -/
theorem C33_init_wins (x : List Char) (hx : x.all (fun c => c ≠ '\n') = true) :
    matchPatterns (compilePatterns ["?.lua".toList, "?/init.lua".toList]) (x ++ "/init.lua".toList) = some x := by
  rw [C33_default_pattern_order]
  simp only [matchPatterns]
  have : matchPattern [[], "/init.lua".toList] (x ++ "/init.lua".toList) = some x :=
    (matchPattern_single [] _ _ x).mpr ⟨by simp, hx⟩
  rw [this]

/-- **C33 moduleMap rule fragment.** A rule `^pre(.*)suf$ → rpre${1}rsuf` rewrites exactly the strings
`pre ++ m ++ suf` (no line break in `m`) to `rpre ++ m ++ rsuf` and leaves every other string unchanged. -/
theorem C33_rule_rewrites (r : Rule) (s : List Char) :
    (∀ mid, mid.all (fun c => c ≠ '\n') = true → applyRule r (r.pre ++ mid ++ r.suf) = r.rpre ++ mid ++ r.rsuf) ∧
    (applyRule r s ≠ s → ∃ mid, s = r.pre ++ mid ++ r.suf ∧ mid.all (fun c => c ≠ '\n') = true ∧
      applyRule r s = r.rpre ++ mid ++ r.rsuf) :=
  ⟨fun mid hm => applyRule_match r mid hm, applyRule_sound r s⟩

/-- **C33 moduleMap rewrite is tried before fuzzy.** With one rule, a require string `pre ++ m ++ suf` that matches
no live module exactly resolves to a live module whose path is the rewritten string `rpre ++ m ++ rsuf`, whether or
not fuzzy lookup is enabled. -/
theorem C33_mapped_exact (cfg : Config) (ops : List Op) (q : List Char) (r : Rule) (mid : List Char)
    (hr : cfg.rules = [r]) (hq : normSep q = r.pre ++ mid ++ r.suf) (hm : mid.all (fun c => c ≠ '\n') = true)
    (hne : r.rpre ++ mid ++ r.rsuf ≠ normSep q)
    (hno : ∀ e ∈ specLive cfg ops, e.path ≠ splitOn '.' (normSep q))
    (hlive : ∃ e ∈ specLive cfg ops, e.path = splitOn '.' (r.rpre ++ mid ++ r.rsuf)) :
    ∃ i, find cfg (run cfg ops) q = some i ∧ i ∈ specLive cfg ops ∧ i.path = splitOn '.' (r.rpre ++ mid ++ r.rsuf) := by
  rw [C33_find_refines_spec]
  have hrw : replacePath cfg.rules (normSep q) = r.rpre ++ mid ++ r.rsuf := by
    rw [hr, hq]; simp only [replacePath, List.foldl_cons, List.foldl_nil]; exact applyRule_match r mid hm
  have hmq : mappedQuery cfg.rules (normSep q) = some (splitOn '.' (r.rpre ++ mid ++ r.rsuf)) := by
    unfold mappedQuery
    rw [hrw]
    have : cfg.rules.isEmpty = false := by rw [hr]; rfl
    rw [this]
    simp only [Bool.false_eq_true, if_false]
    rw [if_neg hne]
  have hex : specExact (specLive cfg ops) (splitOn '.' (normSep q)) = none := specExact_none_iff.mpr hno
  cases hme : specExact (specLive cfg ops) (splitOn '.' (r.rpre ++ mid ++ r.rsuf)) with
  | none =>
    obtain ⟨e, he, hp⟩ := hlive
    exact absurd hp (specExact_none_iff.mp hme e he)
  | some i =>
    obtain ⟨h1, h2⟩ := specExact_some hme
    refine ⟨i, ?_, h1, h2⟩
    unfold specFind findWith
    simp only [hex, hmq, Option.bind_some, hme]

/-- **C33 several workspace roots.** When no workspace root is the file itself, the module path chosen by
`extract_module_path` is offered by one of the workspaces that contain the file and match a pattern, and it is a
shortest one (in bytes) among everything any workspace offers — independent of how many other roots also match. -/
theorem C33_extract_minimal (pats : List Pattern) (wss : List Workspace) (path mp : List Char) (id : Nat)
    (hroot : ∀ w ∈ wss, stripPrefix w.root (splitOn '/' path) ≠ some [])
    (h : extractModulePath pats wss path = some (mp, id)) :
    (∃ w ∈ wss, Offers pats (splitOn '/' path) w mp) ∧
    ∀ w ∈ wss, ∀ mp', Offers pats (splitOn '/' path) w mp' → utf8Len mp ≤ utf8Len mp' := by
  obtain ⟨_, h2, h3⟩ := extractGo_minimal pats (splitOn '/' path) wss hroot none mp id h
  refine ⟨?_, h2⟩
  rcases h3 with ⟨i, hi⟩ | h3
  · cases hi
  · exact h3

/-! Non-vacuity and behaviour on concrete instances (tests, labelled as such). -/

def exCfg : Config :=
  { patterns := ["?.lua".toList, "?/init.lua".toList]
    workspaces := [{ root := ["".toList, "r".toList], pkg := none, id := 1 }]
    rules := []
    fuzzy := true }

def exOps : List Op :=
  [.add 1 "/r/plugin/ts.lua".toList, .add 2 "/r/lua/ts.lua".toList, .add 3 "/r/lua/ts/init.lua".toList]

-- `?/init.lua` (longest template) wins over `?.lua`; duplicates: earliest added; fuzzy: fewest leading segments, then name
example : (find exCfg (run exCfg exOps) "lua.ts".toList).map (·.file) = some 2 := by decide
example : (find exCfg (run exCfg exOps) "ts".toList).map (·.file) = some 2 := by decide
example : (find exCfg (run exCfg (exOps ++ [.hide 2 true])) "lua/ts".toList).map (·.file) = some 3 := by decide
example : (find exCfg (run exCfg (exOps ++ [.remove 2, .remove 3])) "ts".toList).map (·.file) = some 1 := by decide
example : find exCfg (run exCfg (exOps ++ [.remove 2, .remove 3, .remove 1])) "ts".toList = none := by decide
-- the hypothesis of `C33_exact_choice` is satisfiable
example : ∃ e ∈ specLive exCfg exOps, e.path = splitOn '.' (normSep "lua.ts".toList) := by decide
-- after the fix `remove` leaves no node and no fuzzy entry behind
example : (run exCfg (exOps ++ [.remove 2, .remove 3, .remove 1])).nodes.length = 1 := by decide
example : (run exCfg (exOps ++ [.remove 2, .remove 3, .remove 1])).fuzzy = [] := by decide

end Index.Module
