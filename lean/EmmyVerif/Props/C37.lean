import EmmyVerif.Lemmas.Markup
/-!
# C37 — Doc-comment markup highlighting is total and in bounds

Theorems, for all token lists / texts / cursor positions / emit sequences, about the model `Markup` of
`desc_to_lines`, `ResultContainer::emit_range`, `sort_result` and the `Reader` range arithmetic
(crates/emmylua_parser_desc/src/util.rs, lib.rs; emmylua_parser/src/text/reader.rs):

* every line handed to the flavour parsers lies inside the description (`C37_lines_in_bounds`);
* a reader over such a line only ever yields sub-ranges of it (`C37_reader_range_in_line`);
* whatever sub-ranges of the description a flavour parser emits, in whatever order and with whatever
  kinds, the final output (`sort_result` of the `emit_range` accumulation) consists of items inside the
  description and is sorted (`C37_output_in_bounds_sorted`).
The Markdown / MyST / RST block and inline grammars are not modelled (search only): C37 is partial —
totality (no panic) of those grammars is established by the oracle run, not by a theorem.
-/
namespace C37
open Markup

/-- **C37 lines_in_bounds.** For every text (`q` answers the text questions arbitrarily), every token list
whose tokens lie in `[lo, hi]` (the description together with the comment-start token before it) and every
cursor: each line `desc_to_lines` returns is the literal `SourceRange::EMPTY` or lies in `[lo, hi]`. -/
theorem C37_lines_in_bounds (q : TextQ) (lo hi : Nat) (toks : List Tok) (cursor : Option Nat)
    (ht : ∀ t ∈ toks, t.Ok lo hi) : ∀ l ∈ descToLines q toks cursor, LineOk lo hi l :=
  descToLines_ok q lo hi toks cursor ht

/-- satisfiable and non-trivial: `--- ab` ⏎ `---  c` ⏎ yields the two dedented lines -/
example :
    descToLines (textQ "--- ab\n---  c\n".toList)
      [⟨.start 3, ⟨0, 4⟩⟩, ⟨.detail, ⟨4, 2⟩⟩, ⟨.eol, ⟨6, 1⟩⟩, ⟨.start 3, ⟨7, 4⟩⟩, ⟨.detail, ⟨11, 2⟩⟩, ⟨.eol, ⟨13, 1⟩⟩] none
      = [⟨4, 2⟩, ⟨11, 2⟩] := by decide

/-- the cursor invariant of `Reader` -/
def Cursor.Inv (c : Cursor) : Prop := c.lo ≤ c.buf ∧ c.buf ≤ c.pos ∧ c.pos ≤ c.hi

/-- **C37 reader_range_in_line.** A reader created over a line keeps `lo ≤ buf ≤ pos ≤ hi` under `bump`
(any char width) and `reset_buff`, hence `current_range` is always a sub-range of the line. -/
theorem C37_reader_range_in_line :
    (∀ r : Range, Cursor.Inv (Cursor.new r)) ∧
    (∀ c n, Cursor.Inv c → Cursor.Inv (c.bump n)) ∧
    (∀ c, Cursor.Inv c → Cursor.Inv c.resetBuff) ∧
    (∀ c, Cursor.Inv c → c.currentRange.Within c.lo c.hi) := by
  refine ⟨?_, ?_, ?_, ?_⟩
  · intro r; simp [Cursor.Inv, Cursor.new, Range.stop]
  · intro c n h
    unfold Cursor.bump
    split
    · simp only [Cursor.Inv] at *; omega
    · exact h
  · intro c h; simp only [Cursor.Inv, Cursor.resetBuff] at *; omega
  · intro c h; simp only [Cursor.Inv, Cursor.currentRange, Range.Within, Range.stop] at *; omega

/-- **C37 emit_in_bounds.** `emit_range` (append or merge into the last item) keeps every item inside
`[lo, hi]` when the emitted range is. -/
theorem C37_emit_in_bounds (lo hi : Nat) (cursor : Option Nat) (items : List Item) (r : Range) (kind : Nat)
    (hitems : ∀ i ∈ items, i.Within lo hi) (hr : r.Within lo hi) :
    ∀ i ∈ emit cursor items r kind, i.Within lo hi :=
  emit_ok lo hi cursor items r kind hitems hr

/-- **C37 sorted.** `sort_result` returns a permutation of its input that is sorted by
(start ascending, longer first, scopes first); in particular starts are non-decreasing. -/
theorem C37_sorted (items : List Item) :
    (sortResult items).Pairwise (fun a b => keyLe a b = true) ∧ (sortResult items).Perm items ∧
    (sortResult items).Pairwise (fun a b => a.range.start ≤ b.range.start) := by
  have hs : (sortResult items).Pairwise (fun a b => keyLe a b = true) :=
    List.pairwise_mergeSort (le := keyLe) (fun a b c h1 h2 => keyLe_trans a b c h1 h2) keyLe_total items
  refine ⟨hs, List.mergeSort_perm items keyLe, ?_⟩
  refine hs.imp ?_
  intro a b h
  rw [keyLe_iff] at h
  omega

/-- **C37 output_in_bounds_sorted.** Whatever a flavour parser emits — any sequence of (range, kind) with
ranges inside `[lo, hi]`, under any cursor — the value `parse` returns (`sort_result` of the accumulated
`emit_range` results) has all items inside `[lo, hi]` and is sorted. -/
theorem C37_output_in_bounds_sorted (lo hi : Nat) (cursor : Option Nat) (es : List (Range × Nat))
    (he : ∀ e ∈ es, e.1.Within lo hi) :
    (∀ i ∈ sortResult (runEmits cursor es), i.Within lo hi) ∧
    (sortResult (runEmits cursor es)).Pairwise (fun a b => keyLe a b = true) := by
  refine ⟨?_, (C37_sorted _).1⟩
  intro i hi'
  have : i ∈ runEmits cursor es := by
    simpa [sortResult] using hi'
  exact runEmits_ok lo hi cursor es he i this

/-- non-trivial instance: touching items of the same kind merge, an empty range is dropped -/
example : runEmits none [(⟨3, 2⟩, 4), (⟨5, 1⟩, 4), (⟨6, 0⟩, 2), (⟨0, 9⟩, 0)] =
    [⟨⟨3, 3⟩, 4⟩, ⟨⟨0, 9⟩, 0⟩] := by decide

end C37
