import EmmyVerif.Lemmas.Sched
import EmmyVerif.Gen.SchedDispatch
/-!
# C27 — Document notifications take effect in message order

Model: `Sched` (main loop taking messages in order; inline handlers run to completion before the next
message; spawned handlers interleave arbitrarily; each handler = the list of its lock-protected sections).

* `C27_last_writer_wins` — for **every** notification list over any uris, every initial store and
  **every** schedule of the main loop and the spawned tasks: if the three document notifications
  (`didOpen`, `didChange`, `didClose`) are dispatched inline, then at quiescence both the editor-text map
  and the analysed text of every uri are exactly what handling the notifications one after the other gives:
  the text of the last open/change, or — closed last — the disk content / absent.
* `C27_all_schedules_finish` — every schedule is finite (each step consumes one unit of a measure).
* Tie (T-src, regenerated on every run): `Gen.syncNotifications` / `Gen.asyncNotifications` are read from
  the `dispatch_notification!` invocation; `C27_doc_kinds_inline` (by `decide`) is the hypothesis of the
  theorem for the real dispatch, `C27_dispatch_known` says the model knows every dispatched notification.
* `C27_spawned_open_loses_edit` — the pinned tree's dispatch (`didOpen`/`didClose` spawned, `didChange`
  inline): `open(t1); change(t2)` ends analysed with `t1` under a concrete schedule (by `decide`).

* `C27_version_independent` — T-src: the handlers and `sync_open_file`/`close_open_file` do not look at LSP
  version numbers (the model has none); the sessions send editor-style, low, equal and malformed versions.

Partial: tokio's real scheduler is not exhibited; a handler section is atomic because it runs under one
write lock; only workspace files (`should_process = true`) are modelled.
-/
namespace Sched

/-- **C27 last writer wins.** -/
theorem C27_last_writer_wins (inline : Kind → Bool) (disk : TMap)
    (hin : ∀ k ∈ docKinds, inline k = true)
    (ms : List Notif) (st0 : Store) (sched : List Label) (s : St)
    (hrun : run inline disk (init ms st0) sched = some s) (hq : quiescent s) :
    s.store = spec disk st0 ms := by
  have inv0 : Inv disk (spec disk st0 ms) (init ms st0) :=
    ⟨by simp [init, spec], by simp [init]⟩
  have inv := inv_run hin inv0 hrun
  obtain ⟨hp, hc, _⟩ := hq
  have := inv.main
  rw [hp, hc] at this
  simpa [execSteps] using this

/-- what the specification says about one uri: the last document notification for it decides -/
theorem C27_spec_last (disk : TMap) (st0 : Store) (ms : List Notif) (n : Notif) (hk : n.kind ∈ docKinds) :
    (spec disk st0 (ms ++ [n])).an n.uri = (if n.kind = .didClose then disk n.uri else some n.text) ∧
    (spec disk st0 (ms ++ [n])).wm n.uri = (if n.kind = .didClose then none else some n.text) := by
  simp only [spec, List.flatMap_append, List.flatMap_cons, List.flatMap_nil, List.append_nil,
    execSteps_append]
  generalize execSteps disk st0 (ms.flatMap steps) = s1
  cases hkk : n.kind <;> simp [docKinds, hkk] at hk <;>
    simp [steps, hkk, execSteps, execStep, TMap.set]

/-- a later notification for another uri does not change it -/
theorem C27_spec_other (disk : TMap) (st0 : Store) (ms : List Notif) (n : Notif) (u : Uri) (hu : u ≠ n.uri) :
    (spec disk st0 (ms ++ [n])).an u = (spec disk st0 ms).an u ∧
    (spec disk st0 (ms ++ [n])).wm u = (spec disk st0 ms).wm u := by
  simp only [spec, List.flatMap_append, List.flatMap_cons, List.flatMap_nil, List.append_nil,
    execSteps_append]
  generalize execSteps disk st0 (ms.flatMap steps) = s1
  cases hkk : n.kind <;> simp [steps, hkk, execSteps, execStep, TMap.set, hu]

/-- every schedule is finite: `n` steps need `n ≤ measure` -/
theorem C27_all_schedules_finish (inline : Kind → Bool) (disk : TMap) (s s' : St) (sched : List Label)
    (h : run inline disk s sched = some s') : sched.length + measure s' = measure s := by
  induction sched generalizing s with
  | nil => simp [run] at h; subst h; simp
  | cons lab rest ih =>
    simp only [run] at h
    split at h
    · rename_i s1 h1
      have := ih s1 h
      have := measure_exec h1
      simp only [List.length_cons]; omega
    · cases h

/-! ## Tie to the dispatch macro -/

/-- the real dispatch handles every document notification inline -/
theorem C27_doc_kinds_inline : ∀ k ∈ docKinds, inlineOf Gen.syncNotifications k = true := by decide

/-- every dispatched notification is known to the model, none is dispatched twice -/
theorem C27_dispatch_known :
    (∀ n ∈ Gen.syncNotifications ++ Gen.asyncNotifications,
      n ∈ [Kind.didOpen, .didChange, .didClose, .didSave, .didChangeWatchedFiles, .setTrace,
           .didChangeConfiguration, .didRenameFiles].map Kind.name) ∧
    (Gen.syncNotifications ++ Gen.asyncNotifications).Nodup := by decide

/-- the model's handlers have no version-dependent behaviour, and neither has the source: the three document
handlers never read an LSP `version`, and `sync_open_file` / `close_open_file` are unconditional, version-free
updates (the property quantifies over notification sequences, whatever version numbers they carry) -/
theorem C27_version_independent :
    Gen.docHandlersReadVersion = false ∧ Gen.syncOpenFileConditional = false := by decide

/-- **C27 for the server's dispatch.** -/
theorem C27_server_last_writer_wins (disk : TMap) (ms : List Notif) (st0 : Store) (sched : List Label)
    (s : St) (hrun : run (inlineOf Gen.syncNotifications) disk (init ms st0) sched = some s)
    (hq : quiescent s) : s.store = spec disk st0 ms :=
  C27_last_writer_wins _ disk C27_doc_kinds_inline ms st0 sched s hrun hq

/-- the hypotheses are satisfiable on a non-trivial run: open, change, close + a spawned save, with the
save task interleaved -/
example :
    let ms : List Notif := [⟨.didOpen, 0, 1⟩, ⟨.didSave, 0, 0⟩, ⟨.didChange, 0, 2⟩, ⟨.didClose, 0, 0⟩, ⟨.didOpen, 1, 3⟩]
    let disk : TMap := fun u => if u = 0 then some 9 else none
    ∃ s, run (inlineOf Gen.syncNotifications) disk (init ms ⟨fun _ => none, disk⟩)
        [.main, .main, .main, .main, .task 0, .main, .main, .main, .task 0, .main, .main, .main, .main, .main, .main] = some s ∧
      quiescentB s = true ∧ s.store.an 0 = some 9 ∧ s.store.an 1 = some 3 ∧ s.store.wm 0 = none := by
  decide

/-! ## The pinned tree: `didOpen` / `didClose` spawned, `didChange` inline -/

def pinnedInline : Kind → Bool := inlineOf ["DidChangeTextDocument"]

/-- **Counter-schedule for the pinned dispatch**: `open(u, t1); change(u, t2)` — the main loop spawns the
open handler, handles the change inline, then the open task runs: the analysis (and the editor-text map)
end on `t1` although `t2` is the last notification. -/
theorem C27_spawned_open_loses_edit :
    ∃ s, run pinnedInline (fun _ => none) (init [⟨.didOpen, 0, 1⟩, ⟨.didChange, 0, 2⟩] ⟨fun _ => none, fun _ => none⟩)
        [.main, .main, .main, .main, .task 0, .task 0] = some s ∧
      quiescentB s = true ∧ s.store.an 0 = some 1 ∧ s.store.wm 0 = some 1 ∧
      (spec (fun _ => none) ⟨fun _ => none, fun _ => none⟩ [⟨.didOpen, 0, 1⟩, ⟨.didChange, 0, 2⟩]).an 0 = some 2 := by
  decide

end Sched
