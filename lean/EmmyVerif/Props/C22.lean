import EmmyVerif.Lemmas.TextSplit
/-!
# C22 — Offsets and LSP positions convert consistently and stay in bounds

Statements over flat texts (`List Char`, offsets = UTF-8 bytes, columns = UTF-16 units) about the
model `Text.getLineCol` / `Text.getOffset` of `LineIndex::get_line_col` / `LineIndex::get_offset`.
The model is tied to the Rust by the correspondence run of `./check C22`.
-/
namespace Text

/-- **C22 roundtrip.** For every text and every character-boundary offset (the byte length of a
prefix `p` of the text), converting the offset to a position and back returns the same offset. -/
theorem C22_roundtrip (t p s : List Char) (h : t = p ++ s) :
    ∃ ln col, getLineCol t (len8 p) = some (ln, col) ∧ getOffset t ln col = some (len8 p) := by
  have hwf := wf_splitAux t []
  have hb := boundary_of_prefix (splitAux t []) hwf p s (by rw [join_splitAux]; simpa using h)
  obtain ⟨ln, col, h1, _, h3⟩ := roundtrip_doc _ hwf _ hb 0 0
  exact ⟨ln, col, h1, by simpa [getOffset, splitLines] using h3⟩

/-- **C22 missing line.** A position whose line does not exist converts to nothing. -/
theorem C22_missing_line_none (t : List Char) (line col : Nat) (h : lineCount t ≤ line) :
    getOffset t line col = none :=
  missing_line_none_doc _ _ _ _ h

/-- **C22 clamp.** A position on an existing line — whatever its character — converts to an offset
inside the document, inside that line's reachable part `[lineStart, lineStart + |reach|]`, and
equal to the end of the reachable part when the column is at or past it. -/
theorem C22_clamp (t : List Char) (line col : Nat) (h : line < lineCount t) :
    ∃ off l, getOffset t line col = some off ∧ (splitLines t)[line]? = some l ∧
      off ≤ len8 t ∧
      len8 (((splitLines t).take line).flatMap (·.chars)) ≤ off ∧
      off ≤ len8 (((splitLines t).take line).flatMap (·.chars)) + len8 l.reach ∧
      (len16 l.reach ≤ col →
        off = len8 (((splitLines t).take line).flatMap (·.chars)) + len8 l.reach) := by
  obtain ⟨off, hoff⟩ := existing_line_some_doc (splitLines t) line col 0 h
  obtain ⟨l, pre, h1, h2, h3, h4, h5⟩ := clamp_doc _ _ _ _ _ hoff
  subst h4
  refine ⟨off, l, hoff, h1, ?_, by omega, by omega, fun hc => by have := h5 hc; omega⟩
  have hj := len8_join_take _ _ _ h1
  have hr := len8_reach_le l
  have : join (splitLines t) = t := by simp [splitLines, join_splitAux]
  rw [this] at hj
  omega

/-- the result of any position conversion is `none` or inside the document (used by C25) -/
theorem C22_offset_in_bounds (t : List Char) (line col off : Nat)
    (h : getOffset t line col = some off) : off ≤ len8 t := by
  by_cases hl : line < lineCount t
  · obtain ⟨off', _, h1, _, h2, _⟩ := C22_clamp t line col hl
    rw [h] at h1; cases h1; exact h2
  · rw [C22_missing_line_none t line col (by omega)] at h; cases h

/-! Non-vacuity: concrete instances (tests, labelled as such). -/
example : getOffset "ab\ncdef\ngh".toList 1 100 = some 7 := by decide
example : getLineCol "a😀b\r\nc".toList 5 = some (0, 3) := by decide
example : getOffset "a😀b\r\nc".toList 0 3 = some 5 := by decide
example : getOffset "a\rb".toList 1 1 = some 3 := by decide
example : getOffset "a".toList 1 0 = none := by decide

end Text
