import EmmyVerif.Lemmas.Printer
import EmmyVerif.Lemmas.PrinterAtoms
/-!
# C05 — Formatting never changes or loses code  (*partial*)

The formatter is `IR construction (≈ 10 k lines of rules)` followed by `Printer::print`. These
theorems are about the model `Model/Printer.lean` of the IR (`ir/doc_ir.rs`) and of the printer
(`printer/mod.rs`), tied on every run to the real printer through hook H5: the IRs the real
formatter builds for the corpus and seeded random IRs are printed by both and compared byte for byte.
IR construction is not modelled: whether the IR contains every token of the source is decided by the
search (oracle of `./check C05`), not by a theorem.
-/
namespace Printer

/-- a successful run of the whole printer on plain documents -/
theorem print_spec (cfg : Cfg) (hc : cfg.Blank) (fuel : Nat) (ds : List Doc) (out : List Nat)
    (hp : plainL ds = true) (h : print cfg fuel ds = some out) : nb out = nb (leavesL ds) := by
  simp only [print, Option.bind_eq_some_iff, Option.map_eq_some_iff] at h
  obtain ⟨s1, h1, s2, h2, h3⟩ := h
  obtain ⟨a1, a2⟩ := docsWith_spec _ (printDoc_spec cfg hc fuel) ds St.init s1 _ hp rfl h1
  have : s2 = s1 := by
    simp [a1] at h2; exact h2.symm
  subst this
  subst h3
  simp only [St.out, nb_reverse, a2]
  simp [St.init, nb]

/-- **C05 print_atoms (partial).** For every configuration whose indent and newline strings are
whitespace, every fuel and every IR without `IfBreak` and `LineSuffix`: if the printer produces an
output, its non-whitespace bytes are exactly the non-whitespace bytes of the IR's text leaves, in
document order — the printer can neither drop nor reorder nor invent text; all it adds or removes
is spaces, tabs and line breaks. Covers groups, indents, fills and align groups in both modes.

The full statement for all IRs is `C05_print_atoms` below; this is its closed form for IRs without
`IfBreak` and `LineSuffix`, where the emitted bytes are a fixed list. (A `LineSuffix` nested in a
line suffix that is flushed by `print`'s final flush is dropped by the code — `print` flushes once —
and `Top` says so: what is still pending after the final flush is not emitted.) -/
theorem C05_print_atoms_partial (cfg : Cfg) (hc : cfg.Blank) (fuel : Nat) (ds : List Doc) (out : List Nat)
    (hp : plainL ds = true) (h : print cfg fuel ds = some out) : nb out = nb (leavesL ds) :=
  print_spec cfg hc fuel ds out hp h

/-- **C05 print_atoms (full strength).** For every configuration whose indent and newline strings are
whitespace, every fuel and EVERY IR: if the printer produces an output, its non-whitespace bytes are
the bytes emitted by a `Top` derivation (`Lemmas/PrinterAtoms.lean`): the text leaves in document
order, where an `IfBreak` contributes the atoms of the branch selected by the mode its group
recorded (or the current mode), a `LineSuffix` contributes nothing where it stands and its atoms are
emitted at the next line break or at the final flush, pending suffixes in the order they were pushed.
The relation leaves open only what `fits` decides: the mode of each group and fill part. -/
theorem C05_print_atoms (cfg : Cfg) (hc : cfg.Blank) (fuel : Nat) (ds : List Doc) (out : List Nat)
    (h : print cfg fuel ds = some out) : ∃ e, Top ds e ∧ nb out = e :=
  print_atoms cfg hc fuel ds out h

/-- **the final flush is needed** (what a printer without it would lose): a trailing comment — a
`LineSuffix` holding a text — at the very end of the IR, with no line break after it, is part of
every output, as its last non-whitespace bytes. -/
theorem C05_trailing_suffix_is_printed_last (cfg : Cfg) (hc : cfg.Blank) (fuel : Nat) (ds : List Doc)
    (s out : List Nat) (h : print cfg fuel (ds ++ [.lineSuffix [.text s]]) = some out) :
    ∃ e0, nb out = e0 ++ nb s := by
  obtain ⟨e, ht, he⟩ := print_atoms cfg hc fuel _ out h
  obtain ⟨e0, rfl⟩ := top_trailing_line_suffix ds s e ht
  exact ⟨e0, he⟩

/-- the printer never emits a byte for an IR without text leaves: whitespace only -/
theorem C05_no_text_no_output (cfg : Cfg) (hc : cfg.Blank) (fuel : Nat) (ds : List Doc) (out : List Nat)
    (hp : plainL ds = true) (hl : leavesL ds = []) (h : print cfg fuel ds = some out) :
    ∀ b ∈ out, isWs b = true := by
  have := print_spec cfg hc fuel ds out hp h
  rw [hl] at this
  intro b hb
  have hnil : nb out = [] := by simpa [nb] using this
  simp only [nb, List.filter_eq_nil_iff] at hnil
  simpa using hnil b hb

/-- **flat_width_sound (partial).** For slices made of texts without line breaks, spaces, soft
lines, indents, lists and group-less `IfBreak`s, printed in flat mode from a state without pending
indentation: the column advances by exactly `ir_flat_width` — the premise of the paddings computed
in `print_align_group` and of `fits`. (Full statement would include groups and fills, which choose
their own mode by `fits` even inside flat content, and align groups.) -/
theorem C05_flat_width_sound_partial (cfg : Cfg) (fuel : Nat) (ds : List Doc) (st st' : St)
    (hp : flatSimpleL ds = true) (hs : st.pending = none)
    (h : docsWith (printDoc cfg fuel) st ds .flat = some st') :
    st'.col = st.col + flatWidthL ds :=
  (docsWith_specW _ (printDoc_specW cfg fuel) ds st st' hp hs h).2

/-- `ir_flat_width` — what every alignment decision of
`print_align_group` is computed from — depends on the lengths of the texts only -/
theorem C05_flat_width_depends_on_lengths_only (ds : List Doc) : flatWidthL (shapeL ds) = flatWidthL ds :=
  flatWidthL_shape ds

/-! Non-vacuity (tests, labelled as such): the default-like configuration is `Blank`, a plain IR with a
group, an indent, a fill and an align group prints, and its non-blank bytes are its leaves. -/
def cfgDefault : Cfg := ⟨120, List.replicate 4 32, 4, [10], 1, 0⟩
theorem cfgDefault_blank : cfgDefault.Blank :=
  ⟨by decide, by decide⟩
def sampleIR : List Doc :=
  [.group [.text [97], .softLine, .indent [.text [98], .hardLine, .text [99]]] false (some 1),
   .fill [.text [100], .softLine, .text [101]],
   .alignGroup [⟨true, [.text [102]], [.text [103]], some [.text [104]]⟩, ⟨false, [.text [105]], [], none⟩]]
example : plainL sampleIR = true := by decide
example : print cfgDefault 50 sampleIR
    = some [97, 10, 98, 10, 32, 32, 32, 32, 99, 100, 32, 101, 102, 32, 103, 32, 104, 10, 105] := by
  decide +kernel
example : flatSimpleL [.text [97, 98], .softLine, .indent [.ifBreak .hardLine (.text [99]) none]] = true := by decide
example : print cfgDefault 20 [.text [97], .lineSuffix [.text [45, 45, 99]]] = some [97, 45, 45, 99] := by decide +kernel
example : leavesL sampleIR = [97, 98, 99, 100, 101, 102, 103, 104, 105] := by decide

end Printer
