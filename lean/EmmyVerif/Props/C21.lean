import EmmyVerif.Lemmas.DiagSyntax
/-!
# C21 — Reported diagnostics are well-formed and complete for syntax errors

Model: `Diag.translateRange` (`DiagnosticContext::translate_range` + the `0:0-0:0` fallback of
`add_diagnostic`) over the C22/C23 model of `LineIndex`, and `Diag.syntaxDiags` (the parse-error loop of
`SyntaxErrorChecker::check` after the de-duplication fix). Tied to the Rust by `./check C21`: the model's
list for the real parse errors of every generated file must be what `diagnose_file` emits for them,
each exactly once.

Partial by design (DESIGN §6 C21 *Out*): how the other ~40 checkers compute their byte ranges is not
modelled; their output is covered by `translateRange_*` (whatever byte range they pass in) and by the
implementation-side oracle.
-/
namespace Diag
open Text

/-- **Well-formed ranges.** Whatever byte range `start ≤ end` a checker hands to `add_diagnostic` —
inside the text or not, on char boundaries or not — the reported LSP range has start ≤ end and both
ends inside the document (existing line, character ≤ the line's UTF-16 length). -/
theorem C21_translate_range_wf (t : List Char) (r : Range) (hr : r.1 ≤ r.2) :
    posLe (translateRange t r).1 (translateRange t r).2 ∧
    inDocPos t (translateRange t r).1 ∧ inDocPos t (translateRange t r).2 := by
  unfold translateRange
  cases ha : getLineCol t r.1 with
  | none => exact ⟨posLe_refl _, origin_inDoc t, origin_inDoc t⟩
  | some a =>
    cases hb : getLineCol t r.2 with
    | none => exact ⟨posLe_refl _, origin_inDoc t, origin_inDoc t⟩
    | some b =>
      exact ⟨lineCol_mono (splitLines t) r.1 r.2 0 a b hr ha hb, getLineCol_inDoc t _ a ha,
        getLineCol_inDoc t _ b hb⟩

/-- **Position preserving.** For a byte range on char boundaries of the text (`t = p ++ m ++ s`, range
`[|p|, |p ++ m|)`) the reported range is not the fallback: both ends convert back to exactly the byte
offsets of the range (C22 round trip), so the diagnostic sits at its location. -/
theorem C21_translate_range_exact (t p m s : List Char) (h : t = p ++ m ++ s) :
    ∃ a b, translateRange t (len8 p, len8 (p ++ m)) = (a, b) ∧
      getOffset t a.1 a.2 = some (len8 p) ∧ getOffset t b.1 b.2 = some (len8 (p ++ m)) := by
  obtain ⟨l1, c1, h1, h2⟩ := C22_roundtrip' t p (m ++ s) (by simpa [List.append_assoc] using h)
  obtain ⟨l2, c2, h3, h4⟩ := C22_roundtrip' t (p ++ m) s h
  exact ⟨(l1, c1), (l2, c2), by unfold translateRange; simp only [h1, h3], h2, h4⟩

/-- translation is injective on char-boundary ranges: different locations stay different -/
theorem C21_translate_range_injective (t p m s p' m' s' : List Char)
    (h : t = p ++ m ++ s) (h' : t = p' ++ m' ++ s')
    (heq : translateRange t (len8 p, len8 (p ++ m)) = translateRange t (len8 p', len8 (p' ++ m'))) :
    len8 p = len8 p' ∧ len8 (p ++ m) = len8 (p' ++ m') := by
  obtain ⟨a, b, h1, h2, h3⟩ := C21_translate_range_exact t p m s h
  obtain ⟨a', b', h1', h2', h3'⟩ := C21_translate_range_exact t p' m' s' h'
  rw [h1, h1'] at heq
  cases heq
  rw [h2] at h2'; rw [h3] at h3'
  exact ⟨(Option.some.inj h2').symm ▸ rfl, (Option.some.inj h3').symm ▸ rfl⟩

/-- **Complete.** Every parse error whose code passes the gate of `add_diagnostic` (enabled, not in a
suppression scope) appears as a diagnostic with its code, its message and its translated range. -/
theorem C21_syntax_map_complete (t : List Char) (sc dc : Code) (gate : Code → Range → Bool)
    (errs : List ParseErr) (e : ParseErr) (he : e ∈ errs)
    (hg : gate (codeOfKind sc dc e.kind) e.range = true) :
    ⟨codeOfKind sc dc e.kind, translateRange t e.range, e.msg⟩ ∈ syntaxDiags t sc dc gate errs := by
  unfold syntaxDiags
  rw [List.mem_filterMap]
  exact ⟨e, (mem_dedup errs e).mpr he, by simp [hg]⟩

/-- **Sound.** Every diagnostic of the loop stems from a parse error of the file that passes the gate;
a disabled or suppressed code yields nothing. -/
theorem C21_syntax_map_sound (t : List Char) (sc dc : Code) (gate : Code → Range → Bool)
    (errs : List ParseErr) (d : SynDiag) (hd : d ∈ syntaxDiags t sc dc gate errs) :
    ∃ e ∈ errs, gate (codeOfKind sc dc e.kind) e.range = true ∧
      d = ⟨codeOfKind sc dc e.kind, translateRange t e.range, e.msg⟩ := by
  unfold syntaxDiags at hd
  rw [List.mem_filterMap] at hd
  obtain ⟨e, he, h⟩ := hd
  refine ⟨e, (mem_dedup errs e).mp he, ?_⟩
  by_cases hg : gate (codeOfKind sc dc e.kind) e.range = true
  · simp [hg] at h; exact ⟨hg, h.symm⟩
  · simp [hg] at h

/-- parse errors of a real tree: ranges on char boundaries of the text -/
def ErrOK (t : List Char) (e : ParseErr) : Prop :=
  ∃ p m s, t = p ++ m ++ s ∧ e.range = (len8 p, len8 (p ++ m))

/-- the map parse error ↦ diagnostic is injective on well-placed errors (codes distinct) -/
theorem C21_syntax_map_injective (t : List Char) (sc dc : Code) (hcode : sc ≠ dc) (e e' : ParseErr)
    (hk : e.kind = 0 ∨ e.kind = 1) (hk' : e'.kind = 0 ∨ e'.kind = 1)
    (he : ErrOK t e) (he' : ErrOK t e')
    (heq : (⟨codeOfKind sc dc e.kind, translateRange t e.range, e.msg⟩ : SynDiag) =
      ⟨codeOfKind sc dc e'.kind, translateRange t e'.range, e'.msg⟩) : e = e' := by
  obtain ⟨p, m, s, h, hr⟩ := he
  obtain ⟨p', m', s', h', hr'⟩ := he'
  injection heq with h1 h2 h3
  rw [hr, hr'] at h2
  obtain ⟨h4, h5⟩ := C21_translate_range_injective t p m s p' m' s' h h' h2
  have hkind : e.kind = e'.kind := by
    unfold codeOfKind at h1
    rcases hk with hk | hk <;> rcases hk' with hk' | hk' <;> simp [hk, hk'] at h1 ⊢
    · exact absurd h1 hcode
    · exact absurd h1.symm hcode
  cases e; cases e'
  simp only at hr hr' h3 hkind
  subst hr hr' h3 hkind
  simp [h4, h5]

/-- **No duplicates.** The syntax-error part of a file's diagnostics is duplicate-free — also when
the parser reported the identical error several times. -/
theorem C21_no_dup_syntax (t : List Char) (sc dc : Code) (hcode : sc ≠ dc) (gate : Code → Range → Bool)
    (errs : List ParseErr) (hk : ∀ e ∈ errs, e.kind = 0 ∨ e.kind = 1) (hok : ∀ e ∈ errs, ErrOK t e) :
    (syntaxDiags t sc dc gate errs).Nodup := by
  unfold syntaxDiags
  have hnd := nodup_dedup errs
  have hmem : ∀ e ∈ dedup errs, e ∈ errs := fun e h => (mem_dedup errs e).mp h
  generalize dedup errs = l at hnd hmem
  induction l with
  | nil => simp
  | cons x xs ih =>
    rw [List.nodup_cons] at hnd
    have ih' := ih hnd.2 (fun e h => hmem e (List.mem_cons_of_mem _ h))
    simp only [List.filterMap_cons]
    split
    · exact ih'
    · rename_i d hd
      rw [List.nodup_cons]
      refine ⟨?_, ih'⟩
      intro hin
      rw [List.mem_filterMap] at hin
      obtain ⟨y, hy, hyd⟩ := hin
      have hx : x ∈ errs := hmem x (List.mem_cons_self)
      have hy' : y ∈ errs := hmem y (List.mem_cons_of_mem _ hy)
      by_cases hgx : gate (codeOfKind sc dc x.kind) x.range = true
      · by_cases hgy : gate (codeOfKind sc dc y.kind) y.range = true
        · simp [hgx] at hd; simp [hgy] at hyd
          have := C21_syntax_map_injective t sc dc hcode x y (hk x hx) (hk y hy') (hok x hx) (hok y hy')
            (by rw [hd, hyd])
          subst this
          exact hnd.1 hy
        · simp [hgy] at hyd
      · simp [hgx] at hd

/-- what the de-duplication fix changed: without it (`errs` used as is) a repeated parse error is
reported twice -/
theorem C21_dup_without_dedup :
    let e : ParseErr := ⟨0, (0, 1), 7⟩
    ([e, e].filterMap fun e => some (⟨codeOfKind 0 1 e.kind, translateRange ['x'] e.range, e.msg⟩ : SynDiag)).Nodup = False ∧
    (syntaxDiags ['x'] 0 1 (fun _ _ => true) [e, e]).length = 1 := by
  decide

/-! non-vacuity -/
example : translateRange "ab\ncd".toList (1, 4) = ((0, 1), (1, 1)) := by decide
example : translateRange "a😀b".toList (2, 3) = ((0, 0), (0, 0)) := by decide   -- inside a char: fallback
example : ErrOK "ab\ncd".toList ⟨0, (1, 4), 0⟩ := ⟨['a'], ['b', '\n', 'c'], ['d'], by decide, by decide⟩

end Diag
