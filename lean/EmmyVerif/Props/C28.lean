import EmmyVerif.Lemmas.Locks
import EmmyVerif.Gen.LockSites
/-!
# C28 — The server never deadlocks

Model: `Locks` (tasks = straight-line acquire/release paths over FIFO-fair read/write locks; a
request joins the back of the lock's queue, only the queue head is granted, readers share, a writer
is alone). What is proved, for **every** number of tasks, **every** set of programs and **every**
schedule (no bound anywhere):

* `C28_deadlock_free` — if every program respects one global order on lock *objects*
  (`Disciplined`: each acquire strictly above everything held, whatever the mode; a task that **waits for
  other tasks** — join handles, draining a channel its children feed — while holding locks only waits for
  tasks spawned later whose remaining lock needs (closed under their own waits, `WF`) are all strictly above
  what it holds) then every reachable state that is not finished has a successor.
* `C28_runs_bounded`, `C28_maximal_runs_finish` — every run has at most `Σ (2·|p| + 1)` steps and a
  run that cannot be extended has finished every task: every task that waits for a lock gets it.
* `C28_mutual_exclusion` — the lock model itself is sound (a writer is alone).

Tie to `/repo` (T-src, regenerated on every run): `Gen.lockSites` lists every async lock acquisition of
`crates/emmylua_ls/src` with the locks that may be held there; `C28_sites_ok` (by `decide`) says each site
respects the order, `C28_server_deadlock_free` lifts that to every set of tasks whose paths follow the
table (`Conforms`). `C28_programs_disciplined` is the same check on one representative path per handler.
The runner cross-validates the table against lock traces of the real server (hook H4).

Awaits: `Gen.lockAwaits` lists every `.await` / `select!` inside a guard scope that is not a lock acquisition,
with the held set, the locks the awaited party may still request and whether the wait is time-bounded;
`C28_awaits_ok` (by `decide`): each is allowed (time-bounded, or the `wait` clause of `Disciplined` holds);
`C28_wait_under_lock_deadlocks`: a driver that drains its children's channel while holding the lock the children
need deadlocks as soon as a writer queues (3 tasks).

Partial: waits for the *client* and for external processes are only covered through their time bounds,
`std::sync::Mutex`es and real timers are outside the model (see notes/sched.md).
-/
namespace Locks

/-- **C28 deadlock freedom.** Any set of disciplined programs, any reachable state: not finished ⇒
some step is enabled. -/
theorem C28_deadlock_free (need : Nat → List Nat) (ps : List Prog) (hwf : WF need ps)
    (hd : ∀ p ∈ ps, Disciplined need [] p)
    (s : St) (hr : Reachable (init ps) s) (hnf : ¬ finished s) : ∃ s', Step s s' :=
  can_step s (inv_reachable (inv_init ps hwf hd) hr) hnf

/-- the hypotheses of `C28_deadlock_free` are satisfiable on a non-trivial value: a reader that nests
`analysis < workspace_manager`, a writer of each, and a mutex user -/
example :
    let ps : List Prog := [[.acq 1 .r, .acq 2 .r, .rel 2, .rel 1], [.acq 1 .w, .acq 2 .r, .acq 3 .w, .rel 3, .rel 2, .rel 1],
      [.acq 2 .w, .rel 2]]
    WF (needOf ps) ps ∧ ∀ p ∈ ps, Disciplined (needOf ps) [] p := by decide

/-- … and with waits: a driver that holds `analysis` (1) while it waits for two children that only need the
token mutex (3) and `workspace_manager` (2); a child that itself waits for a grandchild -/
example :
    let ps : List Prog := [[.acq 1 .w, .rel 1], [.acq 1 .r, .wait [2, 3], .rel 1], [.acq 3 .w, .rel 3, .wait [4]],
      [.acq 2 .r, .rel 2], [.acq 3 .w, .rel 3]]
    WF (needOf ps) ps ∧ ∀ p ∈ ps, Disciplined (needOf ps) [] p := by decide

/-- **Every run is finite**: `n` steps from the initial state ⇒ `n ≤ Σ (2·|p| + 1)`. -/
theorem C28_runs_bounded (ps : List Prog) (s : St) (n : Nat) (h : RunN (init ps) n s) :
    n ≤ measure (init ps) := by
  have := runN_bounded h; omega

/-- **Every task gets its locks**: a run of disciplined programs that cannot be extended has finished
every task (so no task waits forever; together with `C28_runs_bounded` every maximal run ends so). -/
theorem C28_maximal_runs_finish (need : Nat → List Nat) (ps : List Prog) (hwf : WF need ps)
    (hd : ∀ p ∈ ps, Disciplined need [] p)
    (s : St) (n : Nat) (h : RunN (init ps) n s) (hmax : ¬ ∃ s', Step s s') : finished s :=
  Classical.byContradiction fun hnf =>
    hmax (C28_deadlock_free need ps hwf hd s (runN_reachable h) hnf)

/-- the model's locks really exclude: in every reachable state each lock is held by readers only or
by exactly one writer -/
theorem C28_mutual_exclusion (need : Nat → List Nat) (ps : List Prog) (hwf : WF need ps)
    (hd : ∀ p ∈ ps, Disciplined need [] p)
    (s : St) (hr : Reachable (init ps) s) (l : Nat) :
    compatible (s.locks l).holders .r = true ∨ ∃ i, (s.locks l).holders = [(i, .w)] :=
  (inv_reachable (inv_init ps hwf hd) hr).excl l

/-! ## Tie to the source: the extracted site table -/

/-- every extracted acquisition site respects the global order (may-held ranks all below the lock) -/
theorem C28_sites_ok : ∀ s ∈ Gen.lockSites, s.ok = true := by decide

/-- the representative path of every handler / spawned block is disciplined -/
theorem C28_programs_disciplined : ∀ p ∈ Gen.lockPrograms, Disciplined (fun _ => []) [] p.2 := by decide

/-- … and follows the site table (so the hypothesis of `C28_server_deadlock_free` is satisfiable by the
extracted paths themselves) -/
theorem C28_programs_conform : ∀ p ∈ Gen.lockPrograms, Conforms Gen.lockSites [] p.2 := by decide

/-- every extracted await inside a guard scope is allowed: time-bounded, or everything the awaited party may
still request is strictly above everything held -/
theorem C28_awaits_ok : ∀ a ∈ Gen.lockAwaits, a.allowed = true := by decide

/-- … which, for the awaits that are not time-bounded, is the `wait` clause of `Disciplined` -/
theorem C28_unbounded_awaits_ordered :
    ∀ a ∈ Gen.lockAwaits, a.bounded = false → ∀ l ∈ a.needs, ∀ h ∈ a.held, h < l :=
  fun a ha hb => await_allowed_sound a (C28_awaits_ok a ha) hb

/-- **C28 for the server.** Any number of concurrent tasks, each following some path whose
acquisitions happen at extracted sites with held sets inside the sites' may-held sets, and which wait for
other tasks (only for tasks spawned later) while holding no lock: no reachable state is stuck.
(Waits under a lock are the `Gen.lockAwaits` entries: the unbounded ones are channel sends to a receiver
that requests nothing, i.e. they never block on another task's lock.) -/
theorem C28_server_deadlock_free (ps : List Prog) (hc : ∀ p ∈ ps, Conforms Gen.lockSites [] p)
    (hf : WaitsForward ps)
    (s : St) (hr : Reachable (init ps) s) (hnf : ¬ finished s) : ∃ s', Step s s' :=
  C28_deadlock_free (allNeed ps) ps (wf_allNeed ps hf)
    (fun p hp => conforms_disciplined (allNeed ps) Gen.lockSites C28_sites_ok [] p (hc p hp)) s hr hnf

/-! ## Witnesses: why the order must be on lock objects (state of the pinned tree) -/

/-- the order documented in `context/mod.rs` before the fix: analysis.R < wm.R < wm.W < analysis.W
(`analysis` = lock 1, `workspace_manager` = lock 2) -/
def docRank : Nat → Mode → Nat
  | 1, .r => 5
  | 2, .r => 6
  | 2, .w => 7
  | 1, .w => 8
  | l, _ => 100 + l

/-- semantic tokens: analysis.R then workspace_manager.R -/
def semanticToken : Prog := [.acq 1 .r, .acq 2 .r, .rel 2, .rel 1]
/-- watched files on the pinned tree: workspace_manager.R then analysis.W -/
def watchedFilesOld : Prog := [.acq 2 .r, .acq 1 .w, .rel 1, .rel 2]
/-- the workspace_manager.W section of didOpen/didChange -/
def syncOpenFile : Prog := [.acq 2 .w, .rel 2]

def docSchedule : List Label :=
  [.req 0, .grant 1, .req 1, .grant 2, .req 2, .req 0, .req 1]

/-- **The documented mode-ranked order is not sufficient**: three programs that each respect it
(`modeDiscB docRank`) reach, under the schedule `docSchedule`, a state that is not finished and in
which no step at all is enabled — the reader of `workspace_manager` waits behind the queued writer. -/
theorem C28_documented_order_deadlocks :
    (∀ p ∈ [semanticToken, watchedFilesOld, syncOpenFile], modeDiscB docRank [] p = true) ∧
    ∃ s, run (init [semanticToken, watchedFilesOld, syncOpenFile]) docSchedule = some s ∧
      ¬ finished s ∧ ∀ lab, exec s lab = none := by
  refine ⟨by decide, ?_⟩
  have hsome : (run (init [semanticToken, watchedFilesOld, syncOpenFile]) docSchedule).isSome = true := by decide
  obtain ⟨s, hs⟩ := Option.isSome_iff_exists.mp hsome
  have hst : stuck ((run (init [semanticToken, watchedFilesOld, syncOpenFile]) docSchedule).getD (init [])) 3 = true := by
    decide
  rw [hs] at hst
  have hb : Below 3 s :=
    below_run (below_init 3 _ (by decide)) hs
  exact ⟨s, hs, stuck_sound hb hst⟩

/-- watched files on the pinned tree also re-acquired `workspace_manager.R` while holding it -/
def watchedFilesReacquire : Prog := [.acq 2 .r, .acq 2 .r, .rel 2, .rel 2]

/-- **Re-acquiring a held read lock deadlocks** as soon as a writer queues in between (two tasks). -/
theorem C28_reacquire_deadlocks :
    ∃ s, run (init [watchedFilesReacquire, syncOpenFile]) [.req 0, .grant 2, .req 1, .req 0] = some s ∧
      ¬ finished s ∧ ∀ lab, exec s lab = none := by
  have hsome : (run (init [watchedFilesReacquire, syncOpenFile]) [.req 0, .grant 2, .req 1, .req 0]).isSome = true := by
    decide
  obtain ⟨s, hs⟩ := Option.isSome_iff_exists.mp hsome
  have hst : stuck ((run (init [watchedFilesReacquire, syncOpenFile]) [.req 0, .grant 2, .req 1, .req 0]).getD (init [])) 3 = true := by
    decide
  rw [hs] at hst
  exact ⟨s, hs, stuck_sound (below_run (below_init 3 _ (by decide)) hs) hst⟩

/-- neither witness program is accepted by the object-level discipline -/
theorem C28_witnesses_rejected :
    ¬ Disciplined (fun _ => []) [] watchedFilesOld ∧ ¬ Disciplined (fun _ => []) [] watchedFilesReacquire := by decide

/-! ## Waiting for other tasks while holding a lock they need -/

/-- an `analysis` writer (didOpen/didChange) -/
def analysisWriter : Prog := [.acq 1 .w, .rel 1]
/-- a workspace-diagnostic driver that keeps its `analysis` read guard while it drains the channel its per-file
child tasks feed (`push_workspace_diagnostic` without the `drop(read_analysis)`) -/
def driverHoldingRead : Prog := [.acq 1 .r, .wait [2], .rel 1]
/-- a per-file diagnostic child: `analysis.read` -/
def diagChild : Prog := [.acq 1 .r, .rel 1]

/-- **Awaiting children under a lock they need deadlocks** once a writer queues in between: the driver holds
the read lock and waits for the child, the writer waits for the driver, the child (fair lock) waits behind the
writer. No acquisition is out of order — only the `wait` clause of `Disciplined` rejects the driver. -/
theorem C28_wait_under_lock_deadlocks :
    (∀ p ∈ [analysisWriter, driverHoldingRead, diagChild], ∀ a ∈ p, a.below 3) ∧
    WF (needOf [analysisWriter, driverHoldingRead, diagChild]) [analysisWriter, driverHoldingRead, diagChild] ∧
    ¬ Disciplined (needOf [analysisWriter, driverHoldingRead, diagChild]) [] driverHoldingRead ∧
    ∃ s, run (init [analysisWriter, driverHoldingRead, diagChild]) [.req 1, .grant 1, .req 0, .req 2] = some s ∧
      ¬ finished s ∧ ∀ lab, exec s lab = none := by
  refine ⟨by decide, by decide, by decide, ?_⟩
  have hsome : (run (init [analysisWriter, driverHoldingRead, diagChild]) [.req 1, .grant 1, .req 0, .req 2]).isSome = true := by
    decide
  obtain ⟨s, hs⟩ := Option.isSome_iff_exists.mp hsome
  have hst : stuck ((run (init [analysisWriter, driverHoldingRead, diagChild]) [.req 1, .grant 1, .req 0, .req 2]).getD (init [])) 3 = true := by
    decide
  rw [hs] at hst
  exact ⟨s, hs, stuck_sound (below_run (below_init 3 _ (by decide)) hs) hst⟩

/-- the same driver is fine when it drops the guard first, or when the children only need locks above it -/
example :
    let ps : List Prog := [analysisWriter, [.acq 1 .r, .rel 1, .wait [2]], diagChild]
    WF (needOf ps) ps ∧ ∀ p ∈ ps, Disciplined (needOf ps) [] p := by decide

end Locks
