import EmmyVerif.Lemmas.JsonInv
/-!
# C31 — Loading any configuration never crashes

Statements about the model `Json` (`Model/Json.lean`) of `load_configs_raw` and
`pre_process_path` after the `fix:` commits. The model of the JSON part is a total function (the
fixed code contains no partial operation: no `expect`, no `IndexMut` on a `Value`, no slice by a
guessed length); what the theorems add is *why* that is safe: the invariant that made the old
emitter panic-free is now established by `set` for every list of files, and the one remaining
slice (`&path[2..]` after `./`) is always in range and on a character boundary.
Tie: correspondence run of `./check C31`.
-/
namespace Json

/-- **C31 invariant, all file lists.** After loading any list of JSON values (objects, scalars,
arrays, any keys, any nesting) the flattened configuration has pairwise distinct keys and no key
nested below another: no setting is both a value and a prefix. -/
theorem C31_invariant (files : List J) : Inv (loadFlat files) :=
  loadFlat_inv_aux files [] (by simp [Inv])

/-- every stored setting is a non-object value (objects are always descended into) -/
theorem C31_values_not_objects (j : J) : ∀ e ∈ flat [] j, e.2.isObj = false :=
  flat_not_obj [] j

/-- no key of the loaded configuration is nested below another key of it -/
theorem C31_no_value_and_prefix (files : List J) (k k' : Key) (v v' : J)
    (h : (k, v) ∈ loadFlat files) (h' : (k', v') ∈ loadFlat files) : isNestedBelow k' k = false := by
  have hsym : ∀ a b : Key × J, (a.1 ≠ b.1 ∧ conflicts a.1 b.1 = false) → (b.1 ≠ a.1 ∧ conflicts b.1 a.1 = false) :=
    fun a b h => ⟨fun e => h.1 e.symm, by rw [conflicts_comm]; exact h.2⟩
  rcases pairwise_mem hsym _ (C31_invariant files) _ _ h h' with he | hr
  · cases he; exact not_nested_self k
  · have := hr.2
    simp only [conflicts, Bool.or_eq_false_iff] at this
    exact this.2

/-! ## path pre-processing -/

/-- **C31 path expansion never panics.** For every workspace, home directory (present or not),
environment and every path string — `~`, `~x`, `~é`, the empty string, placeholders, variables —
`pre_process_path` returns a string (`unsupported` = the model declines to classify a non-ASCII
character after `$`; it is not a panic). -/
theorem C31_prePath_total (e : Env) (p : List Char) : prePath e p ≠ .panic := by
  unfold prePath
  split
  · simp
  · simp only []
    split
    · split <;> simp
    · split
      · rename_i h
        obtain ⟨rest, hr, _⟩ := sliceFrom_dotSlash _ h
        simp [hr]
      · split <;> simp

/-- **C31 every path-carrying setting.** `workspaceRoots`, `ignoreDir`, `resource.paths`, and the
plain entries of `library` / `packages` (lists of strings), for every workspace root (shallow or
deep, `/` itself, non-ASCII), never panic however many `../` or `./` steps a path starts with. -/
theorem C31_prePaths_total (e : Env) (ps : List (List Char)) : ∀ r ∈ prePaths e ps, r ≠ .panic := by
  intro r hr
  simp only [prePaths, List.mem_map] at hr
  obtain ⟨p, _, rfl⟩ := hr
  exact C31_prePath_total e p

/-- the `{path, ignoreDir}` entries of `library` / `packages`: neither the path nor any `ignoreDir`
entry (expanded relative to the expanded path) panics -/
theorem C31_preItemConfig_total (e : Env) (path : List Char) (dirs : List (List Char)) :
    (preItemConfig e path dirs).1 ≠ .panic ∧ ∀ r ∈ (preItemConfig e path dirs).2, r ≠ .panic := by
  unfold preItemConfig
  have h := C31_prePath_total e path
  split
  · rename_i s _
    refine ⟨by simp, ?_⟩
    intro r hr
    simp only [List.mem_map] at hr
    obtain ⟨d, _, rfl⟩ := hr
    exact C31_prePath_total _ d
  · rename_i hp; exact absurd hp h
  · exact ⟨by simp, by simp⟩

/-! ## non-vacuity (tests, labelled as such) -/

example : prePath ⟨"/ws".toList, some "/home/u".toList, [], []⟩ ['~'] = .ok "/home/u/".toList := by decide +kernel
example : prePath ⟨"/ws".toList, some "/home/u".toList, [], []⟩ "~/x".toList = .ok "/home/u/x".toList := by decide +kernel
example : prePath ⟨"/ws".toList, some "/home/u".toList, [], []⟩ "./é".toList = .ok "/ws/é".toList := by decide +kernel
example : prePath ⟨"/ws".toList, none, [("V".toList, "val".toList)], []⟩ "${workspaceFolder}/$V".toList
    = .ok "/ws/val".toList := by decide +kernel

-- more `../` steps than the workspace root has components, root `/`
example : prePath ⟨"/".toList, some "/home/u".toList, [], []⟩ "../../../x".toList = .ok "/../../../x".toList := by decide +kernel
example : (preItemConfig ⟨"/ws".toList, none, [], []⟩ "../../../lib".toList ["./../../t".toList]).2
    = [.ok "/ws/../../../lib/../../t".toList] := by decide +kernel

end Json
