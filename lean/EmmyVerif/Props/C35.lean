import EmmyVerif.Lemmas.PermExport
/-!
# C35 — Generated documentation is complete and reproducible

Statements about the model `Export.exportTypes / exportModules / exportGlobals` of the JSON export's list
construction (after the ordering fix). The index maps are hash maps: their listing arrives in an arbitrary
permutation (`List.Perm`). Tie: the real `emmylua_doc_cli --output-format json` on generated workspaces vs
the model's name sequences (`order.export_*` through vdriver); oracle: byte-identical output of fresh
processes, every declared class/enum/alias/global/module once, nothing from library roots or std.
-/
namespace Export
open PermModel PermLemmas

/-! ## reproducible: the output does not depend on hash iteration order -/

/-- **Sort key injective.** A declaration site (file, position) belongs to one type; hence, for types that
all have a declaration and pairwise different *first* declaration sites, the export's sort key
`(full name, first declaration)` is injective — also for file-private / internal types of several files that
share a full name. (The harness checks the hypothesis on every generated workspace.) -/
theorem C35_types_sort_key_injective (l : List TypeDecl)
    (hne : ∀ t ∈ l, t.locs ≠ [])
    (nd : (l.map (fun t => t.locs.head?)).Nodup) :
    ∀ a ∈ l, ∀ b ∈ l, a.key = b.key → a = b := by
  intro a ha b hb hk
  apply inj_of_nodup_map (fun t => t.locs.head?) nd ha hb
  have hna := hne a ha
  have hnb := hne b hb
  unfold TypeDecl.key at hk
  cases hla : a.locs with
  | nil => exact absurd hla hna
  | cons x xs =>
    cases hlb : b.locs with
    | nil => exact absurd hlb hnb
    | cons y ys =>
      obtain ⟨xf, xp⟩ := x
      obtain ⟨yf, yp⟩ := y
      rw [hla, hlb] at hk
      simp only [Prod.mk.injEq] at hk
      simp [hk.2.2.1, hk.2.2.2]

/-- **types** — the output is the same for every iteration order of the type map, provided the sort key is
injective on the listed types (`C35_types_sort_key_injective`) -/
theorem C35_types_perm_invariant (isMain : Nat → Bool) {l₁ l₂ : List TypeDecl} (h : l₁.Perm l₂)
    (inj : ∀ a ∈ l₁, ∀ b ∈ l₁, a.key = b.key → a = b) : exportTypes isMain l₁ = exportTypes isMain l₂ := by
  unfold exportTypes
  rw [isort_perm_invariant typeLe typeLe_trans typeLe_total _ h]
  intro a b ha hb hab hba
  exact inj a ha b hb (lexLe4_antisymm a.key b.key hab hba)

/-- the defect the tie-break fix removed: sorting by full name only leaves same-named file-private types in
hash order (two iteration orders of the same two types, different exports) -/
theorem C35_name_only_witness :
    ¬ (∀ l₁ l₂ : List TypeDecl, l₁.Perm l₂ →
        exportTypesNameOnly (fun _ => true) l₁ = exportTypesNameOnly (fun _ => true) l₂) := by
  intro h
  have := h [⟨7, 0, [(1, 0)]⟩, ⟨7, 0, [(2, 0)]⟩] [⟨7, 0, [(2, 0)]⟩, ⟨7, 0, [(1, 0)]⟩] (List.Perm.swap _ _ [])
  revert this
  decide

/-- **modules** — one module info per file, so (name, file) is distinct -/
theorem C35_modules_perm_invariant (isMain : Nat → Bool) {l₁ l₂ : List ModuleInfo} (h : l₁.Perm l₂)
    (nd : (l₁.map (fun m => (m.name, m.file))).Nodup) : exportModules isMain l₁ = exportModules isMain l₂ := by
  unfold exportModules
  rw [isort_perm_invariant moduleLe moduleLe_trans moduleLe_total _ h]
  intro a b ha hb hab hba
  rw [moduleLe_iff] at hab hba
  have : (a.name, a.file) = (b.name, b.file) := by
    have h1 : a.name = b.name := by omega
    have h2 : a.file = b.file := by omega
    rw [h1, h2]
  exact inj_of_nodup_map (fun m => (m.name, m.file)) nd ha hb this

/-- **globals** — a declaration id is (file, position), distinct per declaration -/
theorem C35_globals_perm_invariant (isMain : Nat → Bool) {l₁ l₂ : List GlobalDecl} (h : l₁.Perm l₂)
    (nd : (l₁.map (fun g => (g.file, g.pos))).Nodup) : exportGlobals isMain l₁ = exportGlobals isMain l₂ := by
  unfold exportGlobals
  rw [isort_perm_invariant declLe declLe_trans declLe_total _ h]
  intro a b ha hb hab hba
  rw [declLe_iff] at hab hba
  have : (a.file, a.pos) = (b.file, b.pos) := by
    have h1 : a.file = b.file := by omega
    have h2 : a.pos = b.pos := by omega
    rw [h1, h2]
  exact inj_of_nodup_map (fun g => (g.file, g.pos)) nd ha hb this

/-- the defect the fix removed: without the sort the output order is the hash order -/
theorem C35_unsorted_witness :
    ¬ (∀ l₁ l₂ : List TypeDecl, l₁.Perm l₂ → exportTypesUnsorted (fun _ => true) l₁ = exportTypesUnsorted (fun _ => true) l₂) := by
  intro h
  have := h [⟨1, 0, [(0, 0)]⟩, ⟨2, 0, [(0, 0)]⟩] [⟨2, 0, [(0, 0)]⟩, ⟨1, 0, [(0, 0)]⟩] (List.Perm.swap _ _ [])
  revert this
  decide

/-! ## complete, exactly once, main workspace only -/

/-- a type is exported iff it is a class/enum/alias with a declaration in the main workspace -/
theorem C35_types_member (isMain : Nat → Bool) (l : List TypeDecl) (t : TypeDecl) :
    t ∈ exportTypes isMain l ↔ t ∈ l ∧ (∃ f ∈ t.locs, isMain f.1 = true) ∧ t.kind < 3 := by
  unfold exportTypes
  simp only [List.mem_filter, mem_isort, List.any_eq_true, decide_eq_true_eq]
  constructor
  · rintro ⟨⟨a, b⟩, c⟩; exact ⟨a, b, c⟩
  · rintro ⟨a, b, c⟩; exact ⟨⟨a, b⟩, c⟩

/-- … and exactly once: no type (identified by its sort key; full names may repeat for file-private types)
appears twice -/
theorem C35_types_once (isMain : Nat → Bool) (l : List TypeDecl) (nd : (l.map (·.key)).Nodup) :
    ((exportTypes isMain l).map (·.key)).Nodup := by
  unfold exportTypes
  have h1 : ((isort typeLe l).map (·.key)).Nodup :=
    (List.Perm.nodup_iff ((isort_perm typeLe l).map (·.key))).mpr nd
  exact List.Nodup.sublist ((List.filter_sublist.trans List.filter_sublist).map _) h1

/-- nothing from library roots or std: every exported type has a main-workspace declaration -/
theorem C35_types_main_only (isMain : Nat → Bool) (l : List TypeDecl) :
    ∀ t ∈ exportTypes isMain l, ∃ f ∈ t.locs, isMain f.1 = true :=
  fun t h => ((C35_types_member isMain l t).mp h).2.1

/-- a module is exported iff its file is in the main workspace and it exports a value; once per file -/
theorem C35_modules_member (isMain : Nat → Bool) (l : List ModuleInfo) (m : ModuleInfo) :
    m ∈ exportModules isMain l ↔ m ∈ l ∧ isMain m.file = true ∧ m.exports = true := by
  unfold exportModules
  simp only [List.mem_filter, mem_isort]
  constructor
  · rintro ⟨⟨a, b⟩, c⟩; exact ⟨a, b, c⟩
  · rintro ⟨a, b, c⟩; exact ⟨⟨a, b⟩, c⟩

theorem C35_modules_once (isMain : Nat → Bool) (l : List ModuleInfo) (nd : (l.map (·.file)).Nodup) :
    ((exportModules isMain l).map (·.file)).Nodup := by
  unfold exportModules
  have h1 : ((isort moduleLe l).map (·.file)).Nodup :=
    (List.Perm.nodup_iff ((isort_perm moduleLe l).map (·.file))).mpr nd
  exact List.Nodup.sublist ((List.filter_sublist.trans List.filter_sublist).map _) h1

/-- every exported global entry is a typed declaration in a main-workspace file -/
theorem C35_globals_main_only (isMain : Nat → Bool) (l : List GlobalDecl) :
    ∀ g ∈ exportGlobals isMain l, g ∈ l ∧ isMain g.file = true ∧ g.typed = true := by
  intro g hg
  unfold exportGlobals at hg
  have h1 := mem_isort.mp (mem_dedupName hg)
  simp only [List.mem_filter, mem_isort] at h1
  exact ⟨h1.1.1, h1.1.2, h1.2⟩

/-- each global name is listed exactly once … -/
theorem C35_globals_once (isMain : Nat → Bool) (l : List GlobalDecl) :
    ((exportGlobals isMain l).map (·.name)).Nodup := by
  unfold exportGlobals
  apply nodup_dedupName
  have := pairwise_isort globalNameLe globalNameLe_trans globalNameLe_total
    (((isort declLe l).filter (fun g => isMain g.file)).filter (fun g => g.typed))
  exact this.imp (by intro a b h; unfold globalNameLe at h; simpa using h)

/-- … and none is missing: a name is listed iff some main-workspace declaration of it has a type -/
theorem C35_globals_complete (isMain : Nat → Bool) (l : List GlobalDecl) (n : Nat) :
    n ∈ (exportGlobals isMain l).map (·.name) ↔ ∃ g ∈ l, g.name = n ∧ isMain g.file = true ∧ g.typed = true := by
  constructor
  · intro h
    obtain ⟨g, hg, rfl⟩ := List.mem_map.mp h
    exact ⟨g, (C35_globals_main_only isMain l g hg).1, rfl, (C35_globals_main_only isMain l g hg).2⟩
  · rintro ⟨g, hg, rfl, hm, ht⟩
    unfold exportGlobals
    apply name_dedupName
    rw [mem_isort]
    simp only [List.mem_filter, mem_isort]
    exact ⟨⟨hg, hm⟩, ht⟩

/-! Non-vacuity (tests, labelled as such). -/
example : (exportTypes (fun f => f < 10) [⟨5, 0, [(20, 0)]⟩, ⟨3, 1, [(2, 5)]⟩, ⟨1, 0, [(30, 1), (4, 1)]⟩, ⟨2, 7, [(1, 0)]⟩, ⟨4, 2, [(0, 9)]⟩,
    ⟨3, 0, [(1, 7)]⟩, ⟨3, 0, [(1, 2)]⟩]).map (fun t => (t.name, t.locs.head?))
    = [(1, some (30, 1)), (3, some (1, 2)), (3, some (1, 7)), (3, some (2, 5)), (4, some (0, 9))] := by decide
example : (exportGlobals (fun f => f < 10) [⟨7, 2, 5, true⟩, ⟨7, 1, 9, true⟩, ⟨3, 20, 0, true⟩, ⟨2, 1, 0, false⟩, ⟨7, 1, 2, true⟩, ⟨1, 3, 3, true⟩])
    = [⟨1, 3, 3, true⟩, ⟨7, 1, 2, true⟩] := by decide
example : (exportModules (fun f => f < 10) [⟨4, 1, true⟩, ⟨4, 0, true⟩, ⟨2, 11, true⟩, ⟨1, 5, false⟩, ⟨3, 2, true⟩]).map (·.file)
    = [2, 0, 1] := by decide

end Export
