import EmmyVerif.Lemmas.PermExport
/-!
# C35 — Generated documentation is complete and reproducible

Statements about the model `Export.exportTypes / exportModules / exportGlobals` of the JSON export's list
construction (after the ordering fix). The index maps are hash maps: their listing arrives in an arbitrary
permutation (`List.Perm`). Tie: the real `emmylua_doc_cli --output-format json` on generated workspaces vs
the model's name sequences (`order.export_*` through vdriver); oracle: byte-identical output of fresh
processes, every declared class/enum/alias/global/module once, nothing from library roots or std.
-/
namespace Export
open PermModel PermLemmas

/-! ## reproducible: the output does not depend on hash iteration order -/

/-- **types** — full names are the keys of the type map, hence pairwise distinct -/
theorem C35_types_perm_invariant (isMain : Nat → Bool) {l₁ l₂ : List TypeDecl} (h : l₁.Perm l₂)
    (nd : (l₁.map (·.name)).Nodup) : exportTypes isMain l₁ = exportTypes isMain l₂ := by
  unfold exportTypes
  rw [isort_perm_invariant typeLe typeLe_trans typeLe_total _ h]
  intro a b ha hb hab hba
  have : a.name = b.name := by
    unfold typeLe at hab hba; simp only [decide_eq_true_eq] at hab hba; exact Nat.le_antisymm hab hba
  exact inj_of_nodup_map (·.name) nd ha hb this

/-- **modules** — one module info per file, so (name, file) is distinct -/
theorem C35_modules_perm_invariant (isMain : Nat → Bool) {l₁ l₂ : List ModuleInfo} (h : l₁.Perm l₂)
    (nd : (l₁.map (fun m => (m.name, m.file))).Nodup) : exportModules isMain l₁ = exportModules isMain l₂ := by
  unfold exportModules
  rw [isort_perm_invariant moduleLe moduleLe_trans moduleLe_total _ h]
  intro a b ha hb hab hba
  rw [moduleLe_iff] at hab hba
  have : (a.name, a.file) = (b.name, b.file) := by
    have h1 : a.name = b.name := by omega
    have h2 : a.file = b.file := by omega
    rw [h1, h2]
  exact inj_of_nodup_map (fun m => (m.name, m.file)) nd ha hb this

/-- **globals** — a declaration id is (file, position), distinct per declaration -/
theorem C35_globals_perm_invariant (isMain : Nat → Bool) {l₁ l₂ : List GlobalDecl} (h : l₁.Perm l₂)
    (nd : (l₁.map (fun g => (g.file, g.pos))).Nodup) : exportGlobals isMain l₁ = exportGlobals isMain l₂ := by
  unfold exportGlobals
  rw [isort_perm_invariant declLe declLe_trans declLe_total _ h]
  intro a b ha hb hab hba
  rw [declLe_iff] at hab hba
  have : (a.file, a.pos) = (b.file, b.pos) := by
    have h1 : a.file = b.file := by omega
    have h2 : a.pos = b.pos := by omega
    rw [h1, h2]
  exact inj_of_nodup_map (fun g => (g.file, g.pos)) nd ha hb this

/-- the defect the fix removed: without the sort the output order is the hash order -/
theorem C35_unsorted_witness :
    ¬ (∀ l₁ l₂ : List TypeDecl, l₁.Perm l₂ → exportTypesUnsorted (fun _ => true) l₁ = exportTypesUnsorted (fun _ => true) l₂) := by
  intro h
  have := h [⟨1, 0, [0]⟩, ⟨2, 0, [0]⟩] [⟨2, 0, [0]⟩, ⟨1, 0, [0]⟩] (List.Perm.swap _ _ [])
  revert this
  decide

/-! ## complete, exactly once, main workspace only -/

/-- a type is exported iff it is a class/enum/alias with a declaration in the main workspace -/
theorem C35_types_member (isMain : Nat → Bool) (l : List TypeDecl) (t : TypeDecl) :
    t ∈ exportTypes isMain l ↔ t ∈ l ∧ (∃ f ∈ t.locs, isMain f = true) ∧ t.kind < 3 := by
  unfold exportTypes
  simp only [List.mem_filter, mem_isort, List.any_eq_true, decide_eq_true_eq]
  constructor
  · rintro ⟨⟨a, b⟩, c⟩; exact ⟨a, b, c⟩
  · rintro ⟨a, b, c⟩; exact ⟨⟨a, b⟩, c⟩

/-- … and exactly once (its name appears once in the export) -/
theorem C35_types_once (isMain : Nat → Bool) (l : List TypeDecl) (nd : (l.map (·.name)).Nodup) :
    ((exportTypes isMain l).map (·.name)).Nodup := by
  unfold exportTypes
  have h1 : ((isort typeLe l).map (·.name)).Nodup :=
    (List.Perm.nodup_iff ((isort_perm typeLe l).map (·.name))).mpr nd
  exact List.Nodup.sublist ((List.filter_sublist.trans List.filter_sublist).map _) h1

/-- nothing from library roots or std: every exported type has a main-workspace declaration -/
theorem C35_types_main_only (isMain : Nat → Bool) (l : List TypeDecl) :
    ∀ t ∈ exportTypes isMain l, ∃ f ∈ t.locs, isMain f = true :=
  fun t h => ((C35_types_member isMain l t).mp h).2.1

/-- a module is exported iff its file is in the main workspace and it exports a value; once per file -/
theorem C35_modules_member (isMain : Nat → Bool) (l : List ModuleInfo) (m : ModuleInfo) :
    m ∈ exportModules isMain l ↔ m ∈ l ∧ isMain m.file = true ∧ m.exports = true := by
  unfold exportModules
  simp only [List.mem_filter, mem_isort]
  constructor
  · rintro ⟨⟨a, b⟩, c⟩; exact ⟨a, b, c⟩
  · rintro ⟨a, b, c⟩; exact ⟨⟨a, b⟩, c⟩

theorem C35_modules_once (isMain : Nat → Bool) (l : List ModuleInfo) (nd : (l.map (·.file)).Nodup) :
    ((exportModules isMain l).map (·.file)).Nodup := by
  unfold exportModules
  have h1 : ((isort moduleLe l).map (·.file)).Nodup :=
    (List.Perm.nodup_iff ((isort_perm moduleLe l).map (·.file))).mpr nd
  exact List.Nodup.sublist ((List.filter_sublist.trans List.filter_sublist).map _) h1

/-- every exported global entry is a typed declaration in a main-workspace file -/
theorem C35_globals_main_only (isMain : Nat → Bool) (l : List GlobalDecl) :
    ∀ g ∈ exportGlobals isMain l, g ∈ l ∧ isMain g.file = true ∧ g.typed = true := by
  intro g hg
  unfold exportGlobals at hg
  have h1 := mem_isort.mp (mem_dedupName hg)
  simp only [List.mem_filter, mem_isort] at h1
  exact ⟨h1.1.1, h1.1.2, h1.2⟩

/-- each global name is listed exactly once … -/
theorem C35_globals_once (isMain : Nat → Bool) (l : List GlobalDecl) :
    ((exportGlobals isMain l).map (·.name)).Nodup := by
  unfold exportGlobals
  apply nodup_dedupName
  have := pairwise_isort globalNameLe globalNameLe_trans globalNameLe_total
    (((isort declLe l).filter (fun g => isMain g.file)).filter (fun g => g.typed))
  exact this.imp (by intro a b h; unfold globalNameLe at h; simpa using h)

/-- … and none is missing: a name is listed iff some main-workspace declaration of it has a type -/
theorem C35_globals_complete (isMain : Nat → Bool) (l : List GlobalDecl) (n : Nat) :
    n ∈ (exportGlobals isMain l).map (·.name) ↔ ∃ g ∈ l, g.name = n ∧ isMain g.file = true ∧ g.typed = true := by
  constructor
  · intro h
    obtain ⟨g, hg, rfl⟩ := List.mem_map.mp h
    exact ⟨g, (C35_globals_main_only isMain l g hg).1, rfl, (C35_globals_main_only isMain l g hg).2⟩
  · rintro ⟨g, hg, rfl, hm, ht⟩
    unfold exportGlobals
    apply name_dedupName
    rw [mem_isort]
    simp only [List.mem_filter, mem_isort]
    exact ⟨⟨hg, hm⟩, ht⟩

/-! Non-vacuity (tests, labelled as such). -/
example : (exportTypes (fun f => f < 10) [⟨5, 0, [20]⟩, ⟨3, 1, [2]⟩, ⟨1, 0, [30, 4]⟩, ⟨2, 7, [1]⟩, ⟨4, 2, [0]⟩]).map (·.name)
    = [1, 3, 4] := by decide
example : (exportGlobals (fun f => f < 10) [⟨7, 2, 5, true⟩, ⟨7, 1, 9, true⟩, ⟨3, 20, 0, true⟩, ⟨2, 1, 0, false⟩, ⟨7, 1, 2, true⟩, ⟨1, 3, 3, true⟩])
    = [⟨1, 3, 3, true⟩, ⟨7, 1, 2, true⟩] := by decide
example : (exportModules (fun f => f < 10) [⟨4, 1, true⟩, ⟨4, 0, true⟩, ⟨2, 11, true⟩, ⟨1, 5, false⟩, ⟨3, 2, true⟩]).map (·.file)
    = [2, 0, 1] := by decide

end Export
