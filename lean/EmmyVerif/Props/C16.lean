import EmmyVerif.Lemmas.TyUnion
import EmmyVerif.Lemmas.TyCheck
import EmmyVerif.Lemmas.TySubtype
import EmmyVerif.Lemmas.TyRefl2
import EmmyVerif.Lemmas.TyRefl3
import EmmyVerif.Lemmas.TyRefl4
import EmmyVerif.Lemmas.TyRefl5
import EmmyVerif.Lemmas.TyRefl6
/-!
# C16 — Type assignability obeys the basic laws of subtyping; batch union = fold

Statements about the executable models `TyM.unionAll` / `TyM.union` (`union_type.rs`) and
`TyM.checkGeneral` (`type_check/*`), tied to the Rust by the correspondence run of `./check C16`.
-/
namespace TyM
open Ty

/-- **C16 batch = fold.** For every environment and every list of types without `never`,
`union_type_all` (early `any`, structural fast path through `LuaType::from_vec`, otherwise the fold)
equals folding `union_type` from `never`, up to the order of the members of the resulting union
(the equality of `LuaUnionType`).

Full statement (all lists, `never` included): false for the current code and for the model — see
`C16_unionAll_never_witness`: `union_type_all` drops `never` members without looking at the
accumulator, while `union_type(A, never)` resolves an alias `A` of `any` to `any`. -/
theorem C16_unionAll_eq_fold (e : Env) (ts : List Ty) (hnv : ∀ t ∈ ts, t ≠ tNever) :
    UEquiv (unionAll e ts) (foldUnion e tNever ts) := by
  unfold unionAll
  rw [collect_no_never ts hnv]
  by_cases hany : tAny ∈ ts
  · rw [if_pos hany, fold_any_mem e ts _ hany]; exact UEquiv.refl _
  · rw [if_neg hany]
    match ts with
    | [] => exact UEquiv.refl _
    | t :: rest =>
      simp only
      by_cases hc : canUseStructural (t :: rest) = true
      · rw [if_pos hc]
        exact unionAll_fast e _ hc (fun x hx => ⟨fun h => hany (h ▸ hx), hnv x hx⟩) (by simp)
      · rw [if_neg hc]; exact UEquiv.refl _

/-- the fast path on its own: whenever `can_use_structural_union` accepts a batch (after `never`/`any`
were filtered), the structural result equals the fold -/
theorem C16_fast_path_eq_fold (e : Env) (rs : List Ty) (h : canUseStructural rs = true)
    (hne : ∀ t ∈ rs, t ≠ tAny ∧ t ≠ tNever) (hnonempty : rs ≠ []) :
    UEquiv (fromVec rs) (foldUnion e tNever rs) :=
  unionAll_fast e rs h hne hnonempty

/-- `UEquiv` between non-unions is equality: the theorem above is not weakened for single results -/
theorem C16_uequiv_single (a b : Ty) (ha : a.isUnion = false) (hb : b.isUnion = false)
    (hna : a ≠ tNever) (hnb : b ≠ tNever) (h : UEquiv a b) : a = b := by
  obtain ⟨_, hp⟩ := h
  have ma : Ty.members a = [a] := by
    cases a with
    | prim k => cases k <;> simp_all [Ty.members]
    | union _ => simp [Ty.isUnion] at ha
    | _ => simp [Ty.members]
  have mb : Ty.members b = [b] := by
    cases b with
    | prim k => cases k <;> simp_all [Ty.members]
    | union _ => simp [Ty.isUnion] at hb
    | _ => simp [Ty.members]
  rw [ma, mb] at hp
  have := List.perm_singleton.mp hp
  simpa using this

/-- with a `never` member after an alias of `any` the batch and the fold differ (model = code) -/
theorem C16_unionAll_never_witness :
    let e : Env := { decls := [{ name := "A".toList, kind := .alias (some tAny), supers := [] }] }
    unionAll e [.ref "A".toList, tNever] = .ref "A".toList ∧
      foldUnion e tNever [.ref "A".toList, tNever] = tAny := by
  decide

/-! ## Assignability laws on the model of `check_type_compact` -/

/-- **any/unknown accept everything (compact side).** Whatever is expected, a value of type `any` or
`unknown` is accepted. -/
theorem C16_check_compact_any (e : Env) (ip : List (Name × Ty)) (f lvl : Nat) (s c : Ty) (hc : c = tAny ∨ c = tUnknown) :
    checkGeneral e ip (f + 1) lvl s c = .ok :=
  checkGeneral_compact_likeAny e ip f lvl s c (by rcases hc with rfl | rfl <;> rfl)

/-- **any/unknown accept everything (expected side).** With `any`/`unknown` expected every compact type
that is not an alias reference is accepted at once; through alias references the only other outcomes
are the guard's `TypeRecursion` (alias chain deeper than 100) — never a mismatch. -/
theorem C16_check_any_unknown (e : Env) (s : Ty) (hs : s = tAny ∨ s = tUnknown) (f lvl : Nat) (c : Ty) :
    (escapeType e c = none → checkGeneral e ip (f + 1) lvl s c = .ok) ∧
    (checkGeneral e ip f lvl s c = .ok ∨ checkGeneral e ip f lvl s c = .recursion ∨
      checkGeneral e ip f lvl s c = .outOfFuel) :=
  ⟨checkGeneral_source_likeAny_no_alias e ip s hs f lvl c, checkGeneral_source_likeAny e ip s hs f lvl c⟩

/-- **reflexivity.** For every environment and every well-formed type `t` (`wf e t`, decidable: no
`self` / `never` / function type; every reference is a declared class; union members are atoms,
pairwise distinct, at least two; record keys distinct; arrays, tuples, `table<…>` of any arity and
records nest arbitrarily): a value of type `t` is accepted where `t` is expected — at every guard
level that leaves `lv t` levels (5 per array nesting, 2 per tuple / table / record nesting, 4 for a
union) and with `fd t` or more units of model fuel. `C16_check_deep_is_recursion_error` shows the level
bound is needed. Outside `wf`: aliases (covered by the tie and the oracle only), and the genuinely
non-reflexive `self`, `never[]` and unions mentioning undeclared classes. -/
theorem C16_check_refl (e : Env) (t : Ty) (hw : wf e t = true) (ip : List (Name × Ty)) (f lvl : Nat)
    (hl : lvl + lv t ≤ maxLevel) : checkGeneral e ip (f + fd t) lvl t t = .ok :=
  refl_ty e t hw ip f lvl hl

/-- at the entry point: every well-formed type whose measures fit the guard and the model's fuel -/
theorem C16_check_refl_top (e : Env) (t : Ty) (hw : wf e t = true) (hl : lv t ≤ maxLevel)
    (hf : fd t ≤ checkFuel) : checkTop e t t = .ok := by
  have := refl_ty e t hw [] (checkFuel - fd t) 0 (by omega)
  rwa [show checkFuel - fd t + fd t = checkFuel from by omega] at this

/-- **reflexivity with arbitrary references** (`wfA`): as `C16_check_refl`, but a reference may name
anything — a class, an alias (recursive and mutually recursive ones included; no acyclicity needed, the
comparison of a reference with itself never unfolds it), an undeclared name — on its own, as a tuple
member, `table<…>` parameter or record field, at any nesting. As the direct element of an array the
reference must satisfy `arrOk`: what it resolves to is not `any`, not `never` and not a union without
`nil` (strict array indexing compares `T | nil` with `T`, and `|` resolves an alias on its left — for
an alias of a nil-free union that leaves the expanded union against the alias, which needs the general
member law). Union members are still atoms. -/
theorem C16_check_refl_refs (e : Env) (t : Ty) (hw : wfA e t = true) (ip : List (Name × Ty)) (f lvl : Nat)
    (hl : lvl + lv t ≤ maxLevel) : checkGeneral e ip (f + fd t) lvl t t = .ok :=
  reflA_ty e t hw ip f lvl hl

/-- `wfA` is weaker than `wf`: `C16_check_refl_refs` subsumes `C16_check_refl` -/
theorem C16_wf_subsumed (e : Env) (t : Ty) (h : wf e t = true) : wfA e t = true := wfA_of_wf e t h

/-- **every member of a union is accepted where the union is expected** — for unions whose members
are atoms (`isAtom`: basic kinds except `self`/`never`, literal constants, references to declared
classes), any environment, any level with two levels of headroom. -/
theorem C16_check_union_member (e : Env) (ip : List (Name × Ty)) (f lvl : Nat) (ms : TyL) (c : Ty)
    (hms : ∀ m ∈ ms.toList, isAtom e m = true) (hc : c ∈ ms.toList) (hl : lvl + 1 < maxLevel) :
    checkGeneral e ip (f + 5) lvl (.union ms) c = .ok :=
  union_member_atoms e ip f lvl ms c hms hc hl

/-- **union member law with a compound member.** In a union whose members are atoms and one compound
type `k` — an array, tuple, `table<…>` or record, well-formed in the sense of `wfA` and nested
arbitrarily — every member, `k` included, is accepted where the union is expected: atoms against `k` and
`k` against atoms are always answered `ok` / `TypeNotMatch` (`atom_vs_compound_decided`,
`compound_vs_atom_decided`), so the scan over the members is never aborted before it reaches the match. -/
theorem C16_check_union_member_mixed (e : Env) (ip : List (Name × Ty)) (f lvl : Nat) (ms : TyL) (k c : Ty)
    (hk : isCompound k = true) (hwk : wfA e k = true)
    (hms : ∀ m ∈ ms.toList, isAtom e m = true ∨ m = k) (hc : c ∈ ms.toList)
    (hl : lvl + 1 + lv k ≤ maxLevel) (hl2 : lvl + 1 < maxLevel) :
    checkGeneral e ip (f + fd k + 5) lvl (.union ms) c = .ok :=
  union_member_mixed e ip f lvl ms k c hk hwk hms hc hl hl2

/-- **reflexivity of such a union** (e.g. `string | integer[] | nil`, `A | {x: B[]}`) -/
theorem C16_check_refl_union_mixed (e : Env) (ip : List (Name × Ty)) (f lvl : Nat) (ms : TyL) (k : Ty)
    (hk : isCompound k = true) (hwk : wfA e k = true)
    (hms : ∀ m ∈ ms.toList, isAtom e m = true ∨ m = k)
    (hl : lvl + 3 + lv k ≤ maxLevel) (hl2 : lvl + 3 < maxLevel) :
    checkGeneral e ip (f + fd k + 7) lvl (.union ms) (.union ms) = .ok :=
  union_mixed_refl e ip f lvl ms k hk hwk hms hl hl2

/-- **reflexivity, widest form** (`wfB`): arbitrary references as in `C16_check_refl_refs`, and unions
whose members are atoms plus at most one distinct compound member (`mixedOk`; the compound member itself
`wfA`) wherever a union may stand — on its own, inside tuples / `table<…>` / records, and as an array
element (where the expected element is `U | nil`). `lvB` / `fdB` are `lv` / `fd` with the union arm
`max (lv of the members) 2 + 4` levels and `max (fd of the members) 3 + 7` fuel. -/
theorem C16_check_refl_general (e : Env) (t : Ty) (hw : wfB e t = true) (ip : List (Name × Ty)) (f lvl : Nat)
    (hl : lvl + lvB t ≤ maxLevel) : checkGeneral e ip (f + fdB t) lvl t t = .ok :=
  reflB_ty e t hw ip f lvl hl

/-- **the guard's error branch** (`check_deep_is_recursion_error`): with strict array indexing every
array nesting costs two guard levels, so an array type nested 51 or more times is answered
`TypeRecursion` even against itself — for every environment. (Reflexivity therefore needs the nesting
bound of `WellFormed`.) -/
theorem C16_check_deep_is_recursion_error (e : Env) (harr : e.arrayIndex = true) (k : Nat)
    (h1 : 51 ≤ k) (h2 : k ≤ 239) :
    checkTop e (arrN k (.prim .string)) (arrN k (.prim .string)) = .recursion := by
  have := check_deep_recursion e harr [] k 0 (checkFuel - 3) (by decide) (by unfold maxLevel; omega)
    (by unfold checkFuel; omega)
  simpa [checkTop, checkFuel] using this

/-- a `table<…>` instance of any arity is assignable to itself (finding `C16-table-arity`, fixed:
equal arities are compared parameter by parameter) -/
theorem C16_refl_table_any_arity :
    checkTop { decls := [] } (.tgen (.cons (.prim .string) .nil)) (.tgen (.cons (.prim .string) .nil)) = .ok ∧
    checkTop { decls := [] } (.tgen (TyL.ofList [.prim .string, .prim .integer, .prim .boolean]))
      (.tgen (TyL.ofList [.prim .string, .prim .integer, .prim .boolean])) = .ok := by
  decide +kernel

/-- `self` is not assignable to itself either (the dispatch of `check_general_type_compact` has no
`SelfInfer` arm) -/
theorem C16_refl_self_witness :
    checkTop { decls := [] } (.prim .selfInfer) (.prim .selfInfer) = .notMatch := by
  decide +kernel

/-! Non-vacuity (tests, labelled as such). -/
example : wf { decls := [{ name := "A".toList, kind := .cls, supers := [] }] }
    (.array (.tgen (TyL.ofList [.prim .string, Ty.mk [.ref "A".toList, .lit (.docInt 1), tNil]]))) = true := by
  decide
example : checkTop { decls := [] } (.array (.prim .string)) (.array (.prim .string)) = .ok := by decide +kernel
example : checkTop { decls := [{ name := "A".toList, kind := .cls, supers := [] },
    { name := "B".toList, kind := .cls, supers := ["A".toList] },
    { name := "C".toList, kind := .cls, supers := ["B".toList] }] }
    (.ref "A".toList) (.ref "C".toList) = .ok := by decide +kernel
example : canUseStructural [.prim .string, .array (.prim .integer), tNil, .prim .string] = true := by decide
example : unionAll { decls := [] } [.prim .string, tNil, .array (.prim .integer), .prim .string]
    = Ty.mk [.prim .string, tNil, .array (.prim .integer)] := by decide
example : foldUnion { decls := [] } tNever [.prim .string, tNil, .array (.prim .integer), .prim .string]
    = Ty.mk [tNil, .prim .string, .array (.prim .integer)] := by decide
example : canUseStructural [.prim .number, .lit (.docInt 1)] = false := by decide

/-- non-vacuity of `wfA` (test): a record of a recursive alias, an array of an alias of a record, and an
undeclared name inside a tuple -/
example :
    let e : Env := { decls := [⟨"R".toList, .alias (some (.array (.ref "R".toList))), []⟩,
      ⟨"P".toList, .alias (some (.object (.cons "x".toList (.prim .integer) .nil))), []⟩] }
    wfA e (.object (.cons "r".toList (.ref "R".toList) (.cons "ps".toList (.array (.ref "P".toList))
      (.cons "t".toList (.tuple (TyL.ofList [.ref "Nope".toList, .prim .string])) .nil)))) = true := by
  decide +kernel

/-- non-vacuity of `wfB` (test): `(string | integer[] | nil)[]` inside a record, next to a recursive alias -/
example :
    let e : Env := { decls := [⟨"R".toList, .alias (some (.array (.ref "R".toList))), []⟩] }
    let t : Ty := .object (.cons "r".toList (.ref "R".toList) (.cons "xs".toList
      (.array (Ty.mk [.prim .string, .array (.prim .integer), tNil])) .nil))
    wfB e t = true ∧ lvB t ≤ maxLevel ∧ fdB t ≤ checkFuel ∧ checkTop e t t = .ok := by
  decide +kernel

end TyM
