import EmmyVerif.Lemmas.FlowSound
/-!
# C15 — flow-narrowed types contain the runtime value's type (partial: fragment `F`)

Model: `EmmyVerif/Model/Flow.lean` (type algebra) and `EmmyVerif/Model/FlowProg.lean` (`F`, `Sem` = `Prog.run`,
`TypeAt` = `Prog.typeAt`). The theorems hold for **every** program of `F` (any number of variables, any
nesting of `if/elseif/else`, any `not/and/or` combination of the guards `x`, `type(x) == "T"`,
`type(x) ~= "T"`, `x == nil`, `x ~= nil`, `x == <literal>`, `x ~= <literal>`, `t_x == "T"` for a stored
`local t_x = type(x)`, any literal assignments `x = <lit>` and variable assignments `x = y`); there is no bound on program size.

Outside `F` (search only, stated in the manifest): loops (C41), member paths, casts, correlated conditions,
calls, the query cache of the real engine (the model evaluates each `(variable, node, mode)` query as a
function, which is what the cache memoises).
-/
namespace C15
open Flow

/-- the Lua type (`type()` string) of the members of a non-union analyzer type -/
def luaType : Atom → Option TName
  | .nil => some .nil
  | .table | .tblC _ => some .table
  | .boolean | .boolC _ => some .boolean
  | .string | .strC _ => some .string
  | .integer | .number | .intC _ | .fltC _ => some .number
  | .unknown | .never => none

theorem has_luaType {a : Atom} {v : Val} (h : a.has v = true) : luaType a = some v.typeName := by
  cases a <;> cases v <;> simp_all [luaType, Atom.has, Val.typeName]

/-- decidable form of the side condition for stored-type guards (`local t_x = type(v_x)` in the preamble,
`t_x == "T"` in a condition): `S` lists the guarded variables with the stored string; the string is the `type()` of
the variable's initial value, every such guard of the body is listed, and no listed variable is assigned.
For a program without stored-type guards `S = []` and the condition says just that. -/
def storedSafe (p : Prog) (S : List (Nat × TName)) : Bool :=
  p.body.ok S && S.all fun q => (p.initEnv.get q.1).typeName == q.2

theorem storedSafe_ok {p : Prog} {S : List (Nat × TName)} (h : storedSafe p S = true) :
    p.body.ok S = true ∧ StoredOK S p.initEnv := by
  simp only [storedSafe, Bool.and_eq_true, List.all_eq_true, beq_iff_eq] at h
  exact ⟨h.1, fun q hq => h.2 q hq⟩

/-- **narrow_sound.** If `Sem` reaches probe `id` while variable `x` holds `v`, the type `TypeAt` gives for
`x` at that probe contains `v` (value level: a literal type such as `1` or `"a"` contains only that value,
`true`/`false` are told apart). Holds for every program of `F` whose stored-type guards (if any) are on variables
that are never assigned (`storedSafe`; the current code violates the statement otherwise, `C15_witness_stored`). -/
theorem narrow_sound (p : Prog) (S : List (Nat × TName)) (hS : storedSafe p S = true)
    (id x : Nat) (v : Val) (h : (id, x, v) ∈ p.run) :
    ∃ t, (id, x, t) ∈ p.typeAt ∧ t.has v = true := by
  obtain ⟨hok, hst⟩ := storedSafe_ok hS
  have hs := (Block.aexec_sound (W := fun _ => false) p.decls.length p.declTy (fun _ _ _ => rfl) p.body p.initPt
    p.initEnv (by simp [Prog.initEnv]) hst hok (initPt_sound p)).2.2.2
  exact hs (id, x, v) h rfl

/-- **narrow_sound**, as the property states it: the inferred type has a member whose Lua type is the
runtime value's `type()`. In particular the inferred type is neither `never` nor `unknown`. -/
theorem narrow_sound_type (p : Prog) (S : List (Nat × TName)) (hS : storedSafe p S = true)
    (id x : Nat) (v : Val) (h : (id, x, v) ∈ p.run) :
    ∃ t, (id, x, t) ∈ p.typeAt ∧ ∃ a ∈ t, luaType a = some v.typeName := by
  obtain ⟨t, ht, hv⟩ := narrow_sound p S hS id x v h
  obtain ⟨a, ha, hav⟩ := Ty.has_iff.mp hv
  exact ⟨t, ht, a, ha, has_luaType hav⟩

/-- **unreachable_sound.** A probe whose inferred type has no members (`never`; also `unknown`, which `F` only
produces on edges that cannot be taken) is never executed. -/
theorem unreachable_sound (p : Prog) (S : List (Nat × TName)) (hS : storedSafe p S = true) (id x : Nat)
    (h : ∀ t, (id, x, t) ∈ p.typeAt → t = [.never] ∨ t = [.unknown]) : ∀ v, (id, x, v) ∉ p.run := by
  intro v hv
  obtain ⟨t, ht, hhas⟩ := narrow_sound p S hS id x v hv
  rcases h t ht with rfl | rfl <;> simp [Ty.has, Atom.has] at hhas

/-- **C15_witness_stored.** `local v0 = 1; local t0 = type(v0); v0 = "s1"; if t0 == "number" then p(0, v0) end`:
the guard on the stale `t0` narrows `v0` to `number` while it holds a string (open known finding). -/
def wStored : Prog :=
  ⟨[some (.int 1)],
   .cons (.assign 0 (.str 1))
   (.cons (.ite (.leaf (.stored 0 .number .number false)) (.cons (.probe 0 0) .nil) .none) .nil)⟩

theorem C15_witness_stored :
    wStored.run = [(0, 0, .str 1)] ∧ wStored.typeAt = [(0, 0, [.number])] ∧
    ¬ (∃ t, (0, 0, t) ∈ wStored.typeAt ∧ t.has (.str 1) = true) := by
  have h2 : wStored.typeAt = [(0, 0, [.number])] := by decide
  refine ⟨by decide, h2, ?_⟩
  rintro ⟨t, ht, hv⟩
  rw [h2] at ht
  simp only [List.mem_cons, Prod.mk.injEq, true_and, List.not_mem_nil, or_false] at ht
  subst ht
  simp [Ty.has, Atom.has] at hv

/-- The narrowing operations never exclude a possible runtime value: statement for each guard of `F`
(these are the per-edge obligations `narrow_sound` rests on). -/
theorem guards_sound (t : Ty) (v : Val) (h : t.has v = true) :
    (v.truthy = true → (removeFalseOrNil t).has v = true) ∧
    (v.truthy = false → (narrowFalseOrNil t).has v = true) ∧
    (∀ g : TName, v.typeName = g → (guardTrue t g.atom).has v = true) ∧
    (∀ g : TName, v.typeName ≠ g → (guardFalse t g.atom).has v = true) ∧
    (∀ (l : Lit) flow, (∀ i, l ≠ .tbl i) → (v == l.val) = flow → (eqLit t l.ty flow).has v = true) :=
  ⟨fun hv => removeFalseOrNil_sound hv h, fun hv => narrowFalseOrNil_sound hv h,
   fun _ hg => guardTrue_sound hg h, fun _ hg => guardFalse_sound hg h,
   fun _ _ hl hf => eqLit_sound hl hf h⟩

/-- Merging branches never loses a value (`TypeOps::Union`). -/
theorem union_sound (s t : Ty) (v : Val) (h : s.has v = true ∨ t.has v = true) : (unionTy s t).has v = true :=
  unionTy_has h

/-- After `x = <literal>` the inferred type of `x` contains the literal's value, whatever the type before the
assignment was; after `x = y` it contains every value the type of `y` contains. -/
theorem assignment_sound (d : Atom) (src : Ty) :
    (∀ l : Lit, (assignResult d src l.ty).has l.val = true) ∧
    (∀ (t : Ty) (v : Val), t.has v = true → (assignResultTy d src t).has v = true) :=
  ⟨fun _ => assignResult_sound, fun _ _ hv => assignResultTy_sound hv⟩

/-! ### the hypotheses are satisfiable; the model computes what the analyzer shows -/

/-- `local v0 = nil; v0 = 1; if v0 then p(0, v0) else p(1, v0) end; p(2, v0)` -/
def ex1 : Prog :=
  ⟨[some .nil],
   .cons (.assign 0 (.int 1))
   (.cons (.ite (.leaf (.truthy 0)) (.cons (.probe 0 0) .nil) (.els (.cons (.probe 1 0) .nil)))
   (.cons (.probe 2 0) .nil))⟩

example : ex1.run = [(0, 0, .int 1), (2, 0, .int 1)] := by decide
example : ex1.typeAt = [(0, 0, [.intC 1]), (1, 0, [.never]), (2, 0, [.intC 1])] := by decide
example : ∀ v, (1, 0, v) ∉ ex1.run := by
  apply unreachable_sound ex1 [] (by decide)
  intro t ht
  have hta : ex1.typeAt = [(0, 0, [.intC 1]), (1, 0, [.never]), (2, 0, [.intC 1])] := by decide
  rw [hta] at ht
  simp at ht
  exact .inl ht

/-- `local v0; local v1 = true; if v1 and type(v0) == "nil" then v0 = "s" else v0 = 2 end; p(0, v0)
if type(v0) == "string" then p(1, v0) else p(2, v0) end` -/
def ex2 : Prog :=
  ⟨[none, some (.bool true)],
   .cons (.ite (.and (.leaf (.truthy 1)) (.leaf (.typeIs 0 .nil false))) (.cons (.assign 0 (.str 1)) .nil)
            (.els (.cons (.assign 0 (.int 2)) .nil)))
   (.cons (.probe 0 0)
   (.cons (.ite (.leaf (.typeIs 0 .string false)) (.cons (.probe 1 0) .nil) (.els (.cons (.probe 2 0) .nil))) .nil))⟩

example : ex2.run = [(0, 0, .str 1), (1, 0, .str 1)] := by decide
example : ex2.typeAt = [(0, 0, [.strC 1, .intC 2]), (1, 0, [.strC 1]), (2, 0, [.intC 2])] := by decide

/-- `local v0 = 1; v0 = 2; if v0 == 2 then p(0, v0) else p(1, v0) end; if v0 ~= "s1" then p(2, v0) end` -/
def ex3 : Prog :=
  ⟨[some (.int 1)],
   .cons (.assign 0 (.int 2))
   (.cons (.ite (.leaf (.eqLit 0 (.int 2) false)) (.cons (.probe 0 0) .nil) (.els (.cons (.probe 1 0) .nil)))
   (.cons (.ite (.leaf (.eqLit 0 (.str 1) true)) (.cons (.probe 2 0) .nil) .none) .nil))⟩

example : storedSafe ex3 [] = true := by decide
example : ex3.run = [(0, 0, .int 2), (2, 0, .int 2)] := by decide
example : ex3.typeAt = [(0, 0, [.intC 2]), (1, 0, [.integer]), (2, 0, [.integer])] := by decide

/-- `local v0 = true; local v1 = nil; local v2 = "s1"; if v0 then v1 = 1 end; if v0 then v2 = nil end; v2 = v1; p(0, v2)`
(the assigned union `1|nil` keeps both members over `string|nil`, commit 5dcb194) -/
def ex4 : Prog :=
  ⟨[some (.bool true), some .nil, some (.str 1)],
   .cons (.ite (.leaf (.truthy 0)) (.cons (.assign 1 (.int 1)) .nil) .none)
   (.cons (.ite (.leaf (.truthy 0)) (.cons (.assign 2 .nil) .nil) .none)
   (.cons (.assignVar 2 1) (.cons (.probe 0 2) .nil)))⟩

example : storedSafe ex4 [] = true := by decide
example : ex4.run = [(0, 2, .int 1)] := by decide
example : ex4.typeAt = [(0, 2, [.intC 1, .nil])] := by decide

end C15
