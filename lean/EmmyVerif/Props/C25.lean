import EmmyVerif.Lemmas.Pos
import EmmyVerif.Gen.ProtoPosSites
/-!
# C25 — Position-based requests handle any position without crashing (partial)

What is proved: the **prelude** every position-taking handler shares never violates rowan's preconditions,
for every document text and every `(line, character)` / range a client can send:
`token_at_offset(o)` is only reached with `o ≤ root.end`, `TextRange::new(s, e)` only with `s ≤ e` and
`e ≤ |text|`. What the handlers do *after* they hold the token is not modelled (searched by the in-process
oracle: every position-taking request at every token boundary, mid-token, past end of line, past end of
document, inverted/empty ranges, valid and invalid documents; none may panic) — hence *partial*.

Full statement (not provable here; handler bodies are not modelled):
  ∀ document position request, the request's task completes with a result or null and does not panic.
-/
namespace Pos

/-- **C25 offset in bounds.** Whatever `(line, character)` the client sends, the offset handed on is
inside the document (from `C22_offset_in_bounds`). -/
theorem C25_offset_in_bounds (t : List Char) (line col off : Nat)
    (h : Text.getOffset t line col = some off) : off ≤ Text.len8 t :=
  Text.C22_offset_in_bounds t line col off h

/-- **C25 lookup precondition.** `token_at_offset` is only reached with an offset inside the root's
range — for *any* root end, also when the tree were shorter than the text. -/
theorem C25_lookup_precondition_partial (t : List Char) (rootEnd line col off : Nat)
    (h : prelude t rootEnd line col = .lookup off) : off ≤ rootEnd ∧ off ≤ Text.len8 t := by
  unfold prelude at h
  split at h
  · cases h
  · rename_i o ho
    split at h
    · cases h
    · cases h
      exact ⟨by omega, Text.C22_offset_in_bounds t line col _ ho⟩

/-- with a lossless tree (`root.end = |text|`, C01) the guard never fires: it is a second line of
defence, not what makes the lookup safe -/
theorem C25_guard_redundant_when_lossless (t : List Char) (line col : Nat) :
    prelude t (Text.len8 t) line col ≠ .guarded := by
  unfold prelude
  split
  · simp
  · rename_i o ho
    have := Text.C22_offset_in_bounds t line col o ho
    split
    · omega
    · simp

/-- **C25 range in bounds.** `to_rowan_range` hands `TextRange::new` only ordered, in-document
bounds — for every client range, inverted ones included. -/
theorem C25_range_in_bounds_partial (t : List Char) (sl sc el ec s e : Nat)
    (h : toRowanRange t sl sc el ec = some (s, e)) : s ≤ e ∧ e ≤ Text.len8 t := by
  obtain ⟨_, h2, h3⟩ := toRowanRange_some t sl sc el ec s e h
  exact ⟨h3, Text.C22_offset_in_bounds t el ec e h2⟩

/-- T-src: every `token_at_offset` / `covering_element` call whose argument derives from a client
position is preceded by the end-of-document guard, and `to_rowan_range` checks the order of its bounds
(list re-extracted from the handlers on every run). -/
theorem C25_client_sites_guarded :
    (∀ s ∈ Gen.ProtoPosSites.sites, s.client = true → s.guarded = true) ∧
    Gen.ProtoPosSites.toRowanRangeChecksOrder = true := by decide

/-- T-src: the extractor still sees the handlers the property names -/
theorem C25_sites_cover_named_handlers :
    (["hover/mod.rs", "definition/mod.rs", "references/mod.rs", "rename/mod.rs", "completion/mod.rs",
      "signature_helper/mod.rs", "document_highlight/mod.rs", "document_selection_range/mod.rs",
      "inline_values/build_inline_values.rs", "call_hierarchy/mod.rs",
      "code_actions/actions/build_fix_code.rs"].all fun f =>
        Gen.ProtoPosSites.sites.any fun s => s.file == f && s.client) = true := by decide

/-! ### Non-vacuity; the shape the fix removed (tests, labelled as such) -/

-- the code before the fix: `TextRange::new` reached with start > end (modelled as `error`)
example : (match Text.toRowanRange "ab\ncd".toList 1 1 0 0 with | some (.error _) => true | _ => false) = true := by decide
-- after the fix
example : toRowanRange "ab\ncd".toList 1 1 0 0 = none := by decide
example : toRowanRange "ab\ncd".toList 0 1 1 99 = some (1, 5) := by decide
example : prelude "ab\ncd".toList 5 1 99 = .lookup 5 := by decide
example : prelude "ab\ncd".toList 3 1 99 = .guarded := by decide
example : prelude "ab\ncd".toList 5 7 0 = .noOffset := by decide

end Pos
