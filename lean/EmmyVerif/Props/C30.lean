import EmmyVerif.Lemmas.SchedDiag
import EmmyVerif.Gen.SchedDiagCfg
/-!
# C30 — Published diagnostics converge to the current content

Model: `SchedDiag` (main loop handling edits/removals in order; `add_diagnostic_task` = cancel the stored
token, store a fresh one, spawn a task; the task wakes at an arbitrary time or exits when cancelled,
diagnoses the *current* text and publishes while holding the analysis read lock, then removes the map
entry; other publishers under the lock may run at any time). Diagnosis = a function of the analysed text.

* `C30_last_publish_current` — for **every** event list and **every** schedule (arbitrary timers), at
  quiescence the last publication for every file is the diagnosis of the text analysed now, and a file
  that is not analysed ends with the empty set (or never had a publication).
* The proof rests on exactly the two mechanisms the property names; switching either off gives a
  counter-schedule by `decide`: `C30_publish_outside_lock_stale`, `C30_no_token_replacement_starves`.
* `C30_token_map_inconsistent` (information): a finished old task removes the *newer* task's map entry;
  harmless for convergence (the newer task just cannot be cancelled any more).
* Tie (T-src): `Gen.diagCfg` is read from `file_diagnostic.rs` on every run (`C30_cfg_real`), the
  update-then-schedule / remove-then-clear order from the handlers (`C30_handler_order`).

Partial: real timers are "fire at any time after spawn"; cross-file effects on diagnoses are outside
(diagnosis depends on one file's text only).
-/
namespace SchedDiag

/-- **C30.** -/
theorem C30_last_publish_current (es : List Event) (sched : List Label) (s : St)
    (hrun : run realCfg (init es) sched = some s) (hq : quiescent s) (u : Uri) : Settled s u := by
  have inv := inv_run (inv_init es) hrun
  obtain ⟨_, hc, hdone⟩ := hq
  rcases inv.owe u with hs | hm | ⟨_, j, t, ht, _, _, hp⟩
  · exact hs
  · rw [hc] at hm; rcases hm with hm | hm <;> cases hm
  · have := hdone t (List.mem_of_getElem? ht)
    rcases hp with e | e <;> rw [this] at e <;> cases e

/-- unfolded reading of `Settled` -/
theorem C30_settled_meaning (s : St) (u : Uri) (h : Settled s u) :
    (∀ t, s.an u = some t → lastPub s u = some (some t)) ∧
    (s.an u = none → lastPub s u = some none ∨ lastPub s u = none) := by
  unfold Settled at h
  constructor
  · intro t ht; rw [ht] at h; exact h
  · intro hn; rw [hn] at h; exact h

/-- the source has both mechanisms -/
theorem C30_cfg_real : Gen.diagCfg = realCfg := by decide

theorem C30_handler_order : Gen.diagHandlerOrder = true := by decide

/-- a `didChangeWatchedFiles` batch is, as in the model, one `edit` event per file: every file gets its own task and
token (`add_files_diagnostic_task` loops over `add_diagnostic_task`); a token shared by the batch would let a later
edit of one file cancel the diagnosis of all the others -/
theorem C30_batch_per_file_token : Gen.diagBatchPerFileToken = true := by decide

/-- **C30 for the configuration found in the source.** -/
theorem C30_server_last_publish_current (es : List Event) (sched : List Label) (s : St)
    (hrun : run Gen.diagCfg (init es) sched = some s) (hq : quiescent s) (u : Uri) : Settled s u := by
  rw [C30_cfg_real] at hrun
  exact C30_last_publish_current es sched s hrun hq u

/-- satisfiable on a non-trivial run: two edits of file 0 (the first task, already awake, is overtaken and publishes the newer text),
an edit and a removal of file 1 with its task waking after the removal -/
example :
    ∃ s, run realCfg (init [.edit 0 1, .edit 0 2, .edit 1 3, .remove 1])
      [.main, .main, .main, .wake 0, .main, .main, .main, .diag 0, .main, .main, .main, .main, .main, .main,
       .wake 2, .diag 2, .rmTok 2, .wake 1, .diag 1, .rmTok 1, .rmTok 0] = some s ∧
      quiescentB s = true ∧ s.an 0 = some 2 ∧ lastPub s 0 = some (some 2) ∧ s.an 1 = none ∧ lastPub s 1 = some none := by
  decide

/-! ## Each mechanism is needed -/

/-- **publish outside the lock**: task 0 diagnoses `t1`, releases the lock; the edit to `t2` and its task
publish `t2`; task 0 then publishes its stale result — the last publication is for `t1`. -/
theorem C30_publish_outside_lock_stale :
    ∃ s, run { publishUnderLock := false, freshToken := true } (init [.edit 0 1, .edit 0 2])
      [.main, .main, .main, .wake 0, .diag 0, .main, .main, .main, .wake 1, .diag 1, .pub 1, .rmTok 1, .pub 0, .rmTok 0]
        = some s ∧ quiescentB s = true ∧ s.an 0 = some 2 ∧ lastPub s 0 = some (some 1) ∧ settledB s 0 = false := by
  decide

/-- **no token replacement** (the stored token is cancelled and reused): the newest task is born cancelled,
both tasks exit, nothing is ever published for the current text. -/
theorem C30_no_token_replacement_starves :
    ∃ s, run { publishUnderLock := true, freshToken := false } (init [.edit 0 1, .edit 0 2])
      [.main, .main, .main, .main, .main, .main, .cancelExit 0, .cancelExit 1]
        = some s ∧ quiescentB s = true ∧ s.an 0 = some 2 ∧ lastPub s 0 = none ∧ settledB s 0 = false := by
  decide

/-- information: in the real configuration an old task's completion removes the newer task's map entry -/
theorem C30_token_map_inconsistent :
    ∃ s, run realCfg (init [.edit 0 1, .edit 0 2])
      [.main, .main, .main, .wake 0, .diag 0, .main, .main, .main, .rmTok 0] = some s ∧
      s.tokens 0 = none ∧ s.tasks[1]? = some { u := 0, tok := 1, phase := .sleeping } := by
  decide

end SchedDiag
