import EmmyVerif.Lemmas.TextSplit
/-!
# C23 — Positions follow the LSP encoding (UTF-16) and line-ending rules (`\n`, `\r\n`, `\r`)
-/
namespace Text

def isTerm (c : Char) : Bool := c = '\n' || c = '\r'
def NoTerm (cs : List Char) : Prop := ∀ c ∈ cs, isTerm c = false

/-- what a line of a correctly split document looks like -/
def LineOK (l : Line) : Prop :=
  if l.terminated then
    ∃ body term, l.chars = body ++ term ∧ NoTerm body ∧
      (term = ['\n'] ∨ term = ['\r', '\n'] ∨ term = ['\r'])
  else NoTerm l.chars

theorem noTerm_append_single {cur : List Char} {c : Char} (h : NoTerm cur) (hc : isTerm c = false) :
    NoTerm (cur ++ [c]) := by
  intro x hx
  simp at hx
  rcases hx with hx | hx
  · exact h x hx
  · subst hx; exact hc

theorem lines_ok_aux (t cur : List Char) (hcur : NoTerm cur) : ∀ l ∈ splitAux t cur, LineOK l := by
  fun_induction splitAux t cur
  case case1 cur => intro l hl; simp at hl; subst hl; simpa [LineOK] using hcur
  case case2 c cur h =>
    intro l hl
    simp at hl
    rcases hl with hl | hl
    · subst hl
      refine ⟨cur, [c], rfl, hcur, ?_⟩
      rcases h with h | h <;> simp [h]
    · subst hl; simp [LineOK, NoTerm]
  case case3 c cur h =>
    intro l hl; simp at hl; subst hl
    simp only [LineOK]
    apply noTerm_append_single hcur
    simp [isTerm]; simpa using h
  case case4 c' cs cur ih =>
    intro l hl
    simp at hl
    rcases hl with hl | hl
    · subst hl; exact ⟨cur, ['\n'], rfl, hcur, by simp⟩
    · exact ih (by simp [NoTerm]) l hl
  case case5 cs cur h ih =>
    intro l hl
    simp at hl
    rcases hl with hl | hl
    · subst hl; exact ⟨cur, ['\r', '\n'], rfl, hcur, by simp⟩
    · exact ih (by simp [NoTerm]) l hl
  case case6 c' cs cur h1 h2 ih =>
    intro l hl
    simp at hl
    rcases hl with hl | hl
    · subst hl; exact ⟨cur, ['\r'], rfl, hcur, by simp⟩
    · exact ih (by simp [NoTerm]) l hl
  case case7 c c' cs cur h1 h2 ih =>
    exact ih (noTerm_append_single hcur (by simp [isTerm, h1, h2]))

/-- **C23 line split.** The lines of a text concatenate back to the text; every line but the last
is `body ++ terminator` with terminator `\n`, `\r\n` or a lone `\r` and no line-break character
in the body; the last line contains no line-break character. -/
theorem C23_line_split (t : List Char) :
    join (splitLines t) = t ∧ WF (splitLines t) ∧ ∀ l ∈ splitLines t, LineOK l :=
  ⟨by simp [splitLines, join_splitAux], wf_splitAux t [], lines_ok_aux t [] (by simp [NoTerm])⟩

/-- position of a boundary inside line `i` of a document -/
theorem lineCol_in_line (d : Doc) (i : Nat) (l : Line) (hl : d[i]? = some l) (p s : List Char)
    (hp : l.chars = p ++ s) (hs : s ≠ [] ∨ i + 1 = d.length) (n : Nat) :
    lineCol d (len8 ((d.take i).flatMap (·.chars)) + len8 p) n = some (n + i, len16 p) := by
  induction d generalizing i n with
  | nil => simp at hl
  | cons x rest ih =>
    cases i with
    | zero =>
      simp at hl; subst hl
      cases rest with
      | nil => simp [lineCol, len8, hp, colOf_prefix]
      | cons l' rest' =>
        have hs' : s ≠ [] := by
          rcases hs with h | h
          · exact h
          · simp at h
        have := len8_pos_of_ne_nil hs'
        have hlt : len8 p < len8 x.chars := by rw [hp]; simp; omega
        simp only [List.take_zero, List.flatMap_nil, len8, Nat.zero_add, lineCol]
        rw [if_pos hlt, hp, colOf_prefix]; simp
    | succ k =>
      cases rest with
      | nil => simp at hl
      | cons l' rest' =>
        have h' := ih k (by simpa using hl) (by
          rcases hs with h | h
          · exact Or.inl h
          · right; simp at h ⊢; omega) (n + 1)
        have hge : ¬ (len8 ((List.take (k + 1) (x :: l' :: rest')).flatMap (·.chars)) + len8 p < len8 x.chars) := by
          simp [List.take_succ_cons, List.flatMap_cons]; omega
        rw [lineCol, if_neg hge]
        have : len8 ((List.take (k + 1) (x :: l' :: rest')).flatMap (·.chars)) + len8 p - len8 x.chars
            = len8 ((List.take k (l' :: rest')).flatMap (·.chars)) + len8 p := by
          simp [List.take_succ_cons, List.flatMap_cons]; omega
        rw [this, h']
        congr 2; omega

/-- **C23 UTF-16 columns.** For line `i` of the text and any prefix `p` of that line (not the whole
line unless it is the last one), the position of the byte offset `lineStart + |p|₈` is
`(i, |p|₁₆)`: the character is the number of UTF-16 code units before it on its line. -/
theorem C23_utf16_column (t : List Char) (i : Nat) (l : Line) (hl : (splitLines t)[i]? = some l)
    (p s : List Char) (hp : l.chars = p ++ s) (hs : s ≠ [] ∨ i + 1 = lineCount t) :
    getLineCol t (len8 (((splitLines t).take i).flatMap (·.chars)) + len8 p) = some (i, len16 p) := by
  have := lineCol_in_line (splitLines t) i l hl p s hp hs 0
  simpa [getLineCol] using this

/-- UTF-16 length of a character: one code unit in the BMP, two (a surrogate pair) above. -/
theorem C23_u16_def (c : Char) : u16 c = if c.val < 0x10000 then 1 else 2 := rfl

example : getLineCol "a😀b".toList 5 = some (0, 3) := by decide
example : (splitLines "a\rb\r\nc\n".toList).map (·.chars) =
    ["a\r".toList, "b\r\n".toList, "c\n".toList, []] := by decide

end Text
