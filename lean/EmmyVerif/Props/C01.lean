import EmmyVerif.Lemmas.Events
/-!
# C01 — Syntax trees are lossless for every input text

Layer `Green`/`Events` (this file, first landing): the tree that `LuaTreeBuilder::build` + `finish`
produce from **any** `MarkEvent` list — balanced or not, with any forward-`parent` structure — has
exactly the `EatToken` tokens of the list as its leaves, once each, in order; hence its text is the
concatenation of the token texts. Losslessness therefore does not depend on the grammar keeping its
`NodeStart`/`NodeEnd` events balanced (it did before the `fix:` commits: a surplus `NodeEnd` closed
the root and `finish` kept only the first top-level element).

The models (`Green.closeNode`, `Green.finishNode`, `Green.finish`, `Green.run`, `Green.build`) are
tied to `lua_green_builder.rs` / `lua_tree_builder.rs` by the correspondence run of `./check C01`
(random event lists and the event streams of real parses, tree S-expressions compared).
-/
namespace Green

/-- **C01 tokens.** For every event list on which the builder does not panic, the tokens of the
tree, left to right, are exactly the `EatToken` events of the list, in order: nothing dropped,
nothing duplicated, nothing reordered. -/
theorem C01_build_leaves (evs : List MEv) (r : Elem) (h : build evs = some r) :
    r.leaves = evLeaves evs :=
  build_leaves evs r h

/-- **C01 text.** The text of the tree is the concatenation of the texts of the `EatToken`
events, for every event list. -/
theorem C01_build_text (evs : List MEv) (r : Elem) (h : build evs = some r) :
    r.text = catText (evLeaves evs) := by
  simp [Elem.text, build_leaves evs r h]

/-- **C01 builder calls.** The same for any sequence of direct builder calls
(`start_node`/`token`/`finish_node` in any order, any number of surplus or missing `finish_node`s),
which never panics. -/
theorem C01_ops_leaves (ops : List Op) : (buildOps ops).leaves = opLeaves ops := by
  simp [buildOps, finish_leaves, steps_leaves, St.empty]

/-- The root of every built tree is a `Chunk` node. -/
theorem C01_root_is_chunk (evs : List MEv) (r : Elem) (h : build evs = some r) :
    ∃ cs, r = Elem.node .chunk cs := by
  unfold build at h
  split at h
  · cases h
  · cases h; exact root_is_chunk _

/-! Non-vacuity (tests, labelled as such): an unbalanced stream with two surplus `NodeEnd`s — the
shape of the pre-fix defect `'s' --region r\n--region r\n--c\n[[l]]` — keeps its last token, and
the root is a single Chunk holding everything. -/
example :
    build [.start .block 0, .tok (.other 1) ['s'], .fin, .fin, .fin, .tok (.other 2) ['l']]
      = some (.node .chunk [.node .block [.tok (.other 1) ['s']], .tok (.other 2) ['l']]) := by rfl

/-- forward parent links: `precede` wraps an already completed node -/
example :
    build [.start (.other 7) 3, .tok (.other 1) ['a'], .fin, .start (.other 8) 0, .trivia,
           .tok (.other 2) ['b'], .fin]
      = some (.node .chunk [.node (.other 8) [.node (.other 7) [.tok (.other 1) ['a']], .tok (.other 2) ['b']]]) := by
  rfl

/-- a link to something that is not a `NodeStart` is the Rust `unreachable!()` -/
example : build [.start (.other 7) 1, .fin] = none := by rfl

/-- a Block takes the trivia in front of it, also across the start of its parent; the parent's
recorded start (2) then lies beyond the end and is clamped (the Rust `drain` panicked here before
the fix) -/
example :
    build [.tok .ws [' '], .tok .ws [' '], .start (.other 5) 0, .start .block 0, .tok (.other 1) ['x'], .fin, .fin]
      = some (.node .chunk [.node .block [.tok .ws [' '], .tok .ws [' '], .tok (.other 1) ['x']], .node (.other 5) []]) := by
  rfl

end Green
