import EmmyVerif.Lemmas.Events
import EmmyVerif.Lemmas.EventsCore
import EmmyVerif.Lemmas.Reader
import EmmyVerif.Lemmas.EventsMarker
import EmmyVerif.Lemmas.EventsDoc
import EmmyVerif.Lemmas.EventsCompose
import EmmyVerif.Gen.TreeCallGraph
/-!
# C01 — Syntax trees are lossless for every input text

Layer `Green`/`Events` (this file, first landing): the tree that `LuaTreeBuilder::build` + `finish`
produce from **any** `MarkEvent` list — balanced or not, with any forward-`parent` structure — has
exactly the `EatToken` tokens of the list as its leaves, once each, in order; hence its text is the
concatenation of the token texts. Losslessness therefore does not depend on the grammar keeping its
`NodeStart`/`NodeEnd` events balanced (it did before the `fix:` commits: a surplus `NodeEnd` closed
the root and `finish` kept only the first top-level element).

The models (`Green.closeNode`, `Green.finishNode`, `Green.finish`, `Green.run`, `Green.build`) are
tied to `lua_green_builder.rs` / `lua_tree_builder.rs` by the correspondence run of `./check C01`
(random event lists and the event streams of real parses, tree S-expressions compared).
-/
namespace Green

/-- **C01 tokens.** For every event list on which the builder does not panic, the tokens of the
tree, left to right, are exactly the `EatToken` events of the list, in order: nothing dropped,
nothing duplicated, nothing reordered. -/
theorem C01_build_leaves (evs : List MEv) (r : Elem) (h : build evs = some r) :
    r.leaves = evLeaves evs :=
  build_leaves evs r h

/-- **C01 text.** The text of the tree is the concatenation of the texts of the `EatToken`
events, for every event list. -/
theorem C01_build_text (evs : List MEv) (r : Elem) (h : build evs = some r) :
    r.text = catText (evLeaves evs) := by
  simp [Elem.text, build_leaves evs r h]

/-- **C01 builder calls.** The same for any sequence of direct builder calls
(`start_node`/`token`/`finish_node` in any order, any number of surplus or missing `finish_node`s),
which never panics. -/
theorem C01_ops_leaves (ops : List Op) : (buildOps ops).leaves = opLeaves ops := by
  simp [buildOps, finish_leaves, steps_leaves, St.empty]

/-- The root of every built tree is a `Chunk` node. -/
theorem C01_root_is_chunk (evs : List MEv) (r : Elem) (h : build evs = some r) :
    ∃ cs, r = Elem.node .chunk cs := by
  unfold build at h
  split at h
  · cases h
  · cases h; exact root_is_chunk _

/-! Non-vacuity (tests, labelled as such): an unbalanced stream with two surplus `NodeEnd`s — the
shape of the pre-fix defect `'s' --region r\n--region r\n--c\n[[l]]` — keeps its last token, and
the root is a single Chunk holding everything. -/
example :
    build [.start .block 0, .tok (.other 1) ['s'], .fin, .fin, .fin, .tok (.other 2) ['l']]
      = some (.node .chunk [.node .block [.tok (.other 1) ['s']], .tok (.other 2) ['l']]) := by rfl

/-- forward parent links: `precede` wraps an already completed node -/
example :
    build [.start (.other 7) 3, .tok (.other 1) ['a'], .fin, .start (.other 8) 0, .trivia,
           .tok (.other 2) ['b'], .fin]
      = some (.node .chunk [.node (.other 8) [.node (.other 7) [.tok (.other 1) ['a']], .tok (.other 2) ['b']]]) := by
  rfl

/-- a link to something that is not a `NodeStart` is the Rust `unreachable!()` -/
example : build [.start (.other 7) 1, .fin] = none := by rfl

/-- a Block takes the trivia in front of it, also across the start of its parent; the parent's
recorded start (2) then lies beyond the end and is clamped (the Rust `drain` panicked here before
the fix) -/
example :
    build [.tok .ws [' '], .tok .ws [' '], .start (.other 5) 0, .start .block 0, .tok (.other 1) ['x'], .fin, .fin]
      = some (.node .chunk [.node .block [.tok .ws [' '], .tok .ws [' '], .tok (.other 1) ['x']], .node (.other 5) []]) := by
  rfl

end Green

/-!
## Layer `Core`: the parser core hands every lexer token to the event stream

`Core.bump` / `Core.parseTrivia` / `Core.parseComments` model `LuaParser::bump`, `skip_trivia`,
`parse_trivia_tokens` (blank-line and inline-comment rules) and `parse_comments`; `Core.chunkLoop`
models the loop of `parse_chunk` with **any** grammar behaviour `g` (the grammar can move the token
index only through `bump`). Tied to the Rust by the correspondence run (`tree.core`): the real event
stream of every generated parse must be the model's item list (direct `EatToken`s with the lexer
token's exact range, comment groups tiled by doc tokens, one `Comment` node per group).
-/
namespace Core

/-- **C01 bump_emits_all.** Whatever the grammar does (`g` = any choice of how many tokens each
`parse_stats` call consumes), when `parse_chunk` returns, the events cover every lexer token
exactly once, in order: each token is either a direct `EatToken` or inside exactly one comment
group handed to the doc parser. Holds for every token list (no `TkEof`/`None` kinds, which the
lexer never produces), doc on or off. -/
theorem C01_bump_emits_all (toks : List TK) (docOn : Bool) (g : PS → Nat)
    (hne : ∀ k ∈ toks, k ≠ TK.eof) :
    cover (chunkLoop toks docOn g toks.length (init toks docOn)).events = List.range toks.length := by
  obtain ⟨h1, h2⟩ := init_cover toks docOn hne
  obtain ⟨⟨c, _⟩, e⟩ := chunkLoop_spec toks docOn hne g toks.length (init toks docOn) ⟨h1, h2⟩ (by omega)
  rw [c, e]

/-- the same for a plain run of `bump`s to the end -/
theorem C01_parseEvents_cover (toks : List TK) (docOn : Bool) (hne : ∀ k ∈ toks, k ≠ TK.eof) :
    cover (parseEvents toks docOn) = List.range toks.length := by
  obtain ⟨h1, h2⟩ := init_cover toks docOn hne
  exact bumpAll_cover toks docOn hne toks.length _ h1 h2 (by omega)

/-- after *any* number of bumps the events cover exactly the tokens before the current one -/
theorem C01_bumps_cover_prefix (toks : List TK) (docOn : Bool) (n : Nat) (hne : ∀ k ∈ toks, k ≠ TK.eof) :
    cover (bumpN toks docOn n (init toks docOn)).events = List.range (bumpN toks docOn n (init toks docOn)).idx := by
  obtain ⟨h1, h2⟩ := init_cover toks docOn hne
  exact (bumpN_inv toks docOn hne n _ ⟨h1, h2⟩).1.1

/-- The one way the grammar can change a token besides `bump` is `set_current_token_kind`; the
argument list of all its call sites in the Lua grammar is re-extracted from the source on every run
(`Gen.TreeCallGraph.setKindArgs`): none of them is a trivia or invalid kind, so the token classes the
core model works with are those of the lexer. -/
theorem C01_set_kind_keeps_class :
    ∀ k ∈ Gen.TreeCallGraph.setKindArgs,
      k ∉ ["TkShortComment", "TkLongComment", "TkEndOfLine", "TkWhitespace", "TkShebang", "TkEof", "None"] := by
  decide

/-! Non-vacuity (tests): `x --c⏎ ⏎ --d⏎y` — inline comment closes its group at the first end of
line; doc on: groups `[1,2)` and `[5,6)`. -/
example : parseEvents [.other, .ws, .comment, .eol, .eol, .comment, .eol, .other] true
    = [.eat 0, .eat 1, .doc 2 3, .eat 3, .eat 4, .doc 5 6, .eat 6, .eat 7] := by decide
example : parseEvents [.other, .ws, .comment, .eol, .eol, .comment, .eol, .other] false
    = [.eat 0, .eat 1, .eat 2, .eat 3, .eat 4, .eat 5, .eat 6, .eat 7] := by decide
/-- two comment lines form one group, a blank line ends it -/
example : parseEvents [.comment, .eol, .comment, .eol, .eol, .other] true
    = [.doc 0 3, .eat 3, .eat 4, .eat 5] := by decide

end Core

/-!
## Layer `Reader`: the lexer's token ranges tile the text

`Reader.R` models `text/reader.rs` (end of input by position — the `fix:` for NUL); `tokenizeA arm`
is `LuaLexer::tokenize` for an **arbitrary** lexer arm (any number of bumps per token, as a function
of the reader state): the lexer can move through the text only by `Reader::bump`. Tied to the Rust
by `tree.reader` (random op sequences on the real public `Reader` vs the model, all observables) and
`tree.lexloop` (the real token list replayed as a bump schedule).
-/
namespace Reader

/-- **C01 reader range invariant.** After any sequence of `bump`/`reset_buff`, the consumed bytes
plus the bytes of the remaining chars are the whole text; so `current_range` lies inside the valid
range and the reader is at the end exactly when nothing remains — also when the text contains
`'\0'`. -/
theorem C01_reader_range_inv (t : List Char) (s : Nat) (ops : List Bool) :
    let r := ops.foldl (fun r b => if b then bump r else resetBuff r) (new t s)
    WF r ∧ (currentRange r).1 + (currentRange r).2 ≤ s + len8 t ∧ (isEof r = true ↔ r.rest = []) := by
  have hw : ∀ (ops : List Bool) (r : R), WF r → r.start = s → r.total = len8 t →
      WF (ops.foldl (fun r b => if b then bump r else resetBuff r) r) ∧
      (ops.foldl (fun r b => if b then bump r else resetBuff r) r).start = s ∧
      (ops.foldl (fun r b => if b then bump r else resetBuff r) r).total = len8 t := by
    intro ops
    induction ops with
    | nil => intro r h1 h2 h3; exact ⟨h1, h2, h3⟩
    | cons b bs ih =>
      intro r h1 h2 h3
      simp only [List.foldl_cons]
      cases b with
      | true =>
        obtain ⟨_, f2, f3, _⟩ := bump_fields r
        exact ih _ (wf_bump r h1) (by simp only [if_true]; omega) (by simp only [if_true]; omega)
      | false => exact ih _ (wf_reset r h1) h2 h3
  obtain ⟨h1, h2, h3⟩ := hw ops (new t s) (wf_new t s) rfl rfl
  refine ⟨h1, ?_, isEof_iff _ h1⟩
  simp only [currentRange]
  simp only [WF] at h1
  omega

/-- **C01 tokenize tiles.** For every text and every lexer arm that bumps at least once before the
end of input, the token ranges of `tokenize` are contiguous, start at 0 and end at the byte length
of the text: no gap, no overlap, no dropped suffix (NUL, BOM, CR are ordinary chars). -/
theorem C01_tokenize_tiles (t : List Char) (arm : R → Nat) (harm : ∀ r, isEof r = false → 1 ≤ arm r) :
    Tiles (tokenizeA arm (t.length + 1) (new t 0)).1 0 (len8 t) := by
  obtain ⟨h1, h2, h3, h4⟩ := tokenizeA_tiles arm (t.length + 1) (new t 0) (wf_new t 0)
  obtain ⟨c1, _⟩ := tokenizeA_complete arm harm (t.length + 1) (new t 0) (wf_new t 0) (by simp [new])
  have he : endPos (tokenizeA arm (t.length + 1) (new t 0)).2 = len8 t := by
    have hr := (isEof_iff _ h2).mp c1
    simp only [WF, hr, len8] at h2
    simp only [endPos]
    have : (new t 0).total = len8 t := rfl
    omega
  have hs : (new t 0).start + endPos (new t 0) = 0 := by simp [new, endPos]
  rw [hs, he] at h1
  simpa [new] using h1

/-- without the progress assumption the ranges still tile a prefix (whatever the arm does) -/
theorem C01_tokenize_tiles_prefix (t : List Char) (arm : R → Nat) (fuel : Nat) :
    Tiles (tokenizeA arm fuel (new t 0)).1 0 (endPos (tokenizeA arm fuel (new t 0)).2) := by
  obtain ⟨h1, _, _, _⟩ := tokenizeA_tiles arm fuel (new t 0) (wf_new t 0)
  simpa [new, endPos] using h1

/-! Non-vacuity (tests): a text with NUL, BOM and CR; arm = "one char per token". -/
example : (tokenizeA (fun _ => 1) 6 (new ['a', '\x00', '\uFEFF', '\r', 'é'] 0)).1
    = [(0, 1), (1, 1), (2, 3), (5, 1), (6, 2)] := by decide

end Reader

/-!
## Layer `Marker`: `mark_level` and the error recovery of `parse_stats`

`Marker.step` models `mark` / `complete` / `undo` / `precede` / `bump` of marker.rs after the `fix:`
commit (05dbe7f); `Marker.recover` is the recovery loop of `parse_stats` / `parse_tag`
(`push_node_end` × `mark_level - level`). Checked on the implementation every run: the final
`mark_level` of every real parse (hook) equals `#NodeStart(non-None) − #NodeEnd` of its event stream.
-/
namespace Marker

/-- **C01 mark_level invariant.** For every sequence of marker operations (each marker completed or
undone at most once — enforced by Rust's move semantics — and possibly never: dropped on an `Err`),
`mark_level` is exactly the number of `NodeStart`s the tree builder will open minus the `NodeEnd`s,
and equals the number of live (unfinished) markers. -/
theorem C01_mark_level_inv (ops : List Op) (s : S) (hops : ∀ op ∈ ops, op ≠ Op.nodeEnd)
    (hr : run step S.init ops = some s) :
    s.markLevel + ends s.events = starts s.events ∧ s.markLevel = s.live.length := by
  have h := run_inv ops S.init s hops inv_init hr
  exact ⟨by rw [h.level]; exact h.count, h.level⟩

/-- before the fix the invariant failed: `mark` then `undo` left `mark_level = 1` with no open node
(the surplus `NodeEnd`s of the recovery then closed `Block` and `Chunk`) -/
theorem C01_mark_level_old_witness :
    ∃ s, run stepOld S.init [.mark, .undo 0] = some s ∧ s.markLevel = 1 ∧ starts s.events = 0 ∧ ends s.events = 0 :=
  ⟨_, rfl, by decide, by decide, by decide⟩

/-- **C01 recovery is balanced.** Let a statement fail after any marker operations that only
finish markers it created itself (`level` was read before it started). Then `mark_level` did not
drop below `level`, and after the recovery loop `mark_level = level` and the number of open nodes
is what it was before the statement: exactly the nodes the failed statement left open are closed,
never a node opened outside it. -/
theorem C01_recovery_balanced (s0 s1 : S) (ops : List Op) (h0 : Inv s0)
    (hc : ∀ op ∈ ops, consumesOnlyFrom s0.events.length op = true)
    (hr : run step s0 ops = some s1) :
    s0.markLevel ≤ s1.markLevel ∧
    (recover s0.markLevel s1).markLevel = s0.markLevel ∧
    starts (recover s0.markLevel s1).events + ends s0.events
      = starts s0.events + ends (recover s0.markLevel s1).events := by
  have hne : ∀ op ∈ ops, op ≠ Op.nodeEnd := by
    intro op ho e; subst e; have := hc _ ho; simp [consumesOnlyFrom] at this
  have h1 := run_inv ops s0 s1 hne h0 hr
  have hl := run_old_live s0.events.length ops s0 s1 hc hr
  rw [filter_all_lt s0.live _ (fun q hq => live_lt s0 h0 q hq)] at hl
  have hl2 := length_filter_le' s1.live (· < s0.events.length)
  have hle : s0.markLevel ≤ s1.markLevel := by rw [h0.level, h1.level]; omega
  obtain ⟨a, b, c⟩ := closeN_spec (s1.markLevel - s0.markLevel) s1 (by omega)
  refine ⟨hle, by simp only [recover]; omega, ?_⟩
  simp only [recover]
  have c0 := h0.count
  have c1 := h1.count
  rw [← h0.level] at c0
  rw [← h1.level] at c1
  omega

/-! Non-vacuity (tests): mark, mark, bump, complete inner, (outer dropped) → level 1 = one open node;
recovery to level 0 closes it. -/
example : (run step S.init [.mark, .mark, .bump, .complete 1]).map (fun s => (s.markLevel, starts s.events, ends s.events))
    = some (1, 2, 1) := by decide
example : (run step S.init [.mark, .mark, .bump, .complete 1]).map (fun s => ((recover 0 s).markLevel, ends (recover 0 s).events))
    = some (0, 2) := by decide

end Marker

/-!
## Layer `Doc`: the doc parser hands every byte of its comment group to the event stream (`DocSpec`)

`Doc.D` models the token core of `LuaDocParser` (`init`/`bump`, `calc_next_current_token`,
`eat_current_and_lex_next`, `lex_token`, `set_lexer_state` with `re_calc_detail` / `re_calc_cast_type`,
`bump_to_end`, `set_current_token_kind`); the doc lexer is constrained only by the Reader discipline
(`script`: any kinds, any lengths ≥ 1). The doc grammar is an arbitrary list of these operations.
Tied to the Rust by `treedoc.replay`: the operation trace the hook records for every doc-parser run of the
generated parses is replayed through `Doc.run`; event lists (kind class, start, length) must coincide.
That the driver code has the assumed shape (`parse` = `init`; `parse_comment`; `parse_docs` loops until
`TkEof` with no other exit — so an error return inside the doc grammar, e.g. at the syntax-level limit,
cannot end the run early; `bump_to_end` only under `!reader.is_eof()`) is re-extracted from the source
on every run (`Gen.TreeCallGraph.docShapes`).
-/
namespace Doc

/-- **C01 doccore_spec.** For every comment group (non-empty, contiguous origin tokens from `g0` to
`g1`, the first one a comment token), every behaviour of the doc lexer and every list of doc-grammar
operations: when the parser is at `TkEof` — where `parse_docs`, the only loop that drives it, stops —
the emitted doc tokens tile the group's bytes `[g0, g1)`: nothing dropped, nothing emitted twice. -/
theorem C01_doccore_spec (toks : List OTok) (script : List (K × Nat)) (ops : List Op) (g0 g1 : Nat) (d : D)
    (hw : WFT toks g0 g1) (hr : run (start toks script) ops = some d) (he : d.cur = .eof) :
    Tiles d.events g0 g1 := by
  obtain ⟨i1, i2⟩ := start_inv g0 g1 toks script hw
  obtain ⟨j1, _⟩ := run_inv g0 g1 ops _ d i1 i2 hr
  have ht := j1.tiles
  obtain ⟨_, e2⟩ := j1.eof he
  have : E g0 d = g1 := by simp [E, he, e2]
  rw [this] at ht; exact ht

/-- at every moment — also on an early return of the doc grammar — what has been emitted is a
contiguous prefix of the group, and the token in hand starts exactly where it ends -/
theorem C01_doccore_prefix (toks : List OTok) (script : List (K × Nat)) (ops : List Op) (g0 g1 : Nat) (d : D)
    (hw : WFT toks g0 g1) (hr : run (start toks script) ops = some d) :
    Tiles d.events g0 (E g0 d) ∧ E g0 d ≤ g1 ∧ d.cur ≠ .none := by
  obtain ⟨i1, i2⟩ := start_inv g0 g1 toks script hw
  obtain ⟨j1, j2⟩ := run_inv g0 g1 ops _ d i1 i2 hr
  refine ⟨j1.tiles, ?_, j2⟩
  cases hc : d.cur with
  | none => exact absurd hc j2
  | eof => obtain ⟨_, e2⟩ := j1.eof hc; simp [E, hc]; omega
  | _ =>
    all_goals
      have hk : isInvalidKind d.cur = false := by rw [hc]; rfl
      obtain ⟨hpos, hlen⟩ := j1.tok hk
      have hv : rdInvalid d = false ∨ rdInvalid d = true := by cases rdInvalid d <;> simp
      have hE : E g0 d = d.cstart := by simp [E, hc]
      rw [hE]
      -- the lexer position never passes the end of the group
      have hP : P g0 d ≤ g1 := by
        cases hrd : d.rd with
        | none => exact absurd (j1.curok.c1 hrd) j2
        | some r =>
          obtain ⟨holt, hstop⟩ := j1.base.rdok r hrd
          obtain ⟨t, ht⟩ : ∃ t, d.toks[d.oidx]? = some t := ⟨d.toks[d.oidx], List.getElem?_eq_getElem holt⟩
          obtain ⟨_, _, _, c4, _, _⟩ := chain_get d.toks g0 g1 d.oidx t j1.base.wf.chain ht
          simp only [P, hrd]
          split
          · rw [endOf_eq d t ht]; exact c4
          · rename_i hn
            have := hstop (by omega)
            rw [endOf_eq d t ht] at this; omega
      omega

/-- T-src bridge: the driver code of the doc parser has the shape the model assumes, and the doc grammar
never renames a token to `None`/`TkEof` -/
theorem C01_doc_shapes_in_source :
    Gen.TreeCallGraph.docShapes.all (fun x => x.2) = true ∧ 5 ≤ Gen.TreeCallGraph.docShapes.length ∧
    ∀ k ∈ Gen.TreeCallGraph.docSetKindArgs, k ∉ ["None", "TkEof"] := by
  decide

/-! Non-vacuity (tests): `---@type A` + eol + `--- d`: doc lexer answers `---@`(4) `type`(4) ws(1) `A`(1),
then the end of line is passed through, then `---`(3) ws(1) `d`(1). -/
example :
    (run (start [⟨false, .other 1, 10, 10⟩, ⟨true, .eol, 20, 1⟩, ⟨false, .other 1, 21, 5⟩]
          [(.docStart, 4), (.other 7, 4), (.ws, 1), (.other 8, 1), (.normalStart, 3), (.ws, 1), (.detail, 1)])
        [.setState .other, .bump, .setState .normal, .bump, .bump, .setState .init, .bump, .bump]).map
      (fun d => (d.cur, d.events))
    = some (.eof, [(.docStart, 10, 4), (.other 7, 14, 4), (.ws, 18, 1), (.other 8, 19, 1), (.eol, 20, 1),
        (.normalStart, 21, 3), (.ws, 24, 1), (.detail, 25, 1)]) := by decide

end Doc

/-!
## Composition: `parse_lossless`

Reader tiling ∘ `bump_emits_all` ∘ `doccore_spec` ∘ `build_leaves`. The four layers meet at explicit
interfaces: the lexer token ranges `rs` (Reader layer: they tile the text), the token-index events of the
parser core for **any** grammar `g` (Core layer: they cover every token once, in order), the ranges
`docOut x y` the doc parser emitted for the comment group `[x, y)` (Doc layer: they tile the group — this
hypothesis is exactly the conclusion of `Doc.C01_doccore_spec`, see `doc_tiles_proj`), and the
`MarkEvent` list handed to the tree builder, whose `EatToken`s carry those slices of the text in that
order with any `NodeStart`/`NodeEnd` structure around them (Green layer). Positions count the elements of
`text` (the Rust counts UTF-8 bytes of a `str`; the layers never split a char because every range comes
from `Reader::bump`, which moves by whole chars).
-/
namespace Compose

/-- the doc layer's tiling (with kinds) is a tiling of ranges -/
theorem doc_tiles_proj (evs : List (Doc.K × Nat × Nat)) (a b : Nat) (h : Doc.Tiles evs a b) :
    Tiles (evs.map fun e => (e.2.1, e.2.2)) a b := by
  induction evs generalizing a with
  | nil => exact h
  | cons e es ih => obtain ⟨k, s, l⟩ := e; exact ⟨h.1, ih _ h.2⟩

/-- **C01 parse_lossless.** For every text, every token-class list the lexer may produce for it, doc on or
off, and every grammar: if the lexer ranges tile the text (Reader layer) and every comment group is tiled
by what the doc parser emitted for it (Doc layer), then the token ranges of the event stream tile the
text, and the tree built from any event list carrying these tokens has exactly the input as its text. -/
theorem C01_parse_lossless (text : List Char) (toks : List Core.TK) (docOn : Bool) (g : Core.PS → Nat)
    (rs : List (Nat × Nat)) (docOut : Nat → Nat → List (Nat × Nat)) (mevs : List Green.MEv) (r : Green.Elem)
    (hlen : rs.length = toks.length) (hne : ∀ k ∈ toks, k ≠ Core.TK.eof)
    (hread : Reader.Tiles rs 0 text.length)
    (hdoc : ∀ x y, Core.Ev.doc x y ∈ (Core.chunkLoop toks docOn g toks.length (Core.init toks docOn)).events →
      x < y ∧ Tiles (docOut x y) (startAt rs text.length x) (startAt rs text.length y))
    (hev : (Green.evLeaves mevs).map (·.2) =
      (expand rs docOut (Core.chunkLoop toks docOn g toks.length (Core.init toks docOn)).events).map
        (fun r => (text.drop r.1).take r.2))
    (hb : Green.build mevs = some r) :
    Tiles (expand rs docOut (Core.chunkLoop toks docOn g toks.length (Core.init toks docOn)).events) 0 text.length ∧
      r.text = text := by
  have hcov := Core.C01_bump_emits_all toks docOn g hne
  rw [List.range_eq_range'] at hcov
  have hr := tiles_of_reader rs 0 text.length hread
  have ht := expand_tiles rs text.length docOut hr _ 0 toks.length (by omega) hcov hdoc
  have h0 : startAt rs text.length 0 = 0 := (startAt_spec rs 0 text.length hr).1
  have hn : startAt rs text.length (0 + toks.length) = text.length := by
    simp only [startAt, Nat.zero_add]
    rw [List.getElem?_eq_none_iff.mpr (by omega)]
  rw [h0, hn] at ht
  refine ⟨ht, ?_⟩
  have hc := tile_concat text _ 0 ht
  rw [Green.C01_build_text mevs r hb]
  simp only [Green.catText]
  rw [List.flatMap_def, hev, ← List.flatMap_def, hc]
  simp

end Compose
