import EmmyVerif.Lemmas.LspShape
import EmmyVerif.Gen.ProtoLegend
/-!
# C26 — LSP results are structurally valid (partial)

Proved about the `LspShape` model of `SemanticBuilder::build` and of the shape validators; *which* nodes
the producers pick (symbol builder, fold builder, rename) is not modelled — the in-process oracle checks
every structure-returning request on generated documents (ranges inside the document, decoded semantic
tokens ordered / disjoint / within the legend, symbol nesting, fold start ≤ end, selection chains nested and
strictly growing, completion edits single-line around the cursor, workspace-edit edits disjoint).
-/
namespace LspShape

/-- **C26 decode∘build.** A client decoding `SemanticTokens.data` obtains exactly the builder's normalized
entries (empty ones dropped, sorted by start, equal starts collapsed, overlaps clipped): no position is
shifted by the delta encoding, for every entry list. -/
theorem C26_decode_build (es : List Entry) : decode 0 0 (build es) = normalize es :=
  decode_encode _ 0 0 (sortedFrom_clip _ 0 0 (sortedFrom_sortE _))

/-- **C26 tokens ordered and disjoint.** Whatever the producers push — overlapping, duplicated, unsorted,
empty entries — the decoded tokens come in order and never overlap. -/
theorem C26_build_ordered (es : List Entry) : Ordered (decode 0 0 (build es)) := by
  rw [C26_decode_build]; exact ordered_clip _ (sortedFrom_sortE _)

/-- the decoded tokens come in (line, column) order -/
theorem C26_decode_sorted (es : List Entry) : SortedFrom 0 0 (decode 0 0 (build es)) := by
  rw [C26_decode_build]; exact sortedFrom_clip _ 0 0 (sortedFrom_sortE _)

/-- no token is invented: every decoded token is one of the pushed entries (same start, type, modifiers),
possibly shortened -/
theorem C26_tokens_from_entries (es : List Entry) :
    ∀ t ∈ decode 0 0 (build es), FromEntry es t := by
  rw [C26_decode_build]
  intro t ht
  unfold normalize clip at ht
  split at ht
  · cases ht
  · rename_i a rest heq
    obtain ⟨e, he, h⟩ := clipFrom_from a rest t ht
    rw [← heq] at he
    have := (sortE_perm _).mem_iff.mp he
    exact ⟨e, (List.mem_filter.mp this).1, h⟩

/-- **C26 nothing lost iff the input is ordered/disjoint.** For entries without empty ones: the client sees
all of them unchanged (a permutation of the input) exactly when the sorted entries are already ordered and
non-overlapping. -/
theorem C26_all_kept_iff_disjoint (es : List Entry) (hp : ∀ e ∈ es, 0 < e.len) :
    decode 0 0 (build es) = sortE es ↔ Ordered (sortE es) := by
  constructor
  · intro h; rw [← h]; exact C26_build_ordered es
  · intro ho
    rw [C26_decode_build]
    unfold normalize
    rw [filter_pos_id es hp]
    exact clip_id _ ho (fun e he => hp e ((sortE_perm es).mem_iff.mp he))

theorem C26_sort_perm (es : List Entry) : (sortE es).Perm es := sortE_perm es

/-- **C26 selection ranges.** Whatever ranges the handler collects (token, markup items of a description,
ancestors — nested or not, with repetitions), the chain it returns grows strictly outward: each parent contains
its child and is larger. -/
theorem C26_selection_strict (rs : List Range) : chainStrict (grow rs) = true := chainStrict_grow rs

/-- … and a chain that already grows strictly is returned unchanged -/
theorem C26_selection_keeps_strict_chain (rs : List Range) (h : chainStrict rs = true) : grow rs = rs := by
  cases rs with
  | nil => rfl
  | cons a rest => simp only [grow]; rw [growFrom_id a rest h]

/-- **C26 legend in range.** Every token type index `to_u32` can produce is inside the advertised legend
and names the same type as `to_semantic_token_type`; every modifier bit is the bit of its legend slot
(tables re-extracted from the source on every run). -/
theorem C26_legend_in_range :
    (Gen.ProtoLegend.kinds.all fun k =>
        match Gen.ProtoLegend.typeIndex.lookup k, Gen.ProtoLegend.typeConst.lookup k with
        | some i, some c => Gen.ProtoLegend.allTypes[i]? == some c
        | _, _ => false) = true ∧
    (∀ p ∈ Gen.ProtoLegend.typeIndex, p.2 < Gen.ProtoLegend.allTypes.length) ∧
    (∀ p ∈ Gen.ProtoLegend.modifierBit, Gen.ProtoLegend.allModifiers[p.2]? = some p.1) ∧
    Gen.ProtoLegend.modifierBit.length = Gen.ProtoLegend.allModifiers.length := by decide

/-! ### Non-vacuity (tests, labelled as such) -/
example : build [⟨2, 4, 3, 1, 0⟩, ⟨0, 1, 2, 5, 1⟩, ⟨2, 0, 1, 7, 0⟩] = [⟨0, 1, 2, 5, 1⟩, ⟨2, 0, 1, 7, 0⟩, ⟨0, 4, 3, 1, 0⟩] := by decide
example : decode 0 0 (build [⟨2, 4, 3, 1, 0⟩, ⟨0, 1, 2, 5, 1⟩, ⟨2, 0, 1, 7, 0⟩]) = [⟨0, 1, 2, 5, 1⟩, ⟨2, 0, 1, 7, 0⟩, ⟨2, 4, 3, 1, 0⟩] := by decide
-- the shapes found on the unfixed tree: a duplicated token, a line-long token over finer ones, an empty entry
example : normalize [⟨1, 0, 4, 17, 0⟩, ⟨1, 4, 3, 21, 0⟩, ⟨1, 0, 4, 17, 0⟩] = [⟨1, 0, 4, 17, 0⟩, ⟨1, 4, 3, 21, 0⟩] := by decide
example : normalize [⟨2, 2, 4, 17, 0⟩, ⟨2, 0, 11, 17, 0⟩, ⟨0, 15, 0, 17, 0⟩] = [⟨2, 0, 2, 17, 0⟩, ⟨2, 2, 4, 17, 0⟩] := by decide
example : ¬ Ordered (sortE [⟨2, 2, 4, 17, 0⟩, ⟨2, 0, 11, 17, 0⟩]) := by decide
example : Ordered (sortE [⟨2, 4, 3, 1, 0⟩, ⟨0, 1, 2, 5, 1⟩, ⟨2, 0, 1, 7, 0⟩]) := by decide
-- a token whose parent node has the same range: nested but not strict
example : chainNested [⟨(0, 0), (0, 3)⟩, ⟨(0, 0), (0, 3)⟩, ⟨(0, 0), (1, 0)⟩] = true ∧
    chainStrict [⟨(0, 0), (0, 3)⟩, ⟨(0, 0), (0, 3)⟩, ⟨(0, 0), (1, 0)⟩] = false ∧
    grow [⟨(0, 0), (0, 3)⟩, ⟨(0, 0), (0, 3)⟩, ⟨(0, 0), (1, 0)⟩] = [⟨(0, 0), (0, 3)⟩, ⟨(0, 0), (1, 0)⟩] := by decide
-- two overlapping markup items of a description (found on the tree): not child and parent
example : grow [⟨(2, 24), (2, 27)⟩, ⟨(2, 16), (2, 26)⟩, ⟨(2, 2), (2, 33)⟩] = [⟨(2, 24), (2, 27)⟩, ⟨(2, 2), (2, 33)⟩] := by decide

end LspShape
