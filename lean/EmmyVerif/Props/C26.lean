import EmmyVerif.Lemmas.LspShape
import EmmyVerif.Gen.ProtoLegend
/-!
# C26 — LSP results are structurally valid (partial)

Proved about the `LspShape` model of `SemanticBuilder::build` and of the shape validators; *which* nodes
the producers pick (symbol builder, fold builder, rename) is not modelled — the in-process oracle checks
every structure-returning request on generated documents (ranges inside the document, decoded semantic
tokens ordered / disjoint / within the legend, symbol nesting, fold start ≤ end, selection chains nested and
strictly growing, completion edits single-line around the cursor, workspace-edit edits disjoint).
-/
namespace LspShape

/-- **C26 decode∘build.** A client decoding `SemanticTokens.data` obtains exactly the builder's entries,
sorted by (line, column): nothing lost, nothing invented, no position shifted. -/
theorem C26_decode_build (es : List Entry) : decode 0 0 (build es) = sortE es :=
  decode_encode _ 0 0 (sortedFrom_sortE es)

/-- the decoded tokens are a permutation of the entries -/
theorem C26_decode_build_perm (es : List Entry) : (decode 0 0 (build es)).Perm es := by
  rw [C26_decode_build]; exact sortE_perm es

/-- the decoded tokens come in (line, column) order -/
theorem C26_decode_sorted (es : List Entry) : SortedFrom 0 0 (decode 0 0 (build es)) := by
  rw [C26_decode_build]; exact sortedFrom_sortE es

/-- **C26 legend in range.** Every token type index `to_u32` can produce is inside the advertised legend
and names the same type as `to_semantic_token_type`; every modifier bit is the bit of its legend slot
(tables re-extracted from the source on every run). -/
theorem C26_legend_in_range :
    (Gen.ProtoLegend.kinds.all fun k =>
        match Gen.ProtoLegend.typeIndex.lookup k, Gen.ProtoLegend.typeConst.lookup k with
        | some i, some c => Gen.ProtoLegend.allTypes[i]? == some c
        | _, _ => false) = true ∧
    (∀ p ∈ Gen.ProtoLegend.typeIndex, p.2 < Gen.ProtoLegend.allTypes.length) ∧
    (∀ p ∈ Gen.ProtoLegend.modifierBit, Gen.ProtoLegend.allModifiers[p.2]? = some p.1) ∧
    Gen.ProtoLegend.modifierBit.length = Gen.ProtoLegend.allModifiers.length := by decide

/-! ### Non-vacuity (tests, labelled as such) -/
example : build [⟨2, 4, 3, 1, 0⟩, ⟨0, 1, 2, 5, 1⟩, ⟨2, 0, 1, 7, 0⟩] = [⟨0, 1, 2, 5, 1⟩, ⟨2, 0, 1, 7, 0⟩, ⟨0, 4, 3, 1, 0⟩] := by decide
example : decode 0 0 (build [⟨2, 4, 3, 1, 0⟩, ⟨0, 1, 2, 5, 1⟩, ⟨2, 0, 1, 7, 0⟩]) = [⟨0, 1, 2, 5, 1⟩, ⟨2, 0, 1, 7, 0⟩, ⟨2, 4, 3, 1, 0⟩] := by decide
example : pushData false 1 3 3 2 18 0 = [⟨1, 3, 9999, 18, 0⟩, ⟨2, 0, 9999, 18, 0⟩, ⟨3, 0, 2, 18, 0⟩] := by decide

end LspShape
