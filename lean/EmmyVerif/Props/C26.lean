import EmmyVerif.Lemmas.LspShape
import EmmyVerif.Lemmas.LspShapeTree
import EmmyVerif.Gen.ProtoLegend
/-!
# C26 — LSP results are structurally valid (partial)

Proved about the `LspShape` model of `SemanticBuilder::build` and of the shape validators; *which* nodes
the producers pick (symbol builder, fold builder, rename) is not modelled — the in-process oracle checks
every structure-returning request on generated documents (ranges inside the document, decoded semantic
tokens ordered / disjoint / within the legend, symbol nesting, fold start ≤ end, selection chains nested and
strictly growing, completion edits single-line around the cursor, workspace-edit edits disjoint).
-/
namespace LspShape

/-- **C26 decode∘build.** A client decoding `SemanticTokens.data` obtains exactly the builder's normalized
entries (empty ones dropped, sorted by start, equal starts collapsed, overlaps clipped): no position is
shifted by the delta encoding, for every entry list. -/
theorem C26_decode_build (es : List Entry) : decode 0 0 (build es) = normalize es :=
  decode_encode _ 0 0 (sortedFrom_clip _ 0 0 (sortedFrom_sortE _))

/-- **C26 tokens ordered and disjoint.** Whatever the producers push — overlapping, duplicated, unsorted,
empty entries — the decoded tokens come in order and never overlap. -/
theorem C26_build_ordered (es : List Entry) : Ordered (decode 0 0 (build es)) := by
  rw [C26_decode_build]; exact ordered_clip _ (sortedFrom_sortE _)

/-- the decoded tokens come in (line, column) order -/
theorem C26_decode_sorted (es : List Entry) : SortedFrom 0 0 (decode 0 0 (build es)) := by
  rw [C26_decode_build]; exact sortedFrom_clip _ 0 0 (sortedFrom_sortE _)

/-- no token is invented: every decoded token is one of the pushed entries (same start, type, modifiers),
possibly shortened -/
theorem C26_tokens_from_entries (es : List Entry) :
    ∀ t ∈ decode 0 0 (build es), FromEntry es t := by
  rw [C26_decode_build]
  intro t ht
  unfold normalize clip at ht
  split at ht
  · cases ht
  · rename_i a rest heq
    obtain ⟨e, he, h⟩ := clipFrom_from a rest t ht
    rw [← heq] at he
    have := (sortE_perm _).mem_iff.mp he
    exact ⟨e, (List.mem_filter.mp this).1, h⟩

/-- **C26 nothing lost iff the input is ordered/disjoint.** For entries without empty ones: the client sees
all of them unchanged (a permutation of the input) exactly when the sorted entries are already ordered and
non-overlapping. -/
theorem C26_all_kept_iff_disjoint (es : List Entry) (hp : ∀ e ∈ es, 0 < e.len) :
    decode 0 0 (build es) = sortE es ↔ Ordered (sortE es) := by
  constructor
  · intro h; rw [← h]; exact C26_build_ordered es
  · intro ho
    rw [C26_decode_build]
    unfold normalize
    rw [filter_pos_id es hp]
    exact clip_id _ ho (fun e he => hp e ((sortE_perm es).mem_iff.mp he))

theorem C26_sort_perm (es : List Entry) : (sortE es).Perm es := sortE_perm es

/-- **C26 selection ranges.** Whatever ranges the handler collects (token, markup items of a description,
ancestors — nested or not, with repetitions), the chain it returns grows strictly outward: each parent contains
its child and is larger. -/
theorem C26_selection_strict (rs : List Range) : chainStrict (grow rs) = true := chainStrict_grow rs

/-- … and a chain that already grows strictly is returned unchanged -/
theorem C26_selection_keeps_strict_chain (rs : List Range) (h : chainStrict rs = true) : grow rs = rs := by
  cases rs with
  | nil => rfl
  | cons a rest => simp only [grow]; rw [growFrom_id a rest h]

/-! ### producers that take their ranges from syntax nodes (`RangeTree`) -/

/-- in a well-nested tree an ancestor's range contains every descendant's range -/
theorem C26_tree_ancestor_contains (t : RangeTree) (h : wellNested t = true) (k i : Nat)
    (ha : Anc t k i) (a b : Node) (hk : t[k]? = some a) (hi : t[i]? = some b) :
    within b.range a.range := anc_within t h k i ha a b hk hi

/-- **C26 symbol nesting.** A child symbol's range — the range of a node, or the cover of several node
ranges — lies inside its parent symbol's range, for every well-nested tree, whenever the producer keeps its
discipline: the child's nodes lie at or below the parent's *host* node, and the parent's range covers its
host. (Which nodes a producer picks is not modelled; the discipline is what `stats.rs`/`expr.rs` implement.) -/
theorem C26_symbol_nesting (t : RangeTree) (h : wellNested t = true)
    (host : Nat) (hostN : Node) (hh : t[host]? = some hostN)
    (parentRange : Nat × Nat) (hp : within hostN.range parentRange)
    (a0 : Node) (as : List Node)
    (hanc : ∀ a ∈ a0 :: as, ∃ i, t[i]? = some a ∧ Anc t host i) :
    within (hull a0.range (as.map Node.range)) parentRange := by
  have sub : ∀ a ∈ a0 :: as, within a.range parentRange := by
    intro a ha
    obtain ⟨i, hi, hanc'⟩ := hanc a ha
    have := anc_within t h host i hanc' hostN a hh hi
    simp only [within] at this hp ⊢
    omega
  apply hull_within
  · exact sub a0 (by simp)
  · intro x hx
    obtain ⟨a, ha, rfl⟩ := List.mem_map.mp hx
    exact sub a (List.mem_cons_of_mem _ ha)

/-- **C26 selection range inside range.** A selection range taken from a node at or below one of the nodes
the symbol's range covers lies inside that range. -/
theorem C26_symbol_selection_in_range (t : RangeTree) (h : wellNested t = true)
    (a0 : Node) (as : List Node) (anchor : Node) (k : Nat) (hk : t[k]? = some anchor)
    (hmem : anchor ∈ a0 :: as) (sel : Node) (i : Nat) (hi : t[i]? = some sel) (ha : Anc t k i) :
    within sel.range (hull a0.range (as.map Node.range)) := by
  have h1 := anc_within t h k i ha anchor sel hk hi
  have h2 : within anchor.range (hull a0.range (as.map Node.range)) := by
    rcases List.mem_cons.mp hmem with e | e
    · subst e; exact hull_contains_first _ _
    · exact hull_contains_mem _ _ _ (List.mem_map.mpr ⟨anchor, e, rfl⟩)
  simp only [within] at h1 h2 ⊢
  omega

/-- **C26 fold start ≤ end.** For any two offsets `a ≤ b` (a node's start and end; the token before a block
and the token after it; a region's start and end) and any line table, the folding range
`get_folding_lsp_range` produces starts no later than it ends and ends no later than `b`'s line. -/
theorem C26_fold_start_le_end (starts : List Nat) (intellij : Bool) (a b x y : Nat) (hab : a ≤ b)
    (hf : foldLines intellij (lineOf starts a) (lineOf starts b) = some (x, y)) :
    x ≤ y ∧ y ≤ lineOf starts b := by
  have hm := lineOf_mono starts a b hab
  unfold foldLines at hf
  split at hf
  · cases hf
  · split at hf
    · cases hf; exact ⟨hm, Nat.le_refl _⟩
    · split at hf
      · cases hf
      · split at hf
        · cases hf
        · cases hf; omega

/-- region and import folds use the two lines as they are -/
theorem C26_fold_plain_start_le_end (starts : List Nat) (a b : Nat) (hab : a ≤ b) :
    (foldPlain (lineOf starts a) (lineOf starts b)).1 ≤ (foldPlain (lineOf starts a) (lineOf starts b)).2 :=
  lineOf_mono starts a b hab

/-- every node of a well-nested tree folds to start ≤ end -/
theorem C26_node_fold_ok (t : RangeTree) (h : wellNested t = true) (starts : List Nat) (intellij : Bool)
    (i : Nat) (n : Node) (hi : t[i]? = some n) (x y : Nat)
    (hf : foldLines intellij (lineOf starts n.s) (lineOf starts n.e) = some (x, y)) : x ≤ y :=
  (C26_fold_start_le_end starts intellij n.s n.e x y (node_s_le_e t h i n hi) hf).1

/-- **C26 legend in range.** Every token type index `to_u32` can produce is inside the advertised legend
and names the same type as `to_semantic_token_type`; every modifier bit is the bit of its legend slot
(tables re-extracted from the source on every run). -/
theorem C26_legend_in_range :
    (Gen.ProtoLegend.kinds.all fun k =>
        match Gen.ProtoLegend.typeIndex.lookup k, Gen.ProtoLegend.typeConst.lookup k with
        | some i, some c => Gen.ProtoLegend.allTypes[i]? == some c
        | _, _ => false) = true ∧
    (∀ p ∈ Gen.ProtoLegend.typeIndex, p.2 < Gen.ProtoLegend.allTypes.length) ∧
    (∀ p ∈ Gen.ProtoLegend.modifierBit, Gen.ProtoLegend.allModifiers[p.2]? = some p.1) ∧
    Gen.ProtoLegend.modifierBit.length = Gen.ProtoLegend.allModifiers.length := by decide

/-! ### Non-vacuity (tests, labelled as such) -/
example : build [⟨2, 4, 3, 1, 0⟩, ⟨0, 1, 2, 5, 1⟩, ⟨2, 0, 1, 7, 0⟩] = [⟨0, 1, 2, 5, 1⟩, ⟨2, 0, 1, 7, 0⟩, ⟨0, 4, 3, 1, 0⟩] := by decide
example : decode 0 0 (build [⟨2, 4, 3, 1, 0⟩, ⟨0, 1, 2, 5, 1⟩, ⟨2, 0, 1, 7, 0⟩]) = [⟨0, 1, 2, 5, 1⟩, ⟨2, 0, 1, 7, 0⟩, ⟨2, 4, 3, 1, 0⟩] := by decide
-- the shapes found on the unfixed tree: a duplicated token, a line-long token over finer ones, an empty entry
example : normalize [⟨1, 0, 4, 17, 0⟩, ⟨1, 4, 3, 21, 0⟩, ⟨1, 0, 4, 17, 0⟩] = [⟨1, 0, 4, 17, 0⟩, ⟨1, 4, 3, 21, 0⟩] := by decide
example : normalize [⟨2, 2, 4, 17, 0⟩, ⟨2, 0, 11, 17, 0⟩, ⟨0, 15, 0, 17, 0⟩] = [⟨2, 0, 2, 17, 0⟩, ⟨2, 2, 4, 17, 0⟩] := by decide
example : ¬ Ordered (sortE [⟨2, 2, 4, 17, 0⟩, ⟨2, 0, 11, 17, 0⟩]) := by decide
example : Ordered (sortE [⟨2, 4, 3, 1, 0⟩, ⟨0, 1, 2, 5, 1⟩, ⟨2, 0, 1, 7, 0⟩]) := by decide
-- a token whose parent node has the same range: nested but not strict
example : chainNested [⟨(0, 0), (0, 3)⟩, ⟨(0, 0), (0, 3)⟩, ⟨(0, 0), (1, 0)⟩] = true ∧
    chainStrict [⟨(0, 0), (0, 3)⟩, ⟨(0, 0), (0, 3)⟩, ⟨(0, 0), (1, 0)⟩] = false ∧
    grow [⟨(0, 0), (0, 3)⟩, ⟨(0, 0), (0, 3)⟩, ⟨(0, 0), (1, 0)⟩] = [⟨(0, 0), (0, 3)⟩, ⟨(0, 0), (1, 0)⟩] := by decide
-- two overlapping markup items of a description (found on the tree): not child and parent
example : grow [⟨(2, 24), (2, 27)⟩, ⟨(2, 16), (2, 26)⟩, ⟨(2, 2), (2, 33)⟩] = [⟨(2, 24), (2, 27)⟩, ⟨(2, 2), (2, 33)⟩] := by decide

-- a small tree: chunk ⊇ local stat ⊇ (name, closure ⊇ inner stat)
private def tr : RangeTree := [⟨0, 40, none⟩, ⟨0, 39, some 0⟩, ⟨6, 7, some 1⟩, ⟨13, 39, some 1⟩, ⟨25, 36, some 3⟩]
example : wellNested tr = true := by decide
example : wellNested [⟨0, 10, none⟩, ⟨5, 12, some 0⟩] = false := by decide
example : hull (6, 7) [(13, 39)] = (6, 39) := by decide
example : foldLines false (lineOf [0, 10, 20, 30] 3) (lineOf [0, 10, 20, 30] 35) = some (0, 2) := by decide
example : foldLines false (lineOf [0, 10, 20, 30] 3) (lineOf [0, 10, 20, 30] 12) = none := by decide
example : symbolsOK [(⟨(0, 0), (3, 0)⟩, ⟨(0, 6), (0, 7)⟩, none), (⟨(0, 13), (2, 3)⟩, ⟨(0, 13), (0, 21)⟩, some 0)] = true := by decide
-- the shape found on the tree: a child outside a parent whose range was only the name
example : symbolsOK [(⟨(0, 6), (0, 7)⟩, ⟨(0, 6), (0, 7)⟩, none), (⟨(0, 13), (0, 40)⟩, ⟨(0, 13), (0, 40)⟩, some 0)] = false := by decide

end LspShape
