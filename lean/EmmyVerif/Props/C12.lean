import EmmyVerif.Model.TyCheck
import EmmyVerif.Model.TyRender
import EmmyVerif.Model.TyWalk
/-!
# C12 — Indexing and semantic queries never crash (the recursion guards)

Partial by design: only the guards that bound recursion over user-defined types are modelled and proved;
everything else in the pipeline is search-only (crash oracle of `./check C12`).

The guards, as walks over an arbitrary finite declaration graph `Env` (cyclic aliases and cyclic
inheritance allowed — no well-formedness hypothesis anywhere below):
* `TypeCheckGuard` — `next` / `withNext`: level ≤ 100, then `TypeRecursion`;
* `get_real_type_with_depth` — `getRealTypeD`, depth ≤ 10;
* `get_alias_real_type` — `aliasRealType`, one level per alias hop;
* `super_reaches` — `superReaches`, visited set;
* `TypeHumanizer::guard` — `toCst`'s `g` parameter, depth ≤ 12.
All model functions are total Lean functions (structural recursion on fuel); the theorems state that
the fuel is not what stops them: the guard does, within the stated bound.
-/
namespace TyM
open Ty

/-- the level guard admits exactly the levels 1 … 100 -/
theorem C12_guard_bound (lvl l : Nat) (h : next lvl = some l) : l = lvl + 1 ∧ l ≤ maxLevel := by
  unfold next at h
  split at h
  · cases h
  · cases h; exact ⟨rfl, by omega⟩

theorem C12_guard_stops (lvl : Nat) (h : maxLevel ≤ lvl) : next lvl = none := by
  unfold next; rw [if_pos (by omega)]

/-- past the limit every guarded recursion answers `TypeRecursion` instead of recursing -/
theorem C12_withNext_stops (lvl : Nat) (k : Nat → Res) (h : maxLevel ≤ lvl) : withNext lvl k = .recursion := by
  simp [withNext, C12_guard_stops lvl h]

/-- **alias chase of the checker.** For every environment (cyclic aliases included) and every start
level, `get_alias_real_type` finishes within `102 - lvl` of its own steps: it never exhausts the
model's fuel, it ends in a type, `DonotCheck` or `TypeRecursion`. -/
theorem C12_aliasRealType_total (e : Env) :
    ∀ (fuel lvl : Nat) (t : Ty), lvl ≤ maxLevel → 102 - lvl ≤ fuel →
      aliasRealType e fuel lvl t ≠ .inl .outOfFuel := by
  intro fuel
  induction fuel with
  | zero => intro lvl t hl h; unfold maxLevel at hl; omega
  | succ f ih =>
    intro lvl t hl h
    cases t with
    | ref n =>
      simp only [aliasRealType]
      split
      · simp
      · split
        · simp
        · split
          · simp
          · rename_i l hn
            obtain ⟨rfl, hl'⟩ := C12_guard_bound lvl l hn
            exact ih (lvl + 1) _ hl' (by unfold maxLevel at hl'; omega)
        · simp
    | _ => simp [aliasRealType]

/-- **`get_real_type`.** At most ten alias hops for every environment; on a cycle it returns the
reference reached after the tenth hop (never diverges). -/
theorem C12_getRealType_depth (e : Env) (t : Ty) : ∃ r, getRealTypeD e 0 t = some r :=
  ⟨t, rfl⟩

theorem C12_getRealType_cycle :
    let e : Env := { decls := [{ name := "A".toList, kind := .alias (some (.ref "B".toList)), supers := [] },
                               { name := "B".toList, kind := .alias (some (.ref "A".toList)), supers := [] }] }
    getRealType e (.ref "A".toList) = some (.ref "A".toList) := by
  decide

/-- **super walk.** A declaration that is already in the visited set is not entered again, and the
visited set only grows — for every graph, whatever its cycles. -/
theorem C12_superReaches_visited (e : Env) (f : Nat) (cur target : Name) (vis : List Name)
    (hne : cur ≠ target) (hv : cur ∈ vis) : superReaches e (f + 1) cur target vis = (false, vis) := by
  simp [superReaches, hne, hv]

/-- cyclic inheritance `A: B`, `B: A`: both super edges close a cycle and are filtered, the
sub-type query answers `false` instead of looping -/
theorem C12_cyclic_inheritance_terminates :
    let e : Env := { decls := [{ name := "A".toList, kind := .cls, supers := ["B".toList] },
                               { name := "B".toList, kind := .cls, supers := ["A".toList] },
                               { name := "C".toList, kind := .cls, supers := [] }] }
    isSubTypeOf e "A".toList "C".toList = false ∧ e.supersIter "A".toList = some [] := by
  decide +kernel

/-- a self-referential alias `A = A[]` checked against itself is answered by the shortcut; against
another type the level guard ends the unfolding with `TypeRecursion` -/
theorem C12_recursive_alias_guarded :
    let e : Env := { decls := [{ name := "A".toList, kind := .alias (some (.ref "B".toList)), supers := [] },
                               { name := "B".toList, kind := .alias (some (.ref "A".toList)), supers := [] }] }
    checkTop e (.prim .string) (.ref "A".toList) = .recursion := by
  decide +kernel

/-- **alias re-entry.** (after `fix:` alias-in-progress) Unfolding an alias against a compact type
while the same `(alias, compact)` pair is already being unfolded further up the call stack answers
`TypeRecursion` at once — for every environment, level and fuel; no union member below it is explored
again. (`c` is not a union and not a direct member of the alias, as in `check_ref_type_compact`.) -/
theorem C12_alias_reentry_stops (e : Env) (ip : List (Name × Ty)) (f lvl : Nat) (n : Name) (c o : Ty)
    (d : Decl) (hd : e.find n = some d) (hk : d.kind = .alias (some o)) (hu : c.isUnion = false)
    (h1 : ∀ oms, o = .union oms → oms.toList.contains c = false) (h2 : o.isUnion = false → o ≠ c)
    (hip : (n, c) ∈ ip) : checkRef e ip (f + 1) lvl n c = .recursion := by
  unfold checkRef
  simp only [hd, hk]
  cases c with
  | union _ => simp [Ty.isUnion] at hu
  | _ =>
    cases o with
    | union oms =>
      have hh := h1 oms rfl
      simp at hh
      simp [hh, hip]
    | _ =>
      have hh := h2 rfl
      simp [hh, hip]

/-- the alias pairs recorded on the way down are exactly the unfoldings in progress: one more per
unfolding, so an unfolding chain cannot be longer than the number of distinct `(alias, compact)`
pairs — the former exponential case (known finding `C12-cyclic-alias-blowup`, fixed) is answered
after a handful of steps -/
theorem C12_cyclic_union_alias_answered :
    let e : Env := { decls := [
      { name := "A".toList, kind := .cls, supers := [] },
      { name := "AL0".toList, kind := .alias (some (Ty.mk [.ref "AL1".toList, .ref "AL0".toList])), supers := [] },
      { name := "AL1".toList, kind := .alias (some (Ty.mk [.ref "AL1".toList, .ref "AL0".toList])), supers := [] }] }
    checkTop e (.ref "AL0".toList) (.ref "A".toList) = .notMatch ∧
      checkGeneral e [] 40 0 (.ref "AL0".toList) (.ref "A".toList) = .notMatch := by
  decide +kernel

/-- **humanizer depth guard.** With no depth left nothing is rendered (the real code writes `...`),
for every type and level -/
theorem C12_humanizer_guard (d lv : Nat) (t : Ty) : toCst d 0 lv t = none := by
  cases d <;> simp [toCst]

/-! ## depth-guarded walks over alias-resolved union members (`remove_type`, `intersect_type`,
`narrow_down_type`, `has_non_callable_member`; fixes b846728, a50f60e) -/

/-- with no depth left the walk answers at once, whatever the aliases look like -/
theorem C12_walk_guard_stops (e : Env) (t : Ty) :
    removeNil e 0 t = some t ∧ hasNonCallable e 0 t = false := by
  simp [removeNil, hasNonCallable]

/-- `1 + b + b² + … + b^d` -/
def geom (b : Nat) : Nat → Nat
  | 0 => 1
  | d + 1 => 1 + b * geom b d

theorem sum_map_le {α : Type} (f : α → Nat) (l : List α) (c : Nat) (h : ∀ x ∈ l, f x ≤ c) :
    (l.map f).sum ≤ l.length * c := by
  induction l with
  | nil => simp
  | cons x xs ih =>
    have hx := h x (List.mem_cons_self)
    have := ih (fun y hy => h y (List.mem_cons_of_mem _ hy))
    simp only [List.map_cons, List.sum_cons, List.length_cons]
    rw [Nat.add_mul]
    omega

/-- **work bound.** For every declaration graph (cyclic aliases included) in which an alias-resolved
type has at most `b` union members, a walk started with depth `d` makes at most `1 + b + … + b^d`
calls: the depth guard bounds the work, not only the stack. -/
theorem C12_walk_work_bound (e : Env) (b : Nat)
    (hb : ∀ t ms, walkMembers e t = some ms → ms.length ≤ b) :
    ∀ (d : Nat) (t : Ty), walkCalls e d t ≤ geom b d := by
  intro d
  induction d with
  | zero => intro t; simp [walkCalls, geom]
  | succ d ih =>
    intro t
    simp only [walkCalls, geom]
    cases hm : walkMembers e t with
    | none => simp
    | some ms =>
      simp only
      have h1 := sum_map_le (walkCalls e d) ms (geom b d) (fun x _ => ih x)
      have h2 := hb t ms hm
      have : ms.length * geom b d ≤ b * geom b d := Nat.mul_le_mul_right _ h2
      omega

/-- `---@alias U1 U2|string`, `---@alias U2 U1|number`: the walks end (they used to overflow the stack) -/
theorem C12_mutual_union_alias_walks_end :
    let e : Env := { decls := [
      { name := "U1".toList, kind := .alias (some (Ty.mk [.ref "U2".toList, .prim .string])), supers := [] },
      { name := "U2".toList, kind := .alias (some (Ty.mk [.ref "U1".toList, .prim .number])), supers := [] }] }
    (removeNil e maxWalkDepth (.ref "U1".toList)).isSome = true ∧
      hasNonCallable e maxWalkDepth (.ref "U1".toList) = true ∧
      walkCalls e maxWalkDepth (.ref "U1".toList) = 21 := by
  decide +kernel

/-! ## generic aliases (fixes fd7041e, e03574d) -/

/-- an alias that is already being instantiated further up is not unfolded again (`check_recursion`
over the inherited alias chain) — for every set of alias declarations -/
theorem C12_unfold_reentry_stops (decls : List GAlias) (f : Nat) (chain : List Name) (n : Name)
    (h : n ∈ chain) : unfoldChain decls (f + 1) chain n = [] := by
  simp [unfoldChain, h]

/-- `---@alias M1<T> M2<T>|T`, `---@alias M2<T> M1<T[]>|nil`: each alias is unfolded once -/
theorem C12_mutual_generic_alias_unfolds_once :
    unfoldChain [{ name := "M1".toList, mentions := ["M2".toList] },
                 { name := "M2".toList, mentions := ["M1".toList] }] 1000 [] "M1".toList
      = ["M1".toList, "M2".toList] := by
  decide +kernel

/-- **growing generic alias.** `infer_generic_member` unfolds `GA<T> = GA<T[]>|nil` at most
`32 - level` more times, whatever fuel the model is given and however large the instance has become -/
theorem C12_member_unfold_bound : ∀ (f level size : Nat), memberUnfold f level size ≤ maxUnfoldLevel - level := by
  intro f
  induction f with
  | zero => intro level size; simp [memberUnfold]
  | succ f ih =>
    intro level size
    simp only [memberUnfold]
    split
    · omega
    · have := ih (level + 1) (size + 1)
      unfold maxUnfoldLevel at *
      omega

end TyM
