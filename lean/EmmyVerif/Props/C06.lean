import EmmyVerif.Lemmas.Printer
/-!
# C06 — Formatting is idempotent  (*partial*)

`fmt (fmt x) = fmt x` is a statement about the whole formatter; its rule set (IR construction from
syntax, which also reads the *layout* of the source: line breaks inside tables, calls, parameter
lists, multi-line tokens) is not modelled and is decided by the search of `./check C06`, which
does find inputs that need two passes (open findings, see notes/fmt.md).
What is proved here is the printer half of the anchor "layout decisions are made from token widths
only": all three decision procedures of the printer — `fits_impl`, `has_hard_line`, `ir_flat_width`
— give the same answer when every text of the IR is replaced by another text of the same length.
So two IRs of the same shape (which is what formatting `x` and re-formatting `fmt x` must produce
for the second pass to be a no-op) are broken and aligned identically, whatever their texts are.
Same model and tie as C05 (`Model/Printer.lean`, hook H5 correspondence run).
-/
namespace Printer

/-- **break decisions are made from widths only**: `fits_impl` on any stack, for any group-break
map, remaining width and fuel, is invariant under replacing texts by texts of equal length -/
theorem C06_fits_depends_on_widths_only (breaks : List (Nat × Bool)) (fuel : Nat) (stack : List (Doc × Mode))
    (rem : Int) :
    fits breaks fuel (stack.map fun p => (p.1.shape, p.2)) rem = fits breaks fuel stack rem :=
  fits_shape breaks fuel stack rem

/-- the group decision of `print_doc` (`should_break || has_hard_line`, else `fits_on_line`) is the
same for an IR and its shape, from states with the same column and break map -/
theorem C06_group_mode_depends_on_widths_only (cfg : Cfg) (st : St) (fuel : Nat) (ds : List Doc) :
    (hasHardLineL (shapeL ds), fitsOnLine cfg st fuel (shapeL ds))
      = (hasHardLineL ds, fitsOnLine cfg st fuel ds) := by
  have h := fits_shape st.breaks fuel (ds.map (·, Mode.flat)) (Int.ofNat (cfg.maxWidth - st.col))
  refine Prod.ext (hasHardLineL_shape ds) ?_
  simp only [fitsOnLine, shapeL_eq_map]
  rw [← h]
  simp [List.map_map, Function.comp_def]

/-- alignment columns (`max_before`, content widths) are computed from `ir_flat_width`, which
sees lengths only -/
theorem C06_alignment_depends_on_widths_only (d : Doc) (es : List (Entry Doc)) :
    d.shape.flatWidth = d.flatWidth ∧ flatWidthE (shapeE es) = flatWidthE es :=
  ⟨flatWidth_shape d, flatWidthE_shape es⟩

/-! Non-vacuity (tests, labelled as such) -/
example : (Doc.group [.text [97, 98], .softLine, .text [99]] false none).shape
    = .group [.text [0, 0], .softLine, .text [0]] false none := by simp [Doc.shape, shapeL]
example : fits [] 10 [(.group [.text [97, 98], .softLine, .text [99]] false none, .flat)] 3 = false := by decide
example : fits [] 10 [(.group [.text [97, 98], .softLine, .text [99]] false none, .flat)] 4 = true := by decide

end Printer
