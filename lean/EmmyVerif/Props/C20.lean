import EmmyVerif.Model.DiagConfig
/-!
# C20 — Configuration controls which diagnostics are reported and how

T-exec: `Gen/DiagTable.lean` is regenerated on every run by executing the real
`is_checker_enable_by_code`, `get_severity`, `is_code_default_enable`, `get_default_severity` over
all codes × all switch combinations; the bridge theorems below check the readable model against every
row with `decide +kernel`. The clause theorems are then proved about the model for all codes and all
configurations (arbitrary code lists, not only the singleton lists of the table).
-/
namespace Diag
open Gen.Diag

/-! ### bridges (model = table, every row) -/

/-- the precedence chain agrees with the real `is_checker_enable_by_code` on all
codes × {workspace enabled, workspace disabled, meta, file enabled, file disabled} -/
theorem C20_enable_bridge :
    enableRows.all (fun (c, wsE, wsD, isMeta, fE, fD, res) =>
      enabledByCode (defaultOn lv_default)
        { wsEnabled := if wsE then [c] else [], wsDisabled := if wsD then [c] else [] }
        { actions := [], fileDisabled := if fD then [c] else [], fileEnabled := if fE then [c] else [] }
        isMeta c == res) = true := by
  decide +kernel

theorem C20_default_bridge :
    defaultRows.all (fun (c, level, res) => defaultOn level c == res) = true := by
  decide +kernel

theorem C20_default_severity_bridge :
    defaultSeverityRows.all (fun (c, s) => defaultSeverity c == s) = true := by
  decide +kernel

theorem C20_severity_bridge :
    severityRows.all (fun (c, ov, res) =>
      severity (if ov = 0 then [] else [(c, ov)]) c == res) = true := by
  decide +kernel

/-- every code of the table is a code index and every code index has rows -/
theorem C20_table_complete :
    (List.range codeNames.length).all (fun c =>
      (enableRows.filter (fun r => r.1 == c)).length == 32 &&
      (defaultRows.filter (fun r => r.1 == c)).length == levelNames.length &&
      (severityRows.filter (fun r => r.1 == c)).length == 5) = true := by
  decide +kernel

/-! ### clause theorems (all codes, all configurations) -/

/-- **Clause 1.** A code in `diagnostics.disable` is never reported unless the file enables it. -/
theorem C20_disabled_never_reported (defOn : Code → Bool) (cfg : Config) (st : FileDiag) (isMeta : Bool)
    (c : Code) (r : Range) (hd : c ∈ cfg.wsDisabled) (hfe : c ∉ st.fileEnabled) :
    reported defOn cfg st isMeta c r = false := by
  simp [reported, enabledByCode, hd, hfe]

/-- … and the exception: `---@diagnostic enable: c` in the file wins over everything (workspace
disable, meta file, file-level disable). -/
theorem C20_file_enable_wins (defOn : Code → Bool) (cfg : Config) (st : FileDiag) (isMeta : Bool)
    (c : Code) (hfe : c ∈ st.fileEnabled) : enabledByCode defOn cfg st isMeta c = true := by
  simp [enabledByCode, hfe]

/-- **Clause 2.** A code in `diagnostics.enables` is enabled even when off by default (in a
non-meta file, when neither the workspace nor the file disables it). -/
theorem C20_enables_reported (defOn : Code → Bool) (cfg : Config) (st : FileDiag) (c : Code)
    (he : c ∈ cfg.wsEnabled) (hd : c ∉ cfg.wsDisabled) (hfd : c ∉ st.fileDisabled) :
    enabledByCode defOn cfg st false c = true := by
  simp [enabledByCode, he, hd, hfd]

/-- … so such a diagnostic is reported exactly when no suppression scope drops it. -/
theorem C20_enables_reported_iff (defOn : Code → Bool) (cfg : Config) (st : FileDiag) (c : Code) (r : Range)
    (he : c ∈ cfg.wsEnabled) (hd : c ∉ cfg.wsDisabled) (hfd : c ∉ st.fileDisabled) :
    reported defOn cfg st false c r = !suppressed st c r := by
  simp [reported, C20_enables_reported defOn cfg st c he hd hfd]

/-- without any switch the default decides -/
theorem C20_default_decides (defOn : Code → Bool) (cfg : Config) (st : FileDiag) (c : Code)
    (h1 : c ∉ st.fileEnabled) (h2 : c ∉ cfg.wsDisabled) (h3 : c ∉ st.fileDisabled) (h4 : c ∉ cfg.wsEnabled) :
    enabledByCode defOn cfg st false c = defOn c := by
  simp [enabledByCode, h1, h2, h3, h4]

/-- **Clause 3.** `diagnostics.severity` overrides the reported severity; otherwise the default. -/
theorem C20_severity_override (overrides : List (Code × Nat)) (c : Code) (s : Nat)
    (h : overrides.lookup c = some s) : severity overrides c = s := by
  simp [severity, h]

theorem C20_severity_default (overrides : List (Code × Nat)) (c : Code)
    (h : overrides.lookup c = none) : severity overrides c = defaultSeverity c := by
  simp [severity, h]

/-- a severity is always present (1..4) when the overrides are severities -/
theorem C20_severity_present (overrides : List (Code × Nat)) (c : Code)
    (h : ∀ p ∈ overrides, 1 ≤ p.2 ∧ p.2 ≤ 4) : 1 ≤ severity overrides c ∧ severity overrides c ≤ 4 := by
  unfold severity
  cases hl : overrides.lookup c with
  | none => simp only; unfold defaultSeverity; split <;> (try split) <;> omega
  | some s =>
    have hm : (c, s) ∈ overrides := by
      clear h
      induction overrides with
      | nil => simp at hl
      | cons p rest ih =>
        obtain ⟨a, b⟩ := p
        by_cases hca : c = a
        · subst hca; simp [List.lookup] at hl; subst hl; simp
        · have : (c == a) = false := by simpa using hca
          simp [List.lookup, this] at hl
          exact List.mem_cons_of_mem _ (ih hl)
    exact h (c, s) hm

/-- **Clause 4.** Names in `globals` / matched by `globalsRegex` are never reported as undefined
globals. -/
theorem C20_globals_never_reported (declared inGlobals matchesRegex : Bool)
    (h : inGlobals = true ∨ matchesRegex = true) : globalReported declared inGlobals matchesRegex = false := by
  rcases h with h | h <;> simp [globalReported, h]

/-- **Clause 5 (partial).** A meta file reports nothing — *unless the file itself enables the code*.
Full statement (violated by the current code, see `C20_meta_witness`):
`isMeta = true → reported defOn cfg st isMeta c r = false`. -/
theorem C20_meta_reports_nothing_partial (defOn : Code → Bool) (cfg : Config) (st : FileDiag)
    (c : Code) (r : Range) (hfe : c ∉ st.fileEnabled) : reported defOn cfg st true c r = false := by
  simp [reported, enabledByCode, hfe]

/-- `---@meta` takes effect exactly for files under some workspace root (known finding
`meta-outside-workspace` for the rest) -/
theorem C20_meta_effective (kind : WorkspaceKind) : effectiveMeta true kind = true ↔ kind ≠ .outside := by
  cases kind <;> simp [effectiveMeta]

/-- the current code reports in a meta file that carries `---@diagnostic enable: c` (file enable is
checked before the meta test) — known finding `meta-file-enable` -/
theorem C20_meta_witness :
    ¬ (∀ (st : FileDiag) (c : Code) (r : Range), reported (fun _ => true) {} st true c r = false) := by
  intro h
  have := h { fileEnabled := [0] } 0 (0, 1)
  revert this
  decide

/-- **Clause 6.** Library and standard-library files report nothing, and `diagnostics.enable = false`
reports nothing at all. -/
theorem C20_library_std_report_nothing (enable : Bool) (kind : WorkspaceKind) (diags : List α)
    (h : kind = .library ∨ kind = .std) : fileReports enable kind diags = none := by
  rcases h with h | h <;> subst h <;> cases enable <;> rfl

theorem C20_enable_false_reports_nothing (kind : WorkspaceKind) (diags : List α) :
    fileReports false kind diags = none := rfl

/-- in the main workspace with diagnostics on, exactly the gated diagnostics come out -/
theorem C20_main_reports (diags : List α) : fileReports true .main diags = some diags := rfl

/-! ### non-vacuity -/
example : enabledByCode (defaultOn lv_default) { wsEnabled := [c_code_style_check] } {} false c_code_style_check = true := by decide
example : enabledByCode (defaultOn lv_default) {} {} false c_code_style_check = false := by decide
example : enabledByCode (defaultOn lv_default) { wsDisabled := [c_unused] } { fileEnabled := [c_unused] } false c_unused = true := by decide
example : severity [(c_unused, 1)] c_unused = 1 ∧ severity [] c_unused = 4 := by decide
example : defaultOn lv_Lua54 c_iter_variable_reassign = false ∧ defaultOn lv_Lua55 c_iter_variable_reassign = true := by decide

end Diag
