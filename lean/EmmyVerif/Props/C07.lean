import EmmyVerif.Lemmas.RangeText
/-!
# C07 — Range formatting only rewrites code around the selection

Statements about the model `Model/RangeText.lean` of the text helpers of
`formatter/range_format/mod.rs` (`clamp_range`, `expand_to_full_lines`, `line_indent_prefix`,
`strip_base_indent`, `apply_base_indent`) and of applying the resulting edit (`splice`).
Texts are byte lists, offsets are byte offsets. The model is tied to the Rust helpers
(re-exported by the `verif` hook) by the correspondence run of `./check C07`.

*Partial*: which region is selected (`select_format_range`, explicit table/argument/parameter
targets, layout plan) and how the fragment is re-formatted are the formatter's rule set; they are
decided by the search (oracle on `reformat_range`), not by these theorems.
-/
namespace RangeText

/-- **splice_outside_untouched.** Applying an edit `{[s,e), r}` changes nothing before `s`, and
everything from `e` on re-appears unchanged right after the replacement. -/
theorem C07_splice_outside_untouched (t r : Txt) (s e : Nat) (hs : s ≤ e) (he : e ≤ t.length) :
    (splice t s e r).take s = t.take s ∧ (splice t s e r).drop (s + r.length) = t.drop e ∧
    (splice t s e r).length = t.length - (e - s) + r.length := by
  have hl : (t.take s).length = s := by simp; omega
  refine ⟨?_, ?_, ?_⟩
  · simp only [splice, List.append_assoc]
    rw [List.take_append_of_le_length (by omega)]
    simp [List.take_take]
  · simp only [splice]
    rw [List.drop_append_of_le_length (by simp; omega)]
    have : s + r.length = (t.take s ++ r).length := by simp; omega
    rw [this, List.drop_length]; rfl
  · simp [splice]; omega

/-- splicing the replaced text back in is the identity (an edit that changes nothing) -/
theorem C07_splice_same (t : Txt) (s e : Nat) (hs : s ≤ e) :
    splice t s e ((t.drop s).take (e - s)) = t := by
  simp only [splice]
  have h1 : (t.drop s).take (e - s) ++ t.drop e = t.drop s := by
    have : t.drop e = (t.drop s).drop (e - s) := by simp [List.drop_drop]; congr 1; omega
    rw [this, List.take_append_drop]
  rw [List.append_assoc, h1, List.take_append_drop]

/-- **clamp_range** always yields an ordered range inside the document and leaves ordered
in-bounds ranges alone (an inverted client range becomes empty instead of panicking) -/
theorem C07_clamp_range (s e ub : Nat) :
    (clampRange s e ub).1 ≤ (clampRange s e ub).2 ∧ (clampRange s e ub).2 ≤ ub ∧
    (s ≤ e → e ≤ ub → clampRange s e ub = (s, e)) := by
  simp only [clampRange]
  refine ⟨by omega, by omega, ?_⟩
  intro h1 h2
  have : min s ub = s := by omega
  have : max (min e ub) (min s ub) = e := by omega
  simp [*]

/-- **expand_to_full_lines covers the selection** and stays inside the document, starts at the
beginning of a line and ends after a line terminator or at the end of the document. -/
theorem C07_expand_covers (t : Txt) (s e : Nat) (hs : s ≤ e) (he : e ≤ t.length) :
    let r := expandToFullLines t s e
    r.1 ≤ s ∧ e ≤ r.2 ∧ r.2 ≤ t.length ∧
    (r.1 = 0 ∨ t[r.1 - 1]? = some NL) ∧ (r.2 = t.length ∨ t[r.2 - 1]? = some NL) := by
  simp only [expandToFullLines]
  refine ⟨lineStartOffset_le t s, ?_, lineEndOffset_le t e, ?_, ?_⟩
  · have := lineEndOffset_ge t e; omega
  · simp only [lineStartOffset]
    have hmin : min s t.length = s := by omega
    rw [hmin]
    have hb := backToNl_le (t.take s).reverse
    simp at hb
    rcases backToNl_spec (t.take s).reverse with h | h
    · left; simp at h; omega
    · right
      generalize hk : backToNl (t.take s).reverse = k at *
      have hk2 : k < (t.take s).length := by
        have := (List.getElem?_eq_some_iff.mp h).1; simpa using this
      rw [List.getElem?_reverse (by simpa using hk2)] at h
      simp at hk2
      rw [List.getElem?_take_of_lt (by simp; omega)] at h
      have : (t.take s).length - 1 - k = s - k - 1 := by simp; omega
      rw [this] at h; exact h
  · simp only [lineEndOffset]
    have hmin : min e t.length = e := by omega
    rw [hmin]
    rcases fwdToNl_spec (t.drop e) with h | ⟨h0, h⟩
    · left; simp at h; omega
    · right
      rw [List.getElem?_drop] at h
      have : e + fwdToNl (t.drop e) - 1 = e + (fwdToNl (t.drop e) - 1) := by omega
      rw [this]; exact h

/-- `line_indent_prefix` returns blanks only, and they are a prefix of the text at the line start -/
theorem C07_line_indent_prefix (t : Txt) (start : Nat) :
    (∀ b ∈ lineIndentPrefix t start, isBlank b = true) ∧ lineIndentPrefix t start <+: t.drop start := by
  simp only [lineIndentPrefix]
  refine ⟨fun b hb => mem_takeWhile_true _ _ b hb, ?_⟩
  exact (List.takeWhile_prefix _).trans (List.take_prefix _ _)

/-- **indent_roundtrip.** `apply_base_indent(strip_base_indent(f, p), p) = f` for every fragment
whose lines are each either blank-free-of-content (empty body) or start with `p` followed by at
least one more byte. (Full statement without the hypothesis is false: a line consisting of
exactly `p` comes back empty, and a line not starting with `p` gets `p` added — see the examples.) -/
theorem C07_indent_roundtrip (f p : Txt) (hp : ∀ b ∈ p, isBlank b = true)
    (hl : ∀ l ∈ splitInclusive f, body l = [] ∨ ∃ r, r ≠ [] ∧ body l = p ++ r) :
    applyBaseIndent (stripBaseIndent f p []) p [] = f := by
  by_cases hpe : p = []
  · subst hpe
    have : stripBaseIndent f [] [] = f := by
      rw [stripBaseIndent_eq, flatten_map_id _ _ (fun l _ => by simp [stripLine, stripPrefix, body_append_ending]),
        flatten_splitInclusive]
    simp [applyBaseIndent, this]
  · have hnl := blank_no_nl p hp
    have hwf : WfLines ((splitInclusive f).map (stripLine p)) :=
      wf_map _ _ (wf_splitInclusive f)
        (fun c hc hm => stripLine_closed p c hpe hc (hl _ hm))
        (fun l hne hnl' hm => stripLine_open p l hne hnl' (hl _ hm))
    rw [applyBaseIndent_eq _ p hpe, stripBaseIndent_eq, splitInclusive_flatten _ hwf, List.map_map,
      flatten_map_id _ (applyLine p ∘ stripLine p) (fun l hm => apply_strip_line p l hpe (hl l hm)), flatten_splitInclusive]

/-- the other direction holds for every text: stripping the indent that was just applied -/
theorem C07_strip_apply (t p : Txt) (hp : ∀ b ∈ p, isBlank b = true) :
    stripBaseIndent (applyBaseIndent t p []) p [] = t := by
  by_cases hpe : p = []
  · subst hpe
    simp only [applyBaseIndent, List.isEmpty_nil, if_true]
    rw [stripBaseIndent_eq, flatten_map_id _ _ (fun l _ => by simp [stripLine, stripPrefix, body_append_ending]),
      flatten_splitInclusive]
  · have hnl := blank_no_nl p hp
    have hwf : WfLines ((splitInclusive t).map (applyLine p)) :=
      wf_map _ _ (wf_splitInclusive t)
        (fun c hc _ => applyLine_closed p c hnl hc)
        (fun l hne hnl' _ => applyLine_open p l hnl hne hnl')
    rw [stripBaseIndent_eq, applyBaseIndent_eq _ p hpe, splitInclusive_flatten _ hwf, List.map_map,
      flatten_map_id _ (stripLine p ∘ applyLine p) (fun l _ => strip_apply_line p l hpe), flatten_splitInclusive]

/-- **token preservation of the text pipeline.** Whatever the fragment formatter `fmt` is, as long
as it keeps the non-blank bytes of the dedented fragment, the document obtained by splicing
`apply_base_indent(fmt(strip_base_indent(fragment, p, k1)), q, k2)` over `[s, e)` has the same non-blank
bytes as the original (for blank-only indent prefixes `p`, `q` — what `line_indent_prefix` and
`indent_str().repeat(n)` produce). No byte of code is lost or invented by the helpers. -/
theorem C07_pipeline_nonblank (t p q : Txt) (k1 k2 : List Nat) (s e : Nat) (fmt : Txt → Txt) (hs : s ≤ e)
    (hp : ∀ b ∈ p, isBlank b = true) (hq : ∀ b ∈ q, isBlank b = true)
    (hfmt : ∀ x, nonBlank (fmt x) = nonBlank x) :
    nonBlank (splice t s e (applyBaseIndent (fmt (stripBaseIndent ((t.drop s).take (e - s)) p k1)) q k2))
      = nonBlank t := by
  have h := C07_splice_same t s e hs
  have : nonBlank (splice t s e ((t.drop s).take (e - s))) = nonBlank t := by rw [h]
  rw [← this]
  simp only [splice, nonBlank_append]
  rw [nonBlank_applyBaseIndent _ q k2 hq, hfmt, nonBlank_stripBaseIndent _ p k1 hp]

/-! Non-vacuity and the cases outside `indent_roundtrip`'s hypothesis (tests, labelled as such). -/
-- "  a\n\n  b" with p = "  ": hypothesis holds, round trip is the identity
example : applyBaseIndent (stripBaseIndent [32, 32, 97, 10, 10, 32, 32, 98] [32, 32] []) [32, 32] []
    = [32, 32, 97, 10, 10, 32, 32, 98] := by decide
-- a line that is exactly the prefix comes back empty
example : applyBaseIndent (stripBaseIndent [32, 32, 10, 32, 32, 98] [32, 32] []) [32, 32] [] = [10, 32, 32, 98] := by decide
-- a line that does not start with the prefix gets it added
example : applyBaseIndent (stripBaseIndent [97, 10] [32, 32] []) [32, 32] [] = [32, 32, 97, 10] := by decide
example : expandToFullLines [97, 10, 98, 99, 10, 100] 3 3 = (2, 5) := by decide
example : lineIndentPrefix [97, 10, 32, 9, 98, 10] 2 = [32, 9] := by decide
example : clampRange 7 3 5 = (5, 5) := by decide
-- \r\n endings are kept
example : stripBaseIndent [32, 97, 13, 10, 32, 98] [32] [] = [97, 13, 10, 98] := by decide
-- `x=[[a` / ` b]]` re-indented by a tab: with the second line start (offset 6) kept, the inside of the long
-- string is untouched; without it (the behaviour before fix ac5fa6f) the string content changes
example : applyBaseIndent [120, 61, 91, 91, 97, 10, 32, 98, 93, 93] [9] [6] = [9, 120, 61, 91, 91, 97, 10, 32, 98, 93, 93] := by decide
example : applyBaseIndent [120, 61, 91, 91, 97, 10, 32, 98, 93, 93] [9] [] = [9, 120, 61, 91, 91, 97, 10, 9, 32, 98, 93, 93] := by decide

/-- lines whose start offsets are all listed in `keep` are copied verbatim: keeping every line start
leaves the text unchanged, whatever the prefix -/
theorem C07_keep_all_unchanged (t p keep : Txt)
    (h : ∀ pre l post, splitInclusive t = pre ++ l :: post → keep.contains pre.flatten.length = true) :
    stripBaseIndent t p keep = t ∧ applyBaseIndent t p keep = t := by
  have hk := mapLinesFrom_keep_all keep
  constructor
  · unfold stripBaseIndent mapLines
    rw [hk _ 0 _ (by simpa using h), flatten_splitInclusive]
  · unfold applyBaseIndent mapLines
    split
    · rfl
    · rw [hk _ 0 _ (by simpa using h), flatten_splitInclusive]

end RangeText
