import EmmyVerif.Lemmas.EventsCore
import EmmyVerif.Lemmas.EventsGraph
import EmmyVerif.Lemmas.Reader
import EmmyVerif.Lemmas.EventsLevel
import EmmyVerif.Gen.TreeCallGraph
/-!
# C02 — Parsing never crashes or hangs on any input  (*partial*: see the end of this header)

Proved here, for **every** token list and **every** grammar behaviour:
* `bump` strictly advances the token index (`C02_bump_advances`);
* every iteration of the `parse_chunk` loop strictly advances (`C02_chunk_progress`) — the progress
  guard is what is modelled — hence the loop ends after at most `#tokens` iterations at the end of
  input (`C02_chunk_terminates`);
* all model functions are total (structural recursion, no fuel that can run out: `chunkLoop`'s
  iteration bound is proved sufficient).

Partial: real stack depth and wall-clock time are runtime facts. They are covered by the
implementation-side oracle of `./check C02` (child process, 2 MiB thread stack, time budget) and, for
the recursion depth, by the syntax-level limit (`LuaParser::MAX_SYNTAX_LEVELS`, `fix:` commit) whose
call-graph coverage is checked in `C02_every_recursion_is_limited` / `C02_stack_frames_bounded`
below over the call graph re-extracted from the Rust source on every run (`Gen/TreeCallGraph.lean`).
-/
namespace Core

/-- **C02 bump advances.** A successful `bump` moves the token index strictly forward and never
past the end. -/
theorem C02_bump_advances (toks : List TK) (docOn : Bool) (s s' : PS) (h : bump toks docOn s = some s') :
    s.idx < s'.idx ∧ s'.idx ≤ toks.length := by
  unfold bump at h
  split at h
  · cases h
  · rename_i k hk
    cases h
    have hlt : s.idx < toks.length := by
      rcases Nat.lt_or_ge s.idx toks.length with h | h
      · exact h
      · rw [List.getElem?_eq_none_iff.mpr h] at hk; cases hk
    obtain ⟨l1, l2⟩ := skipTrivia_le toks (s.idx + 1) (by omega)
    exact ⟨by simp only; omega, l2⟩

/-- `bump` panics (index out of bounds) exactly at the end of the token list -/
theorem C02_bump_total_before_end (toks : List TK) (docOn : Bool) (s : PS) (h : s.idx < toks.length) :
    ∃ s', bump toks docOn s = some s' := by
  cases hb : bump toks docOn s with
  | some s' => exact ⟨s', rfl⟩
  | none => have := (bump_none_iff toks docOn s).mp hb; omega

/-- **C02 chunk progress.** Each iteration of the `parse_chunk` loop that starts before the end of
input strictly advances the token index, whatever `parse_stats` (`g`) did. -/
theorem C02_chunk_progress (toks : List TK) (docOn : Bool) (g : PS → Nat) (s : PS)
    (hne : ∀ k ∈ toks, k ≠ TK.eof) (h : PInv toks s) (hlt : s.idx < toks.length) :
    let s1 := bumpN toks docOn (g s) s
    let s2 := if s1.idx == s.idx then (bump toks docOn s1).getD s1 else s1
    s.idx < s2.idx :=
  (chunk_step toks docOn hne g s h hlt).2

/-- **C02 chunk terminates.** For every grammar behaviour `g` the loop reaches the end of input
within `#tokens` iterations (the fuel is never exhausted before the end). -/
theorem C02_chunk_terminates (toks : List TK) (docOn : Bool) (g : PS → Nat)
    (hne : ∀ k ∈ toks, k ≠ TK.eof) :
    (chunkLoop toks docOn g toks.length (init toks docOn)).idx = toks.length := by
  obtain ⟨h1, h2⟩ := init_cover toks docOn hne
  exact (chunkLoop_spec toks docOn hne g toks.length _ ⟨h1, h2⟩ (by omega)).2

/-! Non-vacuity (tests): a grammar that never consumes anything still terminates through the guard. -/
example : (chunkLoop [.other, .ws, .other, .comment, .eol] true (fun _ => 0) 5 (init [.other, .ws, .other, .comment, .eol] true)).idx = 5 := by
  decide

end Core

namespace Reader

/-- **C02 tokenize terminates, linearly.** For every text and every lexer arm that bumps at least
once before the end, the lexer loop reaches the end of input within `#chars` iterations and emits at
most `#chars` tokens (the model function has no fuel that can run out). -/
theorem C02_tokenize_terminates (t : List Char) (arm : R → Nat) (harm : ∀ r, isEof r = false → 1 ≤ arm r) :
    isEof (tokenizeA arm (t.length + 1) (new t 0)).2 = true ∧
      (tokenizeA arm (t.length + 1) (new t 0)).1.length ≤ t.length := by
  have := tokenizeA_complete arm harm (t.length + 1) (new t 0) (wf_new t 0) (by simp [new])
  simpa [new] using this

end Reader

/-!
## Recursion depth: every recursion of the parse path takes a syntax level

`Gen.TreeCallGraph` is regenerated from crates/emmylua_parser/src on every run (T-src): the
functions of the grammar, parsers, lexers, reader and tree builders, their call edges, and the
functions that start by taking one of the `MAX_SYNTAX_LEVELS` levels (`enter_level`). A live stack is
a path in this graph; the level counter admits at most `maxLevels` guarded frames at a time.
-/
namespace CallGraph
open Gen.TreeCallGraph

/-- the regenerated certificate checks: every call edge between two unguarded functions strictly
decreases the rank (kernel evaluation over the extracted graph) -/
theorem C02_callgraph_cert : certOk edges guarded rank rankBound = true := by decide +kernel

/-- **C02 every recursion is limited.** Every call path longer than the longest unguarded chain —
in particular every cycle of the call graph, i.e. every recursion of lexer, parser, doc parser and
tree builder — contains a function that takes a syntax level. -/
theorem C02_every_recursion_is_limited (p : List Nat) (hp : IsPath edges p)
    (hlen : rankBound + 1 < p.length) : 0 < countG guarded p :=
  cycle_has_guard edges guarded rank rankBound C02_callgraph_cert p hp hlen

/-- **C02 stack frames bounded.** A stack (call path) on which at most `maxLevels` level-taking
frames are live — which `LuaParser::enter_level` enforces — has at most
`maxLevels * (rankBound + 1) + rankBound` frames, for every input. -/
theorem C02_stack_frames_bounded (p : List Nat) (hp : IsPath edges p)
    (hL : countG guarded p ≤ maxLevels) : p.length ≤ maxLevels * (rankBound + 1) + rankBound :=
  path_bound edges guarded rank rankBound maxLevels C02_callgraph_cert p hp hL

/-- the limit that is proved about is the one in the source -/
theorem C02_limit_value : maxLevels = 200 := by decide

end CallGraph

/-!
## The level counter: a failed `enter_level` changes nothing, guards are balanced

`Level.enter` / `Level.leave` / `Level.guarded` model `LuaParser::enter_level`, `leave_level` and the
guard shape `enter_level(p)?; let r = body; p.leave_level(); r`. That the source has exactly these
shapes is re-extracted on every run (`Gen.TreeCallGraph.guardShapes`: the two counter methods, the
two forwarders of the doc parser, the two `Result` helpers and every guard user — `enter_level(p)?;`
first, one `leave_level`, nothing in between that can leave the function).
-/
namespace Level

/-- **C02 failed enter leaves the counter unchanged**, and a successful one never exceeds the limit. -/
theorem C02_enter_fail_unchanged (max n : Nat) (h : (enter max n).2 = false) : (enter max n).1 = n :=
  enter_fail_unchanged max n h

theorem C02_enter_bounded (max n : Nat) (h : n ≤ max) : (enter max n).1 ≤ max := enter_le_max max n h

/-- **C02 guards are balanced.** Any nesting of guarded calls around a counter-neutral body returns the
counter to its value — whether each `enter` succeeded or failed — so the counter always equals the
number of live level-taking frames (what `C02_stack_frames_bounded` assumes). -/
theorem C02_guards_balanced (max : Nat) (inner : Nat → Nat) (hi : ∀ m, inner m = m) (k n : Nat) :
    nest max inner k n = n := nest_balanced max inner hi k n

/-- the seeded shape "`leave_level` also after a failed `enter_level`" is not balanced: at the limit
every failing guard lowers the counter by one (recursion is then unbounded) -/
theorem C02_unconditional_leave_witness : guardedBad 200 id 200 = 199 := by decide

/-- **T-src bridge.** Every function of the parse path that touches the level counter has the shape
the model describes (kernel evaluation over the list re-extracted from the Rust source). -/
theorem C02_guard_shapes_in_source :
    Gen.TreeCallGraph.guardShapes.all (fun x => x.2) = true ∧ 10 ≤ Gen.TreeCallGraph.guardShapes.length := by
  decide

end Level
