import EmmyVerif.Lemmas.IndexDb
import EmmyVerif.Lemmas.IndexModule
import EmmyVerif.Lemmas.IndexSymType
import EmmyVerif.Lemmas.IndexSymUpdate
import EmmyVerif.Lemmas.IndexDbProp
/-!
# C08 — Re-submitting or undoing an edit leaves analysis state unchanged

`update_file = remove_index + the file's contributions`. Statements about the models `Index.Module` and
`Index.Db` (see C10 for what they cover), for all histories. The exact law is: *an update leaves the state
that the other files' mutations followed by the file's new contributions build* (`…_update_exact`) — so a
re-submission is the identity whenever the file's contributions are already the last ones (in particular
every second re-submission, and an edit followed by a restore equals one re-submission). For vector-valued
entries shared between files a first re-submission moves the file's items to the end; whether that order is
observable is judged by the oracle. The doc-property index violates the law (witness): open finding.
-/
namespace Index

open Module in
/-- **C08 module index: re-submission is idempotent.** Adding the same path for the same file twice is the
same as adding it once: same live set, hence (C33) same resolution of every require string. -/
theorem C08_module_resubmit_idempotent (cfg : Config) (ops : List Op) (f : Nat) (path q : List Char) :
    specLive cfg (ops ++ [Op.add f path, Op.add f path]) = specLive cfg (ops ++ [Op.add f path]) ∧
    find cfg (run cfg (ops ++ [Op.add f path, Op.add f path])) q = find cfg (run cfg (ops ++ [Op.add f path])) q := by
  have h : specLive cfg (ops ++ [Op.add f path, Op.add f path]) = specLive cfg (ops ++ [Op.add f path]) := by
    have e : ops ++ [Op.add f path, Op.add f path] = (ops ++ [Op.add f path]) ++ [Op.add f path] := by simp
    rw [e, specLive_append (ops := ops ++ [Op.add f path]), specLive_append]
    simp only [specStep]
    cases extractModulePath (compilePatterns cfg.patterns) cfg.workspaces path with
    | none => simp [specRemove, List.filter_filter]
    | some r =>
      obtain ⟨mp, ws⟩ := r
      simp only [specAddMod, specRemove, List.filter_append, List.filter_filter]
      simp
  exact ⟨h, by rw [C33_find_refines_spec', C33_find_refines_spec', h]⟩
where
  C33_find_refines_spec' {cfg : Module.Config} {ops : List Module.Op} {q : List Char} :
      Module.find cfg (Module.run cfg ops) q = Module.specFind cfg (Module.specLive cfg ops) q :=
    Module.find_eq_spec (Module.inv_run cfg ops) q

open Module in
/-- **C08 module index: edit then restore.** Moving a file to another path and back is the same as one
re-submission of the original path. -/
theorem C08_module_edit_restore (cfg : Config) (ops : List Op) (f : Nat) (path path' : List Char) :
    specLive cfg (ops ++ [Op.add f path', Op.add f path]) = specLive cfg (ops ++ [Op.add f path]) := by
  have e : ops ++ [Op.add f path', Op.add f path] = (ops ++ [Op.add f path']) ++ [Op.add f path] := by simp
  rw [e, specLive_append (ops := ops ++ [Op.add f path']), specLive_append, specLive_append]
  have key : ∀ live : List Info, specRemove (specStep cfg live (Op.add f path')) f = specRemove live f := by
    intro live
    simp only [specStep]
    cases extractModulePath (compilePatterns cfg.patterns) cfg.workspaces path' with
    | none => simp [specRemove, List.filter_filter]
    | some r =>
      obtain ⟨mp, ws⟩ := r
      simp [specAddMod, specRemove, List.filter_append, List.filter_filter]
  simp only [specStep]
  cases extractModulePath (compilePatterns cfg.patterns) cfg.workspaces path with
  | none => exact key _
  | some r =>
    obtain ⟨mp, ws⟩ := r
    have := key (specLive cfg ops)
    simp only [specStep] at this
    have congr : ∀ (a b : List Info) (m : List Char), specRemove a f = specRemove b f →
        specAddMod a f m ws = specAddMod b f m ws := by
      intro a b m h; unfold specAddMod; rw [h]
    exact congr _ _ _ this

namespace Db

theorem applyAll_append (d : Db) (a b : List FMut) : applyAll d (a ++ b) = applyAll (applyAll d a) b := by
  simp [applyAll, List.foldl_append]

/-- **C08 per-file maps: `update_exact`.** Updating `f` with contributions `cs` leaves exactly the map that
the other files' mutations followed by `cs` build — for every interleaving of the earlier mutations. -/
theorem C08_perFile_update_exact (ms : List FMut) (f : File) (cs : List Mut) (k : Nat × File) :
    aget (update (build ms) f cs).perFile k =
      aget (build ((ms.filter fun m => m.1 ≠ f) ++ cs.map fun m => (f, m))).perFile k := by
  have e : ∀ l : List FMut, build l = applyAll Db.new l := fun _ => rfl
  rw [e ((ms.filter fun m => m.1 ≠ f) ++ _), applyAll_append, ← e]
  unfold update
  rw [perFile_applyAll, perFile_applyAll]
  simp only [agetL, perFile_remove_exact]

/-- **C08 keyed vector maps: `update_exact`.** -/
theorem C08_keyed_update_exact (ms : List FMut) (f : File) (cs : List Mut) (k : Nat × Nat) :
    aget (update (build ms) f cs).keyed k =
      aget (build ((ms.filter fun m => m.1 ≠ f) ++ cs.map fun m => (f, m))).keyed k := by
  have e : ∀ l : List FMut, build l = applyAll Db.new l := fun _ => rfl
  rw [e ((ms.filter fun m => m.1 ≠ f) ++ _), applyAll_append, ← e]
  unfold update
  rw [keyed_applyAll, keyed_applyAll]
  simp only [agetL, keyed_remove_exact]

/-- **C08 nested per-file maps: `update_exact`.** -/
theorem C08_nested_update_exact (ms : List FMut) (f : File) (cs : List Mut) (k : Nat × Nat) :
    aget (update (build ms) f cs).nested k =
      aget (build ((ms.filter fun m => m.1 ≠ f) ++ cs.map fun m => (f, m))).nested k := by
  have e : ∀ l : List FMut, build l = applyAll Db.new l := fun _ => rfl
  rw [e ((ms.filter fun m => m.1 ≠ f) ++ _), applyAll_append, ← e]
  unfold update
  rw [nested_applyAll, nested_applyAll]
  simp only [agetL, nested_remove_exact]

/-- **C08 id-owned maps: `update_exact`.** -/
theorem C08_owned_update_exact (ms : List FMut) (f : File) (cs : List Mut) (k : Nat × File × Nat) :
    aget (update (build ms) f cs).owned k =
      aget (build ((ms.filter fun m => m.1 ≠ f) ++ cs.map fun m => (f, m))).owned k := by
  have e : ∀ l : List FMut, build l = applyAll Db.new l := fun _ => rfl
  rw [e ((ms.filter fun m => m.1 ≠ f) ++ _), applyAll_append, ← e]
  unfold update
  rw [owned_applyAll, owned_applyAll, owned_remove_exact]

/-- **C08 `readd_identity`.** When `f`'s contributions `cs` are already the last mutations of the history,
re-submitting `f` unchanged leaves every per-file, keyed, nested and id-owned lookup unchanged — in particular every
re-submission after the first, and an edit followed by a restore after a re-submission. -/
theorem C08_readd_identity (ms : List FMut) (f : File) (cs : List Mut) (hms : ∀ m ∈ ms, m.1 ≠ f) :
    let s := build (ms ++ cs.map fun m => (f, m))
    (∀ k, aget (update s f cs).perFile k = aget s.perFile k) ∧
    (∀ k, aget (update s f cs).keyed k = aget s.keyed k) ∧
    (∀ k, aget (update s f cs).nested k = aget s.nested k) ∧
    (∀ k, aget (update s f cs).owned k = aget s.owned k) := by
  intro s
  have hf : ((ms ++ cs.map fun m => (f, m)).filter fun m => m.1 ≠ f) = ms := by
    rw [List.filter_append]
    have h1 : ms.filter (fun m => m.1 ≠ f) = ms := by
      rw [List.filter_eq_self]; intro a ha; simpa using hms a ha
    have h2 : (cs.map fun m => (f, m)).filter (fun m => m.1 ≠ f) = [] := by
      rw [List.filter_eq_nil_iff]; intro a ha
      obtain ⟨m, _, hm⟩ := List.mem_map.mp ha
      subst hm; simp
    rw [h1, h2, List.append_nil]
  refine ⟨fun k => ?_, fun k => ?_, fun k => ?_, fun k => ?_⟩
  · rw [C08_perFile_update_exact, hf]
  · rw [C08_keyed_update_exact, hf]
  · rw [C08_nested_update_exact, hf]
  · rw [C08_owned_update_exact, hf]

/-- **C08 for the whole modelled `DbIndex`, outside the open finding** (`C08_full_partial`). When `f`'s
contributions are the last ones and every documented owner gets its doc properties from one file only, re-submitting
`f` unchanged leaves every lookup of every modelled map unchanged, including `get_property` of every owner. -/
theorem C08_full_partial (ms : List FMut) (f : File) (cs : List Mut) (hms : ∀ m ∈ ms, m.1 ≠ f)
    (hp : privateOwners (ms ++ cs.map fun m => (f, m)) = true) :
    let s := build (ms ++ cs.map fun m => (f, m))
    (∀ k, aget (update s f cs).perFile k = aget s.perFile k) ∧
    (∀ k, aget (update s f cs).keyed k = aget s.keyed k) ∧
    (∀ k, aget (update s f cs).nested k = aget s.nested k) ∧
    (∀ k, aget (update s f cs).owned k = aget s.owned k) ∧
    (∀ o, getProp (update s f cs) o = getProp s o) := by
  intro s
  obtain ⟨h1, h2, h3, h4⟩ := C08_readd_identity ms f cs hms
  refine ⟨h1, h2, h3, h4, fun o => ?_⟩
  have hf : ((ms ++ cs.map fun m => (f, m)).filter fun m => m.1 ≠ f) = ms := by
    rw [List.filter_append]
    have e1 : ms.filter (fun m => m.1 ≠ f) = ms := by
      rw [List.filter_eq_self]; intro a ha; simpa using hms a ha
    have e2 : (cs.map fun m => (f, m)).filter (fun m => m.1 ≠ f) = [] := by
      rw [List.filter_eq_nil_iff]; intro a ha
      obtain ⟨m, _, hm⟩ := List.mem_map.mp ha
      subst hm; simp
    rw [e1, e2, List.append_nil]
  show getProp (update (build (ms ++ cs.map fun m => (f, m))) f cs) o = _
  rw [prop_update_exact _ f cs hp o, hf]

/-- **Witness (open finding).** File 1 documents owner 0, then file 2 adds a `source` to it. Re-submitting
file 2 unchanged erases file 1's description of the shared owner (the whole property is dropped and only
file 2's part is re-created), although file 2's contributions were already the last ones. -/
theorem C08_property_resubmit_erases_witness :
    let s := build [(1, .prop 0 0 7), (2, .prop 0 1 9)]
    let s' := update s 2 [.prop 0 1 9]
    ((aget s.propOwners 0).bind fun id => (aget s.props id).bind fun p => aget p 0) = some 7 ∧
    ((aget s'.propOwners 0).bind fun id => (aget s'.props id).bind fun p => aget p 0) = none := by decide

/-! Non-vacuity (tests). -/
example : aget (update (build [(1, .keyed 0 5 1), (2, .keyed 0 5 2)]) 1 [.keyed 0 5 1]).keyed (0, 5)
    = some [(2, 2), (1, 1)] := by decide
example : aget (update (build [(2, .keyed 0 5 2), (1, .keyed 0 5 1)]) 1 [.keyed 0 5 1]).keyed (0, 5)
    = some [(2, 2), (1, 1)] := by decide

end Db

namespace Sym

/-- **C08 type index: `update_exact`** for declaration locations and super types: re-submitting or editing a file
that carries one side of a partial class leaves exactly what the other files' declarations followed by the file's new
ones build (no duplicated or stale super type). -/
theorem C08_type_update_exact (ms : List Mut) (f : File) (cs : List Mut) (t : TId)
    (hdecl : ∀ v, (f, v) ∈ sups ms t → t ∈ ftypes ms f) :
    aget (update (build ms) f cs).decls t =
      aget (build ((ms.filter fun m => typeMutFile m ≠ some f) ++ cs)).decls t ∧
    aget (update (build ms) f cs).supers t =
      aget (build ((ms.filter fun m => typeMutFile m ≠ some f) ++ cs)).supers t :=
  ⟨decls_update_exact ms f cs t, supers_update_exact ms f cs t hdecl⟩

/-- **C08 operator and member maps: `update_exact`.** -/
theorem C08_operators_members_update_exact (ms : List Mut) (f : File) (cs : List Mut) :
    (∀ id, aget (update (build ms) f cs).operators id =
      aget (build ((ms.filter fun m => operMutFile m ≠ some f) ++ cs)).operators id) ∧
    (∀ id, aget (update (build ms) f cs).members id =
      aget (build ((ms.filter fun m => memberMutFile m ≠ some f) ++ cs)).members id) :=
  ⟨operators_update_exact ms f cs, members_update_exact ms f cs⟩

end Sym
end Index
