import EmmyVerif.Lemmas.Exit
import EmmyVerif.Gen.ExitTable
/-!
# C36 — The checker's exit status and reports match the diagnostics

Statements about the model `Exit.run` of `emmylua_check`'s `output_result` (receive loop with manual
completion count, severity filter, severity counting, exit status, writer membership).
Tie: (1) `C36_allows_table`, `C36_exit_table`: the model equals the tables produced on every run by
executing the real `DiagnosticSeverityFilter::allows` and the real `output_result`; (2) correspondence
runs of the real `output_result` (hook) on synthetic message lists and of the real binary on generated
workspaces, both diffed against `Exit.run` through `vdriver`.
-/
namespace Exit

/-- **Completion count.** When `total_count` is the number of messages the channel delivers (one per
checked file — what `run_check` passes), the loop consumes every message, in whatever order they arrive. -/
theorem C36_all_consumed (msgs : List Msg) : processed msgs.length 0 msgs = msgs := by
  unfold processed
  split
  · simp
  · rfl

/-- **Exit status, general form.** For every completion count, flag, filter and arrival sequence: the
exit status is non-zero iff some consumed diagnostic that passes the severity filter is an error, or a
warning under `--warnings-as-errors`. -/
theorem C36_exit_iff_consumed (total : Nat) (wae : Bool) (filt : Option Filter) (msgs : List Msg) :
    exitCode (run total wae filt msgs) ≠ 0 ↔
      ∃ p ∈ filteredPairs filt (processed total 0 msgs), fatal wae p.2 = true := by
  unfold exitCode run
  rw [loop_eq_foldl, foldl_step_hasError, ← any_kept_iff]
  simp only [Acc.init, Bool.false_or]
  generalize List.any _ _ = b
  cases b <;> simp

/-- **C36 exit status.** With the completion count `run_check` uses, the checker exits non-zero exactly
when a reported diagnostic, after the severity filter, is an error, or a warning under
`--warnings-as-errors`. -/
theorem C36_exit_iff (wae : Bool) (filt : Option Filter) (msgs : List Msg) :
    exitCode (run msgs.length wae filt msgs) ≠ 0 ↔
      ∃ f ds d, (f, some ds) ∈ msgs ∧ d ∈ ds ∧ keep filt d = true ∧
        (d.sev = some 1 ∨ (d.sev = some 2 ∧ wae = true)) := by
  rw [C36_exit_iff_consumed, C36_all_consumed]
  constructor
  · rintro ⟨⟨f, d⟩, hp, hf⟩
    obtain ⟨ds, hm, hd, hk⟩ := (mem_filteredPairs filt msgs f d).mp hp
    refine ⟨f, ds, d, hm, hd, hk, ?_⟩
    simpa [fatal] using hf
  · rintro ⟨f, ds, d, hm, hd, hk, hs⟩
    refine ⟨(f, d), (mem_filteredPairs filt msgs f d).mpr ⟨ds, hm, hd, hk⟩, ?_⟩
    simpa [fatal] using hs

/-- the exit status is 0 or 1 -/
theorem C36_exit_range (total : Nat) (wae : Bool) (filt : Option Filter) (msgs : List Msg) :
    exitCode (run total wae filt msgs) ≤ 1 := by
  unfold exitCode; split <;> omega

/-- **C36 reports.** Each of the text, JSON and SARIF reports contains exactly the filtered diagnostics,
in arrival order, each under the file of the message that carried it. -/
theorem C36_report_exact (fmt : Format) (wae : Bool) (filt : Option Filter) (msgs : List Msg) :
    reportPairs fmt (run msgs.length wae filt msgs) = filteredPairs filt msgs := by
  rw [reportPairs_eq]
  unfold run
  rw [loop_eq_foldl, foldl_step_written, C36_all_consumed]
  simp [Acc.init, flatMap_writeOf_pairs]

/-- membership form: a (file, diagnostic) pair is in the report iff that file's message carried the
diagnostic and the filter keeps it -/
theorem C36_report_member (fmt : Format) (wae : Bool) (filt : Option Filter) (msgs : List Msg)
    (f : Nat) (d : Diag) :
    (f, d) ∈ reportPairs fmt (run msgs.length wae filt msgs) ↔
      ∃ ds, (f, some ds) ∈ msgs ∧ d ∈ ds ∧ keep filt d = true := by
  rw [C36_report_exact]; exact mem_filteredPairs filt msgs f d

/-- **C36 each diagnostic once.** If the diagnostics delivered by the analysis are pairwise distinct as
(file, diagnostic) pairs, no report lists a diagnostic twice. -/
theorem C36_report_once (fmt : Format) (wae : Bool) (filt : Option Filter) (msgs : List Msg)
    (h : (filteredPairs none msgs).Nodup) :
    (reportPairs fmt (run msgs.length wae filt msgs)).Nodup := by
  rw [C36_report_exact]
  exact List.Nodup.sublist (filteredPairs_sublist filt msgs) h

/-- the JSON report has one entry per checked file whose diagnosis completed — also when the filter
leaves nothing — while text and SARIF skip files without remaining diagnostics -/
theorem C36_json_entries (wae : Bool) (filt : Option Filter) (msgs : List Msg) :
    (entries .json (run msgs.length wae filt msgs)).map (·.1) =
      msgs.filterMap (fun m => m.2.map (fun _ => m.1)) := by
  unfold entries run
  rw [loop_eq_foldl, foldl_step_written, C36_all_consumed]
  simp only [Acc.init, List.nil_append]
  induction msgs with
  | nil => rfl
  | cons m ms ih =>
    simp only [List.flatMap_cons, List.map_append, ih, List.filterMap_cons]
    unfold writeOf
    cases m.2 <;> simp

/-- **Arrival order is irrelevant.** The channel is filled by concurrent tasks; for any two arrival
orders of the same messages the exit status is the same and the reports hold the same diagnostics. -/
theorem C36_order_independent (fmt : Format) (wae : Bool) (filt : Option Filter) (m₁ m₂ : List Msg)
    (h : m₁.Perm m₂) :
    exitCode (run m₁.length wae filt m₁) = exitCode (run m₂.length wae filt m₂) ∧
    (reportPairs fmt (run m₁.length wae filt m₁)).Perm (reportPairs fmt (run m₂.length wae filt m₂)) := by
  constructor
  · have e1 := C36_exit_iff_consumed m₁.length wae filt m₁
    have e2 := C36_exit_iff_consumed m₂.length wae filt m₂
    rw [C36_all_consumed] at e1 e2
    have hp := filteredPairs_perm filt h
    have hiff : exitCode (run m₁.length wae filt m₁) ≠ 0 ↔ exitCode (run m₂.length wae filt m₂) ≠ 0 := by
      rw [e1, e2]
      constructor
      · rintro ⟨p, hp1, hf⟩; exact ⟨p, hp.mem_iff.mp hp1, hf⟩
      · rintro ⟨p, hp1, hf⟩; exact ⟨p, hp.mem_iff.mpr hp1, hf⟩
    have r1 := C36_exit_range m₁.length wae filt m₁
    have r2 := C36_exit_range m₂.length wae filt m₂
    by_cases c : exitCode (run m₁.length wae filt m₁) = 0
    · have : ¬ exitCode (run m₂.length wae filt m₂) ≠ 0 := fun x => (hiff.mpr x) c
      omega
    · have := hiff.mp c
      omega
  · rw [C36_report_exact, C36_report_exact]
    exact filteredPairs_perm filt h

/-- **Summary counts.** The error / warning totals of the text summary count exactly the filtered
diagnostics of that severity. -/
theorem C36_counts (wae : Bool) (filt : Option Filter) (msgs : List Msg) :
    (run msgs.length wae filt msgs).errors = ((filteredPairs filt msgs).map (·.2)).countP (isSev 1) ∧
    (run msgs.length wae filt msgs).warnings = ((filteredPairs filt msgs).map (·.2)).countP (isSev 2) := by
  have hk : (filteredPairs filt msgs).map (·.2) = msgs.flatMap (kept filt) := by
    unfold filteredPairs kept
    induction msgs with
    | nil => rfl
    | cons m ms ih =>
      simp only [List.flatMap_cons, List.map_append, ih]
      cases m.2 <;> simp [Function.comp_def]
  unfold run
  rw [loop_eq_foldl, foldl_step_errors, foldl_step_warnings, C36_all_consumed, hk]
  simp [Acc.init]

/-- **Filter semantics.** `--severity S` keeps a diagnostic iff it has a severity at least as severe
as `S` (numerically ≤), and a diagnostic without severity is dropped by every filter. -/
theorem C36_filter_spec (f : Filter) (d : Diag) :
    keep (some f) d = true ↔ ∃ s, d.sev = some s ∧ s ≤ f.rank := by
  unfold keep allows
  cases d.sev with
  | none => simp
  | some s => simp

/-! ## T-exec bridges: model = the tables regenerated from the real code on this run -/

/-- the model's `allows` equals the real `DiagnosticSeverityFilter::allows` on the whole table -/
theorem C36_allows_table :
    ∀ r ∈ Gen.ExitTable.allowsRows, allows r.1 r.2.1 = r.2.2 := by decide +kernel

/-- the model's exit status equals the real `output_result` on every single-diagnostic input -/
theorem C36_exit_table :
    ∀ r ∈ Gen.ExitTable.exitRows,
      exitCode (run 1 r.2.1 r.1 [(0, some [⟨0, r.2.2.1⟩])]) = r.2.2.2 := by decide +kernel

/-- the general exit status is determined by the single-diagnostic table: it is non-zero iff some
consumed diagnostic alone makes the checker fail (so `C36_exit_table` pins the whole function) -/
theorem C36_exit_decomposes (wae : Bool) (filt : Option Filter) (msgs : List Msg) :
    exitCode (run msgs.length wae filt msgs) ≠ 0 ↔
      ∃ f ds d, (f, some ds) ∈ msgs ∧ d ∈ ds ∧
        exitCode (run 1 wae filt [(0, some [⟨0, d.sev⟩])]) ≠ 0 := by
  rw [C36_exit_iff]
  have single : ∀ s : Sev, exitCode (run 1 wae filt [(0, some [⟨0, s⟩])]) ≠ 0 ↔
      (keep filt ⟨0, s⟩ = true ∧ (s = some 1 ∨ (s = some 2 ∧ wae = true))) := by
    intro s
    have := C36_exit_iff wae filt [(0, some [⟨0, s⟩])]
    simp only [List.length_singleton] at this
    rw [this]
    constructor
    · rintro ⟨f, ds, d, hm, hd, hk, hs⟩
      simp only [List.mem_singleton, Prod.mk.injEq, Option.some.injEq] at hm
      obtain ⟨_, rfl⟩ := hm
      simp only [List.mem_singleton] at hd
      subst hd
      exact ⟨hk, hs⟩
    · rintro ⟨hk, hs⟩
      exact ⟨0, [⟨0, s⟩], ⟨0, s⟩, by simp, by simp, hk, hs⟩
  have keep_sev : ∀ d : Diag, keep filt d = keep filt ⟨0, d.sev⟩ := by
    intro d; unfold keep; cases filt <;> rfl
  constructor
  · rintro ⟨f, ds, d, hm, hd, hk, hs⟩
    exact ⟨f, ds, d, hm, hd, (single d.sev).mpr ⟨by rw [← keep_sev]; exact hk, hs⟩⟩
  · rintro ⟨f, ds, d, hm, hd, he⟩
    obtain ⟨hk, hs⟩ := (single d.sev).mp he
    exact ⟨f, ds, d, hm, hd, by rw [keep_sev]; exact hk, hs⟩

/-! Non-vacuity (tests, labelled as such). -/
example : exitCode (run 2 false (some .error) [(0, some [⟨0, some 2⟩]), (1, some [⟨1, some 1⟩])]) = 1 := by decide
example : exitCode (run 2 false (some .error) [(0, some [⟨0, some 2⟩]), (1, some [⟨1, some 3⟩])]) = 0 := by decide
example : exitCode (run 1 true none [(0, some [⟨0, some 2⟩])]) = 1 := by decide
example : exitCode (run 1 true (some .error) [(0, some [⟨0, some 2⟩])]) = 0 := by decide
example : reportPairs .text (run 2 false (some .warn) [(0, some [⟨0, some 3⟩]), (1, some [⟨1, some 2⟩, ⟨2, none⟩])])
    = [(1, ⟨1, some 2⟩)] := by decide
example : (entries .json (run 2 false (some .warn) [(0, some [⟨0, some 3⟩]), (1, none)])).map (·.1) = [0] := by decide

end Exit
