import EmmyVerif.Lemmas.Fs
import EmmyVerif.Gen.FsTrace
/-!
# C39 — In-place formatting never leaves a truncated file

Model: `Model/Fs.lean` (files with a durability flag, atomic `rename`, partial writes; jobs with a
clean-up; runs; kill = any prefix of a run; power loss = unsynced files degrade to a prefix).
The protocol proved safe is `Fs.atomicWrite` (temp file next to the target, write, `fsync`,
`rename`, `unlink` of the temp file on failure). It is tied to `luafmt --write` on every run: the
file-modifying syscalls of an `strace -f` of the real binary over a work directory with file-system
variety (hard-linked file, symlinked file and directory, read-only file and directory, CRLF, empty) are
regenerated into `Gen/FsTrace.lean`, and `C39_trace_is_protocol` checks (by kernel evaluation)
that they are literally the syscall list of `atomicWrite` for the generated specs; likewise the
trace of a run whose second file hits `RLIMIT_FSIZE` is a failure behaviour of the model.
-/
namespace Fs

/-- "old or new": the content `p` had in `s0`, or the complete new content of some job for `p` -/
def OldOrNew (specs : List Spec) (s0 : State) (p : Path) (c : Content) : Prop :=
  content s0 p = some c ∨ ∃ b ∈ specs, b.tgt = p ∧ b.new = c

/-- **C39 (kill, write failures).** For every list of format jobs whose temporary paths are not
targets, every initial state in which the targets exist (durably), every run — each syscall of
each job may fail, a failing `write` leaving any prefix behind, the clean-up running best-effort —
and every point of that run: each target holds its complete old content or a complete new one. -/
theorem C39_atomic_protocol_safe (specs : List Spec) (s0 s : State)
    (htmp : ∀ a ∈ specs, ∀ b ∈ specs, a.tmp ≠ b.tgt)
    (hinit : ∀ a ∈ specs, ∃ old, get s0 a.tgt = some ⟨old, true⟩)
    (hobs : Observable (specs.map atomicWrite) s0 s) :
    ∀ a ∈ specs, ∃ c, content s a.tgt = some c ∧ OldOrNew specs s0 a.tgt c := by
  obtain ⟨full, pre, hrun, hpre, rfl⟩ := hobs
  have h0 : Ok (fun p => ∃ a ∈ specs, a.tgt = p) (OldOrNew specs s0) s0 := by
    rintro p ⟨a, ha, rfl⟩
    obtain ⟨old, ho⟩ := hinit a ha
    exact ⟨old, ho, Or.inl (by simp [content, ho])⟩
  have := atomic_run_ok specs s0 full pre
    (fun a ha ⟨b, hb, e⟩ => htmp a ha b hb e.symm)
    (fun a ha => Or.inr ⟨a, ha, rfl, rfl⟩) h0 hrun hpre
  intro a ha
  obtain ⟨c, h1, h2⟩ := this a.tgt ⟨a, ha, rfl⟩
  exact ⟨c, by simp [content, h1], h2⟩

/-- **C39 (power loss).** The same after a power loss at any point of any run (this is what the
`fsync` before the `rename` buys; see `C39_no_fsync_witness`). -/
theorem C39_atomic_protocol_durable (specs : List Spec) (s0 s s' : State)
    (htmp : ∀ a ∈ specs, ∀ b ∈ specs, a.tmp ≠ b.tgt)
    (hinit : ∀ a ∈ specs, ∃ old, get s0 a.tgt = some ⟨old, true⟩)
    (hobs : Observable (specs.map atomicWrite) s0 s) (hpl : PowerLoss s s') :
    ∀ a ∈ specs, ∃ c, content s' a.tgt = some c ∧ OldOrNew specs s0 a.tgt c := by
  obtain ⟨full, pre, hrun, hpre, rfl⟩ := hobs
  have h0 : Ok (fun p => ∃ a ∈ specs, a.tgt = p) (OldOrNew specs s0) s0 := by
    rintro p ⟨a, ha, rfl⟩
    obtain ⟨old, ho⟩ := hinit a ha
    exact ⟨old, ho, Or.inl (by simp [content, ho])⟩
  have := powerLoss_ok _ s' (atomic_run_ok specs s0 full pre
    (fun a ha ⟨b, hb, e⟩ => htmp a ha b hb e.symm)
    (fun a ha => Or.inr ⟨a, ha, rfl, rfl⟩) h0 hrun hpre) hpl
  intro a ha
  obtain ⟨c, h1, h2⟩ := this a.tgt ⟨a, ha, rfl⟩
  exact ⟨c, by simp [content, h1], h2⟩

/-- files that are neither target nor temporary file of a job are never touched, at any point of
any run (in particular sources that need no change) -/
theorem C39_others_untouched (specs : List Spec) (s0 s : State) (p : Path) (data : Content)
    (hp : ∀ a ∈ specs, a.tmp ≠ p ∧ a.tgt ≠ p) (hf : get s0 p = some ⟨data, true⟩)
    (hobs : Observable (specs.map atomicWrite) s0 s) : content s p = some data := by
  obtain ⟨full, pre, hrun, hpre, rfl⟩ := hobs
  have h0 : Ok (fun q => q = p) (fun q c => q = p → c = data) s0 := by
    rintro q rfl; exact ⟨data, hf, fun _ => rfl⟩
  obtain ⟨c, h1, h2⟩ := atomic_run_ok specs s0 full pre (fun a ha e => (hp a ha).1 e)
    (fun a ha e => absurd e (hp a ha).2) h0 hrun hpre p rfl
  simp [content, h1, h2 rfl]

/-! ## Tie: the syscalls of the real `luafmt --write` are the modelled protocol -/

/-- the unfaulted strace of the real binary is, syscall for syscall, `atomicWrite` of each job -/
theorem C39_trace_is_protocol :
    Gen.FsTrace.observed = Gen.FsTrace.specs.flatMap (fun a => (atomicWrite a).steps) := by
  decide +kernel

/-- the strace of the run whose middle file hit `RLIMIT_FSIZE` is the modelled failure behaviour
(short write, close, unlink of the temporary file; the other jobs complete) -/
theorem C39_fail_trace_is_behaviour :
    Gen.FsTrace.observedFail = behaviours Gen.FsTrace.failSpecs Gen.FsTrace.failOutcomes
      ∧ Gen.FsTrace.failSpecs.length = Gen.FsTrace.failOutcomes.length
      ∧ (∀ o ∈ Gen.FsTrace.failOutcomes, o.valid = true)
      ∧ (∃ k, Outcome.shortWrite k ∈ Gen.FsTrace.failOutcomes) := by
  refine ⟨by decide +kernel, by decide +kernel, by decide +kernel, ?_⟩
  exact (List.any_eq_true.mp (by decide +kernel :
    Gen.FsTrace.failOutcomes.any (fun o => match o with | .shortWrite _ => true | _ => false) = true)).elim
    fun o ⟨ho, h⟩ => by
      cases o with
      | shortWrite k => exact ⟨k, ho⟩
      | ok => cases h
      | failAt i => cases h

/-- a syscall that modifies the data of path `p` in place -/
def writesInPlace (p : Path) : Sys → Bool
  | .creat q => q == p
  | .write q _ => q == p
  | _ => false

/-- **per target file.** No path that exists before the run — source files, the second name of the
hard-linked file, the file reached through a symlink, read-only files, files in read-only
directories, CRLF and empty files — is ever opened with truncation or written to, in the unfaulted
trace and in the `RLIMIT_FSIZE` trace: its content can only change by a `rename` onto it. -/
theorem C39_trace_never_writes_a_source_in_place :
    ∀ p ∈ Gen.FsTrace.sources, ∀ c ∈ Gen.FsTrace.observed ++ Gen.FsTrace.observedFail, writesInPlace p c = false := by
  decide +kernel

/-- every file the unfaulted run modified was modified by exactly one `rename` from a temporary
file that is not a source path -/
theorem C39_trace_targets_renamed_from_fresh_temps :
    ∀ a ∈ Gen.FsTrace.specs, a.tgt ∈ Gen.FsTrace.sources ∧ a.tmp ∉ Gen.FsTrace.sources ∧
      (Gen.FsTrace.observed.filter fun c => c == Sys.rename a.tmp a.tgt).length = 1 := by
  decide +kernel

theorem C39_trace_tmp_fresh :
    (∀ a ∈ Gen.FsTrace.specs, ∀ b ∈ Gen.FsTrace.specs, a.tmp ≠ b.tgt) ∧
    (∀ a ∈ Gen.FsTrace.failSpecs, ∀ b ∈ Gen.FsTrace.failSpecs, a.tmp ≠ b.tgt) := by
  decide +kernel

/-- **C39 for the observed runs.** At every point of the two traced runs of the real binary
(every prefix of the observed syscall lists), from any directory in which the targets exist, and
after a power loss at that point, every target holds complete old or complete new content. -/
theorem C39_observed_runs_safe (s0 s' : State) (pre : List Sys)
    (hinit : ∀ t, (∃ a ∈ Gen.FsTrace.specs ++ Gen.FsTrace.failSpecs, a.tgt = t) →
      ∃ old, get s0 t = some ⟨old, true⟩)
    (hpl : PowerLoss (exec s0 pre) s') :
    (pre <+: Gen.FsTrace.observed → ∀ a ∈ Gen.FsTrace.specs,
      ∃ c, content s' a.tgt = some c ∧ OldOrNew Gen.FsTrace.specs s0 a.tgt c) ∧
    (pre <+: Gen.FsTrace.observedFail → ∀ a ∈ Gen.FsTrace.failSpecs,
      ∃ c, content s' a.tgt = some c ∧ OldOrNew Gen.FsTrace.failSpecs s0 a.tgt c) := by
  constructor
  · intro h
    refine C39_atomic_protocol_durable _ s0 _ s' C39_trace_tmp_fresh.1
      (fun a ha => hinit _ ⟨a, List.mem_append_left _ ha, rfl⟩) ⟨_, pre, ?_, h, rfl⟩ hpl
    rw [C39_trace_is_protocol, ← behaviours_all_ok]
    exact behaviours_run _ _ (by simp) (by simp [Outcome.valid])
  · intro h
    refine C39_atomic_protocol_durable _ s0 _ s' C39_trace_tmp_fresh.2
      (fun a ha => hinit _ ⟨a, List.mem_append_right _ ha, rfl⟩) ⟨_, pre, ?_, h, rfl⟩ hpl
    obtain ⟨h1, h2, h3, _⟩ := C39_fail_trace_is_behaviour
    rw [h1]
    exact behaviours_run _ _ h2 h3

/-! ## Witnesses: the protocols that do *not* have the property -/

/-- **The protocol before the fix** (`fs::write` in place): killed right after the truncating
open, the target is empty — neither old `[1,2,3]` nor new `[4,5,6]`. -/
theorem C39_fs_write_witness :
    ¬ (∀ s, Observable [inPlaceWrite ⟨0, 1, [4, 5, 6]⟩] [(0, ⟨[1, 2, 3], true⟩)] s →
        ∃ c, content s 0 = some c ∧ OldOrNew [⟨0, 1, [4, 5, 6]⟩] [(0, ⟨[1, 2, 3], true⟩)] 0 c) := by
  intro h
  obtain ⟨c, h1, h2⟩ := h (exec [(0, ⟨[1, 2, 3], true⟩)] [.creat 0])
    ⟨_, [.creat 0], Run.cons JobRun.ok Run.nil, ⟨[.write 0 [4, 5, 6], .close 0], rfl⟩, rfl⟩
  have hc : c = [] := by
    have : content (exec [(0, ⟨[1, 2, 3], true⟩)] [.creat 0]) 0 = some [] := by decide
    rw [this] at h1; exact (Option.some.inj h1).symm
  subst hc
  rcases h2 with h2 | ⟨b, hb, _, hn⟩
  · exact absurd h2 (by decide)
  · simp at hb; subst hb; exact absurd hn (by decide)

/-- in place, a write failure (disk full / file-size limit after one byte) leaves a truncated
target at the *end* of the run, without any crash -/
theorem C39_fs_write_efbig_witness :
    ∃ full, Run [inPlaceWrite ⟨0, 1, [4, 5, 6]⟩] full ∧
      content (exec [(0, ⟨[1, 2, 3], true⟩)] full) 0 = some [4] := by
  refine ⟨_, Run.cons (JobRun.fail 1 (.write 0 [4, 5, 6]) [.write 0 ([4, 5, 6].take 1)] [] rfl
    (PartialOf.short 0 [4, 5, 6] 1) (List.Sublist.refl _)) Run.nil, by decide⟩

/-- temp + rename *without* `fsync`: after a power loss the target may hold a strict prefix of the
new content -/
theorem C39_no_fsync_witness :
    ∃ s s', Observable [renameNoSync ⟨0, 1, [4, 5, 6]⟩] [(0, ⟨[1, 2, 3], true⟩)] s ∧ PowerLoss s s' ∧
      content s' 0 = some [4] := by
  refine ⟨[(0, ⟨[4, 5, 6], false⟩)], [(0, ⟨[4], false⟩)],
    ⟨_, _, Run.cons JobRun.ok Run.nil, List.prefix_refl _, by decide⟩, ?_, by decide⟩
  intro p
  by_cases hp : p = 0
  · subst hp
    exact ⟨⟨[4], false⟩, by decide, by simp [Degrades]⟩
  · have : ¬ (0 = p) := fun e => hp e.symm
    simp [get, this]

/-! Non-vacuity of the hypotheses of the main theorem (tests, labelled as such). -/
example : Observable ([⟨0, 1, [4, 5, 6]⟩].map atomicWrite) [(0, ⟨[1, 2, 3], true⟩)]
    [(1, ⟨[4, 5], false⟩), (0, ⟨[1, 2, 3], true⟩)] :=
  ⟨_, [.creat 1, .chmod 1, .write 1 [4, 5]],
    Run.cons (JobRun.fail 2 (.write 1 [4, 5, 6]) [.write 1 ([4, 5, 6].take 2)] [.close 1, .unlink 1] rfl
      (PartialOf.short 1 [4, 5, 6] 2) (List.Sublist.refl _)) Run.nil,
    ⟨[.close 1, .unlink 1], rfl⟩, by decide⟩
example : content (exec [(0, ⟨[1, 2, 3], true⟩)] (atomicWrite ⟨0, 1, [4, 5, 6]⟩).steps) 0 = some [4, 5, 6] := by decide

end Fs
