import EmmyVerif.Lemmas.AutoTrait
import EmmyVerif.Gen.AutoTraitGraph
/-!
# C38 — Concurrent read-only queries are race-free (static part)

Rust's auto-trait derivation (`Model/AutoTrait.lean`) over the field graph of `EmmyLuaAnalysis`, extracted
from the source text on every run (`Gen/AutoTraitGraph.lean`). Manual `unsafe impl Send/Sync` are *not*
used by the derivation: every component is thread safe on its own.

*partial*: data races inside `unsafe` code of dependencies (rowan's green tree, smol_str, internment,
hashbrown, …) are outside the model — their types are leaves with the verdict their crates declare;
the dynamic part (multi-threaded vs sequential result equality) is a search, not a theorem.
-/
namespace AutoTrait
open Gen.AutoTraitGraph

/-- the derived (Send, Sync) verdict of every node of the extracted graph -/
def sol : Assign := iter graph rounds

/-- the iteration has reached a fixpoint of the derivation rules on the extracted graph … -/
theorem C38_fixpoint : step graph sol = sol := by decide +kernel

/-- … hence `sol` is *the* coinductive derivation: consistent with the rules and above every other
consistent assignment (general lemma `iter_greatest`, monotonicity of the rules) -/
theorem C38_sol_greatest : Consistent graph sol ∧ ∀ A, Consistent graph A → LE A sol :=
  iter_greatest graph rounds C38_fixpoint

/-- **C38 (static).** Every component type of `EmmyLuaAnalysis` — the types hook H6 asserts with rustc:
`LuaCompilation`, `LuaDiagnostic`, `DbIndex`, its 15 indexes, `Vfs`, the syntax tree, … — is
`Send ∧ Sync` by derivation from its fields alone. -/
theorem C38_components_send_sync :
    ∀ c ∈ components, (sol.get c).1 = true ∧ (sol.get c).2 = true := by decide +kernel

/-- `EmmyLuaAnalysis` itself derives `Send ∧ Sync` structurally: its `unsafe impl`s assert nothing the
compiler would not derive -/
theorem C38_root_send_sync : (sol.get root).1 = true ∧ (sol.get root).2 = true := by decide +kernel

/-- no type reachable from `EmmyLuaAnalysis` owes its thread safety to a manual `unsafe impl`: every type
of the graph that carries one and is derivable at all is derivable without it, and the only ones that are
*not* derivable are the per-query types listed in `notThreadSafe` or types reachable only from them -/
theorem C38_no_unchecked_assertion_needed :
    ∀ i ∈ unsafeImpls, ((sol.get i).1 = true ∧ (sol.get i).2 = true) ∨ i ∈ [1] := by decide +kernel

/-- the model also agrees with rustc in the negative direction: the per-query syntax types are neither
`Send` nor `Sync` (hook H6 asserts the same with the compiler) -/
theorem C38_negative : ∀ c ∈ notThreadSafe, (sol.get c).1 = false ∧ (sol.get c).2 = false := by decide +kernel

/-- `SemanticModel` (node 1; per query, borrowed from the analysis, not held by it) is not thread safe by
derivation (it holds a `RefCell` cache and a syntax node); its `unsafe impl Send/Sync` is an unchecked
assertion outside the claim of C38, recorded in notes/tools.md -/
theorem C38_semantic_model_not_derivable : (sol.get 1).1 = false ∧ (sol.get 1).2 = false := by decide +kernel

/-- The justified allow-list of shared mutable state. Every entry must say why concurrent read-only queries
cannot observe each other through it (e.g. "monotone counter, never read by queries", "write-once memo whose
value does not depend on the caller"). It is EMPTY on this tree: the analysis holds no `Mutex` / `RwLock` /
`Atomic*` / `Cell` / `RefCell` / `OnceLock` field anywhere, and the two crates have no mutable `static`
outside test modules — every query works on its own `SemanticModel` / `DiagnosticContext` / `LuaInferCache`. -/
def allowedSharedMutable : List String := []

/-- **No unreviewed shared mutable state.** `Send`/`Sync` say nothing about *logical* races: a scratch map
behind `Arc<Mutex<…>>` in `LuaDiagnostic`, shared by concurrent `diagnose_file` calls, is thread safe for
rustc and still lets one file see another file's cached verdicts. Every interior-mutability field reachable
from `&EmmyLuaAnalysis` (and every mutable static of the two crates), as extracted from the source on this run,
must be in the justified allow-list — a new shared cache breaks this bridge even when rustc is satisfied. -/
theorem C38_shared_mutable_allowed : ∀ s ∈ sharedMutable, s ∈ allowedSharedMutable := by decide

/-! Non-vacuity (tests, labelled as such): the rules do reject what Rust rejects. -/
example : evalT [] (.both (L [.leaf true true, .cell (L [.leaf true true])])) = (true, false) := by decide
example : evalT [] (.arc (L [.cell (L [.leaf true true])])) = (false, false) := by decide
example : evalT [] (.mutex (L [.cell (L [.leaf true true])])) = (true, true) := by decide
example : solve [[.app 1 (L [])], [.leaf false true]] = [(false, true), (false, true)] := by decide
example : solve [[.both (L [.app 0 (L [])])]] = [(true, true)] := by decide   -- recursive type: coinductive
example : ¬ (∀ s ∈ ["LuaDiagnostic.table_check_scratch: Mutex"], s ∈ allowedSharedMutable) := by decide

end AutoTrait
