import EmmyVerif.Lemmas.Proto
import EmmyVerif.Gen.ProtoMethods
/-!
# C24 — Every client request gets exactly one response

Statements about the `Proto` model (`Model/Proto.lean`) of the server's message handling:
`run_ls` handshake → `LspServer::run` (queue while initializing) → `handle_message` →
`dispatch_request!` → `ServerContext::task`, and `handle_shutdown`.

Quantification: **every** list of events — client messages (requests with any method, params that do or do
not deserialize, notifications incl. `$/cancelRequest`, `exit`, `initialized`, responses) interleaved with
the completion of the initialization task — and **every** outcome assignment (each handler finishes at
once or is still running when later messages arrive, panics or not; both are fields of the request event).

Tie: the method table equals the list extracted from the `dispatch_request!` invocation (`table_eq_source`,
re-checked on every run); the model's responses are compared with the real `emmylua_ls` binary over stdio
and with in-process `ServerContext::task` runs (`./check C24`).
-/
namespace Proto

/-- T-src: the model's method table is the one registered in the source. -/
theorem C24_table_eq_source : requestTable = Gen.ProtoMethods.requestMethods := by decide

/-- T-src: the notifications handled during initialization are those of `can_process_during_init`. -/
theorem C24_init_allowed_eq_source : initAllowed = Gen.ProtoMethods.initAllowedNotifications := by decide

/-- T-src: every response-producing branch the model relies on is present in the source
(InvalidParams on extract failure, MethodNotFound fallback, cancel / internal-error answers of the task
wrapper, the wrapper observes handler panics, initialize answers InvalidParams, late requests during
shutdown are answered). -/
theorem C24_branches_present : ∀ b ∈ Gen.ProtoMethods.branches, b.2 = true := by decide

/-- T-src: `shutdown`/`initialize` are not table entries (they are intercepted before the table), and
`$/cancelRequest` is not shadowed by a registered notification. -/
theorem C24_reserved_not_registered :
    "shutdown" ∉ requestTable ∧ "initialize" ∉ requestTable ∧
    "$/cancelRequest" ∉ Gen.ProtoMethods.syncNotifications ++ Gen.ProtoMethods.asyncNotifications := by
  decide

/-- **C24 one response.** For every event list (messages + outcome assignment + initialization timing)
and every id: after quiescence the number of responses carrying `id` equals the number of requests with
that id received while the server answers (any phase but `dead`, and not in the one-message window
between the `initialize` response and `initialized` where `lsp_server` ends the process). -/
theorem C24_one_response (evs : List Event) (id : Nat) :
    (ids (run evs)).count id = (answerable init evs).count id := by
  unfold run
  rw [finish_count _ _ (inv_steps _ _ inv_init), owed_steps _ _ _ inv_init]
  simp [owed, owed₂, init, ids]

/-- exactly one response when ids are not reused -/
theorem C24_exactly_one (evs : List Event) (id : Nat)
    (hnodup : (answerable init evs).Nodup) (hmem : id ∈ answerable init evs) :
    (ids (run evs)).count id = 1 := by
  rw [C24_one_response]
  rw [List.Nodup.count hnodup]; simp [hmem]

/-- no response for an id that was never received while answering -/
theorem C24_no_spurious (evs : List Event) (id : Nat) (h : id ∉ answerable init evs) :
    id ∉ ids (run evs) := by
  intro hmem
  have := C24_one_response evs id
  rw [List.count_eq_zero_of_not_mem h] at this
  exact absurd (List.count_pos_iff.mpr hmem) (by omega)

/-- **C24 keeps serving (running).** While running, no message except the `shutdown` request and the
`exit` notification changes the phase: bad or absent params, unknown methods, panicking handlers, cancels,
unknown or malformed notifications and stray responses leave the server running. -/
theorem C24_keeps_serving_running (st : St) (m : Msg) (h : st.phase = .running)
    (hm : ∀ id p o, m ≠ .request id "shutdown" p o) (hx : ∀ p t, m ≠ .notification "exit" p t) :
    (step st (.msg m)).phase = .running := by
  simp only [step, h]
  cases m with
  | request i meth p o =>
    simp only [handle]
    split
    · rename_i heq; subst heq; exact absurd rfl (hm i p o)
    · split
      · cases p <;> simp [h]
      · simp [h]
  | notification meth p t =>
    simp only
    split
    · rename_i heq; subst heq; exact absurd rfl (hx p t)
    · simp only [handle]; split <;> simp [h]
  | response => simpa [handle] using h

/-- **C24 keeps serving (before initialize).** A request never ends the process before initialization:
an `initialize` whose params do not deserialize leaves the server waiting for a valid one. -/
theorem C24_keeps_serving_preinit (st : St) (id : Nat) (meth : String) (p : PState) (o : Outcome)
    (h : st.phase = .preInit) :
    (step st (.msg (.request id meth p o))).phase =
      if meth = "initialize" ∧ p = .ok then .awaitInitialized else .preInit := by
  simp only [step, h]
  by_cases hm : meth = "initialize"
  · cases p <;> simp [hm, h]
  · simp [hm, h]

/-- the only ways the server leaves its message loop: the `exit` notification (in any phase); a response
before `initialize`; anything but `initialized` right after the `initialize` response
(`lsp_server::initialize_finish`). In particular no request ever ends it, except by breaking the handshake. -/
theorem C24_dead_only_by (st : St) (e : Event) (h : st.phase ≠ .dead)
    (hd : (step st e).phase = .dead) :
    (∃ p t, e = .msg (.notification "exit" p t)) ∨
    (st.phase = .preInit ∧ e = .msg .response) ∨
    (st.phase = .awaitInitialized ∧ ∀ p t, e ≠ .msg (.notification "initialized" p t)) := by
  cases e with
  | initDone =>
    simp only [step] at hd
    split at hd
    · have := flush_phase { st with phase := .running, pending := [] } st.pending (Or.inl rfl)
      rcases this with h' | h' <;> rw [h'] at hd <;> cases hd
    · exact absurd hd h
  | msg m =>
    simp only [step] at hd
    cases hp : st.phase with
    | dead => exact absurd hp h
    | preInit =>
      rw [hp] at hd
      cases m with
      | request i meth p o =>
        simp only at hd
        split at hd
        · cases p <;> simp [hp] at hd
        · simp [hp] at hd
      | notification meth p t =>
        simp only at hd
        split at hd
        · rename_i heq; subst heq; exact Or.inl ⟨p, t, rfl⟩
        · exact absurd hd (by rw [hp]; simp)
      | response => exact Or.inr (Or.inl ⟨rfl, rfl⟩)
    | awaitInitialized =>
      right; right; refine ⟨rfl, ?_⟩
      rw [hp] at hd
      intro p t heq
      cases heq
      simp at hd
    | initializing =>
      rw [hp] at hd
      cases m with
      | response => exact absurd hd (by rw [hp]; simp)
      | notification meth p t =>
        simp only at hd
        split at hd
        · rename_i heq; subst heq; exact Or.inl ⟨p, t, rfl⟩
        · split at hd
          · rcases handle_phase st (.notification meth p t) with h' | h' <;> rw [h'] at hd
            · exact absurd hd (by rw [hp]; simp)
            · cases hd
          · simp at hd
      | request i meth p o => simp at hd
    | running =>
      rw [hp] at hd
      cases m with
      | notification meth p t =>
        simp only at hd
        split at hd
        · rename_i heq; subst heq; exact Or.inl ⟨p, t, rfl⟩
        · rcases handle_phase st (.notification meth p t) with h' | h' <;> rw [h'] at hd
          · exact absurd hd (by rw [hp]; simp)
          · cases hd
      | request i meth p o =>
        simp only at hd
        rcases handle_phase st (.request i meth p o) with h' | h' <;> rw [h'] at hd
        · exact absurd hd (by rw [hp]; simp)
        · cases hd
      | response => simp only [handle] at hd; exact absurd hd (by rw [hp]; simp)
    | shuttingDown =>
      rw [hp] at hd
      cases m with
      | request i meth p o => simp [handleShuttingDown, hp] at hd
      | notification meth p t =>
        simp only [handleShuttingDown] at hd
        split at hd
        · rename_i heq; subst heq; exact Or.inl ⟨p, t, rfl⟩
        · exact absurd hd (by rw [hp]; simp)
      | response => simp [handleShuttingDown, hp] at hd

/-- notifications other than `exit` never produce a response, in any phase (an `exit` received while the
initialization task runs releases the queued requests, which are then answered) -/
theorem C24_notification_silent (st : St) (meth : String) (p : PState) (t : Nat) (hx : meth ≠ "exit") :
    (step st (.msg (.notification meth p t))).out = st.out := by
  simp only [step]
  cases st.phase <;> simp only
  · split <;> rfl
  · split <;> rfl
  · simp only [hx, if_false]
    split
    · simp only [handle]; split <;> rfl
    · rfl
  · simp only [hx, if_false, handle]; split <;> rfl
  · simp only [handleShuttingDown]; split <;> rfl

/-! ### Non-vacuity and the shapes the fixes removed (tests, labelled as such) -/

private def hs : List Event := [
  .msg (.request 1 "initialize" .ok ⟨false, false⟩), .msg (.notification "initialized" .ok 0), .initDone]
private def o : Outcome := ⟨false, false⟩

-- bad params, absent params, unknown method, panic, cancel while running, request after shutdown
example : run (hs ++ [.msg (.request 2 "textDocument/hover" .bad o)]) = [(2, .invalidParams), (1, .result)] := by decide
example : run (hs ++ [.msg (.request 2 "nope" .ok o)]) = [(2, .methodNotFound), (1, .result)] := by decide
example : run (hs ++ [.msg (.request 2 "textDocument/hover" .ok ⟨false, true⟩)]) = [(2, .internalError), (1, .result)] := by decide
example : run (hs ++ [.msg (.request 2 "textDocument/hover" .ok ⟨true, false⟩), .msg (.notification "$/cancelRequest" .ok 2)])
    = [(2, .requestCanceled), (1, .result)] := by decide
example : run [.msg (.request 7 "initialize" .bad o), .msg (.request 8 "textDocument/hover" .ok o)]
    = [(8, .serverNotInitialized), (7, .invalidParams)] := by decide
example : run (hs ++ [.msg (.request 2 "shutdown" .ok o), .msg (.request 3 "textDocument/hover" .ok o)])
    = [(3, .invalidRequest), (2, .result), (1, .result)] := by decide
-- a cancel that arrives while the request is still queued has no effect
example : run [.msg (.request 1 "initialize" .ok o), .msg (.notification "initialized" .ok 0),
    .msg (.request 2 "textDocument/hover" .ok ⟨true, false⟩), .msg (.notification "$/cancelRequest" .ok 2), .initDone]
    = [(2, .result), (1, .result)] := by decide
-- `exit` while requests are queued: they are answered before the loop ends; what comes later is not received
example : run [.msg (.request 1 "initialize" .ok o), .msg (.notification "initialized" .ok 0),
    .msg (.request 2 "textDocument/hover" .bad o), .msg (.notification "exit" .ok 0), .msg (.request 3 "x" .ok o)]
    = [(2, .invalidParams), (1, .result)] := by decide
-- the hypothesis of `C24_exactly_one` is satisfiable on a non-trivial session
example : (answerable init (hs ++ [.msg (.request 2 "textDocument/hover" .bad o), .msg (.request 3 "x" .ok o)])) = [1, 2, 3] := by decide
-- a request in the handshake window is not owed a response (lsp_server ends the process)
example : answerable init [.msg (.request 1 "initialize" .ok o), .msg (.request 2 "textDocument/hover" .ok o)] = [1] := by decide

end Proto
