import EmmyVerif.Lemmas.SchedReload
import EmmyVerif.Gen.SchedReloadCfg
/-!
# C29 — After a reload, open files keep the editor's text

Model: `SchedReload` (inline document handlers in message order against any number of serialised
workspace reloads: snapshot `(version, open files)` under the workspace-manager lock, clear, rebuild from
disk + snapshot, then the `sync_reloaded_open_files` loop: re-snapshot, stop when the version is the applied
one, else apply and repeat).

* `C29_reload_converges` — for **every** notification list, **every** list of reload requests (each with the
  workspace matcher of its configuration, so documents may enter or leave the workspace), **every** initial
  matcher, **every** disk content and **every** interleaving of main-loop steps and reload steps: when
  everything has finished, every uri that is a workspace file *now* is analysed with the text the *editor* holds (`ed`, a ghost
  component: last didOpen/didChange in message order) if it is open and with its disk content otherwise (absent when not on disk) — whatever its membership was when it was
  opened. Hypothesis on the handlers (`realCfg.syncBeforeCheck`, T-src `C29_cfg_real`): the editor text is
  recorded unconditionally, in the critical section that also answers the membership question, so the reload's
  snapshot contains every open document of the new workspace.
* `C29_loop_terminates` — every schedule is finite: `|schedule| + measure(end) ≤ measure(start)`; the sync
  loop cannot spin (a further round needs a further edit).
* Each mechanism is needed (counter-schedules by `decide`): `C29_no_loop_loses_edit`,
  `C29_no_version_bump_on_close_keeps_closed_file`, `C29_test_before_sync_loses_excluded_document` (the handler
  returns before `sync_open_file` for a non-workspace document: a reload that brings the document into the
  workspace analyses the disk text).
* Tie (T-src): `Gen.reloadCfg` etc. are read from `workspace_manager.rs` / `reload_workspace_files` on every
  run (`C29_cfg_real`, `C29_snapshot_facts`).

Partial: the disk is fixed during the run (file-watch events are separate tasks, C28/C30), versions do not
wrap (`u64`), tokio's scheduler is not exhibited; nothing is claimed about uris outside the workspace.
-/
namespace SchedReload

/-- **C29.** -/
theorem C29_reload_converges (disk : TMap) (m0 : Uri → Bool) (ms : List Notif) (reloads : List (Uri → Bool))
    (sched : List Label) (s : St)
    (hrun : run realCfg disk (init disk m0 ms reloads) sched = some s) (hq : quiescent s) (u : Uri)
    (hm : s.member u = true) : s.an u = overlay s.ed disk u := by
  obtain ⟨inv, e⟩ := both_run (inv_init disk m0 ms reloads) (edInv_init disk m0 ms reloads) hrun
  obtain ⟨_, hc, hr, hi⟩ := hq
  have hwm : s.wm u = s.ed u := e.edWm u (by rw [hc]; simp) (by rw [hc]; simp)
  have : s.an u = overlay s.wm disk u := by
    rcases inv.owe u with h | h | h
    · exact h hm
    · rw [hc] at h; rcases h with ⟨_, h⟩ | h <;> cases h
    · cases hrp : s.rp <;> rw [hrp] at hi <;> simp [RPhase.isIdle] at hi
      rw [hrp, hr] at h; simp [Pend] at h
  rw [this]; simp only [overlay, hwm]

/-- at quiescence the server's record of the open documents (`open_file_texts`) is exactly the editor's view
(`ed`: text of the last didOpen/didChange per uri in message order, nothing after didClose) — whatever the
membership of the documents was when the notifications arrived -/
theorem C29_record_is_editor_view (disk : TMap) (m0 : Uri → Bool) (ms : List Notif) (reloads : List (Uri → Bool))
    (sched : List Label) (s : St)
    (hrun : run realCfg disk (init disk m0 ms reloads) sched = some s) (hq : quiescent s) (u : Uri) :
    s.wm u = s.ed u := by
  obtain ⟨_, e⟩ := both_run (inv_init disk m0 ms reloads) (edInv_init disk m0 ms reloads) hrun
  obtain ⟨_, hc, _, _⟩ := hq
  exact e.edWm u (by rw [hc]; simp) (by rw [hc]; simp)

/-- reading of the conclusion: open ⇒ editor text; closed ⇒ disk content or absent -/
theorem C29_overlay_meaning (wm disk : TMap) (u : Uri) :
    (∀ t, wm u = some t → overlay wm disk u = some t) ∧ (wm u = none → overlay wm disk u = disk u) := by
  constructor
  · intro t h; simp [overlay, h]
  · intro h; simp [overlay, h]

/-- **the loop terminates**: every schedule is finite -/
theorem C29_loop_terminates (disk : TMap) (s s' : St) (sched : List Label)
    (h : run realCfg disk s sched = some s') : sched.length + measure s' ≤ measure s := by
  induction sched generalizing s with
  | nil => simp [run] at h; subst h; simp
  | cons lab rest ih =>
    simp only [run] at h
    split at h
    · rename_i s1 h1
      have := ih s1 h
      have := measure_exec h1
      simp only [List.length_cons]; omega
    · cases h

/-! ## Tie to the source -/

/-- version bumps, loop, and: both handlers call `sync_open_file` unconditionally, before any `should_process` test -/
theorem C29_cfg_real : Gen.reloadCfg = realCfg := by decide

theorem C29_snapshot_facts :
    Gen.reloadSnapshotAtomic = true ∧ Gen.reloadPrefersOpenText = true ∧ Gen.reloadMembershipWithSync = true := by decide

/-- **C29 for the mechanisms found in the source.** -/
theorem C29_server_reload_converges (disk : TMap) (m0 : Uri → Bool) (ms : List Notif) (reloads : List (Uri → Bool))
    (sched : List Label) (s : St)
    (hrun : run Gen.reloadCfg disk (init disk m0 ms reloads) sched = some s) (hq : quiescent s) (u : Uri)
    (hm : s.member u = true) : s.an u = overlay s.ed disk u := by
  rw [C29_cfg_real] at hrun
  exact C29_reload_converges disk m0 ms reloads sched s hrun hq u hm

def exDisk : TMap := fun u => if u = 0 then some 90 else none
def allIn : Uri → Bool := fun _ => true
/-- uri 2 (an `ignoreDir` directory) is excluded -/
def without2 : Uri → Bool := fun u => u != 2

/-- satisfiable on a non-trivial run: an edit lands between the snapshot and the rebuild, another one and a
close during the loop; the loop needs two extra rounds -/
example :
    ∃ s, run realCfg exDisk (init exDisk allIn [.edit 0 1, .edit 1 2, .edit 0 3, .close 1] [allIn])
      [.main, .main, .main, .reload, .rstep, .main, .main, .main, .rstep, .rstep, .rstep, .main, .main, .rstep,
       .main, .rstep, .rstep, .main, .main, .rstep, .rstep, .rstep, .main] = some s ∧
      quiescentB s = true ∧ s.an 0 = some 3 ∧ s.an 1 = none ∧ s.wm 0 = some 3 := by
  decide

/-- … and with a membership change: document 2 is opened and edited while excluded (recorded, not analysed), then
a reload whose configuration includes it analyses the editor text -/
example :
    ∃ s, run realCfg exDisk (init exDisk without2 [.edit 2 7, .edit 2 8] [allIn])
      [.main, .main, .main, .main, .reload, .rstep, .rstep, .rstep, .rstep] = some s ∧
      quiescentB s = true ∧ s.member 2 = true ∧ s.wm 2 = some 8 ∧ s.an 2 = some 8 := by
  decide

/-! ## Each mechanism is needed -/

/-- **without the sync loop** an edit that lands between the snapshot and the rebuild is overwritten by the
snapshot text -/
theorem C29_no_loop_loses_edit :
    ∃ s, run { realCfg with syncLoop := false } exDisk (init exDisk allIn [.edit 0 1, .edit 0 2] [allIn])
      [.main, .main, .main, .reload, .rstep, .main, .main, .main, .rstep, .rstep] = some s ∧
      quiescentB s = true ∧ s.wm 0 = some 2 ∧ s.an 0 = some 1 := by
  decide

/-- **without the version bump in `close_open_file`** a close between the snapshot and the rebuild goes
unnoticed: the closed, not-on-disk file is resurrected with its snapshot text -/
theorem C29_no_version_bump_on_close_keeps_closed_file :
    ∃ s, run { realCfg with bumpOnClose := false } exDisk (init exDisk allIn [.edit 1 5, .close 1] [allIn])
      [.main, .main, .main, .reload, .rstep, .main, .main, .main, .rstep, .rstep, .rstep] = some s ∧
      quiescentB s = true ∧ s.wm 1 = none ∧ s.an 1 = some 5 ∧ exDisk 1 = none := by
  decide

/-- **membership test before `sync_open_file`** (the handler returns early for a non-workspace document and
records nothing): document 0 (on disk, text 90) is opened and edited while excluded; the reload that brings it
into the workspace finds no open document and no version change — the disk text is analysed although the
editor holds text 8. -/
theorem C29_test_before_sync_loses_excluded_document :
    ∃ s, run { realCfg with syncBeforeCheck := false } exDisk (init exDisk (fun u => u != 0) [.edit 0 7, .edit 0 8] [allIn])
      [.main, .main, .main, .main, .reload, .rstep, .rstep, .rstep, .rstep] = some s ∧
      quiescentB s = true ∧ s.member 0 = true ∧ s.ed 0 = some 8 ∧ s.an 0 = some 90 ∧ s.wm 0 = none := by
  decide

end SchedReload
