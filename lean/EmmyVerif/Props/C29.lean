import EmmyVerif.Lemmas.SchedReload
import EmmyVerif.Gen.SchedReloadCfg
/-!
# C29 — After a reload, open files keep the editor's text

Model: `SchedReload` (inline document handlers in message order against any number of serialised
workspace reloads: snapshot `(version, open files)` under the workspace-manager lock, clear, rebuild from
disk + snapshot, then the `sync_reloaded_open_files` loop: re-snapshot, stop when the version is the applied
one, else apply and repeat).

* `C29_reload_converges` — for **every** notification list, **every** number of reload requests, **every**
  disk content and **every** interleaving of main-loop steps and reload steps: when everything has finished,
  every open file is analysed with its editor text and every other file with its disk content (absent when
  not on disk).
* `C29_loop_terminates` — every schedule is finite: `|schedule| + measure(end) ≤ measure(start)`; the sync
  loop cannot spin (a further round needs a further edit).
* Each mechanism is needed (counter-schedules by `decide`): `C29_no_loop_loses_edit`,
  `C29_no_version_bump_on_close_keeps_closed_file`.
* Tie (T-src): `Gen.reloadCfg` etc. are read from `workspace_manager.rs` / `reload_workspace_files` on every
  run (`C29_cfg_real`, `C29_snapshot_facts`).

Partial: the disk is fixed during the run (file-watch events are separate tasks, C28/C30), versions do not
wrap (`u64`), all uris are workspace files, tokio's scheduler is not exhibited.
-/
namespace SchedReload

/-- **C29.** -/
theorem C29_reload_converges (disk : TMap) (ms : List Notif) (reloads : Nat) (sched : List Label) (s : St)
    (hrun : run realCfg disk (init disk ms reloads) sched = some s) (hq : quiescent s) (u : Uri) :
    s.an u = overlay s.wm disk u := by
  have inv := inv_run (inv_init disk ms reloads) hrun
  obtain ⟨_, hc, hr, hi⟩ := hq
  rcases inv.owe u with h | h | h
  · exact h
  · rw [hc] at h; rcases h with ⟨_, h⟩ | h <;> cases h
  · cases hrp : s.rp <;> rw [hrp] at hi <;> simp [RPhase.isIdle] at hi
    rw [hrp, hr] at h; simp [Pend] at h

/-- reading of the conclusion: open ⇒ editor text; closed ⇒ disk content or absent -/
theorem C29_overlay_meaning (wm disk : TMap) (u : Uri) :
    (∀ t, wm u = some t → overlay wm disk u = some t) ∧ (wm u = none → overlay wm disk u = disk u) := by
  constructor
  · intro t h; simp [overlay, h]
  · intro h; simp [overlay, h]

/-- **the loop terminates**: every schedule is finite -/
theorem C29_loop_terminates (disk : TMap) (s s' : St) (sched : List Label)
    (h : run realCfg disk s sched = some s') : sched.length + measure s' ≤ measure s := by
  induction sched generalizing s with
  | nil => simp [run] at h; subst h; simp
  | cons lab rest ih =>
    simp only [run] at h
    split at h
    · rename_i s1 h1
      have := ih s1 h
      have := measure_exec h1
      simp only [List.length_cons]; omega
    · cases h

/-! ## Tie to the source -/

theorem C29_cfg_real : Gen.reloadCfg = realCfg := by decide

theorem C29_snapshot_facts : Gen.reloadSnapshotAtomic = true ∧ Gen.reloadPrefersOpenText = true := by decide

/-- **C29 for the mechanisms found in the source.** -/
theorem C29_server_reload_converges (disk : TMap) (ms : List Notif) (reloads : Nat) (sched : List Label) (s : St)
    (hrun : run Gen.reloadCfg disk (init disk ms reloads) sched = some s) (hq : quiescent s) (u : Uri) :
    s.an u = overlay s.wm disk u := by
  rw [C29_cfg_real] at hrun
  exact C29_reload_converges disk ms reloads sched s hrun hq u

def exDisk : TMap := fun u => if u = 0 then some 90 else none

/-- satisfiable on a non-trivial run: an edit lands between the snapshot and the rebuild, another one and a
close during the loop; the loop needs two extra rounds -/
example :
    ∃ s, run realCfg exDisk (init exDisk [.edit 0 1, .edit 1 2, .edit 0 3, .close 1] 1)
      [.main, .main, .main, .reload, .rstep, .main, .main, .main, .rstep, .rstep, .rstep, .main, .main, .rstep,
       .main, .rstep, .rstep, .main, .main, .rstep, .rstep, .rstep, .main] = some s ∧
      quiescentB s = true ∧ s.an 0 = some 3 ∧ s.an 1 = none ∧ s.wm 0 = some 3 := by
  decide

/-! ## Each mechanism is needed -/

/-- **without the sync loop** an edit that lands between the snapshot and the rebuild is overwritten by the
snapshot text -/
theorem C29_no_loop_loses_edit :
    ∃ s, run { realCfg with syncLoop := false } exDisk (init exDisk [.edit 0 1, .edit 0 2] 1)
      [.main, .main, .main, .reload, .rstep, .main, .main, .main, .rstep, .rstep] = some s ∧
      quiescentB s = true ∧ s.wm 0 = some 2 ∧ s.an 0 = some 1 := by
  decide

/-- **without the version bump in `close_open_file`** a close between the snapshot and the rebuild goes
unnoticed: the closed, not-on-disk file is resurrected with its snapshot text -/
theorem C29_no_version_bump_on_close_keeps_closed_file :
    ∃ s, run { realCfg with bumpOnClose := false } exDisk (init exDisk [.edit 1 5, .close 1] 1)
      [.main, .main, .main, .reload, .rstep, .main, .main, .main, .rstep, .rstep, .rstep] = some s ∧
      quiescentB s = true ∧ s.wm 1 = none ∧ s.an 1 = some 5 ∧ exDisk 1 = none := by
  decide

end SchedReload
