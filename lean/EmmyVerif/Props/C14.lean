import EmmyVerif.Props.C13
import EmmyVerif.Lemmas.ScopeSubst
/-!
# C14 — Rename and references agree with name resolution

Model (`Model/ScopeRename.lean`): the reference index of a file holds, for the declaration at token
`d`, one cell per name use that the decl analysis resolved to `d` (`cellsOf (implementation p) d`);
`rename` edits the declaration token and those cells (`renameEdits`), `references` (with the
declaration) returns the same tokens (`referencesOf`). Tied to `rename_decl_references` /
`search_decl_references` by the correspondence run of `./check C14`.
-/
namespace Scope

/-- **C14 `refs_eq_uses`.** The references recorded for a declaration are exactly the name uses
that Lua's scoping binds to it. -/
theorem refs_eq_uses (p : List Stat) (d : Nat) : cellsOf (implementation p) d = cellsOf (reference p) d := by
  rw [find_eq_lua]

/-- membership form: a token is a recorded reference of `d` iff it is a use that resolves to `d` -/
theorem mem_refs_iff (p : List Stat) (d u : Nat) : u ∈ cellsOf (implementation p) d ↔ (u, some d) ∈ reference p := by
  rw [refs_eq_uses]
  constructor
  · exact cellsOf_mem
  · intro h
    simp only [cellsOf, List.mem_map, List.mem_filter, decide_eq_true_eq]
    exact ⟨(u, some d), ⟨h, rfl⟩, rfl⟩

/-- `references` (with the declaration) and `rename` address the same tokens -/
theorem references_eq_rename (p : List Stat) (d : Nat) :
    referencesOf (implementation p) d = renameEdits (implementation p) d := rfl

/-- rename touches the declaration, the uses bound to it, and nothing else -/
theorem mem_rename_iff (p : List Stat) (d t : Nat) :
    t ∈ renameEdits (implementation p) d ↔ t = d ∨ (t, some d) ∈ reference p := by
  simp only [renameEdits, List.mem_cons, mem_refs_iff]

/-- **C14 `rename_edits_disjoint`.** The edited tokens are pairwise different (one edit per token;
tokens are disjoint ranges), and the declaration token is none of its uses. -/
theorem rename_edits_disjoint (p : List Stat) (d : Nat) : (renameEdits (implementation p) d).Nodup := by
  rw [find_eq_lua]
  simp only [renameEdits, List.nodup_cons]
  refine ⟨?_, cellsOf_nodup p d⟩
  intro h
  have := reference_decl_before_use p d d (cellsOf_mem h)
  omega

/-- the edits come in source order: the declaration first, then its uses at increasing positions -/
theorem rename_edits_sorted (p : List Stat) (d : Nat) :
    (renameEdits (implementation p) d).Pairwise (· < ·) := by
  rw [find_eq_lua]
  simp only [renameEdits, List.pairwise_cons]
  refine ⟨fun u hu => reference_decl_before_use p u d (cellsOf_mem hu), ?_⟩
  unfold cellsOf
  rw [List.pairwise_map]
  exact (reference_positions_increasing p).filter _

/-- **α-renaming through the environment.** Renaming the local declaration at `d` (not the implicit
`self` of a method, which has no name token) and all uses the environment binds to it to a name that
does not occur in the program leaves the resolution of every name use unchanged (same use
positions, same declaration positions). -/
theorem alpha_preserves_binding (p : List Stat) (d : Nat) (new : Name)
    (hnew : mentionsBlock new p = false) (hself : selfDeclAtBlock d startPos p = false) :
    reference (alphaProg d new p) = reference p := by
  have h := alphaBlock_ok d new p [] { pos := startPos, out := [] } startPos rfl (fun _ h => by cases h) hnew hself
  unfold reference alphaProg
  have h1 : renEnv d new [] = [] := rfl
  rw [h1] at h
  rw [h.1]

/-- the analyzer resolves the renamed program like the original one, too -/
theorem rename_preserves_analysis (p : List Stat) (d : Nat) (new : Name)
    (hnew : mentionsBlock new p = false) (hself : selfDeclAtBlock d startPos p = false) :
    implementation (alphaProg d new p) = implementation p := by
  rw [find_eq_lua, find_eq_lua, alpha_preserves_binding p d new hnew hself]

/-- what a name token denotes is never the position of a name use -/
theorem target_not_use (p : List Stat) (tok d : Nat) (h : targetOf (reference p) tok = some d) :
    ∀ r ∈ reference p, r.1 ≠ d := by
  unfold targetOf at h
  split at h
  · rename_i r hf
    have hm := List.mem_of_find?_eq_some hf
    obtain ⟨u, x⟩ := r
    simp only at h; subst h
    exact resolved_decl_not_use p u d hm
  · rename_i hf
    simp only [Option.some.injEq] at h; subst h
    intro r hr
    have := List.find?_eq_none.mp hf r hr
    simpa using this

/-- the edit positions of a rename, applied to the program text, give exactly the α-renamed program -/
theorem rename_edits_are_alpha (p : List Stat) (tok d : Nat) (new : Name)
    (h : targetOf (implementation p) tok = some d) (hself : selfDeclAtBlock d startPos p = false) :
    applyRename p tok new = alphaProg d new p := by
  rw [find_eq_lua] at h
  unfold applyRename renameAt
  rw [find_eq_lua, h]
  simp only [hself, Bool.false_eq_true, if_false]
  exact subst_eq_alpha p d new (target_not_use p tok d h)

/-- **C14 `rename_preserves_binding`.** Applying the edits `rename` produces at a name token (the
declaration's token and the recorded references, each rewritten to the new name) with a name that does not
occur in the program yields a program in which every name use resolves exactly as before: same
use positions, same declaration positions. (At a global or at the implicit `self` of a method
`rename` of a local declaration does not apply and the program is unchanged.) -/
theorem rename_preserves_binding (p : List Stat) (tok : Nat) (new : Name)
    (hnew : mentionsBlock new p = false) : reference (applyRename p tok new) = reference p := by
  cases h : targetOf (implementation p) tok with
  | none =>
    have : applyRename p tok new = p := by
      unfold applyRename renameAt; rw [h]
    rw [this]
  | some d =>
    cases hself : selfDeclAtBlock d startPos p with
    | true =>
      have : applyRename p tok new = p := by
        unfold applyRename renameAt; rw [h]; simp [hself]
      rw [this]
    | false => rw [rename_edits_are_alpha p tok d new h hself, alpha_preserves_binding p d new hnew hself]

/-- and the analyzer model resolves the renamed program like the original, too -/
theorem rename_preserves_analysis_edits (p : List Stat) (tok : Nat) (new : Name)
    (hnew : mentionsBlock new p = false) : implementation (applyRename p tok new) = implementation p := by
  rw [find_eq_lua, find_eq_lua, rename_preserves_binding p tok new hnew]

/-- freshness is needed: renaming `x` to the name of another visible local captures uses -/
theorem rename_needs_fresh_name :
    reference (alphaProg 4 1 [.locl [0] [.lit], .locl [1] [.lit], .callS 2 [.name 0]])
      ≠ reference [.locl [0] [.lit], .locl [1] [.lit], .callS 2 [.name 0]] := by decide

/-! Non-vacuity (tests): `local x = 1; for x = x, x do z(x) end` -/
section Examples
open Expr Stat
private def ex1 : List Stat := [.locl [0] [.lit], .forNum 0 (.name 0) (.name 0) [.callS 2 [.name 0]]]
example : renameAt ex1 4 = some [4, 16, 18] := by decide
example : renameAt ex1 26 = some [12, 26] := by decide
example : renameAt ex1 22 = none := by decide
example : reference (applyRename ex1 16 7) = reference ex1 := by decide
example : reference (alphaProg 4 7 ex1) = reference ex1 := by decide
end Examples

end Scope
