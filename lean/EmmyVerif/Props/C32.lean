import EmmyVerif.Lemmas.JsonMerge
/-!
# C32 — Configuration merging is deterministic and later files win

Statements about the model `Json` (`Model/Json.lean`) of `load_configs_raw` after the `fix:` commit
(every file is flattened into one map; `FlattenConfigObject::set`). The loaded configuration is a
function of the file list (the model is a function), so "same files, same order → same result" holds
by construction; the theorems below give its content. Tie: correspondence run of `./check C32`.
-/
namespace Json

/-! ## a dotted flat key means exactly the same as the nested form -/

/-- **C32 flat ≡ nested (local rule, any depth, any context).** Inside any object, at any nesting
depth (`pre` is the dotted key of the enclosing objects), a field spelled `"k1.k2": v` contributes
exactly the same settings as the nested spelling `"k1": {"k2": v}` — for every value `v`, scalar,
array or object, and whatever fields follow. -/
theorem C32_flat_eq_nested (pre k1 k2 : Key) (v : J) (rest : List (Key × J)) (h : k1 ≠ []) :
    flatFields pre ((k1 ++ '.' :: k2, v) :: rest) = flatFields pre ((k1, .obj [(k2, v)]) :: rest) := by
  simp only [flatFields, flat, List.append_nil]
  rw [joinKey_assoc pre k1 k2 h]

/-- a file contributes to the loaded configuration only through its flattened settings -/
theorem C32_load_depends_on_flat (before after : List J) (j1 j2 : J) (h : flat [] j1 = flat [] j2) :
    loadRaw (before ++ j1 :: after) = loadRaw (before ++ j2 :: after) := by
  simp only [loadRaw, loadFlat, List.foldl_append, List.foldl_cons, mergeFile, h]

/-- hence respelling one file (flat ↔ nested, top level) does not change the loaded configuration -/
theorem C32_respell_file (before after : List J) (k1 k2 : Key) (v : J) (rest : List (Key × J))
    (h : k1 ≠ []) :
    loadRaw (before ++ .obj ((k1 ++ '.' :: k2, v) :: rest) :: after) =
      loadRaw (before ++ .obj ((k1, .obj [(k2, v)]) :: rest) :: after) :=
  C32_load_depends_on_flat _ _ _ _ (by simp only [flat]; exact C32_flat_eq_nested [] k1 k2 v rest h)

/-! ## later wins -/

/-- **C32 later wins.** Whatever the earlier files contain and however they spell it, a scalar
setting of the last file (one that the same file does not itself override or displace further down)
is the value of that setting in the loaded flattened configuration. -/
theorem C32_later_wins (files : List J) (j : J) (l1 l2 : Flat) (k : Key) (v : J)
    (hj : flat [] j = l1 ++ (k, v) :: l2) (hv : isArr v = false)
    (hl : ∀ e ∈ l2, e.1 ≠ k ∧ conflicts k e.1 = false) :
    lookup k (loadFlat (files ++ [j])) = some v := by
  simp only [loadFlat, List.foldl_append, List.foldl_cons, List.foldl_nil, mergeFile, hj]
  exact applyLeaves_last _ l1 l2 k v hv hl

/-! ## arrays are appended without duplicates -/

/-- **C32 arrays append without duplicates.** When the configuration already holds an array for a
setting and a later file sets an array for it, the result is the old array followed by those new
items that were not in it yet — each once, in the later file's order. -/
theorem C32_arrays_append_dedup (m : Flat) (k : Key) (xs ys : List J) (h : lookup k m = some (.arr xs)) :
    ∃ added, lookup k (set m k (.arr ys)) = some (.arr (xs ++ added)) ∧
      (∀ x ∈ added, x ∈ ys ∧ xs.contains x = false) ∧
      added.Pairwise (fun a b => (b == a) = false) := by
  obtain ⟨added, h1, h2, h3⟩ := dedupAppend_spec xs ys
  refine ⟨added, ?_, h2, h3⟩
  rw [lookup_set]; simp [h, setValue, h1]

/-! ## order of application (hash order = arbitrary permutation) -/

/-- **C32 permutation invariance.** Settings whose keys are pairwise distinct and not nested below
one another — which is what every flattened file is (`C31_invariant`) — can be applied to a
configuration in any order: all orders give the same configuration (as a lookup function). -/
theorem C32_perm_invariant (l1 l2 : Flat) (hp : l1.Perm l2)
    (hl : l1.Pairwise fun a b => a.1 ≠ b.1 ∧ conflicts a.1 b.1 = false) :
    ∀ m, Equiv (applyLeaves m l1) (applyLeaves m l2) := by
  induction hp with
  | nil => intro m; exact Equiv.refl _
  | cons x _ ih =>
    intro m
    exact ih (List.pairwise_cons.mp hl).2 (set m x.1 x.2)
  | swap x y l =>
    intro m
    have hxy := (List.pairwise_cons.mp hl).1 x (by simp)
    show Equiv (applyLeaves (set (set m y.1 y.2) x.1 x.2) l) (applyLeaves (set (set m x.1 x.2) y.1 y.2) l)
    exact applyLeaves_congr (set_comm m y.1 x.1 y.2 x.2 hxy.1 hxy.2) l
  | trans h12 _ ih1 ih2 =>
    intro m
    have hl2 := (List.Perm.pairwise_iff (fun {a b} (h : a.1 ≠ b.1 ∧ conflicts a.1 b.1 = false) =>
      (⟨fun e => h.1 e.symm, by rw [conflicts_comm]; exact h.2⟩ : b.1 ≠ a.1 ∧ conflicts b.1 a.1 = false)) h12).mp hl
    exact Equiv.trans (ih1 hl m) (ih2 hl2 m)

/-! ## non-vacuity (tests, labelled as such; `==` is structural equality of JSON values) -/

-- {"d.enable": false} then {"d": {"enable": true}}: the later file wins whichever spelling
example : (loadRaw [.obj [("d.enable".toList, .bool false)],
                    .obj [("d".toList, .obj [("enable".toList, .bool true)])]]
    == .obj [("d".toList, .obj [("enable".toList, .bool true)])]) = true := by decide +kernel
-- {"a": ["x"]} then {"a": ["x", "y", "y"]}
example : (lookup ['a'] (loadFlat [.obj [(['a'], .arr [.str ['x']])],
                                   .obj [(['a'], .arr [.str ['x'], .str ['y'], .str ['y']])]])
    == some (.arr [.str ['x'], .str ['y']])) = true := by decide +kernel
-- the formerly panicking input {"a": 1, "a.b": 2}: the more specific later key displaces the scalar
example : (loadRaw [.obj [(['a'], .num 1), (['a','.','b'], .num 2)]]
    == .obj [(['a'], .obj [(['b'], .num 2)])]) = true := by decide +kernel

end Json
