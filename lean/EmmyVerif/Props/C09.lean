import EmmyVerif.Lemmas.IndexDb
import EmmyVerif.Lemmas.IndexModule
import EmmyVerif.Lemmas.IndexSym
/-!
# C09 — Reindexing equals analysing the current files from scratch

`reindex = clear_index + update_index(all live files in Vfs order)`. In the models `clear` empties a map
iff the *extracted* source list says the Rust `clear` resets the corresponding field (`srcCleared` over
`Gen.IndexFields`, regenerated from `db_index/**/mod.rs` on every run), so `clear_is_new` is a checked bridge to the
source: a forgotten field breaks it. The remaining weight is in the tie: the `index.mod` / `index.db` correspondence runs
execute the real `clear()` in the middle of histories and compare every entry count and lookup with the
model afterwards, and the oracle compares the reindexed analysis with a fresh one (dump + all entry counts
of `DbIndex::verif_report`, which destructures every index exhaustively so a new field cannot be forgotten).
-/
namespace Index

/-- **C09 module index: `clear_is_new`.** -/
theorem C09_module_clear_is_new (s : Module.MState) : Module.clear s = Module.MState.new :=
  Module.clear_eq_new s

open Module in
/-- **C09 module index: `reindex_eq_fresh`.** Whatever happened before, `clear` followed by the live files'
adds reaches the state (and the live set, hence by C33 the resolution of every require string) of a fresh
index given the same adds. -/
theorem C09_module_reindex_eq_fresh (cfg : Config) (before adds : List Op) (q : List Char) :
    run cfg (before ++ [Op.clear] ++ adds) = run cfg adds ∧
    specLive cfg (before ++ [Op.clear] ++ adds) = specLive cfg adds ∧
    find cfg (run cfg (before ++ [Op.clear] ++ adds)) q = find cfg (run cfg adds) q := by
  have h1 : run cfg (before ++ [Op.clear] ++ adds) = run cfg adds := by
    simp [run, List.foldl_append, step, Module.clear_eq_new]
  have h2 : specLive cfg (before ++ [Op.clear] ++ adds) = specLive cfg adds := by
    simp [specLive, List.foldl_append, specStep]
  exact ⟨h1, h2, by rw [h1]⟩

/-! ### bridge to the source (T-src, regenerated every run by `checklib/gen/index_fields.py`) -/

/-- **C09 `DbIndex::clear` visits every index.** Every field of `struct DbIndex` is an index on which
`DbIndex::clear` calls `.clear()`, except the virtual file system and the configuration. -/
theorem C09_clear_visits_every_index :
    ∀ f ∈ Gen.IndexFields.dbFields, f ∈ Gen.IndexFields.dbCleared ∨ f ∈ nonIndexDbFields := by decide

/-- **C09 every index `clear` resets every field.** For every index struct, every field is reset by its
`LuaIndex::clear`, except the listed configuration / cache fields (`configFields`). A field added to an index
without a matching line in `clear` makes this fail. -/
theorem C09_clear_resets_every_field :
    ∀ e ∈ Gen.IndexFields.indexes, ∀ f ∈ e.2.2.1, f ∈ e.2.2.2 ∨ (e.2.1, f) ∈ configFields := by decide

/-- **C09 type / operator / metatable / member indexes: `clear_is_new`.** All 17 modelled maps of these four
indexes are empty after `clear` — as long as the source's `clear` methods reset each of the fields
(`member_current_owner` was the one forgotten before the `fix:`). -/
theorem C09_sym_clear_is_new (s : Sym.S) : Sym.clear s = Sym.S.new := Sym.clear_eq_new s

open Module in
/-- **C09 configuration change, then reindex.** After any history of index operations and `update_config`
calls (patterns, moduleMap rules and `strict.requirePath` replaced entirely each time), `clear` followed by the
live files' adds under the final configuration reaches exactly the state of a fresh index that was given the
final configuration from the start — nothing of an earlier configuration survives. -/
theorem C09_config_then_reindex_eq_fresh (cfg0 : Config) (h : List COp) (adds : List Op) (q : List Char) :
    let cfgN := (runC cfg0 h).1
    adds.foldl (step cfgN) (clear (runC cfg0 h).2) = run cfgN adds ∧
    find cfgN (adds.foldl (step cfgN) (clear (runC cfg0 h).2)) q = find cfgN (run cfgN adds) q := by
  intro cfgN
  have h1 : adds.foldl (step cfgN) (clear (runC cfg0 h).2) = run cfgN adds := by
    rw [Module.clear_eq_new]; rfl
  exact ⟨h1, by rw [h1]⟩

/-- `update_config` replaces the moduleMap rules: an empty map leaves no rule behind -/
theorem C09_update_config_replaces_rules (cfg : Module.Config) (fz : Bool) (exts rp : List (List Char)) :
    (Module.updateConfig cfg fz exts rp []).rules = [] := rfl

namespace Db

/-- **C09 `clear_is_new`.** `clear` leaves the empty index, field by field. -/
theorem C09_clear_is_new (d : Db) : clear d = Db.new := clear_eq_new d

/-- **C09 `reindex_eq_fresh`.** After any history, reindexing with the live files' contributions reaches
exactly the state a fresh analysis of the same contributions reaches. -/
theorem C09_reindex_eq_fresh (d : Db) (contribs : List FMut) : reindex d contribs = build contribs := by
  unfold reindex; rw [clear_eq_new]; rfl

/-- no stale fact survives: a lookup after reindex sees only the re-applied contributions -/
theorem C09_no_stale_keyed (ms contribs : List FMut) (k : Nat × Nat) :
    aget (reindex (build ms) contribs).keyed k =
      if kVals contribs k = [] then none else some (kVals contribs k) := by
  rw [C09_reindex_eq_fresh]
  have e : ∀ l : List FMut, build l = applyAll Db.new l := fun _ => rfl
  rw [e, keyed_applyAll]
  simp [Db.new, agetL, aget]

/-! Non-vacuity (tests). -/
example : (reindex (build [(1, .keyed 0 5 1), (2, .prop 0 0 3), (3, .perFile 0 4)]) [(2, .keyed 0 6 2)]).keyed
    = [((0, 6), [(2, 2)])] := by decide
example : (reindex (build [(1, .prop 0 0 3)]) []).propCount = 0 := by decide

end Db
end Index
