import EmmyVerif.Lemmas.FlowLoopSound
import EmmyVerif.Lemmas.FlowLoopExit
/-!
# C41 — narrowing after loops (partial; the pinned tree violates the full statement)

Model: `EmmyVerif/Model/FlowLoop.lean` (`FL` = `F` + `while c`, `while true`, `repeat … until c`, numeric `for` with
literal bounds, `for … in pairs{…}`, `if c then break end`; `Sem` = `LProg.run` with fuel, `TypeAt` = `LProg.typeAt`,
the loop binders of `bind_analyze/stats.rs` as they are).

Full statement (does **not** hold for the current code, see the witnesses):

    theorem loop_narrow_sound (p : LProg) (fuel) (obs) (h : p.run fuel = some obs) :
        ∀ id x v, (id, x, v) ∈ obs → ∃ t, (id, x, t) ∈ p.typeAt ∧ t.has v = true

`bind_while_stat` (non-literal condition), `bind_for_range_stat` and `bind_for_stat` (not statically entered)
return the flow from *before* the loop, and no loop has a back edge, so assignments made by a loop body are
invisible after the loop / in later iterations. The existing test-suite pins this behaviour
(`test_dynamic_while_post_flow_ignores_body_assignment_for_print_arg`, …), so it is kept as an open known finding.

Proved: `C41_partial` — the statement for every program and every variable that no loop body assigns (loop bodies
may assign *other* variables freely; conditions, nested `if`s, probes, conditional breaks, nested loops and
assignments outside loops are unrestricted): the narrowing applied by `while` conditions inside bodies, by `until`
conditions and `break` edges on the exit path, and by everything after the loop, never excludes the runtime value.
What is missing for the full statement is exactly the defect: a sound treatment of the variables a loop body assigns.
-/
namespace C41
open Flow

theorem widenL_declTy_has (p : LProg) (x : Nat) : (p.declTy x).has (p.initEnv.get x) = true := by
  unfold LProg.declTy LProg.initEnv Env.get
  simp only [List.getD, List.getElem?_map]
  cases hx : p.decls[x]? with
  | none => simp [Atom.has]
  | some dcl =>
    cases dcl with
    | none => simp [Atom.has]
    | some l =>
      simp only [Option.map_some, Option.getD_some]
      split
      · exact widen_has (lit_ty_has l)
      · exact lit_ty_has l

theorem initPtL_sound (W : Nat → Bool) (p : LProg) : SoundPt W p.initEnv p.initPt := by
  unfold LProg.initPt
  apply soundSt_mk (by simp [LProg.initEnv])
  intro x _ _ m
  cases m <;> simpa [Res3.get, Res.has, has_single] using widenL_declTy_has p x

/-- decidable side condition for stored-type guards (see `C15.storedSafe`) -/
def storedSafe (p : LProg) (S : List (Nat × TName)) : Bool :=
  p.body.ok S && S.all fun q => (p.initEnv.get q.1).typeName == q.2

/-- **C41_partial.** Let `W` be any set of variables containing every variable that some loop body assigns and closed
under `x = y` (`y ∈ W → x ∈ W`) (`loopOK`; assignments outside loops are otherwise unrestricted, loop bodies may
assign the variables of `W` freely).
For every `FL` program, every fuel and every terminating run: if the run reaches probe `id` with `x = v` and
`x ∉ W`, the type inferred for `x` at that probe — inside a loop body, on a loop's exit path or anywhere after
the loop — contains `v`. (Per-variable statement: the variables a loop assigns are exactly where the open findings
live; for all other variables narrowing inside and after loops is sound.) -/
theorem C41_partial (p : LProg) (W : Nat → Bool) (S : List (Nat × TName)) (hW : p.body.loopOK W = true)
    (hS : storedSafe p S = true) (fuel : Nat) (obs : List Obs) (h : p.run fuel = some obs)
    (id x : Nat) (v : Val) (hv : (id, x, v) ∈ obs) (hx : W x = false) :
    ∃ t, (id, x, t) ∈ p.typeAt ∧ t.has v = true := by
  simp only [storedSafe, Bool.and_eq_true, List.all_eq_true, beq_iff_eq] at hS
  unfold LProg.run at h
  cases hr : LBlock.exec fuel p.initEnv p.body with
  | none => simp [hr] at h
  | some r =>
    simp only [hr, Option.map_some, Option.some.injEq] at h
    subst h
    have hs := (LBlock.sound (W := W) (S := S) p.decls.length p.declTy fuel p.body p.initPt p.initEnv r hW hS.1
      (by simp [LProg.initEnv]) (fun q hq => hS.2 q hq) (initPtL_sound W p) hr).obs
    exact hs (id, x, v) hv hx

/-- `C41_partial` for programs whose loop bodies assign nothing: every probe of every variable is covered. -/
theorem C41_partial_inert (p : LProg) (S : List (Nat × TName)) (hin : p.body.loopOK (fun _ => false) = true)
    (hS : storedSafe p S = true) (fuel : Nat) (obs : List Obs) (h : p.run fuel = some obs)
    (id x : Nat) (v : Val) (hv : (id, x, v) ∈ obs) :
    ∃ t, (id, x, t) ∈ p.typeAt ∧ t.has v = true :=
  C41_partial p (fun _ => false) S hin hS fuel obs h id x v hv rfl

/-- **C41_entered_loop_sound.** The loop forms whose exit the analyzer merges — `while true do … break … end`, a
numeric `for` whose literal bounds are statically entered, `repeat … until c` without `break` — are sound for a
variable `x` their body assigns, provided the loop does not read `x` (no condition on `x`, no `y = x`, no probe of `x`
inside the loop; `x` is not assigned in a nested loop; every `x = y` in the body has `y ∉ W`) — `loopOK2 W S x`, decidable.
`W` contains the other loop-assigned variables as in `C41_partial`. For every such program, every fuel and every
terminating run, every reached probe of `x` (in particular every probe **after** such a loop) and of every other
variable outside `W` has its value in the inferred type.

Proof (`Lemmas/FlowLoopExit.lean`): invariant over the iteration count `ρ_k = ρ₁ ∨ SoundPt W ρ_k out` (`out` = abstract
end of the body bound from the pre-loop state), non-interference of the body in `x` (`LStmt.ni`), and the fact that the
after-loop label merges every `break` edge with `out` (for `repeat`: the true edges of `until c` bound at `out`).
Missing for the full statement: loops that read `x` (open finding C41-no-back-edge), `while c` / generic `for`
(open findings), and `repeat` bodies with `break` (the after-label does not contain `out` itself, a per-variable
merge invariant would be needed). -/
theorem C41_entered_loop_sound (p : LProg) (W : Nat → Bool) (S : List (Nat × TName)) (x : Nat)
    (hxS : S.any (fun q => q.1 == x) = false) (hW : p.body.loopOK2 W S x = true)
    (hS : storedSafe p S = true) (fuel : Nat) (obs : List Obs) (h : p.run fuel = some obs)
    (id z : Nat) (v : Val) (hv : (id, z, v) ∈ obs) (hz : W z = false) :
    ∃ t, (id, z, t) ∈ p.typeAt ∧ t.has v = true := by
  simp only [storedSafe, Bool.and_eq_true, List.all_eq_true, beq_iff_eq] at hS
  unfold LProg.run at h
  cases hr : LBlock.exec fuel p.initEnv p.body with
  | none => simp [hr] at h
  | some r =>
    simp only [hr, Option.map_some, Option.some.injEq] at h
    subst h
    have hs := (LBlock.sound2 (W := W) (S := S) p.decls.length p.declTy x hxS fuel p.body p.initPt p.initEnv r hW hS.1
      (by simp [LProg.initEnv]) (fun q hq => hS.2 q hq) (initPtL_sound W p) hr).obs
    exact hs (id, z, v) hv hz

/-- A loop that assigns only variables of `W` leaves every other variable as it was (so for them "the pre-loop type
whenever the body may run zero times" and "every type the body can assign" coincide). -/
theorem loop_agree (W : Nat → Bool) (fuel : Nat) (ρ : Env) (s : LStmt) (r : Out) (hn : s.assignsIn W = true)
    (h : LStmt.exec fuel ρ s = some r) (x : Nat) (hx : W x = false) : r.env.get x = ρ.get x :=
  (LStmt.exec_agree fuel ρ s r hn h).1 x hx

/-! ### witnesses: the current code violates the full statement -/

/-- `local v0 = nil; while not v0 do v0 = "s1" end; p(0, v0)` -/
def wWhile : LProg :=
  ⟨[some .nil],
   .cons (.whileDo (.not (.leaf (.truthy 0))) (.cons (.assign 0 (.str 1)) .nil))
   (.cons (.probe 0 0) .nil)⟩

/-- **C41_witness.** After `while not k do k = 'x' end` the run reaches the probe with a string, the inferred type
there is `nil`. -/
theorem C41_witness :
    wWhile.run 10 = some [(0, 0, .str 1)] ∧ wWhile.typeAt = [(0, 0, [.nil])] ∧
    ¬ (∀ id x v, (id, x, v) ∈ [((0 : Nat), (0 : Nat), Val.str 1)] →
        ∃ t, (id, x, t) ∈ wWhile.typeAt ∧ t.has v = true) := by
  have h1 : wWhile.run 10 = some [(0, 0, .str 1)] := by decide
  have h2 : wWhile.typeAt = [(0, 0, [.nil])] := by decide
  refine ⟨h1, h2, ?_⟩
  intro h
  obtain ⟨t, ht, hv⟩ := h 0 0 (.str 1) (by simp)
  rw [h2] at ht
  simp only [List.mem_cons, Prod.mk.injEq, true_and, List.not_mem_nil, or_false] at ht
  subst ht
  simp [Ty.has, Atom.has] at hv

/-- `local v0 = nil; for _k in pairs({1, 2}) do v0 = true end; p(0, v0)`: the generic `for` drops its body too -/
def wForIn : LProg :=
  ⟨[some .nil], .cons (.forIn 2 (.cons (.assign 0 (.bool true)) .nil)) (.cons (.probe 0 0) .nil)⟩

theorem C41_witness_forin :
    wForIn.run 10 = some [(0, 0, .bool true)] ∧ wForIn.typeAt = [(0, 0, [.nil])] := by
  constructor <;> decide

/-- `local v0 = nil; for _i = 1, 2 do p(0, v0); v0 = "s1" end`: no back edge — the second iteration reads the
string the first one assigned, the inferred type at the probe is `nil` -/
def wBack : LProg :=
  ⟨[some .nil], .cons (.forNum 1 2 (.cons (.probe 0 0) (.cons (.assign 0 (.str 1)) .nil))) .nil⟩

theorem C41_witness_backedge :
    wBack.run 10 = some [(0, 0, .nil), (0, 0, .str 1)] ∧ wBack.typeAt = [(0, 0, [.nil])] := by
  constructor <;> decide

/-! ### the partial theorem is not vacuous -/

/-- `local v0 = nil; local v1 = "s1"; while v0 do p(0, v1); if v1 then break end end; p(1, v0)
repeat p(2, v1) until v0 == nil; p(3, v0)` -/
def exInert : LProg :=
  ⟨[some .nil, some (.str 1)],
   .cons (.whileDo (.leaf (.truthy 0)) (.cons (.probe 0 1) (.cons (.breakIf (.leaf (.truthy 1))) .nil)))
   (.cons (.probe 1 0)
   (.cons (.repeatUntil (.cons (.probe 2 1) .nil) (.leaf (.isNil 0 false)))
   (.cons (.probe 3 0) .nil)))⟩

example : exInert.body.loopOK (fun _ => false) = true := by decide
example : exInert.run 20 = some [(1, 0, .nil), (2, 1, .str 1), (3, 0, .nil)] := by decide
example : exInert.typeAt = [(0, 1, [.strC 1]), (1, 0, [.nil]), (2, 1, [.strC 1]), (3, 0, [.nil])] := by decide

/-- `local v0 = nil; local v1 = "s1"; while not v0 do v0 = 1; if type(v1) == "string" then p(0, v1) end end; p(1, v1)`:
the loop assigns `v0` (in `W`), the theorem covers the probes of `v1` -/
def exMixed : LProg :=
  ⟨[some .nil, some (.str 1)],
   .cons (.whileDo (.not (.leaf (.truthy 0)))
      (.cons (.assign 0 (.int 1))
      (.cons (.ite (.leaf (.typeIs 1 .string false)) (.cons (.probe 0 1) .nil) .none) .nil)))
   (.cons (.probe 1 1) .nil)⟩

example : exMixed.body.loopOK (fun x => x == 0) = true := by decide
example : storedSafe exMixed [] = true := by decide
example : exMixed.run 20 = some [(0, 1, .str 1), (1, 1, .str 1)] := by decide

/-- `local v0 = nil; local v1 = false; while true do if v1 then break end; v1 = true; v0 = "s1" end; p(0, v0)
for _i = 1, 2 do v0 = 2 end; p(1, v0); repeat v0 = nil until v1; p(2, v0)`: `v0` is assigned in three entered loops that do
not read it (`v1` is read inside the first loop, so it is in `W`) -/
def exEntered : LProg :=
  ⟨[some .nil, some (.bool false)],
   .cons (.whileTrue (.cons (.breakIf (.leaf (.truthy 1)))
            (.cons (.assign 1 (.bool true)) (.cons (.assign 0 (.str 1)) .nil))))
   (.cons (.probe 0 0)
   (.cons (.forNum 1 2 (.cons (.assign 0 (.int 2)) .nil))
   (.cons (.probe 1 0)
   (.cons (.repeatUntil (.cons (.assign 0 .nil) .nil) (.leaf (.truthy 1)))
   (.cons (.probe 2 0) .nil)))))⟩

example : exEntered.body.loopOK2 (fun z => z == 1) [] 0 = true := by decide
example : exEntered.body.loopOK (fun z => z == 1) = false := by decide
example : storedSafe exEntered [] = true := by decide
example : exEntered.run 30 = some [(0, 0, .str 1), (1, 0, .int 2), (2, 0, .nil)] := by decide
example : exEntered.typeAt = [(0, 0, [.strC 1, .nil]), (1, 0, [.intC 2]), (2, 0, [.nil])] := by decide

end C41
