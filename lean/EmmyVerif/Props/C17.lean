import EmmyVerif.Lemmas.TyParse
import EmmyVerif.Model.TyText
import EmmyVerif.Lemmas.TyConv
/-!
# C17 — Rendered types read back as the same type

Model: `TyM.renderCst` (layout chosen by `TypeHumanizer` at `RenderLevel::Documentation`, with the level
stepping, item limits and depth guard — `none` when the rendering would be truncated or leaves the
sub-grammar, i.e. the decidable `fits`), `TyM.printType` (its tokens), `TyM.parseType` (the doc type
parser `grammar/doc/types.rs` for the sub-grammar) and `TyM.ofType` (`infer_type`).

Full statement: `fits t → parseTy (render t) = some (norm t)` with `norm t` equal to `t` up to the order
of union members and the kind (inferred / doc) of literal constants.
Proved: the parser reads back exactly the syntax tree the renderer laid out, for every type that fits
(`C17_parse_render_partial`), hence no union / optional / array is ever regrouped and no literal
token changes; for atoms and arrays of atoms the full statement `parseTy (render t) = some t` holds
(`C17_parse_render_arrays`, `C17_reread_atom`). Missing: the proof that the semantic conversion of the
tree (`ofType ∘ renderCst`) is `norm` for unions, optionals, `table<…>` and records — compared on
generated types with the implementation on every run instead.
-/
namespace TyM
open Ty

/-- **the parser inverts the printer**, for every syntax tree of the sub-grammar (any nesting of
unions, `?`, `[]`, parentheses, `table<…>`, records) -/
theorem C17_parse_print (c : TypeE) :
    parseType (4 * (printType c).length + 4) (printType c) = some (c, []) :=
  parseType_printType c

/-- **parse ∘ render.** Whenever a type fits (the renderer produces a complete rendering `ts`), parsing
`ts` succeeds, consumes everything and converts the very syntax tree the renderer laid out. -/
theorem C17_parse_render_partial (e : Env) (t : Ty) (ts : List Tok) (h : render t = some ts) :
    parseTy e ts = reread e t := by
  unfold render at h
  cases hc : renderCst t with
  | none => simp [hc] at h
  | some c =>
    simp only [hc, Option.map_some, Option.some.injEq] at h
    subst h
    simp [parseTy, reread, hc, parseType_printType c]

/-- atoms read back as themselves (doc literals, basic kinds, references not named like a basic kind) -/
theorem C17_reread_atom (e : Env) (t : Ty)
    (ht : (∃ k, t = .prim k) ∨ (∃ s, t = .lit (.docStr s)) ∨ (∃ i, t = .lit (.docInt i)) ∨
      (∃ b, t = .lit (.docBool b)) ∨ (∃ n, t = .ref n ∧ builtinName n = none)) :
    reread e t = some t := by
  rcases ht with ⟨k, rfl⟩ | ⟨s, rfl⟩ | ⟨i, rfl⟩ | ⟨b, rfl⟩ | ⟨n, rfl, hn⟩
  · have hb : builtinName (primText k) = some k := by cases k <;> decide
    simp [reread, renderCst, toCst, ofType, ofSimple, ofRest, ofPrim, iter, hb]
  · simp [reread, renderCst, toCst, ofType, ofSimple, ofRest, ofPrim, iter]
  · simp [reread, renderCst, toCst, ofType, ofSimple, ofRest, ofPrim, iter]
  · simp [reread, renderCst, toCst, ofType, ofSimple, ofRest, ofPrim, iter]
  · simp [reread, renderCst, toCst, ofType, ofSimple, ofRest, ofPrim, iter, hn]

/-- **parse ∘ render = id** at full strength for the union-free core: basic kinds (except `unknown`),
doc literals (negative integers included — parenthesised as array elements), references not named like
a basic kind, and arrays of these nested to any depth the renderer does not truncate. -/
theorem C17_parse_render_arrays (e : Env) (t : Ty) (ts : List Tok) (hc : cv t = true)
    (h : render t = some ts) : parseTy e ts = some t := by
  rw [C17_parse_render_partial e t ts h]
  unfold render at h
  cases hr : renderCst t with
  | none => simp [hr] at h
  | some c =>
    simp only [reread, hr, Option.map_some, Option.some.injEq]
    exact conv_array_free e t hc _ _ _ c hr

/-- the layout before the fix `aced4e0` (`boolean?[]`) is not even a complete type for the parser:
the `[]` is left over -/
theorem C17_unparenthesised_optional_array_witness :
    parseType 40 [.name "boolean".toList, .quest, .lbrack, .rbrack]
      = some (.mk (.mk (.name "boolean".toList) 0) .nil 1, [.lbrack, .rbrack]) := by
  decide

/-! Non-vacuity (tests, labelled as such). -/
example : (renderText (.array (Ty.mk [.prim .boolean, tNil]))).map String.ofList = some "(boolean?)[]" := by
  decide +kernel
example : reread { decls := [] } (.array (Ty.mk [tNil, .prim .boolean])) = some (.array (Ty.mk [tNil, .prim .boolean])) := by
  decide +kernel
example : (renderText (Ty.mk [.ref "A".toList, .array (.ref "B".toList), tNil])).map String.ofList
    = some "(A|B[])?" := by decide +kernel
example : (renderText (.tgen (TyL.ofList [.prim .string, Ty.mk [.ref "A".toList, tNil]]))).map String.ofList
    = some "table<string,A?>" := by decide +kernel

end TyM
