import EmmyVerif.Lemmas.TyParse
import EmmyVerif.Model.TyText
import EmmyVerif.Lemmas.TyConv
import EmmyVerif.Lemmas.TyConv2
import EmmyVerif.Lemmas.TyConv4
/-!
# C17 — Rendered types read back as the same type

Model: `TyM.renderCst` (layout chosen by `TypeHumanizer` at `RenderLevel::Documentation`, with the level
stepping, item limits and depth guard — `none` when the rendering would be truncated or leaves the
sub-grammar, i.e. the decidable `fits`), `TyM.printType` (its tokens), `TyM.parseType` (the doc type
parser `grammar/doc/types.rs` for the sub-grammar) and `TyM.ofType` (`infer_type`).

Full statement: `fits t → parseTy (render t) = some (norm t)` with `norm t` equal to `t` up to the order
of union members and the kind (inferred / doc) of literal constants.
Proved: the parser reads back exactly the syntax tree the renderer laid out, for every type that fits
(`C17_parse_render_partial`), hence no union / optional / array is ever regrouped and no literal
token changes; for atoms and arrays of atoms the full statement `parseTy (render t) = some t` holds
(`C17_parse_render_arrays`, `C17_reread_atom`); for `table<…>`, records and `T?` over these too
(`C17_parse_render_compound`); for unions of distinct readable members `parseTy (render t) = some
(readNorm t)` where `readNorm` is the reader's `|`-fold followed by `?` (`C17_parse_render_union`), and
`readNorm t` has exactly the members of `t` (`C17_readNorm_members`). Missing: unions nested directly
inside unions' members beyond `T?`, function and tuple types, and member lists with duplicates (never
built by `LuaType::from_vec`) — compared on generated types with the implementation on every run instead.
-/
namespace TyM
open Ty

/-- **the parser inverts the printer**, for every syntax tree of the sub-grammar (any nesting of
unions, `?`, `[]`, parentheses, `table<…>`, records) -/
theorem C17_parse_print (c : TypeE) :
    parseType (4 * (printType c).length + 4) (printType c) = some (c, []) :=
  parseType_printType c

/-- **parse ∘ render.** Whenever a type fits (the renderer produces a complete rendering `ts`), parsing
`ts` succeeds, consumes everything and converts the very syntax tree the renderer laid out. -/
theorem C17_parse_render_partial (e : Env) (t : Ty) (ts : List Tok) (h : render t = some ts) :
    parseTy e ts = reread e t := by
  unfold render at h
  cases hc : renderCst t with
  | none => simp [hc] at h
  | some c =>
    simp only [hc, Option.map_some, Option.some.injEq] at h
    subst h
    simp [parseTy, reread, hc, parseType_printType c]

/-- atoms read back as themselves (doc literals, basic kinds, references not named like a basic kind) -/
theorem C17_reread_atom (e : Env) (t : Ty)
    (ht : (∃ k, t = .prim k) ∨ (∃ s, t = .lit (.docStr s)) ∨ (∃ i, t = .lit (.docInt i)) ∨
      (∃ b, t = .lit (.docBool b)) ∨ (∃ n, t = .ref n ∧ builtinName n = none)) :
    reread e t = some t := by
  rcases ht with ⟨k, rfl⟩ | ⟨s, rfl⟩ | ⟨i, rfl⟩ | ⟨b, rfl⟩ | ⟨n, rfl, hn⟩
  · have hb : builtinName (primText k) = some k := by cases k <;> decide
    simp [reread, renderCst, toCst, ofType, ofSimple, ofRest, ofPrim, iter, hb]
  · simp [reread, renderCst, toCst, ofType, ofSimple, ofRest, ofPrim, iter]
  · simp [reread, renderCst, toCst, ofType, ofSimple, ofRest, ofPrim, iter]
  · simp [reread, renderCst, toCst, ofType, ofSimple, ofRest, ofPrim, iter]
  · simp [reread, renderCst, toCst, ofType, ofSimple, ofRest, ofPrim, iter, hn]

/-- **parse ∘ render = id** at full strength for the union-free core: basic kinds (except `unknown`),
doc literals (negative integers included — parenthesised as array elements), references not named like
a basic kind, and arrays of these nested to any depth the renderer does not truncate. -/
theorem C17_parse_render_arrays (e : Env) (t : Ty) (ts : List Tok) (hc : cv t = true)
    (h : render t = some ts) : parseTy e ts = some t := by
  rw [C17_parse_render_partial e t ts h]
  unfold render at h
  cases hr : renderCst t with
  | none => simp [hr] at h
  | some c =>
    simp only [reread, hr, Option.map_some, Option.some.injEq]
    exact conv_array_free e t hc _ _ _ c hr

/-- **parse ∘ render = id** for the union-free core extended with `table<…>` (any arity), records
and optionals: every type built from basic kinds (except `unknown`), doc literals, references that are
not aliases and not named like a basic kind, arrays, `table<…>`, records `{k: T, …}` and `T?` for a
literal, reference or compound `T` (`cv2`), whenever the renderer does not truncate it. -/
theorem C17_parse_render_compound (e : Env) (hna : NoAlias e) (t : Ty) (ts : List Tok)
    (hc : cv2 t = true) (h : render t = some ts) : parseTy e ts = some t := by
  rw [C17_parse_render_partial e t ts h]
  unfold render at h
  cases hr : renderCst t with
  | none => simp [hr] at h
  | some c =>
    simp only [reread, hr, Option.map_some, Option.some.injEq]
    exact conv2 e hna t hc _ _ _ c hr

/-- the reader's normal form of a union with members `ms`: the `|`-fold (`binUnion`, i.e.
`LuaType::from_vec` of the two sides) over the members other than `nil`, in the order rendered, then the
`?` reader (`mkNullable`) when `nil` was a member -/
def readNorm (e : Env) (ms : TyL) : Ty :=
  readFold e (ms.toList.any fun t => decide (t = tNil)) (nonNil ms)

/-- **parse ∘ render = readNorm** for unions: any number of distinct members, each readable (`cv2`, so
atoms, arrays, `table<…>`, records, and these optional inside containers) and not itself a union, with
or without `nil`, whenever the renderer does not truncate. -/
theorem C17_parse_render_union (e : Env) (hna : NoAlias e) (ms : TyL) (ts : List Tok)
    (hc : cv2All (nonNil ms) = true) (hnd : (nonNil ms).Nodup) (h : render (.union ms) = some ts) :
    parseTy e ts = some (readNorm e ms) := by
  rw [C17_parse_render_partial e _ ts h]
  unfold render at h
  cases hr : renderCst (.union ms) with
  | none => simp [hr] at h
  | some c =>
    simp only [reread, hr, Option.map_some, Option.some.injEq, readNorm]
    exact conv_union e hna ms hc hnd _ _ _ c hr

/-- **readNorm only reorders**: the reader's normal form has exactly the members of the union it was
rendered from (`any?` and `never?` excluded: `any | nil` is `any` — ledger `union-of-any-and-nil`). -/
theorem C17_readNorm_members (e : Env) (hna : NoAlias e) (ms : TyL) (hc : cv2All (nonNil ms) = true)
    (hnd : (nonNil ms).Nodup) (hne : ms ≠ .nil) (hany : nonNil ms ≠ [tAny]) (hnever : nonNil ms ≠ [tNever]) :
    ∀ m, m ∈ Ty.members (readNorm e ms) ↔ m ∈ ms.toList := by
  intro m
  have hnil : tNil ∉ nonNil ms := fun h => ((mem_nonNil ms tNil).mp h).2 rfl
  have hhas : (ms.toList.any fun t => decide (t = tNil)) = true ↔ tNil ∈ ms.toList := by
    simp only [List.any_eq_true, decide_eq_true_eq]
    constructor
    · rintro ⟨x, hx, rfl⟩; exact hx
    · intro hx; exact ⟨tNil, hx, rfl⟩
  have hempty : nonNil ms = [] → (ms.toList.any fun t => decide (t = tNil)) = true := by
    intro h0
    cases ms with
    | nil => exact absurd rfl hne
    | cons t ts =>
      by_cases ht : t = tNil
      · subst ht; simp [TyL.toList]
      · have : t ∈ nonNil (.cons t ts) := (mem_nonNil _ t).mpr ⟨by simp [TyL.toList], ht⟩
        rw [h0] at this; simp at this
  rw [readNorm, readFold_members e hna _ (nonNil ms) hc hnd hnil hempty hany hnever m, mem_nonNil, hhas]
  constructor
  · rintro (⟨h1, _⟩ | ⟨h1, rfl⟩)
    · exact h1
    · exact h1
  · intro h1
    by_cases hm : m = tNil
    · subst hm; exact .inr ⟨h1, rfl⟩
    · exact .inl ⟨h1, hm⟩

/-- the layout before the fix `aced4e0` (`boolean?[]`) is not even a complete type for the parser:
the `[]` is left over -/
theorem C17_unparenthesised_optional_array_witness :
    parseType 40 [.name "boolean".toList, .quest, .lbrack, .rbrack]
      = some (.mk (.mk (.name "boolean".toList) 0) .nil 1, [.lbrack, .rbrack]) := by
  decide

/-! Non-vacuity (tests, labelled as such). -/
example : (renderText (.array (Ty.mk [.prim .boolean, tNil]))).map String.ofList = some "(boolean?)[]" := by
  decide +kernel
example : reread { decls := [] } (.array (Ty.mk [tNil, .prim .boolean])) = some (.array (Ty.mk [tNil, .prim .boolean])) := by
  decide +kernel
example : (renderText (Ty.mk [.ref "A".toList, .array (.ref "B".toList), tNil])).map String.ofList
    = some "(A|B[])?" := by decide +kernel
example : cv2 (.tgen (TyL.ofList [.prim .string, Ty.mk [.array (.ref "A".toList), tNil],
    .object (.cons "k".toList (.lit (.docInt (-1))) .nil)])) = true := by decide
example : (renderText (.tgen (TyL.ofList [.prim .string, Ty.mk [.ref "A".toList, tNil]]))).map String.ofList
    = some "table<string,A?>" := by decide +kernel
example : readNorm { decls := [] } (TyL.ofList [.ref "A".toList, tNil, .array (.ref "B".toList), .prim .string])
    = Ty.mk [.ref "A".toList, .array (.ref "B".toList), .prim .string, tNil] := by decide +kernel
example : reread { decls := [] } (Ty.mk [.ref "A".toList, tNil, .array (.ref "B".toList), .prim .string])
    = some (Ty.mk [.ref "A".toList, .array (.ref "B".toList), .prim .string, tNil]) := by decide +kernel

end TyM
