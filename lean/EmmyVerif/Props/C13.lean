import EmmyVerif.Lemmas.ScopeSim
import EmmyVerif.Lemmas.ScopeRange
import EmmyVerif.Lemmas.ScopeTrace
/-!
# C13 — Names resolve to the declaration Lua's scoping rules select

`Scope.implementation` is the executable model of the decl analyzer (`DeclAnalyzer` building
`LuaDeclarationTree`, every name resolved during the walk by `find_local_decl` =
`visit_visible_decls` / `search_scope_children` / `visit_child_scope`; that record is what the reference
index keeps and `SemanticModel` reads back). `Scope.reference` is `LuaScope`, an environment-passing
resolver for the same programs (Lua manual §3.5). The model is tied to the Rust by the
correspondence run of `./check C13`; the reference is compared with the Rust independently.

Modelled programs: `local` (several names, values optional), multiple assignment, `local function`,
`function f`, closures with parameters, numeric and generic `for`, `while`, `repeat … until`, `do`,
`if … else`, calls, `local x <const>`, `function a.b:c()` / `function a.b.c()` (implicit `self`); `...` and `self`
are names like any other for the lookup; every list may be empty or contain duplicates.
-/
namespace Scope

/-- the chunk's scope and the scope of its block, before the first token -/
theorem good_start : Good [blk startPos, { kind := .normal, start := 0, children := [] }] startPos [] := by
  refine ⟨⟨by simp [blk], ⟨by simp, trivial, by simp⟩, ?_⟩, ?_, ?_, ?_⟩
  · intro g hg; rw [head_cons_mem hg]; decide
  · intro f hf; rw [head_cons_mem hf]; decide
  · intro n; simp [vis, ownC, blk, findN, localOf, lookupEnv]
  · intro n; simp [vis, ownC, blk, findN, localOf, lookupEnv]

/-- **C13 `find_eq_lua`.** For every program of the modelled fragment, the resolution the decl
analyzer records at every name use — the local declaration found by the scope-tree lookup during
the walk, or "global" — is the one Lua's lexical scoping selects. -/
theorem find_eq_lua (p : List Stat) : implementation p = reference p := by
  have h := simBlock p { pos := startPos, frames := [{ kind := .normal, start := 0, children := [] }], out := [] }
    { pos := startPos, out := [] } [] ⟨rfl, rfl⟩ good_start
  unfold implementation reference
  rw [h.rel.2]

/-- the same, use by use: the `i`-th name use resolves identically -/
theorem find_eq_lua_at (p : List Stat) (i : Nat) : (implementation p)[i]? = (reference p)[i]? := by
  rw [find_eq_lua]

/-- **Lookups during the walk answer like the environment** (the invariant behind `find_eq_lua`,
stated for an arbitrary point of the walk): on a scope stack that agrees with an environment, a
`find_local_decl` at any later position returns the environment's local declaration, or no local. -/
theorem lookup_eq_env {fs : List Frame} {p : Nat} {env : Env} (h : Good fs p env) (q : Nat) (hq : p ≤ q)
    (n : Name) : localOf (findDecl fs n q) = lookupEnv env n :=
  h.lookup q hq n

/-- `visit_visible_decls` offers, on position-ordered scope stacks, exactly the position-free list
`vis` (up to repetitions) — the cut-off positions of `search_scope_children` and of
`LocalOrAssignStat` scopes only ever hide a statement's own scope. -/
theorem visit_positions_irrelevant (fs : List Frame) (q : Nat) (h : Sorted fs q)
    (htop : ∀ f ∈ fs.head?, f.kind = .localOrAssign ∨ f.start < q) (n : Name) :
    findDecl fs n q = findN (vis fs none true) n := by
  have := visit_eq_vis fs q h htop n
  simpa [findDecl, findN] using this

/-! ## `find_scope` and `is_in_body_block` on explicit scope ranges

`chunkTree p` is the complete scope tree with the ranges `create_scope` receives (syntax-node ranges);
`pathTree` is `find_scope` (enter the first child scope whose range contains the position, repeat). The
model of the walk keeps only the open scopes and starts every lookup at the innermost one;
`find_scope_is_innermost_open_scope` shows that this is what `find_scope` returns (the instrumentation field
`trace` records position and open scopes of every lookup; `./check C13` also evaluates the statement on every
generated program, `scope.findscope`). -/

/-- **`find_scope(position)` is the innermost open scope** at every lookup of the walk: the open scopes
(outermost first) are exactly the path `find_scope` takes through the chunk's scope tree -/
theorem find_scope_is_innermost_open_scope (p : List Stat) :
    ∀ e ∈ (walkOf p).trace, e.2.reverse = pathTree (chunkTree p) e.1 := lookups_start_at_find_scope p

/-- the scope tree of every chunk is well nested: child ranges lie inside the parent's, in source
order and without overlap -/
theorem scope_tree_well_nested (p : List Stat) : wellNested (chunkTree p) = true := chunkTree_wellNested p

/-- **`find_scope` ends in the innermost scope containing the position**: it enters exactly the
scopes whose range contains it -/
theorem find_scope_path (p : List Stat) (q : Nat) (hq : q < startPos + 2 * sizeBlock p + 1) :
    pathTree (chunkTree p) q = containingTree (chunkTree p) q := find_scope_innermost p q hq

/-- **`is_in_body_block`** ("some child scope of kind `Normal` contains the position") holds iff the
child scope `find_scope` enters next is a block — the form the model of the walk uses -/
theorem in_body_block_iff_next_is_block (cs : List RTree) (q lo hi : Nat) (h : chain lo hi cs = true) :
    (cs.any fun c => decide (c.kind = .normal) && c.has q) =
      (match pathForest cs q with
       | (k, _) :: _ => decide (k = .normal)
       | [] => false) := inBody_iff_next cs q lo hi h

example : pathTree (chunkTree [.locl [0] [.lit], .forNum 0 (.name 0) (.name 0) [.callS 2 [.name 0]]]) 26
    = [(.normal, 0), (.normal, 1), (.forRange, 10), (.normal, 21)] := by decide

/-! ## Non-vacuity and the reference semantics on the cases the property names (tests) -/

section Examples
open Expr Stat

/-- `local x = 1; for x = x, x do z(x) end` — header uses see the outer `x`, the body the loop variable -/
example : reference [.locl [0] [.lit], .forNum 0 (.name 0) (.name 0) [.callS 2 [.name 0]]]
    = [(16, some 4), (18, some 4), (22, none), (26, some 12)] := by decide
example : implementation [.locl [0] [.lit], .forNum 0 (.name 0) (.name 0) [.callS 2 [.name 0]]]
    = [(16, some 4), (18, some 4), (22, none), (26, some 12)] := by decide

/-- `local y, y = 1, 2; z(y)` — the later `y` wins -/
example : implementation [.locl [1, 1] [.lit, .lit], .callS 2 [.name 1]] = [(14, none), (18, some 6)] := by decide

/-- `local x = 1; local x = x` — the initialiser sees the outer `x` -/
example : implementation [.locl [0] [.lit], .locl [0] [.name 0]] = [(16, some 4)] := by decide

/-- `repeat local y = 1 until y` — the condition sees the body's local -/
example : implementation [.repeat_ [.locl [1] [.lit]] (.name 1)] = [(14, some 6)] := by decide

/-- `local function x(y) x(y) end` — a local function sees itself and its parameter -/
example : implementation [.localFunc 0 [1] [.callS 0 [.name 1]]] = [(14, some 6), (18, some 10)] := by decide

/-- `local x = 1; for x in z(function() z(x) end) do z(x) end` — a closure in the loop header sees the outer `x` -/
example : implementation
    [.locl [0] [.lit], .forIn [0] (.call 2 [.func [] [.callS 2 [.name 0]]]) [.callS 2 [.name 0]]]
    = [(16, none), (26, none), (30, some 4), (40, none), (44, some 12)] := by decide

/-- `local x = 1; repeat until z(function(x) end, x)` — the closure parameter does not leak -/
example : implementation [.locl [0] [.lit], .repeat_ [] (.call 2 [.func [0] [], .name 0])]
    = [(14, none), (28, some 4)] := by decide

/-- `x = 1; function x() end; z(x)` — globals stay global -/
example : implementation [.assign [0] [.lit], .funcStat 0 [] [], .callS 2 [.name 0]]
    = [(2, none), (10, none), (18, none), (22, none)] := by decide

/-- `function x:m0(y) z(self, y, x) end` — `self` is the implicit parameter declared at the `:`; `x` an ordinary use -/
example : implementation [.locl [0] [.lit], .method 0 1 true [1] [.callS 2 [.name selfName, .name 1, .name 0]]]
    = [(12, some 4), (24, none), (28, some 14), (30, some 20), (32, some 4)] := by decide
example : reference [.locl [0] [.lit], .method 0 1 true [1] [.callS 2 [.name selfName, .name 1, .name 0]]]
    = [(12, some 4), (24, none), (28, some 14), (30, some 20), (32, some 4)] := by decide

/-- `function x.m0() z(self) end` — no implicit `self` without the colon -/
example : implementation [.method 0 1 false [] [.callS 2 [.name selfName]]] = [(4, none), (14, none), (18, none)] := by decide

/-- `local x <const> = x; z(x)` — the initialiser sees the outer (here global) `x` -/
example : implementation [.loclAttr 0 (.name 0), .callS 2 [.name 0]] = [(14, none), (16, none), (20, some 4)] := by decide

end Examples

end Scope
