import EmmyVerif.Lemmas.DiagScope
/-!
# C19 — Diagnostic suppression comments affect exactly their scope

Model: `Diag.analyze` (what `analyze_diagnostic*` registers for the `---@diagnostic` tags of a file),
`Diag.suppressed` (`DiagnosticIndex::is_file_diagnostic_code_disabled` → `DiagnosticAction::is_match`),
`Diag.enabledByCode` / `Diag.reported` (the gate of `DiagnosticContext::add_diagnostic`).
Tied to the Rust on every run by the correspondence run of `./check C19` (real `diagnose_file` with and
without the suppression comments vs. the surviving set predicted by this model).
-/
namespace Diag

/-- **C19 `suppressed_iff_in_scope`.** For every line table, every list of `---@diagnostic` tags of
the file, every code and every diagnostic range: the diagnostic is dropped by a ranged action iff
some tag selects its code (no code list, or the code is listed) and the range occupies a position
that is in that tag's scope *by lines* (`inScope`: comment … line after it / own line / enclosing
block). A range that merely touches a scope occupies no position of it. -/
theorem C19_suppressed_iff_in_scope (starts : List Nat) (len : Nat) (ok : StartsOK starts len)
    (tags : List Tag) (htags : ∀ tag ∈ tags, TagOK len tag) (c : Code) (r : Range) (hr : r.1 ≤ r.2) :
    suppressed (analyze starts len tags) c r = true ↔
      ∃ tag ∈ tags, selects tag c ∧ ∃ p, occupies r p ∧ inScope starts len tag p := by
  rw [suppressed_iff_tag]
  constructor
  · intro ⟨tag, hm, hsel, rng, hrng, hcov⟩
    have hne := tagRange_nonempty starts len ok tag (htags tag hm) rng hrng
    obtain ⟨p, h1, h2, h3⟩ := (covers_iff rng r hne hr).mp hcov
    exact ⟨tag, hm, hsel, p, h3, (tagRange_inScope starts len ok tag p (fun br top hb => ((htags tag hm).2.2 br top hb).2.2)).mp ⟨rng, hrng, h1, h2⟩⟩
  · intro ⟨tag, hm, hsel, p, h3, hin⟩
    obtain ⟨rng, hrng, h1, h2⟩ := (tagRange_inScope starts len ok tag p (fun br top hb => ((htags tag hm).2.2 br top hb).2.2)).mpr hin
    have hne := tagRange_nonempty starts len ok tag (htags tag hm) rng hrng
    exact ⟨tag, hm, hsel, rng, hrng, (covers_iff rng r hne hr).mpr ⟨p, h1, h2, h3⟩⟩

/-- the same for the line table of an arbitrary text (Text family: `\n`, `\r\n`, `\r` line ends) -/
theorem C19_suppressed_iff_in_scope_text (t : List Char) (tags : List Tag)
    (htags : ∀ tag ∈ tags, TagOK (Text.len8 t) tag) (c : Code) (r : Range) (hr : r.1 ≤ r.2) :
    let starts := Text.lineStarts (Text.splitLines t) 0
    suppressed (analyze starts (Text.len8 t) tags) c r = true ↔
      ∃ tag ∈ tags, selects tag c ∧ ∃ p, occupies r p ∧ inScope starts (Text.len8 t) tag p := by
  obtain ⟨h1, h2, h3⟩ := textStarts_ok t
  exact C19_suppressed_iff_in_scope _ _ ⟨h1, h2, h3⟩ tags htags c r hr

/-- **Other codes are unaffected**: a code no tag selects is never dropped by a ranged action. -/
theorem C19_other_codes_unaffected (starts : List Nat) (len : Nat) (tags : List Tag) (c : Code)
    (r : Range) (h : ∀ tag ∈ tags, ¬ selects tag c) : suppressed (analyze starts len tags) c r = false := by
  cases hs : suppressed (analyze starts len tags) c r with
  | false => rfl
  | true =>
    obtain ⟨tag, hm, hsel, _⟩ := (suppressed_iff_tag starts len tags c r).mp hs
    exact absurd hsel (h tag hm)

/-- **Lines after the next line are unaffected** by `disable-next-line` — in particular a diagnostic
starting at column 0 of the second line after the comment (the case rowan's touching `intersect`
used to hide). -/
theorem C19_next_line_later_lines_unaffected (starts : List Nat) (len : Nat) (ok : StartsOK starts len)
    (tag : Tag) (hk : tag.kind = .disableNextLine) (l e : Nat)
    (hl : getLine starts tag.comment.2 = some l) (he : starts[l + 2]? = some e)
    (r : Range) (hafter : e ≤ r.1) (p : Nat) (hp : occupies r p) :
    ¬ inScope starts len tag p := by
  intro hin
  unfold inScope at hin
  simp only [hk] at hin
  obtain ⟨l', lp, hl', hlp, _, hle, _⟩ := hin
  rw [hl] at hl'; cases hl'
  have := (getLine_le_iff starts ok.sorted p lp (l + 1) e hlp he).mpr hle
  unfold occupies at hp
  split at hp <;> omega

/-- **Other lines are unaffected** by `disable-line`: a diagnostic that starts at or after the start of
the following line, or ends at or before the start of the comment's line, occupies no position in
scope. -/
theorem C19_line_other_lines_unaffected (starts : List Nat) (len : Nat) (ok : StartsOK starts len)
    (tag : Tag) (hk : tag.kind = .disableLine) (l : Nat)
    (hl : getLine starts tag.comment.2 = some l) (r : Range) (hr : r.1 < r.2)
    (hout : (∃ e, starts[l + 1]? = some e ∧ e ≤ r.1) ∨ (∃ s, starts[l]? = some s ∧ r.2 ≤ s))
    (p : Nat) (hp : occupies r p) : ¬ inScope starts len tag p := by
  intro hin
  unfold inScope at hin
  simp only [hk] at hin
  obtain ⟨l', hl', _, hlp, _⟩ := hin
  rw [hl] at hl'; cases hl'
  obtain ⟨⟨s, hs, h1⟩, h2⟩ := (getLine_some_iff starts ok.sorted p l).mp hlp
  unfold occupies at hp
  have hne : ¬ r.1 = r.2 := by omega
  simp only [hne, if_false] at hp
  rcases hout with ⟨e, he, h3⟩ | ⟨s', hs', h3⟩
  · have := h2 e he; omega
  · rw [hs] at hs'; cases hs'; omega

/-- **Other blocks are unaffected** by a block-level `disable`: a non-empty diagnostic range that
inside the text
that does not overlap the enclosing block's range occupies no position in scope. -/
theorem C19_block_other_blocks_unaffected (starts : List Nat) (len : Nat) (tag : Tag)
    (hk : tag.kind = .disable) (br : Range) (top : Bool) (hb : tag.block = some (br, top))
    (r : Range) (hr : r.1 < r.2) (hlen : r.2 ≤ len) (hout : r.2 ≤ br.1 ∨ br.2 ≤ r.1) (p : Nat)
    (hp : occupies r p) : ¬ inScope starts len tag p := by
  intro hin
  unfold inScope at hin
  simp only [hk] at hin
  obtain ⟨br', top', hb', _, h1, h2⟩ := hin
  rw [hb] at hb'; cases hb'
  unfold occupies at hp
  have hne : ¬ r.1 = r.2 := by omega
  simp only [hne, if_false] at hp
  omega

/-! ### file-level sets -/

/-- **Whole file at top level.** A code is in the file-disabled set iff some top-level
`---@diagnostic disable: …` lists it. -/
theorem C19_file_disabled_iff (starts : List Nat) (len : Nat) (tags : List Tag) (c : Code) :
    c ∈ (analyze starts len tags).fileDisabled ↔
      ∃ tag ∈ tags, tag.kind = .disable ∧ (∃ br, tag.block = some (br, true)) ∧
        ∃ cs, tag.codes = some cs ∧ some c ∈ cs := by
  unfold analyze
  rw [foldl_fileDisabled]
  simp only [List.nil_append, List.mem_flatMap]
  constructor
  · intro ⟨tag, hm, h⟩
    refine ⟨tag, hm, ?_⟩
    unfold tagFileDisabled at h
    split at h
    · rename_i br cs hk hb hc
      exact ⟨hk, ⟨br, hb⟩, cs, hc, (mem_knownCodes cs c).mp h⟩
    · simp at h
  · intro ⟨tag, hm, hk, ⟨br, hb⟩, cs, hc, h⟩
    refine ⟨tag, hm, ?_⟩
    unfold tagFileDisabled
    rw [hk, hb, hc]
    exact (mem_knownCodes cs c).mpr h

/-- **What survives.** With the default precedence inputs fixed, a diagnostic is reported iff its
code is enabled for the file and no tag that selects the code has the diagnostic in its scope. -/
theorem C19_reported_iff (defaultOn : Code → Bool) (cfg : Config) (isMeta : Bool)
    (starts : List Nat) (len : Nat) (ok : StartsOK starts len)
    (tags : List Tag) (htags : ∀ tag ∈ tags, TagOK len tag) (c : Code) (r : Range) (hr : r.1 ≤ r.2) :
    reported defaultOn cfg (analyze starts len tags) isMeta c r = true ↔
      enabledByCode defaultOn cfg (analyze starts len tags) isMeta c = true ∧
      ¬ ∃ tag ∈ tags, selects tag c ∧ ∃ p, occupies r p ∧ inScope starts len tag p := by
  rw [← C19_suppressed_iff_in_scope starts len ok tags htags c r hr]
  unfold reported
  cases suppressed (analyze starts len tags) c r <;> simp

/-! ### what the fix changed (the pre-fix test is `touches`), and non-vacuity examples -/

/-- rowan's `intersect` accepts a diagnostic that starts exactly where the scope ends; the
half-open test does not. -/
theorem C19_touching_changed : touches (0, 10) (10, 13) = true ∧ covers (0, 10) (10, 13) = false := by
  decide

/-- text `"--x\nfoo()\nbar()\n"`-like table: line starts 0,4,10,16; a `disable-next-line` comment at
[0,3) is valid over [0,10): `foo` at [4,7) is suppressed, `bar` at column 0 of the line after is not. -/
example :
    let tag : Tag := ⟨.disableNextLine, some [some 7], (0, 3), some ((0, 16), true)⟩
    let st := analyze [0, 4, 10, 16] 16 [tag]
    suppressed st 7 (4, 7) = true ∧ suppressed st 7 (10, 13) = false ∧ suppressed st 8 (4, 7) = false := by
  decide

example : inScope [0, 4, 10, 16] 16 ⟨.disableNextLine, none, (0, 3), none⟩ 9 := by
  refine ⟨0, 1, by decide, by decide, by decide, by decide, by decide⟩

/-- the end-of-file position belongs to the last line: a zero-width diagnostic at `len` is suppressed by
a `disable-line` on the last line and by a `disable-next-line` on the line before -/
example :
    let st := analyze [0, 4, 10] 14 [⟨.disableLine, none, (11, 14), some ((0, 14), true)⟩]
    suppressed st 7 (14, 14) = true ∧ suppressed st 7 (9, 10) = false := by
  decide

example : TagOK 16 ⟨.disableNextLine, some [some 7], (0, 3), some ((0, 16), true)⟩ := by
  refine ⟨by decide, by decide, ?_⟩
  intro br top h; cases h; decide

end Diag
