import EmmyVerif.Lemmas.Emit
/-!
# C40 — JSON-schema conversion emits valid annotations (partial)

Statements about the model `Emit` (`Model/Emit.lean`) of the fixed `schema_to_emmylua` emitter.
What is proved, for ALL property names, titles, enum/const strings and descriptions: the names the
emitter writes are single name tokens for the doc lexer, the string literals are single closed
string tokens containing exactly the value, description text never leaks out of its comment line,
and the reported root type is declared by a `---@class` line.

Full statement (not proved): *the whole annotation text of every JSON schema parses without syntax
error* — that needs a model of the annotation grammar (doc parser) and of `resolve_type` on `$ref`,
arrays, `anyOf`/`oneOf`/`allOf`, `additionalProperties`; those are covered by the convert→parse
oracle of `./check C40` only (DESIGN §6 C40 "Out").
Tie: correspondence run (`SchemaConverter::convert` vs `Emit.convertLines` on the modelled fragment).
-/
namespace Emit

/-- **C40 type names are single name tokens.** Whatever the prefix and the title / definition /
`$ref` name (spaces, `!`, quotes, line breaks, empty, …), the emitted type name starts with a name
start character and the doc lexer's name rule (`read_doc_name`) consumes all of it. -/
theorem C40_typeName_is_one_name (alnum alpha : Char → Bool) (h : AlnumOk alnum)
    (pre name : List Char) :
    ∃ c r, typeName alnum alpha pre name = c :: r ∧ (alpha c = true ∨ c = '_') ∧
      readNameRest alnum r = (r, []) := by
  unfold typeName
  have hok := okFrom_sanitize alnum none (pre ++ name)
  cases hs : sanitizeGo alnum none (pre ++ name) with
  | nil => exact ⟨'_', [], rfl, Or.inr rfl, rfl⟩
  | cons c r =>
    rw [hs] at hok
    simp only [okFrom, Bool.and_eq_true] at hok
    obtain ⟨hc, hr⟩ := hok
    have hc' : (alnum c || c == '_') = true := by simpa using hc
    by_cases ha : (alpha c || c == '_') = true
    · refine ⟨c, r, by simp [ha], ?_, readNameRest_ok alnum h (some c) r hr⟩
      simp only [Bool.or_eq_true, beq_iff_eq] at ha
      exact ha
    · refine ⟨'_', c :: r, by simp [ha], Or.inr rfl, ?_⟩
      apply readNameRest_ok alnum h (some '_')
      simp only [okFrom, Bool.and_eq_true]
      exact ⟨by simp only [Bool.or_eq_true] at hc' ⊢; exact Or.inl hc', hr⟩

/-- **C40 string literals are single closed string tokens.** When a value has a literal form, the
literal is a quote, the value unchanged, the same quote; the doc lexer's string rule started after
the opening quote stops exactly at the closing one (whatever follows), and the literal contains no
line break. -/
theorem C40_stringLiteral_is_token (s q : List Char) (h : stringLiteral s = some q) :
    ∃ d, (d = '"' ∨ d = '\'') ∧ q = d :: s ++ [d] ∧ s.any isBreak = false ∧
      ∀ rest, lexStringBody d (s ++ d :: rest) = (s ++ [d], rest) := by
  unfold stringLiteral at h
  split at h
  · cases h
  · rename_i hb
    have hb : s.any isBreak = false := by simpa using hb
    split at h
    · rename_i h1
      cases h
      exact ⟨'"', Or.inl rfl, rfl, hb, fun rest => lexStringBody_closed '"' s rest (by simpa using h1)⟩
    · split at h
      · rename_i h2
        cases h
        exact ⟨'\'', Or.inr rfl, rfl, hb, fun rest => lexStringBody_closed '\'' s rest (by simpa using h2)⟩
      · cases h

/-- a value without a literal form is widened to `string`, never written raw -/
theorem C40_stringLiteralType_cases (s : List Char) :
    stringLiteralType s = "string".toList ∨ ∃ q, stringLiteral s = some q ∧ stringLiteralType s = q := by
  unfold stringLiteralType
  cases h : stringLiteral s with
  | none => exact Or.inl rfl
  | some q => exact Or.inr ⟨q, rfl, rfl⟩

/-- **C40 descriptions stay inside comments.** Every line written for a description (any text:
`\n`, `\r\n`, lone `\r`, NUL, `---@class` look-alikes) starts with `--- ` and contains no line break,
so none of it can become code or a tag of its own. -/
theorem C40_docLines_are_comment_lines (t : List Char) :
    ∀ l ∈ docLines t, ∃ body, l = "--- ".toList ++ body ∧ ∀ c ∈ body, isBreak c = false := by
  intro l hl
  simp only [docLines, List.mem_map] at hl
  obtain ⟨body, hb, rfl⟩ := hl
  exact ⟨body, rfl, commentLines_no_break t body hb⟩

/-- **C40 the reported root type is declared.** For every schema of the modelled fragment (any title
or none, any properties) the annotation text contains the line `---@class <root>` for exactly the
reported root type name, and that name is a single name token. -/
theorem C40_root_declared (alnum alpha : Char → Bool) (priv : Bool) (s : Schema) :
    classLine priv (rootName alnum alpha s) ∈ convertLines alnum alpha priv s := by
  simp [convertLines]

/-! ## non-vacuity (tests, labelled as such) -/

def asciiAlnum (c : Char) : Bool := c.isAlphanum
def asciiAlpha (c : Char) : Bool := c.isAlpha

example : AlnumOk asciiAlnum := ⟨by decide, by decide, by decide⟩
example : typeName asciiAlnum asciiAlpha "schema.".toList "my type!".toList = "schema.my_type_".toList := by decide +kernel
example : typeName asciiAlnum asciiAlpha [] "1x".toList = "_1x".toList := by decide +kernel
example : stringLiteral "a\"b".toList = some "'a\"b'".toList := by decide +kernel
example : stringLiteral "n\nl".toList = none := by decide +kernel
example : commentLines "a\r\nb\rc".toList = ["a".toList, "b".toList, "c".toList] := by decide +kernel
example : (convertLines asciiAlnum asciiAlpha false
    ⟨some "my type!".toList, none, [⟨"a\"b".toList, none, true, .prim "string".toList⟩]⟩).drop 3 =
  ["---@class schema.my_type_".toList, "---@field ['a\"b'] string".toList, []] := by decide +kernel

end Emit
