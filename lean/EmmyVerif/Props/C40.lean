import EmmyVerif.Lemmas.Emit
/-!
# C40 — JSON-schema conversion emits valid annotations (partial)

Statements about the model `Emit` (`Model/Emit.lean`) of the fixed `schema_to_emmylua` emitter.
What is proved, for ALL property names, titles, enum/const strings and descriptions: the names the
emitter writes are single name tokens for the doc lexer, the string literals are single closed
string tokens containing exactly the value, description text never leaks out of its comment line,
and the reported root type is declared by a `---@class` line.

Full statement (not proved): *the whole annotation text of every JSON schema parses without syntax
error* — that needs a model of the annotation grammar (doc parser) and of `resolve_type` on `$ref`,
arrays, `anyOf`/`oneOf`/`allOf`, `additionalProperties`; those are covered by the convert→parse
oracle of `./check C40` only (DESIGN §6 C40 "Out").
Tie: correspondence run (`SchemaConverter::convert` vs `Emit.convertLines` on the modelled fragment).
-/
namespace Emit

/-- **C40 type names are single name tokens.** Whatever the prefix and the title / definition /
`$ref` name (spaces, `!`, quotes, line breaks, empty, keywords, …), the emitted type name starts with
a name start character and the doc lexer's name rule (`read_doc_name`) consumes all of it. -/
theorem C40_typeName_is_one_name (alnum alpha : Char → Bool) (h : AlnumOk alnum)
    (pre name : List Char) :
    ∃ c r, typeName alnum alpha pre name = c :: r ∧ (alpha c = true ∨ c = '_') ∧
      readNameRest alnum r = (r, []) := by
  obtain ⟨c, r, hs, hc, hr⟩ := sanitized_is_one_name alnum alpha pre name
  unfold typeName
  simp only [hs]
  split
  · exact ⟨c, r ++ ['_'], rfl, hc, readNameRest_ok alnum h (some c) _ (okFrom_append_us alnum _ r hr)⟩
  · exact ⟨c, r, rfl, hc, readNameRest_ok alnum h (some c) r hr⟩

/-- **C40 a type name is never a bare keyword** (`fun`, `async`, `true`, `false`, `keyof`, `extends`,
`as`, `in`, `and`, `or`, `else`), whatever the prefix (also the empty one) and the name -/
theorem C40_typeName_not_keyword (alnum alpha : Char → Bool) (pre name : List Char) :
    typeKeywords.contains (typeName alnum alpha pre name) = false := by
  unfold typeName
  simp only []
  split
  · rename_i hk
    have hmem : sanitized alnum alpha pre name ∈ typeKeywords := by simpa using hk
    generalize sanitized alnum alpha pre name = r at hmem
    simp only [typeKeywords, List.mem_cons, List.not_mem_nil, or_false] at hmem
    rcases hmem with rfl | rfl | rfl | rfl | rfl | rfl | rfl | rfl | rfl | rfl | rfl <;> decide
  · rename_i hk; simpa using hk

/-- **C40 string literals are single closed string tokens.** When a value has a literal form, the
literal is a quote, the value unchanged, the same quote; the doc lexer's string rule started after
the opening quote stops exactly at the closing one (whatever follows), and the literal contains no
line break. -/
theorem C40_stringLiteral_is_token (s q : List Char) (h : stringLiteral s = some q) :
    ∃ d, (d = '"' ∨ d = '\'') ∧ q = d :: s ++ [d] ∧ s.any isBreak = false ∧
      ∀ rest, lexStringBody d (s ++ d :: rest) = (s ++ [d], rest) := by
  unfold stringLiteral at h
  split at h
  · cases h
  · rename_i hb
    have hb : s.any isBreak = false := by simpa using hb
    split at h
    · rename_i h1
      cases h
      exact ⟨'"', Or.inl rfl, rfl, hb, fun rest => lexStringBody_closed '"' s rest (by simpa using h1)⟩
    · split at h
      · rename_i h2
        cases h
        exact ⟨'\'', Or.inr rfl, rfl, hb, fun rest => lexStringBody_closed '\'' s rest (by simpa using h2)⟩
      · cases h

/-- a value without a literal form is widened to `string`, never written raw -/
theorem C40_stringLiteralType_cases (s : List Char) :
    stringLiteralType s = "string".toList ∨ ∃ q, stringLiteral s = some q ∧ stringLiteralType s = q := by
  unfold stringLiteralType
  cases h : stringLiteral s with
  | none => exact Or.inl rfl
  | some q => exact Or.inr ⟨q, rfl, rfl⟩

/-- **C40 descriptions stay inside comments.** Every line written for a description (any text:
`\n`, `\r\n`, lone `\r`, NUL, text that begins with `@class`, `@field`, `---@class`, `-- --- @x`, … directly,
after white space or after a line break) starts with `--- `, contains no line break, and **no part of
it is lexed as a tag** by the doc lexer (model `tagStart`/`tagAfter` of `lex_init` and
`lex_normal_description`: `---`, white space, `@`, also behind further `---`/`--`/`//` comment
starts): none of it can become code or an annotation of its own. -/
theorem C40_docLines_are_comment_lines (t : List Char) :
    ∀ l ∈ docLines t, (∃ body, l = "--- ".toList ++ body ∧ ∀ c ∈ body, isBreak c = false) ∧
      tagStart l = false := by
  intro l hl
  simp only [docLines, List.mem_map] at hl
  obtain ⟨body, hb, rfl⟩ := hl
  have hnb := commentLines_no_break t body hb
  refine ⟨⟨escapeTag body, rfl, ?_⟩, tagStart_docLine body⟩
  intro c hc
  unfold escapeTag at hc
  split at hc
  · rcases List.mem_cons.mp hc with rfl | hc
    · decide
    · exact hnb c hc
  · exact hnb c hc

/-- **C40 a field key is one key.** For every property name, the key written after `---@field` is
either the name itself — then it is a plain identifier and none of the words the field grammar reads
as a modifier (`private`, `protected`, `public`, `package`, `readonly`) — or `[` a closed string
literal holding exactly the name `]`; names with no literal form produce no field line at all. -/
theorem C40_fieldName_is_one_key (name k : List Char) (h : fieldKey name = some k) :
    (k = name ∧ plainIdent name = true ∧ fieldModifiers.contains name = false) ∨
    (∃ lit, stringLiteral name = some lit ∧ k = '[' :: lit ++ [']']) := by
  unfold fieldKey at h
  split at h
  · right
    cases hl : stringLiteral name with
    | none => simp [hl] at h
    | some lit => simp [hl] at h; exact ⟨lit, rfl, h.symm⟩
  · rename_i hn
    left
    cases h
    simp only [needsBracket, Bool.or_eq_true, Bool.not_eq_true', not_or] at hn
    exact ⟨rfl, by simpa using hn.2, by simpa using hn.1⟩

/-- **C40 the reported root type is declared.** For every schema of the modelled fragment (any title
or none, any properties) the annotation text contains the line `---@class <root>` for exactly the
reported root type name, and that name is a single name token. -/
theorem C40_root_declared (alnum alpha : Char → Bool) (priv : Bool) (s : Schema) :
    classLine priv (rootName alnum alpha s) ∈ convertLines alnum alpha priv s := by
  simp [convertLines]

/-! ## non-vacuity (tests, labelled as such) -/

def asciiAlnum (c : Char) : Bool := c.isAlphanum
def asciiAlpha (c : Char) : Bool := c.isAlpha

example : AlnumOk asciiAlnum := ⟨by decide, by decide, by decide⟩
example : typeName asciiAlnum asciiAlpha "schema.".toList "my type!".toList = "schema.my_type_".toList := by decide +kernel
example : typeName asciiAlnum asciiAlpha [] "1x".toList = "_1x".toList := by decide +kernel
example : stringLiteral "a\"b".toList = some "'a\"b'".toList := by decide +kernel
example : stringLiteral "n\nl".toList = none := by decide +kernel
example : docLines "@class Evil\n  @field x\n---@class E".toList =
    ["--- \\@class Evil".toList, "--- \\  @field x".toList, "--- \\---@class E".toList] := by decide +kernel
-- what the unescaped lines would be for the lexer: tags
example : tagStart "--- @class Evil".toList = true ∧ tagStart "--- ---@class E".toList = true ∧
    tagStart "--- -- --- @x".toList = true ∧ tagStart "--- text @class".toList = false := by decide +kernel
example : fieldKey "private".toList = some "[\"private\"]".toList := by decide +kernel
example : fieldKey "it's \"q\"".toList = none := by decide +kernel
example : typeName asciiAlnum asciiAlpha [] "fun".toList = "fun_".toList := by decide +kernel
example : commentLines "a\r\nb\rc".toList = ["a".toList, "b".toList, "c".toList] := by decide +kernel
example : (convertLines asciiAlnum asciiAlpha false
    ⟨some "my type!".toList, none, [⟨"a\"b".toList, none, true, .prim "string".toList⟩]⟩).drop 3 =
  ["---@class schema.my_type_".toList, "---@field ['a\"b'] string".toList, []] := by decide +kernel

end Emit
