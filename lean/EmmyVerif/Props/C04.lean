import EmmyVerif.Lemmas.Cache
import EmmyVerif.Lemmas.Events
/-!
# C04 — Parse results do not depend on earlier parses

`Green.Cache` models rowan's `NodeCache` (hash-consing of tokens by (kind, text) and of nodes with
at most 3 interned children by (kind, child identities)) which `Vfs` shares between all parses.
`Green.intern c e` is the replay of a finished tree `e` into `rowan::GreenNodeBuilder::with_cache`
(`LuaGreenNodeBuilder::build_rowan_green`). The syntax errors of a parse never pass through the
cache: `LuaParser::parse` collects them in a local vector (data flow, checked by the oracle).

The cache model is tied to rowan by the correspondence run of `./check C04`: histories of texts are
parsed through one real `Vfs`, and the *identity structure* (which green elements are the same
allocation, within and across trees) is compared with the model's.
-/
namespace Green

/-- **C04 invariant.** The empty cache satisfies the invariant … -/
theorem C04_inv_empty : Inv Cache.empty := inv_empty

/-- … and every build through a cache satisfying it keeps it; earlier elements are never changed
(the heap only grows). -/
theorem C04_inv_preserved (c : Cache) (e : Elem) (h : Inv c) :
    Inv (intern c e).1 ∧ ∃ ext, (intern c e).1.heap = c.heap ++ ext :=
  ⟨(intern_spec c e h).1, (intern_spec c e h).2.1⟩

/-- **C04 cached = fresh.** Building a tree through *any* cache state satisfying the invariant
(i.e. after any history of earlier parses) returns an element that denotes exactly that tree —
the same as building it through a fresh, empty cache. -/
theorem C04_cached_eq_fresh (c : Cache) (e : Elem) (h : Inv c) :
    den (intern c e).1 (intern c e).2.1 = some e ∧
    den (intern c e).1 (intern c e).2.1 = den (intern Cache.empty e).1 (intern Cache.empty e).2.1 := by
  have h1 := (intern_spec c e h).2.2
  have h2 := (intern_spec Cache.empty e inv_empty).2.2
  exact ⟨h1, by rw [h1, h2]⟩

/-- **C04 histories.** For every history of event streams parsed through one shared cache, the
tree each parse returns equals the standalone tree of its own event stream. -/
theorem C04_history (hist : List (List MEv)) :
    parseAll Cache.empty hist = hist.map build :=
  parseAll_eq Cache.empty inv_empty hist

/-- the same from any reachable cache state -/
theorem C04_history_from (c : Cache) (h : Inv c) (hist : List (List MEv)) :
    parseAll c hist = hist.map build :=
  parseAll_eq c h hist

/-! Non-vacuity (tests): the second parse shares the token `x` and the node `(o5 x)` with the
first one (same ids), and still denotes its own tree. -/
example :
    (internAll Cache.empty
      [.node .chunk [.node (.other 5) [.tok (.other 1) ['x']]],
       .node .chunk [.node (.other 5) [.tok (.other 1) ['x']], .tok .ws [' ']]]).2 = [2, 4] := by rfl

example :
    let c := (intern Cache.empty (.node .chunk [.node (.other 5) [.tok (.other 1) ['x']]])).1
    den (intern c (.node .chunk [.node (.other 5) [.tok (.other 1) ['x']], .tok .ws [' ']])).1 4
      = some (.node .chunk [.node (.other 5) [.tok (.other 1) ['x']], .tok .ws [' ']]) := by rfl

end Green
