import EmmyVerif.Model.TyRender
/-!
# Text layer of the `Ty` renderer / reader

`showType`: the characters `TypeHumanizer` writes for a syntax tree (spacing as in `humanize_type.rs`);
`lex`: the doc lexer (`Normal` state) for the token set of the sub-grammar.
-/
namespace TyM

def hexDigitU (n : Nat) : Char :=
  if n < 10 then Char.ofNat (48 + n) else Char.ofNat (55 + n)

/-- `write_hover_escape_string` -/
def escapeStr : List Char → List Char
  | [] => []
  | c :: cs =>
    (if c = '\\' then "\\\\".toList
     else if c = '"' then "\\\"".toList
     else if c = '\n' then "\\n".toList
     else if c = '\r' then "\\r".toList
     else if c = '\t' then "\\t".toList
     else if c.toNat = 27 then "\\027".toList
     else if c.toNat < 32 ∨ c.toNat = 127 ∨ (128 ≤ c.toNat ∧ c.toNat < 160) then
       '\\' :: 'x' :: hexDigitU (c.toNat / 16) :: [hexDigitU (c.toNat % 16)]
     else [c]) ++ escapeStr cs

def showInt (i : Int) : List Char := (toString i).toList

mutual
def showPrim : Prim0 → List Char
  | .name s => s
  | .str s => '"' :: (escapeStr s ++ ['"'])
  | .int i => showInt i
  | .bool b => if b then "true".toList else "false".toList
  | .paren t => '(' :: (showType t ++ [')'])
  | .generic n a as => n ++ '<' :: (showType a ++ showArgs as ++ ['>'])
  | .obj fs => "{ ".toList ++ showFields fs ++ " }".toList
def showSimple : Simple → List Char
  | .mk b k => showPrim b ++ (List.replicate k "[]".toList).flatten
def showRest : SimpleL → List Char
  | .nil => []
  | .cons s r => '|' :: (showSimple s ++ showRest r)
def showType : TypeE → List Char
  | .mk f r q => showSimple f ++ showRest r ++ List.replicate q '?'
def showArgs : TypeEL → List Char
  | .nil => []
  | .cons t r => ',' :: (showType t ++ showArgs r)
def showFields : FieldEL → List Char
  | .nil => []
  | .cons k t .nil => k ++ ": ".toList ++ showType t
  | .cons k t r => k ++ ": ".toList ++ showType t ++ ", ".toList ++ showFields r
end

/-- the rendered text -/
def renderText (t : Ty) : Option (List Char) := (renderCst t).map showType

/-! ## lexer -/

def isNameStart (c : Char) : Bool := c.isAlpha || c = '_'
def isNameCont (c : Char) : Bool := c.isAlphanum || c = '_' || c = '.'

def takeWhileC (p : Char → Bool) : List Char → List Char × List Char
  | [] => ([], [])
  | c :: cs => if p c then let r := takeWhileC p cs; (c :: r.1, r.2) else ([], c :: cs)

def digitsVal (ds : List Char) : Nat := ds.foldl (fun acc d => acc * 10 + (d.toNat - 48)) 0

def hexVal? (c : Char) : Option Nat :=
  if c.isDigit then some (c.toNat - 48)
  else if 'a' ≤ c ∧ c ≤ 'f' then some (c.toNat - 87)
  else if 'A' ≤ c ∧ c ≤ 'F' then some (c.toNat - 55)
  else none

/-- body of a double-quoted string up to the closing quote: value and the rest -/
def lexString : Nat → List Char → Option (List Char × List Char)
  | 0, _ => none
  | _ + 1, [] => none
  | _ + 1, '"' :: cs => some ([], cs)
  | f + 1, '\\' :: c :: cs =>
    let cont := fun (v : List Char) (rest : List Char) =>
      match lexString f rest with
      | some (s, r) => some (v ++ s, r)
      | none => none
    if c = 'n' then cont ['\n'] cs
    else if c = 'r' then cont ['\r'] cs
    else if c = 't' then cont ['\t'] cs
    else if c = '\\' then cont ['\\'] cs
    else if c = '"' then cont ['"'] cs
    else if c = '\'' then cont ['\''] cs
    else if c = 'x' then
      match cs with
      | a :: b :: cs' =>
        match hexVal? a, hexVal? b with
        | some x, some y => cont [Char.ofNat (x * 16 + y)] cs'
        | _, _ => none
      | _ => none
    else if c.isDigit then
      -- decimal escape, up to three digits
      let ds := (c :: cs).take 3
      let n := (takeWhileC Char.isDigit ds).1.length
      cont [Char.ofNat (digitsVal ((c :: cs).take n))] ((c :: cs).drop n)
    else none
  | f + 1, c :: cs =>
    match lexString f cs with
    | some (s, r) => some (c :: s, r)
    | none => none

def lexAux : Nat → List Char → Option (List Tok)
  | 0, _ => none
  | _ + 1, [] => some []
  | f + 1, c :: cs =>
    let one := fun (t : Tok) => (lexAux f cs).map (t :: ·)
    if c = ' ' then lexAux f cs
    else if c = '(' then one .lparen
    else if c = ')' then one .rparen
    else if c = '[' then one .lbrack
    else if c = ']' then one .rbrack
    else if c = '{' then one .lbrace
    else if c = '}' then one .rbrace
    else if c = '<' then one .lt
    else if c = '>' then one .gt
    else if c = ',' then one .comma
    else if c = ':' then one .colon
    else if c = '?' then one .quest
    else if c = '|' then one .bar
    else if c = '"' then
      match lexString (cs.length + 1) cs with
      | some (s, rest) => if rest.length < (c :: cs).length then (lexAux f rest).map (.str s :: ·) else none
      | none => none
    else if c.isDigit || (c == '-' && (match cs with | d :: _ => d.isDigit | [] => false)) then
      let body := if c = '-' then cs else c :: cs
      let r := takeWhileC Char.isDigit body
      let v : Int := if c = '-' then - (digitsVal r.1 : Int) else (digitsVal r.1 : Int)
      -- a unary minus binds weaker than a `[]` suffix: `-1[]` is outside the token model
      if c == '-' && (match r.2 with | '[' :: _ => true | _ => false) then none
      else (lexAux f r.2).map (.int v :: ·)
    else if isNameStart c then
      let r := takeWhileC isNameCont (c :: cs)
      let t : Tok := if r.1 = "true".toList then .tt else if r.1 = "false".toList then .ff else .name r.1
      (lexAux f r.2).map (t :: ·)
    else none

def lex (cs : List Char) : Option (List Tok) := lexAux (cs.length + 1) cs

/-- read an annotation type text -/
def readText (e : Env) (cs : List Char) : Option Ty :=
  match lex cs with
  | some ts => parseTy e ts
  | none => none

end TyM
