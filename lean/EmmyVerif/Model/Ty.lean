/-!
# `Ty` family — annotation type fragment and the union operations

Executable, import-free model of
* `LuaType` restricted to the fragment {basic kinds, literal constants (inferred and doc), class/alias
  references, opaque doc functions, arrays, tuples, `table<…>`, name-keyed objects, unions};
* `LuaUnionType::from_vec` / `into_vec` (Basic bit set · Nullable · Multi), seen through `into_vec`;
* `LuaType::from_vec` (flatten + first-occurrence dedupe);
* `union_type`, `union_type_impl`, `canonicalize_callable_union`, `can_use_structural_union`,
  `union_type_all` of `db_index/type/type_ops/union_type.rs`, rule for rule and in the same order;
* `get_real_type` (alias chase, depth ≤ 10).

Equality on `Ty` is structural. The Rust `PartialEq` compares `Multi` unions as sets; the harness
serialises every *nested* union with its members in a canonical order, so that structural equality on
the serialised form coincides with the Rust `==` on members.  Results are compared modulo the order of
the members of the top-level union (`UEquiv` in `Lemmas/TyUnion.lean`).
-/
namespace TyM

abbrev Name := List Char

/-- `BasicTypeKind`, in the order of the bit set (`basic_union.rs`). -/
inductive Prim
  | unknown | any | nil | table | userdata | function | thread | boolean | string | integer | number
  | io | selfInfer | global | never
deriving DecidableEq, Repr

def Prim.all : List Prim :=
  [.unknown, .any, .nil, .table, .userdata, .function, .thread, .boolean, .string, .integer, .number,
   .io, .selfInfer, .global, .never]

/-- literal constants: `BooleanConst`, `StringConst`, `IntegerConst`, `FloatConst` (bit pattern),
`DocStringConst`, `DocIntegerConst`, `DocBooleanConst` -/
inductive Lit
  | boolC (b : Bool) | strC (s : Name) | intC (i : Int) | floatC (bits : Nat)
  | docStr (s : Name) | docInt (i : Int) | docBool (b : Bool)
deriving DecidableEq, Repr

mutual
inductive Ty where
  | prim (k : Prim)
  | lit (c : Lit)
  | ref (n : Name)
  /-- `DocFunction`, opaque: identified by its canonical rendering -/
  | func (sig : Name)
  | array (t : Ty)
  | tuple (ts : TyL)
  /-- `TableGeneric(params)` -/
  | tgen (ts : TyL)
  /-- `Object` with name keys only (sorted by key by the serialiser) -/
  | object (fs : FdL)
  /-- `Union`, seen through `into_vec` -/
  | union (ms : TyL)
inductive TyL where
  | nil | cons (t : Ty) (ts : TyL)
inductive FdL where
  | nil | cons (k : Name) (t : Ty) (fs : FdL)
end
deriving instance DecidableEq for Ty, TyL, FdL
deriving instance Repr for Ty, TyL, FdL

def TyL.toList : TyL → List Ty
  | .nil => []
  | .cons t ts => t :: ts.toList

def TyL.ofList : List Ty → TyL
  | [] => .nil
  | t :: ts => .cons t (TyL.ofList ts)

def FdL.toList : FdL → List (Name × Ty)
  | .nil => []
  | .cons k t fs => (k, t) :: fs.toList

def FdL.ofList : List (Name × Ty) → FdL
  | [] => .nil
  | (k, t) :: fs => .cons k t (FdL.ofList fs)

@[simp] theorem TyL.toList_ofList (l : List Ty) : (TyL.ofList l).toList = l := by
  induction l with
  | nil => rfl
  | cons t ts ih => simp [TyL.ofList, TyL.toList, ih]

@[simp] theorem TyL.ofList_toList : (l : TyL) → TyL.ofList l.toList = l
  | .nil => rfl
  | .cons t ts => by simp [TyL.ofList, TyL.toList, TyL.ofList_toList ts]

@[simp] theorem FdL.toList_ofList (l : List (Name × Ty)) : (FdL.ofList l).toList = l := by
  induction l with
  | nil => rfl
  | cons t ts ih => obtain ⟨k, t⟩ := t; simp [FdL.ofList, FdL.toList, ih]

namespace Ty

abbrev tAny : Ty := .prim .any
abbrev tNil : Ty := .prim .nil
abbrev tNever : Ty := .prim .never
abbrev tUnknown : Ty := .prim .unknown

/-- union from its member list -/
abbrev mk (ms : List Ty) : Ty := .union (TyL.ofList ms)

def isUnion : Ty → Bool
  | .union _ => true
  | _ => false

def isPrim : Ty → Bool
  | .prim _ => true
  | _ => false

def isRef : Ty → Bool
  | .ref _ => true
  | _ => false

/-- `DocFunction(_) | Signature(_)` (only the former is in the fragment) -/
def isFuncConst : Ty → Bool
  | .func _ => true
  | _ => false

/-- `IntegerConst(_) | DocIntegerConst(_)` -/
def isIntConst : Ty → Bool
  | .lit (.intC _) | .lit (.docInt _) => true
  | _ => false

/-- `StringConst(_) | DocStringConst(_)` -/
def isStrConst : Ty → Bool
  | .lit (.strC _) | .lit (.docStr _) => true
  | _ => false

/-- `LuaType::is_number` -/
def isNumber : Ty → Bool
  | .prim .number | .prim .integer | .lit (.intC _) | .lit (.docInt _) | .lit (.floatC _) => true
  | _ => false

/-- `LuaType::is_boolean` -/
def isBoolean : Ty → Bool
  | .prim .boolean | .lit (.boolC _) | .lit (.docBool _) => true
  | _ => false

/-- `LuaType::is_integer` -/
def isInteger : Ty → Bool
  | .prim .integer | .lit (.intC _) | .lit (.docInt _) => true
  | _ => false

/-- `LuaType::is_string` (without `Language`) -/
def isString : Ty → Bool
  | .prim .string | .lit (.strC _) | .lit (.docStr _) => true
  | _ => false

/-- `BooleanConst(b) | DocBooleanConst(b)` -/
def boolConst? : Ty → Option Bool
  | .lit (.boolC b) | .lit (.docBool b) => some b
  | _ => none

/-- `into_vec` of a union, `[]` otherwise -/
def unionMembers : Ty → List Ty
  | .union ms => ms.toList
  | _ => []

end Ty

open Ty

/-! ## `LuaUnionType::from_vec` seen through `into_vec` -/

/-- `LuaUnionType::from_vec(types).into_vec()`:
all basic → the bit set in kind order; two members one of which is `nil` → `Nullable(t)` = `[t, nil]`;
otherwise the vector itself. -/
def mkUnionVec (ts : List Ty) : List Ty :=
  if ts.all Ty.isPrim then
    (Prim.all.filter fun k => ts.contains (.prim k)).map Ty.prim
  else if ts.length = 2 ∧ ts.contains tNil then
    match ts.find? (fun t => t ≠ tNil) with
    | some t => [t, tNil]
    | none => ts
  else ts

/-- first-occurrence dedupe (the `HashSet` loop of `LuaType::from_vec`) -/
def dedupInto (acc : List Ty) : List Ty → List Ty
  | [] => acc
  | t :: ts => if t ∈ acc then dedupInto acc ts else dedupInto (acc ++ [t]) ts

def dedup (ts : List Ty) : List Ty := dedupInto [] ts

/-- one level of flattening: union members are spliced in -/
def flatten1 : List Ty → List Ty
  | [] => []
  | .union ms :: ts => ms.toList ++ flatten1 ts
  | t :: ts => t :: flatten1 ts

/-- the tail of `LuaType::from_vec`: 0 → `nil`, 1 → the member, otherwise a union -/
def shapeOf : List Ty → Ty
  | [] => tNil
  | [t] => t
  | r => Ty.mk (mkUnionVec r)

/-- `LuaType::from_vec` -/
def fromVec (ts : List Ty) : Ty :=
  match ts with
  | [] => tNil
  | [t] => t
  | _ => shapeOf (dedup (flatten1 ts))

/-! ## Declarations -/

inductive DeclKind
  | cls
  | alias (origin : Option Ty)
  | enum
deriving DecidableEq, Repr

structure Decl where
  name : Name
  kind : DeclKind
  /-- super types (`---@class A: B, C`), names of `Ref`s only in the fragment -/
  supers : List Name
deriving DecidableEq, Repr

structure Env where
  decls : List Decl
  /-- `strict.array_index` -/
  arrayIndex : Bool := true
  /-- `strict.doc_base_const_match_base_type` -/
  docBaseConst : Bool := true
deriving Repr

def Env.find (e : Env) (n : Name) : Option Decl := e.decls.find? (fun d => d.name = n)

/-- `get_real_type_with_depth`: chase alias references, at most 10 deep. `none` = declaration or alias
origin missing. -/
def getRealTypeD (e : Env) : Nat → Ty → Option Ty
  | 0, t => some t
  | fuel + 1, .ref n =>
    match e.find n with
    | none => none
    | some d =>
      match d.kind with
      | .alias (some o) => getRealTypeD e fuel o
      | .alias none => none
      | _ => some (.ref n)
  | _ + 1, t => some t

def getRealType (e : Env) (t : Ty) : Option Ty := getRealTypeD e 10 t

/-! ## `union_type_impl` -/

/-- the rules of `union_type_impl` that precede the reference / union / same-type rules, in order.
`none` = no such rule applies. `m` is `match_source`, `s` the source, `t` the target. -/
def unionSpecial (m s t : Ty) : Option Ty :=
  if m = tAny then some tAny
  else if t = tAny then some tAny
  else if m = tNever then some t
  else if t = tNever then some s
  else if m = .prim .integer ∧ t.isIntConst then some (.prim .integer)
  else if m.isIntConst ∧ t = .prim .integer then some (.prim .integer)
  else if m = .prim .number ∧ t.isNumber then some (.prim .number)
  else if m.isNumber ∧ t = .prim .number then some (.prim .number)
  else if m = .prim .string ∧ t.isStrConst then some (.prim .string)
  else if m.isStrConst ∧ t = .prim .string then some (.prim .string)
  else if m = .prim .boolean ∧ t.isBoolean then some (.prim .boolean)
  else if m.isBoolean ∧ t = .prim .boolean then some (.prim .boolean)
  else
    match m.boolConst?, t.boolConst? with
    | some l, some r => if l = r then some s else some (.prim .boolean)
    | _, _ =>
      -- (`Table`, `TableConst`) rules: no `TableConst` in the fragment
      if m = .prim .function ∧ t.isFuncConst then some (.prim .function)
      else if m.isFuncConst ∧ t = .prim .function then some (.prim .function)
      else none

/-- `LuaUnionType == LuaUnionType` on `into_vec` views (set comparison of equally long vectors) -/
def unionVecEq (l r : List Ty) : Bool :=
  l.length = r.length ∧ l.all (fun x => r.contains x) ∧ r.all (fun x => l.contains x)

/-- the reference / union / same-type rules -/
def unionGeneric (m s t : Ty) : Ty :=
  match m, t with
  | .ref a, .ref b => if a = b then s else fromVec [s, t]
  | .union l, .union r =>
    if unionVecEq l.toList r.toList then s else fromVec (l.toList ++ r.toList)
  | .union l, _ =>
    if l.toList.contains t then s else Ty.mk (mkUnionVec (l.toList ++ [t]))
  | _, .union r =>
    if r.toList.contains m then t else Ty.mk (mkUnionVec (r.toList ++ [s]))
  | _, _ => if m = t then s else fromVec [s, t]

def unionImpl (m s t : Ty) : Ty :=
  match unionSpecial m s t with
  | some r => r
  | none => unionGeneric m s t

/-- `canonicalize_callable_union`: inside the fragment (`DocFunction`s compare structurally, no
`Signature`) both branches rebuild the union from its (already distinct) members. -/
def canonicalize (t : Ty) : Ty :=
  match t with
  | .union ms => fromVec ms.toList
  | t => t

/-- `union_type` -/
def union (e : Env) (s t : Ty) : Ty :=
  let m := (getRealType e s).getD s
  canonicalize (unionImpl m s t)

/-! ## `can_use_structural_union` -/

structure Flags where
  hasNumber : Bool := false
  hasNumberVariant : Bool := false
  hasInteger : Bool := false
  hasIntegerConst : Bool := false
  hasString : Bool := false
  hasStringConst : Bool := false
  hasBoolean : Bool := false
  boolConstCount : Nat := 0
  -- `has_table` / `has_table_const`: no `TableConst` in the fragment, the pair can never be violated
deriving DecidableEq, Repr

/-- members that force the pairwise path: `Union | Ref | MultiLineUnion | DocFunction | Signature` -/
def needsSemantic : Ty → Bool
  | .union _ | .ref _ | .func _ => true
  | _ => false

def Flags.add (f : Flags) : Ty → Flags
  | .prim .number => { f with hasNumber := true }
  | .prim .integer => { f with hasNumberVariant := true, hasInteger := true }
  | .lit (.intC _) => { f with hasNumberVariant := true, hasIntegerConst := true }
  | .lit (.floatC _) => { f with hasNumberVariant := true }
  | .lit (.docInt _) => { f with hasNumberVariant := true, hasIntegerConst := true }
  | .prim .string => { f with hasString := true }
  | .lit (.strC _) | .lit (.docStr _) => { f with hasStringConst := true }
  | .prim .boolean => { f with hasBoolean := true }
  | .lit (.boolC _) | .lit (.docBool _) => { f with boolConstCount := f.boolConstCount + 1 }
  | _ => f

def Flags.violated (f : Flags) : Bool :=
  (f.hasNumber && f.hasNumberVariant) || (f.hasInteger && f.hasIntegerConst)
    || (f.hasString && f.hasStringConst) || (f.hasBoolean && decide (f.boolConstCount > 0))
    || decide (f.boolConstCount > 1)

def canUseLoop (f : Flags) : List Ty → Bool
  | [] => true
  | t :: ts =>
    if needsSemantic t then false
    else
      let f' := f.add t
      if f'.violated then false else canUseLoop f' ts

def canUseStructural (ts : List Ty) : Bool := canUseLoop {} ts

/-! ## `union_type_all` -/

/-- the first loop of `union_type_all`: drop `never`, stop at `any` (`none`) -/
def collect : List Ty → Option (List Ty)
  | [] => some []
  | t :: ts =>
    if t = tNever then collect ts
    else if t = tAny then none
    else (collect ts).map (t :: ·)

def foldUnion (e : Env) (acc : Ty) (ts : List Ty) : Ty := ts.foldl (union e) acc

def unionAll (e : Env) (ts : List Ty) : Ty :=
  match collect ts with
  | none => tAny
  | some [] => tNever
  | some rs => if canUseStructural rs then fromVec rs else foldUnion e tNever rs

end TyM
