/-!
# `NumLex` — model of `LuaLexer::lex_number` (lexer/lua_lexer.rs) and the manual's numeral grammar

`lexNumber cfg text` is the number token the lexer produces at the start of `text` (which must begin with a
digit, or with `.` followed by a digit — the only ways `lex` calls `lex_number`): its kind, its length in
chars and whether an error was pushed. `cfg` are the four feature flags the function consults.
Abstraction: `char::is_alphabetic` is modelled by ASCII letters (the tie feeds ASCII after the numeral).
-/
namespace NumLex

structure Cfg where
  bin : Bool    -- LuaFeatures::BinaryInteger
  us : Bool     -- LuaFeatures::UnderscoreNumber
  cplx : Bool   -- LuaFeatures::ComplexNumber
  ll : Bool     -- LuaFeatures::LLInteger
  deriving DecidableEq, Repr

/-- every PUC-Rio level (5.1 – 5.5) -/
def std : Cfg := ⟨false, false, false, false⟩

inductive St | int | float | hex | hexFloat | expoSign | expo | bin
  deriving DecidableEq, Repr

inductive Kind | TkInt | TkFloat | TkComplex
  deriving DecidableEq, Repr

structure Out where
  kind : Kind
  len : Nat
  err : Bool
  deriving DecidableEq, Repr

def isDigit (c : Char) : Bool := '0' ≤ c && c ≤ '9'
def isHexDigit (c : Char) : Bool := isDigit c || ('a' ≤ c && c ≤ 'f') || ('A' ≤ c && c ≤ 'F')
def isAlpha (c : Char) : Bool := ('a' ≤ c && c ≤ 'z') || ('A' ≤ c && c ≤ 'Z')
def isSign (c : Char) : Bool := c == '+' || c == '-'

/-- one iteration of the main `while` loop in state `st` on the current char: the next state, or `none`
when the loop breaks. `expoSign` is the point right after the exponent letter, where one `+`/`-` may be
consumed (the real code looks one char ahead before bumping the letter). -/
def step (cfg : Cfg) (st : St) (c : Char) : Option St :=
  match st with
  | .expoSign =>
    if isSign c then some .expo
    else if cfg.us && c == '_' then some .expo
    else if isDigit c then some .expo
    else none
  | .int =>
    if cfg.us && c == '_' then some .int
    else if isDigit c then some .int
    else if c == '.' then some .float
    else if c == 'e' || c == 'E' then some .expoSign
    else none
  | .float =>
    if cfg.us && c == '_' then some .float
    else if isDigit c then some .float
    else if c == 'e' || c == 'E' then some .expoSign
    else none
  | .hex =>
    if cfg.us && c == '_' then some .hex
    else if isHexDigit c then some .hex
    else if c == '.' then some .hexFloat
    else if c == 'p' || c == 'P' then some .expoSign
    else none
  | .hexFloat =>
    if cfg.us && c == '_' then some .hexFloat
    else if isHexDigit c then some .hexFloat
    else if c == 'p' || c == 'P' then some .expoSign
    else none
  | .expo =>
    if cfg.us && c == '_' then some .expo
    else if isDigit c then some .expo
    else none
  | .bin =>
    if cfg.us && c == '_' then some .bin
    else if c == '0' || c == '1' then some .bin
    else none

/-- the digit counters of the loop, as flags: a hexadecimal digit was seen in a hexadecimal mantissa
(`mantissa_digits > 0`), a digit was seen in the exponent (`exponent_digits > 0`) -/
structure Flags where
  mant : Bool
  exp : Bool
  deriving DecidableEq, Repr

/-- the counter updates of one loop iteration (the `_` skip of the underscore feature counts nothing) -/
def mark (cfg : Cfg) (st : St) (c : Char) (f : Flags) : Flags :=
  if cfg.us && c == '_' then f else
  match st with
  | .hex | .hexFloat => if isHexDigit c then { f with mant := true } else f
  | .expo => if isDigit c then { f with exp := true } else f
  | .expoSign => if !isSign c && isDigit c then { f with exp := true } else f
  | _ => f

/-- the state the loop is left in (`expoSign` is only a position inside `WithExpo`) -/
def settle : St → St
  | .expoSign => .expo
  | st => st

/-- the main `while` loop: state, remaining text, chars consumed so far, counters ↦ final state, consumed,
rest, counters -/
def scan (cfg : Cfg) : St → List Char → Nat → Flags → St × Nat × List Char × Flags
  | st, [], n, f => (settle st, n, [], f)
  | st, c :: rest, n, f =>
    match step cfg st c with
    | some st' => scan cfg st' rest (n + 1) (mark cfg st c f)
    | none => (settle st, n, c :: rest, f)

/-- the `'0' => loop { … }` prefix: `0x`, `0b` (feature), skipping `_` (feature) -/
def zeroPrefix (cfg : Cfg) : List Char → Nat → St × Nat × List Char
  | [], n => (.int, n, [])
  | c :: rest, n =>
    if c == 'x' || c == 'X' then (.hex, n + 1, rest)
    else if cfg.bin && (c == 'b' || c == 'B') then (.bin, n + 1, rest)
    else if cfg.us && c == '_' then zeroPrefix cfg rest (n + 1)
    else (.int, n, c :: rest)

def takeWhileCount (p : Char → Bool) : List Char → Nat
  | [] => 0
  | c :: rest => if p c then takeWhileCount p rest + 1 else 0

/-- the "malformed number" test after the loop: a hexadecimal numeral without any hexadecimal digit, or an
exponent without any digit -/
def malformed (isHex : Bool) (st : St) (f : Flags) : Bool :=
  (isHex && !f.mant) || (decide (st = .expo) && !f.exp)

/-- the tail of `lex_number` after the main loop; `mal` = the malformed-number error was pushed -/
def finish (cfg : Cfg) (st : St) (n : Nat) (rest : List Char) (mal : Bool) : Out :=
  let cur := rest.head?
  if cfg.cplx && (cur == some 'i' || cur == some 'I') then ⟨.TkComplex, n + 1, mal⟩
  else if cfg.ll && (st = .int || st = .hex || st = .bin) then
    ⟨.TkInt, n + takeWhileCount (fun c => c == 'u' || c == 'U' || c == 'l' || c == 'L') rest, mal⟩
  else
    let err := match cur with | some c => isAlpha c | none => false
    ⟨if st = .int || st = .hex then .TkInt else .TkFloat, n, mal || err⟩

def lexNumber (cfg : Cfg) : List Char → Option Out
  | [] => none
  | first :: rest =>
    let (st, n, rest') :=
      if first == '0' then zeroPrefix cfg rest 1
      else if first == '.' then (.float, 1, rest)
      else (.int, 1, rest)
    let (st', n', rest'', f) := scan cfg st rest' n ⟨false, false⟩
    some (finish cfg st' n' rest'' (malformed (decide (st = .hex)) st' f))

/-! ## The manual's numeral grammar (§3.1), as data

decimal:  D+ | D+ '.' D* | '.' D+      optionally followed by  [eE] [+-]? D+
hex:      0[xX] ( H+ | H+ '.' H* | '.' H+ )   optionally followed by  [pP] [+-]? D+
A numeral is a float iff it has a radix point or an exponent. -/

structure Exponent where
  letter : Char
  sign : Option Char
  digits : List Char

structure Numeral where
  hex : Option Char             -- `some 'x'` / `some 'X'` for 0x / 0X
  intPart : List Char
  frac : Option (List Char)     -- digits after the radix point, if there is one
  expo : Option Exponent

def signChars : Option Char → List Char
  | some s => [s]
  | none => []

def signOk : Option Char → Bool
  | some s => isSign s
  | none => true

def Exponent.render (e : Exponent) : List Char := e.letter :: (signChars e.sign ++ e.digits)

def fracChars : Option (List Char) → List Char
  | some f => '.' :: f
  | none => []

def expoChars : Option Exponent → List Char
  | some e => e.render
  | none => []

def hexChars : Option Char → List Char
  | some x => ['0', x]
  | none => []

def Numeral.render (n : Numeral) : List Char :=
  hexChars n.hex ++ n.intPart ++ fracChars n.frac ++ expoChars n.expo

def isExpoLetter (hex : Bool) (c : Char) : Bool :=
  if hex then c == 'p' || c == 'P' else c == 'e' || c == 'E'

def Exponent.wf (hex : Bool) (e : Exponent) : Bool :=
  isExpoLetter hex e.letter && signOk e.sign && !e.digits.isEmpty && e.digits.all isDigit

def expoWf (hex : Bool) : Option Exponent → Bool
  | some e => e.wf hex
  | none => true

def fracAll (p : Char → Bool) : Option (List Char) → Bool
  | some f => f.all p
  | none => true

def hexOk : Option Char → Bool
  | some x => x == 'x' || x == 'X'
  | none => true

/-- at least one digit in the mantissa -/
def hasDigit (ip : List Char) : Option (List Char) → Bool
  | some f => !ip.isEmpty || !f.isEmpty
  | none => !ip.isEmpty

def Numeral.wf (n : Numeral) : Bool :=
  let d := if n.hex.isSome then isHexDigit else isDigit
  hexOk n.hex && n.intPart.all d && fracAll d n.frac && hasDigit n.intPart n.frac && expoWf n.hex.isSome n.expo

def Numeral.isFloat (n : Numeral) : Bool := n.frac.isSome || n.expo.isSome

/-- what may follow a numeral without continuing it: end of input or a char that is neither alphanumeric,
`.` nor `_` -/
def stops : List Char → Bool
  | [] => true
  | c :: _ => !(isDigit c || isAlpha c || c == '.' || c == '_')

end NumLex
