/-!
# AutoTrait — executable model of Rust's auto-trait derivation for `Send` / `Sync`

A type definition (struct / enum / alias) is `Send` (`Sync`) iff all its field types are — *structurally*,
never through a manual `unsafe impl`. Field types are terms over the defined types (`app`), the type
parameters of the enclosing definition (`param`), leaves of std / third-party crates with a fixed verdict
(`leaf`) and the std containers with their rules:

* `both`   — owning containers, tuples, arrays, `Box`, `Option`, `PhantomData`: `Send` iff all arguments
             are `Send`, `Sync` iff all arguments are `Sync`
* `ref`    — `&T`: `Send` iff `T: Sync`, `Sync` iff `T: Sync`
* `arc`    — `Arc<T>`: `Send`/`Sync` iff `T: Send + Sync`
* `mutex`  — `Mutex<T>`: `Send` iff `T: Send`, `Sync` iff `T: Send`
* `rwlock` — `RwLock<T>`/`OnceLock<T>`: `Send` iff `T: Send`, `Sync` iff `T: Send + Sync`
* `cell`   — `Cell`/`RefCell`/`UnsafeCell`: `Send` iff `T: Send`, never `Sync`

Recursive types are handled the way rustc does (coinductively): the derivation is the *greatest*
assignment consistent with the rules, computed by iteration from "everything holds". Import-free.
-/
namespace AutoTrait

mutual
inductive T where
  | leaf (send sync : Bool)
  | param (i : Nat)
  | app (node : Nat) (args : TL)
  | both (args : TL)
  | ref (args : TL)
  | arc (args : TL)
  | mutex (args : TL)
  | rwlock (args : TL)
  | cell (args : TL)
inductive TL where
  | nil
  | cons (t : T) (ts : TL)
end

def TL.ofList : List T → TL
  | [] => .nil
  | t :: ts => .cons t (TL.ofList ts)

/-- short name used by the generated graph -/
abbrev L := TL.ofList

/-- the fields of every defined type, indexed by node id -/
abbrev Graph := List (List T)

/-- an assignment: for each node (send, sync) -/
abbrev Assign := List (Bool × Bool)

def Assign.get (A : Assign) (i : Nat) : Bool × Bool := A.getD i (false, false)

mutual
/-- (Send, Sync) of a field type under assignment `A`. A generic definition applied to arguments is
thread safe if the definition is (with its parameters assumed `Send + Sync`) and every argument is both
`Send` and `Sync` (conservative). -/
def evalT (A : Assign) : T → Bool × Bool
  | .leaf s y => (s, y)
  | .param _ => (true, true)
  | .app n args =>
    let r := A.get n
    let a := evalTL A args
    (r.1 && a.1 && a.2, r.2 && a.1 && a.2)
  | .both args => evalTL A args
  | .ref args => let a := evalTL A args; (a.2, a.2)
  | .arc args => let a := evalTL A args; (a.1 && a.2, a.1 && a.2)
  | .mutex args => let a := evalTL A args; (a.1, a.1)
  | .rwlock args => let a := evalTL A args; (a.1, a.1 && a.2)
  | .cell args => let a := evalTL A args; (a.1, false)
def evalTL (A : Assign) : TL → Bool × Bool
  | .nil => (true, true)
  | .cons t ts =>
    let x := evalT A t
    let y := evalTL A ts
    (x.1 && y.1, x.2 && y.2)
end

/-- struct/enum rule: all fields -/
def evalFields (A : Assign) : List T → Bool × Bool
  | [] => (true, true)
  | t :: ts =>
    let x := evalT A t
    let y := evalFields A ts
    (x.1 && y.1, x.2 && y.2)

/-- one round of the derivation rules -/
def step (G : Graph) (A : Assign) : Assign := G.map (evalFields A)

def top (G : Graph) : Assign := G.map (fun _ => (true, true))

def iter (G : Graph) : Nat → Assign
  | 0 => top G
  | k + 1 => step G (iter G k)

/-- the derivation: iterate from "everything holds"; `2·|G|+1` rounds suffice (each round that is not yet
a fixpoint clears at least one of the `2·|G|` bits) — that a fixpoint is reached is checked on the instance -/
def solve (G : Graph) : Assign := iter G (2 * G.length + 1)

/-- pointwise order on assignments of the same length -/
def le (A B : Assign) : Bool :=
  A.length == B.length && (List.zip A B).all (fun p => (!p.1.1 || p.2.1) && (!p.1.2 || p.2.2))

/-- `A` is consistent with the rules: whatever it claims is justified by the fields under `A` itself
(the coinductive reading of "derivable") -/
def consistent (G : Graph) (A : Assign) : Bool := le A (step G A)

end AutoTrait
