import EmmyVerif.Model.Scope
/-!
# Scope family — references and rename of a local declaration

Model of `rename_decl_references` (`emmylua_ls/src/handlers/rename/rename_decl.rs`) and of
`search_decl_references` for a local declaration (`handlers/references/reference_searcher.rs`): both
read the cells the decl analysis recorded in the reference index for the declaration
(`FileReference::add_decl_reference`: one cell per name token, the first record for a token wins)
and add the declaration's own name token.

The reference index of a file is determined by the resolution list of the walk: the cells of the
declaration at position `d` are the name uses recorded with `some d`.

`substBlock` applies a set of single-token edits to a program (token positions as in `Model/Scope`).
-/
namespace Scope

/-- `DeclReference.cells` of the declaration at `d`: the uses recorded for it, in recording order -/
def cellsOf (res : List Res) (d : Nat) : List Nat :=
  (res.filter fun r => r.2 = some d).map (·.1)

/-- what a name token stands for: a use token resolves through the reference index, any other
position is taken as a declaration token -/
def targetOf (res : List Res) (tok : Nat) : Option Nat :=
  match res.find? (fun r => r.1 = tok) with
  | some r => r.2          -- a use: its local declaration, or none (global)
  | none => some tok       -- a declaration token

/-- `references` with `include_declaration` on the local declaration at `d` -/
def referencesOf (res : List Res) (d : Nat) : List Nat := d :: cellsOf res d

/-- the token positions `rename` edits for the local declaration at `d` -/
def renameEdits (res : List Res) (d : Nat) : List Nat := d :: cellsOf res d


/-! ## Applying single-token edits -/

/-- the name written at a token after the edits -/
def substName (edits : List Nat) (new : Name) (pos : Nat) (n : Name) : Name :=
  if edits.contains pos then new else n

def substNames (edits : List Nat) (new : Name) : Nat → List Name → List Name
  | _, [] => []
  | pos, n :: ns => substName edits new pos n :: substNames edits new (pos + 2) ns

mutual
/-- number of tokens (commas not counted) -/
def sizeExpr : Expr → Nat
  | .name _ => 1
  | .lit => 1
  | .call _ args => 3 + sizeExprs args
  | .func ps body => 4 + ps.length + sizeBlock body
def sizeExprs : List Expr → Nat
  | [] => 0
  | e :: es => sizeExpr e + sizeExprs es
def sizeStat : Stat → Nat
  | .locl names vals => 1 + names.length + eqTokens vals + sizeExprs vals
  | .assign vars vals => vars.length + 1 + sizeExprs vals
  | .localFunc _ ps body => 6 + ps.length + sizeBlock body
  | .funcStat _ ps body => 5 + ps.length + sizeBlock body
  | .forNum _ e1 e2 body => 5 + sizeExpr e1 + sizeExpr e2 + sizeBlock body
  | .forIn vs e body => 4 + vs.length + sizeExpr e + sizeBlock body
  | .while_ c body => 3 + sizeExpr c + sizeBlock body
  | .repeat_ body c => 2 + sizeBlock body + sizeExpr c
  | .do_ body => 2 + sizeBlock body
  | .if_ c t e => 4 + sizeExpr c + sizeBlock t + sizeBlock e
  | .callS _ args => 3 + sizeExprs args
  | .loclAttr _ val => 6 + sizeExpr val
  | .method _ k _ ps body => 5 + 2 * k + ps.length + sizeBlock body
def sizeBlock : List Stat → Nat
  | [] => 0
  | st :: rest => sizeStat st + sizeBlock rest
end

mutual
/-- `d` is the position of an implicit `self` declaration (the `:` of a method definition) -/
def selfDeclAtExpr (d : Nat) (pos : Nat) : Expr → Bool
  | .name _ => false
  | .lit => false
  | .call _ args => selfDeclAtExprs d (pos + 4) args
  | .func ps body => selfDeclAtBlock d (pos + 2 * (3 + ps.length)) body
def selfDeclAtExprs (d : Nat) (pos : Nat) : List Expr → Bool
  | [] => false
  | e :: es => selfDeclAtExpr d pos e || selfDeclAtExprs d (pos + 2 * sizeExpr e) es
def selfDeclAtStat (d : Nat) (pos : Nat) : Stat → Bool
  | .locl names vals => selfDeclAtExprs d (pos + 2 * (1 + names.length + eqTokens vals)) vals
  | .assign vars vals => selfDeclAtExprs d (pos + 2 * (vars.length + 1)) vals
  | .localFunc _ ps body => selfDeclAtBlock d (pos + 2 * (5 + ps.length)) body
  | .funcStat _ ps body => selfDeclAtBlock d (pos + 2 * (4 + ps.length)) body
  | .forNum _ e1 e2 body =>
    selfDeclAtExpr d (pos + 6) e1 || selfDeclAtExpr d (pos + 6 + 2 * sizeExpr e1) e2 ||
      selfDeclAtBlock d (pos + 8 + 2 * sizeExpr e1 + 2 * sizeExpr e2) body
  | .forIn vs e body =>
    selfDeclAtExpr d (pos + 2 * (2 + vs.length)) e || selfDeclAtBlock d (pos + 2 * (3 + vs.length) + 2 * sizeExpr e) body
  | .while_ c body => selfDeclAtExpr d (pos + 2) c || selfDeclAtBlock d (pos + 4 + 2 * sizeExpr c) body
  | .repeat_ body c => selfDeclAtBlock d (pos + 2) body || selfDeclAtExpr d (pos + 4 + 2 * sizeBlock body) c
  | .do_ body => selfDeclAtBlock d (pos + 2) body
  | .if_ c t e =>
    selfDeclAtExpr d (pos + 2) c || selfDeclAtBlock d (pos + 4 + 2 * sizeExpr c) t ||
      selfDeclAtBlock d (pos + 6 + 2 * sizeExpr c + 2 * sizeBlock t) e
  | .callS _ args => selfDeclAtExprs d (pos + 4) args
  | .loclAttr _ val => selfDeclAtExpr d (pos + 12) val
  | .method _ k colon ps body =>
    (colon && decide (pos + 4 * k = d)) || selfDeclAtBlock d (pos + 2 * (4 + 2 * k + ps.length)) body
def selfDeclAtBlock (d : Nat) (pos : Nat) : List Stat → Bool
  | [] => false
  | st :: rest => selfDeclAtStat d pos st || selfDeclAtBlock d (pos + 2 * sizeStat st) rest
end

mutual
/-- the expression starting at position `pos`, with every name token at an edited position replaced -/
def substExpr (edits : List Nat) (new : Name) (pos : Nat) : Expr → Expr
  | .name n => .name (substName edits new pos n)
  | .lit => .lit
  | .call f args => .call (substName edits new pos f) (substExprs edits new (pos + 4) args)
  | .func ps body =>
    .func (substNames edits new (pos + 4) ps) (substBlock edits new (pos + 2 * (3 + ps.length)) body)
def substExprs (edits : List Nat) (new : Name) (pos : Nat) : List Expr → List Expr
  | [] => []
  | e :: es => substExpr edits new pos e :: substExprs edits new (pos + 2 * sizeExpr e) es
def substStat (edits : List Nat) (new : Name) (pos : Nat) : Stat → Stat
  | .locl names vals =>
    .locl (substNames edits new (pos + 2) names)
      (substExprs edits new (pos + 2 * (1 + names.length + eqTokens vals)) vals)
  | .assign vars vals =>
    .assign (substNames edits new pos vars) (substExprs edits new (pos + 2 * (vars.length + 1)) vals)
  | .localFunc n ps body =>
    .localFunc (substName edits new (pos + 4) n) (substNames edits new (pos + 8) ps)
      (substBlock edits new (pos + 2 * (5 + ps.length)) body)
  | .funcStat n ps body =>
    .funcStat (substName edits new (pos + 2) n) (substNames edits new (pos + 6) ps)
      (substBlock edits new (pos + 2 * (4 + ps.length)) body)
  | .forNum v e1 e2 body =>
    .forNum (substName edits new (pos + 2) v) (substExpr edits new (pos + 6) e1)
      (substExpr edits new (pos + 6 + 2 * sizeExpr e1) e2)
      (substBlock edits new (pos + 8 + 2 * sizeExpr e1 + 2 * sizeExpr e2) body)
  | .forIn vs e body =>
    .forIn (substNames edits new (pos + 2) vs) (substExpr edits new (pos + 2 * (2 + vs.length)) e)
      (substBlock edits new (pos + 2 * (3 + vs.length) + 2 * sizeExpr e) body)
  | .while_ c body =>
    .while_ (substExpr edits new (pos + 2) c) (substBlock edits new (pos + 4 + 2 * sizeExpr c) body)
  | .repeat_ body c =>
    .repeat_ (substBlock edits new (pos + 2) body) (substExpr edits new (pos + 4 + 2 * sizeBlock body) c)
  | .do_ body => .do_ (substBlock edits new (pos + 2) body)
  | .if_ c t e =>
    .if_ (substExpr edits new (pos + 2) c) (substBlock edits new (pos + 4 + 2 * sizeExpr c) t)
      (substBlock edits new (pos + 6 + 2 * sizeExpr c + 2 * sizeBlock t) e)
  | .callS f args => .callS (substName edits new pos f) (substExprs edits new (pos + 4) args)
  | .loclAttr n val => .loclAttr (substName edits new (pos + 2) n) (substExpr edits new (pos + 12) val)
  | .method obj k colon ps body =>
    .method (substName edits new (pos + 2) obj) k colon (substNames edits new (pos + 6 + 4 * k) ps)
      (substBlock edits new (pos + 2 * (4 + 2 * k + ps.length)) body)
def substBlock (edits : List Nat) (new : Name) (pos : Nat) : List Stat → List Stat
  | [] => []
  | st :: rest => substStat edits new pos st :: substBlock edits new (pos + 2 * sizeStat st) rest
end

/-! ## Renaming through the environment (α-renaming)

`alphaBlock d new` rewrites the declaration token at position `d` and every use that the
*environment* binds to it. It is the semantic description of "rename the declaration at `d`";
`substBlock (renameEdits …)` is the description by edit positions. -/

/-- a name use under environment `env` -/
def alphaUse (d : Nat) (new : Name) (env : Env) (n : Name) : Name :=
  if lookupEnv env n = some d then new else n

/-- declaration tokens at consecutive positions -/
def alphaBinders (d : Nat) (new : Name) : Nat → List Name → List Name
  | _, [] => []
  | pos, n :: ns => (if pos = d then new else n) :: alphaBinders d new (pos + 2) ns

mutual
def alphaExpr (d : Nat) (new : Name) (env : Env) (pos : Nat) : Expr → Expr
  | .name n => .name (alphaUse d new env n)
  | .lit => .lit
  | .call f args => .call (alphaUse d new env f) (alphaExprs d new env (pos + 4) args)
  | .func ps body =>
    .func (alphaBinders d new (pos + 4) ps)
      (alphaBlock d new (bindNames env (pos + 4) ps) (pos + 2 * (3 + ps.length)) body).1
def alphaExprs (d : Nat) (new : Name) (env : Env) (pos : Nat) : List Expr → List Expr
  | [] => []
  | e :: es => alphaExpr d new env pos e :: alphaExprs d new env (pos + 2 * sizeExpr e) es
/-- the renamed statement and the environment after it -/
def alphaStat (d : Nat) (new : Name) (env : Env) (pos : Nat) : Stat → Stat × Env
  | .locl names vals =>
    (.locl (alphaBinders d new (pos + 2) names)
      (alphaExprs d new env (pos + 2 * (1 + names.length + eqTokens vals)) vals), bindNames env (pos + 2) names)
  | .assign vars vals =>
    (.assign (vars.map (alphaUse d new env)) (alphaExprs d new env (pos + 2 * (vars.length + 1)) vals), env)
  | .localFunc n ps body =>
    let env1 := (n, pos + 4) :: env
    (.localFunc (if pos + 4 = d then new else n) (alphaBinders d new (pos + 8) ps)
      (alphaBlock d new (bindNames env1 (pos + 8) ps) (pos + 2 * (5 + ps.length)) body).1, env1)
  | .funcStat n ps body =>
    (.funcStat (alphaUse d new env n) (alphaBinders d new (pos + 6) ps)
      (alphaBlock d new (bindNames env (pos + 6) ps) (pos + 2 * (4 + ps.length)) body).1, env)
  | .forNum v e1 e2 body =>
    (.forNum (if pos + 2 = d then new else v) (alphaExpr d new env (pos + 6) e1)
      (alphaExpr d new env (pos + 6 + 2 * sizeExpr e1) e2)
      (alphaBlock d new ((v, pos + 2) :: env) (pos + 8 + 2 * sizeExpr e1 + 2 * sizeExpr e2) body).1, env)
  | .forIn vs e body =>
    (.forIn (alphaBinders d new (pos + 2) vs) (alphaExpr d new env (pos + 2 * (2 + vs.length)) e)
      (alphaBlock d new (bindNames env (pos + 2) vs) (pos + 2 * (3 + vs.length) + 2 * sizeExpr e) body).1, env)
  | .while_ c body =>
    (.while_ (alphaExpr d new env (pos + 2) c) (alphaBlock d new env (pos + 4 + 2 * sizeExpr c) body).1, env)
  | .repeat_ body c =>
    let b := alphaBlock d new env (pos + 2) body
    (.repeat_ b.1 (alphaExpr d new b.2 (pos + 4 + 2 * sizeBlock body) c), env)
  | .do_ body => (.do_ (alphaBlock d new env (pos + 2) body).1, env)
  | .if_ c t e =>
    (.if_ (alphaExpr d new env (pos + 2) c) (alphaBlock d new env (pos + 4 + 2 * sizeExpr c) t).1
      (alphaBlock d new env (pos + 6 + 2 * sizeExpr c + 2 * sizeBlock t) e).1, env)
  | .callS f args => (.callS (alphaUse d new env f) (alphaExprs d new env (pos + 4) args), env)
  | .loclAttr n val =>
    (.loclAttr (if pos + 2 = d then new else n) (alphaExpr d new env (pos + 12) val), (n, pos + 2) :: env)
  | .method obj k colon ps body =>
    (.method (alphaUse d new env obj) k colon (alphaBinders d new (pos + 6 + 4 * k) ps)
      (alphaBlock d new (bindNames (selfEnv colon (pos + 4 * k) env) (pos + 6 + 4 * k) ps)
        (pos + 2 * (4 + 2 * k + ps.length)) body).1, env)
def alphaBlock (d : Nat) (new : Name) (env : Env) (pos : Nat) : List Stat → List Stat × Env
  | [] => ([], env)
  | st :: rest =>
    ((alphaStat d new env pos st).1 :: (alphaBlock d new (alphaStat d new env pos st).2 (pos + 2 * sizeStat st) rest).1,
     (alphaBlock d new (alphaStat d new env pos st).2 (pos + 2 * sizeStat st) rest).2)
end

/-- the program with the local declaration at token `d` renamed to `new` -/
def alphaProg (d : Nat) (new : Name) (p : List Stat) : List Stat := (alphaBlock d new [] startPos p).1

/-- rename requested at a name token of program `p`. None: the token denotes a global, or the
implicit `self` of a method (which has no name token to rename; the handler answers nothing) -/
def renameAt (p : List Stat) (tok : Nat) : Option (List Nat) :=
  match targetOf (implementation p) tok with
  | some d => if selfDeclAtBlock d startPos p then none else some (renameEdits (implementation p) d)
  | none => none

/-- the program after applying `rename` at the name token `tok` with the new name `new` -/
def applyRename (p : List Stat) (tok : Nat) (new : Name) : List Stat :=
  match renameAt p tok with
  | some edits => substBlock edits new startPos p
  | none => p

end Scope
