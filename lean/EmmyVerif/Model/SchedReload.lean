/-!
# `SchedReload` — a workspace reload running against document notifications (C29)

Model of `spawn_workspace_reload_task` / `apply_workspace_reload` / `sync_reloaded_open_files`
(`crates/emmylua_ls/src/context/workspace_manager.rs`), `init_analysis` →
`EmmyLuaAnalysis::reload_workspace_files` and the inline text-document handlers (C27).

* `wm` = `open_file_texts`, `ver` = `open_file_state_version` (bumped by every `sync_open_file` /
  `close_open_file`), `an` = text analysed per uri, `disk` = file contents (fixed during the run).
* Main loop (inline handlers, in message order): `didOpen/didChange(u,t)` = `syncWm u t` ; `updAn u t` —
  `didClose(u)` = `closeWm u` ; `closeAn u` (analysis back to the disk content / file forgotten).
* Reload task, one lock-protected section per step; reloads are serialised by `reload_lock` (a new one
  starts only when the previous one has finished; requests skipped by the generation check simply never start):
  `r1` (wm.write) snapshot `(ver, open files)` → `r2` (analysis.write) `clear_non_std_workspaces` →
  `r3` (analysis.write) `reload_workspace_files(files on disk, snapshot)`: every file = snapshot text, else
  disk text, else gone → loop `l1` (wm.read): take a new snapshot; same version as the applied one → done;
  else `l2` (analysis.write): open files := their text in the new snapshot, files open in the applied
  snapshot but not any more := disk content / removed; applied := new; back to `l1`.

Workspace membership: `member u` = `is_workspace_file(u)` under the current matcher. Every reload request carries
the matcher of its configuration; `r1` installs it (`update_match_state`) **before** taking the snapshot, and the
snapshot only lists the open documents that are workspace files *under the new matcher*. The handlers record
the editor text unconditionally (`sync_open_file`) and decide in the same critical section whether the document
is analysed (`should_process` = known to the analysis ∨ workspace file): `syncCheck`. So a document opened while
it was excluded is in `wm`, and a reload that brings it into the workspace finds it in its snapshot.
`Cfg.syncBeforeCheck = false` is the variant that tests first and returns without recording.
Import-free, executable.
-/
namespace SchedReload

abbrev Uri := Nat
abbrev Text := Nat
abbrev TMap := Uri → Option Text

def TMap.set (m : TMap) (u : Uri) (v : Option Text) : TMap := fun k => if k = u then v else m k

/-- what the analysis should hold: the editor text of an open file, else the disk content -/
def overlay (wm disk : TMap) : TMap := fun u => match wm u with
  | some t => some t
  | none => disk u

inductive Notif | edit (u : Uri) (t : Text) | close (u : Uri) deriving DecidableEq, Repr

inductive Step
  | syncCheck (u : Uri) (t : Text)  -- workspace_manager.write: sync_open_file + membership test (+ file known to the analysis)
  | check (u : Uri) (t : Text)      -- (variant) membership test first; nothing is recorded for a non-workspace file
  | syncWm (u : Uri) (t : Text) | updAn (u : Uri) (t : Text) | closeWm (u : Uri) | closeAn (u : Uri)
  deriving DecidableEq, Repr

structure Snap where
  ver : Nat
  files : TMap

inductive RPhase
  | idle
  | r1 (m : Uri → Bool)   -- about to install the new matcher and snapshot
  | r2 (snap : Snap)
  | r3 (snap : Snap)
  | l1 (applied : Snap)
  | l2 (applied next : Snap)

structure St where
  pending : List Notif
  cur : List Step
  ed : TMap          -- ghost: what the editor has open (text of the last didOpen/didChange taken so far, none after didClose)
  wm : TMap
  ver : Nat
  an : TMap
  member : Uri → Bool              -- current workspace matcher
  reloads : List (Uri → Bool)      -- reload requests that have not started yet, each with its configuration's matcher
  rp : RPhase

inductive Label | main | reload | rstep deriving DecidableEq, Repr

/-- the mechanisms the convergence rests on (all present in the source; switched off only to show that each is
needed) -/
structure Cfg where
  bumpOnSync : Bool    -- `sync_open_file` bumps `open_file_state_version`
  bumpOnClose : Bool   -- `close_open_file` bumps it
  syncLoop : Bool      -- `sync_reloaded_open_files` runs after `init_analysis`
  syncBeforeCheck : Bool  -- the handlers record the editor text before (and whatever) the membership test says
  deriving DecidableEq, Repr

def realCfg : Cfg := { bumpOnSync := true, bumpOnClose := true, syncLoop := true, syncBeforeCheck := true }

def steps (cfg : Cfg) : Notif → List Step
  | .edit u t => if cfg.syncBeforeCheck then [.syncCheck u t] else [.check u t]
  | .close u => [.closeWm u, .closeAn u]

/-- the open documents that are workspace files under matcher `m` (`workspace_open_files`) -/
def filt (m : Uri → Bool) (wm : TMap) : TMap := fun u => if m u then wm u else none

/-- disk content of the workspace files (what a rebuild loads) -/
def mdisk (m : Uri → Bool) (disk : TMap) : TMap := fun u => if m u then disk u else none

/-- the editor's own view after notification `n` -/
def edApply (ed : TMap) : Notif → TMap
  | .edit u t => ed.set u (some t)
  | .close u => ed.set u none

def execStep (cfg : Cfg) (disk : TMap) (s : St) (rest : List Step) : Step → St
  | .syncCheck u t =>
    { s with cur := if (s.an u).isSome || s.member u then .updAn u t :: rest else rest,
             wm := s.wm.set u (some t), ver := if cfg.bumpOnSync then s.ver + 1 else s.ver }
  | .check u t =>
    { s with cur := if (s.an u).isSome || s.member u then .syncWm u t :: .updAn u t :: rest else rest }
  | .syncWm u t => { s with cur := rest, wm := s.wm.set u (some t), ver := if cfg.bumpOnSync then s.ver + 1 else s.ver }
  | .updAn u t => { s with cur := rest, an := s.an.set u (some t) }
  | .closeWm u => { s with cur := rest, wm := s.wm.set u none, ver := if cfg.bumpOnClose then s.ver + 1 else s.ver }
  | .closeAn u => { s with cur := rest, an := s.an.set u (mdisk s.member disk u) }

/-- `apply_open_file_sync` (a document that left the snapshot is restored from disk when it is a workspace file
on disk, else removed) -/
def applySync (m : Uri → Bool) (disk : TMap) (an : TMap) (applied next : Snap) : TMap := fun u =>
  match next.files u with
  | some t => some t
  | none => match applied.files u with
    | some _ => mdisk m disk u
    | none => an u

def exec (cfg : Cfg) (disk : TMap) (s : St) : Label → Option St
  | .main =>
    match s.cur with
    | st :: rest => some (execStep cfg disk s rest st)
    | [] =>
      match s.pending with
      | [] => none
      | n :: ms => some { s with pending := ms, cur := steps cfg n, ed := edApply s.ed n }
  | .reload =>
    match s.rp, s.reloads with
    | .idle, m :: k => some { s with reloads := k, rp := .r1 m }
    | _, _ => none
  | .rstep =>
    match s.rp with
    | .idle => none
    | .r1 m => some { s with member := m, rp := .r2 { ver := s.ver, files := filt m s.wm } }
    | .r2 snap => some { s with an := fun _ => none, rp := .r3 snap }
    | .r3 snap => some { s with an := overlay snap.files (mdisk s.member disk), rp := if cfg.syncLoop then .l1 snap else .idle }
    | .l1 applied =>
      if s.ver = applied.ver then some { s with rp := .idle }
      else some { s with rp := .l2 applied { ver := s.ver, files := filt s.member s.wm } }
    | .l2 applied next => some { s with an := applySync s.member disk s.an applied next, rp := .l1 next }

def run (cfg : Cfg) (disk : TMap) (s : St) : List Label → Option St
  | [] => some s
  | lab :: rest => match exec cfg disk s lab with
    | some s' => run cfg disk s' rest
    | none => none

def init (disk : TMap) (m0 : Uri → Bool) (ms : List Notif) (reloads : List (Uri → Bool)) : St :=
  { pending := ms, cur := [], ed := fun _ => none, wm := fun _ => none, ver := 0, an := mdisk m0 disk, member := m0, reloads := reloads,
    rp := .idle }

def RPhase.isIdle : RPhase → Bool
  | .idle => true
  | _ => false

def quiescent (s : St) : Prop := s.pending = [] ∧ s.cur = [] ∧ s.reloads = [] ∧ s.rp.isIdle = true

def quiescentB (s : St) : Bool := s.pending.isEmpty && s.cur.isEmpty && s.reloads.isEmpty && s.rp.isIdle

/-- progress measure (every step decreases it, see `Lemmas/SchedReload`) -/
def rMeasure (ver : Nat) : RPhase → Nat
  | .idle => 0
  | .r1 _ => 7
  | .r2 _ => 6
  | .r3 _ => 5
  | .l1 a => 1 + (if ver = a.ver then 0 else 3)
  | .l2 _ n => 2 + (if ver = n.ver then 0 else 3)

def stepW : Step → Nat
  | .syncCheck _ _ => 2
  | .check _ _ => 3
  | _ => 1

def curW (l : List Step) : Nat := (l.map stepW).sum

def measure (s : St) : Nat := 4 * (4 * s.pending.length + curW s.cur) + 8 * s.reloads.length + rMeasure s.ver s.rp

/-! ## Exhaustive exploration (search only) -/

def showLabel : Label → String
  | .main => "main" | .reload => "reload" | .rstep => "rstep"

/-- every uri of `us` that is a workspace file now is analysed with the text the EDITOR holds / the disk content -/
def consistentAt (disk : TMap) (s : St) (us : List Uri) : Bool :=
  us.all (fun u => !s.member u || s.an u == overlay s.ed disk u)

def explore (cfg : Cfg) (disk : TMap) (us : List Uri) : Nat → List (St × List Label) → Nat → Except String (Option (List Label) × Nat)
  | 0, _, _ => .error "fuel"
  | _, [], n => .ok (none, n)
  | fuel + 1, (s, path) :: work, n =>
    if quiescentB s then
      if consistentAt disk s us then explore cfg disk us fuel work (n + 1) else .ok (some path.reverse, n + 1)
    else
      let succs := [Label.main, .reload, .rstep].filterMap (fun lab =>
        match exec cfg disk s lab with
        | some s' => some (s', lab :: path)
        | none => none)
      explore cfg disk us fuel (succs ++ work) n

end SchedReload
