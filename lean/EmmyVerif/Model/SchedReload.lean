/-!
# `SchedReload` — a workspace reload running against document notifications (C29)

Model of `spawn_workspace_reload_task` / `apply_workspace_reload` / `sync_reloaded_open_files`
(`crates/emmylua_ls/src/context/workspace_manager.rs`), `init_analysis` →
`EmmyLuaAnalysis::reload_workspace_files` and the inline text-document handlers (C27).

* `wm` = `open_file_texts`, `ver` = `open_file_state_version` (bumped by every `sync_open_file` /
  `close_open_file`), `an` = text analysed per uri, `disk` = file contents (fixed during the run).
* Main loop (inline handlers, in message order): `didOpen/didChange(u,t)` = `syncWm u t` ; `updAn u t` —
  `didClose(u)` = `closeWm u` ; `closeAn u` (analysis back to the disk content / file forgotten).
* Reload task, one lock-protected section per step; reloads are serialised by `reload_lock` (a new one
  starts only when the previous one has finished; requests skipped by the generation check simply never start):
  `r1` (wm.write) snapshot `(ver, open files)` → `r2` (analysis.write) `clear_non_std_workspaces` →
  `r3` (analysis.write) `reload_workspace_files(files on disk, snapshot)`: every file = snapshot text, else
  disk text, else gone → loop `l1` (wm.read): take a new snapshot; same version as the applied one → done;
  else `l2` (analysis.write): open files := their text in the new snapshot, files open in the applied
  snapshot but not any more := disk content / removed; applied := new; back to `l1`.

All uris are workspace files. Import-free, executable.
-/
namespace SchedReload

abbrev Uri := Nat
abbrev Text := Nat
abbrev TMap := Uri → Option Text

def TMap.set (m : TMap) (u : Uri) (v : Option Text) : TMap := fun k => if k = u then v else m k

/-- what the analysis should hold: the editor text of an open file, else the disk content -/
def overlay (wm disk : TMap) : TMap := fun u => match wm u with
  | some t => some t
  | none => disk u

inductive Notif | edit (u : Uri) (t : Text) | close (u : Uri) deriving DecidableEq, Repr

inductive Step
  | syncWm (u : Uri) (t : Text) | updAn (u : Uri) (t : Text) | closeWm (u : Uri) | closeAn (u : Uri)
  deriving DecidableEq, Repr

def steps : Notif → List Step
  | .edit u t => [.syncWm u t, .updAn u t]
  | .close u => [.closeWm u, .closeAn u]

structure Snap where
  ver : Nat
  files : TMap

inductive RPhase
  | idle
  | r1
  | r2 (snap : Snap)
  | r3 (snap : Snap)
  | l1 (applied : Snap)
  | l2 (applied next : Snap)

structure St where
  pending : List Notif
  cur : List Step
  wm : TMap
  ver : Nat
  an : TMap
  reloads : Nat      -- reload requests that have not started yet
  rp : RPhase

inductive Label | main | reload | rstep deriving DecidableEq, Repr

/-- the mechanisms the convergence rests on (all present in the source; switched off only to show that each is
needed) -/
structure Cfg where
  bumpOnSync : Bool    -- `sync_open_file` bumps `open_file_state_version`
  bumpOnClose : Bool   -- `close_open_file` bumps it
  syncLoop : Bool      -- `sync_reloaded_open_files` runs after `init_analysis`
  deriving DecidableEq, Repr

def realCfg : Cfg := { bumpOnSync := true, bumpOnClose := true, syncLoop := true }

def execStep (cfg : Cfg) (disk : TMap) (s : St) (rest : List Step) : Step → St
  | .syncWm u t => { s with cur := rest, wm := s.wm.set u (some t), ver := if cfg.bumpOnSync then s.ver + 1 else s.ver }
  | .updAn u t => { s with cur := rest, an := s.an.set u (some t) }
  | .closeWm u => { s with cur := rest, wm := s.wm.set u none, ver := if cfg.bumpOnClose then s.ver + 1 else s.ver }
  | .closeAn u => { s with cur := rest, an := s.an.set u (disk u) }

/-- `apply_open_file_sync` -/
def applySync (disk : TMap) (an : TMap) (applied next : Snap) : TMap := fun u =>
  match next.files u with
  | some t => some t
  | none => match applied.files u with
    | some _ => disk u
    | none => an u

def exec (cfg : Cfg) (disk : TMap) (s : St) : Label → Option St
  | .main =>
    match s.cur with
    | st :: rest => some (execStep cfg disk s rest st)
    | [] =>
      match s.pending with
      | [] => none
      | n :: ms => some { s with pending := ms, cur := steps n }
  | .reload =>
    match s.rp, s.reloads with
    | .idle, k + 1 => some { s with reloads := k, rp := .r1 }
    | _, _ => none
  | .rstep =>
    match s.rp with
    | .idle => none
    | .r1 => some { s with rp := .r2 { ver := s.ver, files := s.wm } }
    | .r2 snap => some { s with an := fun _ => none, rp := .r3 snap }
    | .r3 snap => some { s with an := overlay snap.files disk, rp := if cfg.syncLoop then .l1 snap else .idle }
    | .l1 applied =>
      if s.ver = applied.ver then some { s with rp := .idle }
      else some { s with rp := .l2 applied { ver := s.ver, files := s.wm } }
    | .l2 applied next => some { s with an := applySync disk s.an applied next, rp := .l1 next }

def run (cfg : Cfg) (disk : TMap) (s : St) : List Label → Option St
  | [] => some s
  | lab :: rest => match exec cfg disk s lab with
    | some s' => run cfg disk s' rest
    | none => none

def init (disk : TMap) (ms : List Notif) (reloads : Nat) : St :=
  { pending := ms, cur := [], wm := fun _ => none, ver := 0, an := disk, reloads := reloads, rp := .idle }

def RPhase.isIdle : RPhase → Bool
  | .idle => true
  | _ => false

def quiescent (s : St) : Prop := s.pending = [] ∧ s.cur = [] ∧ s.reloads = 0 ∧ s.rp.isIdle = true

def quiescentB (s : St) : Bool := s.pending.isEmpty && s.cur.isEmpty && s.reloads == 0 && s.rp.isIdle

/-- progress measure (every step decreases it, see `Lemmas/SchedReload`) -/
def rMeasure (ver : Nat) : RPhase → Nat
  | .idle => 0
  | .r1 => 7
  | .r2 _ => 6
  | .r3 _ => 5
  | .l1 a => 1 + (if ver = a.ver then 0 else 3)
  | .l2 _ n => 2 + (if ver = n.ver then 0 else 3)

def measure (s : St) : Nat := 4 * (3 * s.pending.length + s.cur.length) + 8 * s.reloads + rMeasure s.ver s.rp

/-! ## Exhaustive exploration (search only) -/

def showLabel : Label → String
  | .main => "main" | .reload => "reload" | .rstep => "rstep"

def consistentAt (disk : TMap) (s : St) (us : List Uri) : Bool := us.all (fun u => s.an u == overlay s.wm disk u)

def explore (cfg : Cfg) (disk : TMap) (us : List Uri) : Nat → List (St × List Label) → Nat → Except String (Option (List Label) × Nat)
  | 0, _, _ => .error "fuel"
  | _, [], n => .ok (none, n)
  | fuel + 1, (s, path) :: work, n =>
    if quiescentB s then
      if consistentAt disk s us then explore cfg disk us fuel work (n + 1) else .ok (some path.reverse, n + 1)
    else
      let succs := [Label.main, .reload, .rstep].filterMap (fun lab =>
        match exec cfg disk s lab with
        | some s' => some (s', lab :: path)
        | none => none)
      explore cfg disk us fuel (succs ++ work) n

end SchedReload
