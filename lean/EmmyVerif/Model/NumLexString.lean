/-!
# `StrLex` — model of string, long-bracket and comment lexing (`LuaLexer::lex_string`, `lex_long_string`,
the `'['` and `'-'` arms of `lex`) and of the escape check of `SyntaxErrorChecker`
(`check_normal_string_error`, crates/emmylua_code_analysis/src/diagnostic/checker/syntax_error.rs)

All functions work on the chars of the text starting at the token. Results are (chars consumed, error).
The lexer gates only the `z` escape by language level (`zskip` = level ≠ Lua 5.1); all other escapes are
validated later by the checker, per level (`EscCfg`).
-/
namespace StrLex

def isNl (c : Char) : Bool := c == '\n' || c == '\r'

/-- what `\\z` skips in `lex_string`: `' ' | '\\t' | '\\r' | '\\n' | '\\x0B' | '\\x0C'` (C `isspace`) -/
def isZws (c : Char) : Bool :=
  c == ' ' || c == '\t' || c == '\r' || c == '\n' || c == '\x0B' || c == '\x0C'

/-! ## Short strings -/

/-- position inside `lex_string`'s loop -/
inductive SState
  | N      -- between items
  | B      -- just after a backslash
  | Z      -- inside the whitespace run of `\z`
  | LN     -- just after an escaped `\n` (a directly following `\r` belongs to the same line break)
  | LR     -- just after an escaped `\r` (a directly following `\n` belongs to the same line break)
  deriving DecidableEq, Repr

/-- one char of the loop: the next position, or `none` when the loop breaks *before* this char.
`zskip`: the level has the `\\z` escape (every level but Lua 5.1). -/
def sstep (zskip : Bool) (q : Char) : SState → Char → Option SState
  | .B, c => some (if zskip && c == 'z' then .Z else if c == '\n' then .LN else if c == '\r' then .LR else .N)
  | s, c =>
    if (s == .Z && isZws c) || (s == .LN && c == '\r') || (s == .LR && c == '\n') then
      some (if s == .Z then .Z else .N)
    else if c == q || isNl c then none
    else if c == '\\' then some .B
    else some .N

/-- the loop: chars consumed and the rest at the point the loop breaks -/
def srun (zskip : Bool) (q : Char) : SState → List Char → Nat → Nat × List Char
  | _, [], n => (n, [])
  | s, c :: rest, n =>
    match sstep zskip q s c with
    | some s' => srun zskip q s' rest (n + 1)
    | none => (n, c :: rest)

/-- `lex` on a text starting with a quote `q` (`"` or `'`): token length in chars and "unfinished string" -/
def lexShort (zskip : Bool) : List Char → Option (Nat × Bool)
  | [] => none
  | q :: rest =>
    let (n, r) := srun zskip q .N rest 0
    match r with
    | c :: _ => if c == q then some (n + 2, false) else some (n + 1, true)
    | [] => some (n + 1, true)

/-! ## Long brackets -/

/-- position inside `lex_long_string(sep)`: scanning, or after `]` and `k` equal signs -/
inductive LState
  | scan
  | close (k : Nat)
  deriving DecidableEq, Repr

/-- the loop of `lex_long_string`: chars consumed up to and including the closing bracket, `none` if the
text ends first ("unfinished long string or comment") -/
def lrun (sep : Nat) : LState → List Char → Nat → Option Nat
  | _, [], _ => none
  | .scan, c :: rest, n => if c == ']' then lrun sep (.close 0) rest (n + 1) else lrun sep .scan rest (n + 1)
  | .close k, c :: rest, n =>
    if c == '=' then lrun sep (.close (k + 1)) rest (n + 1)
    else if c == ']' then (if k = sep then some (n + 1) else lrun sep (.close 0) rest (n + 1))
    else lrun sep .scan rest (n + 1)

def countEq : List Char → Nat
  | '=' :: rest => countEq rest + 1
  | _ => 0

inductive LongKind | leftBracket | longString | badDelimiter
  deriving DecidableEq, Repr

/-- the `'['` arm of `lex`: kind, chars consumed, error -/
def lexBracket : List Char → Option (LongKind × Nat × Bool)
  | '[' :: rest =>
    let sep := countEq rest
    match rest.drop sep with
    | '[' :: body =>
      (match lrun sep .scan body 0 with
       | some n => some (.longString, sep + 2 + n, false)
       | none => some (.longString, sep + 2 + body.length, true))
    | _ => if sep = 0 then some (.leftBracket, 1, false) else some (.badDelimiter, 1 + sep, true)
  | _ => none

/-- the closing bracket of level `sep` -/
def closer (sep : Nat) : List Char := ']' :: (List.replicate sep '=' ++ [']'])

/-- specification: index of the first occurrence of `pat` -/
def findSub (pat : List Char) : List Char → Option Nat
  | [] => if pat.isEmpty then some 0 else none
  | c :: rest => if pat.isPrefixOf (c :: rest) then some 0 else (findSub pat rest).map (· + 1)

/-! ## Comments (the `'-'` arm of `lex` after `--`) -/

def takeLine : List Char → Nat
  | [] => 0
  | c :: rest => if isNl c then 0 else takeLine rest + 1

/-- text after `--`: (is long comment, chars consumed after the dashes, error) -/
def lexAfterDashes (t : List Char) : Bool × Nat × Bool :=
  match t with
  | '[' :: rest =>
    let sep := countEq rest
    (match rest.drop sep with
     | '[' :: body =>
       (match lrun sep .scan body 0 with
        | some n => (true, sep + 2 + n, false)
        | none => (true, sep + 2 + body.length, true))
     | _ => (false, takeLine t, false))
  | _ => (false, takeLine t, false)

/-! ## The escape check of the syntax-error checker -/

def isDigit (c : Char) : Bool := '0' ≤ c && c ≤ '9'
def isHexDigit (c : Char) : Bool := isDigit c || ('a' ≤ c && c ≤ 'f') || ('A' ≤ c && c ≤ 'F')
def hexVal (c : Char) : Nat :=
  if isDigit c then c.toNat - '0'.toNat else if 'a' ≤ c && c ≤ 'f' then c.toNat - 'a'.toNat + 10 else c.toNat - 'A'.toNat + 10
def hexNum (ds : List Char) : Nat := ds.foldl (fun a c => a * 16 + hexVal c) 0

/-- Unicode `White_Space` (`char::is_whitespace`) -/
def isWhitespace (c : Char) : Bool :=
  let n := c.toNat
  (9 ≤ n && n ≤ 13) || n == 32 || n == 0x85 || n == 0xA0 || n == 0x1680 || (0x2000 ≤ n && n ≤ 0x200A) ||
  n == 0x2028 || n == 0x2029 || n == 0x202F || n == 0x205F || n == 0x3000

/-- the escapes a language level has (reference manuals, "Lexical Conventions") -/
structure EscCfg where
  lua51 : Bool    -- Lua 5.1: only the simple escapes and decimal escapes; a backslash before any other char quotes it
  uni : Bool      -- the `u{XXX}` escape exists (Lua 5.3 and later, LuaJIT)
  maxU : Nat      -- its largest value (10FFFF in Lua 5.3 / LuaJIT, 2^31 - 1 from Lua 5.4)
  deriving DecidableEq, Repr

def simpleEscape (c : Char) : Bool :=
  c == 'a' || c == 'b' || c == 'f' || c == 'n' || c == 'r' || c == 't' || c == 'v' || c == '\\' || c == '\'' ||
  c == '"' || c == '\r' || c == '\n'

def digitVal (c : Char) : Nat := c.toNat - '0'.toNat

/-- the `while let Some(c) = chars.next()` loop of `check_normal_string_error` on the chars after the opening
delimiter; `true` = an error is reported. Fuel = number of chars. -/
def chk (cfg : EscCfg) (delim : Char) : Nat → List Char → Bool
  | 0, _ => false
  | _, [] => false
  | f + 1, c :: rest =>
    if c == '\\' then
      match rest with
      | [] => false
      | e :: r =>
        if simpleEscape e then chk cfg delim f r
        else if e == 'x' && !cfg.lua51 then
          let hex := r.take 2
          if hex.length == 2 && hex.all isHexDigit then chk cfg delim f (r.drop 2) else true
        else if e == 'u' && cfg.uni then
          -- '{', one or more hex digits, '}', value at most `maxU`
          (match r with
           | [] => true
           | b :: r2 =>
             if b == '{' then
               (match r2.dropWhile isHexDigit with
                | [] => true
                | cl :: r3 =>
                  if cl == '}' && !(r2.takeWhile isHexDigit).isEmpty &&
                      decide (hexNum (r2.takeWhile isHexDigit) ≤ cfg.maxU) then chk cfg delim f r3
                  else true)
             else true)
        else if isDigit e then
          -- up to two more digits; the value must not exceed 255
          (match r with
           | d1 :: r1 =>
             if isDigit d1 then
               (match r1 with
                | d2 :: r2 =>
                  if isDigit d2 then
                    (if digitVal e * 100 + digitVal d1 * 10 + digitVal d2 ≤ 255 then chk cfg delim f r2 else true)
                  else chk cfg delim f r1
                | [] => false)
             else chk cfg delim f r
           | [] => false)
        else if e == 'z' && !cfg.lua51 then chk cfg delim f (r.dropWhile isWhitespace)
        else if cfg.lua51 then chk cfg delim f r
        else true
    else if c == delim then false
    else chk cfg delim f rest

/-- `check_normal_string_error(token, level)`: tokens shorter than 2 bytes are not checked -/
def checkString (cfg : EscCfg) : List Char → Bool
  | [] => false
  | [_] => false
  | d :: rest => chk cfg d rest.length rest

end StrLex
