import EmmyVerif.Model.FlowProg
/-!
# Flow family, part 3: `F` with loops (`FL`) — C41

Adds `while c do … end`, `while true do … end`, `repeat … until c`, `for _i = a, b do … end` (literal bounds),
`for _k in pairs({1,…,n}) do … end` and `if c then break end` to `F`.

`LProg.run` (`Sem`): big-step with fuel (`none` = fuel exhausted).

`LProg.typeAt` (`TypeAt`): `bind_while_stat`, `bind_repeat_stat`, `bind_for_stat`, `bind_for_range_stat`,
`bind_break_stat` of `bind_analyze/stats.rs` as they are: the flow after a `while` with a non-literal condition,
after a numeric `for` that is not statically entered and after a generic `for` is the flow *before* the loop
(the body and the exit edges are dropped); after `while true`, after a statically entered numeric `for` and
after `repeat` it is the merge of the `break` edges with the end of the body (`repeat`: with the true edges of
the `until` condition bound at the end of the body). A loop body always starts from the state before the loop
(there is no back edge), narrowed by the loop condition for `while`.
-/
namespace Flow

mutual
inductive LStmt where
  | assign (x : Nat) (l : Lit)
  | assignVar (x : Nat) (y : Nat)
  | probe (id : Nat) (x : Nat)
  | ite (c : Cond) (thn : LBlock) (rest : LElse)
  | whileDo (c : Cond) (body : LBlock)
  | whileTrue (body : LBlock)
  | repeatUntil (body : LBlock) (c : Cond)
  /-- `for _i = a, b do body end` -/
  | forNum (a b : Nat) (body : LBlock)
  /-- `for _k in pairs({1,…,n}) do body end` -/
  | forIn (n : Nat) (body : LBlock)
  /-- `if c then break end` -/
  | breakIf (c : Cond)
inductive LElse where
  | none
  | els (b : LBlock)
  | elif (c : Cond) (thn : LBlock) (rest : LElse)
inductive LBlock where
  | nil
  | cons (s : LStmt) (rest : LBlock)
end

structure LProg where
  decls : List (Option Lit)
  body : LBlock

def LBlock.isNil : LBlock → Bool
  | .nil => true
  | .cons _ _ => false

/-! ## `Sem` with fuel -/

/-- result of executing a statement: environment, observations, and whether a `break` is propagating -/
structure Out where
  env : Env
  obs : List Obs
  broke : Bool

mutual
def LStmt.exec : Nat → Env → LStmt → Option Out
  | 0, _, _ => none
  | _ + 1, ρ, .assign x l => some ⟨ρ.set x l.val, [], false⟩
  | _ + 1, ρ, .assignVar x y => some ⟨ρ.set x (ρ.get y), [], false⟩
  | _ + 1, ρ, .probe id x => some ⟨ρ, [(id, x, ρ.get x)], false⟩
  | fuel + 1, ρ, .ite c thn rest => if c.eval ρ then LBlock.exec fuel ρ thn else LElse.exec fuel ρ rest
  | fuel + 1, ρ, .whileDo c body =>
    if c.eval ρ then
      match LBlock.exec fuel ρ body with
      | none => none
      | some r1 =>
        if r1.broke then some ⟨r1.env, r1.obs, false⟩
        else match LStmt.exec fuel r1.env (.whileDo c body) with
          | none => none
          | some r2 => some ⟨r2.env, r1.obs ++ r2.obs, false⟩
    else some ⟨ρ, [], false⟩
  | fuel + 1, ρ, .whileTrue body =>
    match LBlock.exec fuel ρ body with
    | none => none
    | some r1 =>
      if r1.broke then some ⟨r1.env, r1.obs, false⟩
      else match LStmt.exec fuel r1.env (.whileTrue body) with
        | none => none
        | some r2 => some ⟨r2.env, r1.obs ++ r2.obs, false⟩
  | fuel + 1, ρ, .repeatUntil body c =>
    match LBlock.exec fuel ρ body with
    | none => none
    | some r1 =>
      if r1.broke then some ⟨r1.env, r1.obs, false⟩
      else if c.eval r1.env then some ⟨r1.env, r1.obs, false⟩
      else match LStmt.exec fuel r1.env (.repeatUntil body c) with
        | none => none
        | some r2 => some ⟨r2.env, r1.obs ++ r2.obs, false⟩
  | fuel + 1, ρ, .forNum a b body => LBlock.execN fuel (b + 1 - a) ρ body
  | fuel + 1, ρ, .forIn n body => LBlock.execN fuel n ρ body
  | _ + 1, ρ, .breakIf c => some ⟨ρ, [], c.eval ρ⟩
def LElse.exec : Nat → Env → LElse → Option Out
  | 0, _, _ => none
  | _ + 1, ρ, .none => some ⟨ρ, [], false⟩
  | fuel + 1, ρ, .els b => LBlock.exec fuel ρ b
  | fuel + 1, ρ, .elif c thn rest => if c.eval ρ then LBlock.exec fuel ρ thn else LElse.exec fuel ρ rest
def LBlock.exec : Nat → Env → LBlock → Option Out
  | 0, _, _ => none
  | _ + 1, ρ, .nil => some ⟨ρ, [], false⟩
  | fuel + 1, ρ, .cons s rest =>
    match LStmt.exec fuel ρ s with
    | none => none
    | some r1 =>
      if r1.broke then some r1
      else match LBlock.exec fuel r1.env rest with
        | none => none
        | some r2 => some ⟨r2.env, r1.obs ++ r2.obs, r2.broke⟩
/-- run the body `n` times (a `break` stops the loop) -/
def LBlock.execN : Nat → Nat → Env → LBlock → Option Out
  | 0, _, _, _ => none
  | _ + 1, 0, ρ, _ => some ⟨ρ, [], false⟩
  | fuel + 1, n + 1, ρ, body =>
    match LBlock.exec fuel ρ body with
    | none => none
    | some r1 =>
      if r1.broke then some ⟨r1.env, r1.obs, false⟩
      else match LBlock.execN fuel n r1.env body with
        | none => none
        | some r2 => some ⟨r2.env, r1.obs ++ r2.obs, false⟩
end

def LProg.initEnv (p : LProg) : Env := p.decls.map fun d => match d with | some l => l.val | none => .nil

/-- `Sem`: the probes reached (with `fuel` steps of nesting/iteration budget) -/
def LProg.run (p : LProg) (fuel : Nat) : Option (List Obs) := (LBlock.exec fuel p.initEnv p.body).map (·.obs)

/-! ## `TypeAt` -/

mutual
def LStmt.assigns (x : Nat) : LStmt → Bool
  | .assign y _ => x == y
  | .assignVar y _ => x == y
  | .probe _ _ => false
  | .ite _ thn rest => thn.assigns x || rest.assigns x
  | .whileDo _ b => b.assigns x
  | .whileTrue b => b.assigns x
  | .repeatUntil b _ => b.assigns x
  | .forNum _ _ b => b.assigns x
  | .forIn _ b => b.assigns x
  | .breakIf _ => false
def LElse.assigns (x : Nat) : LElse → Bool
  | .none => false
  | .els b => b.assigns x
  | .elif _ thn rest => thn.assigns x || rest.assigns x
def LBlock.assigns (x : Nat) : LBlock → Bool
  | .nil => false
  | .cons s rest => s.assigns x || rest.assigns x
end

def LProg.declTy (p : LProg) (x : Nat) : Atom :=
  match p.decls.getD x none with
  | none => .nil
  | some l => if p.body.assigns x then widen l.ty else l.ty

/-- abstract result of a statement: flow id after it, inferred types at its probes, and the `Break` nodes that
target the enclosing loop (in the order they are added to its break label) -/
structure AOut where
  out : Pt
  obs : List AObs
  brks : List Pt

mutual
def LStmt.aexec (nv : Nat) (declOf : Nat → Atom) (cur : Pt) : LStmt → AOut
  | .assign x l => ⟨.node (assignNode nv declOf x l.ty cur), [], []⟩
  | .assignVar x y => ⟨.node (assignVarNode nv declOf x y cur), [], []⟩
  | .probe id x => ⟨.node (passNode nv cur), [(id, x, cur.typeOf x)], []⟩
  | .ite c thn rest =>
    let e := c.edges nv cur
    let rt := thn.aexec nv declOf (finishLabel e.1 cur)
    let rr := rest.aexec nv declOf cur e.2
    ⟨finishLabel (rt.out :: rr.1) cur, rt.obs ++ rr.2.1, rt.brks ++ rr.2.2⟩
  | .whileDo c body =>
    -- `bind_while_stat`, non-literal condition: the body is bound from the true edges, the statement returns `current`
    let e := c.edges nv cur
    let rb := body.aexec nv declOf (finishLabel e.1 cur)
    ⟨cur, rb.obs, []⟩
  | .whileTrue body =>
    -- statically entered: `finish_entered_loop_post_flow` merges the break edges and the end of the body
    let rb := body.aexec nv declOf cur
    ⟨finishLabel (rb.brks ++ [rb.out]) cur, rb.obs, []⟩
  | .repeatUntil body c =>
    let rb := body.aexec nv declOf cur
    let e := c.edges nv rb.out
    ⟨finishLabel (rb.brks ++ e.1) rb.out, rb.obs, []⟩
  | .forNum a b body =>
    -- body bound from the `ForIStat` node (whose antecedent is the loop label, whose antecedent is `current`)
    -- (an empty body has no block node: nothing is bound and the statement returns `current`)
    let rb := body.aexec nv declOf (.node (passNode nv cur))
    if a ≤ b && !body.isNil then ⟨finishLabel (rb.brks ++ [rb.out]) cur, rb.obs, []⟩ else ⟨cur, rb.obs, []⟩
  | .forIn _ body =>
    let rb := body.aexec nv declOf cur
    ⟨cur, rb.obs, []⟩
  | .breakIf c =>
    let e := c.edges nv cur
    ⟨finishLabel e.2 cur, [], [.node (passNode nv (finishLabel e.1 cur))]⟩
def LElse.aexec (nv : Nat) (declOf : Nat → Atom) (cur : Pt) (elseIns : List Pt) :
    LElse → List Pt × List AObs × List Pt
  | .none => ([finishLabel elseIns cur], [], [])
  | .els b =>
    let r := b.aexec nv declOf (finishLabel elseIns cur)
    ([r.out], r.obs, r.brks)
  | .elif c thn rest =>
    let pre := finishLabel elseIns cur
    let e := c.edges nv pre
    let rt := thn.aexec nv declOf (finishLabel e.1 cur)
    let rr := rest.aexec nv declOf cur e.2
    (rt.out :: rr.1, rt.obs ++ rr.2.1, rt.brks ++ rr.2.2)
def LBlock.aexec (nv : Nat) (declOf : Nat → Atom) (cur : Pt) : LBlock → AOut
  | .nil => ⟨cur, [], []⟩
  | .cons s rest =>
    let r1 := s.aexec nv declOf cur
    let r2 := rest.aexec nv declOf r1.out
    ⟨r2.out, r1.obs ++ r2.obs, r1.brks ++ r2.brks⟩
end

def LProg.initPt (p : LProg) : Pt :=
  .node ((List.range p.decls.length).map fun x =>
    let t : Res := .ty [p.declTy x]
    ⟨t, t, t⟩)

/-- `TypeAt` for `FL` -/
def LProg.typeAt (p : LProg) : List AObs :=
  (p.body.aexec p.decls.length p.declTy p.initPt).obs

end Flow
