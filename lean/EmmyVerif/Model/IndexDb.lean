import EmmyVerif.Model.IndexModule
/-!
# Index family — `DbIndex` lifecycle: add / `remove(file)` / `clear` at method granularity

Each `db_index` structure is modelled as association-list maps with the Rust operations. File analysis is
a parameter: a file contributes a list of mutations (`Mut`), each mirroring one public `add_*` method.
Families of maps of the same shape share one model map whose key carries the map's tag:

* `perFile`  — `HashMap<FileId, Vec<_>>` / `HashMap<FileId, HashSet<_>>`: dependency index, diagnostic
  index (actions, diagnostics, file-disabled, file-enabled), decl trees, flow trees, `file_references`,
  `string_references`, `type_references`, `label_references`, `file_namespace`, `file_using_namespace`.
  `remove` = `map.remove(&file)`.
* `keyed`    — `HashMap<K, Vec<(file, v)>>` with `retain`-style removal that drops emptied keys:
  `LuaGlobalIndex::global_decl`; `LuaMetatableIndex::metatables` (key carries the file).
* `nested`   — `HashMap<K, HashMap<FileId, HashSet<_>>>`: `index_reference`, `global_references`;
  `remove` deletes the inner file entry and drops emptied outer keys.
* `owned` + `inFile` — `HashMap<Id, V>` with `HashMap<FileId, HashSet<Id>>` listing a file's ids, ids
  carrying their file: `LuaSignatureIndex`; `remove` deletes the listed ids.
* `prop*`    — `LuaPropertyIndex` (`properties`, `property_owners_map`, `in_filed_owner`) with its
  current `remove` (drops an owner's whole property).
* `memberOwner` — `LuaMemberIndex::member_current_owner` for `clear`.
-/
namespace Index.Db
open Index

abbrev File := Nat

/-- an owner of a doc property: `(shared, id)`; `shared = true` for owners that several files can
contribute to (`LuaSemanticDeclId::TypeDecl`), else the id is private to the contributing file -/
abbrev Owner := Nat

inductive Mut where
  | perFile (slot : Nat) (v : Nat)
  | keyed (map : Nat) (key : Nat) (v : Nat)
  | nested (map : Nat) (key : Nat) (v : Nat)
  | owned (map : Nat) (id : Nat) (v : Nat)
  | prop (owner : Owner) (field : Nat) (v : Nat)
deriving DecidableEq, Repr

/-- one `LuaCommonProperty`: last value written per field -/
abbrev Prop' := List (Nat × Nat)

structure Db where
  perFile : List ((Nat × File) × List Nat)
  keyed : List ((Nat × Nat) × List (File × Nat))
  nested : List ((Nat × Nat) × List (File × List Nat))
  owned : List ((Nat × File × Nat) × Nat)
  inFile : List ((Nat × File) × List Nat)
  props : List (Nat × Prop')             -- `properties` : property id ↦ property
  propOwners : List (Owner × Nat)        -- `property_owners_map`
  propInFile : List (File × List Owner)  -- `in_filed_owner`
  propCount : Nat                        -- `id_count`
deriving Repr

def Db.new : Db := ⟨[], [], [], [], [], [], [], [], 0⟩

def insertSet (xs : List Nat) (x : Nat) : List Nat := if x ∈ xs then xs else xs ++ [x]

/-- per-file maps: slots `< 10` hold a `Vec` (push), slots `≥ 10` a `HashSet` (insert) -/
def accum (slot : Nat) (old : List Nat) (v : Nat) : List Nat :=
  if slot < 10 then old ++ [v] else insertSet old v

/-- `HashMap<FileId, HashSet<_>>::entry(file).or_default().insert(x)` on an inner per-file map -/
def nestedInsert (inner : List (File × List Nat)) (f : File) (v : Nat) : List (File × List Nat) :=
  aset inner f (insertSet (agetL inner f) v)

/-- `get_or_create_property` -/
def getOrCreateProp (d : Db) (o : Owner) : Db × Nat :=
  match aget d.propOwners o with
  | some id => (d, id)
  | none =>
    ({ d with propOwners := aset d.propOwners o d.propCount
              props := aset d.props d.propCount []
              propCount := d.propCount + 1 }, d.propCount)

/-- one `add_*` call made while analysing file `f` -/
def apply (d : Db) (f : File) : Mut → Db
  | .perFile slot v => { d with perFile := aset d.perFile (slot, f) (accum slot (agetL d.perFile (slot, f)) v) }
  | .keyed map key v => { d with keyed := apush d.keyed (map, key) (f, v) }
  | .nested map key v =>
    { d with nested := aset d.nested (map, key) (nestedInsert (agetL d.nested (map, key)) f v) }
  | .owned map id v =>
    { d with owned := aset d.owned (map, f, id) v
             inFile := aset d.inFile (map, f) (insertSet (agetL d.inFile (map, f)) id) }
  | .prop o field v =>
    let (d, id) := getOrCreateProp d o
    { d with props := aupdate d.props id (fun p => aset p field v)
             propInFile := aset d.propInFile f (insertSet (agetL d.propInFile f) o) }

/-- `retain`-style removal on vector-valued maps whose items carry their file; drops emptied keys -/
def retainKeyed (m : List ((Nat × Nat) × List (File × Nat))) (f : File) :
    List ((Nat × Nat) × List (File × Nat)) :=
  m.filterMap fun e =>
    let v := e.2.filter fun x => x.1 ≠ f
    if v.isEmpty then none else some (e.1, v)

def retainNested (m : List ((Nat × Nat) × List (File × List Nat))) (f : File) :
    List ((Nat × Nat) × List (File × List Nat)) :=
  m.filterMap fun e =>
    let v := adel e.2 f
    if v.isEmpty then none else some (e.1, v)

/-- the loop body of `LuaPropertyIndex::remove`: the owner loses its map entry and its whole property -/
def dropOwner (d : Db) (o : Owner) : Db :=
  match aget d.propOwners o with
  | none => d
  | some id => { d with propOwners := adel d.propOwners o, props := adel d.props id }

/-- `LuaPropertyIndex::remove`: every owner recorded for the file loses its map entry and its property -/
def removeProps (d : Db) (f : File) : Db :=
  match aget d.propInFile f with
  | none => d
  | some owners => owners.foldl dropOwner { d with propInFile := adel d.propInFile f }

/-- `LuaSignatureIndex::remove`: `in_file_signatures.remove(file)` and every listed id leaves `signatures`
(for every tagged map of this shape) -/
def removeOwned (owned : List ((Nat × File × Nat) × Nat)) (inFile : List ((Nat × File) × List Nat)) (f : File) :
    List ((Nat × File × Nat) × Nat) :=
  (inFile.filter fun e => e.1.2 = f).foldl
    (fun o e => e.2.foldl (fun o id => adel o (e.1.1, f, id)) o) owned

/-- `DbIndex::remove(file)` on the modelled maps -/
def remove (d : Db) (f : File) : Db :=
  let d := removeProps d f
  { d with
    perFile := d.perFile.filter fun e => e.1.2 ≠ f
    keyed := retainKeyed d.keyed f
    nested := retainNested d.nested f
    owned := removeOwned d.owned d.inFile f
    inFile := d.inFile.filter fun e => e.1.2 ≠ f }

/-! which Rust field (DbIndex field, struct field) each model map stands for -/

def perFileField : Nat → Option (String × String)
  | 0 => some ("diagnostic_index", "diagnostics")
  | 10 => some ("file_dependencies_index", "dependencies")
  | 11 => some ("diagnostic_index", "file_diagnostic_disabled")
  | _ => none

def keyedField : Nat → Option (String × String)
  | 0 => some ("global_index", "global_decl")
  | _ => none

def nestedField : Nat → Option (String × String)
  | 0 => some ("references_index", "index_reference")
  | 1 => some ("references_index", "global_references")
  | _ => none

def ownedField : Nat → Option (String × String)
  | 0 => some ("signature_index", "signatures")
  | _ => none

def inFileField : Nat → Option (String × String)
  | 0 => some ("signature_index", "in_file_signatures")
  | _ => none

/-- `DbIndex::clear()` on the modelled maps: a map is emptied iff the source's `clear` resets its field
(`srcCleared`, regenerated from the source every run) -/
def clear (d : Db) : Db :=
  { perFile := d.perFile.filter fun e => survivesClear (perFileField e.1.1)
    keyed := d.keyed.filter fun e => survivesClear (keyedField e.1.1)
    nested := d.nested.filter fun e => survivesClear (nestedField e.1.1)
    owned := d.owned.filter fun e => survivesClear (ownedField e.1.1)
    inFile := d.inFile.filter fun e => survivesClear (inFileField e.1.1)
    props := if survivesClear (some ("property_index", "properties")) then d.props else []
    propOwners := if survivesClear (some ("property_index", "property_owners_map")) then d.propOwners else []
    propInFile := if survivesClear (some ("property_index", "in_filed_owner")) then d.propInFile else []
    propCount := if survivesClear (some ("property_index", "id_count")) then d.propCount else 0 }

/-- a tagged mutation: which file's analysis performs it -/
abbrev FMut := File × Mut

def build (ms : List FMut) : Db := ms.foldl (fun d m => apply d m.1 m.2) Db.new

def applyAll (d : Db) (ms : List FMut) : Db := ms.foldl (fun d m => apply d m.1 m.2) d

/-- `update_file`: `remove_index([f])` then the file's new contributions -/
def update (d : Db) (f : File) (contrib : List Mut) : Db :=
  applyAll (remove d f) (contrib.map fun m => (f, m))

/-- `reindex`: `clear_index` then every live file's contributions in Vfs (file id) order -/
def reindex (d : Db) (contribs : List FMut) : Db := applyAll (clear d) contribs

end Index.Db
