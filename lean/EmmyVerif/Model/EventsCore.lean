/-!
# Model of the token-stream core of `LuaParser` (crates/emmylua_parser/src/parser/lua_parser.rs)

`init`, `bump`, `skip_trivia`, `parse_trivia_tokens` (with the blank-line and inline-comment rules)
and `parse_comments`. The grammar (4 k lines) can touch the token stream only through `bump` (and
`set_current_token_kind`, which the grammar only uses to turn a name into a keyword: it never
changes the class of a token), so a whole parse is, for this layer, a number of `bump` calls.

Events are recorded as token *indices*: `eat i` = `EatToken` of lexer token `i`; `doc a b` = the
lexer tokens `[a, b)` (a comment group without its trailing whitespace) handed to
`LuaDocParser::parse`, which re-lexes that text range into doc tokens (`DocSpec`: its `EatToken`s
tile exactly that range — checked on the implementation by the correspondence run).
Import-free.
-/
namespace Core

/-- token classes the core distinguishes (`is_trivia_kind`, `is_invalid_kind`, the arms of
`parse_trivia_tokens`) -/
inductive TK
  | comment      -- TkShortComment | TkLongComment
  | eol          -- TkEndOfLine
  | ws           -- TkWhitespace
  | shebang      -- TkShebang
  | eof          -- TkEof | None  (never produced by the lexer)
  | other        -- everything else
  deriving DecidableEq, Repr

def TK.isTrivia : TK → Bool
  | .comment | .eol | .ws | .shebang => true
  | _ => false

/-- `is_invalid_kind`: not emitted by `bump` itself -/
def TK.isInvalid : TK → Bool
  | .other => false
  | _ => true

inductive Ev
  | eat (i : Nat)
  | doc (a b : Nat)
  deriving DecidableEq, Repr

/-- `skip_trivia`: first index ≥ `i` that is not trivia (or the length) -/
def skipTrivia (toks : List TK) (i : Nat) : Nat :=
  i + ((toks.drop i).takeWhile TK.isTrivia).length

/-- the backwards scan of the inline-comment rule from index `j` (inclusive) down to 0:
`true` iff a non-whitespace, non-end-of-line token is found before an end-of-line -/
def inlineScan (toks : List TK) : Nat → Bool
  | 0 => match (toks[0]? : Option TK) with
    | some TK.eol => false
    | some TK.ws => false
    | some _ => true
    | none => false
  | j+1 => match (toks[j+1]? : Option TK) with
    | some TK.eol => false
    | some TK.ws => inlineScan toks j
    | some _ => true
    | none => false

/-- `parse_comments` for the group `[a, b)`; `ts` = start of the trailing whitespace/eol run -/
def trailStart (toks : List TK) (a b : Nat) : Nat :=
  b - (((toks.drop a).take (b - a)).reverse.takeWhile (fun k => k == .ws || k == .eol)).length

def parseComments (toks : List TK) (docOn : Bool) (a b : Nat) : List Ev :=
  if docOn then
    let ts := trailStart toks a b
    Ev.doc a ts :: (List.range' ts (b - ts)).map Ev.eat
  else (List.range' a (b - a)).map Ev.eat

structure TS where          -- loop state of `parse_trivia_tokens`
  lineCount : Nat
  docStart : Option Nat
  out : List Ev             -- events emitted so far (in order)
  deriving Repr

/-- one iteration `i` of the `for i in start..next_index` loop -/
def triviaStep (toks : List TK) (docOn : Bool) (st : TS) (i : Nat) : TS :=
  match (toks[i]? : Option TK) with
  | none => st                                     -- (index out of bounds in the Rust: not reachable, `i < next ≤ len`)
  | some TK.comment =>
    { st with lineCount := 0, docStart := some (st.docStart.getD i) }
  | some TK.eol =>
    let lc := st.lineCount + 1
    match st.docStart with
    | none => { st with lineCount := lc, out := st.out ++ [Ev.eat i] }
    | some a =>
      if lc > 1 then
        { lineCount := lc, docStart := none, out := st.out ++ parseComments toks docOn a (i+1) }
      else if i + 1 - a == 2 && i ≥ 2 && inlineScan toks (i - 2) then
        { lineCount := lc, docStart := none, out := st.out ++ parseComments toks docOn a (i+1) }
      else { st with lineCount := lc }
  | some TK.ws | some TK.shebang =>
    match st.docStart with
    | none => { st with out := st.out ++ [Ev.eat i] }
    | some _ => st
  | some _ =>
    match st.docStart with
    | none => st
    | some a => { st with docStart := none, out := st.out ++ parseComments toks docOn a i }

/-- `parse_trivia_tokens(next)` started at `start` -/
def parseTrivia (toks : List TK) (docOn : Bool) (start next : Nat) : List Ev :=
  let st := (List.range' start (next - start)).foldl (triviaStep toks docOn) ⟨0, none, []⟩
  match st.docStart with
  | none => st.out
  | some a => st.out ++ parseComments toks docOn a next

structure PS where
  idx : Nat                 -- token_index
  events : List Ev
  deriving Repr

/-- `bump`; `none` = index out of bounds panic (bump at or past the end) -/
def bump (toks : List TK) (docOn : Bool) (s : PS) : Option PS :=
  match toks[s.idx]? with
  | none => none
  | some k =>
    let own := if k.isInvalid then [] else [Ev.eat s.idx]
    let next := skipTrivia toks (s.idx + 1)
    some { idx := next, events := s.events ++ own ++ parseTrivia toks docOn s.idx next }

/-- `init`: bump once if the first token is trivia -/
def init (toks : List TK) (docOn : Bool) : PS :=
  match toks[0]? with
  | some k => if k.isTrivia then (bump toks docOn ⟨0, []⟩).getD ⟨0, []⟩ else ⟨0, []⟩
  | none => ⟨0, []⟩

/-- bump until the end (`fuel` ≥ number of tokens suffices: `bump_advances`) -/
def bumpAll (toks : List TK) (docOn : Bool) : Nat → PS → PS
  | 0, s => s
  | f+1, s => match bump toks docOn s with
    | none => s
    | some s' => bumpAll toks docOn f s'

/-- the token-level event stream of a whole parse -/
def parseEvents (toks : List TK) (docOn : Bool) : List Ev :=
  (bumpAll toks docOn toks.length (init toks docOn)).events

/-- `n` successive `bump`s (stops where the Rust would panic: a bump at the end) -/
def bumpN (toks : List TK) (docOn : Bool) : Nat → PS → PS
  | 0, s => s
  | n+1, s => match bump toks docOn s with
    | none => s
    | some s' => bumpN toks docOn n s'

/-- the loop of `parse_chunk` (crates/emmylua_parser/src/grammar/lua/mod.rs). `g` stands for
`parse_stats`, i.e. for the whole grammar: it can move the token index only by calling `bump`, so
its effect on this layer is a number of bumps chosen from the current state — *any* function.
The progress guard: if `parse_stats` consumed nothing, one token is bumped. `fuel` = iterations. -/
def chunkLoop (toks : List TK) (docOn : Bool) (g : PS → Nat) : Nat → PS → PS
  | 0, s => s
  | f+1, s =>
    if toks.length ≤ s.idx then s else
    let s1 := bumpN toks docOn (g s) s
    let s2 := if s1.idx == s.idx then (bump toks docOn s1).getD s1 else s1
    chunkLoop toks docOn g f s2

/-- token indices covered by an event list, in order -/
def cover : List Ev → List Nat
  | [] => []
  | .eat i :: es => i :: cover es
  | .doc a b :: es => List.range' a (b - a) ++ cover es

end Core
