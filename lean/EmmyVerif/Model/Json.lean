/-!
# Model of configuration loading (C31, C32)

* `J` — `serde_json::Value` (integers only; objects are key/value lists in iteration order — the
  real `Map` is a `BTreeMap`, iteration = sorted keys, the harness sends fields in that order).
* `flat` / `set` / `mergeFile` / `loadFlat` — `flatten_object`, `FlattenConfigObject::set`,
  `FlattenConfigObject::merge`, the loop of `load_configs_raw` (after the `fix:` commit: every
  file is flattened *into* one map; a setting replaces the settings it conflicts with).
* `insertAt` / `toNested` — `insert_at_path`, `to_emmyrc_json`.
* `prePath` — `PreProcessContext::pre_process_path` (env vars, placeholders, `~`, `./`, absolute).

The flattened map is an association list in insertion order; the real one is a `BTreeMap`
(sorted). Results are compared after canonical (sorted-key) printing.
-/
namespace Json

inductive J where
  | null
  | bool (b : Bool)
  | num (n : Int)
  | str (s : List Char)
  | arr (xs : List J)
  | obj (fs : List (List Char × J))
  deriving Repr

mutual
def J.beq : J → J → Bool
  | .null, .null => true
  | .bool a, .bool b => a == b
  | .num a, .num b => a == b
  | .str a, .str b => a == b
  | .arr a, .arr b => J.beqList a b
  | .obj a, .obj b => J.beqFields a b
  | _, _ => false
def J.beqList : List J → List J → Bool
  | [], [] => true
  | a :: as, b :: bs => J.beq a b && J.beqList as bs
  | _, _ => false
def J.beqFields : List (List Char × J) → List (List Char × J) → Bool
  | [], [] => true
  | (k, a) :: as, (k', b) :: bs => k == k' && J.beq a b && J.beqFields as bs
  | _, _ => false
end

instance : BEq J := ⟨J.beq⟩

def J.isObj : J → Bool
  | .obj _ => true
  | _ => false

abbrev Key := List Char
abbrev Flat := List (Key × J)

/-! ## flatten -/

/-- `format!("{}.{}", prefix, k)`, or `k` alone when the prefix is empty -/
def joinKey (pre k : Key) : Key := if pre.isEmpty then k else pre ++ '.' :: k

mutual
/-- `flatten_object`: the leaves (non-object values) with their dotted keys, in iteration order -/
def flat (pre : Key) : J → Flat
  | .obj fs => flatFields pre fs
  | .null => [(pre, .null)]
  | .bool b => [(pre, .bool b)]
  | .num n => [(pre, .num n)]
  | .str s => [(pre, .str s)]
  | .arr xs => [(pre, .arr xs)]
def flatFields (pre : Key) : List (Key × J) → Flat
  | [] => []
  | (k, v) :: rest => flat (joinKey pre k) v ++ flatFields pre rest
end

/-! ## the flattened map -/

def isPrefixOf : Key → Key → Bool
  | [], _ => true
  | _ :: _, [] => false
  | a :: as, b :: bs => a == b && isPrefixOf as bs

/-- `is_nested_below(key, parent)`: `key` = `parent` + `.` + something -/
def isNestedBelow (key parent : Key) : Bool := isPrefixOf (parent ++ ['.']) key

def conflicts (k key : Key) : Bool := isNestedBelow k key || isNestedBelow key k

def lookup (k : Key) : Flat → Option J
  | [] => none
  | (k', v) :: rest => if k' == k then some v else lookup k rest

/-- insert or replace (`BTreeMap::insert`) -/
def upsert (k : Key) (v : J) : Flat → Flat
  | [] => [(k, v)]
  | (k', v') :: rest => if k' == k then (k, v) :: rest else (k', v') :: upsert k v rest

/-- `base.extend(overlay.filter(|x| seen.insert(x)))` with `seen` = the items of `base` -/
def dedupAppend (base : List J) : List J → List J
  | [] => base
  | x :: rest => if base.contains x then dedupAppend base rest else dedupAppend (base ++ [x]) rest

/-- `FlattenConfigObject::set` -/
def set (m : Flat) (k : Key) (v : J) : Flat :=
  let m' := m.filter fun e => !conflicts e.1 k
  match lookup k m', v with
  | some (.arr base), .arr ov => upsert k (.arr (dedupAppend base ov)) m'
  | _, _ => upsert k v m'

def applyLeaves (m : Flat) (ls : Flat) : Flat := ls.foldl (fun m e => set m e.1 e.2) m

/-- `FlattenConfigObject::merge` -/
def mergeFile (m : Flat) (j : J) : Flat := applyLeaves m (flat [] j)

/-- the loop of `load_configs_raw` -/
def loadFlat (files : List J) : Flat := files.foldl mergeFile []

/-! ## back to nested objects -/

/-- `str::split('.')` -/
def splitDots : Key → List Key
  | [] => [[]]
  | c :: rest =>
    if c = '.' then [] :: splitDots rest
    else match splitDots rest with
      | [] => [[c]]
      | s :: ss => (c :: s) :: ss

/-- `insert_at_path`: an intermediate value that is not an object is replaced by an object -/
def insertAt (fs : Flat) : List Key → J → Flat
  | [], _ => fs
  | [k], v => upsert k v fs
  | k :: k2 :: rest, v =>
    let child := match lookup k fs with
      | some (.obj c) => c
      | _ => []
    upsert k (.obj (insertAt child (k2 :: rest) v)) fs

/-- `to_emmyrc_json` -/
def toNested (m : Flat) : J := .obj (m.foldl (fun fs e => insertAt fs (splitDots e.1) e.2) [])

/-- `load_configs_raw` on already parsed files (unreadable / unparsable files are skipped before) -/
def loadRaw (files : List J) : J := toNested (loadFlat files)

/-- the pre-fix emitter: descending through a value that is not an object is a panic
(`expect("always an object")` / `IndexMut` on a non-object). Kept to state that the invariant of
`set` makes the robust branch of `insertAt` unreachable. -/
def insertStrict (fs : Flat) : List Key → J → Option Flat
  | [], _ => some fs
  | [k], v => some (upsert k v fs)
  | k :: k2 :: rest, v =>
    match lookup k fs with
    | some (.obj c) => (insertStrict c (k2 :: rest) v).map fun c' => upsert k (.obj c') fs
    | none => (insertStrict [] (k2 :: rest) v).map fun c' => upsert k (.obj c') fs
    | some _ => none

/-! ## path pre-processing -/

structure Env where
  workspace : List Char
  home : Option (List Char)
  vars : List (List Char × List Char)
  luarocks : List Char

def Env.var (e : Env) (k : List Char) : Option (List Char) :=
  match e.vars.find? (fun p => p.1 == k) with
  | some p => some p.2
  | none => none

inductive PRes where
  | ok (s : List Char)
  | panic
  | unsupported
  deriving Repr, DecidableEq

/-- ASCII part of the regex class `\w`; `none` for non-ASCII characters (Unicode tables are not
modelled: such inputs answer `unsupported`) -/
def wordClass (c : Char) : Option Bool :=
  if c.toNat < 128 then some (c.isAlphanum || c == '_') else none

/-- longest run of word characters; `none` when a non-ASCII character would have to be classified -/
def takeWord : List Char → Option (List Char × List Char)
  | [] => some ([], [])
  | c :: rest =>
    match wordClass c with
    | none => none
    | some false => some ([], c :: rest)
    | some true => (takeWord rest).map fun (w, r) => (c :: w, r)

/-- `replace_env_var`: `\$(\w+)` replaced by the variable's value (empty when unset) -/
def replaceEnvVar (e : Env) : Nat → List Char → Option (List Char)
  | 0, _ => some []
  | _, [] => some []
  | fuel + 1, c :: rest =>
    if c = '$' then
      match takeWord rest with
      | none => none
      | some ([], _) => (replaceEnvVar e fuel rest).map (c :: ·)
      | some (w, r) => (replaceEnvVar e fuel r).map ((e.var w).getD [] ++ ·)
    else (replaceEnvVar e fuel rest).map (c :: ·)

def startsWith (p s : List Char) : Bool := isPrefixOf p s

/-- the replacement for one `{key}` -/
def placeholder (e : Env) (key : List Char) : List Char :=
  if key == "workspaceFolder".toList then e.workspace
  else if startsWith "env:".toList key then (e.var (key.drop 4)).getD []
  else if key == "luarocks".toList then e.luarocks
  else '{' :: key ++ ['}']

/-- `replace_placeholders`: `\{([^}]+)\}` -/
def replacePlaceholders (e : Env) : Nat → List Char → List Char
  | 0, _ => []
  | _, [] => []
  | fuel + 1, c :: rest =>
    if c = '{' then
      let key := rest.takeWhile (· != '}')
      let after := rest.dropWhile (· != '}')
      match after with
      | [] => c :: rest                       -- no `}` left: nothing can match any more
      | _ :: after' =>
        if key.isEmpty then c :: replacePlaceholders e fuel rest
        else placeholder e key ++ replacePlaceholders e fuel after'
    else c :: replacePlaceholders e fuel rest

/-- `PathBuf::join` (Unix) followed by `to_string_lossy` -/
def joinPath (base rel : List Char) : List Char :=
  if startsWith ['/'] rel then rel
  else if base.isEmpty || base.getLast? == some '/' then base ++ rel
  else base ++ '/' :: rel

/-- `&s[n..]`: `none` = panic (out of range or not on a character boundary) -/
def sliceFrom : Nat → List Char → Option (List Char)
  | 0, s => some s
  | _ + 1, [] => none
  | n + 1, c :: rest => if c.utf8Size ≤ n + 1 then sliceFrom (n + 1 - c.utf8Size) rest else none

/-- `home_relative` -/
def homeRelative (p : List Char) : Option (List Char) :=
  match p with
  | '~' :: rest =>
    match rest with
    | [] => some []
    | c :: rest' => if c = '/' ∨ c = '\\' then some rest' else none
  | _ => none

/-- `pre_process_path` -/
def prePath (e : Env) (p : List Char) : PRes :=
  match replaceEnvVar e (p.length + 1) p with
  | none => .unsupported
  | some p1 =>
    let p2 := p1.filter (· != '$')
    let p3 := replacePlaceholders e (p2.length + 1) p2
    match homeRelative p3 with
    | some rest =>
      match e.home with
      | none => .ok p3
      | some h => .ok (joinPath h rest)
    | none =>
      if startsWith ['.', '/'] p3 then
        match sliceFrom 2 p3 with
        | none => .panic
        | some rest => .ok (joinPath e.workspace rest)
      else if startsWith ['/'] p3 then .ok p3
      else .ok (joinPath e.workspace p3)

/-! ## every path-carrying setting

`Emmyrc::pre_process_emmyrc` sends `workspace.workspaceRoots`, `workspace.ignoreDir`, `resource.paths`
through `process_and_dedup_string`, and `workspace.library` / `workspace.packages` through
`process_and_dedup_workspace_path_items` (plain paths, or `{path, ignoreDir}` whose `ignoreDir`
entries are expanded relative to the expanded `path`). -/

/-- keep the first occurrence (`filter(|p| seen.insert(p.clone()))`) -/
def dedupFirst : List (List Char) → List (List Char) → List (List Char)
  | _, [] => []
  | seen, x :: rest =>
    if seen.contains x then dedupFirst seen rest else x :: dedupFirst (x :: seen) rest

/-- `pre_process_path` over a list of strings (before the dedup) -/
def prePaths (e : Env) (ps : List (List Char)) : List PRes := ps.map (prePath e)

/-- `pre_process_workspace_path_item` for `Config { path, ignore_dir }` -/
def preItemConfig (e : Env) (path : List Char) (dirs : List (List Char)) : PRes × List PRes :=
  match prePath e path with
  | .ok s => (.ok s, dirs.map (prePath { e with workspace := s }))
  | .panic => (.panic, [])
  | .unsupported => (.unsupported, [])

end Json
