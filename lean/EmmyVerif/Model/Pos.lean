import EmmyVerif.Model.Text
/-!
# Pos family — the common prelude of every position-taking LSP handler (C25)

`position → LuaDocument::get_offset → [guard: offset > root.end → None] → token_at_offset(offset)`
(hover/mod.rs, definition/mod.rs, references/mod.rs, rename/mod.rs, completion/mod.rs, signature_helper/mod.rs,
document_highlight/mod.rs, call_hierarchy/mod.rs, implementation/mod.rs, document_selection_range/mod.rs,
inline_values/build_inline_values.rs, code_actions/actions/*.rs) and `LuaDocument::to_rowan_range`
(crates/emmylua_code_analysis/src/vfs/document.rs) used by range formatting / document color.

rowan's `SyntaxNode::token_at_offset(o)` requires `o ≤ root.end` (it asserts the offset is inside the
node's range); `TextRange::new(s, e)` asserts `s ≤ e`. Both are explicit obligations here.
Only imports the (import-free) Text model, so the driver links natively.
-/
namespace Pos

/-- `LuaDocument::to_rowan_range` (after the fix): `None` when a bound has no offset **or** when the
client's range is inverted; `Some (s, e)` is handed to `TextRange::new`. -/
def toRowanRange (t : List Char) (sl sc el ec : Nat) : Option (Nat × Nat) :=
  match Text.getOffset t sl sc, Text.getOffset t el ec with
  | some s, some e => if s ≤ e then some (s, e) else none
  | _, _ => none

/-- outcome of a handler prelude -/
inductive Prelude
  | noOffset               -- `get_offset` returned `None` (line does not exist): handler returns `None`
  | guarded                -- the end-of-document guard fired: handler returns `None`
  | lookup (off : Nat)     -- `token_at_offset(off)` is called
  deriving DecidableEq, Repr

/-- `rootEnd` is the end of the syntax tree's root range (= the document length when the tree is lossless) -/
def prelude (t : List Char) (rootEnd line col : Nat) : Prelude :=
  match Text.getOffset t line col with
  | none => .noOffset
  | some o => if o > rootEnd then .guarded else .lookup o

end Pos
