import EmmyVerif.Gen.FeaturesTable
/-!
# `Features` — which syntax each language level switches on (hand-written specification)

Written from the reference manuals (§3 "The Language" / §8 or §9 "Incompatibilities" of Lua 5.1 – 5.5) and,
for `LuaJIT2`, from LuaJIT's extensions page. It is compared with the table regenerated from
`LexerConfig::new(level).support(f)` by `C03.features_match_manual`.

* Lua 5.1: none of the gated syntax.
* Lua 5.2: `goto` / labels.
* Lua 5.3: + bitwise operators `& | ~ << >>` and floor division `//`.
* Lua 5.4: + attributes `local x <const>`, `<close>`.
* Lua 5.5: + `global` declarations and named vararg tables `function f(...t)`.
* LuaJIT 2.x (level `LuaJIT2`): Lua 5.1 + `goto` (5.2 compatibility) + `LL`/`ULL` integers, imaginary
  literals `12i`, binary literals `0b101`.
`LuaJIT` and `LuaJIT3` are dialects of a LuaJIT fork with no reference manual in the sandbox; for them only
`LuaJIT2 ⊆ LuaJIT ⊆ LuaJIT3` and the absence of `//`-comments and `/* */` (config-only extras) are specified.
-/
namespace Features
open Gen.Features (Level Feature)

/-- features that exist in some PUC-Rio Lua version -/
def isStandard : Feature → Bool
  | .Goto | .BitwiseOperation | .IntegerFloorDivision | .LocalAttrib | .GlobalDeclaration | .NamedVararg => true
  | _ => false

/-- the manuals' answer for the PUC-Rio levels and LuaJIT 2 -/
def manual : Level → Feature → Option Bool
  | .Lua51, _ => some false
  | .Lua52, f => some (f matches .Goto)
  | .Lua53, f => some (f matches .Goto | .BitwiseOperation | .IntegerFloorDivision)
  | .Lua54, f => some (f matches .Goto | .BitwiseOperation | .IntegerFloorDivision | .LocalAttrib)
  | .Lua55, f => some (f matches .Goto | .BitwiseOperation | .IntegerFloorDivision | .LocalAttrib
                                  | .GlobalDeclaration | .NamedVararg)
  | .LuaJIT2, f => some (f matches .Goto | .ComplexNumber | .LLInteger | .BinaryInteger)
  | .LuaJIT, _ => none
  | .LuaJIT3, _ => none

/-- does the (regenerated) implementation table agree with the manual wherever the manual speaks? -/
def agrees (impl : Level → Feature → Bool) (l : Level) (f : Feature) : Bool :=
  match manual l f with
  | some b => impl l f == b
  | none => true

/-- the order in which the PUC-Rio versions were released -/
def stdChain : List Level := [.Lua51, .Lua52, .Lua53, .Lua54, .Lua55]

/-- the LuaJIT dialect chain -/
def jitChain : List Level := [.Lua51, .LuaJIT2, .LuaJIT, .LuaJIT3]

/-- `impl` only grows along `chain` -/
def monotoneAlong (impl : Level → Feature → Bool) : List Level → Bool
  | a :: b :: rest => Feature.all.all (fun f => !impl a f || impl b f) && monotoneAlong impl (b :: rest)
  | _ => true

end Features
