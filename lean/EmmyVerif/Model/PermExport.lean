import EmmyVerif.Model.Perm
/-!
# PermExport — executable model of the JSON documentation export's list construction
(crates/emmylua_doc_cli/src/json_generator/export.rs after the ordering fix):
`export_types`, `export_modules`, `export_globals` read an index map's values — a hash map, so the listing
arrives in an *arbitrary permutation* — then sort, filter to the main workspace and (globals) keep one entry
per name. Names are abstract ordered keys (`Nat`; the harness maps the names of a workspace to their rank in
Rust's `str` order). Core-only.
-/
namespace Export
open PermModel

structure TypeDecl where
  name : Nat
  /-- 0 class, 1 enum, 2 alias, ≥ 3 anything else (not exported) -/
  kind : Nat
  /-- the declarations of the type (`get_locations`): (file, position), first declaration first -/
  locs : List (Nat × Nat)
deriving DecidableEq, Repr

/-- `type_sort_key`: `(full name, first location)`; `Option` orders `None` before `Some` -/
def TypeDecl.key (t : TypeDecl) : Nat × Nat × Nat × Nat :=
  match t.locs with
  | [] => (t.name, 0, 0, 0)
  | (f, p) :: _ => (t.name, 1, f, p)

def lexLe4 (a b : Nat × Nat × Nat × Nat) : Bool :=
  decide (a.1 < b.1) || (decide (a.1 = b.1) &&
    (decide (a.2.1 < b.2.1) || (decide (a.2.1 = b.2.1) &&
      (decide (a.2.2.1 < b.2.2.1) || (decide (a.2.2.1 = b.2.2.1) && decide (a.2.2.2 ≤ b.2.2.2))))))

structure ModuleInfo where
  name : Nat
  file : Nat
  /-- `export_type.is_some()` -/
  exports : Bool
deriving DecidableEq, Repr

structure GlobalDecl where
  name : Nat
  file : Nat
  pos : Nat
  /-- the declaration and its type cache exist (`filter_map` keeps it) -/
  typed : Bool
deriving DecidableEq, Repr

def typeLe (a b : TypeDecl) : Bool := lexLe4 a.key b.key

/-- the ordering before the tie-break fix: full name only -/
def typeLeNameOnly (a b : TypeDecl) : Bool := decide (a.name ≤ b.name)

/-- `(&a.full_module_name, a.file_id).cmp(…)` -/
def moduleLe (a b : ModuleInfo) : Bool := decide (a.name < b.name) || (decide (a.name = b.name) && decide (a.file ≤ b.file))

/-- `sort_by_key(|g| (g.file_id, g.position))` -/
def declLe (a b : GlobalDecl) : Bool := decide (a.file < b.file) || (decide (a.file = b.file) && decide (a.pos ≤ b.pos))

def globalNameLe (a b : GlobalDecl) : Bool := decide (a.name ≤ b.name)

/-- `export_types`: sort by (full name, first declaration), keep types with a main-workspace location,
keep class/enum/alias -/
def exportTypes (isMain : Nat → Bool) (listing : List TypeDecl) : List TypeDecl :=
  ((isort typeLe listing).filter (fun t => t.locs.any (fun l => isMain l.1))).filter (fun t => decide (t.kind < 3))

/-- the behaviour between the two fixes: a stable sort by full name only (same-named file-private types
stay in hash order) -/
def exportTypesNameOnly (isMain : Nat → Bool) (listing : List TypeDecl) : List TypeDecl :=
  ((isort typeLeNameOnly listing).filter (fun t => t.locs.any (fun l => isMain l.1))).filter (fun t => decide (t.kind < 3))

/-- the pre-fix behaviour: hash order -/
def exportTypesUnsorted (isMain : Nat → Bool) (listing : List TypeDecl) : List TypeDecl :=
  (listing.filter (fun t => t.locs.any (fun l => isMain l.1))).filter (fun t => decide (t.kind < 3))

/-- `export_modules`: sort by (name, file), keep main-workspace modules that export something -/
def exportModules (isMain : Nat → Bool) (listing : List ModuleInfo) : List ModuleInfo :=
  ((isort moduleLe listing).filter (fun m => isMain m.file)).filter (fun m => m.exports)

/-- `Vec::dedup_by` on the name: drop an element equal (by name) to the last kept one -/
def dedupAux (prev : Nat) : List GlobalDecl → List GlobalDecl
  | [] => []
  | b :: rest => if b.name = prev then dedupAux prev rest else b :: dedupAux b.name rest

def dedupName : List GlobalDecl → List GlobalDecl
  | [] => []
  | a :: rest => a :: dedupAux a.name rest

/-- `export_globals`: declaration ids sorted by (file, position); main-workspace declarations with a type;
stable sort by name; one entry per name (the first declaration) -/
def exportGlobals (isMain : Nat → Bool) (listing : List GlobalDecl) : List GlobalDecl :=
  dedupName (isort globalNameLe (((isort declLe listing).filter (fun g => isMain g.file)).filter (fun g => g.typed)))

end Export
