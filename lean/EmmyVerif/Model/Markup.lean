/-!
# `Markup` — model of the range bookkeeping of `emmylua_parser_desc` (util.rs, lib.rs)

* `descToLines` — `desc_to_lines`: from the tokens of a doc description (detail / end-of-line / comment
  start with its number of leading dashes) to the line ranges handed to the Markdown / RST parsers;
* `emit` — `ResultContainer::emit_range`: append an item or merge it into the last one;
* `sortResult` — `sort_result`: stable sort by (start, longer first, scopes first);
* `Cursor` — the range arithmetic of `Reader` over one line (`current_range`, `bump`, `reset_buff`).

Ranges are byte offsets (`SourceRange { start_offset, length }`). The text is a list of chars with UTF-8
sizes; every char predicate `desc_to_lines` uses is reproduced (`-`, blank, indentation, `trim_end`).
Not modelled: the Markdown / MyST / RST block and inline grammars themselves (search only).
-/
namespace Markup

structure Range where
  start : Nat
  len : Nat
  deriving DecidableEq, Repr

def Range.stop (r : Range) : Nat := r.start + r.len

/-- `SourceRange::EMPTY` -/
def Range.EMPTY : Range := ⟨0, 0⟩

inductive TokKind
  | detail                 -- TkDocDetail
  | eol                    -- TkEndOfLine
  | start (marks : Nat)    -- TkNormalStart | TkDocContinue with its count of leading '-'
  deriving DecidableEq, Repr

structure Tok where
  kind : TokKind
  range : Range
  deriving DecidableEq, Repr

/-! ## Text queries -/

/-- the chars of `t` whose byte offset lies in `[s, e)`; `off` is the offset of the head -/
def slice : List Char → Nat → Nat → Nat → List Char
  | [], _, _, _ => []
  | c :: cs, off, s, e =>
    if s ≤ off ∧ off < e then c :: slice cs (off + c.utf8Size) s e else slice cs (off + c.utf8Size) s e

/-- Unicode `White_Space` (what `str::trim_end` strips) -/
def isWhitespace (c : Char) : Bool :=
  let n := c.toNat
  (9 ≤ n && n ≤ 13) || n == 32 || n == 0x85 || n == 0xA0 || n == 0x1680 || (0x2000 ≤ n && n ≤ 0x200A) ||
  n == 0x2028 || n == 0x2029 || n == 0x202F || n == 0x205F || n == 0x3000

/-- `char::is_ascii_whitespace` -/
def isAsciiWs (c : Char) : Bool := c == ' ' || c == '\t' || c == '\n' || c == '\x0C' || c == '\r'

def isWs (c : Char) : Bool := c == ' ' || c == '\t'

def trimEnd (cs : List Char) : List Char := (cs.reverse.dropWhile isWhitespace).reverse

def countWhile (p : Char → Bool) : List Char → Nat
  | [] => 0
  | c :: cs => if p c then countWhile p cs + 1 else 0

/-- the questions `desc_to_lines` asks about a range of the text -/
structure TextQ where
  allDash : Range → Bool        -- `text[r].chars().all(|c| c == '-')`
  allDashTrim : Range → Bool    -- `text[r].trim_end().chars().all(|c| c == '-')`
  blank : Range → Bool          -- `is_blank(text[r])`
  indent : Range → Nat          -- `text[r].chars().take_while(is_ws).count()`

def textQ (t : List Char) : TextQ where
  allDash r := (slice t 0 r.start r.stop).all (· == '-')
  allDashTrim r := (trimEnd (slice t 0 r.start r.stop)).all (· == '-')
  blank r := (slice t 0 r.start r.stop).all isAsciiWs
  indent r := countWhile isWs (slice t 0 r.start r.stop)

/-! ## `desc_to_lines` -/

structure St where
  lines : List Range    -- pushed lines, most recent first
  line : Range
  skip : Bool
  seen : Bool

def St.init : St := ⟨[], Range.EMPTY, false, false⟩

/-- `handle_token` -/
def step (q : TextQ) (s : St) (t : Tok) : St :=
  match t.kind with
  | .detail =>
    if s.skip then s
    else if s.line.stop = t.range.start then { s with line := ⟨s.line.start, s.line.len + t.range.len⟩ }
    else if s.line ≠ Range.EMPTY then
      { s with seen := s.seen || !q.allDash s.line, lines := s.line :: s.lines, line := t.range }
    else { s with line := t.range }
  | .eol =>
    { lines := s.line :: s.lines, line := Range.EMPTY, skip := false, seen := s.seen || !q.allDash s.line }
  | .start marks =>
    if marks ≠ 3 then { s with skip := true, line := ⟨t.range.start, 0⟩ }
    else { s with skip := false, line := ⟨t.range.start + marks, t.range.len - marks⟩ }

/-- all lines in source order and the `seen_doc_comments` flag after the token loop and the final push -/
def collect (q : TextQ) (toks : List Tok) : List Range × Bool :=
  let s := toks.foldl (step q) St.init
  if s.line.len ≠ 0 then ((s.line :: s.lines).reverse, s.seen || !q.allDashTrim s.line)
  else (s.lines.reverse, s.seen)

/-- strip lines consisting only of dashes from both ends -/
def stripDashes (q : TextQ) (ls : List Range) : List Range :=
  ((ls.dropWhile q.allDashTrim).reverse.dropWhile q.allDashTrim).reverse

def commonIndent (q : TextQ) : List Range → Option Nat
  | [] => none
  | l :: ls =>
    if q.blank l then commonIndent q ls
    else match commonIndent q ls with
      | none => some (q.indent l)
      | some m => some (min m (q.indent l))

def dedent (ci : Nat) (l : Range) : Range :=
  if 0 < ci ∧ ci ≤ l.len then ⟨l.start + ci, l.len - ci⟩ else l

/-- drop the lines past the cursor -/
def cut : Option Nat → List Range → List Range
  | none, ls => ls
  | some c, ls => ls.takeWhile (fun l => !(decide (c < l.start)))

def descToLines (q : TextQ) (toks : List Tok) (cursor : Option Nat) : List Range :=
  let (ls, seen) := collect q toks
  if !seen then []
  else
    let ls := stripDashes q ls
    let ci := (commonIndent q ls).getD 0
    cut cursor (ls.map (dedent ci))

/-! ## `emit_range` and `sort_result` -/

/-- `DescItemKind` as a number: 0 Scope, 1 Ref, 2 Em, 3 Strong, 4 Code, 5 Link, 6 JavadocLink, 7 Markup,
8 Arg, 9 CodeBlock, 10+k CodeBlockHl(k) -/
structure Item where
  range : Range
  kind : Nat
  deriving DecidableEq, Repr

def shouldEmit (cursor : Option Nat) (r : Range) (kind : Nat) : Bool :=
  match cursor with
  | some c => (kind == 1 || kind == 6) && decide (r.start ≤ c) && decide (c ≤ r.stop)
  | none => r.len != 0

/-- `emit_range`; `items` holds the results most recent first -/
def emit (cursor : Option Nat) (items : List Item) (r : Range) (kind : Nat) : List Item :=
  if shouldEmit cursor r kind then
    match items with
    | [] => [⟨r, kind⟩]
    | last :: rest =>
      if last.kind = kind ∧ last.range.stop = r.start then
        -- TextRange::cover of two touching ranges
        ⟨⟨min last.range.start r.start, max last.range.stop r.stop - min last.range.start r.start⟩, kind⟩ :: rest
      else ⟨r, kind⟩ :: last :: rest
  else items

/-- a whole sequence of emits, results in emission order -/
def runEmits (cursor : Option Nat) (es : List (Range × Nat)) : List Item :=
  (es.foldl (fun acc e => emit cursor acc e.1 e.2) []).reverse

/-- the sort key order of `sort_result`: start ascending, then longer first, then scopes first -/
def keyLe (a b : Item) : Bool :=
  if a.range.start ≠ b.range.start then decide (a.range.start < b.range.start)
  else if a.range.len ≠ b.range.len then decide (b.range.len < a.range.len)
  else (a.kind == 0) || !(b.kind == 0)

/-- `sort_result` (`sort_by_key` is a stable merge sort, as is `List.mergeSort`) -/
def sortResult (items : List Item) : List Item := items.mergeSort keyLe

/-! ## `Reader` over one line -/

/-- the part of `Reader` that produces ranges: the valid range, the start of the buffer, the position -/
structure Cursor where
  lo : Nat
  hi : Nat
  buf : Nat
  pos : Nat
  deriving DecidableEq, Repr

def Cursor.new (r : Range) : Cursor := ⟨r.start, r.stop, r.start, r.start⟩
/-- `bump` over a char of `n` bytes (no-op at the end) -/
def Cursor.bump (c : Cursor) (n : Nat) : Cursor := if c.pos + n ≤ c.hi then { c with pos := c.pos + n } else c
def Cursor.resetBuff (c : Cursor) : Cursor := { c with buf := c.pos }
def Cursor.currentRange (c : Cursor) : Range := ⟨c.buf, c.pos - c.buf⟩

end Markup
